(* C13WriterProofs.v — the word-level writer of C13Model (shift / or / mask on a 64-bit
   accumulator, byte-draining loop, zero-run counter) refines the bit-stream view:
   after any Write the logical stream grows by exactly the written bits, and the bytes
   emitted are the standard escaping of the whole bytes of that stream. *)
From V.lib Require Import Base.
From V.c13 Require Import C13Spec C13Model C13Bits C13EscProofs.

(* ------------------------------------------------------------------ chunking a bit list *)
Fixpoint chunk8 (fuel : nat) (l : list bool) : list N * list bool :=
  match fuel with
  | O => ([], l)
  | S f =>
      if (8 <=? length l)%nat then
        let '(bs, r) := chunk8 f (skipn 8 l) in (val_of (firstn 8 l) :: bs, r)
      else ([], l)
  end.

Lemma chunk8_concat fuel l :
  bytes_to_bits (fst (chunk8 fuel l)) ++ snd (chunk8 fuel l) = l.
Proof.
  revert l. induction fuel as [|f IH]; intros l; cbn [chunk8]; [reflexivity|].
  destruct (Nat.leb_spec 8 (length l)) as [H|H]; [|reflexivity].
  specialize (IH (skipn 8 l)). destruct (chunk8 f (skipn 8 l)) as [bs r]. cbn [fst snd] in *.
  unfold bytes_to_bits in *. cbn [flat_map]. rewrite <- app_assoc, IH.
  replace 8%nat with (length (firstn 8 l)) at 1 by (rewrite firstn_length; lia).
  rewrite bits_of_val_of. apply firstn_skipn.
Qed.

Lemma chunk8_rest_short fuel l : (length l < 8 * fuel)%nat -> (length (snd (chunk8 fuel l)) < 8)%nat.
Proof.
  revert l. induction fuel as [|f IH]; intros l H; [lia|]. cbn [chunk8].
  destruct (Nat.leb_spec 8 (length l)) as [H8|H8]; [|exact H8].
  specialize (IH (skipn 8 l)). destruct (chunk8 f (skipn 8 l)) as [bs r]. cbn [snd] in *.
  apply IH. rewrite skipn_length. lia.
Qed.

Lemma chunk8_bytes_lt fuel l : Forall (fun b => b < 256) (fst (chunk8 fuel l)).
Proof.
  revert l. induction fuel as [|f IH]; intros l; cbn [chunk8]; [constructor|].
  destruct (Nat.leb_spec 8 (length l)) as [H8|H8]; [|constructor].
  specialize (IH (skipn 8 l)). destruct (chunk8 f (skipn 8 l)) as [bs r]. cbn [fst] in *.
  constructor; [|exact IH].
  pose proof (val_of_lt (firstn 8 l)) as Hlt. rewrite firstn_length in Hlt.
  replace (Nat.min 8 (length l)) with 8%nat in Hlt by lia. exact Hlt.
Qed.

(* ------------------------------------------------------------------ emitting bytes *)
Fixpoint emit_all (esc : bool) (z : N) (out : list N) (l : list N) : N * list N :=
  match l with
  | [] => (z, out)
  | b :: t => let '(z', o') := emit_byte esc b z out in emit_all esc z' o' t
  end.

Fixpoint zafter (z : N) (l : list N) : N :=
  match l with
  | [] => z
  | b :: t =>
      zafter (if (z =? 2) && (b <=? 3) then (if b =? 0 then 1 else 0)
              else (if b =? 0 then z + 1 else 0)) t
  end.

Lemma emit_all_esc z out l :
  emit_all true z out l = (zafter z l, rev (escape_from z l) ++ out).
Proof.
  revert z out. induction l as [|b t IH]; intros z out; [reflexivity|].
  cbn [emit_all escape_from zafter]. unfold emit_byte. cbn [andb].
  destruct ((z =? 2) && (b <=? 3)) eqn:E; cbv beta iota.
  - rewrite IH. f_equal. cbn [rev]. rewrite <- !app_assoc. reflexivity.
  - rewrite IH. f_equal. cbn [rev]. rewrite <- !app_assoc. reflexivity.
Qed.

Lemma emit_all_plain z out l : snd (emit_all false z out l) = rev l ++ out.
Proof.
  revert z out. induction l as [|b t IH]; intros z out; [reflexivity|].
  cbn [emit_all]. unfold emit_byte. cbn [andb]. cbv beta iota.
  rewrite IH. cbn [rev]. rewrite <- app_assoc. reflexivity.
Qed.

Lemma escape_from_app z l1 l2 :
  escape_from z (l1 ++ l2) = escape_from z l1 ++ escape_from (zafter z l1) l2.
Proof.
  revert z. induction l1 as [|b t IH]; intros z; [reflexivity|].
  cbn [app escape_from zafter].
  destruct ((z =? 2) && (b <=? 3)); cbn [app]; rewrite IH; reflexivity.
Qed.

Lemma zafter_app z l1 l2 : zafter z (l1 ++ l2) = zafter (zafter z l1) l2.
Proof. revert z. induction l1 as [|b t IH]; intros z; [reflexivity|]. cbn [app zafter]. apply IH. Qed.

Lemma emit_all_app esc z out l1 l2 :
  emit_all esc z out (l1 ++ l2) =
  let '(z1, o1) := emit_all esc z out l1 in emit_all esc z1 o1 l2.
Proof.
  revert z out. induction l1 as [|b t IH]; intros z out; [reflexivity|].
  cbn [app emit_all]. destruct (emit_byte esc b z out) as [z' o']. apply IH.
Qed.

(* ------------------------------------------------------------------ the drain loop *)
Lemma drain_spec esc fuel : forall T V z out,
  drain esc fuel V (N.of_nat T) z out =
  let '(bs, r) := chunk8 fuel (bits_of T V) in
  let '(z', o') := emit_all esc z out bs in
  (N.of_nat (length r), z', o').
Proof.
  induction fuel as [|f IH]; intros T V z out.
  - cbn [drain chunk8 emit_all]. rewrite bits_of_length. reflexivity.
  - cbn [drain chunk8]. rewrite bits_of_length.
    destruct (Nat.leb_spec 8 T) as [H8|H8].
    + destruct (N.leb_spec 8 (N.of_nat T)) as [_|Hc]; [|lia].
      assert (HT : T = (8 + (T - 8))%nat) by lia.
      set (T' := (T - 8)%nat) in *.
      assert (Hb : N.land (N.shiftr V (N.of_nat T - 8)) 255 = val_of (firstn 8 (bits_of T V))).
      { rewrite HT at 2. rewrite firstn_bits_of, val_of_bits_of.
        change (2 ^ N.of_nat 8) with 256. rewrite land_255.
        replace (N.of_nat T - 8) with (N.of_nat T') by lia. reflexivity. }
      rewrite Hb.
      assert (Hs : skipn 8 (bits_of T V) = bits_of T' V).
      { rewrite HT at 1. apply skipn_bits_of. }
      rewrite Hs.
      destruct (emit_byte esc (val_of (firstn 8 (bits_of T V))) z out) as [z1 o1] eqn:Ee.
      replace (N.of_nat T - 8) with (N.of_nat T') by lia.
      rewrite IH.
      destruct (chunk8 f (bits_of T' V)) as [bs r]. cbn [emit_all]. rewrite Ee. reflexivity.
    + destruct (N.leb_spec 8 (N.of_nat T)) as [Hc|_]; [lia|].
      cbn [emit_all]. rewrite bits_of_length. reflexivity.
Qed.

Lemma chunk8_pending fuel T V :
  snd (chunk8 fuel (bits_of T V)) = bits_of (length (snd (chunk8 fuel (bits_of T V)))) V.
Proof.
  revert T. induction fuel as [|f IH]; intros T; cbn [chunk8].
  - cbn [snd]. rewrite bits_of_length. reflexivity.
  - rewrite bits_of_length. destruct (Nat.leb_spec 8 T) as [H8|H8].
    + assert (HT : T = (8 + (T - 8))%nat) by lia.
      assert (Hs : skipn 8 (bits_of T V) = bits_of (T - 8) V) by (rewrite HT at 1; apply skipn_bits_of).
      rewrite Hs.
      specialize (IH (T - 8)%nat). destruct (chunk8 f (bits_of (T - 8) V)) as [bs r]. exact IH.
    + cbn [snd]. rewrite bits_of_length. reflexivity.
Qed.

(* ------------------------------------------------------------------ one Write call *)
(* the accumulator after `v <<= n; v |= bits & Mask(n)` holds the old pending bits followed
   by the n new bits, as long as everything fits in 64 bits *)
Lemma write_acc_bits wn0 wv0 bits n :
  (wn0 + n <= 64)%nat ->
  bits_of (wn0 + n)
    (N.lor (u64 (N.shiftl wv0 (N.of_nat n))) (N.land bits (N.ones (N.of_nat n))))
  = bits_of wn0 wv0 ++ bits_of n bits.
Proof.
  intros Hfit. apply bits_of_app_ext.
  - intros i Hi. rewrite N.lor_spec, N.land_spec, N.ones_spec_low by lia.
    unfold u64. change 18446744073709551616 with (2 ^ 64).
    rewrite N.mod_pow2_bits_low by lia. rewrite N.shiftl_spec_low by lia.
    cbn [orb]. apply andb_true_r.
  - intros i Hi. rewrite N.lor_spec, N.land_spec, N.ones_spec_high by lia.
    unfold u64. change 18446744073709551616 with (2 ^ 64).
    rewrite N.mod_pow2_bits_low by lia. rewrite N.shiftl_spec_high' by lia.
    rewrite andb_false_r, orb_false_r. f_equal. lia.
Qed.

(* Writer invariant: fewer than 8 pending bits; the bytes written so far are the escaping
   (or, without emulation prevention, the verbatim copy) of `raw`; the zero-run counter is
   the escape state after `raw`. *)
Definition WInv (esc : bool) (s : wstate) (raw : list N) : Prop :=
  wn s < 8 /\ Forall (fun b => b < 256) raw /\
  (if esc then wrev s = rev (escape raw) /\ wnr0 s = zafter 0 raw else wrev s = rev raw).

Definition pending (s : wstate) : list bool := bits_of (N.to_nat (wn s)) (wv s).

Lemma WInv_init esc : WInv esc winit [].
Proof. unfold WInv, winit; cbn. destruct esc; repeat split; try lia; constructor. Qed.

Lemma write_gen_spec esc s raw bits n :
  WInv esc s raw -> n <= 56 ->
  exists raw',
    WInv esc (write_gen esc s bits n) raw' /\
    bytes_to_bits raw' ++ pending (write_gen esc s bits n)
    = bytes_to_bits raw ++ pending s ++ bits_of (N.to_nat n) bits /\
    exists added, raw' = raw ++ added /\ Forall (fun b => b < 256) added.
Proof.
  intros [Hn [Hraw Hout]] Hw.
  unfold write_gen.
  set (V := N.lor (u64 (N.shiftl (wv s) n)) (N.land bits (N.ones n))).
  set (T := (N.to_nat (wn s) + N.to_nat n)%nat).
  replace (wn s + n) with (N.of_nat T) by lia.
  set (fuel := S (N.to_nat (N.of_nat T / 8))).
  rewrite drain_spec.
  assert (HV : bits_of T V = pending s ++ bits_of (N.to_nat n) bits).
  { unfold V, T, pending.
    pose proof (write_acc_bits (N.to_nat (wn s)) (wv s) bits (N.to_nat n) ltac:(lia)) as HH.
    rewrite N2Nat.id in HH. exact HH. }
  pose proof (chunk8_concat fuel (bits_of T V)) as Hcat.
  pose proof (chunk8_rest_short fuel (bits_of T V)) as Hshort.
  pose proof (chunk8_pending fuel T V) as Hpend.
  pose proof (chunk8_bytes_lt fuel (bits_of T V)) as Hlt.
  destruct (chunk8 fuel (bits_of T V)) as [bs r] eqn:Ec. cbn [fst snd] in *.
  assert (Hr : (length r < 8)%nat).
  { apply Hshort. rewrite bits_of_length. unfold fuel.
    pose proof (N.mod_lt (N.of_nat T) 8 ltac:(lia)).
    pose proof (N.div_mod (N.of_nat T) 8 ltac:(lia)). lia. }
  destruct (emit_all esc (wnr0 s) (wrev s) bs) as [z' o'] eqn:Ee.
  exists (raw ++ bs). split; [|split].
  - unfold WInv. cbn [wn wrev wnr0]. split; [lia|]. split; [apply Forall_app; split; assumption|].
    destruct esc.
    + destruct Hout as [Ho Hz]. rewrite emit_all_esc in Ee. inversion Ee; subst z' o'.
      rewrite Ho, Hz. unfold escape. rewrite escape_from_app, rev_app_distr, zafter_app. split; reflexivity.
    + pose proof (emit_all_plain (wnr0 s) (wrev s) bs) as Hp. rewrite Ee in Hp. cbn [snd] in Hp.
      rewrite Hp, Hout, rev_app_distr. reflexivity.
  - unfold pending at 1. cbn [wn wv].
    rewrite Nat2N.id.
    assert (Hlow : bits_of (length r) (N.land V 255) = bits_of (length r) V).
    { apply bits_of_ext. intros i Hi. rewrite N.land_spec.
      change 255 with (N.ones 8). rewrite N.ones_spec_low by lia. apply andb_true_r. }
    rewrite Hlow, <- Hpend, bytes_to_bits_app, <- app_assoc, Hcat, HV. reflexivity.
  - exists bs. split; [reflexivity|exact Hlt].
Qed.

(* ------------------------------------------------------------------ Exp-Golomb prefix loop *)
Lemma ue_loop_spec fuel : forall nr p,
  2 ^ p <= nr + 1 -> nr + 1 < 2 ^ (p + N.of_nat fuel) ->
  exists q, ue_loop fuel nr (2 ^ p - 1) p (2 ^ (p + 1) - 2) = (q, nr + 1 - 2 ^ q)
            /\ 2 ^ q <= nr + 1 < 2 ^ (q + 1).
Proof.
  induction fuel as [|f IH]; intros nr p Hlo Hhi.
  - replace (p + N.of_nat 0) with p in Hhi by lia. lia.
  - cbn [ue_loop].
    assert (Hp : 0 < 2 ^ p) by (apply pow2_pos).
    assert (Hp1 : 2 ^ (p + 1) = 2 * 2 ^ p) by (rewrite N.pow_add_r, N.pow_1_r; lia).
    destruct (N.leb_spec nr (2 ^ (p + 1) - 2)) as [Hle|Hgt].
    + exists p. split; [f_equal; lia|]. lia.
    + rewrite N.shiftl_1_l, N.shiftl_1_l.
      replace (2 ^ p - 1 + 2 ^ p) with (2 ^ (p + 1) - 1) by lia.
      assert (Hp2 : 2 ^ (p + 1 + 1) = 2 * 2 ^ (p + 1)) by (rewrite (N.pow_add_r 2 (p+1) 1), N.pow_1_r; lia).
      replace (2 ^ (p + 1) - 1 + 2 ^ (p + 1) - 1) with (2 ^ (p + 1 + 1) - 2) by lia.
      apply IH; [lia|].
      replace (p + 1 + N.of_nat f) with (p + N.of_nat (S f)) by lia. exact Hhi.
Qed.

Definition ue_code (v : N) : list bool :=
  let q := N.to_nat (N.log2 (v + 1)) in repeat false q ++ bits_of (S q) (v + 1).

Lemma bits_of_one_hot p : bits_of (S p) 1 = repeat false p ++ [true].
Proof.
  induction p as [|p IH]; [reflexivity|].
  change (bits_of (S (S p)) 1) with (N.testbit 1 (N.of_nat (S p)) :: bits_of (S p) 1).
  rewrite IH. cbn [repeat app]. f_equal.
Qed.

Lemma ue_code_alt v q :
  2 ^ N.of_nat q <= v + 1 < 2 ^ (N.of_nat q + 1) ->
  ue_code v = (repeat false q ++ [true]) ++ bits_of q (v + 1 - 2 ^ N.of_nat q).
Proof.
  intros [Hlo Hhi]. unfold ue_code.
  assert (Hq : N.log2 (v + 1) = N.of_nat q).
  { apply N.log2_unique; [lia|]. rewrite <- N.add_1_r. split; [exact Hlo|exact Hhi]. }
  rewrite Hq, Nat2N.id. rewrite <- app_assoc. f_equal. cbn [bits_of app]. f_equal.
  - rewrite <- Hq. apply N.bit_log2. lia.
  - apply bits_of_ext. intros i Hi.
    rewrite <- (N.mod_pow2_bits_low (v + 1) (N.of_nat q) i Hi).
    rewrite <- (N.mod_pow2_bits_low (v + 1 - 2 ^ N.of_nat q) (N.of_nat q) i Hi).
    f_equal.
    replace (v + 1) with ((v + 1 - 2 ^ N.of_nat q) + 1 * 2 ^ N.of_nat q) at 1 by lia.
    apply N.mod_add. apply N.pow_nonzero. lia.
Qed.

(* ------------------------------------------------------------------ every writer op *)
(* bits appended by an op, given the stream so far (stuffing depends on alignment) *)
Definition align_zeros (cur : list bool) : list bool :=
  repeat false ((8 - length cur mod 8) mod 8).

Definition sei_code (v : N) : list bool :=
  concat (repeat (bits_of 8 255) (N.to_nat (v / 255))) ++ bits_of 8 (v mod 255).

Definition op_bits (cur : list bool) (o : wop) : list bool :=
  match o with
  | WBits v w => bits_of (N.to_nat w) v
  | WFlag b => [b]
  | WUe v => ue_code v
  | WSe k => ue_code (se_to_ue k)
  | WSei v => sei_code v
  | WTrail => true :: align_zeros (cur ++ [true])
  | WStuff => align_zeros cur
  | WFlush => []
  end.

Definition op_ok (o : wop) : bool :=
  match o with
  | WBits _ w => w <=? 56
  | WUe v => v <? 2 ^ 32
  | WSe k => se_to_ue k <? 2 ^ 32
  | WFlush => false
  | _ => true
  end.

Definition all_bits (ops : list wop) : list bool :=
  fold_left (fun cur o => cur ++ op_bits cur o) ops [].

(* state after op, as a relation to the stream *)
Definition WStream (s : wstate) (cur : list bool) : Prop :=
  exists raw, WInv true s raw /\ bytes_to_bits raw ++ pending s = cur.

Lemma write_stream s cur bits n :
  WStream s cur -> n <= 56 -> WStream (write s bits n) (cur ++ bits_of (N.to_nat n) bits).
Proof.
  intros [raw [HI Hc]] Hn.
  destruct (write_gen_spec true s raw bits n HI Hn) as [raw' [HI' [Hs _]]].
  exists raw'. split; [exact HI'|]. unfold write. rewrite Hs, <- Hc, <- app_assoc. reflexivity.
Qed.

Lemma WStream_pending_len s cur : WStream s cur -> N.of_nat (length cur mod 8) = wn s.
Proof.
  intros [raw [[Hn _] Hc]]. subst cur. rewrite app_length, bytes_to_bits_length.
  unfold pending. rewrite bits_of_length.
  rewrite Nat.add_comm, Nat.mul_comm, Nat.mod_add by lia.
  rewrite Nat.mod_small by lia. lia.
Qed.

Lemma write_ue_stream s cur v :
  WStream s cur -> v < 2 ^ 32 -> WStream (write_ue s v) (cur ++ ue_code v).
Proof.
  intros HS Hv. unfold write_ue.
  destruct (ue_loop_spec 64 v 0) as [q [Hq [Hlo Hhi]]]; [cbn; lia|cbn in *; lia|].
  change (2 ^ 0 - 1) with 0 in Hq. change (2 ^ (0 + 1) - 2) with 0 in Hq. rewrite Hq.
  assert (Hq32 : q <= 32).
  { destruct (N.le_gt_cases q 32) as [H|H]; [exact H|].
    assert (2 ^ 33 <= 2 ^ q) by (apply N.pow_le_mono_r; lia). cbn in *. lia. }
  rewrite (ue_code_alt v (N.to_nat q)) by (rewrite N2Nat.id; split; assumption).
  rewrite N2Nat.id.
  pose proof (write_stream s cur 1 (q + 1) HS ltac:(lia)) as H1.
  replace (N.to_nat (q + 1)) with (S (N.to_nat q)) in H1 by lia.
  rewrite bits_of_one_hot in H1.
  destruct (N.ltb_spec 0 q) as [Hpos|Hz].
  - pose proof (write_stream _ _ (v + 1 - 2 ^ q) q H1 ltac:(lia)) as H2.
    rewrite <- !app_assoc in *. exact H2.
  - assert (q = 0) by lia. subst q. cbn [N.to_nat bits_of]. rewrite app_nil_r. exact H1.
Qed.

Lemma write_sei_value_stream fuel : forall s cur v,
  WStream s cur -> (N.to_nat (v / 255) < fuel)%nat ->
  WStream (write_sei_value_fuel fuel s v) (cur ++ sei_code v).
Proof.
  induction fuel as [|f IH]; intros s cur v HS Hf; [lia|].
  cbn [write_sei_value_fuel].
  destruct (N.leb_spec 255 v) as [Hge|Hlt].
  - pose proof (write_stream s cur 255 8 HS ltac:(lia)) as H1.
    assert (Hd : v / 255 = (v - 255) / 255 + 1).
    { replace v with ((v - 255) + 1 * 255) at 1 by lia. rewrite N.div_add by lia. reflexivity. }
    assert (Hm : v mod 255 = (v - 255) mod 255).
    { replace v with ((v - 255) + 1 * 255) at 1 by lia. rewrite N.mod_add by lia. reflexivity. }
    specialize (IH _ _ (v - 255) H1 ltac:(lia)).
    unfold sei_code in *. rewrite Hd, Hm.
    replace (N.to_nat ((v - 255) / 255 + 1)) with (S (N.to_nat ((v - 255) / 255))) by lia.
    cbn [repeat concat]. change (N.to_nat 8) with 8%nat in IH.
    rewrite <- !app_assoc in *. exact IH.
  - pose proof (write_stream s cur v 8 HS ltac:(lia)) as H1.
    unfold sei_code. rewrite N.div_small, N.mod_small by lia. cbn [N.to_nat repeat concat app]. exact H1.
Qed.

Lemma stuff_zeros_stream s cur : WStream s cur -> WStream (stuff_zeros s) (cur ++ align_zeros cur).
Proof.
  intros HS. pose proof (WStream_pending_len s cur HS) as Hn.
  assert (Hlt : wn s < 8) by (destruct HS as [raw [[H _] _]]; exact H).
  unfold stuff_zeros, align_zeros.
  destruct (N.ltb_spec 0 (wn s)) as [Hpos|Hz].
  - pose proof (write_stream s cur 0 (8 - wn s) HS ltac:(lia)) as H1.
    replace ((8 - length cur mod 8) mod 8)%nat with (N.to_nat (8 - wn s)).
    2:{ rewrite Nat.mod_small; lia. }
    assert (Hz : forall k, bits_of k 0 = repeat false k).
    { induction k as [|k IHk]; [reflexivity|]. cbn [bits_of repeat]. rewrite N.bits_0, IHk. reflexivity. }
    rewrite Hz in H1. exact H1.
  - replace ((8 - length cur mod 8) mod 8)%nat with 0%nat.
    2:{ assert (length cur mod 8 = 0)%nat by lia. rewrite H. reflexivity. }
    cbn [repeat]. rewrite app_nil_r. exact HS.
Qed.

Lemma wstep_stream s cur o :
  WStream s cur -> op_ok o = true -> WStream (wstep s o) (cur ++ op_bits cur o).
Proof.
  intros HS Hok. destruct o as [v w|b|v|k|v| | |]; cbn [wstep op_bits op_ok] in *.
  - apply write_stream; [exact HS|]. apply N.leb_le. exact Hok.
  - pose proof (write_stream s cur (if b then 1 else 0) 1 HS ltac:(lia)) as H1.
    destruct b; exact H1.
  - apply write_ue_stream; [exact HS|]. apply N.ltb_lt. exact Hok.
  - unfold write_se. apply write_ue_stream; [exact HS|]. apply N.ltb_lt. exact Hok.
  - unfold write_sei_value. apply write_sei_value_stream; [exact HS|lia].
  - unfold write_trailing.
    pose proof (write_stream s cur 1 1 HS ltac:(lia)) as H1. change (bits_of (N.to_nat 1) 1) with [true] in H1.
    pose proof (stuff_zeros_stream _ _ H1) as H2. rewrite <- app_assoc in H2. exact H2.
  - apply stuff_zeros_stream. exact HS.
  - discriminate.
Qed.

Lemma run_writer_stream_from ops : forall s cur,
  WStream s cur -> forallb op_ok ops = true ->
  WStream (fold_left wstep ops s) (fold_left (fun cur o => cur ++ op_bits cur o) ops cur).
Proof.
  induction ops as [|o t IH]; intros s cur HS Hok; [exact HS|].
  cbn [forallb] in Hok. apply andb_true_iff in Hok. destruct Hok as [Ho Ht].
  cbn [fold_left]. apply IH; [|exact Ht]. apply wstep_stream; assumption.
Qed.

Lemma run_writer_stream ops :
  forallb op_ok ops = true -> WStream (run_writer ops) (all_bits ops).
Proof.
  intros Hok. apply run_writer_stream_from; [|exact Hok].
  exists []. split; [apply WInv_init|reflexivity].
Qed.

(* at a byte boundary the bytes written are exactly the escaping of the stream's bytes *)
Lemma WStream_aligned s cur :
  WStream s cur -> (length cur mod 8 = 0)%nat ->
  exists raw, wout s = escape raw /\ bytes_to_bits raw = cur /\ Forall (fun b => b < 256) raw
              /\ wn s = 0.
Proof.
  intros HS Hal. pose proof (WStream_pending_len s cur HS) as Hn. rewrite Hal in Hn.
  destruct HS as [raw [[Hn8 [Hraw [Ho Hz]]] Hc]].
  exists raw. unfold wout. rewrite Ho, rev_involutive.
  unfold pending in Hc. rewrite <- Hn in Hc. cbn [N.to_nat bits_of] in Hc. rewrite app_nil_r in Hc.
  repeat split; try assumption. lia.
Qed.

Lemma bytes_to_bits_inj l1 l2 :
  Forall (fun b => b < 256) l1 -> Forall (fun b => b < 256) l2 ->
  bytes_to_bits l1 = bytes_to_bits l2 -> l1 = l2.
Proof.
  revert l2. induction l1 as [|a t IH]; intros [|b u] H1 H2 E.
  - reflexivity.
  - apply (f_equal (@length bool)) in E. rewrite !bytes_to_bits_length in E. cbn in E. lia.
  - apply (f_equal (@length bool)) in E. rewrite !bytes_to_bits_length in E. cbn in E. lia.
  - unfold bytes_to_bits in E. cbn [flat_map] in E.
    inversion H1; subst. inversion H2; subst.
    assert (E1 : firstn 8 (bits_of 8 a ++ flat_map (bits_of 8) t) = firstn 8 (bits_of 8 b ++ flat_map (bits_of 8) u))
      by (rewrite E; reflexivity).
    assert (E2 : skipn 8 (bits_of 8 a ++ flat_map (bits_of 8) t) = skipn 8 (bits_of 8 b ++ flat_map (bits_of 8) u))
      by (rewrite E; reflexivity).
    rewrite !firstn_app, !bits_of_length, Nat.sub_diag, !firstn_O, !app_nil_r in E1.
    rewrite !firstn_all2 in E1 by (rewrite bits_of_length; lia).
    rewrite !skipn_app, !bits_of_length, Nat.sub_diag, !skipn_O in E2.
    rewrite !skipn_all2 in E2 by (rewrite bits_of_length; lia). cbn [app] in E2.
    f_equal.
    + apply (bits_of_inj 8); [assumption|assumption|exact E1].
    + apply IH; assumption.
Qed.
