(* C13ReadAnyPlainProofs.v — bits.Reader.Read(n) for every n (same refill loop as the EBSP reader, no escapes) and
   Reader.ReadSigned in terms of the bits of the stream (C13b). *)
From V.lib Require Import Base.
From V.c13 Require Import C13Spec C13Model C13Bits C13EscProofs C13ReaderProofs C13PlainProofs C13ModelExt
  C13ReadAnyProofs C13SignedProofs.

Definition gpbits (s : rstate) (X : N) : list bool :=
  bits_of (N.to_nat (rn s)) X ++ bytes_to_bits (skipn (N.to_nat (rpos s)) (rdata s)).

Lemma fill_any_plain fuel : forall s X n,
  GInv s X -> rn s < n + 8 ->
  n <= N.of_nat (length (gpbits s X)) -> n <= rn s + 8 * N.of_nat fuel ->
  let s1 := fill false fuel s n in
  exists X1, GInv s1 X1 /\ n <= rn s1 /\ rn s1 < n + 8 /\ gpbits s1 X1 = gpbits s X /\ rdata s1 = rdata s.
Proof.
  induction fuel as [|f IH]; intros s X n HI Hrn Hlen Hfuel; cbn [fill].
  - cbv zeta. exists X. repeat split; try apply HI; lia.
  - destruct (N.ltb_spec (rn s) n) as [Hlt|Hge].
    2:{ cbv zeta. exists X. repeat split; try apply HI; lia. }
    destruct HI as [He [Hv [Hrv Hd]]]. unfold byte_at. cbn [andb].
    assert (Hne : skipn (N.to_nat (rpos s)) (rdata s) <> []).
    { intros E. unfold gpbits in Hlen. rewrite E in Hlen. cbn [bytes_to_bits flat_map] in Hlen.
      rewrite app_nil_r, bits_of_length in Hlen. lia. }
    destruct (nth_error (rdata s) (N.to_nat (rpos s))) as [b|] eqn:Eb.
    2:{ rewrite (nth_error_none_skipn _ _ Eb) in Hne. contradiction. }
    pose proof (nth_error_skipn _ _ _ Eb) as Hsk.
    pose proof (nth_error_Forall _ _ _ _ Hd Eb) as Hb256.
    set (s2 := mkR (rn s + 8) (N.lor (u64 (N.shiftl (rv s) 8)) b) (rpos s + 1)
                   (if b =? 0 then rzc s + 1 else 0) false (rdata s)).
    assert (Hb2 : gpbits s2 (X * 256 + b) = gpbits s X).
    { unfold gpbits, s2. cbn [rn rv rpos rdata]. rewrite Hsk.
      replace (N.to_nat (rpos s + 1)) with (S (N.to_nat (rpos s))) by lia.
      replace (N.to_nat (rn s + 8)) with (N.to_nat (rn s) + 8)%nat by lia.
      rewrite ghost_shift_bits by exact Hb256.
      unfold bytes_to_bits. cbn [flat_map]. rewrite <- app_assoc. reflexivity. }
    assert (HI2 : GInv s2 (X * 256 + b)).
    { unfold GInv, s2. cbn [rerr rv rn rdata]. split; [reflexivity|].
      split; [apply ghost_shift_lt; assumption|]. split; [|exact Hd].
      rewrite Hrv. apply ghost_shift_acc. exact Hb256. }
    assert (Hr2 : rn s2 = rn s + 8) by reflexivity.
    destruct (IH s2 (X * 256 + b) n HI2 ltac:(rewrite Hr2; lia) ltac:(rewrite Hb2; exact Hlen)
                 ltac:(rewrite Hr2; lia)) as [X1 [HI3 [H1 [H2 [H3 H4]]]]].
    exists X1. repeat split; try apply HI3; try assumption.
    rewrite H3. exact Hb2.
Qed.

Lemma read_any_plain s n :
  RInv s -> rn s < 8 -> n <= N.of_nat (length (pbits s)) ->
  let '(v, s') := read_plain s n in
  v = val_of (firstn (N.to_nat n) (pbits s)) mod 2 ^ (64 - rn s') /\
  pbits s' = skipn (N.to_nat n) (pbits s) /\
  RInv s' /\ rn s' < 8 /\ rdata s' = rdata s.
Proof.
  intros HI Hrn Hlen. unfold read_plain, read_gen.
  destruct HI as [He [Hv Hd]]. rewrite He.
  assert (HG : GInv s (rv s)).
  { split; [exact He|]. split; [exact Hv|]. split; [|exact Hd]. symmetry. apply N.mod_small.
    apply N.lt_le_trans with (2 ^ rn s); [exact Hv|]. apply N.pow_le_mono_r; lia. }
  assert (Hgb : gpbits s (rv s) = pbits s) by reflexivity.
  set (fuel := S (N.to_nat (n / 8) + 1)).
  assert (Hfu : n <= rn s + 8 * N.of_nat fuel).
  { unfold fuel. pose proof (N.div_mod n 8 ltac:(lia)). pose proof (N.mod_lt n 8 ltac:(lia)). lia. }
  destruct (fill_any_plain fuel s (rv s) n HG ltac:(lia) ltac:(rewrite Hgb; exact Hlen) Hfu)
    as [X1 [[He1 [Hv1 [Hrv1 Hd1]]] [Hge [Hlt8 [Hb1 Hdata]]]]].
  set (s1 := fill false fuel s n) in *.
  rewrite He1. rewrite Hgb in Hb1.
  set (k := (N.to_nat (rn s1) - N.to_nat n)%nat).
  assert (Hsplit : N.to_nat (rn s1) = (N.to_nat n + k)%nat) by (unfold k; lia).
  assert (Hkn : N.of_nat k = rn s1 - n) by (unfold k; lia).
  assert (Hbits : bits_of (N.to_nat (rn s1)) X1
                  = bits_of (N.to_nat n) (N.shiftr X1 (rn s1 - n)) ++ bits_of k X1).
  { rewrite Hsplit, bits_of_app. rewrite Hkn. reflexivity. }
  assert (Htop : N.shiftr X1 (rn s1 - n) < 2 ^ n).
  { rewrite N.shiftr_div_pow2. apply N.div_lt_upper_bound; [apply N.pow_nonzero; lia|].
    rewrite <- N.pow_add_r. replace (rn s1 - n + n) with (rn s1) by lia. exact Hv1. }
  split; [|split; [|split; [|split]]].
  - cbn [rn]. rewrite <- Hb1. unfold gpbits. rewrite Hbits, <- app_assoc.
    rewrite firstn_app, bits_of_length, Nat.sub_diag, firstn_O, app_nil_r.
    rewrite <- (bits_of_length (N.to_nat n) (N.shiftr X1 (rn s1 - n))) at 1.
    rewrite firstn_all, val_of_bits_of. rewrite N2Nat.id.
    rewrite (N.mod_small _ _ Htop). rewrite Hrv1. apply shiftr_mod_pow2. lia.
  - rewrite <- Hb1. unfold gpbits at 1. rewrite Hbits, <- app_assoc.
    rewrite skipn_app, bits_of_length, Nat.sub_diag, skipn_O.
    rewrite <- (bits_of_length (N.to_nat n) (N.shiftr X1 (rn s1 - n))) at 1.
    rewrite skipn_all. cbn [app].
    unfold pbits. cbn [rn rv rpos rdata].
    replace (N.to_nat (rn s1 - n)) with k by (unfold k; lia).
    f_equal. apply bits_of_ext. intros i Hi.
    rewrite N.land_spec, N.ones_spec_low by lia. rewrite andb_true_r.
    rewrite Hrv1. apply N.mod_pow2_bits_low. lia.
  - unfold RInv. cbn [rerr rv rn rdata]. repeat split; [|exact Hd1].
    rewrite N.land_ones. apply N.mod_lt. apply N.pow_nonzero. lia.
  - cbn [rn]. lia.
  - cbn [rdata]. exact Hdata.
Qed.

(* the signed value of a bit string, most significant bit = sign *)
Definition sval_of (l : list bool) : Z :=
  match l with
  | [] => 0%Z
  | b :: t => (Z.of_N (val_of t) - (if b then 2 ^ Z.of_nat (length t) else 0))%Z
  end.

Lemma sval_of_spec l : l <> [] ->
  sval_of l = (if N.testbit (val_of l) (N.of_nat (length l) - 1)
               then (Z.of_N (val_of l) - 2 ^ Z.of_N (N.of_nat (length l)))%Z else Z.of_N (val_of l)).
Proof.
  destruct l as [|b t]; [congruence|]. intros _. cbn [sval_of val_of length].
  replace (N.of_nat (S (length t)) - 1) with (N.of_nat (length t)) by lia.
  pose proof (val_of_lt t) as Hlt.
  assert (Hpos : 0 < 2 ^ N.of_nat (length t)) by (apply pow2_pos).
  assert (Hz : (2 ^ Z.of_nat (length t))%Z = Z.of_N (2 ^ N.of_nat (length t))).
  { rewrite N2Z.inj_pow. f_equal. lia. }
  assert (Hz2 : (2 ^ Z.of_N (N.of_nat (S (length t))))%Z = (2 * Z.of_N (2 ^ N.of_nat (length t)))%Z).
  { rewrite <- Hz. replace (Z.of_N (N.of_nat (S (length t)))) with (Z.succ (Z.of_nat (length t))) by lia.
    apply Z.pow_succ_r. lia. }
  rewrite N.testbit_eqb.
  destruct b; cbn [N.b2n].
  - rewrite N.mul_1_l.
    replace ((2 ^ N.of_nat (length t) + val_of t) / 2 ^ N.of_nat (length t)) with 1.
    2:{ apply (N.div_unique _ (2 ^ N.of_nat (length t)) 1 (val_of t)); lia. }
    cbn [N.modulo N.eqb]. change (1 mod 2 =? 1) with true. cbv iota. rewrite Hz, Hz2. lia.
  - rewrite N.mul_0_l, N.add_0_l. rewrite N.div_small by exact Hlt.
    change (0 mod 2 =? 1) with false. cbv iota. lia.
Qed.

(* Reader.ReadSigned(n): the next n bits of the stream as a two's-complement number, for every width 1..64 that
   fits the accumulator together with the bits left pending (every n <= 57) *)
Lemma read_signed_stream s n :
  RInv s -> rn s < 8 -> 1 <= n -> n <= N.of_nat (length (pbits s)) ->
  n + rn (snd (read_plain s n)) <= 64 ->
  exists s', read_signed64 s n = Some (sval_of (firstn (N.to_nat n) (pbits s)), s') /\
             pbits s' = skipn (N.to_nat n) (pbits s) /\ RInv s' /\ rn s' < 8.
Proof.
  intros HI Hrn Hn1 Hlen Hfit. unfold read_signed64.
  pose proof (read_any_plain s n HI Hrn Hlen) as H.
  destruct (read_plain s n) as [v s'] eqn:Er. cbn [snd] in Hfit.
  destruct H as [Hv [Hb [HI' [Hrn' _]]]].
  destruct (N.eqb_spec n 0) as [E|_]; [lia|].
  exists s'. split; [|split; [exact Hb|split; assumption]].
  set (l := firstn (N.to_nat n) (pbits s)) in *.
  assert (Hl : length l = N.to_nat n) by (unfold l; apply firstn_length_le; lia).
  assert (Hvl : val_of l < 2 ^ n).
  { pose proof (val_of_lt l) as Hlt. rewrite Hl, N2Nat.id in Hlt. exact Hlt. }
  assert (Hvv : v = val_of l).
  { rewrite Hv. apply N.mod_small. apply N.lt_le_trans with (2 ^ n); [exact Hvl|].
    apply N.pow_le_mono_r; lia. }
  rewrite Hvv. f_equal. f_equal.
  rewrite (sext64_spec (val_of l) n ltac:(lia) Hvl).
  rewrite sval_of_spec by (intros E; rewrite E in Hl; cbn in Hl; lia).
  rewrite Hl, N2Nat.id. reflexivity.
Qed.
