(* C13MarkProofs.v — facts about WHERE the escape bytes are: every 00 00 03 in the escaped
   stream ends at an inserted byte, and every inserted byte is required. *)
From V.lib Require Import Base.
From V.c13 Require Import C13Spec C13EscProofs.

Lemma escape_marked_fst z l : map fst (escape_marked_from z l) = escape_from z l.
Proof.
  revert z. induction l as [|b t IH]; intros z; [reflexivity|].
  cbn [escape_marked_from escape_from]. destruct ((z =? 2) && (b <=? 3)); cbn [map fst]; rewrite IH; reflexivity.
Qed.

(* ---------- every inserted byte is needed ---------- *)
Lemma inserted_needed_from z l z1 z0 :
  z <= 2 -> (1 <= z -> z0 = true) -> (2 <= z -> z1 = true) ->
  inserted_needed z1 z0 (escape_marked_from z l) = true.
Proof.
  revert z z1 z0. induction l as [|b t IH]; intros z z1 z0 Hz H0 H1; [reflexivity|].
  cbn [escape_marked_from].
  destruct ((z =? 2) && (b <=? 3)) eqn:E.
  - apply andb_true_iff in E. destruct E as [E1 E2]. apply N.eqb_eq in E1. subst z.
    rewrite (H0 ltac:(lia)), (H1 ltac:(lia)).
    cbn [inserted_needed andb]. rewrite E2. cbn [andb].
    change (3 =? 0) with false.
    apply IH.
    + destruct (b =? 0); lia.
    + destruct (N.eqb_spec b 0); intros; [reflexivity|lia].
    + destruct (N.eqb_spec b 0); intros; lia.
  - cbn [inserted_needed andb].
    apply IH.
    + apply andb_false_iff in E. destruct (N.eqb_spec b 0) as [->|]; [|lia].
      destruct E as [E|E]; [apply N.eqb_neq in E; lia|cbn in E; discriminate].
    + destruct (N.eqb_spec b 0); intros; [reflexivity|lia].
    + destruct (N.eqb_spec b 0) as [->|]; intros; [|lia]. apply H0. lia.
Qed.

Lemma inserted_needed_escape l : inserted_needed false false (escape_marked l) = true.
Proof. apply inserted_needed_from; intros; lia. Qed.

(* ---------- every 00 00 03 ends at an inserted byte ---------- *)
Definition mzeros (z : N) : list (N * bool) := repeat (0, false) (N.to_nat z).

Lemma all003_cons3 a b c t :
  all_003_inserted (a :: b :: c :: t) =
  (if (fst a =? 0) && (fst b =? 0) && (fst c =? 3) then snd c else true) && all_003_inserted (b :: c :: t).
Proof. reflexivity. Qed.

Lemma all_003_from z l : z <= 2 -> all_003_inserted (mzeros z ++ escape_marked_from z l) = true.
Proof.
  revert z. induction l as [|b t IH]; intros z Hz.
  - cbn [escape_marked_from]. rewrite app_nil_r.
    assert (z = 0 \/ z = 1 \/ z = 2) as [-> | [-> | ->]] by lia; reflexivity.
  - cbn [escape_marked_from].
    assert (z = 0 \/ z = 1 \/ z = 2) as [-> | [-> | ->]] by lia.
    + cbn [N.eqb andb mzeros N.to_nat repeat app].
      destruct (N.eqb_spec b 0) as [->|Hb].
      * exact (IH 1 ltac:(lia)).
      * specialize (IH 0 ltac:(lia)). cbn [mzeros N.to_nat repeat app] in IH.
        destruct (escape_marked_from 0 t) as [|c [|d u]] eqn:Et; try reflexivity.
        rewrite all003_cons3, IH. cbn [fst].
        destruct (N.eqb_spec b 0); [contradiction|reflexivity].
    + cbn [N.eqb Pos.eqb andb]. change (mzeros 1) with [(0, false)]. cbn [app].
      destruct (N.eqb_spec b 0) as [->|Hb].
      * exact (IH 2 ltac:(lia)).
      * specialize (IH 0 ltac:(lia)). cbn [mzeros N.to_nat repeat app] in IH.
        destruct (escape_marked_from 0 t) as [|c u] eqn:Et; [reflexivity|].
        rewrite all003_cons3. cbn [fst].
        destruct (N.eqb_spec b 0); [contradiction|]. cbn [andb].
        destruct u as [|d u']; [reflexivity|].
        rewrite all003_cons3, IH. cbn [fst].
        destruct (N.eqb_spec b 0); [contradiction|reflexivity].
    + rewrite N.eqb_refl. cbn [andb]. change (mzeros 2) with [(0, false); (0, false)]. cbn [app].
      destruct (N.leb_spec b 3) as [Hb|Hb].
      * (* escape inserted: 0 0 3* b ... *)
        rewrite all003_cons3. cbn [fst snd N.eqb Pos.eqb andb].
        rewrite all003_cons3. cbn [fst snd N.eqb andb].
        destruct (N.eqb_spec b 0) as [->|Hb0].
        -- specialize (IH 1 ltac:(lia)). change (mzeros 1) with [(0, false)] in IH. cbn [app] in IH.
           destruct (escape_marked_from 1 t) as [|c u] eqn:Et; [reflexivity|].
           rewrite all003_cons3. cbn [fst N.eqb andb]. exact IH.
        -- specialize (IH 0 ltac:(lia)). cbn [mzeros N.to_nat repeat app] in IH.
           destruct (escape_marked_from 0 t) as [|c u] eqn:Et; [reflexivity|].
           rewrite all003_cons3. cbn [fst N.eqb andb].
           destruct u as [|d u']; [reflexivity|].
           rewrite all003_cons3, IH. cbn [fst].
           destruct (N.eqb_spec b 0); [contradiction|reflexivity].
      * destruct (N.eqb_spec b 0) as [->|Hb0]; [lia|].
        rewrite all003_cons3. cbn [fst snd N.eqb andb].
        destruct (N.eqb_spec b 3); [lia|]. cbn [andb].
        specialize (IH 0 ltac:(lia)). cbn [mzeros N.to_nat repeat app] in IH.
        destruct (escape_marked_from 0 t) as [|c u] eqn:Et; [reflexivity|].
        rewrite all003_cons3. cbn [fst N.eqb andb].
        destruct (N.eqb_spec b 0); [contradiction|]. cbn [andb].
        destruct u as [|d u']; [reflexivity|].
        rewrite all003_cons3, IH. cbn [fst].
        destruct (N.eqb_spec b 0); [contradiction|reflexivity].
Qed.

Lemma all_003_escape l : all_003_inserted (escape_marked l) = true.
Proof. exact (all_003_from 0 l ltac:(lia)). Qed.

Lemma escape_lt256 z l : Forall (fun b => b < 256) l -> Forall (fun b => b < 256) (escape_from z l).
Proof.
  revert z. induction l as [|b t IH]; intros z H; [constructor|].
  inversion H; subst. cbn [escape_from].
  destruct ((z =? 2) && (b <=? 3)); repeat constructor; try assumption; try lia; apply IH; assumption.
Qed.
