(* C13Theorems.v — the property theorems of C13 and nothing else.  Each is closed by
   `exact <lemma>` and followed by Print Assumptions (audited by ./check on every run). *)
From V.lib Require Import Base.
From V.c13 Require Import C13Spec C13Model C13EscProofs.

(* the emulation-removing rule inverts the emulation-preventing rule, for every byte string *)
Theorem C13_unescape_escape : forall l : list N, unescape (escape l) = l.
Proof. exact unescape_escape. Qed.
Print Assumptions C13_unescape_escape.

(* the escaped stream never contains 00 00 00, 00 00 01 or 00 00 02 *)
Theorem C13_no_forbidden : forall l : list N, forbidden (escape l) = false.
Proof. exact no_forbidden. Qed.
Print Assumptions C13_no_forbidden.
