(* C13Theorems.v — the property theorems of C13 and nothing else.  Each is closed by
   `exact <lemma>` and followed by Print Assumptions (audited by ./check on every run).
   Model: C13Model.v (hand transcription of bits/ebspwriter.go, ebspreader.go, writer.go,
   reader.go); spec: C13Spec.v (escape / unescape / forbidden), C13Bits.v (bit lists). *)
From V.lib Require Import Base.
From V.c13 Require Import C13Spec C13Model C13Bits C13EscProofs C13MarkProofs
  C13WriterProofs C13ReaderProofs C13RoundTrip C13PlainProofs
  C13ModelExt C13TrailProofs C13FswProofs C13FswRoundTrip C13ByteWriterProofs
  C13WideProofs C13StickyProofs C13FailProofs C13ExactProofs C13SpillProofs C13SignedProofs C13UeLoopProofs C13ReadAnyProofs C13ReadAnyPlainProofs
  C13ModelTail C13TailProofs2 C13UeAnyProofs.

(* ---- emulation prevention, byte level, every byte string ---- *)
Theorem C13_unescape_escape : forall l : list N, unescape (escape l) = l.
Proof. exact unescape_escape. Qed.
Print Assumptions C13_unescape_escape.

Theorem C13_no_forbidden : forall l : list N, forbidden (escape l) = false.
Proof. exact no_forbidden. Qed.
Print Assumptions C13_no_forbidden.

(* every 00 00 03 in the escaped stream ends at an inserted byte *)
Theorem C13_every_003_is_escape : forall l, all_003_inserted (escape_marked l) = true.
Proof. exact all_003_escape. Qed.
Print Assumptions C13_every_003_is_escape.

(* every inserted byte is required: it follows two zero bytes and precedes a byte <= 3, so
   deleting it would leave a forbidden-or-ambiguous 00 00 0x *)
Theorem C13_minimal : forall l, inserted_needed false false (escape_marked l) = true.
Proof. exact inserted_needed_escape. Qed.
Print Assumptions C13_minimal.

Theorem C13_marked_is_escape : forall l, map fst (escape_marked l) = escape l.
Proof. exact (escape_marked_fst 0). Qed.
Print Assumptions C13_marked_is_escape.

(* ---- the word-level EBSP writer (64-bit accumulator, drain loop, zero-run counter) ---- *)
(* one Write call appends exactly the n low bits of `bits` to the logical stream, whatever
   the split of the stream into calls; bytes already written are the escaping of `raw` *)
Theorem C13_write_appends_bits : forall esc s raw bits n,
  WInv esc s raw -> n <= 56 ->
  exists raw',
    WInv esc (write_gen esc s bits n) raw' /\
    bytes_to_bits raw' ++ pending (write_gen esc s bits n)
    = bytes_to_bits raw ++ pending s ++ bits_of (N.to_nat n) bits /\
    exists added, raw' = raw ++ added /\ Forall (fun b => b < 256) added.
Proof. exact write_gen_spec. Qed.
Print Assumptions C13_write_appends_bits.

(* any op sequence (fixed width <= 56, flag, ue/se < 2^32, SEI value, trailing bits, stuffing):
   output = standard escaping of the whole bytes of the concatenated bit codes *)
Theorem C13_writer_is_escape : forall ops,
  forallb op_ok ops = true ->
  exists raw, wout (run_writer ops) = escape raw /\
              bytes_to_bits raw ++ pending (run_writer ops) = all_bits ops /\
              (length (pending (run_writer ops)) < 8)%nat /\
              Forall (fun b => b < 256) raw.
Proof. exact writer_is_escape. Qed.
Print Assumptions C13_writer_is_escape.

(* the Exp-Golomb prefix loop computes floor(log2(nr+1)) and the suffix *)
Theorem C13_ue_loop : forall nr, nr + 1 < 2 ^ 64 ->
  exists q, ue_loop 64 nr 0 0 0 = (q, nr + 1 - 2 ^ q) /\ 2 ^ q <= nr + 1 < 2 ^ (q + 1).
Proof. exact ue_loop_top. Qed.
Print Assumptions C13_ue_loop.

(* ---- the word-level EBSP reader ---- *)
(* Read n returns the next n bits of the UNESCAPED stream and advances by n *)
Theorem C13_read_bits : forall s n,
  RInv s -> rn s < 8 -> n <= 56 -> n <= N.of_nat (length (rbits s)) ->
  let '(v, s') := read s n in
  v = val_of (firstn (N.to_nat n) (rbits s)) /\
  rbits s' = skipn (N.to_nat n) (rbits s) /\
  RInv s' /\ rn s' < 8 /\ rdata s' = rdata s.
Proof. exact read_spec. Qed.
Print Assumptions C13_read_bits.

Theorem C13_read_past_end : forall s n,
  RInv s -> rn s < 8 -> n <= 56 -> N.of_nat (length (rbits s)) < n ->
  fst (read s n) = 0 /\ rerr (snd (read s n)) = true.
Proof. exact read_fail. Qed.
Print Assumptions C13_read_past_end.

(* ReadBytes over an escaped stream returns the bytes that were escaped *)
Theorem C13_reader_bytes : forall l, Forall (fun b => b < 256) l ->
  exists s', read_bytes (length l) (rinit (escape l)) = (l, s') /\ rerr s' = false /\ rbits s' = [].
Proof. exact reader_bytes. Qed.
Print Assumptions C13_reader_bytes.

(* the same at ANY bit alignment (RGood s: 0..7 bits pending in the accumulator, any position): ReadBytes(k) returns the
   next k bytes of the unescaped bit stream, whatever was read before it - k is unbounded *)
Theorem C13_reader_bytes_unaligned : forall k s l rest,
  RGood s -> length l = k -> Forall lt256 l -> rbits s = bytes_to_bits l ++ rest ->
  exists s', read_bytes k s = (l, s') /\ rbits s' = rest /\ RGood s' /\ rdata s' = rdata s.
Proof. exact read_bytes_spec. Qed.
Print Assumptions C13_reader_bytes_unaligned.

Example ex_reader_bytes_unaligned :
  let s := snd (read (rinit [255; 129; 255; 128; 255; 255; 254; 255; 129; 255; 170]) 3) in
  rn s = 5 /\ fst (read_bytes 9 s) = [252; 15; 252; 7; 255; 255; 247; 252; 15].
Proof. vm_compute. split; reflexivity. Qed.

Theorem C13_read_ue : forall s v rest,
  RGood s -> v < 2 ^ 32 -> rbits s = ue_code' v ++ rest ->
  exists s', read_ue s = (v, s') /\ rbits s' = rest /\ RGood s' /\ rdata s' = rdata s.
Proof. exact read_ue_spec. Qed.
Print Assumptions C13_read_ue.

Theorem C13_se_mapping : forall s k rest,
  RGood s -> se_to_ue k < 2 ^ 32 -> rbits s = ue_code' (se_to_ue k) ++ rest ->
  exists s', read_se s = (k, s') /\ rbits s' = rest /\ RGood s' /\ rdata s' = rdata s.
Proof. exact read_se_spec. Qed.
Print Assumptions C13_se_mapping.

(* MoreRbspData = "the unread bits are not 1 0*", reader state restored exactly *)
Theorem C13_more_rbsp : forall s,
  RGood s ->
  match rbits s with
  | [] => fst (more_rbsp_data s) = None /\ rerr (snd (more_rbsp_data s)) = true
  | b :: t => more_rbsp_data s = (Some (negb b || existsb (fun x => x) t), s)
  end.
Proof. exact more_rbsp_data_spec. Qed.
Print Assumptions C13_more_rbsp.

(* counters report positions in the escaped stream: rpos bytes of the input consumed *)
Theorem C13_counters : forall s, rn s < 8 ->
  nr_bytes_read s = rpos s /\ nr_bits_read s = (8 * Z.of_N (rpos s) - Z.of_N (rn s))%Z.
Proof. exact counters_spec. Qed.
Print Assumptions C13_counters.

(* ---- the round trip: any sequence of fixed-width (1..32, value fits), flag, ue (< 2^32) and
   se values written with the EBSP writer (+ rbsp trailing bits) is read back identically ---- *)
Theorem C13_reader_inverse : forall ops,
  forallb value_op ops = true ->
  let data := wout (run_writer (ops ++ [WTrail])) in
  exists s', run_reader (map rop_of ops) (rinit data) = (map rval_of ops, s') /\ rerr s' = false.
Proof. exact reader_inverse. Qed.
Print Assumptions C13_reader_inverse.

(* ---- bits.Writer / FixedSliceWriter.WriteBits + Flush, read back with bits.Reader ---- *)
Theorem C13_plain_roundtrip : forall ops,
  forallb plain_op ops = true ->
  let data := wout (flush_plain (run_writer_plain ops)) in
  exists s', fold_left (fun '(acc, st) o =>
               match o with
               | WBits _ w => let '(v, st') := read_plain st w in (acc ++ [v], st')
               | _ => let '(v, st') := read_plain st 1 in (acc ++ [v], st')
               end) ops ([], rinit data)
             = (map (fun o => match o with WBits v _ => v | WFlag b => N.b2n b | _ => 0 end) ops, s')
             /\ rerr s' = false.
Proof. exact plain_roundtrip. Qed.
Print Assumptions C13_plain_roundtrip.

(* ---- EBSPReader.ReadRbspTrailingBits (model: C13ModelExt.read_trailing) ---- *)
(* nil exactly on 1 0* (the EOF it ran into is cleared); "doesn't start with 1" on a leading 0;
   "another 1" when a second 1 follows; on an exhausted stream nil with the error left set *)
Theorem C13_read_trailing : forall s,
  RGood s ->
  match rbits s with
  | [] => exists s', read_trailing s = Some (TNil, s') /\ rerr s' = true
  | false :: t => exists s', read_trailing s = Some (TNoOne, s') /\ rbits s' = t /\ RGood s'
  | true :: t =>
      if existsb is1 t
      then exists s', read_trailing s = Some (TSecondOne, s') /\ RGood s' /\ rbits s' = after_one t
      else exists s', read_trailing s = Some (TNil, s') /\ rerr s' = false
  end.
Proof. exact read_trailing_spec. Qed.
Print Assumptions C13_read_trailing.

(* the round trip to the end of the NAL unit: values read back, then MoreRbspData = false without
   moving, then ReadRbspTrailingBits accepts what WriteRbspTrailingBits wrote, no error left *)
Theorem C13_trailing_roundtrip : forall ops,
  forallb value_op ops = true ->
  let data := wout (run_writer (ops ++ [WTrail])) in
  exists s' s'',
    run_reader (map rop_of ops) (rinit data) = (map rval_of ops, s') /\
    more_rbsp_data s' = (Some false, s') /\
    read_trailing s' = Some (TNil, s'') /\ rerr s'' = false.
Proof. exact trailing_roundtrip. Qed.
Print Assumptions C13_trailing_roundtrip.

(* ---- FixedSliceWriter (model: C13ModelExt.fsw, every Write* method except WriteString) ---- *)
Theorem C13_fsw_within_capacity : forall cap ops, foff (run_fsw cap ops) <= cap.
Proof. exact run_fsw_within_capacity. Qed.
Print Assumptions C13_fsw_within_capacity.

(* WriteBits / WriteFlag / FlushBits do nothing at all once the accumulated error is set *)
Theorem C13_fsw_sticky : forall s, ferr s = true ->
  (forall v n, fwrite_bits s v n = s) /\ (forall b, fstep s (FFlag b) = s) /\ fflush s = s.
Proof. exact fsw_sticky. Qed.
Print Assumptions C13_fsw_sticky.

(* with enough room the bit methods ARE the plain Writer (any widths, any values, Flush anywhere) *)
Theorem C13_fsw_refines_writer : forall cap ops,
  forallb pf_op ops = true ->
  N.of_nat (length (wout (run_writer_plain ops))) <= cap ->
  fbytes (run_fsw cap (map wop_fop ops)) = wout (run_writer_plain ops) /\
  ferr (run_fsw cap (map wop_fop ops)) = false.
Proof. exact fsw_refines_writer. Qed.
Print Assumptions C13_fsw_refines_writer.

Theorem C13_fsw_roundtrip : forall cap ops,
  forallb plain_op ops = true ->
  N.of_nat (length (wout (flush_plain (run_writer_plain ops)))) <= cap ->
  let data := fbytes (run_fsw cap (map wop_fop (ops ++ [WFlush]))) in
  ferr (run_fsw cap (map wop_fop (ops ++ [WFlush]))) = false /\
  exists s', fold_left (fun '(acc, st) o =>
               match o with
               | WBits _ w => let '(v, st') := read_plain st w in (acc ++ [v], st')
               | _ => let '(v, st') := read_plain st 1 in (acc ++ [v], st')
               end) ops ([], rinit data)
             = (map (fun o => match o with WBits v _ => v | WFlag b => N.b2n b | _ => 0 end) ops, s')
             /\ rerr s' = false.
Proof. exact fsw_roundtrip. Qed.
Print Assumptions C13_fsw_roundtrip.

(* byte-level methods with enough room: the big-endian encodings, concatenated, no error *)
Theorem C13_fsw_byte_ops : forall cap ops bss,
  map fop_bytes ops = map Some bss ->
  N.of_nat (length (concat bss)) <= cap ->
  fbytes (run_fsw cap ops) = concat bss /\ ferr (run_fsw cap ops) = false.
Proof. exact fsw_byte_ops. Qed.
Print Assumptions C13_fsw_byte_ops.

(* k big-endian bytes decode to the value modulo 2^(8k) *)
Theorem C13_be_roundtrip : forall k v, be_val (be_bytes k v) = v mod 2 ^ (8 * N.of_nat k).
Proof. exact be_val_bytes. Qed.
Print Assumptions C13_be_roundtrip.

(* ---- ByteWriter over a writer that accepts cap bytes ---- *)
Theorem C13_bytewriter : forall cap ops,
  bbytes (run_bw cap ops) = firstn (N.to_nat cap) (concat (map bop_bytes ops)) /\
  berr (run_bw cap ops) = (cap <? N.of_nat (length (concat (map bop_bytes ops)))).
Proof. exact bw_spec. Qed.
Print Assumptions C13_bytewriter.

Theorem C13_bytewriter_sticky : forall s o, berr s = true -> bstep s o = s.
Proof. exact bw_sticky. Qed.
Print Assumptions C13_bytewriter_sticky.

(* ---- non-vacuity: concrete non-trivial instances ---- *)
Example ex_ops : list wop := [WBits 0 16; WBits 3 8; WUe 4294967294; WSe (-7)%Z; WFlag true; WBits 0 24; WBits 1 7].
Example ex_ops_ok : forallb value_op ex_ops = true.
Proof. vm_compute. reflexivity. Qed.
Example ex_ops_escapes : wout (run_writer (ex_ops ++ [WTrail])) =
  [0;0;3;3;0;0;3;0;1;255;255;255;254;62;0;0;3;0;6].
Proof. vm_compute. reflexivity. Qed.
Example ex_read_back :
  fst (run_reader (map rop_of ex_ops) (rinit (wout (run_writer (ex_ops ++ [WTrail]))))) = map rval_of ex_ops.
Proof. vm_compute. reflexivity. Qed.
Example ex_escape : escape [0;0;0;0;1;0;0;3;255] = [0;0;3;0;0;3;1;0;0;3;3;255].
Proof. vm_compute. reflexivity. Qed.

(* the extension: trailing bits accepted / rejected, FixedSliceWriter tight and roomy, ByteWriter cut *)
Example ex_trailing_ok :
  let s := snd (run_reader (map rop_of ex_ops) (rinit (wout (run_writer (ex_ops ++ [WTrail]))))) in
  option_map fst (read_trailing s) = Some TNil /\ fst (more_rbsp_data s) = Some false.
Proof. vm_compute. split; reflexivity. Qed.
Example ex_trailing_bad :
  option_map fst (read_trailing (rinit [144])) = Some TSecondOne /\
  option_map fst (read_trailing (rinit [64])) = Some TNoOne /\
  option_map fst (read_trailing (rinit [128; 0; 0; 3])) = Some TNil.
Proof. vm_compute. repeat split; reflexivity. Qed.
Example ex_fops : list fop := [FU 4 4294901760; FBits 5 3; FU24 16909060; FFlag true; FFlush; FI 2 (-2)%Z; FU48 1108152157446].
Example ex_fsw_roomy : fbytes (run_fsw 64 ex_fops) = [255;255;0;0;2;3;4;176;255;254;1;2;3;4;5;6] /\ ferr (run_fsw 64 ex_fops) = false.
Proof. vm_compute. split; reflexivity. Qed.
Example ex_fsw_tight : fbytes (run_fsw 6 ex_fops) = [255;255;0;0;255;254] /\ ferr (run_fsw 6 ex_fops) = true.
Proof. vm_compute. split; reflexivity. Qed.
Example ex_pf_ops : forallb pf_op [WBits 5 3; WFlush; WFlag true; WBits 1023 9; WFlush] = true /\
  wout (run_writer_plain [WBits 5 3; WFlush; WFlag true; WBits 1023 9; WFlush]) = [160; 191; 248].
Proof. vm_compute. split; reflexivity. Qed.
Example ex_bw : bbytes (run_bw 9 [BU 2 258; BU48 1108152157446; BU 4 7; BSlice [9]]) = [1;2;1;2;3;4;5;6;0] /\
  berr (run_bw 9 [BU 2 258; BU48 1108152157446; BU 4 7; BSlice [9]]) = true.
Proof. vm_compute. split; reflexivity. Qed.

(* ================================================================== second extension (C13b) *)
(* (related statements are grouped into one theorem each: every Print Assumptions costs about a second) *)

(* ---- Write(bits, n) for every width ---- *)
(* (1) any n (for n > 64: Go's shifts by >= 64 give 0 and Mask(n) is all ones): the stream receives the n low bits of `bits`, preceded by the pending bits with those that do not
       fit the 64-bit accumulator beside them replaced by zeros; nothing else changes;
   (2) the zeroed bits are exactly the topmost pending + n - 64 pending bits (all of them for n >= 64);
   (3) so with pending + n <= 64 (every n <= 57 at any alignment, 64 at a byte boundary, n = 0) nothing is lost;
   (4) a value wider than n bits is masked, never spilled into the neighbouring values *)
Theorem C13_write_widths :
  (forall esc s raw bits n,
     WInv esc s raw ->
     exists raw',
       WInv esc (write_gen esc s bits n) raw' /\
       bytes_to_bits raw' ++ pending (write_gen esc s bits n)
       = bytes_to_bits raw ++ bits_of (N.to_nat (wn s)) (wv s mod 2 ^ (64 - n)) ++ bits_of (N.to_nat n) bits /\
       exists added, raw' = raw ++ added /\ Forall (fun b => b < 256) added) /\
  (forall wn0 wv0 n,
     bits_of wn0 (wv0 mod 2 ^ (64 - n))
     = repeat false (wn0 - N.to_nat (64 - n)) ++ bits_of (Nat.min wn0 (N.to_nat (64 - n))) wv0) /\
  (forall esc s raw bits n,
     WInv esc s raw -> wn s + n <= 64 ->
     exists raw',
       WInv esc (write_gen esc s bits n) raw' /\
       bytes_to_bits raw' ++ pending (write_gen esc s bits n)
       = bytes_to_bits raw ++ pending s ++ bits_of (N.to_nat n) bits /\
       exists added, raw' = raw ++ added /\ Forall (fun b => b < 256) added) /\
  (forall esc s bits n, write_gen esc s bits n = write_gen esc s (bits mod 2 ^ n) n).
Proof. exact (conj write_gen_any (conj pending_truncated (conj write_gen_fit write_gen_masks))). Qed.
Print Assumptions C13_write_widths.

(* ---- EBSPReader.Read(n) for every width ---- *)
(* (1) Read(n) returns the true n-bit value modulo 2^(64 - k), k = the bits left pending afterwards (the refill loop
       shifts whole bytes through the 64-bit accumulator); the position in the stream is right in every case;
   (2) hence exact whenever n + k <= 64, e.g. 64 bits that end at a byte boundary;
   (3) in particular for every n <= 57 at any alignment;
   (4) and it fails (0, error set) exactly when fewer than n bits are left *)
Theorem C13_read_widths :
  (forall s n,
     RInv s -> rn s < 8 -> n <= N.of_nat (length (rbits s)) ->
     let '(v, s') := read s n in
     v = val_of (firstn (N.to_nat n) (rbits s)) mod 2 ^ (64 - rn s') /\
     rbits s' = skipn (N.to_nat n) (rbits s) /\
     RInv s' /\ rn s' < 8 /\ rdata s' = rdata s) /\
  (forall s n,
     RInv s -> rn s < 8 -> n <= N.of_nat (length (rbits s)) ->
     n + rn (snd (read s n)) <= 64 ->
     fst (read s n) = val_of (firstn (N.to_nat n) (rbits s))) /\
  (forall s n,
     RInv s -> rn s < 8 -> n <= 57 -> n <= N.of_nat (length (rbits s)) ->
     let '(v, s') := read s n in
     v = val_of (firstn (N.to_nat n) (rbits s)) /\
     rbits s' = skipn (N.to_nat n) (rbits s) /\
     RInv s' /\ rn s' < 8 /\ rdata s' = rdata s) /\
  (forall s n,
     RInv s -> rn s < 8 -> n <= 57 -> N.of_nat (length (rbits s)) < n ->
     fst (read s n) = 0 /\ rerr (snd (read s n)) = true).
Proof. exact (conj read_any (conj read_exact_fit (conj read_spec57 read_fail57))). Qed.
Print Assumptions C13_read_widths.

(* the bounds are tight.  pending + n = 65: 7 one bits, then Write(1, 58) - the first pending bit is lost; 64 bits at
   a byte boundary are fine; Read(58) with 1 bit pending returns 57 one bits instead of 58 *)
Theorem C13_width_bounds_refuted :
  (let ops := [WBits 127 7; WBits 1 58] in
   fst (run_reader (map rop_of ops) (rinit (wout (run_writer (ops ++ [WTrail]))))) = [VN 63; VN 1]) /\
  (let ops := [WBits 255 8; WBits 18446744073709551615 64] in
   fst (run_reader [RBits 8; RBits 32; RBits 32] (rinit (wout (run_writer (ops ++ [WTrail])))))
   = [VN 255; VN 4294967295; VN 4294967295]) /\
  (let s1 := snd (read (rinit (repeat 255 10)) 7) in
   fst (read s1 58) = 2 ^ 57 - 1 /\ rerr (snd (read s1 58)) = false).
Proof. exact (conj write_spill_58 (conj write_64_aligned read_spill_58)). Qed.
Print Assumptions C13_width_bounds_refuted.

(* ---- Exp-Golomb over the whole range of the code ---- *)
(* the repaired WriteExpGolomb: every value is either coded exactly (<= 2^57 - 2) or refused, error set, nothing
   written, pending bits untouched *)
Theorem C13_ue_total : forall s cur v,
  XStream s cur ->
  (v <= max_ue -> XStream (write_ue_x s v) (cur ++ ue_code v)) /\
  (max_ue < v -> write_ue_x s v = mkWX (xs s) true (xrem s)).
Proof. exact write_ue_x_total. Qed.
Print Assumptions C13_ue_total.

(* the reader decodes every unsigned code up to 2^58 - 2, and the signed mapping of it, at any alignment *)
Theorem C13_read_golomb57 :
  (forall s v rest,
     RGood s -> v + 1 < 2 ^ 58 -> rbits s = ue_code' v ++ rest ->
     exists s', read_ue s = (v, s') /\ rbits s' = rest /\ RGood s' /\ rdata s' = rdata s) /\
  (forall s k rest,
     RGood s -> se_to_ue k + 1 < 2 ^ 58 -> rbits s = ue_code' (se_to_ue k) ++ rest ->
     exists s', read_se s = (k, s') /\ rbits s' = rest /\ RGood s' /\ rdata s' = rdata s).
Proof. exact (conj read_ue_spec57 read_se_spec57). Qed.
Print Assumptions C13_read_golomb57.

(* the bound is tight: without the range check (C13Model.write_ue = the code before repo commit 9ec0951) the value
   2^57 - 1 written after 7 pending bits corrupts the value written before it *)
Theorem C13_ue_bound_refuted :
  let ops := [WBits 127 7; WUe (max_ue + 1)] in
  value_op57 (WUe (max_ue + 1)) = false /\
  fst (run_reader (map rop_of ops) (rinit (wout (run_writer (ops ++ [WTrail])))))
  = [VN 63; VN (max_ue + 1)].
Proof. exact ue_bound_tight. Qed.
Print Assumptions C13_ue_bound_refuted.

(* WriteExpGolomb's prefix loop in wrapping uint arithmetic: the model's loop (computed in N) is the uint loop for
   every value below the maximal uint, and for the maximal uint the loop does not return (finding C13-F2; the repaired
   code no longer enters it) *)
Theorem C13_ue_loop_uint :
  (forall nr, nr < M64 -> ue_loop64 64 nr 0 0 0 = Some (ue_loop 64 nr 0 0 0)) /\
  (forall fuel, N.of_nat fuel < 18446744073709551616 -> ue_loop64 fuel M64 0 0 0 = None).
Proof. exact (conj ue_loop64_agrees ue_loop64_diverges). Qed.
Print Assumptions C13_ue_loop_uint.

(* ReadSignedGolomb at the integer boundaries: equal to the standard mapping unless codeNum = 2^64 - 1, where the
   uint addition wraps and Go returns 0 (stream: 64 zero bits, a one, 64 zero bits); whatever the stream, the
   conversions to int do not overflow *)
Theorem C13_se_int_boundaries :
  (forall s, fst (read_ue s) < 18446744073709551615 -> read_se64 s = read_se s) /\
  (fst (read_ue (rinit se_boundary_stream)) = 18446744073709551615 /\
   fst (read_se64 (rinit se_boundary_stream)) = 0%Z /\
   rerr (snd (read_se64 (rinit se_boundary_stream))) = false) /\
  (forall s, (- 9223372036854775807 <= fst (read_se64 s) <= 9223372036854775807)%Z).
Proof. exact (conj read_se64_eq (conj se_boundary read_se64_fits_int)). Qed.
Print Assumptions C13_se_int_boundaries.

(* Reader.ReadSigned: the 64-bit int arithmetic is two's complement for every width 1..64, stays in range, and a
   signed value in range masked to n bits by Write comes back through it *)
Theorem C13_read_signed_twos :
  (forall v n, 1 <= n <= 64 -> v < 2 ^ n ->
     sext64 v n = (if N.testbit v (n - 1) then (Z.of_N v - 2 ^ Z.of_N n)%Z else Z.of_N v) /\
     (- 2 ^ (Z.of_N n - 1) <= sext64 v n < 2 ^ (Z.of_N n - 1))%Z) /\
  (forall z n, 1 <= n <= 64 ->
     (- 2 ^ (Z.of_N n - 1) <= z < 2 ^ (Z.of_N n - 1))%Z ->
     sext64 (Z.to_N (z mod 2 ^ Z.of_N n)) n = z).
Proof.
  exact (conj (fun v n Hn Hv => conj (sext64_spec v n Hn Hv) (sext64_range v n Hn Hv)) sext64_twos).
Qed.
Print Assumptions C13_read_signed_twos.

Example ex_signed : sext64 (Z.to_N ((-3) mod 2 ^ 5)) 5 = (-3)%Z /\ sext64 18446744073709551615 64 = (-1)%Z.
Proof. vm_compute. split; reflexivity. Qed.

(* ---- the round trip over the exact domain, through the repaired writer ---- *)
(* any sequence of fixed-width (<= 57 bits, value fits), flag, ue (<= 2^57 - 2) and se values: no error, and the
   matching reads return the values *)
Theorem C13_roundtrip_exact : forall ops,
  forallb value_op57 ops = true ->
  let w := run_wx None (ops ++ [WTrail]) in
  xerr w = false /\
  exists s', run_reader (map rop_of ops) (rinit (xout w)) = (map rval_of ops, s') /\ rerr s' = false.
Proof. exact roundtrip_exact. Qed.
Print Assumptions C13_roundtrip_exact.

Theorem C13_writer_is_escape57 : forall ops,
  forallb op_ok57 ops = true ->
  exists raw, wout (run_writer ops) = escape raw /\
              bytes_to_bits raw ++ pending (run_writer ops) = all_bits ops /\
              (length (pending (run_writer ops)) < 8)%nat /\
              Forall (fun b => b < 256) raw.
Proof. exact writer_is_escape57. Qed.
Print Assumptions C13_writer_is_escape57.

Example ex_value_ops57 :
  forallb value_op57 [WBits 144115188075855871 57; WFlag true; WUe max_ue; WSe (-72057594037927935); WBits 5 3] = true.
Proof. vm_compute. reflexivity. Qed.

(* ---- EBSPWriter / Writer over an io.Writer that fails after k bytes ---- *)
(* the bytes delivered are the first k bytes of the fault-free output; AccError is set exactly when the output was
   cut (or the fault-free run itself refused a value); first for EBSPWriter, then for Writer with Flush *)
Theorem C13_failing_writer_prefix :
  (forall ops k,
     xout (run_wx (Some k) ops) = firstn (N.to_nat k) (xout (run_wx None ops)) /\
     xerr (run_wx (Some k) ops) = xerr (run_wx None ops) || (k <? lenN (xout (run_wx None ops)))) /\
  (forall ops k,
     xout (run_wx_plain (Some k) ops) = firstn (N.to_nat k) (xout (run_wx_plain None ops)) /\
     xerr (run_wx_plain (Some k) ops)
     = xerr (run_wx_plain None ops) || (k <? lenN (xout (run_wx_plain None ops)))).
Proof. exact (conj failing_writer_prefix failing_plain_writer_prefix). Qed.
Print Assumptions C13_failing_writer_prefix.

(* without a failure and with accepted values the error-aware model is the writer of C13Model (every theorem about
   run_writer is a theorem about the code over a working io.Writer); once the error is set every later call is a
   no-op on the whole state *)
Theorem C13_writer_error_state :
  (forall ops, forallb ue_ok ops = true -> run_wx None ops = mkWX (run_writer ops) false None) /\
  (forall s o, xerr s = true -> wxstep s o = s).
Proof. exact (conj run_wx_is_run_writer wxstep_after_error). Qed.
Print Assumptions C13_writer_error_state.

Example ex_failing_writer :
  xout (run_wx (Some 3) [WBits 0 16; WBits 1 8; WUe 7; WTrail]) = [0; 0; 3] /\
  xerr (run_wx (Some 3) [WBits 0 16; WBits 1 8; WUe 7; WTrail]) = true /\
  xout (run_wx None [WBits 0 16; WBits 1 8; WUe 7; WTrail]) = [0; 0; 3; 1; 17].
Proof. vm_compute. repeat split. Qed.

(* ---- reads after the first error (EOF) ---- *)
(* sticky: every read of EBSPReader / Reader returns the zero value and leaves error, accumulator and counters as
   they are *)
Theorem C13_reader_eof_sticky : forall s, rerr s = true ->
  (forall o, rstep s o = (rzero o, s)) /\
  (forall ops, run_reader ops s = (map rzero ops, s)) /\
  read_trailing s = Some (TNil, s) /\
  read_se64 s = (0%Z, s) /\
  (forall n, read_plain s n = (0, s)) /\
  read_flag_plain s = (false, s) /\
  (forall n, n <> 0 -> read_signed64 s n = Some (0%Z, s)).
Proof.
  intros s H.
  exact (conj (fun o => rstep_after_error s o H)
        (conj (fun ops => sticky_run ops s H)
        (conj (read_trailing_after_error s H)
        (conj (read_se64_after_error s H)
        (conj (fun n => read_gen_after_error false s n H)
        (conj (read_flag_plain_after_error s H)
              (fun n Hn => read_signed64_after_error s n H Hn))))))).
Qed.
Print Assumptions C13_reader_eof_sticky.

(* the read that fails returns 0 and has consumed every byte of the input: NrBytesRead = len(data) from then on
   (both readers, any width) *)
Theorem C13_read_eof_position : forall esc s n,
  rerr s = false -> rpos s <= N.of_nat (length (rdata s)) ->
  rerr (snd (read_gen esc s n)) = true ->
  fst (read_gen esc s n) = 0 /\ nr_bytes_read (snd (read_gen esc s n)) = N.of_nat (length (rdata s))
  /\ rdata (snd (read_gen esc s n)) = rdata s.
Proof. exact read_eof_position. Qed.
Print Assumptions C13_read_eof_position.

Example ex_eof_sticky :
  let s := snd (read (rinit [1; 2]) 24) in
  rerr s = true /\ nr_bytes_read s = 2 /\ fst (run_reader [RBits 8; RUe; RSe; RFlag; RMore] s)
  = [VN 0; VN 0; VZ 0; VB false; VMore None].
Proof. vm_compute. repeat split. Qed.

(* ---- bits.Reader: Read(n) for every width and ReadSigned in terms of the stream ---- *)
(* (1) Reader.Read(n) returns the true n-bit value modulo 2^(64 - k), k = bits left pending; position always right;
   (2) Reader.ReadSigned(n), 1 <= n, n + k <= 64 (every n <= 57): the next n bits as a two's-complement number *)
Theorem C13_plain_read_widths :
  (forall s n,
     RInv s -> rn s < 8 -> n <= N.of_nat (length (pbits s)) ->
     let '(v, s') := read_plain s n in
     v = val_of (firstn (N.to_nat n) (pbits s)) mod 2 ^ (64 - rn s') /\
     pbits s' = skipn (N.to_nat n) (pbits s) /\
     RInv s' /\ rn s' < 8 /\ rdata s' = rdata s) /\
  (forall s n,
     RInv s -> rn s < 8 -> 1 <= n -> n <= N.of_nat (length (pbits s)) ->
     n + rn (snd (read_plain s n)) <= 64 ->
     exists s', read_signed64 s n = Some (sval_of (firstn (N.to_nat n) (pbits s)), s') /\
                pbits s' = skipn (N.to_nat n) (pbits s) /\ RInv s' /\ rn s' < 8).
Proof. exact (conj read_any_plain read_signed_stream). Qed.
Print Assumptions C13_plain_read_widths.

Example ex_sval : sval_of [true; false; true] = (-3)%Z /\ sval_of [false; true; true] = 3%Z
  /\ read_signed64 (rinit [160]) 3 = Some ((-3)%Z, mkR 5 0 1 0 false [160]).
Proof. vm_compute. repeat split. Qed.

(* ================================================================== round 4: Reader.ReadRemainingBytes, FixedSliceWriter.WriteString *)
(* (models: C13ModelTail.v - the two methods of the anchored files that were not modelled before) *)

(* ---- Reader.ReadRemainingBytes ---- *)
(* (1) on any error-free reader state: with no bits pending it returns exactly the bytes not yet read (tail: the bytes whose
       bits are the whole unread stream), sets no error, does not move the byte counter and leaves the reader drained;
       with 1..7 bits pending it returns nil and sets the error, counters untouched;
   (2) nil and no change at all once an error is set;
   (3) every read of at least one bit from a drained reader fails at once: 0, error set, byte counter where it was *)
Theorem C13_read_remaining_bytes :
  (forall s, RGood s ->
     if rn s =? 0 then
       exists tail s', read_remaining s = (Some tail, s') /\
         pbits s = bytes_to_bits tail /\ Forall lt256 tail /\
         RGood s' /\ Drained s' /\ pbits s' = [] /\ rpos s' = rpos s
     else
       exists s', read_remaining s = (None, s') /\ rerr s' = true /\ rpos s' = rpos s /\ rn s' = rn s) /\
  (forall s, rerr s = true -> read_remaining s = (None, s)) /\
  (forall s n, Drained s -> 1 <= n ->
     exists s', read_plain s n = (0, s') /\ rerr s' = true /\ rpos s' = rpos s /\ rn s' = 0).
Proof. exact (conj read_remaining_spec (conj read_remaining_sticky read_plain_drained)). Qed.
Print Assumptions C13_read_remaining_bytes.

(* values (widths 1..32 that fit, flags) written with Writer / FixedSliceWriter.WriteBits, Flush, then ANY bytes behind them:
   the values are read back, and ReadRemainingBytes then returns exactly those bytes (reader drained, no error, byte counter
   at the first of them) when the values fill whole bytes; otherwise (padding bits pending) nil with the error set *)
Theorem C13_remaining_roundtrip : forall ops tail,
  forallb plain_op ops = true -> Forall lt256 tail ->
  let head := wout (flush_plain (run_writer_plain ops)) in
  exists s1, plain_reads ops [] (rinit (head ++ tail)) = (plain_vals ops, s1) /\ rerr s1 = false /\
    if (N.of_nat (length (concat (map pvbits ops))) mod 8 =? 0)
    then exists s2, read_remaining s1 = (Some tail, s2) /\ Drained s2 /\ rpos s2 = N.of_nat (length head)
    else exists s2, read_remaining s1 = (None, s2) /\ rerr s2 = true.
Proof. exact remaining_roundtrip. Qed.
Print Assumptions C13_remaining_roundtrip.

Example ex_remaining_ops : list wop := [WBits 5 3; WFlag true; WBits 9 4; WBits 258 16].
Example ex_remaining :
  forallb plain_op ex_remaining_ops = true /\
  (let s1 := snd (plain_reads ex_remaining_ops [] (rinit (wout (flush_plain (run_writer_plain ex_remaining_ops)) ++ [0; 0; 3; 255]))) in
   fst (read_remaining s1) = Some [0; 0; 3; 255] /\ rerr (snd (read_remaining s1)) = false /\ nr_bytes_read (snd (read_remaining s1)) = 3 /\
   fst (read_plain (snd (read_remaining s1)) 1) = 0 /\ rerr (snd (read_plain (snd (read_remaining s1)) 1)) = true) /\
  (let s1 := snd (plain_reads [WBits 5 3] [] (rinit (wout (flush_plain (run_writer_plain [WBits 5 3])) ++ [7]))) in
   fst (read_remaining s1) = None /\ rerr (snd (read_remaining s1)) = true).
Proof. vm_compute. repeat split. Qed.

(* ---- FixedSliceWriter.WriteString ---- *)
(* (1) WriteString(s, z) IS WriteBytes of the bytes of s followed by the terminator when z (one capacity check for both);
   (2) so any op sequence with WriteString among the ops is an op sequence of the model there was (every C13_fsw_* theorem applies);
   (3) all or nothing: string and terminator appended and the error left as it was, or nothing written and the error set;
       the pending bits are not touched;
   (4) never beyond the capacity *)
Theorem C13_fsw_write_string :
  (forall s l z, fput_string s l z = fput s (str_bytes l z)) /\
  (forall cap ops, run_fsw2 cap ops = run_fsw cap (map lower_fop2 ops)) /\
  (forall s l z,
     (if fcap s <? foff s + N.of_nat (length (str_bytes l z))
      then fbytes (fput_string s l z) = fbytes s /\ ferr (fput_string s l z) = true
      else fbytes (fput_string s l z) = fbytes s ++ str_bytes l z /\ ferr (fput_string s l z) = ferr s) /\
     fn (fput_string s l z) = fn s /\ fv (fput_string s l z) = fv s /\ fcap (fput_string s l z) = fcap s) /\
  (forall cap ops, foff (run_fsw2 cap ops) <= cap).
Proof.
  exact (conj fput_string_is_fput (conj run_fsw2_lower
          (conj (fun s l z => conj (fput_string_cases s l z) (fput_string_bits s l z)) run_fsw2_within_capacity))).
Qed.
Print Assumptions C13_fsw_write_string.

Example ex_write_string :
  let ops := [FStr [97; 98] true; F1 (FU 2 258); FStr [99; 100; 101] true; FStr [102] false] in
  fbytes (run_fsw2 16 ops) = [97; 98; 0; 1; 2; 99; 100; 101; 0; 102] /\ ferr (run_fsw2 16 ops) = false /\
  fbytes (run_fsw2 8 ops) = [97; 98; 0; 1; 2; 102] /\ ferr (run_fsw2 8 ops) = true.
Proof. vm_compute. repeat split. Qed.

(* ---- ReadExpGolomb / ReadSignedGolomb on a code with ANY number of leading zero bits (malformed streams included) ---- *)
(* (1) q zero bits, a one and at least q more bits, at any alignment, q unbounded: ReadExpGolomb returns
         ((2^q - 1) mod 2^64 + suffix mod 2^(64 - k)) mod 2^64,   k = bits left pending after the suffix (0..7),
       no error, having consumed exactly the 2q + 1 bits of the code (for q <= 57 no modulus bites: C13_read_golomb57);
   (2) the first term is 2^q - 1 below 64 and all ones from 64 on (Go's `1 << q` is 0 there);
   (3) ReadSignedGolomb is the code's mapping of that value, its `+ 1` wrapping at 2^64 *)
Theorem C13_read_golomb_any :
  (forall s q rest,
     RGood s -> rbits s = repeat false q ++ true :: rest -> (q <= length rest)%nat ->
     exists s', read_ue s = (u64 (u64 (2 ^ N.of_nat q - 1) + val_of (firstn q rest) mod 2 ^ (64 - rn s')), s') /\
                rbits s' = skipn q rest /\ RGood s' /\ rdata s' = rdata s) /\
  (forall q, (q < 64 -> u64 (2 ^ q - 1) = 2 ^ q - 1) /\ (64 <= q -> u64 (2 ^ q - 1) = 18446744073709551615)) /\
  (forall s q rest,
     RGood s -> rbits s = repeat false q ++ true :: rest -> (q <= length rest)%nat ->
     exists s', let u := u64 (u64 (2 ^ N.of_nat q - 1) + val_of (firstn q rest) mod 2 ^ (64 - rn s')) in
                read_se64 s = (if u mod 2 =? 1 then Z.of_N (u64 (u + 1) / 2) else (- Z.of_N (u / 2))%Z, s') /\
                rbits s' = skipn q rest /\ RGood s' /\ rdata s' = rdata s).
Proof. exact (conj read_ue_any (conj ue_base_cases read_se64_any)). Qed.
Print Assumptions C13_read_golomb_any.

(* 60 zero bits, a one, 60 one bits: 7 bits stay pending, so the suffix loses its top 3 bits (2^60 - 1 + 2^57 - 1, the
   standard's codeNum would be 2^61 - 2); 64 zero bits, a one, 64 zero bits: all ones, signed 0 *)
Example ex_golomb_any :
  let s := rinit ([0; 0; 0; 0; 0; 0; 0; 15] ++ repeat 255 8) in
  rbits s = repeat false 60 ++ true :: repeat true 67 /\
  fst (read_ue s) = 1297036692682702846 /\ rn (snd (read_ue s)) = 7 /\ rerr (snd (read_ue s)) = false /\
  fst (read_ue (rinit (repeat 0 8 ++ [128] ++ repeat 0 8))) = 18446744073709551615 /\
  fst (read_se64 (rinit (repeat 0 8 ++ [128] ++ repeat 0 8))) = 0%Z.
Proof. vm_compute. repeat split. Qed.
