(* C13FswProofs.v — FixedSliceWriter: never beyond its capacity, bit methods stop at the first error,
   with enough room the bit methods are exactly the plain Writer, byte-level methods write big-endian. *)
From V.lib Require Import Base.
From V.c13 Require Import C13Model C13ModelExt.

(* ------------------------------------------------------------------ big-endian byte strings *)
Lemma be_bytes_length k v : length (be_bytes k v) = k.
Proof. induction k as [|k IH]; cbn [be_bytes length]; [reflexivity|rewrite IH; reflexivity]. Qed.

Lemma be_bytes_lt k v : Forall (fun b => b < 256) (be_bytes k v).
Proof. induction k as [|k IH]; cbn [be_bytes]; constructor; [apply N.mod_lt; lia|exact IH]. Qed.

Lemma be_val_bytes k v : be_val (be_bytes k v) = v mod 2 ^ (8 * N.of_nat k).
Proof.
  induction k as [|k IH]; cbn [be_bytes be_val].
  - change (8 * N.of_nat 0) with 0. rewrite N.pow_0_r, N.mod_1_r. reflexivity.
  - rewrite be_bytes_length, IH, shiftr_div.
    replace (8 * N.of_nat (S k)) with (8 * N.of_nat k + 8) by lia.
    rewrite N.pow_add_r. change (2 ^ 8) with 256.
    rewrite N.mod_mul_r by (try apply N.pow_nonzero; lia). lia.
Qed.

Lemma byte_of_mod v m j : 8 * j + 8 <= m ->
  N.shiftr (v mod 2 ^ m) (8 * j) mod 256 = N.shiftr v (8 * j) mod 256.
Proof.
  intros H. rewrite <- !land_255. apply N.bits_inj. intros i.
  rewrite !N.land_spec, !N.shiftr_spec by lia.
  destruct (N.lt_ge_cases i 8) as [Hi|Hi].
  - rewrite N.mod_pow2_bits_low by lia. reflexivity.
  - change 255 with (N.ones 8). rewrite N.ones_spec_high by lia. rewrite !andb_false_r. reflexivity.
Qed.

Lemma be_bytes_mod k v m : 8 * N.of_nat k <= m -> be_bytes k (v mod 2 ^ m) = be_bytes k v.
Proof.
  induction k as [|k IH]; intros H; cbn [be_bytes]; [reflexivity|].
  rewrite byte_of_mod by lia. rewrite IH by lia. reflexivity.
Qed.

Lemma be_bytes_split a b u :
  be_bytes (a + b) u = be_bytes a (N.shiftr u (8 * N.of_nat b)) ++ be_bytes b u.
Proof.
  induction a as [|a IH]; cbn [be_bytes Nat.add app]; [reflexivity|].
  rewrite IH, N.shiftr_shiftr. f_equal. f_equal. f_equal. lia.
Qed.

Lemma be_bytes_24 n : [N.shiftr n 16 mod 256] ++ be_bytes 2 (N.land n 65535) = be_bytes 3 n.
Proof.
  change 65535 with (N.ones 16). rewrite N.land_ones.
  rewrite (be_bytes_mod 2 n 16) by (cbn; lia). reflexivity.
Qed.

Lemma be_bytes_48 u :
  be_bytes 2 (N.shiftr u 32 mod 65536) ++ be_bytes 4 (N.land u 4294967295) = be_bytes 6 u.
Proof.
  change 4294967295 with (N.ones 32). rewrite N.land_ones.
  change 65536 with (2 ^ 16).
  rewrite (be_bytes_mod 2 _ 16) by (cbn; lia). rewrite (be_bytes_mod 4 u 32) by (cbn; lia).
  symmetry. exact (be_bytes_split 2 4 u).
Qed.

(* ------------------------------------------------------------------ capacity is never exceeded *)
Definition FCap (cap : N) (s : fsw) : Prop := fcap s = cap /\ foff s <= cap.

Lemma fput_cap cap s bs : FCap cap s -> FCap cap (fput s bs).
Proof.
  intros [Hc Ho]. unfold fput, FCap, foff in *.
  destruct (N.ltb_spec (fcap s) (N.of_nat (length (frev s)) + N.of_nat (length bs))) as [H|H]; cbn [fcap frev].
  - split; assumption.
  - split; [exact Hc|]. rewrite app_length, rev_length. lia.
Qed.

Lemma fdrain_cap cap fuel : forall V T s, FCap cap s -> FCap cap (snd (fdrain fuel V T s)).
Proof.
  induction fuel as [|f IH]; intros V T s H; cbn [fdrain]; [exact H|].
  destruct (8 <=? T); [|exact H]. apply IH. apply fput_cap. exact H.
Qed.

Lemma fold_fput_cap cap (g : N -> list N) l : forall s, FCap cap s ->
  FCap cap (fold_left (fun st w => fput st (g w)) l s).
Proof. induction l as [|w t IH]; intros s H; cbn [fold_left]; [exact H|]. apply IH, fput_cap, H. Qed.

Lemma fstep_cap cap s o : FCap cap s -> FCap cap (fstep s o).
Proof.
  intros H. pose proof H as [Hc Ho].
  assert (Hsame : FCap cap (mkF (fcap s) (frev s) true (fn s) (fv s))) by (split; assumption).
  assert (Hwb : forall v n, FCap cap (fwrite_bits s v n)).
  { intros v n. unfold fwrite_bits. destruct (ferr s); [exact H|].
    pose proof (fdrain_cap cap (S (N.to_nat ((fn s + n) / 8)))
                  (N.lor (u64 (N.shiftl (fv s) n)) (N.land v (N.ones n))) (fn s + n) s H) as Hd.
    destruct (fdrain _ _ _ s) as [T' s']. cbn [snd] in Hd. exact Hd. }
  destruct o; cbn [fstep].
  - apply Hwb.
  - apply Hwb.
  - unfold fflush. destruct (ferr s); [exact H|]. destruct (fn s =? 0); [exact H|]. apply fput_cap, H.
  - apply fput_cap, H.
  - unfold fput24. destruct (fcap s <? foff s + 3); [exact Hsame|]. apply fput_cap, fput_cap, H.
  - unfold fput48. destruct (N.ltb_spec (fcap s) (foff s + 6)) as [Hlt|Hge]; [exact Hsame|].
    split; [exact Hc|]. unfold foff in *. cbn [frev]. rewrite !app_length, !rev_length, !be_bytes_length. lia.
  - apply fput_cap, H.
  - apply fput_cap, H.
  - apply fput_cap, H.
  - unfold fput_matrix. destruct (fcap s <? foff s + 36); [exact Hsame|]. apply fold_fput_cap, H.
Qed.

Lemma run_fsw_within_capacity cap ops : foff (run_fsw cap ops) <= cap.
Proof.
  unfold run_fsw.
  assert (G : forall l s, FCap cap s -> FCap cap (fold_left fstep l s)).
  { induction l as [|o t IH]; intros s H; cbn [fold_left]; [exact H|]. apply IH, fstep_cap, H. }
  apply (G ops (finit cap)). split; [reflexivity|]. unfold foff, finit. cbn. lia.
Qed.

(* ------------------------------------------------------------------ the bit methods stop at the first error *)
Lemma fsw_sticky s : ferr s = true ->
  (forall v n, fwrite_bits s v n = s) /\ (forall b, fstep s (FFlag b) = s) /\ fflush s = s.
Proof.
  intros H. unfold fflush. cbn [fstep]. unfold fwrite_bits. rewrite H. repeat split; reflexivity.
Qed.

(* an error, once set, stays set *)
Lemma fput_err s bs : ferr s = true -> ferr (fput s bs) = true.
Proof. intros H. unfold fput. destruct (_ <? _); cbn [ferr]; [reflexivity|exact H]. Qed.

(* ------------------------------------------------------------------ with room: the plain Writer *)
Definition pf_op (o : wop) : bool :=
  match o with WBits _ _ | WFlag _ | WFlush => true | _ => false end.
Definition wop_fop (o : wop) : fop :=
  match o with WBits v w => FBits v w | WFlag b => FFlag b | _ => FFlush end.

Definition FS (s : fsw) (w : wstate) : Prop :=
  frev s = wrev w /\ fn s = wn w /\ fv s = wv w /\ ferr s = false.

Lemma drain_len_mono fuel : forall V T z out,
  (length out <= length (snd (drain false fuel V T z out)))%nat.
Proof.
  induction fuel as [|f IH]; intros V T z out; cbn [drain snd]; [lia|].
  destruct (8 <=? T); [|cbn [snd]; lia].
  unfold emit_byte. cbn [andb].
  specialize (IH V (T - 8) (if N.land (N.shiftr V (T - 8)) 255 =? 0 then z + 1 else 0)
                 (N.land (N.shiftr V (T - 8)) 255 :: out)).
  cbn [length] in IH. lia.
Qed.

Lemma fdrain_sim fuel : forall V T z s,
  ferr s = false ->
  N.of_nat (length (snd (drain false fuel V T z (frev s)))) <= fcap s ->
  let '(T1, z1, o1) := drain false fuel V T z (frev s) in
  let '(T2, s2) := fdrain fuel V T s in
  T2 = T1 /\ frev s2 = o1 /\ ferr s2 = false /\ fcap s2 = fcap s /\ fn s2 = fn s /\ fv s2 = fv s.
Proof.
  induction fuel as [|f IH]; intros V T z s He Hlen; cbn [drain fdrain].
  - repeat split; assumption.
  - cbn [drain] in Hlen. destruct (8 <=? T); [|repeat split; assumption].
    unfold emit_byte in *. cbn [andb] in *.
    set (b := N.land (N.shiftr V (T - 8)) 255) in *.
    set (z' := if b =? 0 then z + 1 else 0) in *.
    pose proof (drain_len_mono f V (T - 8) z' (b :: frev s)) as Hm. cbn [length] in Hm.
    assert (Hput : fput s [b] = mkF (fcap s) (b :: frev s) false (fn s) (fv s)).
    { unfold fput, foff. cbn [length rev app].
      destruct (N.ltb_spec (fcap s) (N.of_nat (length (frev s)) + N.of_nat 1)) as [Hlt|Hge]; [lia|].
      rewrite He. reflexivity. }
    rewrite Hput.
    specialize (IH V (T - 8) z' (mkF (fcap s) (b :: frev s) false (fn s) (fv s)) eq_refl).
    cbn [frev fcap fn fv] in IH. specialize (IH Hlen).
    destruct (drain false f V (T - 8) z' (b :: frev s)) as [[T1 z1] o1].
    destruct (fdrain f V (T - 8) _) as [T2 s2]. exact IH.
Qed.

Lemma wstep_plain_len_mono w o : (length (wrev w) <= length (wrev (wstep_plain w o)))%nat.
Proof.
  assert (Hw : forall v n, (length (wrev w) <= length (wrev (write_plain w v n)))%nat).
  { intros v n. unfold write_plain, write_gen.
    pose proof (drain_len_mono (S (N.to_nat ((wn w + n) / 8)))
                  (N.lor (u64 (N.shiftl (wv w) n)) (N.land v (N.ones n))) (wn w + n) (wnr0 w) (wrev w)) as H.
    destruct (drain false _ _ _ _ _) as [[T' z] o']. cbn [snd wrev] in *. exact H. }
  destruct o; cbn [wstep_plain]; try apply Hw; try lia.
  unfold flush_plain. destruct (wn w =? 0); cbn [wrev length]; lia.
Qed.

Lemma run_plain_len_mono ops : forall w,
  (length (wrev w) <= length (wrev (fold_left wstep_plain ops w)))%nat.
Proof.
  induction ops as [|o t IH]; intros w; cbn [fold_left]; [lia|].
  pose proof (wstep_plain_len_mono w o). specialize (IH (wstep_plain w o)). lia.
Qed.

Lemma fstep_sim s w o :
  FS s w -> pf_op o = true -> N.of_nat (length (wrev (wstep_plain w o))) <= fcap s ->
  FS (fstep s (wop_fop o)) (wstep_plain w o) /\ fcap (fstep s (wop_fop o)) = fcap s.
Proof.
  intros [Hr [Hn [Hv He]]] Hok Hlen.
  assert (Hw : forall v n, N.of_nat (length (wrev (write_plain w v n))) <= fcap s ->
             FS (fwrite_bits s v n) (write_plain w v n) /\ fcap (fwrite_bits s v n) = fcap s).
  { intros v n Hl. unfold fwrite_bits, write_plain, write_gen in *. rewrite He, Hn, Hv.
    pose proof (fdrain_sim (S (N.to_nat ((wn w + n) / 8)))
                  (N.lor (u64 (N.shiftl (wv w) n)) (N.land v (N.ones n))) (wn w + n) (wnr0 w) s He) as H.
    rewrite Hr in H.
    destruct (drain false _ _ _ _ (wrev w)) as [[T1 z1] o1]. cbn [snd wrev] in *.
    specialize (H Hl). destruct (fdrain _ _ _ s) as [T2 s2].
    destruct H as [H1 [H2 [H3 [H4 _]]]]. subst T2.
    unfold FS. cbn [frev fn fv ferr fcap wrev wn wv]. repeat split; assumption. }
  destruct o; cbn [pf_op] in Hok; try discriminate; cbn [wop_fop fstep wstep_plain] in *.
  - apply Hw, Hlen.
  - apply Hw, Hlen.
  - unfold fflush, flush_plain in *. rewrite He, Hn, Hv.
    destruct (wn w =? 0).
    + split; [repeat split; assumption|reflexivity].
    + cbn [wrev length] in Hlen. unfold fput, foff. cbn [length rev app].
      destruct (N.ltb_spec (fcap s) (N.of_nat (length (frev s)) + N.of_nat 1)) as [Hlt|Hge].
      * rewrite Hr in Hlt. lia.
      * unfold FS. cbn [frev fn fv ferr fcap wrev wn wv]. rewrite Hr. repeat split; assumption.
Qed.

Lemma fsw_refines_writer cap ops :
  forallb pf_op ops = true ->
  N.of_nat (length (wout (run_writer_plain ops))) <= cap ->
  fbytes (run_fsw cap (map wop_fop ops)) = wout (run_writer_plain ops) /\
  ferr (run_fsw cap (map wop_fop ops)) = false.
Proof.
  intros Hok Hlen. unfold run_fsw, run_writer_plain, fbytes, wout in *. rewrite rev_length in Hlen.
  assert (G : forall l s w, FS s w -> fcap s = cap -> forallb pf_op l = true ->
            N.of_nat (length (wrev (fold_left wstep_plain l w))) <= cap ->
            FS (fold_left fstep (map wop_fop l) s) (fold_left wstep_plain l w)).
  { induction l as [|o t IH]; intros s w HS Hc Hl Hn; cbn [map fold_left] in *; [exact HS|].
    apply andb_true_iff in Hl. destruct Hl as [Ho Ht].
    pose proof (run_plain_len_mono t (wstep_plain w o)) as Hm.
    destruct (fstep_sim s w o HS Ho ltac:(lia)) as [HS' Hc'].
    apply IH; [exact HS'|congruence|exact Ht|exact Hn]. }
  specialize (G ops (finit cap) winit ltac:(repeat split) eq_refl Hok Hlen).
  destruct G as [Hr [_ [_ He]]]. rewrite Hr. split; [reflexivity|exact He].
Qed.

(* ------------------------------------------------------------------ byte-level methods, with room *)
Definition fop_bytes (o : fop) : option (list N) :=
  match o with
  | FU k v => Some (be_bytes k v)
  | FU24 v => Some (be_bytes 3 v)
  | FU48 v => Some (be_bytes 6 v)
  | FI k z => Some (be_bytes k (twos k z))
  | FZero k => Some (repeat 0 k)
  | FBytes l => Some l
  | FMatrix => Some (concat (map (be_bytes 4) unity_words))
  | _ => None
  end.

Lemma fput_room s bs : foff s + N.of_nat (length bs) <= fcap s ->
  fput s bs = mkF (fcap s) (rev bs ++ frev s) (ferr s) (fn s) (fv s).
Proof. intros H. unfold fput. destruct (N.ltb_spec (fcap s) (foff s + N.of_nat (length bs))); [lia|reflexivity]. Qed.

Lemma fold_fput_room (g : N -> list N) l : forall s,
  foff s + N.of_nat (length (concat (map g l))) <= fcap s ->
  fold_left (fun st w => fput st (g w)) l s
  = mkF (fcap s) (rev (concat (map g l)) ++ frev s) (ferr s) (fn s) (fv s).
Proof.
  induction l as [|w t IH]; intros s H; cbn [fold_left map concat].
  - destruct s; reflexivity.
  - cbn [map concat] in H. rewrite app_length in H.
    rewrite (fput_room s (g w)) by lia.
    rewrite IH.
    + cbn [fcap frev ferr fn fv]. rewrite rev_app_distr, <- app_assoc. reflexivity.
    + unfold foff in *. cbn [frev fcap]. rewrite app_length, rev_length. lia.
Qed.

Lemma fstep_bytes s o bs : fop_bytes o = Some bs -> foff s + N.of_nat (length bs) <= fcap s ->
  fstep s o = mkF (fcap s) (rev bs ++ frev s) (ferr s) (fn s) (fv s).
Proof.
  intros Hb Hroom. destruct o; cbn [fop_bytes] in Hb;
    (match type of Hb with None = _ => discriminate Hb | _ => idtac end);
    apply (f_equal (fun x => match x with Some y => y | None => [] end)) in Hb; cbv beta iota in Hb; subst bs; cbn [fstep].
  - apply fput_room, Hroom.
  - unfold fput24. rewrite be_bytes_length in Hroom.
    destruct (N.ltb_spec (fcap s) (foff s + 3)); [lia|].
    rewrite (fput_room s) by (cbn [length]; lia).
    rewrite fput_room by (unfold foff in *; cbn [frev fcap]; rewrite app_length, rev_length, be_bytes_length; cbn [length]; lia).
    cbn [fcap frev ferr fn fv]. rewrite <- be_bytes_24, rev_app_distr, <- app_assoc. reflexivity.
  - unfold fput48. rewrite be_bytes_length in Hroom.
    destruct (N.ltb_spec (fcap s) (foff s + 6)); [lia|].
    rewrite <- be_bytes_48, rev_app_distr, <- app_assoc. reflexivity.
  - apply fput_room, Hroom.
  - apply fput_room, Hroom.
  - apply fput_room, Hroom.
  - unfold fput_matrix.
    assert (Hl : length (concat (map (be_bytes 4) unity_words)) = 36%nat) by reflexivity.
    rewrite Hl in Hroom. destruct (N.ltb_spec (fcap s) (foff s + 36)); [lia|].
    apply fold_fput_room. rewrite Hl. exact Hroom.
Qed.

Lemma fsw_byte_ops cap : forall ops bss,
  map fop_bytes ops = map Some bss ->
  N.of_nat (length (concat bss)) <= cap ->
  fbytes (run_fsw cap ops) = concat bss /\ ferr (run_fsw cap ops) = false.
Proof.
  intros ops bss Hm Hlen. unfold run_fsw, fbytes.
  assert (G : forall l bl s, map fop_bytes l = map Some bl -> fcap s = cap ->
            foff s + N.of_nat (length (concat bl)) <= cap ->
            frev (fold_left fstep l s) = rev (concat bl) ++ frev s /\ ferr (fold_left fstep l s) = ferr s).
  { induction l as [|o t IH]; intros bl s Hmm Hc Hr; destruct bl as [|bs bt]; try discriminate; cbn [fold_left].
    - split; reflexivity.
    - cbn [map] in Hmm. injection Hmm as Ho Ht. cbn [concat] in *. rewrite app_length in Hr.
      rewrite (fstep_bytes s o bs Ho) by lia.
      destruct (IH bt (mkF (fcap s) (rev bs ++ frev s) (ferr s) (fn s) (fv s)) Ht Hc) as [H1 H2].
      { unfold foff in *. cbn [frev]. rewrite app_length, rev_length. lia. }
      rewrite H1, H2. cbn [frev ferr]. rewrite rev_app_distr, <- app_assoc. split; reflexivity. }
  destruct (G ops bss (finit cap) Hm eq_refl) as [H1 H2].
  { unfold foff, finit. cbn [frev length]. lia. }
  rewrite H1, H2. cbn [finit frev ferr]. rewrite app_nil_r, rev_involutive. split; reflexivity.
Qed.
