(* C13FswRoundTrip.v — FixedSliceWriter.WriteBits/WriteFlag + FlushBits with enough room, read back
   with bits.Reader: the composition of fsw_refines_writer with plain_roundtrip. *)
From V.lib Require Import Base.
From V.c13 Require Import C13Model C13ModelExt C13PlainProofs C13FswProofs.

Lemma plain_op_pf o : plain_op o = true -> pf_op o = true.
Proof. destruct o; cbn [plain_op pf_op]; congruence. Qed.

Lemma fsw_roundtrip cap ops :
  forallb plain_op ops = true ->
  N.of_nat (length (wout (flush_plain (run_writer_plain ops)))) <= cap ->
  let data := fbytes (run_fsw cap (map wop_fop (ops ++ [WFlush]))) in
  ferr (run_fsw cap (map wop_fop (ops ++ [WFlush]))) = false /\
  exists s', fold_left (fun '(acc, st) o =>
               match o with
               | WBits _ w => let '(v, st') := read_plain st w in (acc ++ [v], st')
               | _ => let '(v, st') := read_plain st 1 in (acc ++ [v], st')
               end) ops ([], rinit data)
             = (map (fun o => match o with WBits v _ => v | WFlag b => N.b2n b | _ => 0 end) ops, s')
             /\ rerr s' = false.
Proof.
  intros Hok Hlen data.
  assert (Hrun : run_writer_plain (ops ++ [WFlush]) = flush_plain (run_writer_plain ops)).
  { unfold run_writer_plain. rewrite fold_left_app. reflexivity. }
  assert (Hpf : forallb pf_op (ops ++ [WFlush]) = true).
  { rewrite forallb_app. cbn [forallb pf_op]. rewrite andb_true_r.
    apply forallb_forall. intros o Ho. apply plain_op_pf. rewrite forallb_forall in Hok. apply Hok, Ho. }
  destruct (fsw_refines_writer cap (ops ++ [WFlush]) Hpf ltac:(rewrite Hrun; exact Hlen)) as [Hb He].
  split; [exact He|]. unfold data. rewrite Hb, Hrun. exact (plain_roundtrip ops Hok).
Qed.
