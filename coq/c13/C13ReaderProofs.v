(* C13ReaderProofs.v — the word-level EBSP reader of C13Model refines the bit-stream view:
   the bits still to be delivered are the pending accumulator bits followed by the bits of
   the UNESCAPED rest of the input; Read n returns the next n of them and advances. *)
From V.lib Require Import Base.
From V.c13 Require Import C13Spec C13Model C13Bits C13EscProofs.

Definition lt256 (b : N) : Prop := b < 256.

(* remaining logical bits of an emulation-removing reader *)
Definition rrest (s : rstate) : list N := unescape_from (rzc s) (skipn (N.to_nat (rpos s)) (rdata s)).
Definition rbits (s : rstate) : list bool :=
  bits_of (N.to_nat (rn s)) (rv s) ++ bytes_to_bits (rrest s).

Definition RInv (s : rstate) : Prop :=
  rerr s = false /\ rv s < 2 ^ rn s /\ Forall lt256 (rdata s).

Lemma nth_error_skipn {A} (l : list A) i x :
  nth_error l i = Some x -> skipn i l = x :: skipn (S i) l.
Proof.
  revert l. induction i as [|i IH]; intros [|a l] H; cbn in *; try discriminate.
  - inversion H; reflexivity.
  - apply IH. exact H.
Qed.

Lemma nth_error_none_skipn {A} (l : list A) i : nth_error l i = None -> skipn i l = [].
Proof. intros H. apply skipn_all2. apply nth_error_None. exact H. Qed.

Lemma nth_error_Forall {A} (P : A -> Prop) l i x : Forall P l -> nth_error l i = Some x -> P x.
Proof. intros HF H. rewrite Forall_forall in HF. apply HF. eapply nth_error_In; eassumption. Qed.

(* shifting a byte into the accumulator appends its 8 bits *)
Lemma acc_shift_bits k v b :
  (k + 8 <= 64)%nat -> b < 256 ->
  bits_of (k + 8) (N.lor (u64 (N.shiftl v 8)) b) = bits_of k v ++ bits_of 8 b.
Proof.
  intros Hk Hb. apply bits_of_app_ext.
  - intros i Hi. rewrite N.lor_spec. unfold u64. change 18446744073709551616 with (2 ^ 64).
    rewrite N.mod_pow2_bits_low by lia. rewrite N.shiftl_spec_low by lia. reflexivity.
  - intros i Hi. rewrite N.lor_spec. unfold u64. change 18446744073709551616 with (2 ^ 64).
    rewrite N.mod_pow2_bits_low by lia. rewrite N.shiftl_spec_high' by lia.
    replace (N.of_nat 8 + i - 8) with i by lia.
    assert (Hz : N.testbit b (N.of_nat 8 + i) = false).
    { destruct (N.eq_dec b 0) as [->|Hb0]; [apply N.bits_0|].
      apply N.bits_above_log2. assert (N.log2 b < 8) by (apply N.log2_lt_pow2; [lia|exact Hb]). lia. }
    rewrite Hz. apply orb_false_r.
Qed.

Lemma acc_shift_lt k v b :
  k + 8 <= 64 -> v < 2 ^ k -> b < 256 -> N.lor (u64 (N.shiftl v 8)) b < 2 ^ (k + 8).
Proof.
  intros Hk Hv Hb. rewrite N.shiftl_mul_pow2. unfold u64.
  assert (Hlt : v * 2 ^ 8 < 18446744073709551616).
  { change 18446744073709551616 with (2 ^ 64).
    apply N.lt_le_trans with (2 ^ k * 2 ^ 8).
    - apply N.mul_lt_mono_pos_r; [cbn; lia|exact Hv].
    - rewrite <- N.pow_add_r. apply N.pow_le_mono_r; lia. }
  rewrite N.mod_small by exact Hlt.
  rewrite lor_shifted_add by (cbn; lia).
  rewrite N.pow_add_r. change (2 ^ 8) with 256. nia.
Qed.

(* ------------------------------------------------------------------ the refill loop *)
Lemma fill_ok fuel : forall s n,
  RInv s -> n <= 56 -> rn s < n + 8 ->
  n <= N.of_nat (length (rbits s)) -> n <= rn s + 8 * N.of_nat fuel ->
  let s1 := fill true fuel s n in
  RInv s1 /\ n <= rn s1 /\ rn s1 < n + 8 /\ rbits s1 = rbits s /\ rdata s1 = rdata s
  /\ (n <= rn s -> s1 = s).
Proof.
  induction fuel as [|f IH]; intros s n HI Hn Hrn Hlen Hfuel; cbn [fill].
  - cbv zeta. repeat split; try apply HI; try lia; reflexivity.
  - destruct (N.ltb_spec (rn s) n) as [Hlt|Hge].
    2:{ cbv zeta. repeat split; try apply HI; try lia; reflexivity. }
    destruct HI as [He [Hv Hd]].
    unfold byte_at.
    (* there must be a next unescaped byte, otherwise not enough bits *)
    assert (Hne : rrest s <> []).
    { intros E. unfold rbits in Hlen. rewrite E in Hlen. cbn [bytes_to_bits flat_map] in Hlen.
      rewrite app_nil_r, bits_of_length in Hlen. lia. }
    unfold rrest in Hne.
    destruct (nth_error (rdata s) (N.to_nat (rpos s))) as [b|] eqn:Eb.
    2:{ rewrite (nth_error_none_skipn _ _ Eb) in Hne. cbn in Hne. contradiction. }
    pose proof (nth_error_skipn _ _ _ Eb) as Hsk.
    pose proof (nth_error_Forall _ _ _ _ Hd Eb) as Hb256.
    rewrite Hsk in Hne. cbn [unescape_from] in Hne.
    cbn [andb].
    destruct ((rzc s =? 2) && (b =? 3)) eqn:Ec.
    + (* escape byte: skip it, take the next *)
      replace (N.to_nat (rpos s + 1)) with (S (N.to_nat (rpos s))) by lia.
      destruct (nth_error (rdata s) (S (N.to_nat (rpos s)))) as [b'|] eqn:Eb'.
      2:{ rewrite (nth_error_none_skipn _ _ Eb') in Hne. contradiction. }
      pose proof (nth_error_skipn _ _ _ Eb') as Hsk'.
      pose proof (nth_error_Forall _ _ _ _ Hd Eb') as Hb'256.
      set (s2 := mkR (rn s + 8) (N.lor (u64 (N.shiftl (rv s) 8)) b') (rpos s + 1 + 1)
                     (if b' =? 0 then 1 else 0) false (rdata s)).
      assert (Hb2 : rbits s2 = rbits s).
      { unfold rbits, rrest, s2. cbn [rn rv rpos rzc rdata].
        rewrite Hsk. cbn [unescape_from]. rewrite Ec, Hsk'.
        replace (N.to_nat (rpos s + 1 + 1)) with (S (S (N.to_nat (rpos s)))) by lia.
        replace (N.to_nat (rn s + 8)) with (N.to_nat (rn s) + 8)%nat by lia.
        rewrite acc_shift_bits by (try exact Hb'256; lia).
        unfold bytes_to_bits. cbn [flat_map]. rewrite <- app_assoc. reflexivity. }
      assert (HI2 : RInv s2).
      { unfold RInv, s2. cbn [rerr rv rn rdata]. repeat split; [|exact Hd].
        apply acc_shift_lt; [lia|exact Hv|exact Hb'256]. }
      assert (Hr2 : rn s2 = rn s + 8) by reflexivity.
      destruct (IH s2 n HI2 Hn ltac:(rewrite Hr2; lia) ltac:(rewrite Hb2; exact Hlen)
                   ltac:(rewrite Hr2; lia)) as [HI3 [H1 [H2 [H3 [H4 _]]]]].
      repeat split; try apply HI3; try assumption.
      * rewrite H3. exact Hb2.
      * intros; lia.
    + set (s2 := mkR (rn s + 8) (N.lor (u64 (N.shiftl (rv s) 8)) b) (rpos s + 1)
                     (if b =? 0 then rzc s + 1 else 0) false (rdata s)).
      assert (Hb2 : rbits s2 = rbits s).
      { unfold rbits, rrest, s2. cbn [rn rv rpos rzc rdata].
        rewrite Hsk. cbn [unescape_from]. rewrite Ec.
        replace (N.to_nat (rpos s + 1)) with (S (N.to_nat (rpos s))) by lia.
        replace (N.to_nat (rn s + 8)) with (N.to_nat (rn s) + 8)%nat by lia.
        rewrite acc_shift_bits by (try exact Hb256; lia).
        unfold bytes_to_bits. cbn [flat_map]. rewrite <- app_assoc. reflexivity. }
      assert (HI2 : RInv s2).
      { unfold RInv, s2. cbn [rerr rv rn rdata]. repeat split; [|exact Hd].
        apply acc_shift_lt; [lia|exact Hv|exact Hb256]. }
      assert (Hr2 : rn s2 = rn s + 8) by reflexivity.
      destruct (IH s2 n HI2 Hn ltac:(rewrite Hr2; lia) ltac:(rewrite Hb2; exact Hlen)
                   ltac:(rewrite Hr2; lia)) as [HI3 [H1 [H2 [H3 [H4 _]]]]].
      repeat split; try apply HI3; try assumption.
      * rewrite H3. exact Hb2.
      * intros; lia.
Qed.

(* ------------------------------------------------------------------ Read(n) *)
Lemma read_spec s n :
  RInv s -> rn s < 8 -> n <= 56 -> n <= N.of_nat (length (rbits s)) ->
  let '(v, s') := read s n in
  v = val_of (firstn (N.to_nat n) (rbits s)) /\
  rbits s' = skipn (N.to_nat n) (rbits s) /\
  RInv s' /\ rn s' < 8 /\ rdata s' = rdata s.
Proof.
  intros HI Hrn Hn Hlen. unfold read, read_gen.
  destruct HI as [He [Hv Hd]]. rewrite He.
  set (fuel := S (N.to_nat (n / 8) + 1)).
  pose proof (fill_ok fuel s n (conj He (conj Hv Hd)) Hn ltac:(lia) Hlen) as Hf.
  assert (Hfu : n <= rn s + 8 * N.of_nat fuel).
  { unfold fuel. pose proof (N.div_mod n 8 ltac:(lia)). pose proof (N.mod_lt n 8 ltac:(lia)). lia. }
  specialize (Hf Hfu). cbv zeta in Hf.
  set (s1 := fill true fuel s n) in *.
  destruct Hf as [[He1 [Hv1 Hd1]] [Hge [Hlt8 [Hb1 [Hdata _]]]]].
  rewrite He1.
  set (k := (N.to_nat (rn s1) - N.to_nat n)%nat).
  assert (Hsplit : N.to_nat (rn s1) = (N.to_nat n + k)%nat) by (unfold k; lia).
  assert (Hbits : bits_of (N.to_nat (rn s1)) (rv s1)
                  = bits_of (N.to_nat n) (N.shiftr (rv s1) (rn s1 - n)) ++ bits_of k (rv s1)).
  { rewrite Hsplit, bits_of_app. f_equal. f_equal. f_equal. unfold k. lia. }
  split; [|split; [|split; [|split]]].
  - rewrite <- Hb1. unfold rbits. rewrite Hbits, <- app_assoc.
    rewrite firstn_app, bits_of_length, Nat.sub_diag, firstn_O, app_nil_r.
    rewrite <- (bits_of_length (N.to_nat n) (N.shiftr (rv s1) (rn s1 - n))) at 1.
    rewrite firstn_all, val_of_bits_of. rewrite N2Nat.id.
    symmetry. apply N.mod_small.
    rewrite N.shiftr_div_pow2.
    apply N.div_lt_upper_bound; [apply N.pow_nonzero; lia|].
    rewrite <- N.pow_add_r. replace (rn s1 - n + n) with (rn s1) by lia. exact Hv1.
  - rewrite <- Hb1. unfold rbits at 2. rewrite Hbits, <- app_assoc.
    rewrite skipn_app, bits_of_length, Nat.sub_diag, skipn_O.
    rewrite <- (bits_of_length (N.to_nat n) (N.shiftr (rv s1) (rn s1 - n))) at 1.
    rewrite skipn_all. cbn [app].
    unfold rbits, rrest. cbn [rn rv rpos rzc rdata].
    replace (N.to_nat (rn s1 - n)) with k by (unfold k; lia).
    f_equal. apply bits_of_ext. intros i Hi.
    rewrite N.land_spec, N.ones_spec_low by (unfold k in Hi; lia). apply andb_true_r.
  - unfold RInv. cbn [rerr rv rn rdata]. repeat split; [|exact Hd1].
    rewrite N.land_ones. apply N.mod_lt. apply N.pow_nonzero. lia.
  - cbn [rn]. lia.
  - cbn [rdata]. exact Hdata.
Qed.

Lemma rbits_init data : rbits (rinit data) = bytes_to_bits (unescape data).
Proof. reflexivity. Qed.

Lemma RInv_init data : Forall lt256 data -> RInv (rinit data).
Proof. intros H. unfold RInv, rinit; cbn [rerr rv rn rdata]. split; [reflexivity|split; [cbn; lia|exact H]]. Qed.

(* ------------------------------------------------------------------ derived reads *)
Lemma unescape_from_length_aux n : forall l z,
  (length l <= n)%nat -> (length (unescape_from z l) <= length l)%nat.
Proof.
  induction n as [|n IH]; intros l z Hl.
  - destruct l; [cbn; lia|cbn in Hl; lia].
  - destruct l as [|b t]; [cbn; lia|]. cbn [unescape_from].
    destruct ((z =? 2) && (b =? 3)).
    + destruct t as [|b' t']; [cbn; lia|]. cbn [length] in *.
      specialize (IH t' (if b' =? 0 then 1 else 0) ltac:(lia)). lia.
    + cbn [length] in *. specialize (IH t (if b =? 0 then z + 1 else 0) ltac:(lia)). lia.
Qed.

Lemma unescape_from_length z l : (length (unescape_from z l) <= length l)%nat.
Proof. apply (unescape_from_length_aux (length l)). lia. Qed.

Lemma rbits_length_le s :
  rn s < 8 -> (length (rbits s) <= 8 * length (rdata s) + 7)%nat.
Proof.
  intros Hn. unfold rbits, rrest. rewrite app_length, bits_of_length, bytes_to_bits_length.
  pose proof (unescape_from_length (rzc s) (skipn (N.to_nat (rpos s)) (rdata s))) as H1.
  rewrite skipn_length in H1. lia.
Qed.

Definition RGood (s : rstate) : Prop := RInv s /\ rn s < 8.

Ltac fin := repeat match goal with |- _ /\ _ => split end; try assumption; try congruence.

Lemma read_prefix s n pre rest :
  RGood s -> n <= 56 -> rbits s = pre ++ rest -> length pre = N.to_nat n ->
  exists s', read s n = (val_of pre, s') /\ rbits s' = rest /\ RGood s' /\ rdata s' = rdata s.
Proof.
  intros [HI Hn8] Hn Hb Hl.
  assert (Hlen : n <= N.of_nat (length (rbits s))) by (rewrite Hb, app_length; lia).
  pose proof (read_spec s n HI Hn8 Hn Hlen) as H. destruct (read s n) as [v s'].
  destruct H as [Hv [Hr [HI' [Hn' Hd]]]]. exists s'.
  rewrite Hb in Hv, Hr. rewrite <- Hl in Hv, Hr.
  rewrite firstn_app, Nat.sub_diag, firstn_O, app_nil_r, firstn_all in Hv.
  rewrite skipn_app, Nat.sub_diag, skipn_O, skipn_all in Hr. cbn [app] in Hr.
  subst v. split; [reflexivity|split; [exact Hr|split; [split; assumption|exact Hd]]].
Qed.

Lemma read_fixed s w v rest :
  RGood s -> w <= 56 -> v < 2 ^ w -> rbits s = bits_of (N.to_nat w) v ++ rest ->
  exists s', read s w = (v, s') /\ rbits s' = rest /\ RGood s' /\ rdata s' = rdata s.
Proof.
  intros HG Hw Hv Hb.
  destruct (read_prefix s w _ rest HG Hw Hb (bits_of_length _ _)) as [s' [Hr H]].
  exists s'. split; [|exact H].
  rewrite Hr, val_of_bits_of, N2Nat.id, N.mod_small by exact Hv. reflexivity.
Qed.

Lemma read_flag_spec s b rest :
  RGood s -> rbits s = b :: rest ->
  exists s', read_flag s = (b, s') /\ rbits s' = rest /\ RGood s' /\ rdata s' = rdata s.
Proof.
  intros HG Hb. unfold read_flag.
  destruct (read_prefix s 1 [b] rest HG ltac:(lia) Hb eq_refl) as [s' [Hr H]].
  exists s'. rewrite Hr. split; [|exact H]. destruct b; reflexivity.
Qed.

Lemma lz_loop_spec q : forall fuel s lz rest,
  RGood s -> (q < fuel)%nat -> rbits s = repeat false q ++ true :: rest ->
  exists s', lz_loop fuel s lz = Some (lz + N.of_nat q, s') /\ rbits s' = rest /\ RGood s'
             /\ rdata s' = rdata s.
Proof.
  induction q as [|q IH]; intros fuel s lz rest HG Hf Hb; (destruct fuel as [|f]; [lia|]); cbn [lz_loop].
  - cbn [repeat app] in Hb.
    destruct (read_prefix s 1 [true] rest HG ltac:(lia) Hb eq_refl) as [s' [Hr [Hb' [HG' Hd]]]].
    rewrite Hr. pose proof HG' as [[He ?] ?]. rewrite He. cbn [val_of length N.b2n].
    change (1 * 2 ^ N.of_nat 0 + 0 =? 1) with true. cbv iota.
    exists s'. replace (lz + N.of_nat 0) with lz by lia. fin.
  - cbn [repeat app] in Hb.
    destruct (read_prefix s 1 [false] _ HG ltac:(lia) Hb eq_refl) as [s' [Hr [Hb' [HG' Hd]]]].
    rewrite Hr. pose proof HG' as [[He ?] ?]. rewrite He. cbn [val_of length N.b2n].
    change (0 * 2 ^ N.of_nat 0 + 0 =? 1) with false. cbv iota.
    destruct (IH f s' (lz + 1) rest HG' ltac:(lia) Hb') as [s'' [Hl [Hb'' [HG'' Hd'']]]].
    exists s''. rewrite Hl. replace (lz + 1 + N.of_nat q) with (lz + N.of_nat (S q)) by lia.
    fin.
Qed.

(* the code written by WriteExpGolomb, in the form the reader consumes it *)
Definition ue_code' (v : N) : list bool :=
  let q := N.to_nat (N.log2 (v + 1)) in
  repeat false q ++ true :: bits_of q (v + 1 - 2 ^ N.of_nat q).

Lemma read_ue_spec s v rest :
  RGood s -> v < 2 ^ 32 -> rbits s = ue_code' v ++ rest ->
  exists s', read_ue s = (v, s') /\ rbits s' = rest /\ RGood s' /\ rdata s' = rdata s.
Proof.
  intros HG Hv Hb. unfold read_ue, ue_code' in *.
  set (q := N.to_nat (N.log2 (v + 1))) in *.
  assert (Hq : 2 ^ N.of_nat q <= v + 1 < 2 ^ (N.of_nat q + 1)).
  { unfold q. rewrite N2Nat.id. rewrite N.add_1_r with (n := N.log2 (v + 1)).
    apply N.log2_spec. lia. }
  assert (Hq32 : (q <= 32)%nat).
  { destruct (Nat.le_gt_cases q 32) as [H|H]; [exact H|].
    assert (H33 : 2 ^ 33 <= 2 ^ N.of_nat q) by (apply N.pow_le_mono_r; lia).
    change (2 ^ 33) with 8589934592 in H33. change (2 ^ 32) with 4294967296 in Hv. lia. }
  assert (Hp1 : 2 ^ (N.of_nat q + 1) = 2 * 2 ^ N.of_nat q) by (rewrite N.pow_add_r, N.pow_1_r; lia).
  pose proof HG as [[He _] Hn8]. rewrite He.
  rewrite <- app_assoc in Hb. cbn [app] in Hb.
  assert (Hfu : (q < S (8 * length (rdata s) + 8))%nat).
  { pose proof (rbits_length_le s Hn8) as Hl. rewrite Hb, app_length, repeat_length in Hl. cbn [length] in Hl. lia. }
  destruct (lz_loop_spec q _ s 0 _ HG Hfu Hb) as [s1 [Hl [Hb1 [HG1 Hd1]]]].
  rewrite Hl. pose proof HG1 as [[He1 _] _]. rewrite He1. cbn [N.add].
  destruct (read_fixed s1 (N.of_nat q) (v + 1 - 2 ^ N.of_nat q) rest HG1 ltac:(lia) ltac:(lia)
              ltac:(rewrite Nat2N.id; exact Hb1)) as [s2 [Hr [Hb2 [HG2 Hd2]]]].
  rewrite Hr. pose proof HG2 as [[He2 _] _]. rewrite He2.
  exists s2. split; [|fin].
  f_equal. rewrite N.shiftl_1_l. unfold u64.
  assert (Hp : 2 ^ N.of_nat q <= 2 ^ 32) by (apply N.pow_le_mono_r; lia).
  change (2 ^ 32) with 4294967296 in *.
  replace (2 ^ N.of_nat q + 18446744073709551615)
    with ((2 ^ N.of_nat q - 1) + 1 * 18446744073709551616) by lia.
  rewrite N.mod_add by lia. rewrite (N.mod_small (2 ^ N.of_nat q - 1)) by lia.
  rewrite N.mod_small by lia. lia.
Qed.

Lemma ue_code_eq v : ue_code' v = 
  let q := N.to_nat (N.log2 (v + 1)) in repeat false q ++ bits_of (S q) (v + 1).
Proof.
  unfold ue_code'. cbv zeta. set (q := N.to_nat (N.log2 (v + 1))).
  f_equal. cbn [bits_of]. f_equal.
  - unfold q. rewrite N2Nat.id. symmetry. apply N.bit_log2. lia.
  - apply bits_of_ext. intros i Hi.
    assert (Hq : 2 ^ N.of_nat q <= v + 1).
    { unfold q. rewrite N2Nat.id. apply N.log2_spec. lia. }
    rewrite <- (N.mod_pow2_bits_low (v + 1) (N.of_nat q) i Hi).
    rewrite <- (N.mod_pow2_bits_low (v + 1 - 2 ^ N.of_nat q) (N.of_nat q) i Hi).
    f_equal.
    replace (v + 1) with ((v + 1 - 2 ^ N.of_nat q) + 1 * 2 ^ N.of_nat q) at 2 by lia.
    symmetry. apply N.mod_add. apply N.pow_nonzero. lia.
Qed.

Lemma read_se_spec s k rest :
  RGood s -> se_to_ue k < 2 ^ 32 -> rbits s = ue_code' (se_to_ue k) ++ rest ->
  exists s', read_se s = (k, s') /\ rbits s' = rest /\ RGood s' /\ rdata s' = rdata s.
Proof.
  intros HG Hk Hb. unfold read_se.
  destruct (read_ue_spec s _ rest HG Hk Hb) as [s' [Hr [Hb' [HG' Hd]]]].
  rewrite Hr. pose proof HG' as [[He _] _]. rewrite He.
  exists s'. split; [|fin].
  f_equal. destruct k as [|p|p]; cbn [se_to_ue].
  - reflexivity.
  - destruct (N.eqb_spec ((2 * N.pos p - 1) mod 2) 1) as [E|E].
    + replace ((2 * N.pos p - 1 + 1) / 2) with (N.pos p).
      2:{ replace (2 * N.pos p - 1 + 1) with (N.pos p * 2) by lia. rewrite N.div_mul by lia. reflexivity. }
      reflexivity.
    + exfalso. apply E. replace (2 * N.pos p - 1) with (1 + (N.pos p - 1) * 2) by lia.
      rewrite N.mod_add by lia. reflexivity.
  - destruct (N.eqb_spec ((2 * N.pos p) mod 2) 1) as [E|E].
    + exfalso. rewrite N.mul_comm, N.mod_mul in E by lia. discriminate.
    + rewrite N.mul_comm, N.div_mul by lia. reflexivity.
Qed.

Lemma read_bytes_spec k : forall s l rest,
  RGood s -> length l = k -> Forall lt256 l -> rbits s = bytes_to_bits l ++ rest ->
  exists s', read_bytes k s = (l, s') /\ rbits s' = rest /\ RGood s' /\ rdata s' = rdata s.
Proof.
  induction k as [|k IH]; intros s l rest HG Hl Hlt Hb.
  - destruct l; [|discriminate]. cbn [read_bytes]. exists s. fin; apply HG.
  - destruct l as [|b t]; [discriminate|]. cbn [read_bytes].
    inversion Hlt as [|? ? Hb256 Ht]; subst.
    unfold bytes_to_bits in Hb. cbn [flat_map] in Hb. rewrite <- app_assoc in Hb.
    destruct (read_fixed s 8 b _ HG ltac:(lia) ltac:(exact Hb256) Hb) as [s1 [Hr [Hb1 [HG1 Hd1]]]].
    rewrite Hr.
    destruct (IH s1 t rest HG1 ltac:(cbn in Hl; lia) Ht Hb1) as [s2 [Hr2 [Hb2 [HG2 Hd2]]]].
    rewrite Hr2. exists s2. split; [|fin].
    f_equal. f_equal. rewrite land_255. apply N.mod_small. exact Hb256.
Qed.

(* ------------------------------------------------------------------ running out of data *)
Lemma fill_fail fuel : forall s n,
  RInv s -> n <= 56 -> N.of_nat (length (rbits s)) < n -> n <= rn s + 8 * N.of_nat fuel ->
  rerr (fill true fuel s n) = true.
Proof.
  induction fuel as [|f IH]; intros s n HI Hn Hlen Hfuel.
  - exfalso. unfold rbits in Hlen. rewrite app_length, bits_of_length in Hlen. lia.
  - cbn [fill].
    assert (Hrn : rn s < n).
    { unfold rbits in Hlen. rewrite app_length, bits_of_length in Hlen. lia. }
    destruct (N.ltb_spec (rn s) n) as [_|Hge]; [|lia].
    destruct HI as [He [Hv Hd]]. unfold byte_at. cbn [andb].
    destruct (nth_error (rdata s) (N.to_nat (rpos s))) as [b|] eqn:Eb; [|reflexivity].
    pose proof (nth_error_skipn _ _ _ Eb) as Hsk.
    pose proof (nth_error_Forall _ _ _ _ Hd Eb) as Hb256.
    destruct ((rzc s =? 2) && (b =? 3)) eqn:Ec.
    + replace (N.to_nat (rpos s + 1)) with (S (N.to_nat (rpos s))) by lia.
      destruct (nth_error (rdata s) (S (N.to_nat (rpos s)))) as [b'|] eqn:Eb'; [|reflexivity].
      pose proof (nth_error_skipn _ _ _ Eb') as Hsk'.
      pose proof (nth_error_Forall _ _ _ _ Hd Eb') as Hb'256.
      set (s2 := mkR (rn s + 8) (N.lor (u64 (N.shiftl (rv s) 8)) b') (rpos s + 1 + 1)
                     (if b' =? 0 then 1 else 0) false (rdata s)).
      assert (Hb2 : rbits s2 = rbits s).
      { unfold rbits, rrest, s2. cbn [rn rv rpos rzc rdata].
        rewrite Hsk. cbn [unescape_from]. rewrite Ec, Hsk'.
        replace (N.to_nat (rpos s + 1 + 1)) with (S (S (N.to_nat (rpos s)))) by lia.
        replace (N.to_nat (rn s + 8)) with (N.to_nat (rn s) + 8)%nat by lia.
        rewrite acc_shift_bits by (try exact Hb'256; lia).
        unfold bytes_to_bits. cbn [flat_map]. rewrite <- app_assoc. reflexivity. }
      apply IH; [|exact Hn|rewrite Hb2; exact Hlen|unfold s2; cbn [rn]; lia].
      unfold RInv, s2. cbn [rerr rv rn rdata]. repeat split; [|exact Hd].
      apply acc_shift_lt; [lia|exact Hv|exact Hb'256].
    + set (s2 := mkR (rn s + 8) (N.lor (u64 (N.shiftl (rv s) 8)) b) (rpos s + 1)
                     (if b =? 0 then rzc s + 1 else 0) false (rdata s)).
      assert (Hb2 : rbits s2 = rbits s).
      { unfold rbits, rrest, s2. cbn [rn rv rpos rzc rdata].
        rewrite Hsk. cbn [unescape_from]. rewrite Ec.
        replace (N.to_nat (rpos s + 1)) with (S (N.to_nat (rpos s))) by lia.
        replace (N.to_nat (rn s + 8)) with (N.to_nat (rn s) + 8)%nat by lia.
        rewrite acc_shift_bits by (try exact Hb256; lia).
        unfold bytes_to_bits. cbn [flat_map]. rewrite <- app_assoc. reflexivity. }
      apply IH; [|exact Hn|rewrite Hb2; exact Hlen|unfold s2; cbn [rn]; lia].
      unfold RInv, s2. cbn [rerr rv rn rdata]. repeat split; [|exact Hd].
      apply acc_shift_lt; [lia|exact Hv|exact Hb256].
Qed.

Lemma read_fail s n :
  RInv s -> rn s < 8 -> n <= 56 -> N.of_nat (length (rbits s)) < n ->
  fst (read s n) = 0 /\ rerr (snd (read s n)) = true.
Proof.
  intros HI Hn8 Hn Hlen. unfold read, read_gen. destruct HI as [He [Hv Hd]]. rewrite He.
  assert (Hf : rerr (fill true (S (N.to_nat (n / 8) + 1)) s n) = true).
  { apply fill_fail; [exact (conj He (conj Hv Hd))|exact Hn|exact Hlen|].
    pose proof (N.div_mod n 8 ltac:(lia)). pose proof (N.mod_lt n 8 ltac:(lia)). lia. }
  rewrite Hf. split; [reflexivity|exact Hf].
Qed.

(* once the error is set every read returns 0 and keeps the state *)
Lemma read_after_error s n : rerr s = true -> read s n = (0, s).
Proof. intros H. unfold read, read_gen. rewrite H. reflexivity. Qed.

(* ------------------------------------------------------------------ MoreRbspData *)
Lemma more_loop_spec : forall l fuel s,
  RGood s -> rbits s = l -> (length l < fuel)%nat -> more_loop fuel s = Some (existsb (fun b => b) l).
Proof.
  induction l as [|b t IH]; intros fuel s HG Hb Hf; (destruct fuel as [|f]; [cbn in Hf; lia|]); cbn [more_loop].
  - destruct HG as [HI Hn8].
    destruct (read_fail s 1 HI Hn8 ltac:(lia) ltac:(rewrite Hb; cbn; lia)) as [_ He].
    destruct (read s 1) as [v s1]. cbn [snd] in He. rewrite He. reflexivity.
  - destruct (read_prefix s 1 [b] t HG ltac:(lia) Hb eq_refl) as [s1 [Hr [Hb1 [HG1 Hd]]]].
    rewrite Hr. pose proof HG1 as [[He _] _]. rewrite He. cbn [existsb].
    destruct b.
    + reflexivity.
    + cbn [val_of N.b2n length]. change (0 * 2 ^ N.of_nat 0 + 0 =? 1) with false. cbv iota.
      cbn [orb]. apply IH; [exact HG1|exact Hb1|cbn in Hf; lia].
Qed.

(* MoreRbspData in the bit-stream view: there is more data unless the remaining bits are
   exactly a 1 followed by zeros (the rbsp trailing bits); the reader state is restored. *)
Lemma more_rbsp_data_spec s :
  RGood s ->
  match rbits s with
  | [] => fst (more_rbsp_data s) = None /\ rerr (snd (more_rbsp_data s)) = true
  | b :: t => more_rbsp_data s = (Some (negb b || existsb (fun x => x) t), s)
  end.
Proof.
  intros HG. unfold more_rbsp_data. pose proof HG as [[He [Hv Hd]] Hn8]. rewrite He.
  destruct (rbits s) as [|b t] eqn:Hb.
  - destruct (read_fail s 1 (conj He (conj Hv Hd)) Hn8 ltac:(lia) ltac:(rewrite Hb; cbn; lia)) as [_ Hf].
    destruct (read s 1) as [v s1]. cbn [snd] in Hf. rewrite Hf. split; [reflexivity|exact Hf].
  - destruct (read_prefix s 1 [b] t HG ltac:(lia) Hb eq_refl) as [s1 [Hr [Hb1 [HG1 Hd1]]]].
    rewrite Hr. pose proof HG1 as [[He1 _] _]. rewrite He1.
    destruct b; cbn [val_of N.b2n length negb orb].
    + change (1 * 2 ^ N.of_nat 0 + 0 =? 1) with true. cbn [negb]. f_equal.
      apply more_loop_spec; [exact HG1|exact Hb1|].
      pose proof (rbits_length_le s Hn8) as Hl. rewrite Hb in Hl. cbn [length] in Hl. lia.
    + change (0 * 2 ^ N.of_nat 0 + 0 =? 1) with false. reflexivity.
Qed.
