(* C13ExactProofs.v — the round trip over the whole domain the code handles (C13b): widths up to 57 bits,
   Exp-Golomb values up to 2^57 - 2 (unsigned) and the signed values mapped below that bound, written with the
   repaired writer (C13ModelExt.run_wx over an io.Writer that does not fail); and the witnesses showing that each
   bound is tight. *)
From V.lib Require Import Base.
From V.c13 Require Import C13Spec C13Model C13Bits C13EscProofs C13MarkProofs C13WriterProofs C13ReaderProofs
  C13RoundTrip C13ModelExt C13WideProofs C13FailProofs.

Definition op_ok57 (o : wop) : bool :=
  match o with
  | WBits _ w => w <=? 57
  | WUe v => v <=? max_ue
  | WSe k => se_to_ue k <=? max_ue
  | WFlush => false
  | _ => true
  end.

Definition value_op57 (o : wop) : bool :=
  match o with
  | WBits v w => (w <=? 57) && (v <? 2 ^ w)
  | WFlag _ => true
  | WUe v => v <=? max_ue
  | WSe k => se_to_ue k <=? max_ue
  | _ => false
  end.

Lemma wstep_stream57 s cur o :
  WStream s cur -> op_ok57 o = true -> WStream (wstep s o) (cur ++ op_bits cur o).
Proof.
  intros HS Hok. destruct o as [v w|b|v|k|v| | |]; cbn [wstep op_bits op_ok57] in *.
  - apply write_stream57; [exact HS|]. apply N.leb_le. exact Hok.
  - pose proof (write_stream s cur (if b then 1 else 0) 1 HS ltac:(lia)) as H1.
    destruct b; exact H1.
  - apply write_ue_stream57; [exact HS|]. apply N.leb_le. exact Hok.
  - unfold write_se. apply write_ue_stream57; [exact HS|]. apply N.leb_le. exact Hok.
  - unfold write_sei_value. apply write_sei_value_stream; [exact HS|lia].
  - unfold write_trailing.
    pose proof (write_stream s cur 1 1 HS ltac:(lia)) as H1. change (bits_of (N.to_nat 1) 1) with [true] in H1.
    pose proof (stuff_zeros_stream _ _ H1) as H2. rewrite <- app_assoc in H2. exact H2.
  - apply stuff_zeros_stream. exact HS.
  - discriminate.
Qed.

Lemma run_writer_stream57_from ops : forall s cur,
  WStream s cur -> forallb op_ok57 ops = true ->
  WStream (fold_left wstep ops s) (fold_left (fun cur o => cur ++ op_bits cur o) ops cur).
Proof.
  induction ops as [|o t IH]; intros s cur HS Hok; [exact HS|].
  cbn [forallb] in Hok. apply andb_true_iff in Hok. destruct Hok as [Ho Ht].
  cbn [fold_left]. apply IH; [|exact Ht]. apply wstep_stream57; assumption.
Qed.

Lemma run_writer_stream57 ops :
  forallb op_ok57 ops = true -> WStream (run_writer ops) (all_bits ops).
Proof.
  intros Hok. apply run_writer_stream57_from; [|exact Hok].
  exists []. split; [apply WInv_init|reflexivity].
Qed.

(* any op sequence within the exact bounds: output = standard escaping of the whole bytes of the bit codes *)
Lemma writer_is_escape57 ops :
  forallb op_ok57 ops = true ->
  exists raw, wout (run_writer ops) = escape raw /\
              bytes_to_bits raw ++ pending (run_writer ops) = all_bits ops /\
              (length (pending (run_writer ops)) < 8)%nat /\
              Forall (fun b => b < 256) raw.
Proof.
  intros Hok. destruct (run_writer_stream57 ops Hok) as [raw [[Hn [Hlt [Ho Hz]]] Hc]].
  exists raw. unfold wout. rewrite Ho, rev_involutive. repeat split; try assumption.
  unfold pending. rewrite bits_of_length. lia.
Qed.

Lemma value_op57_ok o : value_op57 o = true -> op_ok57 o = true.
Proof.
  destruct o; cbn [value_op57 op_ok57]; intros H; try exact H; try reflexivity; try discriminate.
  apply andb_true_iff in H. destruct H as [H _]. exact H.
Qed.

Lemma value_op57_ue_ok o : value_op57 o = true -> ue_ok o = true.
Proof. destruct o; cbn [value_op57 ue_ok]; intros H; try exact H; try reflexivity; discriminate. Qed.

Lemma value_op57_bits cur o : value_op57 o = true -> op_bits cur o = vbits o.
Proof. destruct o; cbn [value_op57]; intros H; try discriminate; reflexivity. Qed.

Lemma all_bits_values57 ops : forall cur,
  forallb value_op57 ops = true ->
  fold_left (fun cur o => cur ++ op_bits cur o) ops cur = cur ++ concat (map vbits ops).
Proof.
  induction ops as [|o t IH]; intros cur H; cbn [fold_left map concat]; [rewrite app_nil_r; reflexivity|].
  cbn [forallb] in H. apply andb_true_iff in H. destruct H as [Ho Ht].
  rewrite IH by exact Ht. rewrite (value_op57_bits cur o Ho), <- app_assoc. reflexivity.
Qed.

Lemma max_ue_lt58 v : v <= max_ue -> v + 1 < 2 ^ 58.
Proof. unfold max_ue. change (2 ^ 58) with 288230376151711744. lia. Qed.

Lemma run_reader_values57 ops : forall s rest,
  forallb value_op57 ops = true -> RGood s -> rbits s = concat (map vbits ops) ++ rest ->
  exists s', run_reader (map rop_of ops) s = (map rval_of ops, s') /\ rbits s' = rest /\ RGood s'
             /\ rdata s' = rdata s.
Proof.
  induction ops as [|o t IH]; intros s rest Hok HG Hb.
  - exists s. cbn [map run_reader]. repeat split; try apply HG. exact Hb.
  - cbn [forallb] in Hok. apply andb_true_iff in Hok. destruct Hok as [Ho Ht].
    cbn [map concat] in Hb. rewrite <- app_assoc in Hb.
    assert (Hstep : exists s1, rstep s (rop_of o) = (rval_of o, s1) /\
                               rbits s1 = concat (map vbits t) ++ rest /\ RGood s1 /\ rdata s1 = rdata s).
    { destruct o as [v w|b|v|k|v| | |]; cbn [value_op57] in Ho; try discriminate;
        cbn [rop_of rval_of rstep vbits op_bits] in *.
      - apply andb_true_iff in Ho. destruct Ho as [Hw Hv]. apply N.leb_le in Hw. apply N.ltb_lt in Hv.
        destruct (read_fixed57 s w v _ HG Hw Hv Hb) as [s1 [Hr H]]. exists s1. rewrite Hr. split; [reflexivity|exact H].
      - destruct (read_flag_spec s b _ HG Hb) as [s1 [Hr H]]. exists s1. rewrite Hr. split; [reflexivity|exact H].
      - apply N.leb_le in Ho. rewrite ue_codes_agree in Hb.
        destruct (read_ue_spec57 s v _ HG (max_ue_lt58 v Ho) Hb) as [s1 [Hr H]]. exists s1. rewrite Hr. split; [reflexivity|exact H].
      - apply N.leb_le in Ho. rewrite ue_codes_agree in Hb.
        destruct (read_se_spec57 s k _ HG (max_ue_lt58 _ Ho) Hb) as [s1 [Hr H]]. exists s1. rewrite Hr. split; [reflexivity|exact H]. }
    destruct Hstep as [s1 [Hr [Hb1 [HG1 Hd1]]]].
    destruct (IH s1 rest Ht HG1 Hb1) as [s2 [Hr2 [Hb2 [HG2 Hd2]]]].
    exists s2. cbn [map run_reader]. rewrite Hr, Hr2. repeat split; try apply HG2; try assumption. congruence.
Qed.

Lemma reader_inverse57 ops :
  forallb value_op57 ops = true ->
  let data := wout (run_writer (ops ++ [WTrail])) in
  exists s', run_reader (map rop_of ops) (rinit data) = (map rval_of ops, s') /\ rerr s' = false.
Proof.
  intros Hok data.
  assert (Hok' : forallb op_ok57 (ops ++ [WTrail]) = true).
  { rewrite forallb_app. cbn [forallb op_ok57]. rewrite andb_true_r.
    apply forallb_forall. intros o Ho. apply value_op57_ok.
    rewrite forallb_forall in Hok. apply Hok. exact Ho. }
  pose proof (run_writer_stream57 _ Hok') as HS.
  assert (Hall : all_bits (ops ++ [WTrail]) =
                 concat (map vbits ops) ++ true :: align_zeros (concat (map vbits ops) ++ [true])).
  { unfold all_bits. rewrite fold_left_app. rewrite (all_bits_values57 ops [] Hok). cbn [app fold_left op_bits]. reflexivity. }
  rewrite Hall in HS.
  assert (Hal : (length (concat (map vbits ops) ++ true :: align_zeros (concat (map vbits ops) ++ [true])) mod 8 = 0)%nat).
  { pose proof (align_total (concat (map vbits ops) ++ [true])) as H.
    rewrite <- app_assoc in H. exact H. }
  destruct (WStream_aligned _ _ HS Hal) as [raw [Hout [Hraw [Hlt _]]]].
  fold data in Hout.
  assert (HG : RGood (rinit data)).
  { split; [|cbn; lia]. apply RInv_init. rewrite Hout. apply escape_lt256. exact Hlt. }
  assert (Hb : rbits (rinit data) = concat (map vbits ops) ++ true :: align_zeros (concat (map vbits ops) ++ [true])).
  { rewrite rbits_init, Hout, unescape_escape. exact Hraw. }
  destruct (run_reader_values57 ops (rinit data) _ Hok HG Hb) as [s' [Hr [_ [[[He _] _] _]]]].
  exists s'. split; assumption.
Qed.

(* the same about the repaired writer over an io.Writer that does not fail: no error, values read back *)
Lemma roundtrip_exact ops :
  forallb value_op57 ops = true ->
  let w := run_wx None (ops ++ [WTrail]) in
  xerr w = false /\
  exists s', run_reader (map rop_of ops) (rinit (xout w)) = (map rval_of ops, s') /\ rerr s' = false.
Proof.
  intros Hok w.
  assert (Hue : forallb ue_ok (ops ++ [WTrail]) = true).
  { rewrite forallb_app. cbn [forallb ue_ok]. rewrite andb_true_r.
    apply forallb_forall. intros o Ho. apply value_op57_ue_ok.
    rewrite forallb_forall in Hok. apply Hok. exact Ho. }
  unfold w. rewrite (run_wx_is_run_writer _ Hue). cbn [xerr]. split; [reflexivity|].
  unfold xout. cbn [xs]. apply reader_inverse57. exact Hok.
Qed.

(* every Exp-Golomb value is either coded exactly or refused with nothing written *)
Definition XStream (s : wx) (cur : list bool) : Prop :=
  xerr s = false /\ xrem s = None /\ WStream (xs s) cur.

Lemma write_ue_x_total s cur v :
  XStream s cur ->
  (v <= max_ue -> XStream (write_ue_x s v) (cur ++ ue_code v)) /\
  (max_ue < v -> write_ue_x s v = mkWX (xs s) true (xrem s)).
Proof.
  intros [He [Hr HS]]. destruct s as [st e r]. cbn [xerr xrem xs] in *. subst e r. split.
  - intros Hv. rewrite (write_ue_x_none st v Hv). split; [reflexivity|]. split; [reflexivity|].
    cbn [xs]. apply write_ue_stream57; assumption.
  - intros Hv. unfold write_ue_x. destruct (N.ltb_spec max_ue v) as [_|H]; [reflexivity|lia].
Qed.

(* ------------------------------------------------------------------ the bounds are tight *)
(* the writer before repo commit 9ec0951 (= C13Model.write_ue, no range check) at 2^57 - 1 after 7 pending bits:
   the Exp-Golomb value itself comes back, the 7-bit value written before it is corrupted (7f -> 3f) *)
Lemma ue_bound_tight :
  let ops := [WBits 127 7; WUe (max_ue + 1)] in
  value_op57 (WUe (max_ue + 1)) = false /\
  fst (run_reader (map rop_of ops) (rinit (wout (run_writer (ops ++ [WTrail])))))
  = [VN 63; VN (max_ue + 1)].
Proof. vm_compute. split; reflexivity. Qed.

(* Write(v, 58) with 7 pending bits: 65 bits do not fit, the first pending bit is dropped *)
Lemma write_spill_58 :
  let ops := [WBits 127 7; WBits 1 58] in
  fst (run_reader (map rop_of ops) (rinit (wout (run_writer (ops ++ [WTrail])))))
  = [VN 63; VN 1].
Proof. vm_compute. reflexivity. Qed.

(* ... while 64 bits at a byte boundary are exact *)
Lemma write_64_aligned :
  let ops := [WBits 255 8; WBits 18446744073709551615 64] in
  fst (run_reader [RBits 8; RBits 32; RBits 32] (rinit (wout (run_writer (ops ++ [WTrail])))))
  = [VN 255; VN 4294967295; VN 4294967295].
Proof. vm_compute. reflexivity. Qed.

(* Read(58) with 1 pending bit: the refill loop shifts 65 bits through the 64-bit accumulator *)
Lemma read_spill_58 :
  let s1 := snd (read (rinit (repeat 255 10)) 7) in
  fst (read s1 58) = 2 ^ 57 - 1 /\ rerr (snd (read s1 58)) = false.
Proof. vm_compute. split; reflexivity. Qed.
