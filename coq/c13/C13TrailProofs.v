(* C13TrailProofs.v — EBSPReader.ReadRbspTrailingBits in the bit-stream view, and the round trip
   completed by MoreRbspData = false and ReadRbspTrailingBits = nil at the end of the written values. *)
From V.lib Require Import Base.
From V.c13 Require Import C13Spec C13Model C13ModelExt C13Bits C13EscProofs C13MarkProofs C13WriterProofs C13ReaderProofs C13RoundTrip.

Definition is1 (b : bool) : bool := b.

(* the bits behind the first 1 of l *)
Fixpoint after_one (l : list bool) : list bool :=
  match l with
  | [] => []
  | true :: t => t
  | false :: t => after_one t
  end.

Lemma trail_loop_spec : forall l fuel s,
  RGood s -> rbits s = l -> (length l < fuel)%nat ->
  if existsb is1 l
  then exists s', trail_loop fuel s = Some (TSecondOne, s') /\ RGood s' /\ rbits s' = after_one l /\ rdata s' = rdata s
  else exists s', trail_loop fuel s = Some (TNil, s') /\ rerr s' = false.
Proof.
  induction l as [|b t IH]; intros fuel s HG Hb Hf; (destruct fuel as [|f]; [cbn in Hf; lia|]); cbn [trail_loop].
  - destruct HG as [HI Hn8]. cbn [existsb].
    destruct (read_fail s 1 HI Hn8 ltac:(lia) ltac:(rewrite Hb; cbn; lia)) as [_ He].
    destruct (read s 1) as [v s1]. cbn [snd] in He. rewrite He.
    exists (clear_err s1). split; reflexivity.
  - destruct (read_prefix s 1 [b] t HG ltac:(lia) Hb eq_refl) as [s1 [Hr [Hb1 [HG1 Hd]]]].
    rewrite Hr. pose proof HG1 as [[He _] _]. rewrite He. cbn [existsb is1 after_one].
    destruct b.
    + cbn [orb val_of N.b2n length]. change (1 * 2 ^ N.of_nat 0 + 0 =? 1) with true. cbv iota.
      exists s1. repeat split; try apply HG1; assumption.
    + cbn [orb val_of N.b2n length]. change (0 * 2 ^ N.of_nat 0 + 0 =? 1) with false. cbv iota.
      specialize (IH f s1 HG1 Hb1 ltac:(cbn in Hf; lia)).
      destruct (existsb is1 t).
      * destruct IH as [s' [H1 [H2 [H3 H4]]]]. exists s'. repeat split; try apply H2; try assumption. congruence.
      * exact IH.
Qed.

(* ReadRbspTrailingBits: nil exactly on 1 0* (error cleared); "doesn't start with 1" on a leading 0;
   "another 1" when a second 1 follows; nil with the EOF left in AccError on an exhausted stream *)
Lemma read_trailing_spec s :
  RGood s ->
  match rbits s with
  | [] => exists s', read_trailing s = Some (TNil, s') /\ rerr s' = true
  | false :: t => exists s', read_trailing s = Some (TNoOne, s') /\ rbits s' = t /\ RGood s'
  | true :: t =>
      if existsb is1 t
      then exists s', read_trailing s = Some (TSecondOne, s') /\ RGood s' /\ rbits s' = after_one t
      else exists s', read_trailing s = Some (TNil, s') /\ rerr s' = false
  end.
Proof.
  intros HG. unfold read_trailing. pose proof HG as [[He [Hv Hd]] Hn8]. rewrite He.
  destruct (rbits s) as [|b t] eqn:Hb.
  - destruct (read_fail s 1 (conj He (conj Hv Hd)) Hn8 ltac:(lia) ltac:(rewrite Hb; cbn; lia)) as [_ Hf].
    destruct (read s 1) as [v s1]. cbn [snd] in Hf. rewrite Hf. exists s1. split; [reflexivity|exact Hf].
  - destruct (read_prefix s 1 [b] t HG ltac:(lia) Hb eq_refl) as [s1 [Hr [Hb1 [HG1 Hd1]]]].
    rewrite Hr. pose proof HG1 as [[He1 _] _]. rewrite He1.
    destruct b; cbn [val_of N.b2n length].
    + change (1 * 2 ^ N.of_nat 0 + 0 =? 1) with true. cbn [negb].
      assert (Hfu : (length t < S (8 * length (rdata s) + 8))%nat).
      { pose proof (rbits_length_le s Hn8) as Hl. rewrite Hb in Hl. cbn [length] in Hl. lia. }
      pose proof (trail_loop_spec t _ s1 HG1 Hb1 Hfu) as H.
      destruct (existsb is1 t).
      * destruct H as [s' [H1 [H2 [H3 _]]]]. exists s'. repeat split; try apply H2; assumption.
      * exact H.
    + change (0 * 2 ^ N.of_nat 0 + 0 =? 1) with false. cbn [negb].
      exists s1. repeat split; try apply HG1; assumption.
Qed.

Lemma existsb_repeat_false k : existsb is1 (repeat false k) = false.
Proof. induction k as [|k IH]; [reflexivity|exact IH]. Qed.

(* the full round trip, including the end of the NAL unit: after the written values have been read
   back, MoreRbspData says false without moving, and ReadRbspTrailingBits accepts what
   WriteRbspTrailingBits wrote and leaves no error *)
Lemma trailing_roundtrip ops :
  forallb value_op ops = true ->
  let data := wout (run_writer (ops ++ [WTrail])) in
  exists s' s'',
    run_reader (map rop_of ops) (rinit data) = (map rval_of ops, s') /\
    more_rbsp_data s' = (Some false, s') /\
    read_trailing s' = Some (TNil, s'') /\ rerr s'' = false.
Proof.
  intros Hok data.
  assert (Hok' : forallb op_ok (ops ++ [WTrail]) = true).
  { rewrite forallb_app. cbn [forallb op_ok]. rewrite andb_true_r.
    apply forallb_forall. intros o Ho. apply value_op_ok.
    rewrite forallb_forall in Hok. apply Hok. exact Ho. }
  pose proof (run_writer_stream _ Hok') as HS.
  assert (Hall : all_bits (ops ++ [WTrail]) =
                 concat (map vbits ops) ++ true :: align_zeros (concat (map vbits ops) ++ [true])).
  { unfold all_bits. rewrite fold_left_app. rewrite (all_bits_values ops [] Hok). cbn [app fold_left op_bits]. reflexivity. }
  rewrite Hall in HS.
  assert (Hal : (length (concat (map vbits ops) ++ true :: align_zeros (concat (map vbits ops) ++ [true])) mod 8 = 0)%nat).
  { pose proof (align_total (concat (map vbits ops) ++ [true])) as H.
    rewrite <- app_assoc in H. exact H. }
  destruct (WStream_aligned _ _ HS Hal) as [raw [Hout [Hraw [Hlt _]]]].
  fold data in Hout.
  assert (HG : RGood (rinit data)).
  { split; [|cbn; lia]. apply RInv_init. rewrite Hout. apply escape_lt256. exact Hlt. }
  assert (Hb : rbits (rinit data) = concat (map vbits ops) ++ true :: align_zeros (concat (map vbits ops) ++ [true])).
  { rewrite rbits_init, Hout, unescape_escape. exact Hraw. }
  destruct (run_reader_values ops (rinit data) _ Hok HG Hb) as [s' [Hr [Hb' [HG' _]]]].
  pose proof (more_rbsp_data_spec s' HG') as Hm.
  pose proof (read_trailing_spec s' HG') as Ht.
  rewrite Hb' in Hm, Ht. unfold align_zeros in Hm, Ht.
  rewrite existsb_repeat_false in Ht.
  assert (Hx : existsb (fun x : bool => x) (repeat false ((8 - length (concat (map vbits ops) ++ [true]) mod 8) mod 8)) = false)
    by apply existsb_repeat_false.
  rewrite Hx in Hm. cbn [negb orb] in Hm.
  destruct Ht as [s'' [Ht He]].
  exists s', s''. repeat split; assumption.
Qed.
