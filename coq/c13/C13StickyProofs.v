(* C13StickyProofs.v — the readers after the first error (C13b): every read returns the zero value and leaves the
   whole state (error, accumulator, counters) as it is; the read that runs into the end of the input has consumed
   every input byte.  Plus the integer-boundary behaviour of ReadSignedGolomb. *)
From V.lib Require Import Base.
From V.c13 Require Import C13Spec C13Model C13ModelExt.

Lemma read_gen_after_error esc s n : rerr s = true -> read_gen esc s n = (0, s).
Proof. intros H. unfold read_gen. rewrite H. reflexivity. Qed.

Lemma read_ue_after_error s : rerr s = true -> read_ue s = (0, s).
Proof. intros H. unfold read_ue. rewrite H. reflexivity. Qed.

Lemma read_bytes_after_error k : forall s, rerr s = true -> snd (read_bytes k s) = s.
Proof.
  induction k as [|k IH]; intros s H; cbn [read_bytes]; [reflexivity|].
  unfold read. rewrite (read_gen_after_error true s 8 H).
  specialize (IH s H). destruct (read_bytes k s) as [l s2]. cbn [snd] in *. exact IH.
Qed.

(* EBSPReader: Read, ReadFlag, ReadExpGolomb, ReadSignedGolomb, ReadBytes, MoreRbspData *)
Lemma rstep_after_error s o : rerr s = true -> rstep s o = (rzero o, s).
Proof.
  intros H. destruct o as [w| | | |k|]; cbn [rstep rzero].
  - unfold read. rewrite (read_gen_after_error true s w H). reflexivity.
  - unfold read_flag, read. rewrite (read_gen_after_error true s 1 H). reflexivity.
  - rewrite (read_ue_after_error s H). reflexivity.
  - unfold read_se. rewrite (read_ue_after_error s H). rewrite H. reflexivity.
  - pose proof (read_bytes_after_error k s H) as Hs.
    destruct (read_bytes k s) as [l s2]. cbn [snd] in Hs. subst s2. rewrite H. reflexivity.
  - unfold more_rbsp_data. rewrite H. reflexivity.
Qed.

Lemma read_trailing_after_error s : rerr s = true -> read_trailing s = Some (TNil, s).
Proof. intros H. unfold read_trailing. rewrite H. reflexivity. Qed.

Lemma read_se64_after_error s : rerr s = true -> read_se64 s = (0%Z, s).
Proof. intros H. unfold read_se64. rewrite (read_ue_after_error s H). rewrite H. reflexivity. Qed.

(* Reader: Read, ReadFlag, ReadSigned *)
Lemma read_flag_plain_after_error s : rerr s = true -> read_flag_plain s = (false, s).
Proof. intros H. unfold read_flag_plain, read_plain. rewrite (read_gen_after_error false s 1 H). rewrite H. reflexivity. Qed.

Lemma sext64_0 n : sext64 0 n = 0%Z.
Proof. unfold sext64. change (to_int64 0) with 0%Z. rewrite Z.shiftr_0_l. reflexivity. Qed.

Lemma read_signed64_after_error s n : rerr s = true -> n <> 0 -> read_signed64 s n = Some (0%Z, s).
Proof.
  intros H Hn. unfold read_signed64, read_plain. rewrite (read_gen_after_error false s n H).
  destruct (N.eqb_spec n 0) as [E|_]; [contradiction|]. rewrite sext64_0. reflexivity.
Qed.

Lemma sticky_run ops : forall s, rerr s = true -> run_reader ops s = (map rzero ops, s).
Proof.
  induction ops as [|o t IH]; intros s H; cbn [run_reader map]; [reflexivity|].
  rewrite (rstep_after_error s o H), (IH s H). reflexivity.
Qed.

(* ------------------------------------------------------------------ where the failing read stops *)
Lemma fill_pos esc fuel : forall s n,
  rpos s <= N.of_nat (length (rdata s)) -> rerr s = false ->
  let s1 := fill esc fuel s n in
  rdata s1 = rdata s /\ rpos s1 <= N.of_nat (length (rdata s)) /\
  (rerr s1 = true -> rpos s1 = N.of_nat (length (rdata s))).
Proof.
  induction fuel as [|f IH]; intros s n Hp He; cbn [fill].
  - cbv zeta. split; [reflexivity|]. split; [exact Hp|]. intros H. congruence.
  - destruct (rn s <? n).
    2:{ cbv zeta. split; [reflexivity|]. split; [exact Hp|]. intros H. congruence. }
    unfold byte_at.
    destruct (nth_error (rdata s) (N.to_nat (rpos s))) as [b|] eqn:Eb.
    + assert (Hlt : (N.to_nat (rpos s) < length (rdata s))%nat) by (apply nth_error_Some; congruence).
      destruct (esc && (rzc s =? 2) && (b =? 3)).
      * destruct (nth_error (rdata s) (N.to_nat (rpos s + 1))) as [b'|] eqn:Eb'.
        -- assert (Hlt' : (N.to_nat (rpos s + 1) < length (rdata s))%nat) by (apply nth_error_Some; congruence).
           match goal with |- context [fill esc f ?s2 n] =>
             destruct (IH s2 n) as [H1 [H2 H3]]; [cbn [rpos rdata]; lia|reflexivity|] end.
           cbn [rdata] in *. cbv zeta. split; [exact H1|]. split; [exact H2|exact H3].
        -- apply nth_error_None in Eb'. cbv zeta. cbn [rdata rpos rerr].
           split; [reflexivity|]. split; [lia|]. intros _. lia.
      * match goal with |- context [fill esc f ?s2 n] =>
          destruct (IH s2 n) as [H1 [H2 H3]]; [cbn [rpos rdata]; lia|reflexivity|] end.
        cbn [rdata] in *. cbv zeta. split; [exact H1|]. split; [exact H2|exact H3].
    + apply nth_error_None in Eb. cbv zeta. cbn [rdata rpos rerr].
      split; [reflexivity|]. split; [exact Hp|]. intros _. lia.
Qed.

(* a Read that fails returns 0, sets the error and has consumed the whole input: NrBytesRead = len(data) *)
Lemma read_eof_position esc s n :
  rerr s = false -> rpos s <= N.of_nat (length (rdata s)) ->
  rerr (snd (read_gen esc s n)) = true ->
  fst (read_gen esc s n) = 0 /\ nr_bytes_read (snd (read_gen esc s n)) = N.of_nat (length (rdata s))
  /\ rdata (snd (read_gen esc s n)) = rdata s.
Proof.
  intros He Hp. unfold read_gen. rewrite He.
  destruct (fill_pos esc (S (N.to_nat (n / 8) + 1)) s n Hp He) as [H1 [H2 H3]].
  destruct (rerr (fill esc (S (N.to_nat (n / 8) + 1)) s n)) eqn:E; cbn [fst snd].
  - intros _. split; [reflexivity|]. split; [apply H3; reflexivity|exact H1].
  - cbn [rerr]. discriminate.
Qed.

(* a Read that succeeds keeps the position within the input *)
Lemma read_pos_le esc s n :
  rerr s = false -> rpos s <= N.of_nat (length (rdata s)) ->
  rpos (snd (read_gen esc s n)) <= N.of_nat (length (rdata s)) /\ rdata (snd (read_gen esc s n)) = rdata s.
Proof.
  intros He Hp. unfold read_gen. rewrite He.
  destruct (fill_pos esc (S (N.to_nat (n / 8) + 1)) s n Hp He) as [H1 [H2 H3]].
  destruct (rerr (fill esc (S (N.to_nat (n / 8) + 1)) s n)); cbn [snd rpos rdata]; split; assumption.
Qed.

(* ------------------------------------------------------------------ ReadSignedGolomb at the uint boundary *)
Lemma read_se64_eq s : fst (read_ue s) < 18446744073709551615 -> read_se64 s = read_se s.
Proof.
  unfold read_se64, read_se. destruct (read_ue s) as [u s1]. cbn [fst]. intros Hu.
  unfold u64. rewrite (N.mod_small (u + 1)) by lia. reflexivity.
Qed.

(* 64 zero bits, a one, 64 zero bits: codeNum 2^64 - 1; Go computes (codeNum + 1) / 2 in uint and returns 0 *)
Definition se_boundary_stream : list N := [0;0;0;0;0;0;0;0;128;0;0;0;0;0;0;0;0].
Lemma se_boundary :
  fst (read_ue (rinit se_boundary_stream)) = 18446744073709551615 /\
  fst (read_se64 (rinit se_boundary_stream)) = 0%Z /\
  rerr (snd (read_se64 (rinit se_boundary_stream))) = false.
Proof. vm_compute. repeat split. Qed.
