(* C07WrapFragProofs.v — the fragment theorems for the function EncryptFragment really calls (ipd.ProtFunc =
   Get(AVC|HEVC)ProtectRanges, current text), WITHOUT the hypothesis `prot_in_sample` / `covered r <= |s|` on the
   protection function: it is discharged by C07WrapProofs.protect_ranges_w_cover.  The earlier lemmas ask the
   hypothesis for every byte string; the coverage theorem speaks about samples below 2^32 bytes (uint32 arithmetic),
   so they are applied to the function cut off at 2^32 (`lim`), which EncryptFragment cannot tell from the real one
   on a fragment whose samples are below 2^32 bytes (trun sample sizes are uint32). *)
From V.lib Require Import Base.
From V.c07 Require Import C07Model C07Spec C07RangeProofs C07CryptProofs C07OnlyProofs C07FragProofs C07TrafModel C07TrafProofs.
From V.c07 Require Import C07WrapModel C07WrapProofs.

Definition lim (pf : list N -> res (list ssp)) (s : list N) : res (list ssp) :=
  if lenN s <? 4294967296 then pf s else Err.

Lemma lim_same pf samples :
  Forall (fun s => lenN s < 4294967296) samples -> Forall (fun s => lim pf s = pf s) samples.
Proof.
  intros H. eapply Forall_impl; [|exact H]. intros s Hs. unfold lim.
  apply N.ltb_lt in Hs. rewrite Hs. reflexivity.
Qed.

Section Ext.
  Variable E : list N -> list N -> list N.
  Variable D : list N -> list N -> list N.
  Variables pf pf' : list N -> res (list ssp).

  Lemma enc_cenc_ext key : forall samples iv,
    Forall (fun s => pf' s = pf s) samples ->
    encrypt_samples_cenc E pf' key iv samples = encrypt_samples_cenc E pf key iv samples.
  Proof.
    induction samples as [|s t IH]; intros iv H; [reflexivity|].
    inversion H as [|? ? Hs Ht]; subst. cbn [encrypt_samples_cenc]. rewrite Hs.
    destruct (pf s) as [ssps| | |]; cbn [rbind]; try reflexivity.
    destruct (crypt_sample_cenc E key iv ssps s); cbn [rbind]; try reflexivity.
    rewrite (IH _ Ht). reflexivity.
  Qed.

  Lemma enc_cbcs_ext key iv cb sb : forall samples,
    Forall (fun s => pf' s = pf s) samples ->
    encrypt_samples_cbcs E D pf' key iv cb sb samples = encrypt_samples_cbcs E D pf key iv cb sb samples.
  Proof.
    induction samples as [|s t IH]; intros H; [reflexivity|].
    inversion H as [|? ? Hs Ht]; subst. cbn [encrypt_samples_cbcs]. rewrite Hs.
    destruct (pf s) as [ssps| | |]; cbn [rbind]; try reflexivity.
    destruct (crypt_sample_cbcs E D false key iv ssps cb sb s); cbn [rbind]; try reflexivity.
    rewrite (IH Ht). reflexivity.
  Qed.

  Lemma efb_ext sch key iv cb sb f :
    Forall (fun s => pf' s = pf s) (bf_samples f) ->
    encrypt_fragment_bytes E D pf' sch key iv cb sb f = encrypt_fragment_bytes E D pf sch key iv cb sb f.
  Proof.
    intros H. unfold encrypt_fragment_bytes, encrypt_samples.
    destruct sch; [rewrite (enc_cenc_ext _ _ _ H)|rewrite (enc_cbcs_ext _ _ _ _ _ H)|]; reflexivity.
  Qed.
End Ext.

Lemma prot_le_covered r : sumN (map ss_prot r) <= covered r.
Proof.
  unfold covered. induction r as [|p t IH]; [apply N.le_refl|]. cbn [map sumN]. lia.
Qed.

Lemma Forall2_with_Forall {A B} (P : A -> Prop) (R R' : A -> B -> Prop) l1 l2 :
  (forall a b, P a -> R a b -> R' a b) -> Forall P l1 -> Forall2 R l1 l2 -> Forall2 R' l1 l2.
Proof.
  intros Himp HP H2. induction H2 as [|a b l1 l2 Hab _ IH]; [constructor|].
  inversion HP; subst. constructor; [apply Himp; assumption|apply IH; assumption].
Qed.

Section Closed.
  Variable E : list N -> list N -> list N.
  Variable D : list N -> list N -> list N.
  Variable isvideo : N -> bool.
  Variable hdr : list N -> res N.
  Variable psch : scheme.
  Hypothesis HE : forall k b, length (E k b) = 16%nat.
  Hypothesis HD : forall k b, length (D k b) = 16%nat.
  Hypothesis Hh : forall n h, hdr n = Ok h -> h <= lenN n.

  Let pf := protect_ranges_w isvideo hdr psch.

  Lemma lim_covered s r : lim pf s = Ok r -> covered r = lenN s.
  Proof.
    unfold lim. destruct (lenN s <? 4294967296) eqn:El; [|discriminate]. apply N.ltb_lt in El.
    intros H. exact (proj1 (protect_ranges_w_cover isvideo hdr psch Hh s r El H)).
  Qed.

  Lemma lim_prot_in_sample : prot_in_sample (lim pf).
  Proof. intros s r H. rewrite <- (lim_covered s r H). apply prot_le_covered. Qed.

  Lemma fragment_video_closed sch key iv cb sb f g :
    key_ok key = true -> bytes_ok iv = true ->
    Forall (fun s => lenN s < 4294967296) (bf_samples f) ->
    encrypt_fragment_bytes E D pf sch key iv cb sb f = Ok g ->
    bf_before g = bf_before f /\ bf_after g = bf_after f /\
    (exists saizb saiob sencb,
        bf_traf g = bf_traf f ++ [saizb; saiob; sencb] /\
        is_box [115; 97; 105; 122] saizb /\ is_box [115; 97; 105; 111] saiob /\ is_box [115; 101; 110; 99] sencb) /\
    (exists encs,
        bf_samples g = map e_data encs /\
        Forall2 (fun s e => pf s = Ok (e_ssps e) /\ covered (e_ssps e) = lenN s /\ e_ssps e <> [] /\
                            length (e_data e) = length s) (bf_samples f) encs /\
        keep_clear (concat (map (fun e => sample_mask (e_ssps e) (lenN (e_data e))) encs))
                   (mdat_payload f) (mdat_payload g)).
  Proof.
    intros Hk Hiv Hsz H.
    pose proof (lim_same pf _ Hsz) as Hext.
    rewrite <- (efb_ext E D pf (lim pf) sch key iv cb sb f Hext) in H.
    assert (Hprot : forall s r, lim pf s = Ok r -> covered r <= lenN s).
    { intros s r Hs. rewrite (lim_covered s r Hs). apply N.le_refl. }
    destruct (encrypt_fragment_only E D (lim pf) HE HD sch key iv cb sb f g Hprot Hk Hiv Hsz H)
      as (A & B & C & (encs & D1 & D2 & D3)).
    split; [exact A|]. split; [exact B|]. split; [exact C|].
    exists encs. split; [exact D1|]. split; [|exact D3].
    eapply (Forall2_with_Forall (fun s => lenN s < 4294967296)); [|exact Hsz|exact D2].
    intros s e Hs [H1 H2]. cbv beta.
    assert (Hp : pf s = Ok (e_ssps e)).
    { unfold lim in H1. apply N.ltb_lt in Hs. rewrite Hs in H1. exact H1. }
    destruct (protect_ranges_w_cover isvideo hdr psch Hh s (e_ssps e) Hs Hp) as (C1 & _ & C3).
    repeat split; assumption.
  Qed.

  Lemma no_counter_reuse_closed key iv samples encs :
    length iv = 16%nat -> bytes_ok iv = true ->
    Forall (fun s => lenN s < 4294967296) samples -> lenN samples < 4294967296 ->
    encrypt_samples_cenc E pf key iv samples = Ok encs ->
    sumN (map blocks_of encs) < 2 ^ 60 /\
    (forall i ei, nth_error encs i = Some ei ->
       be (e_iv ei) = (be iv + sumN (map blocks_of (firstn i encs))) mod 2 ^ 128) /\
    (forall i j ei ej t t',
       (i < j)%nat -> nth_error encs i = Some ei -> nth_error encs j = Some ej ->
       t < blocks_of ei -> t' < blocks_of ej ->
       (be (e_iv ei) + t) mod 2 ^ 128 <> (be (e_iv ej) + t') mod 2 ^ 128).
  Proof.
    intros Hl Hb Hsz Hn H.
    rewrite <- (enc_cenc_ext E pf (lim pf) key samples iv (lim_same pf _ Hsz)) in H.
    exact (no_counter_reuse_frag E (lim pf) lim_prot_in_sample key iv samples encs Hl Hb Hsz Hn H).
  Qed.
End Closed.
