(* C07Model.v — executable Gallina model of the Common Encryption code of mp4/crypto.go
   (pinned tree): GetAVCProtectRanges / GetHEVCProtectRanges, AppendProtectRange,
   incrementIV(InPlace), CryptSampleCenc, cryptSampleCbcs / cbcsCrypt, the per-sample loop of
   EncryptFragment, SaizBox.AddSampleInfo, SencBox.AddSample / calcSize / EncodeSWNoHdr and the saio
   offset computation.  Definitions only.
   Bytes are N (< 256), positions and sizes are N.  Go's uint32 arithmetic is written explicitly
   (u32 / sub32); Go's `int` is 64 bits and is modelled unbounded (sample sizes < 2^63).
   The AES block cipher and crypto/cipher's CTR / CBC modes are NOT verified: the block cipher is a
   Section variable, CTR and CBC are modelled from their documented behaviour. *)
From V.lib Require Import Base.

(* ---------------------------------------------------------------- Go slices over list N *)
Definition idx (s : list N) (i : N) : res N :=
  match skipn (N.to_nat i) s with b :: _ => Ok b | [] => Panic end.

(* s[lo:hi] with cap = len *)
Definition slice (s : list N) (lo hi : N) : res (list N) :=
  if (hi <? lo) || (lenN s <? hi) then Panic
  else Ok (firstn (N.to_nat (hi - lo)) (skipn (N.to_nat lo) s)).

(* big-endian value of a byte string *)
Definition be (l : list N) : N := fold_left (fun acc b => acc * 256 + b) l 0.

Definition sub32 (a b : N) : N := (a + 4294967296 - b) mod 4294967296.

(* in-place write of seg at position pos (caller has checked the range) *)
Definition splice (s : list N) (pos : N) (seg : list N) : list N :=
  firstn (N.to_nat pos) s ++ seg ++ skipn (N.to_nat pos + length seg) s.

(* ---------------------------------------------------------------- sub-sample entries *)
Record ssp := mkSsp { ss_clear : N (* uint16 *); ss_prot : N (* uint32 *) }.

(* func AppendProtectRange(ssps, nrClear, nrProtected uint32) *)
Fixpoint apr_loop (fuel : nat) (ssps : list ssp) (nrClear nrProt : N) : res (list ssp) :=
  match fuel with
  | O => OutOfFuel
  | S f =>
      if 65536 <=? nrClear then apr_loop f (ssps ++ [mkSsp 65535 0]) (nrClear - 65535) nrProt
      else Ok (ssps ++ [mkSsp (u16 nrClear) nrProt])
  end.

Definition append_protect_range (ssps : list ssp) (nrClear nrProt : N) : res (list ssp) :=
  apr_loop (S (N.to_nat (nrClear / 65535))) ssps nrClear nrProt.

Inductive scheme := Cenc | Cbcs | SchemeOther.

(* avc.GetNaluType / avc.IsVideoNaluType on the NAL header byte: type <= 5 (type 0 included) *)
Definition avc_is_video (b : N) : bool := N.land b 31 <=? 5.
(* hevc.GetNaluType / hevc.IsVideoNaluType: ((b >> 1) & 0x3f) <= 31 *)
Definition hevc_is_video (b : N) : bool := N.land (N.shiftr b 1) 63 <=? 31.

Section Ranges.
  (* first NALU byte -> is a video NALU *)
  Variable isvideo : N -> bool.
  (* (avc|hevc).ParseSliceHeader(nalu, spsMap, ppsMap): Ok sh.Size, or Err *)
  Variable hdr : list N -> res N.
  Variable sch : scheme.

  (* one iteration of `for pos < uint32(length-4)`; state pos, clearStart, clearEnd, ssps *)
  Definition pr_step (sample : list N) (pos cs ce : N) (ssps : list ssp)
    : res (N * N * N * list ssp) :=
    do lenbytes <- slice sample pos (u32 (pos + 4));
    let naluLength := be lenbytes in
    let pos := u32 (pos + 4) in
    if lenN sample <? u32 (pos + naluLength) then Err else
    do b0 <- idx sample pos;
    let ce := u32 (pos + naluLength) in
    do cb <- (if isvideo b0 then
                do nalu <- slice sample pos (u32 (pos + naluLength));
                match sch with
                | Cenc =>
                    if 112 <=? u32 (naluLength + 4) then
                      let btp := N.land (sub32 (u32 (naluLength + 4)) 96) 4294967280 in
                      Ok (if 0 <? btp then sub32 ce btp else ce, btp)
                    else Ok (ce, 0)
                | Cbcs =>
                    do h <- hdr nalu;
                    let chs := u32 h in
                    Ok (u32 (pos + chs), sub32 naluLength chs)
                | SchemeOther => Err
                end
              else Ok (ce, 0));
    let '(ce, btp) := cb in
    do st <- (if 0 <? btp then
                do ssps' <- append_protect_range ssps (sub32 ce cs) btp;
                let cs' := u32 (ce + btp) in
                Ok (cs', cs', ssps')
              else Ok (cs, ce, ssps));
    let '(cs, ce, ssps) := st in
    Ok (u32 (pos + naluLength), cs, ce, ssps).

  (* tail = true: the text since /repo 401deba (`clearEnd = uint32(length)` after the loop: what stands after the
     last NAL unit - the length field of a final empty NAL unit, a 4-byte sample - is clear data);
     tail = false: the text before it (kept because coq/c06 imports protect_ranges in an Example) *)
  Fixpoint pr_loop_g (tail : bool) (fuel : nat) (sample : list N) (pos cs ce : N) (ssps : list ssp)
    : res (list ssp) :=
    match fuel with
    | O => OutOfFuel
    | S f =>
        if pos <? u32 (lenN sample - 4) then
          do st <- pr_step sample pos cs ce ssps;
          let '(pos, cs, ce, ssps) := st in
          pr_loop_g tail f sample pos cs ce ssps
        else
          let ce := if tail then u32 (lenN sample) else ce in
          if cs <? ce then append_protect_range ssps (sub32 ce cs) 0
          else Ok ssps
    end.

  Definition pr_loop := pr_loop_g false.

  (* func Get(AVC|HEVC)ProtectRanges(spsMap, ppsMap, sample, scheme).  Fuel: without 32-bit wrap every
     iteration advances pos by at least 4. *)
  Definition protect_ranges_g (tail : bool) (sample : list N) : res (list ssp) :=
    if lenN sample <? 4 then Err else pr_loop_g tail (S (length sample)) sample 0 0 0 [].

  (* the CURRENT text (401deba) *)
  Definition protect_ranges_r := protect_ranges_g true.
  (* the text before 401deba *)
  Definition protect_ranges := protect_ranges_g false.
End Ranges.

(* func getAudioProtectRanges: (nil, nil) *)
Definition audio_protect_ranges (sample : list N) : res (list ssp) := Ok [].

(* ---------------------------------------------------------------- incrementIV *)
(* incrementIVInPlace on the REVERSED iv (the Go loop runs from the last byte down) *)
Fixpoint inc_le (l : list N) (rest : N) : list N :=
  match l with
  | [] => []
  | b :: t =>
      let sum := b + rest in
      if sum <? 256 then sum :: t else (sum mod 256) :: inc_le t (sum / 256)
  end.

Definition increment_iv_inplace (iv : list N) (nrSteps : N) : list N := rev (inc_le (rev iv) nrSteps).

Definition nr_enc_blocks (ssps : list ssp) (sampleLen : N) : N :=
  match ssps with
  | [] => (sampleLen + 15) / 16
  | _ => sumN (map (fun s => ss_prot s / 16) ssps)
  end.

(* func incrementIV(inIV, subsamplePatterns, sampleLen) *)
Definition increment_iv (iv : list N) (ssps : list ssp) (sampleLen : N) : list N :=
  increment_iv_inplace iv (nr_enc_blocks ssps sampleLen).

(* ---------------------------------------------------------------- sample crypt *)
Definition xorl (a b : list N) : list N := map (fun p => N.lxor (fst p) (snd p)) (combine a b).

(* aes.NewCipher(key): error unless the key has 16, 24 or 32 bytes *)
Definition key_ok (key : list N) : bool :=
  let n := lenN key in (n =? 16) || (n =? 24) || (n =? 32).

Section Cipher.
  (* block cipher: key -> 16-byte block -> 16-byte block (encrypt / decrypt direction) *)
  Variable E : list N -> list N -> list N.
  Variable D : list N -> list N -> list N.

  (* --- cipher.NewCTR(block, iv): 128-bit big-endian counter, keystream consumed byte by byte and
         continued across XORKeyStream calls --- *)
  Record ctr_st := mkCtr { c_ctr : list N; c_buf : list N }.

  Definition next_ks (key : list N) (st : ctr_st) : N * ctr_st :=
    match c_buf st with
    | k :: r => (k, mkCtr (c_ctr st) r)
    | [] =>
        match E key (c_ctr st) with
        | k :: r => (k, mkCtr (increment_iv_inplace (c_ctr st) 1) r)
        | [] => (0, st)   (* E is not a block cipher; excluded by hypothesis in the theorems *)
        end
    end.

  Fixpoint xor_stream (key : list N) (st : ctr_st) (data : list N) : list N * ctr_st :=
    match data with
    | [] => ([], st)
    | b :: t =>
        let '(k, st1) := next_ks key st in
        let '(o, st2) := xor_stream key st1 t in
        (N.lxor b k :: o, st2)
    end.

  (* the loop of CryptSampleCenc over the sub-sample patterns; pos is uint32 *)
  Fixpoint cenc_loop (key : list N) (st : ctr_st) (ssps : list ssp) (pos : N) (sample : list N)
    : res (list N) :=
    match ssps with
    | [] => Ok sample
    | ss :: t =>
        let pos := if 0 <? ss_clear ss then u32 (pos + ss_clear ss) else pos in
        let nrEnc := ss_prot ss in
        if 0 <? nrEnc then
          do seg <- slice sample pos (u32 (pos + nrEnc));
          let '(o, st') := xor_stream key st seg in
          cenc_loop key st' t (u32 (pos + nrEnc)) (splice sample pos o)
        else cenc_loop key st t pos sample
    end.

  (* func CryptSampleCenc(sample, key, iv, subSamplePatterns) *)
  Definition crypt_sample_cenc (key iv : list N) (ssps : list ssp) (sample : list N) : res (list N) :=
    if negb (key_ok key) then Err
    else if negb (lenN iv =? 16) then Panic      (* cipher.NewCTR: IV length must equal block size *)
    else
      let st := mkCtr iv [] in
      match ssps with
      | [] => Ok (fst (xor_stream key st sample))
      | _ => cenc_loop key st ssps 0 sample
      end.

  (* --- cipher.NewCBCEncrypter / NewCBCDecrypter: CryptBlocks over whole blocks, chaining state kept
         between calls --- *)
  Fixpoint cbc_enc (fuel : nat) (key prev data : list N) : list N * list N :=
    match fuel with
    | O => ([], prev)
    | S f =>
        match data with
        | [] => ([], prev)
        | _ =>
            let c := E key (xorl (firstn 16 data) prev) in
            let '(o, p) := cbc_enc f key c (skipn 16 data) in
            (c ++ o, p)
        end
    end.

  Fixpoint cbc_dec (fuel : nat) (key prev data : list N) : list N * list N :=
    match fuel with
    | O => ([], prev)
    | S f =>
        match data with
        | [] => ([], prev)
        | _ =>
            let c := firstn 16 data in
            let p := xorl (D key c) prev in
            let '(o, pv) := cbc_dec f key c (skipn 16 data) in
            (p ++ o, pv)
        end
    end.

  (* CryptBlocks(dst, src): panics unless len(src) is a multiple of the block size *)
  Definition crypt_blocks (dec : bool) (key prev data : list N) : res (list N * list N) :=
    if negb (lenN data mod 16 =? 0) then Panic
    else Ok ((if dec then cbc_dec else cbc_enc) (S (length data)) key prev data).

  (* the pattern loop of cbcsCrypt: `for size-pos >= nrInCryptBlock {...}` (ints) *)
  Fixpoint cbcs_loop (fuel : nat) (dec : bool) (key prev data : list N) (pos nc ns : N)
    : res (list N) :=
    match fuel with
    | O => OutOfFuel
    | S f =>
        let size := lenN data in   (* pos <= size is an invariant of the Go loop, so size - pos is exact *)
        if nc <=? size - pos then
          do seg <- slice data pos (pos + nc);
          do r <- crypt_blocks dec key prev seg;
          let '(o, prev') := r in
          let data' := splice data pos o in
          let pos := pos + nc in
          if size - pos <? ns then Ok data'
          else cbcs_loop f dec key prev' data' (pos + ns) nc ns
        else Ok data
    end.

  (* func cbcsCrypt(dir, data, key, iv, nrInCryptBlock, nrInSkipBlock) *)
  Definition cbcs_crypt (dec : bool) (data key iv : list N) (nc ns : N) : res (list N) :=
    if negb (key_ok key) then Err
    else if negb (lenN iv =? 16) then Panic     (* NewCBCEncrypter: IV length must equal block size *)
    else if ns =? 0 then
      let nrToCrypt := (lenN data / 16) * 16 in
      do seg <- slice data 0 nrToCrypt;
      do r <- crypt_blocks dec key iv seg;
      Ok (splice data 0 (fst r))
    else cbcs_loop (S (length data)) dec key iv data 0 nc ns.

  (* the sub-sample loop of cryptSampleCbcs *)
  Fixpoint cbcs_sub_loop (dec : bool) (key iv : list N) (ssps : list ssp) (pos : N) (sample : list N)
           (nc ns : N) : res (list N) :=
    match ssps with
    | [] => Ok sample
    | ss :: t =>
        let pos := u32 (pos + ss_clear ss) in
        do sample' <- (if 0 <? ss_prot ss then
                         do seg <- slice sample pos (u32 (pos + ss_prot ss));
                         do o <- cbcs_crypt dec seg key iv nc ns;
                         Ok (splice sample pos o)
                       else Ok sample);
        cbcs_sub_loop dec key iv t (u32 (pos + ss_prot ss)) sample' nc ns
    end.

  (* func cryptSampleCbcs(dir, sample, key, iv, subSamplePatterns, tenc); cb / sb are
     tenc.DefaultCryptByteBlock / DefaultSkipByteBlock *)
  Definition crypt_sample_cbcs (dec : bool) (key iv : list N) (ssps : list ssp) (cb sb : N)
             (sample : list N) : res (list N) :=
    let nc := cb * 16 in
    let ns := sb * 16 in
    match ssps with
    | [] => cbcs_crypt dec sample key iv nc ns
    | _ => cbcs_sub_loop dec key iv ssps 0 sample nc ns
    end.

  (* --- the per-sample loop of EncryptFragment --- *)
  Record enc_sample := mkEnc { e_iv : list N; e_ssps : list ssp; e_data : list N }.

  Section Frag.
    Variable protfunc : list N -> res (list ssp).

    Fixpoint encrypt_samples_cenc (key iv : list N) (samples : list (list N)) : res (list enc_sample) :=
      match samples with
      | [] => Ok []
      | s :: t =>
          do ssps <- protfunc s;
          do c <- crypt_sample_cenc key iv ssps s;
          let iv' := increment_iv iv ssps (lenN s) in
          do r <- encrypt_samples_cenc key iv' t;
          Ok (mkEnc iv ssps c :: r)
      end.

    Fixpoint encrypt_samples_cbcs (key iv : list N) (cb sb : N) (samples : list (list N))
      : res (list enc_sample) :=
      match samples with
      | [] => Ok []
      | s :: t =>
          do ssps <- protfunc s;
          do c <- crypt_sample_cbcs false key iv ssps cb sb s;
          do r <- encrypt_samples_cbcs key iv cb sb t;
          Ok (mkEnc [] ssps c :: r)
      end.
  End Frag.
End Cipher.

(* `if len(iv) == 8 { iv = iv8 || 00^8 }` of InitProtect / EncryptFragment *)
Definition pad_iv (iv : list N) : list N :=
  if lenN iv =? 8 then iv ++ repeat 0 8 else iv.

(* ---------------------------------------------------------------- auxiliary information *)
(* SaizBox state: SampleInfo, DefaultSampleInfoSize, SampleCount *)
Record saiz := mkSaiz { sz_info : list N; sz_default : N; sz_count : N }.
Definition saiz_empty : saiz := mkSaiz [] 0 0.

(* func (b *SaizBox) AddSampleInfo(iv, subsamplePatterns): Panic = panic("inconsistent sample info size") *)
Definition saiz_add (b : saiz) (iv : list N) (ssps : list ssp) : res saiz :=
  let size0 := lenN iv in
  match ssps with
  | _ :: _ =>
      let size := size0 + 2 + lenN ssps * 6 in
      Ok (mkSaiz (sz_info b ++ [u8 size]) (sz_default b) (sz_count b + 1))
  | [] =>
      if 0 <? size0 then
        if sz_default b =? 0 then Ok (mkSaiz (sz_info b) (u8 size0) (sz_count b + 1))
        else if u8 size0 =? sz_default b then Ok (mkSaiz (sz_info b) (sz_default b) (sz_count b + 1))
        else Panic
      else Ok b
  end.

Fixpoint saiz_of (b : saiz) (l : list enc_sample) : res saiz :=
  match l with
  | [] => Ok b
  | e :: t => do b' <- saiz_add b (e_iv e) (e_ssps e); saiz_of b' t
  end.

(* SencBox state: perSampleIVSize, Flags & UseSubSampleEncryption, SampleCount, IVs, SubSamples *)
Record senc := mkSenc { sn_ivsize : N; sn_subs : bool; sn_count : N;
                        sn_ivs : list (list N); sn_ss : list (list ssp) }.
Definition senc_empty : senc := mkSenc 0 false 0 [] [].

(* func (s *SencBox) AddSample(sample SencSample) error *)
Definition senc_add (s : senc) (iv : list N) (ssps : list ssp) : res senc :=
  do s1 <- (if negb (lenN iv =? 0) then
              if sn_count s =? 0 then
                Ok (mkSenc (u8 (lenN iv)) (sn_subs s) (sn_count s) (sn_ivs s ++ [iv]) (sn_ss s))
              else if negb (lenN iv =? sn_ivsize s) then Err
              else Ok (mkSenc (sn_ivsize s) (sn_subs s) (sn_count s) (sn_ivs s ++ [iv]) (sn_ss s))
            else Ok s);
  let s2 := match ssps with
            | _ :: _ => mkSenc (sn_ivsize s1) true (sn_count s1) (sn_ivs s1) (sn_ss s1 ++ [ssps])
            | [] => s1
            end in
  Ok (mkSenc (sn_ivsize s2) (sn_subs s2) (sn_count s2 + 1) (sn_ivs s2) (sn_ss s2)).

Fixpoint senc_of (s : senc) (l : list enc_sample) : res senc :=
  match l with
  | [] => Ok s
  | e :: t => do s' <- senc_add s (e_iv e) (e_ssps e); senc_of s' t
  end.

Definition be_bytes2 (x : N) : list N := [u8 (x / 256); u8 x].
Definition be_bytes4 (x : N) : list N := [u8 (x / 16777216); u8 (x / 65536); u8 (x / 256); u8 x].

Definition nth_res {A} (l : list A) (i : nat) : res A :=
  match nth_error l i with Some x => Ok x | None => Panic end.

(* per-sample entry as written by EncodeSWNoHdr: s.IVs[i], then count + (clear, prot) pairs from
   s.SubSamples[i] (index panics are Panic) *)
Definition senc_entry (s : senc) (i : nat) : res (list N) :=
  do ivb <- (if 0 <? sn_ivsize s then nth_res (sn_ivs s) i else Ok []);
  do ssb <- (if sn_subs s then
               do ss <- nth_res (sn_ss s) i;
               Ok (be_bytes2 (u16 (lenN ss)) ++
                   flat_map (fun p => be_bytes2 (ss_clear p) ++ be_bytes4 (ss_prot p)) ss)
             else Ok []);
  Ok (ivb ++ ssb).

Fixpoint senc_entries (s : senc) (i : nat) (n : nat) : res (list (list N)) :=
  match n with
  | O => Ok []
  | S m => do e <- senc_entry s i; do r <- senc_entries s (S i) m; Ok (e :: r)
  end.

(* the saio offset loop at the end of EncryptFragment.  moof children before the traf are given by their
   sizes, the traf's children by (is_senc, size). *)
Fixpoint saio_traf (offset sdo : N) (tc : list (bool * N)) : N :=
  match tc with
  | [] => sdo
  | (is_senc, sz) :: t => saio_traf (offset + sz) (if is_senc then offset + 12 + 4 else sdo) t
  end.

Definition saio_offset (before_traf : list N) (traf_children : list (bool * N)) : N :=
  saio_traf (8 + sumN before_traf + 8) 0 traf_children.
