(* C07MixedProofs.v — "mixed" fragments (samples with and without sub-sample entries in one fragment).
   With the text of Get(AVC|HEVC)ProtectRanges since /repo 401deba every accepted video sample has at least one
   entry (C07RangeProofs.protect_ranges_r_nonempty), audio samples have none: EncryptFragment can no longer build a
   mixed fragment, and the auxiliary-information theorem holds for every video fragment without a uniformity
   hypothesis.  With the text before it a 4-byte sample had no entry and saiz lied: refutation below. *)
From V.lib Require Import Base.
From V.c07 Require Import C07Model C07Spec C07RangeProofs C07OnlyProofs C07TrafModel C07TrafProofs.
From V.c06 Require Import C06SencModel C06SencProofs C06SencAuxProofs.

Lemma video_prot_uniform isvideo hdr sch samples :
  Forall (fun s => lenN s < 4294967296) samples ->
  prot_uniform (protect_ranges_r isvideo hdr sch) true samples.
Proof.
  intros Hf s ssps Hin Hp. rewrite Forall_forall in Hf.
  pose proof (protect_ranges_r_nonempty isvideo hdr sch s ssps (Hf s Hin) Hp) as Hne.
  destruct ssps; [congruence|reflexivity].
Qed.

Lemma audio_prot_uniform samples : prot_uniform audio_protect_ranges false samples.
Proof. intros s ssps _ H. inversion H. reflexivity. Qed.

(* the auxiliary information of EVERY video fragment EncryptFragment produces (AVC / HEVC, cenc / cbcs, any
   mix of samples with 0 and > 0 protected NAL units, 4-byte samples, trailing empty NAL units) *)
Lemma aux_traf_video (E D : list N -> list N -> list N) isvideo hdr sch key iv cb sb f g :
  let protfunc := protect_ranges_r isvideo hdr sch in
  encrypt_fragment_bytes E D protfunc sch key iv cb sb f = Ok g ->
  Forall (fun s => lenN s < 4294967296) (bf_samples f) -> bf_samples f <> [] ->
  let ivsz := match sch with Cenc => 16 | _ => 0 end in
  (forall encs, encrypt_samples E D protfunc sch key (pad_iv iv) cb sb (bf_samples f) = Ok encs ->
                forallb (fun e => lenN e <? 256) (entries_of ivsz true encs) = true) ->
  exists encs z saizb off sencb,
    encrypt_samples E D protfunc sch key (pad_iv iv) cb sb (bf_samples f) = Ok encs /\
    Forall (fun e => e_ssps e <> []) encs /\
    saiz_of saiz_empty encs = Ok z /\ saiz_encode z = Ok saizb /\
    bf_traf g = bf_traf f ++ [saizb; saio_encode off; sencb] /\
    saio_offset_field (saio_encode off) = u32 off /\
    aux_walk (saiz_sizes z) (skipn (N.to_nat off) (moof_bytes g))
    = (entries_of ivsz true encs, concat (bf_after f)) /\
    concat (entries_of ivsz true encs) ++ concat (bf_after f) = skipn (N.to_nat off) (moof_bytes g) /\
    sz_count z = lenN encs.
Proof.
  intros protfunc H Hf Hne ivsz Hsmall.
  destruct (aux_traf E D protfunc sch key iv cb sb f g true H (video_prot_uniform isvideo hdr sch _ Hf) Hne eq_refl Hsmall)
    as (encs & z & saizb & off & sencb & H1 & H2 & H3 & H4 & H5 & H6 & H7 & H8).
  exists encs, z, saizb, off, sencb. repeat split; try assumption.
  (* every sample kept its non-empty entry list *)
  assert (Hl16 : length (pad_iv iv) = 16%nat).
  { unfold encrypt_fragment_bytes in H. destruct (negb (lenN (pad_iv iv) =? 16)) eqn:E16; [discriminate|].
    apply negb_false_iff, N.eqb_eq in E16. unfold lenN in E16. lia. }
  pose proof (video_prot_uniform isvideo hdr sch _ Hf) as Hpu. fold protfunc in Hpu.
  assert (Hu : uniform ivsz true encs = true).
  { destruct sch; cbn [encrypt_samples] in H1; try discriminate.
    - exact (proj1 (cenc_loop_uniform E protfunc true (bf_samples f) key (pad_iv iv) encs Hl16 Hpu H1)).
    - exact (proj1 (cbcs_loop_uniform E D protfunc true (bf_samples f) key (pad_iv iv) cb sb encs Hpu H1)). }
  unfold uniform in Hu. apply Forall_forall. intros e He.
  rewrite forallb_forall in Hu. specialize (Hu e He).
  destruct (e_ssps e); [|discriminate].
  apply andb_prop in Hu. destruct Hu as [_ Hu]. cbn in Hu. discriminate.
Qed.

(* before 401deba: a fragment of a normal sample and a 4-byte sample.  saiz announces 16 bytes for both samples
   (DefaultSampleInfoSize 16, no table) while the senc box written by the repaired SencBox.AddSample
   (C06SencModel.senc_add_r) carries entries of 24 and 18 bytes.  Reproduced on the real code before the fix
   (EncryptFragment, cenc: saiz default=16 count=2; senc entries 24 + 18 bytes). *)
Definition mixed_E (k b : list N) : list N := firstn 16 (b ++ repeat 0 16).

Lemma aux_mixed_pinned_refuted :
  exists encs z s es,
    encrypt_samples_cenc mixed_E (protect_ranges avc_is_video (fun _ => Err) Cenc) (repeat 7 16) (repeat 1 16)
      [frames [101 :: repeat 7 139]; [0; 0; 0; 0]] = Ok encs /\
    map e_ssps encs = [[mkSsp 96 48]; []] /\
    saiz_of saiz_empty encs = Ok z /\ saiz_sizes z = [16; 16] /\
    senc_of_r senc_empty encs = Ok s /\ senc_entries s 0 2 = Ok es /\ map (fun e => lenN e) es = [24; 18].
Proof. vm_compute. do 4 eexists. repeat split; reflexivity. Qed.

(* the same fragment with the current text: two entries of 24 bytes, announced as 24 and 24 *)
Lemma aux_mixed_repaired_example :
  exists encs z s es,
    encrypt_samples_cenc mixed_E (protect_ranges_r avc_is_video (fun _ => Err) Cenc) (repeat 7 16) (repeat 1 16)
      [frames [101 :: repeat 7 139]; [0; 0; 0; 0]] = Ok encs /\
    map e_ssps encs = [[mkSsp 96 48]; [mkSsp 4 0]] /\
    saiz_of saiz_empty encs = Ok z /\ saiz_sizes z = [24; 24] /\
    senc_of_r senc_empty encs = Ok s /\ senc_entries s 0 2 = Ok es /\ map (fun e => lenN e) es = [24; 24].
Proof. vm_compute. do 4 eexists. repeat split; reflexivity. Qed.
