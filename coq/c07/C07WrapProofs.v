(* C07WrapProofs.v — Get(AVC|HEVC)ProtectRanges since /repo 2ef93b3 (C07WrapModel.protect_ranges_w: 64-bit bounds
   check of a NAL unit) against the text before it (C07Model.protect_ranges_r):
   (1) on EVERY byte string the new text returns what the old text returned, or refuses;
   (2) on every concatenation of NAL units below 2^32 bytes the two are equal (every theorem about frames carries over);
   (3) for EVERY byte string the new text accepts, the entries add up to the size of the sample, clear counts fit 16
       bits, there is at least one entry - no hypothesis on the layout (the `prot_in_sample` / `covered r <= |s|`
       hypotheses of the fragment theorems, discharged);
   (4) the loop ends within |sample| iterations for every byte string;
   (5) the old text on a 9-byte sample: the loop never ends / panics. *)
From V.lib Require Import Base.
From V.c07 Require Import C07Model C07Spec C07RangeProofs C07OnlyProofs C07WrapModel.

Lemma u32_le x : u32 x <= x.
Proof. unfold u32. apply N.mod_le. discriminate. Qed.

(* ---------------------------------------------------------------- (1) refinement on every byte string *)
Section Rel.
  Variable isvideo : N -> bool.
  Variable hdr : list N -> res N.
  Variable sch : scheme.

  Lemma pr_step_w_rel sample pos cs ce ssps :
    pr_step_w isvideo hdr sch sample pos cs ce ssps = pr_step isvideo hdr sch sample pos cs ce ssps \/
    pr_step_w isvideo hdr sch sample pos cs ce ssps = Err.
  Proof.
    unfold pr_step_w, pr_step.
    destruct (slice sample pos (u32 (pos + 4))) as [lb| | |]; cbn [rbind]; try (left; reflexivity).
    cbv zeta.
    destruct (lenN sample <? u32 (pos + 4) + be lb) eqn:G; [right; reflexivity|].
    apply N.ltb_ge in G.
    assert (G2 : (lenN sample <? u32 (u32 (pos + 4) + be lb)) = false).
    { apply N.ltb_ge. pose proof (u32_le (u32 (pos + 4) + be lb)). lia. }
    rewrite G2. left. reflexivity.
  Qed.

  Lemma pr_loop_w_rel fuel : forall sample pos cs ce ssps,
    pr_loop_w isvideo hdr sch fuel sample pos cs ce ssps = pr_loop_g isvideo hdr sch true fuel sample pos cs ce ssps \/
    pr_loop_w isvideo hdr sch fuel sample pos cs ce ssps = Err.
  Proof.
    induction fuel as [|f IH]; intros sample pos cs ce ssps; [left; reflexivity|].
    cbn [pr_loop_w pr_loop_g]. destruct (pos <? u32 (lenN sample - 4)); [|left; reflexivity].
    destruct (pr_step_w_rel sample pos cs ce ssps) as [E | E]; rewrite E.
    - destruct (pr_step isvideo hdr sch sample pos cs ce ssps) as [[[[p c] e] s]| | |]; cbn [rbind];
        try (left; reflexivity).
      apply IH.
    - right. reflexivity.
  Qed.

  Lemma protect_ranges_w_rel sample :
    protect_ranges_w isvideo hdr sch sample = protect_ranges_r isvideo hdr sch sample \/
    protect_ranges_w isvideo hdr sch sample = Err.
  Proof.
    unfold protect_ranges_w, protect_ranges_r, protect_ranges_g.
    destruct (lenN sample <? 4); [left; reflexivity|]. apply pr_loop_w_rel.
  Qed.

  (* ---------------------------------------------------------------- (2) equal on frames *)
  Lemma pr_step_frames pre n post cs ce ssps :
    lenN (pre ++ frame n ++ post) < 4294967296 ->
    pr_step_w isvideo hdr sch (pre ++ frame n ++ post) (lenN pre) cs ce ssps
    = pr_step isvideo hdr sch (pre ++ frame n ++ post) (lenN pre) cs ce ssps /\
    forall p c e s, pr_step isvideo hdr sch (pre ++ frame n ++ post) (lenN pre) cs ce ssps = Ok (p, c, e, s) ->
                    p = lenN pre + 4 + lenN n.
  Proof.
    intros Hlen.
    set (sample := pre ++ frame n ++ post) in *. set (L := lenN n) in *. set (pos := lenN pre) in *.
    assert (HL : lenN sample = pos + 4 + L + lenN post).
    { unfold sample, frame. rewrite !lenN_app, be_bytes4_len. fold L pos. lia. }
    assert (Hs1 : sample = pre ++ be_bytes4 L ++ (n ++ post)).
    { unfold sample, frame. fold L. rewrite <- !app_assoc. reflexivity. }
    assert (Hsl : slice sample pos (pos + 4) = Ok (be_bytes4 L)).
    { apply (slice_eq sample pre (be_bytes4 L) (n ++ post) pos (pos + 4) Hs1 eq_refl).
      rewrite be_bytes4_len. reflexivity. }
    split.
    - unfold pr_step_w, pr_step. rewrite (u32_small (pos + 4)) by lia. rewrite Hsl. cbn [rbind]. cbv zeta.
      rewrite be_bytes4_be by lia. rewrite (u32_small (pos + 4 + L)) by lia.
      assert (Hlt : (lenN sample <? pos + 4 + L) = false) by (apply N.ltb_ge; lia).
      rewrite Hlt. reflexivity.
    - intros p c e s. unfold pr_step. rewrite (u32_small (pos + 4)) by lia. rewrite Hsl. cbn [rbind]. cbv zeta.
      rewrite be_bytes4_be by lia. rewrite (u32_small (pos + 4 + L)) by lia.
      intros H.
      destruct (lenN sample <? pos + 4 + L); [discriminate|].
      destruct (idx sample (pos + 4)) as [b0| | |]; cbn [rbind] in H; try discriminate.
      match type of H with (do cb <- ?X; _) = _ => destruct X as [[ce1 btp]| | |] end; cbn [rbind] in H; try discriminate.
      match type of H with (do st <- ?X; _) = _ => destruct X as [[[c1 e1] s1]| | |] end; cbn [rbind] in H; try discriminate.
      inversion H. reflexivity.
  Qed.

  Lemma pr_loop_w_frames : forall nalus fuel pre cs ce ssps,
    lenN (pre ++ frames nalus) < 4294967296 ->
    pr_loop_w isvideo hdr sch fuel (pre ++ frames nalus) (lenN pre) cs ce ssps
    = pr_loop_g isvideo hdr sch true fuel (pre ++ frames nalus) (lenN pre) cs ce ssps.
  Proof.
    induction nalus as [|n rest IH]; intros fuel pre cs ce ssps Hlen.
    - destruct fuel as [|f]; [reflexivity|]. cbn [pr_loop_w pr_loop_g].
      cbn [frames flat_map] in *. rewrite app_nil_r in *.
      assert (E : (lenN pre <? u32 (lenN pre - 4)) = false).
      { apply N.ltb_ge. pose proof (u32_le (lenN pre - 4)). lia. }
      rewrite E. reflexivity.
    - destruct fuel as [|f]; [reflexivity|]. cbn [pr_loop_w pr_loop_g].
      cbn [frames flat_map] in *. fold (frames rest) in *.
      destruct (lenN pre <? u32 (lenN (pre ++ frame n ++ frames rest) - 4)); [|reflexivity].
      destruct (pr_step_frames pre n (frames rest) cs ce ssps Hlen) as [Eq Hpos].
      rewrite Eq.
      destruct (pr_step isvideo hdr sch (pre ++ frame n ++ frames rest) (lenN pre) cs ce ssps)
        as [[[[p c] e] s]| | |] eqn:Es; cbn [rbind]; try reflexivity.
      rewrite (Hpos p c e s eq_refl).
      assert (Hpre' : lenN pre + 4 + lenN n = lenN (pre ++ frame n)).
      { unfold frame. rewrite !lenN_app, be_bytes4_len. lia. }
      rewrite Hpre'.
      replace (pre ++ frame n ++ frames rest) with ((pre ++ frame n) ++ frames rest) by (rewrite <- app_assoc; reflexivity).
      apply IH. rewrite <- app_assoc. exact Hlen.
  Qed.

  Lemma protect_ranges_w_frames nalus :
    lenN (frames nalus) < 4294967296 ->
    protect_ranges_w isvideo hdr sch (frames nalus) = protect_ranges_r isvideo hdr sch (frames nalus).
  Proof.
    intros Hlen. unfold protect_ranges_w, protect_ranges_r, protect_ranges_g.
    destruct (lenN (frames nalus) <? 4); [reflexivity|].
    exact (pr_loop_w_frames nalus (S (length (frames nalus))) [] 0 0 [] Hlen).
  Qed.
End Rel.

(* ---------------------------------------------------------------- (3) every accepted byte string is partitioned *)
Lemma slice_ok_len s lo hi m : slice s lo hi = Ok m -> lenN m = hi - lo /\ lo <= hi /\ hi <= lenN s.
Proof.
  unfold slice. destruct ((hi <? lo) || (lenN s <? hi)) eqn:E; [discriminate|].
  apply orb_false_iff in E. destruct E as [E1 E2]. apply N.ltb_ge in E1. apply N.ltb_ge in E2.
  intros H. inversion H. subst m. split; [|split; assumption].
  unfold lenN in *. rewrite firstn_length, skipn_length. lia.
Qed.

Definition clear16 (p : ssp) : Prop := ss_clear p < 65536.

Lemma covered_expand r : covered r = lenN (expand r).
Proof. unfold covered. symmetry. apply expand_lenN. Qed.

Lemma apr_cover ssps c p r :
  append_protect_range ssps c p = Ok r ->
  covered r = covered ssps + c + p /\ (Forall clear16 ssps -> Forall clear16 r) /\ r <> [].
Proof.
  intros H.
  destruct (append_protect_range_spec (fun _ => True) ssps c p I I) as (r' & Hr & He & Hc).
  rewrite H in Hr. inversion Hr. subst r'. split; [|split].
  - rewrite !covered_expand, He, !lenN_app, !rep_lenN. lia.
  - intros Hs.
    assert (Hs' : Forall (entry_ok (fun _ => True)) ssps).
    { eapply Forall_impl; [|exact Hs]. intros a Ha. split; [exact Ha|exact I]. }
    eapply Forall_impl; [|exact (Hc Hs')]. intros a [Ha _]. exact Ha.
  - unfold append_protect_range in H. eapply apr_loop_nonempty. exact H.
Qed.

Section Cover.
  Variable isvideo : N -> bool.
  Variable hdr : list N -> res N.
  Variable sch : scheme.
  (* what (avc|hevc).ParseSliceHeader report as sh.Size lies inside the NAL unit (C07_slice_header_size_bounded) *)
  Hypothesis Hh : forall n h, hdr n = Ok h -> h <= lenN n.

  Definition inv (sample : list N) (pos cs : N) (ssps : list ssp) : Prop :=
    covered ssps = cs /\ cs <= pos /\ pos <= lenN sample /\ Forall clear16 ssps.

  Lemma pr_step_w_inv sample pos cs ce ssps pos' cs' ce' ssps' :
    lenN sample < 4294967296 -> pos + 4 < lenN sample ->
    inv sample pos cs ssps ->
    pr_step_w isvideo hdr sch sample pos cs ce ssps = Ok (pos', cs', ce', ssps') ->
    inv sample pos' cs' ssps' /\ pos + 4 <= pos' /\ (ssps' <> [] \/ (cs' = cs /\ ssps' = ssps)).
  Proof.
    intros Hlen Hpos (Hcov & Hcs & Hpl & Hcl). unfold pr_step_w.
    rewrite (u32_small (pos + 4)) by lia.
    destruct (slice sample pos (pos + 4)) as [lb| | |] eqn:Hs; cbn [rbind]; try discriminate.
    cbv zeta. set (nl := be lb).
    destruct (lenN sample <? pos + 4 + nl) eqn:G; [discriminate|]. apply N.ltb_ge in G.
    rewrite !(u32_small (pos + 4 + nl)) by lia.
    destruct (idx sample (pos + 4)) as [b0| | |]; cbn [rbind]; try discriminate.
    assert (Hplain : forall X : res (N * N * N * list ssp),
              X = Ok (pos + 4 + nl, cs, pos + 4 + nl, ssps) ->
              X = Ok (pos', cs', ce', ssps') ->
              inv sample pos' cs' ssps' /\ pos + 4 <= pos' /\ (ssps' <> [] \/ (cs' = cs /\ ssps' = ssps))).
    { intros X -> H. inversion H; subst. split; [|split; [lia|right; split; reflexivity]].
      repeat split; try assumption; lia. }
    assert (Hprot : forall c p (X : res (N * N * N * list ssp)),
              cs <= c -> c + p = pos + 4 + nl ->
              X = (do ssps1 <- append_protect_range ssps (c - cs) p;
                   Ok (pos + 4 + nl, pos + 4 + nl, pos + 4 + nl, ssps1)) ->
              X = Ok (pos', cs', ce', ssps') ->
              inv sample pos' cs' ssps' /\ pos + 4 <= pos' /\ (ssps' <> [] \/ (cs' = cs /\ ssps' = ssps))).
    { intros c p X Hc Hcp -> H.
      destruct (append_protect_range ssps (c - cs) p) as [r1| | |] eqn:Ha; cbn [rbind] in H; try discriminate.
      inversion H; subst. apply apr_cover in Ha. destruct Ha as (Ha1 & Ha2 & Ha3).
      split; [|split; [lia|left; exact Ha3]].
      repeat split; [lia|lia|lia|apply Ha2; exact Hcl]. }
    destruct (isvideo b0).
    - destruct (slice sample (pos + 4) (pos + 4 + nl)) as [nalu| | |] eqn:Hn; cbn [rbind]; try discriminate.
      apply slice_ok_len in Hn. destruct Hn as (Hnl & _ & _).
      destruct sch.
      + (* cenc *)
        rewrite (u32_small (nl + 4)) by lia.
        destruct (112 <=? nl + 4) eqn:E.
        * apply N.leb_le in E. rewrite (sub32_small (nl + 4) 96) by lia. rewrite land_fff0 by lia.
          set (P := (nl + 4 - 96) / 16 * 16).
          assert (HP : P <= nl + 4 - 96) by (unfold P; lia).
          destruct (0 <? P) eqn:EP; cbn [rbind].
          -- rewrite EP. rewrite (sub32_small (pos + 4 + nl) P) by lia.
             rewrite (sub32_small (pos + 4 + nl - P) cs) by lia.
             replace (u32 (pos + 4 + nl - P + P)) with (pos + 4 + nl) by (rewrite u32_small by lia; lia).
             apply (Hprot (pos + 4 + nl - P) P); [lia|lia|].
             destruct (append_protect_range ssps (pos + 4 + nl - P - cs) P); reflexivity.
          -- rewrite EP. cbn [rbind]. apply Hplain. reflexivity.
        * cbn [rbind]. change (0 <? 0) with false. cbn [rbind]. apply Hplain. reflexivity.
      + (* cbcs *)
        destruct (hdr nalu) as [h| | |] eqn:Hhd; cbn [rbind]; try discriminate.
        apply Hh in Hhd. rewrite Hnl in Hhd. replace (pos + 4 + nl - (pos + 4)) with nl in Hhd by lia.
        rewrite (u32_small h) by lia. rewrite (u32_small (pos + 4 + h)) by lia. rewrite (sub32_small nl h) by lia.
        destruct (0 <? nl - h) eqn:EP; cbn [rbind].
        * rewrite (sub32_small (pos + 4 + h) cs) by lia.
          replace (u32 (pos + 4 + h + (nl - h))) with (pos + 4 + nl) by (rewrite u32_small by lia; lia).
          apply (Hprot (pos + 4 + h) (nl - h)); [lia|lia|].
          destruct (append_protect_range ssps (pos + 4 + h - cs) (nl - h)); reflexivity.
        * apply N.ltb_ge in EP. replace (pos + 4 + h) with (pos + 4 + nl) by lia. apply Hplain. reflexivity.
      + discriminate.
    - cbn [rbind]. change (0 <? 0) with false. cbn [rbind]. apply Hplain. reflexivity.
  Qed.
End Cover.

Section CoverLoop.
  Variable isvideo : N -> bool.
  Variable hdr : list N -> res N.
  Variable sch : scheme.
  Hypothesis Hh : forall n h, hdr n = Ok h -> h <= lenN n.

  Lemma pr_loop_w_cover fuel : forall sample pos cs ce ssps r,
    lenN sample < 4294967296 -> 4 <= lenN sample ->
    inv sample pos cs ssps -> (ssps <> [] \/ cs = 0) ->
    pr_loop_w isvideo hdr sch fuel sample pos cs ce ssps = Ok r ->
    covered r = lenN sample /\ Forall clear16 r /\ r <> [].
  Proof.
    induction fuel as [|f IH]; intros sample pos cs ce ssps r Hlen H4 Hinv Hne H; [discriminate|].
    cbn [pr_loop_w] in H. rewrite (u32_small (lenN sample - 4)) in H by lia.
    destruct (pos <? lenN sample - 4) eqn:Ec.
    - apply N.ltb_lt in Ec.
      destruct (pr_step_w isvideo hdr sch sample pos cs ce ssps) as [[[[pos' cs'] ce'] ssps']| | |] eqn:Es;
        cbn [rbind] in H; try discriminate.
      destruct (pr_step_w_inv isvideo hdr sch Hh sample pos cs ce ssps pos' cs' ce' ssps' Hlen ltac:(lia) Hinv Es)
        as (Hinv' & _ & Hne').
      eapply IH; [exact Hlen|exact H4|exact Hinv'| |exact H].
      destruct Hne' as [Hn | [-> ->]]; [left; exact Hn|exact Hne].
    - apply N.ltb_ge in Ec. rewrite u32_small in H by exact Hlen.
      destruct Hinv as (Hcov & Hcs & Hpl & Hcl).
      destruct (cs <? lenN sample) eqn:E.
      + apply N.ltb_lt in E. rewrite sub32_small in H by lia.
        apply apr_cover in H. destruct H as (H1 & H2 & H3).
        split; [lia|]. split; [apply H2; exact Hcl|exact H3].
      + apply N.ltb_ge in E. inversion H; subst r.
        split; [lia|]. split; [exact Hcl|].
        destruct Hne as [Hn | Hz]; [exact Hn|lia].
  Qed.

  Lemma protect_ranges_w_cover sample r :
    lenN sample < 4294967296 ->
    protect_ranges_w isvideo hdr sch sample = Ok r ->
    covered r = lenN sample /\ Forall clear16 r /\ r <> [].
  Proof.
    unfold protect_ranges_w. intros Hlen H.
    destruct (lenN sample <? 4) eqn:E; [discriminate|]. apply N.ltb_ge in E.
    eapply pr_loop_w_cover; [exact Hlen|exact E| |right; reflexivity|exact H].
    repeat split; try constructor; try lia.
  Qed.

  (* ---------------------------------------------------------------- (4) the loop ends *)
  Hypothesis Hfuel : forall n, hdr n <> OutOfFuel.

  Lemma pr_step_w_fuel sample pos cs ce ssps :
    pr_step_w isvideo hdr sch sample pos cs ce ssps <> OutOfFuel.
  Proof.
    unfold pr_step_w.
    destruct (slice sample pos (u32 (pos + 4))) as [lb| | |] eqn:Hs; cbn [rbind]; try discriminate.
    2: { unfold slice in Hs. destruct (_ || _); discriminate. }
    cbv zeta.
    destruct (lenN sample <? u32 (pos + 4) + be lb); [discriminate|].
    destruct (idx sample (u32 (pos + 4))) as [b0| | |] eqn:Hi; cbn [rbind]; try discriminate.
    2: { unfold idx in Hi. destruct (skipn _ _); discriminate. }
    assert (Hst : forall c p, (do st <- (if 0 <? p
                                         then do ssps' <- append_protect_range ssps (sub32 c cs) p;
                                              Ok (u32 (c + p), u32 (c + p), ssps')
                                         else Ok (cs, c, ssps));
                               let '(cs0, ce0, ssps0) := st in
                               Ok (u32 (u32 (pos + 4) + be lb), cs0, ce0, ssps0)) <> OutOfFuel).
    { intros c p. destruct (0 <? p); cbn [rbind]; [|discriminate].
      destruct (append_protect_range_spec (fun _ => True) ssps (sub32 c cs) p I I) as (r' & Hr & _).
      rewrite Hr. cbn [rbind]. discriminate. }
    destruct (isvideo b0); cbn [rbind]; [|apply Hst].
    destruct (slice sample (u32 (pos + 4)) (u32 (u32 (pos + 4) + be lb))) as [nalu| | |] eqn:Hn; cbn [rbind];
      try discriminate.
    2: { unfold slice in Hn. destruct (_ || _); discriminate. }
    destruct sch; [| |discriminate].
    - destruct (112 <=? u32 (be lb + 4)); cbn [rbind]; apply Hst.
    - destruct (hdr nalu) as [h| | |] eqn:Hhd; cbn [rbind]; try discriminate; [apply Hst|].
      exfalso. exact (Hfuel nalu Hhd).
  Qed.

  Lemma pr_loop_w_fuel fuel : forall sample pos cs ce ssps,
    lenN sample < 4294967296 -> 4 <= lenN sample ->
    inv sample pos cs ssps ->
    lenN sample < pos + 4 * N.of_nat fuel ->
    pr_loop_w isvideo hdr sch fuel sample pos cs ce ssps <> OutOfFuel.
  Proof.
    induction fuel as [|f IH]; intros sample pos cs ce ssps Hlen H4 Hinv Hf.
    - destruct Hinv as (_ & _ & Hpl & _). lia.
    - cbn [pr_loop_w]. rewrite (u32_small (lenN sample - 4)) by lia.
      destruct (pos <? lenN sample - 4) eqn:Ec.
      + apply N.ltb_lt in Ec.
        destruct (pr_step_w isvideo hdr sch sample pos cs ce ssps) as [[[[pos' cs'] ce'] ssps']| | |] eqn:Es;
          cbn [rbind]; try discriminate.
        * destruct (pr_step_w_inv isvideo hdr sch Hh sample pos cs ce ssps pos' cs' ce' ssps' Hlen ltac:(lia) Hinv Es)
            as (Hinv' & Hadv & _).
          apply IH; [exact Hlen|exact H4|exact Hinv'|lia].
        * exfalso. exact (pr_step_w_fuel sample pos cs ce ssps Es).
      + destruct (cs <? u32 (lenN sample)); [|discriminate].
        destruct (append_protect_range_spec (fun _ => True) ssps (sub32 (u32 (lenN sample)) cs) 0 I I) as (r' & Hr & _).
        rewrite Hr. discriminate.
  Qed.

  Lemma protect_ranges_w_terminates sample :
    lenN sample < 4294967296 -> protect_ranges_w isvideo hdr sch sample <> OutOfFuel.
  Proof.
    unfold protect_ranges_w. intros Hlen.
    destruct (lenN sample <? 4) eqn:E; [discriminate|]. apply N.ltb_ge in E.
    apply pr_loop_w_fuel; [exact Hlen|exact E| |unfold lenN; lia].
    repeat split; try constructor; try lia.
  Qed.
End CoverLoop.

(* ---------------------------------------------------------------- (5) the text before 2ef93b3 on 9 bytes *)
Definition wrap_hang_sample : list N := [255; 255; 255; 252; 9; 0; 0; 0; 0].    (* AVC AUD with length 2^32-4 *)
Definition wrap_panic_sample : list N := [255; 255; 255; 252; 5; 0; 0; 0; 0].   (* AVC IDR slice, same length *)

Lemma wrap_hang_step :
  pr_step avc_is_video (fun _ => Err) Cenc wrap_hang_sample 0 0 0 [] = Ok (0, 0, 0, []).
Proof. vm_compute. reflexivity. Qed.

(* whatever the number of iterations granted, the old loop has not ended: it is back in its initial state *)
Lemma wrap_hang_old fuel :
  pr_loop_g avc_is_video (fun _ => Err) Cenc true fuel wrap_hang_sample 0 0 0 [] = OutOfFuel.
Proof.
  induction fuel as [|f IH]; [reflexivity|]. cbn [pr_loop_g].
  replace (0 <? u32 (lenN wrap_hang_sample - 4)) with true by (vm_compute; reflexivity).
  rewrite wrap_hang_step. cbn [rbind]. exact IH.
Qed.

Lemma wrap_pinned_refuted :
  (forall fuel, pr_loop_g avc_is_video (fun _ => Err) Cenc true fuel wrap_hang_sample 0 0 0 [] = OutOfFuel) /\
  protect_ranges_r avc_is_video (fun _ => Err) Cenc wrap_panic_sample = Panic /\
  protect_ranges_w avc_is_video (fun _ => Err) Cenc wrap_hang_sample = Err /\
  protect_ranges_w avc_is_video (fun _ => Err) Cenc wrap_panic_sample = Err.
Proof. split; [exact wrap_hang_old|]. vm_compute. repeat split; reflexivity. Qed.
