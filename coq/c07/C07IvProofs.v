(* C07IvProofs.v — incrementIV(InPlace) is big-endian addition modulo 2^(8|iv|). *)
From V.lib Require Import Base.
From V.c07 Require Import C07Model.

Fixpoint le (l : list N) : N := match l with [] => 0 | b :: t => b + 256 * le t end.

Lemma be_app1 l b : be (l ++ [b]) = be l * 256 + b.
Proof. unfold be. rewrite fold_left_app. reflexivity. Qed.

Lemma be_rev l : be (rev l) = le l.
Proof.
  induction l as [|b t IH]; [reflexivity|].
  cbn [rev le]. rewrite be_app1, IH. lia.
Qed.

Lemma be_le_rev l : be l = le (rev l).
Proof. rewrite <- be_rev, rev_involutive. reflexivity. Qed.

Lemma pow256_pos n : 0 < 256 ^ n.
Proof. apply N.neq_0_lt_0, N.pow_nonzero. discriminate. Qed.

Lemma le_bound l : bytes_ok l = true -> le l < 256 ^ lenN l.
Proof.
  induction l as [|b t IH]; intros H.
  - cbn. lia.
  - rewrite bytes_ok_cons in H. apply andb_true_iff in H. destruct H as [Hb Ht].
    unfold byte_ok in Hb. apply N.ltb_lt in Hb. specialize (IH Ht).
    rewrite lenN_cons. cbn [le].
    replace (1 + lenN t) with (N.succ (lenN t)) by lia. rewrite N.pow_succ_r'. lia.
Qed.

Lemma inc_le_length l r : length (inc_le l r) = length l.
Proof.
  revert r. induction l as [|b t IH]; intros r; [reflexivity|].
  cbn [inc_le]. destruct (b + r <? 256); cbn [length]; [reflexivity|]. rewrite IH. reflexivity.
Qed.

Lemma inc_le_bytes_ok l r : bytes_ok l = true -> bytes_ok (inc_le l r) = true.
Proof.
  revert r. induction l as [|b t IH]; intros r H; [reflexivity|].
  rewrite bytes_ok_cons in H. apply andb_true_iff in H. destruct H as [Hb Ht].
  cbn [inc_le]. destruct (b + r <? 256) eqn:E; rewrite bytes_ok_cons.
  - unfold byte_ok. rewrite E. exact Ht.
  - rewrite (IH _ Ht). unfold byte_ok.
    assert ((b + r) mod 256 < 256) by (apply N.mod_lt; discriminate).
    apply N.ltb_lt in H. rewrite H. reflexivity.
Qed.

Lemma inc_le_value l r :
  bytes_ok l = true -> le (inc_le l r) = (le l + r) mod 256 ^ lenN l.
Proof.
  revert r. induction l as [|b t IH]; intros r H.
  - cbn. rewrite N.mod_1_r. reflexivity.
  - pose proof H as H0.
    rewrite bytes_ok_cons in H. apply andb_true_iff in H. destruct H as [Hb Ht].
    unfold byte_ok in Hb. apply N.ltb_lt in Hb.
    pose proof (le_bound t Ht) as Hbd. pose proof (pow256_pos (lenN t)) as Hpos.
    rewrite lenN_cons. replace (1 + lenN t) with (N.succ (lenN t)) by lia. rewrite N.pow_succ_r'.
    cbn [inc_le le]. destruct (b + r <? 256) eqn:E.
    + apply N.ltb_lt in E. cbn [le]. rewrite N.mod_small by nia. lia.
    + apply N.ltb_ge in E. cbn [le]. rewrite (IH _ Ht).
      set (M := 256 ^ lenN t) in *.
      assert (Hs : (b + r) mod 256 < 256) by (apply N.mod_lt; discriminate).
      replace (b + 256 * le t + r) with ((b + r) mod 256 + 256 * (le t + (b + r) / 256)).
      2:{ pose proof (N.div_mod (b + r) 256). lia. }
      generalize dependent ((b + r) mod 256). intros s Hs.
      generalize (le t + (b + r) / 256). intros X.
      rewrite (N.mod_mul_r _ 256 M) by lia.
      replace ((s + 256 * X) mod 256) with s.
      2:{ rewrite (N.mul_comm 256), N.mod_add by discriminate. rewrite N.mod_small by exact Hs. reflexivity. }
      replace ((s + 256 * X) / 256) with X.
      2:{ rewrite (N.mul_comm 256), N.div_add by discriminate. rewrite (N.div_small s 256) by exact Hs. lia. }
      reflexivity.
Qed.

Lemma pow2_8 k : 2 ^ (8 * k) = 256 ^ k.
Proof. rewrite N.pow_mul_r. reflexivity. Qed.

Lemma increment_iv_inplace_length iv n : length (increment_iv_inplace iv n) = length iv.
Proof. unfold increment_iv_inplace. rewrite rev_length, inc_le_length, rev_length. reflexivity. Qed.

Lemma bytes_ok_rev l : bytes_ok (rev l) = bytes_ok l.
Proof.
  induction l as [|b t IH]; [reflexivity|].
  cbn [rev]. rewrite bytes_ok_app, IH, bytes_ok_cons. cbn. rewrite andb_true_r. apply andb_comm.
Qed.

Lemma increment_iv_inplace_bytes_ok iv n :
  bytes_ok iv = true -> bytes_ok (increment_iv_inplace iv n) = true.
Proof.
  intros H. unfold increment_iv_inplace. rewrite bytes_ok_rev. apply inc_le_bytes_ok.
  rewrite bytes_ok_rev. exact H.
Qed.

Lemma iv_increment_inplace iv n :
  bytes_ok iv = true ->
  be (increment_iv_inplace iv n) = (be iv + n) mod 2 ^ (8 * lenN iv).
Proof.
  intros H. unfold increment_iv_inplace. rewrite be_rev, inc_le_value.
  - rewrite <- be_le_rev, pow2_8. unfold lenN. rewrite rev_length. reflexivity.
  - rewrite bytes_ok_rev. exact H.
Qed.

(* number of cipher blocks incrementIV accounts for *)
Lemma iv_increment iv ssps slen :
  bytes_ok iv = true ->
  be (increment_iv iv ssps slen) = (be iv + nr_enc_blocks ssps slen) mod 2 ^ (8 * lenN iv).
Proof. intros H. apply iv_increment_inplace. exact H. Qed.

(* be is injective on byte strings of equal length *)
Lemma le_inj l1 l2 :
  length l1 = length l2 -> bytes_ok l1 = true -> bytes_ok l2 = true -> le l1 = le l2 -> l1 = l2.
Proof.
  revert l2. induction l1 as [|a t IH]; intros [|b u] Hl H1 H2 He; try discriminate; [reflexivity|].
  rewrite bytes_ok_cons in H1, H2. apply andb_true_iff in H1, H2.
  destruct H1 as [Ha Ht], H2 as [Hb Hu]. unfold byte_ok in Ha, Hb. apply N.ltb_lt in Ha, Hb.
  cbn [le] in He. cbn [length] in Hl.
  assert (a = b) by lia. subst b. f_equal. apply IH; try assumption; lia.
Qed.

Lemma be_inj l1 l2 :
  length l1 = length l2 -> bytes_ok l1 = true -> bytes_ok l2 = true -> be l1 = be l2 -> l1 = l2.
Proof.
  intros Hl H1 H2 He. rewrite !be_le_rev in He.
  apply le_inj in He; try (rewrite bytes_ok_rev; assumption); [|rewrite !rev_length; exact Hl].
  rewrite <- (rev_involutive l1), He, rev_involutive. reflexivity.
Qed.
