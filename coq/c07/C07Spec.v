(* C07Spec.v — the naive specifications the C07 model is proved against.
   (1) sample layout: a sample is the concatenation of 4-byte-length-prefixed NAL units;
   (2) the per-byte clear/protected classification the property prescribes;
   (3) the reference AES-CTR keystream (counter block i = IV + i as a 128-bit big-endian integer) and the
       reference "xor the keystream over the protected bytes in order, identity elsewhere". *)
From V.lib Require Import Base.
From V.c07 Require Import C07Model.

Definition rep {A} (x : A) (n : N) : list A := repeat x (N.to_nat n).

(* ---- (1) layout ---- *)
Definition frame (n : list N) : list N := be_bytes4 (lenN n) ++ n.
Definition frames (nalus : list (list N)) : list N := flat_map frame nalus.
Definition nonempty (n : list N) : bool := match n with [] => false | _ => true end.

(* ---- (2) per-byte classification: false = clear, true = protected ---- *)
Definition expand (r : list ssp) : list bool :=
  flat_map (fun p => rep false (ss_clear p) ++ rep true (ss_prot p)) r.

(* cenc: a video NALU of len bytes protects its last prot_cenc len bytes *)
Definition prot_cenc (len : N) : N :=
  if 112 <=? len + 4 then ((len + 4 - 96) / 16) * 16 else 0.

(* p = number of protected bytes at the end of a video NALU *)
Definition nalu_mask (isvideo : N -> bool) (p : list N -> N) (n : list N) : list bool :=
  rep false 4 ++
  match n with
  | b0 :: _ => if isvideo b0 then rep false (lenN n - p n) ++ rep true (p n) else rep false (lenN n)
  | [] => []
  end.

Definition spec_mask (isvideo : N -> bool) (p : list N -> N) (nalus : list (list N)) : list bool :=
  flat_map (nalu_mask isvideo p) nalus.

(* ---- (3) reference CTR ---- *)
(* 16-byte big-endian representation of x mod 2^128 *)
Fixpoint be_bytes (k : nat) (x : N) : list N :=
  match k with
  | O => []
  | S j => be_bytes j (x / 256) ++ [x mod 256]
  end.

Section Ref.
  Variable E : list N -> list N -> list N.

  Definition ref_block (key iv : list N) (i : N) : list N :=
    E key (be_bytes 16 ((be iv + i) mod 2 ^ 128)).

  (* keystream byte number m *)
  Definition ks_byte (key iv : list N) (m : N) : N :=
    nth (N.to_nat (m mod 16)) (ref_block key iv (m / 16)) 0.

  (* keystream bytes m, m+1, ..., m+k-1 *)
  Definition ks_seg (key iv : list N) (m : N) (k : nat) : list N :=
    map (fun j => ks_byte key iv (m + N.of_nat j)) (seq 0 k).

  (* walk the sub-sample map over the rest of the sample; m = keystream bytes consumed so far *)
  Fixpoint ref_walk (key iv : list N) (m : N) (ranges : list ssp) (rest : list N) : list N :=
    match ranges with
    | [] => rest
    | r :: t =>
        let c := N.to_nat (ss_clear r) in
        let p := N.to_nat (ss_prot r) in
        firstn c rest ++
        xorl (firstn p (skipn c rest)) (ks_seg key iv m p) ++
        ref_walk key iv (m + ss_prot r) t (skipn p (skipn c rest))
    end.

  Definition ref_cenc (key iv : list N) (ranges : list ssp) (sample : list N) : list N :=
    match ranges with
    | [] => xorl sample (ks_seg key iv 0 (length sample))
    | _ => ref_walk key iv 0 ranges sample
    end.
End Ref.

(* ---- (4) reference CBC over the crypt:skip block pattern (cbcs) ---- *)
Section RefCbcs.
  Variable E : list N -> list N -> list N.
  Variable D : list N -> list N -> list N.

  (* plain CBC over whole blocks, returning the output and the last chaining value *)
  Definition cbc (dec : bool) (key prev seg : list N) : list N * list N :=
    (if dec then cbc_dec D else cbc_enc E) (S (length seg)) key prev seg.

  (* one protected range: nc bytes CBC-crypted (chained over the crypted blocks only), ns bytes skipped,
     repeated while a whole crypt group fits; a trailing partial group stays clear *)
  Fixpoint ref_pattern (fuel : nat) (dec : bool) (key prev rest : list N) (nc ns : N) : list N :=
    match fuel with
    | O => rest
    | S f =>
        if nc <=? lenN rest then
          let '(o, prev') := cbc dec key prev (firstn (N.to_nat nc) rest) in
          if lenN rest - nc <? ns then o ++ skipn (N.to_nat nc) rest
          else o ++ firstn (N.to_nat ns) (skipn (N.to_nat nc) rest) ++
               ref_pattern f dec key prev' (skipn (N.to_nat ns) (skipn (N.to_nat nc) rest)) nc ns
        else rest
    end.

  (* ns = 0 (audio): every whole block, no pattern *)
  Definition ref_cbcs_range (dec : bool) (key iv data : list N) (nc ns : N) : list N :=
    if ns =? 0 then
      let n16 := N.to_nat ((lenN data / 16) * 16) in
      fst (cbc dec key iv (firstn n16 data)) ++ skipn n16 data
    else ref_pattern (S (length data)) dec key iv data nc ns.

  (* the sub-sample map: the constant IV restarts in every protected range, clear bytes are copied *)
  Fixpoint ref_cbcs_walk (dec : bool) (key iv : list N) (ranges : list ssp) (rest : list N) (nc ns : N)
    : list N :=
    match ranges with
    | [] => rest
    | r :: t =>
        let c := N.to_nat (ss_clear r) in
        let p := N.to_nat (ss_prot r) in
        firstn c rest ++
        (if 0 <? ss_prot r then ref_cbcs_range dec key iv (firstn p (skipn c rest)) nc ns
         else firstn p (skipn c rest)) ++
        ref_cbcs_walk dec key iv t (skipn p (skipn c rest)) nc ns
    end.

  Definition ref_cbcs (dec : bool) (key iv : list N) (ranges : list ssp) (cb sb : N) (sample : list N)
    : list N :=
    match ranges with
    | [] => ref_cbcs_range dec key iv sample (cb * 16) (sb * 16)
    | _ => ref_cbcs_walk dec key iv ranges sample (cb * 16) (sb * 16)
    end.
End RefCbcs.
