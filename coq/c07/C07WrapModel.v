(* C07WrapModel.v — Get(AVC|HEVC)ProtectRanges as they read SINCE /repo 2ef93b3: the bounds check of a NAL unit adds
   position and length in 64 bits (`uint64(pos)+uint64(naluLength) > uint64(length)`), so a length field near 2^32
   can no longer wrap around to a position inside the sample.  C07Model.pr_step / protect_ranges_r keep the text
   before it (`int(pos+naluLength) > len(sample)` with the uint32 sum), because coq/c06 imports C07Model; the two
   are related in C07WrapProofs.v (equal on every concatenation of NAL units, and the new text refuses wherever they
   differ).  Definitions only. *)
From V.lib Require Import Base.
From V.c07 Require Import C07Model C07CodecModel.

Section RangesW.
  Variable isvideo : N -> bool.
  Variable hdr : list N -> res N.
  Variable sch : scheme.

  (* one iteration of `for pos < uint32(length-4)`; pos, naluLength are uint32, their sum in the check is uint64 *)
  Definition pr_step_w (sample : list N) (pos cs ce : N) (ssps : list ssp)
    : res (N * N * N * list ssp) :=
    do lenbytes <- slice sample pos (u32 (pos + 4));
    let naluLength := be lenbytes in
    let pos := u32 (pos + 4) in
    if lenN sample <? pos + naluLength then Err else
    do b0 <- idx sample pos;
    let ce := u32 (pos + naluLength) in
    do cb <- (if isvideo b0 then
                do nalu <- slice sample pos (u32 (pos + naluLength));
                match sch with
                | Cenc =>
                    if 112 <=? u32 (naluLength + 4) then
                      let btp := N.land (sub32 (u32 (naluLength + 4)) 96) 4294967280 in
                      Ok (if 0 <? btp then sub32 ce btp else ce, btp)
                    else Ok (ce, 0)
                | Cbcs =>
                    do h <- hdr nalu;
                    let chs := u32 h in
                    Ok (u32 (pos + chs), sub32 naluLength chs)
                | SchemeOther => Err
                end
              else Ok (ce, 0));
    let '(ce, btp) := cb in
    do st <- (if 0 <? btp then
                do ssps' <- append_protect_range ssps (sub32 ce cs) btp;
                let cs' := u32 (ce + btp) in
                Ok (cs', cs', ssps')
              else Ok (cs, ce, ssps));
    let '(cs, ce, ssps) := st in
    Ok (u32 (pos + naluLength), cs, ce, ssps).

  Fixpoint pr_loop_w (fuel : nat) (sample : list N) (pos cs ce : N) (ssps : list ssp) : res (list ssp) :=
    match fuel with
    | O => OutOfFuel
    | S f =>
        if pos <? u32 (lenN sample - 4) then
          do st <- pr_step_w sample pos cs ce ssps;
          let '(pos, cs, ce, ssps) := st in
          pr_loop_w f sample pos cs ce ssps
        else
          let ce := u32 (lenN sample) in
          if cs <? ce then append_protect_range ssps (sub32 ce cs) 0
          else Ok ssps
    end.

  (* func Get(AVC|HEVC)ProtectRanges(spsMap, ppsMap, sample, scheme), CURRENT text (2ef93b3).  Fuel: every iteration
     advances pos by at least 4 (proved: C07WrapProofs.protect_ranges_w_terminates, C07_ranges_terminate) *)
  Definition protect_ranges_w (sample : list N) : res (list ssp) :=
    if lenN sample <? 4 then Err else pr_loop_w (S (length sample)) sample 0 0 0 [].
End RangesW.

Definition avc_protect_ranges_w spsmap ppsmap (sch : scheme) (sample : list N) : res (list ssp) :=
  protect_ranges_w avc_is_video (avc_hdr spsmap ppsmap) sch sample.

Definition hevc_protect_ranges_w spsmap ppsmap (sch : scheme) (sample : list N) : res (list ssp) :=
  protect_ranges_w hevc_is_video (hevc_hdr spsmap ppsmap) sch sample.

(* getAVCProtFunc / getHEVCProtFunc over the current text *)
Definition avc_prot_func_w (spss ppss : list (list N)) (sch : scheme) : res (list N -> res (list ssp)) :=
  do m <- avc_ps_maps spss ppss;
  Ok (avc_protect_ranges_w (fst m) (snd m) sch).

Definition hevc_prot_func_w (spss ppss : list (list N)) (sch : scheme) (sample : list N) : res (list ssp) :=
  do m <- hevc_ps_maps spss ppss;
  hevc_protect_ranges_w (fst m) (snd m) sch sample.
