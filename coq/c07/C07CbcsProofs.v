(* C07CbcsProofs.v — cbcsCrypt / cryptSampleCbcs equal the reference CBC over the crypt:skip pattern with the
   constant IV restarted in every protected range, identity elsewhere. *)
From V.lib Require Import Base.
From V.c07 Require Import C07Model C07Spec C07RangeProofs C07CryptProofs.

Lemma lenN_firstn_le {A} (l : list A) n : n <= lenN l -> lenN (firstn (N.to_nat n) l) = n.
Proof. intros H. unfold lenN in *. rewrite firstn_length. lia. Qed.

Lemma lenN_skipn_sub {A} (l : list A) n : lenN (skipn (N.to_nat n) l) = lenN l - n.
Proof. unfold lenN. rewrite skipn_length. lia. Qed.

Lemma splice_at pre mid post o :
  length o = length mid ->
  splice (pre ++ mid ++ post) (lenN pre) o = pre ++ o ++ post.
Proof.
  intros Hl. unfold splice. rewrite firstn_lenN_app. f_equal. f_equal.
  unfold lenN. rewrite Nat2N.id, Hl, skipn_app, skipn_all2 by lia.
  replace (length pre + length mid - length pre)%nat with (length mid) by lia.
  rewrite skipn_app, skipn_all, Nat.sub_diag. reflexivity.
Qed.

Section Cbcs.
  Variable E : list N -> list N -> list N.
  Variable D : list N -> list N -> list N.
  Variable key : list N.
  Hypothesis HE : forall k b, length (E k b) = 16%nat.
  Hypothesis HD : forall k b, length (D k b) = 16%nat.

  Lemma xorl_length16 a b : length a = 16%nat -> length b = 16%nat -> length (xorl a b) = 16%nat.
  Proof. intros Ha Hb. rewrite xorl_length by lia. exact Ha. Qed.

  Lemma cbc_x_length (dec : bool) : forall fuel m prev data,
    length prev = 16%nat -> length data = (16 * m)%nat -> (m < fuel)%nat ->
    length (fst ((if dec then cbc_dec D else cbc_enc E) fuel key prev data)) = length data /\
    length (snd ((if dec then cbc_dec D else cbc_enc E) fuel key prev data)) = 16%nat.
  Proof.
    induction fuel as [|f IH]; intros m prev data Hp Hd Hm; [lia|].
    destruct data as [|x t].
    - destruct dec; cbn; split; try reflexivity; exact Hp.
    - destruct m as [|m]; [cbn in Hd; lia|].
      assert (H16 : length (firstn 16 (x :: t)) = 16%nat) by (rewrite firstn_length; lia).
      assert (Hsk : length (skipn 16 (x :: t)) = (16 * m)%nat) by (rewrite skipn_length; lia).
      destruct dec.
      + cbn [cbc_dec].
        destruct (IH m (firstn 16 (x :: t)) (skipn 16 (x :: t)) H16 Hsk ltac:(lia)) as [I1 I2].
        cbn beta iota in I1, I2.
        destruct (cbc_dec D f key (firstn 16 (x :: t)) (skipn 16 (x :: t))) as [o pv]. cbn [fst snd] in *.
        split; [|exact I2]. rewrite app_length, I1, xorl_length16, Hsk by (try apply HD; assumption). lia.
      + cbn [cbc_enc].
        set (c := E key (xorl (firstn 16 (x :: t)) prev)).
        destruct (IH m c (skipn 16 (x :: t)) (HE _ _) Hsk ltac:(lia)) as [I1 I2].
        cbn beta iota in I1, I2.
        destruct (cbc_enc E f key c (skipn 16 (x :: t))) as [o pv]. cbn [fst snd] in *.
        split; [|exact I2]. rewrite app_length, I1, Hsk. unfold c. rewrite HE. lia.
  Qed.

  Lemma cbc_length dec prev seg m :
    length prev = 16%nat -> length seg = (16 * m)%nat ->
    length (fst (cbc E D dec key prev seg)) = length seg /\ length (snd (cbc E D dec key prev seg)) = 16%nat.
  Proof. intros Hp Hs. unfold cbc. apply (cbc_x_length dec (S (length seg)) m); [exact Hp|exact Hs|lia]. Qed.

  Lemma crypt_blocks_cbc dec prev seg :
    lenN seg mod 16 = 0 -> crypt_blocks E D dec key prev seg = Ok (cbc E D dec key prev seg).
  Proof.
    intros H. unfold crypt_blocks, cbc. apply N.eqb_eq in H. rewrite H. cbn [negb].
    destruct dec; reflexivity.
  Qed.

  Lemma mult16 n : n mod 16 = 0 -> exists m, N.to_nat n = (16 * m)%nat.
  Proof. intros H. exists (N.to_nat (n / 16)). pose proof (N.div_mod n 16). lia. Qed.

  (* the pattern loop over one protected range *)
  Lemma cbcs_loop_ref dec nc ns : nc mod 16 = 0 -> 1 <= ns ->
    forall fuel pre rest prev,
    length prev = 16%nat -> (length rest < fuel)%nat ->
    cbcs_loop E D fuel dec key prev (pre ++ rest) (lenN pre) nc ns
    = Ok (pre ++ ref_pattern E D fuel dec key prev rest nc ns).
  Proof.
    intros Hnc Hns. induction fuel as [|f IH]; intros pre rest prev Hp Hf; [lia|].
    cbn [cbcs_loop ref_pattern]. rewrite lenN_app.
    replace (lenN pre + lenN rest - lenN pre) with (lenN rest) by lia.
    destruct (nc <=? lenN rest) eqn:Ec; [|reflexivity]. apply N.leb_le in Ec.
    set (seg := firstn (N.to_nat nc) rest). set (rest2 := skipn (N.to_nat nc) rest).
    assert (Hsplit : rest = seg ++ rest2) by (symmetry; apply firstn_skipn).
    assert (Hseg : lenN seg = nc) by (apply lenN_firstn_le; exact Ec).
    assert (Hr2 : lenN rest2 = lenN rest - nc) by apply lenN_skipn_sub.
    rewrite (slice_eq (pre ++ rest) pre seg rest2 (lenN pre) (lenN pre + nc)); [| rewrite Hsplit at 1; reflexivity | reflexivity | lia].
    cbn [rbind]. rewrite crypt_blocks_cbc by (rewrite Hseg; exact Hnc). cbn [rbind].
    destruct (mult16 nc Hnc) as (m & Hm).
    assert (Hsegl : length seg = (16 * m)%nat) by (unfold lenN in Hseg; lia).
    destruct (cbc_length dec prev seg m Hp Hsegl) as [Lo Lp].
    destruct (cbc E D dec key prev seg) as [o prev'] eqn:Ecbc. cbn [fst snd] in Lo, Lp.
    assert (Hsp : splice (pre ++ rest) (lenN pre) o = pre ++ o ++ rest2).
    { rewrite Hsplit at 1. apply splice_at. exact Lo. }
    rewrite Hsp.
    replace (lenN pre + lenN rest - (lenN pre + nc)) with (lenN rest - nc) by lia.
    destruct (lenN rest - nc <? ns) eqn:Es; [reflexivity|]. apply N.ltb_ge in Es.
    set (mid := firstn (N.to_nat ns) rest2). set (rest3 := skipn (N.to_nat ns) rest2).
    assert (Hmid : lenN mid = ns) by (apply lenN_firstn_le; lia).
    assert (Hlo : lenN o = nc) by (unfold lenN in *; lia).
    replace (pre ++ o ++ rest2) with ((pre ++ o ++ mid) ++ rest3)
      by (rewrite <- !app_assoc; unfold mid, rest3; rewrite firstn_skipn; reflexivity).
    replace (lenN pre + nc + ns) with (lenN (pre ++ o ++ mid)) by (rewrite !lenN_app; lia).
    rewrite IH; [rewrite <- !app_assoc; reflexivity|exact Lp|].
    unfold rest3, rest2. rewrite !skipn_length. unfold lenN in *. lia.
  Qed.

  Lemma ref_pattern_length dec nc ns : nc mod 16 = 0 ->
    forall fuel prev data, length prev = 16%nat ->
    length (ref_pattern E D fuel dec key prev data nc ns) = length data.
  Proof.
    intros Hnc. induction fuel as [|f IH]; intros iv data Hiv; [reflexivity|].
    cbn [ref_pattern]. destruct (nc <=? lenN data) eqn:Ec; [|reflexivity]. apply N.leb_le in Ec.
    destruct (mult16 nc Hnc) as (m & Hm).
    assert (Hsegl : length (firstn (N.to_nat nc) data) = (16 * m)%nat)
      by (rewrite firstn_length; unfold lenN in *; lia).
    destruct (cbc_length dec iv _ m Hiv Hsegl) as [Lo Lp].
    destruct (cbc E D dec key iv (firstn (N.to_nat nc) data)) as [o prev']. cbn [fst snd] in *.
    destruct (lenN data - nc <? ns) eqn:Es.
    - rewrite app_length, Lo, firstn_length, skipn_length. lia.
    - apply N.ltb_ge in Es. rewrite !app_length, Lo, IH by exact Lp.
      rewrite !firstn_length, !skipn_length. unfold lenN in *. lia.
  Qed.

  (* func cbcsCrypt on one range *)
  Lemma cbcs_crypt_ref dec iv data nc ns :
    key_ok key = true -> length iv = 16%nat -> nc mod 16 = 0 ->
    cbcs_crypt E D dec data key iv nc ns = Ok (ref_cbcs_range E D dec key iv data nc ns).
  Proof.
    intros Hk Hiv Hnc. unfold cbcs_crypt, ref_cbcs_range. rewrite Hk. cbn [negb].
    assert (Hl : (lenN iv =? 16) = true) by (apply N.eqb_eq; unfold lenN; rewrite Hiv; reflexivity).
    rewrite Hl. cbn [negb]. destruct (ns =? 0) eqn:Ens.
    - set (n16 := lenN data / 16 * 16).
      assert (Hle : n16 <= lenN data) by (unfold n16; lia).
      set (seg := firstn (N.to_nat n16) data). set (tl := skipn (N.to_nat n16) data).
      assert (Hsplit : data = [] ++ seg ++ tl) by (symmetry; apply firstn_skipn).
      assert (Hseg : lenN seg = n16) by (apply lenN_firstn_le; exact Hle).
      rewrite (slice_eq data [] seg tl 0 n16 Hsplit) by (change (lenN (@nil N)) with 0; lia).
      cbn [rbind]. rewrite crypt_blocks_cbc by (rewrite Hseg; unfold n16; apply N.mod_mul; discriminate).
      cbn [rbind].
      destruct (mult16 n16 ltac:(unfold n16; apply N.mod_mul; discriminate)) as (m & Hm).
      assert (Hsegl : length seg = (16 * m)%nat) by (unfold lenN in Hseg; lia).
      destruct (cbc_length dec iv seg m Hiv Hsegl) as [Lo _].
      change 0 with (lenN (@nil N)). rewrite Hsplit at 1. rewrite splice_at by exact Lo. reflexivity.
    - apply N.eqb_neq in Ens.
      apply (cbcs_loop_ref dec nc ns Hnc ltac:(lia) (S (length data)) [] data iv Hiv). lia.
  Qed.

  Lemma ref_cbcs_range_length dec iv data nc ns :
    length iv = 16%nat -> nc mod 16 = 0 ->
    length (ref_cbcs_range E D dec key iv data nc ns) = length data.
  Proof.
    intros Hiv Hnc. unfold ref_cbcs_range. destruct (ns =? 0).
    - set (n16 := lenN data / 16 * 16).
      assert (Hle : n16 <= lenN data) by (unfold n16; lia).
      destruct (mult16 n16 ltac:(unfold n16; apply N.mod_mul; discriminate)) as (m & Hm).
      assert (Hsegl : length (firstn (N.to_nat n16) data) = (16 * m)%nat)
        by (rewrite firstn_length; unfold lenN in *; lia).
      destruct (cbc_length dec iv _ m Hiv Hsegl) as [Lo _].
      rewrite app_length, Lo, firstn_length, skipn_length. lia.
    - generalize (S (length data)). intros fuel. revert iv data Hiv.
      induction fuel as [|f IH]; intros iv data Hiv; [reflexivity|].
      cbn [ref_pattern]. destruct (nc <=? lenN data) eqn:Ec; [|reflexivity]. apply N.leb_le in Ec.
      destruct (mult16 nc Hnc) as (m & Hm).
      assert (Hsegl : length (firstn (N.to_nat nc) data) = (16 * m)%nat)
        by (rewrite firstn_length; unfold lenN in *; lia).
      destruct (cbc_length dec iv _ m Hiv Hsegl) as [Lo Lp].
      destruct (cbc E D dec key iv (firstn (N.to_nat nc) data)) as [o prev']. cbn [fst snd] in *.
      destruct (lenN data - nc <? ns) eqn:Es.
      + rewrite app_length, Lo, firstn_length, skipn_length. lia.
      + apply N.ltb_ge in Es. rewrite !app_length, Lo, IH by exact Lp.
        rewrite !firstn_length, !skipn_length. unfold lenN in *. lia.
  Qed.

  (* the sub-sample loop of cryptSampleCbcs *)
  Lemma cbcs_sub_loop_ref dec iv nc ns :
    key_ok key = true -> length iv = 16%nat -> nc mod 16 = 0 ->
    forall ssps pos sample done rest,
    sample = done ++ rest -> pos = lenN done ->
    sumN (map (fun p => ss_clear p + ss_prot p) ssps) <= lenN rest ->
    lenN sample < 4294967296 ->
    cbcs_sub_loop E D dec key iv ssps pos sample nc ns
    = Ok (done ++ ref_cbcs_walk E D dec key iv ssps rest nc ns).
  Proof.
    intros Hk Hiv Hnc. induction ssps as [|ss t IH]; intros pos sample done rest Hs Hp Hsum Hlen.
    - cbn [cbcs_sub_loop ref_cbcs_walk]. rewrite Hs. reflexivity.
    - cbn [map sumN] in Hsum. cbn [cbcs_sub_loop ref_cbcs_walk].
      set (c := ss_clear ss) in *. set (p := ss_prot ss) in *.
      assert (Hlr : lenN sample = lenN done + lenN rest) by (rewrite Hs; apply lenN_app).
      rewrite (u32_small (pos + c)) by lia.
      assert (Hsplit : rest = firstn (N.to_nat c) rest ++ firstn (N.to_nat p) (skipn (N.to_nat c) rest)
                            ++ skipn (N.to_nat p) (skipn (N.to_nat c) rest)).
      { rewrite firstn_skipn, firstn_skipn. reflexivity. }
      set (r1 := firstn (N.to_nat c) rest) in *.
      set (mid := firstn (N.to_nat p) (skipn (N.to_nat c) rest)) in *.
      set (post := skipn (N.to_nat p) (skipn (N.to_nat c) rest)) in *.
      assert (Hr1 : lenN r1 = c) by (apply lenN_firstn_le; lia).
      assert (Hmid : lenN mid = p) by (unfold mid; apply lenN_firstn_le; rewrite lenN_skipn_sub; lia).
      assert (Hs' : sample = (done ++ r1) ++ mid ++ post).
      { rewrite Hs, Hsplit at 1. rewrite <- app_assoc. reflexivity. }
      assert (Hd1 : lenN (done ++ r1) = pos + c) by (rewrite lenN_app; lia).
      rewrite (u32_small (pos + c + p)) by lia.
      destruct (0 <? p) eqn:Ep.
      + rewrite (slice_eq sample (done ++ r1) mid post (pos + c) (pos + c + p) Hs') by lia.
        cbn [rbind]. rewrite cbcs_crypt_ref by assumption. cbn [rbind].
        set (o := ref_cbcs_range E D dec key iv mid nc ns).
        assert (Hol : length o = length mid) by (apply ref_cbcs_range_length; assumption).
        assert (Hsp : splice sample (pos + c) o = (done ++ r1) ++ o ++ post).
        { rewrite Hs' at 1. rewrite <- Hd1. apply splice_at. exact Hol. }
        rewrite Hsp.
        rewrite (IH (pos + c + p) ((done ++ r1) ++ o ++ post) ((done ++ r1) ++ o) post).
        * rewrite <- !app_assoc. reflexivity.
        * rewrite <- !app_assoc. reflexivity.
        * rewrite !lenN_app in *. unfold lenN at 3. rewrite Hol. fold (lenN mid). lia.
        * unfold post. rewrite !lenN_skipn_sub. lia.
        * rewrite !lenN_app in *. unfold lenN at 3. rewrite Hol. fold (lenN mid).
          unfold post. rewrite !lenN_skipn_sub. lia.
      + cbn [rbind].
        rewrite (IH (pos + c + p) sample ((done ++ r1) ++ mid) post).
        * rewrite <- !app_assoc. reflexivity.
        * rewrite Hs'. rewrite <- !app_assoc. reflexivity.
        * rewrite lenN_app. lia.
        * unfold post. rewrite !lenN_skipn_sub. lia.
        * exact Hlen.
  Qed.

  Lemma crypt_sample_cbcs_ref dec iv ssps cb sb sample :
    key_ok key = true -> length iv = 16%nat ->
    sumN (map (fun p => ss_clear p + ss_prot p) ssps) <= lenN sample ->
    lenN sample < 4294967296 ->
    crypt_sample_cbcs E D dec key iv ssps cb sb sample = Ok (ref_cbcs E D dec key iv ssps cb sb sample).
  Proof.
    intros Hk Hiv Hsum Hlen. unfold crypt_sample_cbcs, ref_cbcs.
    assert (Hnc : (cb * 16) mod 16 = 0) by (apply N.mod_mul; discriminate).
    destruct ssps as [|ss t].
    - apply cbcs_crypt_ref; assumption.
    - apply (cbcs_sub_loop_ref dec iv (cb * 16) (sb * 16) Hk Hiv Hnc (ss :: t) 0 sample [] sample);
        try reflexivity; assumption.
  Qed.
End Cbcs.
