(* C07TrafProofs.v — EncryptFragment over the bytes of a fragment:
   (d) it changes nothing but the protected byte ranges of the mdat payload and appends exactly saiz, saio, senc
       to the traf;
   (b) in the bytes of the written moof, saio.offset[0] addresses the first per-sample entry of senc, and walking
       the saiz sizes from there enumerates exactly the entries the senc box carries (composition with the senc
       byte model of C06: senc_encode, saiz_encode, C06 aux_consistent / saio_points_at_entries). *)
From V.lib Require Import Base.
From V.c07 Require Import C07Model C07Spec C07IvProofs C07RangeProofs C07CryptProofs C07AuxProofs C07OnlyProofs C07TrafModel.
From V.c06 Require Import C06SencModel C06SencProofs C06SencAuxProofs.

Lemma aux_walk_concat : forall es tail, aux_walk (map (fun e => lenN e) es) (concat es ++ tail) = (es, tail).
Proof.
  induction es as [|e t IH]; intros tail; [reflexivity|].
  cbn [map aux_walk concat]. rewrite <- app_assoc.
  rewrite skipn_lenN_app, firstn_lenN_app, IH. reflexivity.
Qed.

Lemma saio_encode_len off : lenN (saio_encode off) = 20.
Proof. reflexivity. Qed.

Lemma saio_field off : saio_offset_field (saio_encode off) = u32 off.
Proof.
  unfold saio_offset_field, saio_encode. cbn [be_bytes4 app skipn firstn].
  change [u8 (u32 off / 16777216); u8 (u32 off / 65536); u8 (u32 off / 256); u8 (u32 off)] with (be_bytes4 (u32 off)).
  apply be_bytes4_be. unfold u32. apply N.mod_lt. discriminate.
Qed.

Lemma box_hdr_len cc p : length cc = 4%nat -> length (box_hdr cc p) = 8%nat.
Proof. intros H. unfold box_hdr. rewrite app_length, H. reflexivity. Qed.

(* the senc box of a non-empty fragment with per-sample data: 16 bytes (size, 'senc', version/flags, sample_count)
   followed by the per-sample entries *)
Lemma senc_encode_shape ivsz sub encs box :
  encs <> [] -> sub || (0 <? ivsz) = true -> uniform ivsz sub encs = true ->
  senc_encode (senc_after ivsz sub encs) = Ok box ->
  exists hdr16, length hdr16 = 16%nat /\ box = hdr16 ++ concat (entries_of ivsz sub encs).
Proof.
  intros Hne Hdata Hu H. unfold senc_encode in H.
  destruct (senc_calc_size (senc_after ivsz sub encs)) as [size| | |]; try discriminate. cbn [rbind] in H.
  assert (Hiv : sn_ivsize (senc_after ivsz sub encs) = ivsz) by (destruct encs; [congruence|reflexivity]).
  assert (Hsub : sn_subs (senc_after ivsz sub encs) = sub).
  { unfold senc_after. cbn [sn_subs]. destruct encs; [congruence|]. apply andb_true_r. }
  rewrite Hiv, Hsub in H.
  assert (Htriv : (ivsz =? 0) && negb sub = false).
  { destruct sub; [apply andb_false_r|]. cbn [orb] in Hdata. apply N.ltb_lt in Hdata.
    assert (E0 : ivsz =? 0 = false) by (apply N.eqb_neq; lia). rewrite E0. reflexivity. }
  rewrite Htriv in H.
  assert (Hcount : N.to_nat (sn_count (senc_after ivsz sub encs)) = length encs).
  { unfold senc_after. cbn [sn_count]. unfold lenN. lia. }
  rewrite Hcount in H.
  rewrite (entries_spec (senc_after ivsz sub encs) (length encs) 0 (map e_iv encs) (map e_ssps encs)) in H.
  - rewrite Hiv, Hsub, zip_entries_map in H. cbn [rbind] in H.
    match type of H with (if ?c then _ else _) = _ => destruct c end; [discriminate|].
    inversion H. clear H.
    exists (be_bytes4 size ++ cc_senc_bytes ++ [0; 0; 0; if sub then 2 else 0] ++
            be_bytes4 (sn_count (senc_after ivsz sub encs))).
    split; [reflexivity|]. unfold entries_of. rewrite <- !app_assoc. reflexivity.
  - rewrite Hiv. intros Hpos. unfold senc_after. cbn [sn_ivs skipn].
    apply N.ltb_lt in Hpos. assert (E0 : ivsz =? 0 = false) by (apply N.eqb_neq; lia). rewrite E0.
    split; [reflexivity|apply map_length].
  - rewrite Hsub. intros ->. unfold senc_after. cbn [sn_ss skipn]. split; [reflexivity|apply map_length].
Qed.

Section Traf.
  Variable E : list N -> list N -> list N.
  Variable D : list N -> list N -> list N.
  Variable protfunc : list N -> res (list ssp).
  Hypothesis HE : forall k b, length (E k b) = 16%nat.
  Hypothesis HD : forall k b, length (D k b) = 16%nat.

  Definition is_box (cc : list N) (b : list N) : Prop := firstn 4 (skipn 4 b) = cc.

  (* (d) *)
  Lemma encrypt_fragment_only sch key iv cb sb f g :
    (forall s r, protfunc s = Ok r -> covered r <= lenN s) ->
    key_ok key = true -> bytes_ok iv = true ->
    Forall (fun s => lenN s < 4294967296) (bf_samples f) ->
    encrypt_fragment_bytes E D protfunc sch key iv cb sb f = Ok g ->
    bf_before g = bf_before f /\ bf_after g = bf_after f /\
    (exists saizb saiob sencb,
        bf_traf g = bf_traf f ++ [saizb; saiob; sencb] /\
        is_box [115; 97; 105; 122] saizb /\ is_box [115; 97; 105; 111] saiob /\ is_box [115; 101; 110; 99] sencb) /\
    (exists encs,
        bf_samples g = map e_data encs /\
        Forall2 (fun s e => protfunc s = Ok (e_ssps e) /\ length (e_data e) = length s) (bf_samples f) encs /\
        keep_clear (concat (map (fun e => sample_mask (e_ssps e) (lenN (e_data e))) encs))
                   (mdat_payload f) (mdat_payload g)).
  Proof.
    intros Hprot Hk Hb Hf H. unfold encrypt_fragment_bytes in H.
    destruct (negb (lenN (pad_iv iv) =? 16)) eqn:E16; [discriminate|].
    apply negb_false_iff, N.eqb_eq in E16.
    assert (Hl16 : length (pad_iv iv) = 16%nat) by (unfold lenN in E16; lia).
    assert (Hb16 : bytes_ok (pad_iv iv) = true).
    { unfold pad_iv. destruct (lenN iv =? 8); [|exact Hb]. rewrite bytes_ok_app, Hb. reflexivity. }
    destruct (encrypt_samples E D protfunc sch key (pad_iv iv) cb sb (bf_samples f)) as [encs| | |] eqn:Eenc;
      try discriminate. cbn [rbind] in H.
    destruct (saiz_of saiz_empty encs) as [z| | |]; try discriminate. cbn [rbind] in H.
    destruct (senc_of senc_empty encs) as [s| | |]; try discriminate. cbn [rbind] in H.
    destruct (saiz_encode z) as [saizb| | |] eqn:Ez; try discriminate. cbn [rbind] in H.
    destruct (senc_encode s) as [sencb| | |] eqn:Es; try discriminate. cbn [rbind] in H.
    inversion H; subst g; clear H. cbn [bf_before bf_after bf_traf bf_samples].
    split; [reflexivity|]. split; [reflexivity|]. split.
    - eexists. eexists. eexists. split; [reflexivity|].
      split; [|split].
      + unfold saiz_encode in Ez. destruct (if sz_default z =? 0 then _ else _) as [info| | |]; try discriminate.
        cbn [rbind] in Ez. inversion Ez. reflexivity.
      + reflexivity.
      + unfold senc_encode in Es. destruct (senc_calc_size s) as [size| | |]; try discriminate. cbn [rbind] in Es.
        destruct (if (sn_ivsize s =? 0) && negb (sn_subs s) then _ else _) as [en| | |]; try discriminate.
        cbn [rbind] in Es. match type of Es with (if ?c then _ else _) = _ => destruct c end; [discriminate|].
        inversion Es. reflexivity.
    - exists encs. split; [reflexivity|]. unfold mdat_payload. cbn [bf_samples].
      destruct sch; cbn [encrypt_samples] in Eenc; try discriminate.
      + destruct (cenc_frag_keeps E HE protfunc Hprot key (bf_samples f) (pad_iv iv) encs Hl16 Hb16 Hk Hf Eenc) as [K F2].
        split; assumption.
      + destruct (cbcs_frag_keeps E D HE HD protfunc Hprot key (pad_iv iv) cb sb (bf_samples f) encs Hl16 Hk Hf Eenc) as [K F2].
        split; assumption.
  Qed.

End Traf.

Section Aux.
  Variable E : list N -> list N -> list N.
  Variable D : list N -> list N -> list N.
  Variable protfunc : list N -> res (list ssp).

  (* (b) *)
  Lemma aux_traf sch key iv cb sb f g sub :
    encrypt_fragment_bytes E D protfunc sch key iv cb sb f = Ok g ->
    prot_uniform protfunc sub (bf_samples f) -> bf_samples f <> [] ->
    let ivsz := match sch with Cenc => 16 | _ => 0 end in
    sub || (0 <? ivsz) = true ->
    (forall encs, encrypt_samples E D protfunc sch key (pad_iv iv) cb sb (bf_samples f) = Ok encs ->
                  forallb (fun e => lenN e <? 256) (entries_of ivsz sub encs) = true) ->
    exists encs z saizb off sencb,
      encrypt_samples E D protfunc sch key (pad_iv iv) cb sb (bf_samples f) = Ok encs /\
      saiz_of saiz_empty encs = Ok z /\ saiz_encode z = Ok saizb /\
      bf_traf g = bf_traf f ++ [saizb; saio_encode off; sencb] /\
      saio_offset_field (saio_encode off) = u32 off /\
      aux_walk (saiz_sizes z) (skipn (N.to_nat off) (moof_bytes g))
      = (entries_of ivsz sub encs, concat (bf_after f)) /\
      concat (entries_of ivsz sub encs) ++ concat (bf_after f) = skipn (N.to_nat off) (moof_bytes g) /\
      sz_count z = lenN encs.
  Proof.
    intros H Hu Hne ivsz Hdata Hsmall. unfold encrypt_fragment_bytes in H.
    destruct (negb (lenN (pad_iv iv) =? 16)) eqn:E16; [discriminate|].
    apply negb_false_iff, N.eqb_eq in E16.
    assert (Hl16 : length (pad_iv iv) = 16%nat) by (unfold lenN in E16; lia).
    destruct (encrypt_samples E D protfunc sch key (pad_iv iv) cb sb (bf_samples f)) as [encs| | |] eqn:Eenc;
      try discriminate. cbn [rbind] in H.
    specialize (Hsmall encs eq_refl).
    destruct (saiz_of saiz_empty encs) as [z| | |] eqn:Ez0; try discriminate. cbn [rbind] in H.
    destruct (senc_of senc_empty encs) as [s| | |] eqn:Es0; try discriminate. cbn [rbind] in H.
    destruct (saiz_encode z) as [saizb| | |] eqn:Ez; try discriminate. cbn [rbind] in H.
    destruct (senc_encode s) as [sencb| | |] eqn:Es; try discriminate. cbn [rbind] in H.
    inversion H; subst g; clear H.
    (* uniformity of the loop *)
    assert (HU : uniform ivsz sub encs = true /\ length encs = length (bf_samples f)).
    { destruct sch; cbn [encrypt_samples] in Eenc; try discriminate.
      - apply (cenc_loop_uniform E protfunc sub (bf_samples f) key (pad_iv iv) encs Hl16 Hu Eenc).
      - apply (cbcs_loop_uniform E D protfunc sub (bf_samples f) key (pad_iv iv) cb sb encs Hu Eenc). }
    destruct HU as [HU HL].
    assert (Hne' : encs <> []).
    { intros ->. destruct (bf_samples f); [congruence|discriminate]. }
    assert (Hsz : ivsz = 0 \/ ivsz = 8 \/ ivsz = 16) by (unfold ivsz; destruct sch; auto).
    assert (Hlt : ivsz < 256) by (destruct Hsz as [-> | [-> | ->]]; lia).
    rewrite (senc_of_spec ivsz sub encs Hlt HU) in Es0. inversion Es0; subst s. clear Es0.
    destruct (senc_encode_shape ivsz sub encs sencb Hne' Hdata HU Es) as (hdr16 & Hh & Hbox).
    pose proof (aux_consistent ivsz sub encs z Hsz HU Hsmall Ez0) as Hax. rewrite Hdata in Hax.
    destruct Hax as [Hsizes Hcnt].
    set (off := saio_offset (map (fun b => lenN b) (bf_before f))
                  (map (fun b => (false, lenN b)) (bf_traf f ++ [saizb; saio_encode 0]) ++ [(true, lenN sencb)])).
    exists encs, z, saizb, off, sencb. cbn [bf_traf bf_after].
    split; [first [reflexivity|assumption]|]. split; [first [reflexivity|assumption]|].
    split; [first [reflexivity|assumption]|]. split; [reflexivity|].
    split; [apply saio_field|].
    (* the moof bytes in the shape of C06's saio lemma *)
    pose proof (saio_points_at_entries (box_hdr cc_moof (moof_payload
                   (mkBF (bf_before f) (bf_traf f ++ [saizb; saio_encode off; sencb]) (bf_after f) (map e_data encs))))
                  (box_hdr cc_traf (concat (bf_traf f ++ [saizb; saio_encode off; sencb])))
                  (bf_before f) (bf_traf f ++ [saizb; saio_encode off]) [] hdr16
                  (concat (entries_of ivsz sub encs)) (concat (bf_after f))
                  (box_hdr_len cc_moof _ eq_refl) (box_hdr_len cc_traf _ eq_refl) Hh eq_refl) as Hp.
    cbv zeta in Hp. destruct Hp as [Hskip _]. rewrite <- Hbox in Hskip.
    assert (Hoff : saio_offset (map (fun b => lenN b) (bf_before f))
                     (map (fun b => (false, lenN b)) (bf_traf f ++ [saizb; saio_encode off]) ++ [(true, lenN sencb)]) = off).
    { unfold off. rewrite !map_app. cbn [map]. rewrite !saio_encode_len. reflexivity. }
    rewrite Hoff in Hskip.
    assert (Hmoof : moof_bytes (mkBF (bf_before f) (bf_traf f ++ [saizb; saio_encode off; sencb]) (bf_after f) (map e_data encs))
                    = box_hdr cc_moof (moof_payload
                        (mkBF (bf_before f) (bf_traf f ++ [saizb; saio_encode off; sencb]) (bf_after f) (map e_data encs))) ++
                      concat (bf_before f) ++
                      box_hdr cc_traf (concat (bf_traf f ++ [saizb; saio_encode off; sencb])) ++
                      concat (bf_traf f ++ [saizb; saio_encode off]) ++ sencb ++ concat (bf_after f)).
    { unfold moof_bytes. f_equal. unfold moof_payload, traf_bytes. cbn [bf_before bf_traf bf_after].
      f_equal. rewrite <- !app_assoc. f_equal.
      replace (bf_traf f ++ [saizb; saio_encode off; sencb]) with ((bf_traf f ++ [saizb; saio_encode off]) ++ [sencb])
        by (rewrite <- app_assoc; reflexivity).
      rewrite (concat_app (bf_traf f ++ [saizb; saio_encode off]) [sencb]). cbn [concat]. rewrite app_nil_r, <- !app_assoc.
      reflexivity. }
    rewrite Hmoof, Hskip.
    split; [|split; [reflexivity|exact Hcnt]].
    rewrite Hsizes. apply aux_walk_concat.
  Qed.
End Aux.
