(* C07CodecModel.v — the codec side of mp4/crypto.go with NOTHING left as an oracle: getAVCPSMaps /
   getHEVCPSMaps (parameter-set maps built from the avcC / hvcC NAL units), getAVCProtFunc / getHEVCProtFunc and
   the cbcs clear lead `uint32(sh.Size)` of Get(AVC|HEVC)ProtectRanges, instantiated with the Gallina models of
   avc.ParseSliceHeader and hevc.ParseSliceHeader of property C15 (coq/c15/C15Model.v, C15HevcModel.v: read-only
   imports; sh_size / s_size = bytes of the NAL unit consumed by the header, emulation prevention included).
   Definitions only. *)
From V.lib Require Import Base.
From V.c07 Require Import C07Model.
From V.c15 Require Import C15Model C15HevcModel.

(* sh, err := avc.ParseSliceHeader(nalu, spsMap, ppsMap); clearHeadSize := uint32(sh.Size) *)
Definition avc_hdr (spsmap : N -> option sps) (ppsmap : N -> option pps) (nalu : list N) : res N :=
  match parse_slice_er spsmap ppsmap nalu with
  | Ok h => Ok (sh_size h) | Err => Err | Panic => Panic | OutOfFuel => OutOfFuel
  end.

(* sh, err := hevc.ParseSliceHeader(nalu, spsMap, ppsMap) *)
Definition hevc_hdr (spsmap : N -> option hsps) (ppsmap : N -> option hpps) (nalu : list N) : res N :=
  match hparse_slice_er spsmap ppsmap nalu with
  | Ok h => Ok (s_size h) | Err => Err | Panic => Panic | OutOfFuel => OutOfFuel
  end.

Definition upd {A} (m : N -> option A) (k : N) (v : A) : N -> option A :=
  fun i => if i =? k then Some v else m i.

(* func getAVCPSMaps(spss, ppss): every SPS, then every PPS (which looks its SPS up); the first error ends it;
   a later parameter set with the same id replaces the earlier one *)
Fixpoint avc_sps_map (l : list (list N)) (m : N -> option sps) : res (N -> option sps) :=
  match l with
  | [] => Ok m
  | n :: t => do s <- parse_sps_er false n; avc_sps_map t (upd m (sps_id s) s)
  end.

Fixpoint avc_pps_map (spsmap : N -> option sps) (l : list (list N)) (m : N -> option pps)
  : res (N -> option pps) :=
  match l with
  | [] => Ok m
  | n :: t =>
      do p <- parse_pps_er (fun i => match spsmap i with Some x => Some (sps_chroma_format_idc x) | None => None end) n;
      avc_pps_map spsmap t (upd m (pps_id p) p)
  end.

Definition avc_ps_maps (spss ppss : list (list N)) : res ((N -> option sps) * (N -> option pps)) :=
  do sm <- avc_sps_map spss (fun _ => None);
  do pm <- avc_pps_map sm ppss (fun _ => None);
  Ok (sm, pm).

(* func getHEVCPSMaps(arrays): the SPS arrays first, then the PPS arrays *)
Fixpoint hevc_sps_map (l : list (list N)) (m : N -> option hsps) : res (N -> option hsps) :=
  match l with
  | [] => Ok m
  | n :: t => do s <- hparse_sps_er n; hevc_sps_map t (upd m (h_sps_id s) s)
  end.

Fixpoint hevc_pps_map (spsmap : N -> option hsps) (l : list (list N)) (m : N -> option hpps)
  : res (N -> option hpps) :=
  match l with
  | [] => Ok m
  | n :: t =>
      do p <- hparse_pps_er (fun i => match spsmap i with Some _ => true | None => false end) n;
      hevc_pps_map spsmap t (upd m (pp_id p) p)
  end.

Definition hevc_ps_maps (spss ppss : list (list N)) : res ((N -> option hsps) * (N -> option hpps)) :=
  do sm <- hevc_sps_map spss (fun _ => None);
  do pm <- hevc_pps_map sm ppss (fun _ => None);
  Ok (sm, pm).

(* GetAVCProtectRanges / GetHEVCProtectRanges with given maps *)
Definition avc_protect_ranges spsmap ppsmap (sch : scheme) (sample : list N) : res (list ssp) :=
  protect_ranges_r avc_is_video (avc_hdr spsmap ppsmap) sch sample.

Definition hevc_protect_ranges spsmap ppsmap (sch : scheme) (sample : list N) : res (list ssp) :=
  protect_ranges_r hevc_is_video (hevc_hdr spsmap ppsmap) sch sample.

(* getAVCProtFunc(avcC): the maps are built once (an error fails InitProtect: None here);
   getHEVCProtFunc(hvcC): the maps are rebuilt for every sample and an error fails that sample *)
Definition avc_prot_func (spss ppss : list (list N)) (sch : scheme) : res (list N -> res (list ssp)) :=
  do m <- avc_ps_maps spss ppss;
  Ok (avc_protect_ranges (fst m) (snd m) sch).

Definition hevc_prot_func (spss ppss : list (list N)) (sch : scheme) (sample : list N) : res (list ssp) :=
  do m <- hevc_ps_maps spss ppss;
  hevc_protect_ranges (fst m) (snd m) sch sample.
