(* C07FragProofs.v — the IV / counter clauses at fragment level without a side condition on the total number of
   blocks: sample sizes (uint32 in trun) and the sample count (uint32) bound a fragment to fewer than 2^60 cipher
   blocks, so neither the 128-bit wrap of incrementIV / cipher.NewCTR nor (for an 8-byte IV padded to 16 bytes by
   EncryptFragment) a carry out of the low 64 bits into the IV half can happen inside a fragment.  Across
   fragments nothing is carried over: EncryptFragment starts from the IV it is given. *)
From V.lib Require Import Base.
From V.c07 Require Import C07Model C07Spec C07IvProofs C07CryptProofs.

Definition P32 : N := 4294967296.
Definition P28 : N := 268435456.
Definition P60 : N := 1152921504606846976.
Definition P64 : N := 18446744073709551616.

(* ipd.ProtFunc describes bytes of the sample it is given (true of Get(AVC|HEVC)ProtectRanges on every sample they
   accept: C07_partition; trivially of the audio function) *)
Definition prot_in_sample (protfunc : list N -> res (list ssp)) : Prop :=
  forall s r, protfunc s = Ok r -> sumN (map ss_prot r) <= lenN s.

Lemma sum_div16_le l : 16 * sumN (map (fun s => ss_prot s / 16) l) <= sumN (map ss_prot l).
Proof.
  induction l as [|p t IH]; [cbn; lia|]. cbn [map sumN].
  pose proof (N.mul_div_le (ss_prot p) 16). lia.
Qed.

Lemma nr_enc_blocks_bound ssps len :
  sumN (map ss_prot ssps) <= len -> len < P32 -> nr_enc_blocks ssps len <= P28.
Proof.
  unfold P32, P28. intros Hs Hl. unfold nr_enc_blocks. destruct ssps as [|p t].
  - lia.
  - pose proof (sum_div16_le (p :: t)). lia.
Qed.

Section Frag.
  Variable E : list N -> list N -> list N.
  Variable protfunc : list N -> res (list ssp).
  Hypothesis Hprot : prot_in_sample protfunc.

  Lemma blocks_bound key : forall samples iv encs,
    Forall (fun s => lenN s < P32) samples ->
    encrypt_samples_cenc E protfunc key iv samples = Ok encs ->
    sumN (map blocks_of encs) <= P28 * lenN samples /\ length encs = length samples.
  Proof.
    induction samples as [|s t IH]; intros iv encs Hf H.
    - cbn in H. inversion H; subst. cbn. split; [lia|reflexivity].
    - cbn [encrypt_samples_cenc] in H.
      destruct (protfunc s) as [ssps| | |] eqn:Ep; try discriminate. cbn [rbind] in H.
      destruct (crypt_sample_cenc E key iv ssps s) as [c| | |] eqn:Ec; try discriminate. cbn [rbind] in H.
      destruct (encrypt_samples_cenc E protfunc key (increment_iv iv ssps (lenN s)) t) as [r| | |] eqn:Er;
        try discriminate.
      cbn [rbind] in H. inversion H; subst encs. clear H.
      pose proof (Forall_inv Hf) as Hs. pose proof (Forall_inv_tail Hf) as Ht. cbv beta in Hs.
      destruct (IH _ _ Ht Er) as [IH1 IH2].
      apply crypt_sample_cenc_length in Ec.
      assert (Hlc : lenN c = lenN s) by (unfold lenN; rewrite Ec; reflexivity).
      cbn [map sumN length]. change (blocks_of (mkEnc iv ssps c)) with (nr_enc_blocks ssps (lenN c)).
      rewrite Hlc. pose proof (nr_enc_blocks_bound ssps (lenN s) (Hprot s ssps Ep) Hs).
      split; [rewrite lenN_cons; lia|rewrite IH2; reflexivity].
  Qed.

  (* no counter block is used twice inside a fragment — no hypothesis on the number of blocks *)
  Lemma no_counter_reuse_frag key iv samples encs :
    length iv = 16%nat -> bytes_ok iv = true ->
    Forall (fun s => lenN s < P32) samples -> lenN samples < P32 ->
    encrypt_samples_cenc E protfunc key iv samples = Ok encs ->
    sumN (map blocks_of encs) < P60 /\
    (forall i ei, nth_error encs i = Some ei ->
       be (e_iv ei) = (be iv + sumN (map blocks_of (firstn i encs))) mod 2 ^ 128) /\
    (forall i j ei ej t t',
       (i < j)%nat -> nth_error encs i = Some ei -> nth_error encs j = Some ej ->
       t < blocks_of ei -> t' < blocks_of ej ->
       (be (e_iv ei) + t) mod 2 ^ 128 <> (be (e_iv ej) + t') mod 2 ^ 128).
  Proof.
    intros Hl Hb Hf Hn Henc.
    destruct (blocks_bound key samples iv encs Hf Henc) as [Hsum _].
    assert (H60 : sumN (map blocks_of encs) < P60) by (unfold P60, P28, P32 in *; nia).
    split; [exact H60|]. split.
    - intros i ei Hi. apply (iv_chain E protfunc key samples iv encs Hl Hb Henc i ei Hi).
    - apply (no_counter_reuse E protfunc key samples iv encs Hl Hb Henc).
      unfold P60, M128 in *. lia.
  Qed.

  (* an 8-byte IV: EncryptFragment pads it with 8 zero bytes; every per-sample IV of the fragment keeps the 8 IV
     bytes in its upper half and carries the number of blocks used so far in its lower half (no carry into the IV
     half, no wrap of the lower half) *)
  Lemma iv8_layout key iv8 samples encs :
    length iv8 = 8%nat -> bytes_ok iv8 = true ->
    Forall (fun s => lenN s < P32) samples -> lenN samples < P32 ->
    encrypt_samples_cenc E protfunc key (pad_iv iv8) samples = Ok encs ->
    forall i ei, nth_error encs i = Some ei ->
      be (e_iv ei) / P64 = be iv8 /\
      be (e_iv ei) mod P64 = sumN (map blocks_of (firstn i encs)) /\
      sumN (map blocks_of (firstn i encs)) < P60.
  Proof.
    intros Hl Hb Hf Hn Henc i ei Hi.
    assert (Hpad : pad_iv iv8 = iv8 ++ repeat 0 8).
    { unfold pad_iv, lenN. rewrite Hl. reflexivity. }
    assert (Hl16 : length (pad_iv iv8) = 16%nat) by (rewrite Hpad, app_length, repeat_length; lia).
    assert (Hb16 : bytes_ok (pad_iv iv8) = true).
    { rewrite Hpad. unfold bytes_ok in *. rewrite forallb_app, Hb. reflexivity. }
    assert (Hbe : be (pad_iv iv8) = be iv8 * P64).
    { rewrite Hpad. unfold be. rewrite fold_left_app. fold (be iv8). cbn [repeat fold_left]. unfold P64. lia. }
    destruct (no_counter_reuse_frag key (pad_iv iv8) samples encs Hl16 Hb16 Hf Hn Henc) as (H60 & Hch & _).
    pose proof (Hch i ei Hi) as Hv. rewrite Hbe in Hv.
    pose proof (sum_firstn_le blocks_of encs i) as Hle.
    assert (Hiv8 : be iv8 < P64).
    { pose proof (le_bound (rev iv8)) as Hb8. rewrite bytes_ok_rev in Hb8. specialize (Hb8 Hb).
      rewrite <- be_le_rev in Hb8. unfold lenN in Hb8. rewrite rev_length, Hl in Hb8. exact Hb8. }
    set (k := sumN (map blocks_of (firstn i encs))) in *.
    assert (Hk : k < P60) by lia.
    assert (Hsmall : be iv8 * P64 + k < 2 ^ 128).
    { change (2 ^ 128) with (P64 * P64). unfold P60, P64 in *. nia. }
    rewrite N.mod_small in Hv by exact Hsmall. rewrite Hv.
    split; [|split; [|exact Hk]].
    - rewrite N.div_add_l by (unfold P64; discriminate). rewrite N.div_small by (unfold P60, P64 in *; lia). lia.
    - rewrite N.add_comm, N.mod_add by (unfold P64; discriminate). apply N.mod_small. unfold P60, P64 in *; lia.
  Qed.
End Frag.

(* across fragments: EncryptFragment keeps no IV state; two fragments encrypted from the same IV with the same
   key (cmd/mp4ff-encrypt passes the command-line IV to every fragment) start on the same counter block *)
Lemma cross_fragment_restart (E : list N -> list N -> list N) protfunc key iv s1 t1 s2 t2 e1 r1 e2 r2 :
  encrypt_samples_cenc E protfunc key iv (s1 :: t1) = Ok (e1 :: r1) ->
  encrypt_samples_cenc E protfunc key iv (s2 :: t2) = Ok (e2 :: r2) ->
  e_iv e1 = iv /\ e_iv e2 = iv.
Proof.
  intros H1 H2. cbn [encrypt_samples_cenc] in H1, H2.
  destruct (protfunc s1) as [p1| | |]; try discriminate. cbn [rbind] in H1.
  destruct (crypt_sample_cenc E key iv p1 s1) as [c1| | |]; try discriminate. cbn [rbind] in H1.
  destruct (encrypt_samples_cenc E protfunc key (increment_iv iv p1 (lenN s1)) t1) as [x1| | |]; try discriminate.
  destruct (protfunc s2) as [p2| | |]; try discriminate. cbn [rbind] in H2.
  destruct (crypt_sample_cenc E key iv p2 s2) as [c2| | |]; try discriminate. cbn [rbind] in H2.
  destruct (encrypt_samples_cenc E protfunc key (increment_iv iv p2 (lenN s2)) t2) as [x2| | |]; try discriminate.
  cbn [rbind] in H1, H2. inversion H1. inversion H2. split; reflexivity.
Qed.
