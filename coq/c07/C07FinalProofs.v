(* C07FinalProofs.v — the statements of C07Theorems.v, assembled from the proof files. *)
From V.lib Require Import Base.
From V.c07 Require Import C07Model C07Spec C07IvProofs C07RangeProofs C07CryptProofs C07CbcsProofs C07AuxProofs.

(* AppendProtectRange: for ALL counts (no bound): the appended entries describe exactly nrClear clear bytes
   followed by nrProt protected bytes, and every clear count it writes is < 2^16 *)
Lemma append_protect_range_final : forall ssps c p,
  exists r, append_protect_range ssps c p = Ok r /\
            expand r = expand ssps ++ rep false c ++ rep true p /\
            (Forall (fun e => ss_clear e < 65536) ssps -> Forall (fun e => ss_clear e < 65536) r).
Proof.
  intros ssps c p.
  destruct (append_protect_range_spec (fun _ => True) ssps c p I I) as (r & Hr & He & Hc).
  exists r. split; [exact Hr|]. split; [exact He|]. intros H.
  eapply Forall_impl; [|apply Hc; eapply Forall_impl; [|exact H]]; unfold entry_ok.
  - intros a [Ha _]. exact Ha.
  - intros a Ha. split; [exact Ha|exact I].
Qed.

Lemma partition_final : forall (isvideo : N -> bool) (hdr : list N -> res N) (nalus : list (list N)),
  nalus <> [] ->
  lenN (frames nalus) < 4294967296 ->
  exists r, protect_ranges_r isvideo hdr Cenc (frames nalus) = Ok r /\
            sumN (map (fun p => ss_clear p + ss_prot p) r) = lenN (frames nalus) /\
            Forall (fun p => ss_clear p < 65536 /\ ss_prot p mod 16 = 0) r.
Proof.
  intros isvideo hdr nalus Hwf Hlen.
  destruct (cenc_ranges_mask isvideo hdr nalus Hwf Hlen) as (r & Hr & _ & Hs & Hc).
  exists r. split; [exact Hr|]. split; [exact Hs|exact Hc].
Qed.

Lemma cenc_shape_final : forall (isvideo : N -> bool) (hdr : list N -> res N) (nalus : list (list N)),
  nalus <> [] ->
  lenN (frames nalus) < 4294967296 ->
  (exists r, protect_ranges_r isvideo hdr Cenc (frames nalus) = Ok r /\
             expand r = spec_mask isvideo (fun n => prot_cenc (lenN n)) nalus) /\
  (forall L, (0 < prot_cenc L <-> 112 <= L + 4) /\
             prot_cenc L mod 16 = 0 /\
             prot_cenc L <= L /\
             (112 <= L + 4 -> 96 <= L + 4 - prot_cenc L /\ L + 4 - prot_cenc L <= 111) /\
             (127 < L -> 0 < prot_cenc L /\ L - prot_cenc L <= 127)).
Proof.
  intros isvideo hdr nalus Hwf Hlen. split; [|exact prot_cenc_shape].
  destruct (cenc_ranges_mask isvideo hdr nalus Hwf Hlen) as (r & Hr & He & _).
  exists r. split; [exact Hr|exact He].
Qed.

Lemma cbcs_shape_final : forall (isvideo : N -> bool) (hdr : list N -> res N) (hs : list N -> N)
                                (nalus : list (list N)),
  wf_nalus_cbcs nalus = true ->
  lenN (frames nalus) < 4294967296 ->
  (forall n, In n nalus -> first_is_video isvideo n = true -> hdr n = Ok (hs n) /\ hs n <= lenN n) ->
  exists r, protect_ranges_r isvideo hdr Cbcs (frames nalus) = Ok r /\
            expand r = spec_mask isvideo (fun n => lenN n - hs n) nalus /\
            sumN (map (fun p => ss_clear p + ss_prot p) r) = lenN (frames nalus) /\
            Forall (fun p => ss_clear p < 65536) r.
Proof. exact cbcs_ranges_mask. Qed.

Lemma iv_increment_final : forall iv ssps slen,
  bytes_ok iv = true ->
  be (increment_iv iv ssps slen) = (be iv + nr_enc_blocks ssps slen) mod 2 ^ (8 * lenN iv).
Proof. exact iv_increment. Qed.

Lemma iv_increment_inplace_final : forall iv n,
  bytes_ok iv = true ->
  be (increment_iv_inplace iv n) = (be iv + n) mod 2 ^ (8 * lenN iv) /\
  length (increment_iv_inplace iv n) = length iv.
Proof.
  intros iv n H. split; [apply iv_increment_inplace; exact H|apply increment_iv_inplace_length].
Qed.

Lemma matches_reference_final :
  forall (E : list N -> list N -> list N) (key iv : list N) (ssps : list ssp) (sample : list N),
  (forall k b, length (E k b) = 16%nat) ->
  length iv = 16%nat -> bytes_ok iv = true -> key_ok key = true ->
  sumN (map (fun p => ss_clear p + ss_prot p) ssps) <= lenN sample ->
  lenN sample < 4294967296 ->
  crypt_sample_cenc E key iv ssps sample = Ok (ref_cenc E key iv ssps sample).
Proof. intros E key iv ssps sample Hb Hl Hv. apply crypt_sample_cenc_ref; assumption. Qed.

Lemma no_counter_reuse_final :
  forall (E : list N -> list N -> list N) (protfunc : list N -> res (list ssp))
         (key iv : list N) (samples : list (list N)) (encs : list enc_sample),
  length iv = 16%nat -> bytes_ok iv = true ->
  encrypt_samples_cenc E protfunc key iv samples = Ok encs ->
  sumN (map blocks_of encs) < 2 ^ 128 ->
  (* the IV stored for sample i is the fragment IV plus the blocks of the samples before it *)
  (forall i ei, nth_error encs i = Some ei ->
     be (e_iv ei) = (be iv + sumN (map blocks_of (firstn i encs))) mod 2 ^ 128) /\
  (* every keystream byte of a sample with block-aligned (or no) sub-samples lies in its blocks_of blocks *)
  (forall e, aligned e -> prot_total e <= 16 * blocks_of e) /\
  (* and the counter blocks of distinct samples are distinct *)
  (forall i j ei ej t t',
     (i < j)%nat -> nth_error encs i = Some ei -> nth_error encs j = Some ej ->
     t < blocks_of ei -> t' < blocks_of ej ->
     (be (e_iv ei) + t) mod 2 ^ 128 <> (be (e_iv ej) + t') mod 2 ^ 128).
Proof.
  intros E protfunc key iv samples encs Hl Hb Henc Htot. change (2 ^ 128) with M128 in *.
  split; [|split].
  - intros i ei Hi. apply (iv_chain E protfunc key samples iv encs Hl Hb Henc i ei Hi).
  - intros e He. apply prot_total_blocks. exact He.
  - apply (no_counter_reuse E protfunc key samples iv encs Hl Hb Henc Htot).
Qed.

Lemma cbcs_matches_reference_final :
  forall (E D : list N -> list N -> list N) (key : list N),
  (forall k b, length (E k b) = 16%nat) ->
  (forall k b, length (D k b) = 16%nat) ->
  forall (dec : bool) (iv : list N) (ssps : list ssp) (cb sb : N) (sample : list N),
  key_ok key = true -> length iv = 16%nat ->
  sumN (map (fun p => ss_clear p + ss_prot p) ssps) <= lenN sample ->
  lenN sample < 4294967296 ->
  crypt_sample_cbcs E D dec key iv ssps cb sb sample = Ok (ref_cbcs E D dec key iv ssps cb sb sample).
Proof. exact crypt_sample_cbcs_ref. Qed.

Lemma aux_info_final : forall b iv ssps b',
  ssps <> [] -> saiz_add b iv ssps = Ok b' ->
  sz_info b' = sz_info b ++ [lenN (entry_bytes iv ssps) mod 256] /\
  sz_count b' = sz_count b + 1 /\
  (lenN (entry_bytes iv ssps) < 256 -> sz_info b' = sz_info b ++ [lenN (entry_bytes iv ssps)]).
Proof. exact aux_info_size. Qed.

Lemma aux_entry_final : forall s i iv ssps,
  0 <? sn_ivsize s = true -> sn_subs s = true ->
  nth_error (sn_ivs s) i = Some iv -> nth_error (sn_ss s) i = Some ssps ->
  senc_entry s i = Ok (entry_bytes iv ssps) /\ lenN (entry_bytes iv ssps) = lenN iv + 2 + 6 * lenN ssps.
Proof. intros s i iv ssps H1 H2 H3 H4. split; [apply senc_entry_bytes; assumption|apply entry_bytes_len]. Qed.

Lemma aux_info_overflow_final :
  exists iv ssps b',
    lenN iv = 16 /\ lenN ssps = 40 /\
    saiz_add saiz_empty iv ssps = Ok b' /\ sz_info b' = [2] /\ lenN (entry_bytes iv ssps) = 258.
Proof. exact aux_info_overflow. Qed.

Lemma saio_offset_final : forall before pre z post,
  forallb (fun x => negb (fst x)) pre = true -> forallb (fun x => negb (fst x)) post = true ->
  saio_offset before (pre ++ (true, z) :: post) = 8 + sumN before + 8 + sumN (map snd pre) + 16.
Proof. exact saio_offset_spec. Qed.
