(* Extraction of the C07 models (and the Gallina AES-128 used as the independent cipher) for the
   correspondence check. ExtrOcamlBasic only. *)
From V.lib Require Import Base.
From V.c07 Require Import C07Model C07Aes C07CodecModel C07TrafModel C07WrapModel.
(* the AVC parameter-set / slice-header parsers of the C15 model (read-only import): an independent slice-header
   size function for the cbcs ranges *)
From V.c15 Require Import C15Model C15HevcModel.
Require Import ExtrOcamlBasic.
Separate Extraction
  ssp scheme enc_sample saiz senc
  avc_is_video hevc_is_video protect_ranges_r audio_protect_ranges append_protect_range
  increment_iv increment_iv_inplace nr_enc_blocks pad_iv
  crypt_sample_cenc crypt_sample_cbcs cbcs_crypt
  encrypt_samples_cenc encrypt_samples_cbcs
  saiz_empty saiz_of senc_empty senc_of senc_entries saio_offset
  aes128_encrypt aes128_decrypt
  bfrag encrypt_fragment_bytes
  avc_hdr hevc_hdr avc_ps_maps hevc_ps_maps avc_prot_func hevc_prot_func
  protect_ranges_w avc_prot_func_w hevc_prot_func_w
  Z.of_N.  (* Z.of_N only so that BinNums.coq_Z exists for ocaml/vx.ml *)
