(* C07CryptProofs.v — CryptSampleCenc equals the reference CTR keystream xor-ed over the protected bytes
   in order, identity elsewhere; IV chain of EncryptFragment; no counter block reuse. *)
From V.lib Require Import Base.
From V.c07 Require Import C07Model C07Spec C07IvProofs C07RangeProofs.

Definition M128 : N := 340282366920938463463374607431768211456.
Lemma M128_pow : 2 ^ 128 = M128. Proof. reflexivity. Qed.
Lemma M128_256 : 256 ^ 16 = M128. Proof. reflexivity. Qed.

(* ---------------------------------------------------------------- be_bytes *)
Lemma be_bytes_length k x : length (be_bytes k x) = k.
Proof. revert x. induction k as [|j IH]; intros x; [reflexivity|]. cbn [be_bytes]. rewrite app_length, IH. cbn. lia. Qed.

Lemma be_bytes_ok k x : bytes_ok (be_bytes k x) = true.
Proof.
  revert x. induction k as [|j IH]; intros x; [reflexivity|]. cbn [be_bytes].
  rewrite bytes_ok_app, IH, bytes_ok_cons. cbn [bytes_ok forallb]. unfold byte_ok.
  assert (x mod 256 < 256) by (apply N.mod_lt; discriminate). apply N.ltb_lt in H. rewrite H. reflexivity.
Qed.

Lemma be_be_bytes k x : be (be_bytes k x) = x mod 256 ^ N.of_nat k.
Proof.
  revert x. induction k as [|j IH]; intros x.
  - cbn. rewrite N.mod_1_r. reflexivity.
  - cbn [be_bytes]. rewrite be_app1, IH.
    replace (N.of_nat (S j)) with (N.succ (N.of_nat j)) by lia. rewrite N.pow_succ_r'.
    pose proof (pow256_pos (N.of_nat j)).
    rewrite (N.mod_mul_r x 256 (256 ^ N.of_nat j)) by lia. lia.
Qed.

Lemma be_bytes_be l : bytes_ok l = true -> be_bytes (length l) (be l) = l.
Proof.
  intros H. apply be_inj.
  - apply be_bytes_length.
  - apply be_bytes_ok.
  - exact H.
  - rewrite be_be_bytes. apply N.mod_small. rewrite be_le_rev.
    pose proof (le_bound (rev l)) as Hb. rewrite bytes_ok_rev in Hb. specialize (Hb H).
    unfold lenN in Hb. rewrite rev_length in Hb. exact Hb.
Qed.

Lemma be_bound16 l : length l = 16%nat -> bytes_ok l = true -> be l < M128.
Proof.
  intros Hl H. rewrite be_le_rev. pose proof (le_bound (rev l)) as Hb.
  rewrite bytes_ok_rev in Hb. specialize (Hb H). unfold lenN in Hb. rewrite rev_length, Hl in Hb.
  exact Hb.
Qed.

(* ---------------------------------------------------------------- lists *)
Lemma list_map_nth {A} (d : A) (l : list A) : l = map (fun j => nth j l d) (seq 0 (length l)).
Proof.
  induction l as [|a t IH]; [reflexivity|].
  cbn [length seq map nth]. f_equal. rewrite <- seq_shift, map_map. exact IH.
Qed.

Lemma xorl_length a b : length a = length b -> length (xorl a b) = length a.
Proof. intros H. unfold xorl. rewrite map_length, combine_length, <- H. apply Nat.min_id. Qed.

Lemma xorl_nil_l b : xorl [] b = [].
Proof. reflexivity. Qed.

Section Ctr.
  Variable E : list N -> list N -> list N.
  Variable key iv : list N.
  Hypothesis Hblk : forall k b, length (E k b) = 16%nat.
  Hypothesis Hivl : length iv = 16%nat.
  Hypothesis Hivb : bytes_ok iv = true.

  Lemma ks_seg_length m k : length (ks_seg E key iv m k) = k.
  Proof. unfold ks_seg. rewrite map_length, seq_length. reflexivity. Qed.

  Lemma ks_seg_S m k : ks_seg E key iv m (S k) = ks_byte E key iv m :: ks_seg E key iv (m + 1) k.
  Proof.
    unfold ks_seg. cbn [seq map]. rewrite N.add_0_r. f_equal.
    rewrite <- seq_shift, map_map. apply map_ext. intros j. f_equal. lia.
  Qed.

  Lemma ks_seg_app m a b :
    ks_seg E key iv m (a + b) = ks_seg E key iv m a ++ ks_seg E key iv (m + N.of_nat a) b.
  Proof.
    revert m. induction a as [|a IH]; intros m.
    - cbn [Nat.add]. rewrite N.add_0_r. reflexivity.
    - cbn [Nat.add]. rewrite !ks_seg_S, IH. cbn [app]. do 3 f_equal. lia.
  Qed.

  (* a whole block of keystream *)
  Lemma ks_seg_block m : m mod 16 = 0 -> ks_seg E key iv m 16 = ref_block E key iv (m / 16).
  Proof.
    intros Hm. rewrite (list_map_nth 0 (ref_block E key iv (m / 16))).
    unfold ref_block at 2. rewrite Hblk. unfold ks_seg. apply map_ext_in.
    intros j Hj. apply in_seq in Hj. unfold ks_byte.
    replace ((m + N.of_nat j) / 16) with (m / 16) by lia.
    replace ((m + N.of_nat j) mod 16) with (N.of_nat j) by lia.
    rewrite Nat2N.id. reflexivity.
  Qed.

  (* the CTR stream state st stands at keystream offset m *)
  Definition at_offset (st : ctr_st) (m : N) : Prop :=
    exists k : nat, (k < 16)%nat /\ (m + N.of_nat k) mod 16 = 0 /\
                    c_buf st = ks_seg E key iv m k /\
                    c_ctr st = be_bytes 16 ((be iv + (m + N.of_nat k) / 16) mod M128).

  Lemma at_offset_init : at_offset (mkCtr iv []) 0.
  Proof.
    exists 0%nat. split; [lia|]. split; [reflexivity|]. split; [reflexivity|].
    cbn [c_ctr]. change ((0 + N.of_nat 0) / 16) with 0. rewrite N.add_0_r.
    rewrite N.mod_small by (apply be_bound16; assumption).
    rewrite <- Hivl. symmetry. apply be_bytes_be. exact Hivb.
  Qed.

  Lemma ctr_inc x :
    increment_iv_inplace (be_bytes 16 (x mod M128)) 1 = be_bytes 16 ((x + 1) mod M128).
  Proof.
    apply be_inj.
    - rewrite increment_iv_inplace_length, !be_bytes_length. reflexivity.
    - apply increment_iv_inplace_bytes_ok, be_bytes_ok.
    - apply be_bytes_ok.
    - rewrite iv_increment_inplace by apply be_bytes_ok.
      unfold lenN. rewrite be_bytes_length. change (2 ^ (8 * N.of_nat 16)) with M128.
      rewrite !be_be_bytes. change (256 ^ N.of_nat 16) with M128.
      rewrite !N.mod_mod by discriminate.
      rewrite N.add_mod_idemp_l by discriminate. reflexivity.
  Qed.

  Lemma next_ks_at st m :
    at_offset st m ->
    exists st', next_ks E key st = (ks_byte E key iv m, st') /\ at_offset st' (m + 1).
  Proof.
    intros (k & Hk & Hmod & Hbuf & Hctr). unfold next_ks. destruct k as [|k'].
    - (* buffer empty: a new block *)
      cbn [N.of_nat] in *. rewrite N.add_0_r in *. rewrite Hbuf. cbn [ks_seg seq map].
      pose proof (ks_seg_block m Hmod) as Hb. unfold ref_block in Hb. change (2 ^ 128) with M128 in Hb. rewrite <- Hctr in Hb.
      rewrite ks_seg_S in Hb. rewrite <- Hb.
      eexists. split; [reflexivity|].
      exists 15%nat. split; [lia|]. split; [lia|]. split; [reflexivity|].
      cbn [c_ctr]. rewrite Hctr, ctr_inc. do 2 f_equal. lia.
    - rewrite Hbuf, ks_seg_S. eexists. split; [reflexivity|].
      exists k'. split; [lia|]. split; [rewrite <- Hmod; f_equal; lia|]. split; [reflexivity|].
      cbn [c_ctr]. rewrite Hctr. do 3 f_equal. lia.
  Qed.

  Lemma xor_stream_at : forall data st m,
    at_offset st m ->
    exists st', xor_stream E key st data = (xorl data (ks_seg E key iv m (length data)), st') /\
                at_offset st' (m + lenN data).
  Proof.
    induction data as [|b t IH]; intros st m Hat.
    - exists st. split; [reflexivity|]. rewrite lenN_nil, N.add_0_r. exact Hat.
    - cbn [xor_stream]. destruct (next_ks_at st m Hat) as (st1 & H1 & Hat1). rewrite H1.
      destruct (IH st1 (m + 1) Hat1) as (st2 & H2 & Hat2). rewrite H2.
      exists st2. split.
      + cbn [length]. rewrite ks_seg_S. reflexivity.
      + rewrite lenN_cons. replace (m + (1 + lenN t)) with (m + 1 + lenN t) by lia. exact Hat2.
  Qed.

  Lemma xor_stream_length data st : length (fst (xor_stream E key st data)) = length data.
  Proof.
    revert st. induction data as [|b t IH]; intros st; [reflexivity|].
    cbn [xor_stream]. destruct (next_ks E key st) as [k st1]. specialize (IH st1).
    destruct (xor_stream E key st1 t) as [o st2]. cbn [fst length] in *. rewrite IH. reflexivity.
  Qed.

  (* ---- the sub-sample loop ---- *)
  Lemma lenN_firstn {A} (l : list A) n : n <= lenN l -> lenN (firstn (N.to_nat n) l) = n.
  Proof. intros H. unfold lenN in *. rewrite firstn_length. lia. Qed.

  Lemma lenN_skipn {A} (l : list A) n : lenN (skipn (N.to_nat n) l) = lenN l - n.
  Proof. unfold lenN. rewrite skipn_length. lia. Qed.

  Lemma splice_mid pre mid post o :
    length o = length mid ->
    splice (pre ++ mid ++ post) (lenN pre) o = pre ++ o ++ post.
  Proof.
    intros Hl. unfold splice. rewrite firstn_lenN_app. f_equal. f_equal.
    unfold lenN. rewrite Nat2N.id, Hl, skipn_app, skipn_all2 by lia.
    replace (length pre + length mid - length pre)%nat with (length mid) by lia.
    rewrite skipn_app, skipn_all, Nat.sub_diag. reflexivity.
  Qed.

  Lemma cenc_loop_ref : forall ssps st m pos sample done rest,
    sample = done ++ rest -> pos = lenN done -> at_offset st m ->
    sumN (map (fun p => ss_clear p + ss_prot p) ssps) <= lenN rest ->
    lenN sample < 4294967296 ->
    cenc_loop E key st ssps pos sample = Ok (done ++ ref_walk E key iv m ssps rest).
  Proof.
    induction ssps as [|ss t IH]; intros st m pos sample done rest Hs Hp Hat Hsum Hlen.
    - cbn [cenc_loop ref_walk]. rewrite Hs. reflexivity.
    - cbn [map sumN] in Hsum. cbn [cenc_loop ref_walk].
      set (c := ss_clear ss) in *. set (p := ss_prot ss) in *.
      assert (Hlr : lenN sample = lenN done + lenN rest) by (rewrite Hs; apply lenN_app).
      assert (Hpos' : (if 0 <? c then u32 (pos + c) else pos) = pos + c).
      { destruct (0 <? c) eqn:Ec; [apply u32_small; lia|apply N.ltb_ge in Ec; lia]. }
      rewrite Hpos'.
      assert (Hsplit : rest = firstn (N.to_nat c) rest ++ firstn (N.to_nat p) (skipn (N.to_nat c) rest)
                            ++ skipn (N.to_nat p) (skipn (N.to_nat c) rest)).
      { rewrite firstn_skipn, firstn_skipn. reflexivity. }
      set (r1 := firstn (N.to_nat c) rest) in *.
      set (mid := firstn (N.to_nat p) (skipn (N.to_nat c) rest)) in *.
      set (post := skipn (N.to_nat p) (skipn (N.to_nat c) rest)) in *.
      assert (Hr1 : lenN r1 = c) by (apply lenN_firstn; lia).
      assert (Hmid : lenN mid = p) by (unfold mid; apply lenN_firstn; rewrite lenN_skipn; lia).
      assert (Hs' : sample = (done ++ r1) ++ mid ++ post).
      { rewrite Hs, Hsplit at 1. rewrite <- app_assoc. reflexivity. }
      assert (Hd1 : lenN (done ++ r1) = pos + c) by (rewrite lenN_app; lia).
      destruct (0 <? p) eqn:Ep.
      + rewrite (u32_small (pos + c + p)) by lia.
        rewrite (slice_eq sample (done ++ r1) mid post (pos + c) (pos + c + p) Hs') by lia.
        cbn [rbind].
        destruct (xor_stream_at mid st m Hat) as (st' & Hx & Hat'). rewrite Hx.
        set (o := xorl mid (ks_seg E key iv m (length mid))) in *.
        assert (Hol : length o = length mid).
        { unfold o. apply xorl_length. rewrite ks_seg_length. reflexivity. }
        assert (Hsp : splice sample (pos + c) o = (done ++ r1) ++ o ++ post).
        { rewrite Hs' at 1. rewrite <- Hd1. apply splice_mid. exact Hol. }
        rewrite Hsp.
        rewrite (IH st' (m + p) (pos + c + p) ((done ++ r1) ++ o ++ post) ((done ++ r1) ++ o) post).
        * f_equal. rewrite <- !app_assoc. do 2 f_equal.
          replace (N.to_nat p) with (length mid) by (unfold lenN in Hmid; lia). reflexivity.
        * rewrite <- !app_assoc. reflexivity.
        * rewrite !lenN_app in *. unfold lenN at 3. rewrite Hol. fold (lenN mid). lia.
        * rewrite <- Hmid. exact Hat'.
        * unfold post. rewrite !lenN_skipn. lia.
        * rewrite !lenN_app in *. unfold lenN at 3. rewrite Hol. fold (lenN mid).
          unfold post. rewrite !lenN_skipn. lia.
      + apply N.ltb_ge in Ep. assert (p = 0) by lia.
        rewrite (IH st m (pos + c) sample (done ++ r1) (mid ++ post)).
        * rewrite <- app_assoc. do 2 f_equal.
          assert (mid = []) by (destruct mid; [reflexivity|rewrite lenN_cons in Hmid; lia]).
          rewrite H0. rewrite xorl_nil_l. cbn [app]. rewrite H, N.add_0_r. unfold post. rewrite H. reflexivity.
        * exact Hs'.
        * symmetry. exact Hd1.
        * exact Hat.
        * rewrite lenN_app, Hmid. unfold post. rewrite !lenN_skipn. lia.
        * exact Hlen.
  Qed.

  Lemma crypt_sample_cenc_ref ssps sample :
    key_ok key = true ->
    sumN (map (fun p => ss_clear p + ss_prot p) ssps) <= lenN sample ->
    lenN sample < 4294967296 ->
    crypt_sample_cenc E key iv ssps sample = Ok (ref_cenc E key iv ssps sample).
  Proof.
    intros Hk Hsum Hlen. unfold crypt_sample_cenc, ref_cenc. rewrite Hk. cbn [negb].
    assert (Hl : (lenN iv =? 16) = true) by (apply N.eqb_eq; unfold lenN; rewrite Hivl; reflexivity).
    rewrite Hl. cbn [negb].
    destruct ssps as [|ss t].
    - destruct (xor_stream_at sample (mkCtr iv []) 0 at_offset_init) as (st' & Hx & _).
      rewrite Hx. reflexivity.
    - apply (cenc_loop_ref (ss :: t) (mkCtr iv []) 0 0 sample [] sample); try reflexivity; try assumption.
      apply at_offset_init.
  Qed.
End Ctr.

(* ---------------------------------------------------------------- length preservation *)
Lemma slice_ok s lo hi seg :
  slice s lo hi = Ok seg -> length seg = N.to_nat (hi - lo) /\ lo <= hi /\ hi <= lenN s.
Proof.
  unfold slice. destruct (hi <? lo) eqn:E1; [discriminate|]. destruct (lenN s <? hi) eqn:E2; [discriminate|].
  cbn [orb]. intros H. inversion H; subst. apply N.ltb_ge in E1, E2.
  rewrite firstn_length, skipn_length. unfold lenN in *. lia.
Qed.

Lemma splice_length s pos o :
  (N.to_nat pos + length o <= length s)%nat -> length (splice s pos o) = length s.
Proof.
  intros H. unfold splice. rewrite !app_length, firstn_length, skipn_length. lia.
Qed.

Section Len.
  Variable E : list N -> list N -> list N.

  Lemma cenc_loop_length key : forall ssps st pos sample c,
    cenc_loop E key st ssps pos sample = Ok c -> length c = length sample.
  Proof.
    induction ssps as [|ss t IH]; intros st pos sample c H.
    - cbn in H. inversion H. reflexivity.
    - cbn [cenc_loop] in H.
      set (pos' := if 0 <? ss_clear ss then u32 (pos + ss_clear ss) else pos) in *.
      destruct (0 <? ss_prot ss).
      + destruct (slice sample pos' (u32 (pos' + ss_prot ss))) as [seg| | |] eqn:Es; try discriminate.
        cbn [rbind] in H. apply slice_ok in Es. destruct Es as (Hl & Hlo & Hhi).
        pose proof (xor_stream_length E key seg st) as Hx.
        destruct (xor_stream E key st seg) as [o st']. cbn [fst] in Hx.
        apply IH in H. rewrite H. apply splice_length. unfold lenN in Hhi. lia.
      + apply IH in H. exact H.
  Qed.

  Lemma crypt_sample_cenc_length key iv ssps sample c :
    crypt_sample_cenc E key iv ssps sample = Ok c -> length c = length sample.
  Proof.
    unfold crypt_sample_cenc. destruct (negb (key_ok key)); [discriminate|].
    destruct (negb (lenN iv =? 16)); [discriminate|].
    destruct ssps as [|ss t].
    - intros H. inversion H. apply xor_stream_length.
    - apply cenc_loop_length.
  Qed.
End Len.

(* ---------------------------------------------------------------- IV chain and counter reuse *)
(* cipher blocks incrementIV accounts for in an encrypted sample *)
Definition blocks_of (e : enc_sample) : N := nr_enc_blocks (e_ssps e) (lenN (e_data e)).

(* keystream bytes consumed by an encrypted sample *)
Definition prot_total (e : enc_sample) : N :=
  match e_ssps e with
  | [] => lenN (e_data e)
  | l => sumN (map ss_prot l)
  end.

Definition aligned (e : enc_sample) : Prop := Forall (fun p => ss_prot p mod 16 = 0) (e_ssps e).

Lemma sum_div16 l :
  Forall (fun p => ss_prot p mod 16 = 0) l ->
  16 * sumN (map (fun s => ss_prot s / 16) l) = sumN (map ss_prot l).
Proof.
  induction 1 as [|p t Hp _ IH]; [reflexivity|]. cbn [map sumN]. lia.
Qed.

(* every keystream byte of the sample lies in one of its blocks_of counter blocks *)
Lemma prot_total_blocks e : aligned e -> prot_total e <= 16 * blocks_of e /\ 16 * blocks_of e < prot_total e + 16.
Proof.
  unfold aligned, prot_total, blocks_of, nr_enc_blocks. intros H.
  destruct (e_ssps e) as [|p t] eqn:Es; [lia|].
  rewrite (sum_div16 _ H). lia.
Qed.

Section Chain.
  Variable E : list N -> list N -> list N.
  Variable protfunc : list N -> res (list ssp).

  Lemma iv_chain key : forall samples iv encs,
    length iv = 16%nat -> bytes_ok iv = true ->
    encrypt_samples_cenc E protfunc key iv samples = Ok encs ->
    forall i ei, nth_error encs i = Some ei ->
      length (e_iv ei) = 16%nat /\ bytes_ok (e_iv ei) = true /\
      be (e_iv ei) = (be iv + sumN (map blocks_of (firstn i encs))) mod M128.
  Proof.
    induction samples as [|s t IH]; intros iv encs Hl Hb H i ei Hi.
    - cbn in H. inversion H; subst. destruct i; discriminate.
    - cbn [encrypt_samples_cenc] in H.
      destruct (protfunc s) as [ssps| | |]; try discriminate. cbn [rbind] in H.
      destruct (crypt_sample_cenc E key iv ssps s) as [c| | |] eqn:Ec; try discriminate. cbn [rbind] in H.
      destruct (encrypt_samples_cenc E protfunc key (increment_iv iv ssps (lenN s)) t) as [r| | |] eqn:Er;
        try discriminate.
      cbn [rbind] in H. inversion H; subst encs. clear H.
      destruct i as [|i].
      + cbn in Hi. inversion Hi; subst ei. cbn [e_iv firstn map sumN].
        split; [exact Hl|]. split; [exact Hb|].
        rewrite N.add_0_r. symmetry. apply N.mod_small. apply be_bound16; assumption.
      + cbn [nth_error] in Hi.
        assert (Hl' : length (increment_iv iv ssps (lenN s)) = 16%nat).
        { unfold increment_iv. rewrite increment_iv_inplace_length. exact Hl. }
        assert (Hb' : bytes_ok (increment_iv iv ssps (lenN s)) = true).
        { unfold increment_iv. apply increment_iv_inplace_bytes_ok. exact Hb. }
        destruct (IH _ _ Hl' Hb' Er i ei Hi) as (H1 & H2 & H3).
        split; [exact H1|]. split; [exact H2|].
        rewrite H3, iv_increment by exact Hb.
        assert (Hliv : lenN iv = 16) by (unfold lenN; rewrite Hl; reflexivity).
        rewrite Hliv. change (2 ^ (8 * 16)) with M128.
        rewrite N.add_mod_idemp_l by discriminate.
        cbn [firstn map sumN].
        change (blocks_of (mkEnc iv ssps c)) with (nr_enc_blocks ssps (lenN c)).
        apply crypt_sample_cenc_length in Ec.
        assert (Hlc : lenN c = lenN s) by (unfold lenN; rewrite Ec; reflexivity).
        rewrite Hlc. f_equal. lia.
  Qed.

  Lemma sum_firstn_le {A} (f : A -> N) (l : list A) i : sumN (map f (firstn i l)) <= sumN (map f l).
  Proof.
    revert i. induction l as [|a t IH]; intros i; [destruct i; cbn; lia|].
    destruct i as [|i]; cbn [firstn map sumN]; [lia|]. specialize (IH i). lia.
  Qed.

  Lemma sum_firstn_lt {A} (f : A -> N) (l : list A) i j x :
    (i < j)%nat -> nth_error l i = Some x ->
    sumN (map f (firstn i l)) + f x <= sumN (map f (firstn j l)).
  Proof.
    revert i j. induction l as [|a t IH]; intros i j Hij Hx; [destruct i; discriminate|].
    destruct j as [|j]; [lia|]. destruct i as [|i].
    - cbn in Hx. inversion Hx; subst. cbn [firstn map sumN]. lia.
    - cbn [nth_error] in Hx. cbn [firstn map sumN]. specialize (IH i j ltac:(lia) Hx). lia.
  Qed.

  Lemma mod_offsets_differ base a b : a < b -> b < M128 -> (base + a) mod M128 <> (base + b) mod M128.
  Proof.
    intros Hab Hb. unfold M128 in *.
    pose proof (N.div_mod (base + a) 340282366920938463463374607431768211456).
    pose proof (N.div_mod (base + b) 340282366920938463463374607431768211456).
    pose proof (N.mod_lt (base + a) 340282366920938463463374607431768211456).
    pose proof (N.mod_lt (base + b) 340282366920938463463374607431768211456).
    intros Heq. rewrite Heq in *.
    set (q1 := (base + a) / 340282366920938463463374607431768211456) in *.
    set (q2 := (base + b) / 340282366920938463463374607431768211456) in *.
    set (r := (base + b) mod 340282366920938463463374607431768211456) in *.
    assert (q1 = q2 \/ q1 < q2 \/ q2 < q1) by lia.
    destruct H3 as [-> | [Hlt | Hlt]]; nia.
  Qed.

  Lemma no_counter_reuse key samples iv encs :
    length iv = 16%nat -> bytes_ok iv = true ->
    encrypt_samples_cenc E protfunc key iv samples = Ok encs ->
    sumN (map blocks_of encs) < M128 ->
    forall i j ei ej t t',
      (i < j)%nat -> nth_error encs i = Some ei -> nth_error encs j = Some ej ->
      t < blocks_of ei -> t' < blocks_of ej ->
      (be (e_iv ei) + t) mod M128 <> (be (e_iv ej) + t') mod M128.
  Proof.
    intros Hl Hb Henc Htot i j ei ej t t' Hij Hi Hj Ht Ht'.
    destruct (iv_chain key samples iv encs Hl Hb Henc i ei Hi) as (_ & _ & Hei).
    destruct (iv_chain key samples iv encs Hl Hb Henc j ej Hj) as (_ & _ & Hej).
    rewrite Hei, Hej, !N.add_mod_idemp_l by discriminate.
    rewrite <- !N.add_assoc.
    pose proof (sum_firstn_lt blocks_of encs i j ei Hij Hi).
    assert (Hj' : sumN (map blocks_of (firstn j encs)) + blocks_of ej <= sumN (map blocks_of encs)).
    { pose proof (sum_firstn_lt blocks_of encs j (S j) ej ltac:(lia) Hj).
      pose proof (sum_firstn_le blocks_of encs (S j)). lia. }
    apply mod_offsets_differ; lia.
  Qed.
End Chain.
