(* C07TrafModel.v — EncryptFragment on the BYTES of a fragment: the moof children as complete boxes (one traf,
   its children as complete boxes) and the mdat payload as the concatenation of the samples.  The three boxes it
   adds are the byte encodings of the C06 senc/saiz/saio model (coq/c06/C06SencModel.v, read-only import:
   SencBox.Encode, SaizBox.EncodeSW, SaioBox.EncodeSW as EncryptFragment leaves them).  Definitions only.
   Not in this model: the size fields of the moof / traf headers and trun.data_offset, which Fragment.Encode
   recomputes because the moof grows (C05/C06 cover them); everything else of the fragment is here byte for byte. *)
From V.lib Require Import Base.
From V.c07 Require Import C07Model.
From V.c06 Require Import C06SencModel.

Record bfrag := mkBF {
  bf_before : list (list N);    (* moof children in front of the traf (mfhd, ...), each a complete box *)
  bf_traf : list (list N);      (* the children of the traf (tfhd, tfdt, trun, ...) *)
  bf_after : list (list N);     (* moof children behind the traf *)
  bf_samples : list (list N)    (* the samples; mdat payload = their concatenation *)
}.

Definition cc_moof : list N := [109; 111; 111; 102].
Definition cc_traf : list N := [116; 114; 97; 102].
Definition box_hdr (cc : list N) (payload : list N) : list N := be_bytes4 (8 + lenN payload) ++ cc.

Definition traf_bytes (f : bfrag) : list N := box_hdr cc_traf (concat (bf_traf f)) ++ concat (bf_traf f).
Definition moof_payload (f : bfrag) : list N := concat (bf_before f) ++ traf_bytes f ++ concat (bf_after f).
Definition moof_bytes (f : bfrag) : list N := box_hdr cc_moof (moof_payload f) ++ moof_payload f.
Definition mdat_payload (f : bfrag) : list N := concat (bf_samples f).

Section EncryptFragment.
  Variable E : list N -> list N -> list N.
  Variable D : list N -> list N -> list N.
  Variable protfunc : list N -> res (list ssp).

  (* the per-sample loop of EncryptFragment for the scheme of ipd *)
  Definition encrypt_samples (sch : scheme) (key iv : list N) (cb sb : N) (samples : list (list N))
    : res (list enc_sample) :=
    match sch with
    | Cenc => encrypt_samples_cenc E protfunc key iv samples
    | Cbcs => encrypt_samples_cbcs E D protfunc key iv cb sb samples
    | SchemeOther => Err
    end.

  (* func EncryptFragment(f, key, iv, ipd): saiz, saio, senc are appended to the traf in this order; the samples
     are encrypted in place; saio.Offset[0] is computed from the sizes of the boxes as they then stand.
     (senc.AddSample's error is ignored by the Go code; it cannot occur here: all IVs have 16 bytes resp. none) *)
  Definition encrypt_fragment_bytes (sch : scheme) (key iv : list N) (cb sb : N) (f : bfrag) : res bfrag :=
    let iv := pad_iv iv in
    if negb (lenN iv =? 16) then Err else
    do encs <- encrypt_samples sch key iv cb sb (bf_samples f);
    do z <- saiz_of saiz_empty encs;
    do s <- senc_of senc_empty encs;
    do saizb <- saiz_encode z;
    do sencb <- senc_encode s;
    let off := saio_offset (map (fun b => lenN b) (bf_before f))
                 (map (fun b => (false, lenN b)) (bf_traf f ++ [saizb; saio_encode 0]) ++ [(true, lenN sencb)]) in
    Ok (mkBF (bf_before f) (bf_traf f ++ [saizb; saio_encode off; sencb]) (bf_after f) (map e_data encs)).
End EncryptFragment.

(* a reader of the auxiliary information: cut the data into pieces of the given sizes *)
Fixpoint aux_walk (sizes : list N) (data : list N) : list (list N) * list N :=
  match sizes with
  | [] => ([], data)
  | z :: t => let '(es, rest) := aux_walk t (skipn (N.to_nat z) data) in (firstn (N.to_nat z) data :: es, rest)
  end.

(* the offset field of a saio box as written by saio_encode *)
Definition saio_offset_field (saiob : list N) : N := be (firstn 4 (skipn 16 saiob)).
