(* C07CodecProofs.v — the cbcs shape instantiated with the C15 slice-header models (AVC and HEVC): the protected
   bytes of a video NAL unit start exactly sh_size / s_size bytes in (the bytes the C15 parser consumed), and the
   sample crypt over these ranges is the reference 1:9 CBC pattern. *)
From V.lib Require Import Base.
From V.c07 Require Import C07Model C07Spec C07RangeProofs C07CbcsProofs C07FinalProofs C07CodecModel C07SizeProofs.
From V.c15 Require Import C15Model C15HevcModel.

(* slice header size as a total function (0 where the header does not parse: never used there) *)
Definition hs_of (hdr : list N -> res N) (n : list N) : N := match hdr n with Ok h => h | _ => 0 end.

Section Generic.
  Variable isvideo : N -> bool.
  Variable hdr : list N -> res N.

  Definition headers_parse (nalus : list (list N)) : Prop :=
    forall n, In n nalus -> first_is_video isvideo n = true -> exists h, hdr n = Ok h /\ h <= lenN n.

  Lemma cbcs_shape_hdr nalus :
    wf_nalus_cbcs nalus = true -> lenN (frames nalus) < 4294967296 -> headers_parse nalus ->
    exists r, protect_ranges_r isvideo hdr Cbcs (frames nalus) = Ok r /\
              expand r = spec_mask isvideo (fun n => lenN n - hs_of hdr n) nalus /\
              sumN (map (fun p => ss_clear p + ss_prot p) r) = lenN (frames nalus) /\
              Forall (fun p => ss_clear p < 65536) r.
  Proof.
    intros Hwf Hlen Hp. apply cbcs_shape_final; [exact Hwf|exact Hlen|].
    intros n Hin Hv. destruct (Hp n Hin Hv) as (h & Hh & Hle). unfold hs_of. rewrite Hh. split; [reflexivity|exact Hle].
  Qed.

  (* ranges + crypt of one sample: cryptSampleCbcs over the ranges GetXProtectRanges returns is the reference
     crypt:skip CBC pattern over exactly the bytes after each slice header *)
  Lemma cbcs_sample_hdr (E D : list N -> list N -> list N) key iv cb sb nalus :
    (forall k b, length (E k b) = 16%nat) -> (forall k b, length (D k b) = 16%nat) ->
    key_ok key = true -> length iv = 16%nat ->
    wf_nalus_cbcs nalus = true -> lenN (frames nalus) < 4294967296 -> headers_parse nalus ->
    exists r, protect_ranges_r isvideo hdr Cbcs (frames nalus) = Ok r /\
              expand r = spec_mask isvideo (fun n => lenN n - hs_of hdr n) nalus /\
              crypt_sample_cbcs E D false key iv r cb sb (frames nalus)
              = Ok (ref_cbcs E D false key iv r cb sb (frames nalus)).
  Proof.
    intros HE HD Hk Hiv Hwf Hlen Hp.
    destruct (cbcs_shape_hdr nalus Hwf Hlen Hp) as (r & Hr & Hm & Hs & _).
    exists r. split; [exact Hr|]. split; [exact Hm|].
    apply cbcs_matches_reference_final; try assumption. rewrite Hs. apply N.le_refl.
  Qed.
End Generic.

Lemma avc_hdr_parse spsmap ppsmap n sh :
  parse_slice_er spsmap ppsmap n = Ok sh -> avc_hdr spsmap ppsmap n = Ok (sh_size sh).
Proof. intros H. unfold avc_hdr. rewrite H. reflexivity. Qed.

Lemma hevc_hdr_parse spsmap ppsmap n sh :
  hparse_slice_er spsmap ppsmap n = Ok sh -> hevc_hdr spsmap ppsmap n = Ok (s_size sh).
Proof. intros H. unfold hevc_hdr. rewrite H. reflexivity. Qed.

Definition avc_headers_parse spsmap ppsmap (nalus : list (list N)) : Prop :=
  forall n, In n nalus -> first_is_video avc_is_video n = true ->
    exists sh, parse_slice_er spsmap ppsmap n = Ok sh.

Definition hevc_headers_parse spsmap ppsmap (nalus : list (list N)) : Prop :=
  forall n, In n nalus -> first_is_video hevc_is_video n = true ->
    exists sh, hparse_slice_er spsmap ppsmap n = Ok sh.

Lemma cbcs_shape_avc (E D : list N -> list N -> list N) spsmap ppsmap key iv nalus :
  (forall k b, length (E k b) = 16%nat) -> (forall k b, length (D k b) = 16%nat) ->
  key_ok key = true -> length iv = 16%nat ->
  wf_nalus_cbcs nalus = true -> lenN (frames nalus) < 4294967296 ->
  avc_headers_parse spsmap ppsmap nalus ->
  exists r, avc_protect_ranges spsmap ppsmap Cbcs (frames nalus) = Ok r /\
            expand r = spec_mask avc_is_video (fun n => lenN n - hs_of (avc_hdr spsmap ppsmap) n) nalus /\
            sumN (map (fun p => ss_clear p + ss_prot p) r) = lenN (frames nalus) /\
            Forall (fun p => ss_clear p < 65536) r /\
            crypt_sample_cbcs E D false key iv r 1 9 (frames nalus)
            = Ok (ref_cbcs E D false key iv r 1 9 (frames nalus)).
Proof.
  intros HE HD Hk Hiv Hwf Hlen Hp.
  assert (Hp' : headers_parse avc_is_video (avc_hdr spsmap ppsmap) nalus).
  { intros n Hin Hv. destruct (Hp n Hin Hv) as (sh & Hsh). exists (sh_size sh).
    split; [apply avc_hdr_parse; exact Hsh|apply (avc_slice_size_le _ _ _ _ Hsh)]. }
  destruct (cbcs_shape_hdr _ _ nalus Hwf Hlen Hp') as (r & Hr & Hm & Hs & Hc).
  exists r. repeat split; try assumption.
  apply cbcs_matches_reference_final; try assumption. rewrite Hs. apply N.le_refl.
Qed.

Lemma cbcs_shape_hevc (E D : list N -> list N -> list N) spsmap ppsmap key iv nalus :
  (forall k b, length (E k b) = 16%nat) -> (forall k b, length (D k b) = 16%nat) ->
  key_ok key = true -> length iv = 16%nat ->
  wf_nalus_cbcs nalus = true -> lenN (frames nalus) < 4294967296 ->
  hevc_headers_parse spsmap ppsmap nalus ->
  exists r, hevc_protect_ranges spsmap ppsmap Cbcs (frames nalus) = Ok r /\
            expand r = spec_mask hevc_is_video (fun n => lenN n - hs_of (hevc_hdr spsmap ppsmap) n) nalus /\
            sumN (map (fun p => ss_clear p + ss_prot p) r) = lenN (frames nalus) /\
            Forall (fun p => ss_clear p < 65536) r /\
            crypt_sample_cbcs E D false key iv r 1 9 (frames nalus)
            = Ok (ref_cbcs E D false key iv r 1 9 (frames nalus)).
Proof.
  intros HE HD Hk Hiv Hwf Hlen Hp.
  assert (Hp' : headers_parse hevc_is_video (hevc_hdr spsmap ppsmap) nalus).
  { intros n Hin Hv. destruct (Hp n Hin Hv) as (sh & Hsh). exists (s_size sh).
    split; [apply hevc_hdr_parse; exact Hsh|apply (hevc_slice_size_le _ _ _ _ Hsh)]. }
  destruct (cbcs_shape_hdr _ _ nalus Hwf Hlen Hp') as (r & Hr & Hm & Hs & Hc).
  exists r. repeat split; try assumption.
  apply cbcs_matches_reference_final; try assumption. rewrite Hs. apply N.le_refl.
Qed.

(* ---------------------------------------------------------------- the slice header does not parse *)
(* the exact outcome when avc/hevc.ParseSliceHeader returns an error for some video NAL unit (truncated slice, unknown
   PPS / SPS id, a "video" NAL unit type without slice header syntax, an empty NAL unit): the first such NAL unit makes
   Get(AVC|HEVC)ProtectRanges return the error - the sample (and with it the fragment: EncryptFragment returns
   "get protect ranges: ...") is refused, nothing is described wrongly *)
Section Refused.
  Variable isvideo : N -> bool.
  Variable hdr : list N -> res N.

  Lemma cbcs_unparsable_refused pre n post :
    (forall m, In m pre -> nonempty m = true /\
               (first_is_video isvideo m = true -> exists h, hdr m = Ok h /\ h <= lenN m)) ->
    first_is_video isvideo n = true -> hdr n = Err ->
    lenN (frames (pre ++ n :: post)) < 4294967296 ->
    protect_ranges_r isvideo hdr Cbcs (frames (pre ++ n :: post)) = Err.
  Proof.
    intros Hpre Hv Hh Hlen. destruct n as [|b0 t]; [discriminate|]. cbn [first_is_video] in Hv.
    apply (protect_ranges_hdr_err isvideo hdr Cbcs (p_cbcs isvideo (hs_of hdr)) (fun _ => True) I pre b0 t post
             eq_refl Hv Hh Hlen).
    apply Forall_forall. intros m Hm. split; [|exact I]. destruct (Hpre m Hm) as [Hne Hp].
    destruct m as [|c0 u]; [discriminate|]. unfold decides, p_cbcs, hs_of. cbn [first_is_video] in *.
    destruct (isvideo c0); [|reflexivity].
    destruct (Hp eq_refl) as (h & H1 & H2). exists h. rewrite H1. split; [reflexivity|]. split; [exact H2|reflexivity].
  Qed.
End Refused.

Lemma cbcs_unparsable_refused_avc spsmap ppsmap pre n post :
  (forall m, In m pre -> nonempty m = true /\
             (first_is_video avc_is_video m = true -> exists sh, parse_slice_er spsmap ppsmap m = Ok sh)) ->
  first_is_video avc_is_video n = true -> parse_slice_er spsmap ppsmap n = Err ->
  lenN (frames (pre ++ n :: post)) < 4294967296 ->
  avc_protect_ranges spsmap ppsmap Cbcs (frames (pre ++ n :: post)) = Err.
Proof.
  intros Hpre Hv Hh Hlen. unfold avc_protect_ranges. apply cbcs_unparsable_refused; try assumption.
  - intros m Hm. destruct (Hpre m Hm) as [H1 H2]. split; [exact H1|]. intros Hvm.
    destruct (H2 Hvm) as (sh & Hsh). exists (sh_size sh).
    split; [apply avc_hdr_parse; exact Hsh|apply (avc_slice_size_le _ _ _ _ Hsh)].
  - unfold avc_hdr. rewrite Hh. reflexivity.
Qed.

Lemma cbcs_unparsable_refused_hevc spsmap ppsmap pre n post :
  (forall m, In m pre -> nonempty m = true /\
             (first_is_video hevc_is_video m = true -> exists sh, hparse_slice_er spsmap ppsmap m = Ok sh)) ->
  first_is_video hevc_is_video n = true -> hparse_slice_er spsmap ppsmap n = Err ->
  lenN (frames (pre ++ n :: post)) < 4294967296 ->
  hevc_protect_ranges spsmap ppsmap Cbcs (frames (pre ++ n :: post)) = Err.
Proof.
  intros Hpre Hv Hh Hlen. unfold hevc_protect_ranges. apply cbcs_unparsable_refused; try assumption.
  - intros m Hm. destruct (Hpre m Hm) as [H1 H2]. split; [exact H1|]. intros Hvm.
    destruct (H2 Hvm) as (sh & Hsh). exists (s_size sh).
    split; [apply hevc_hdr_parse; exact Hsh|apply (hevc_slice_size_le _ _ _ _ Hsh)].
  - unfold hevc_hdr. rewrite Hh. reflexivity.
Qed.

(* an empty NAL unit in front of another NAL unit of less than 2^24 bytes, AVC cbcs: the byte the code takes for the
   NAL header is the top byte 0 of the next length field, NAL unit type 0 counts as video, the empty NAL unit goes to
   avc.ParseSliceHeader, which fails on it: the sample is refused *)
Lemma avc_parse_empty spsmap ppsmap : parse_slice_er spsmap ppsmap [] = Err.
Proof. reflexivity. Qed.

Lemma cbcs_empty_inside_refused_avc spsmap ppsmap pre n2 post :
  (forall m, In m pre -> nonempty m = true /\
             (first_is_video avc_is_video m = true -> exists sh, parse_slice_er spsmap ppsmap m = Ok sh)) ->
  lenN n2 < 16777216 ->
  lenN (frames (pre ++ [] :: n2 :: post)) < 4294967296 ->
  avc_protect_ranges spsmap ppsmap Cbcs (frames (pre ++ [] :: n2 :: post)) = Err.
Proof.
  intros Hpre Hn2 Hlen. unfold avc_protect_ranges.
  apply (protect_ranges_empty_inside_err avc_is_video (avc_hdr spsmap ppsmap) Cbcs
           (p_cbcs avc_is_video (hs_of (avc_hdr spsmap ppsmap))) (fun _ => True) I pre n2 post eq_refl).
  - rewrite N.div_small by exact Hn2. reflexivity.
  - unfold avc_hdr. rewrite avc_parse_empty. reflexivity.
  - exact Hlen.
  - apply Forall_forall. intros m Hm. split; [|exact I]. destruct (Hpre m Hm) as [Hne Hp].
    destruct m as [|c0 u]; [discriminate|]. unfold decides, p_cbcs, hs_of. cbn [first_is_video] in *.
    destruct (avc_is_video c0); [|reflexivity].
    destruct (Hp eq_refl) as (sh & Hsh). exists (sh_size sh). rewrite (avc_hdr_parse _ _ _ _ Hsh).
    split; [reflexivity|]. split; [apply (avc_slice_size_le _ _ _ _ Hsh)|reflexivity].
Qed.
