(* C07Theorems.v — the property theorems of C07 and nothing else.  Each is closed by `exact <lemma>` and
   followed by Print Assumptions (audited by ./check on every run).
   Vocabulary (C07Spec.v): frames nalus = concatenation of 4-byte-length-prefixed NAL units; expand r = the
   per-byte clear(false)/protected(true) flags described by the sub-sample entries r; spec_mask = the flags the
   property prescribes; ref_cenc = reference AES-CTR (counter block i = IV + i as a 128-bit big-endian integer)
   xor-ed over the protected bytes in order, identity elsewhere.  E is ANY function from key and block to
   16-byte blocks. *)
From V.lib Require Import Base.
From V.c05 Require Import C05Model C05FragModel C05OffProofs.
From V.c15 Require Import C15Model C15Spec C15HevcModel C15HevcSpec C15Examples C15HevcSliceExamples.
From V.c06 Require Import C06SencModel C06SencAuxProofs.
From V.c07 Require Import C07Model C07Spec C07RangeProofs C07CryptProofs C07AuxProofs C07FinalProofs.
From V.c07 Require Import C07CodecModel C07CodecProofs C07FragProofs C07OnlyProofs C07TrafModel C07TrafProofs C07MixedProofs C07OffsetProofs C07SizeProofs.
From V.c07 Require Import C07WrapModel C07WrapProofs C07WrapFinalProofs C07WrapFragProofs.

(* AppendProtectRange, every nrClear / nrProtected (65535, 65536, 131070, ... included) *)
Theorem C07_append_protect_range : forall ssps c p,
  exists r, append_protect_range ssps c p = Ok r /\
            expand r = expand ssps ++ rep false c ++ rep true p /\
            (Forall (fun e => ss_clear e < 65536) ssps -> Forall (fun e => ss_clear e < 65536) r).
Proof. exact append_protect_range_final. Qed.
Print Assumptions C07_append_protect_range.

(* the sub-sample entries partition the sample exactly, clear counts fit 16 bits, protected counts are whole
   blocks — for EVERY non-empty list of NAL units of ANY sizes, 0 (a bare length field), 1 and 2 (shorter than an
   HEVC NAL header) included (AVC and HEVC: any isvideo).  protect_ranges_r = the text since /repo 401deba; with the
   text before it (protect_ranges) a trailing empty NAL unit was not covered: C07_partition_pinned_refuted *)
Theorem C07_partition : forall (isvideo : N -> bool) (hdr : list N -> res N) (nalus : list (list N)),
  nalus <> [] ->
  lenN (frames nalus) < 4294967296 ->
  exists r, protect_ranges_r isvideo hdr Cenc (frames nalus) = Ok r /\
            sumN (map (fun p => ss_clear p + ss_prot p) r) = lenN (frames nalus) /\
            Forall (fun p => ss_clear p < 65536 /\ ss_prot p mod 16 = 0) r.
Proof. exact partition_final. Qed.
Print Assumptions C07_partition.

(* cenc shape: byte-for-byte, the entries protect exactly the last prot_cenc(len) bytes of every video NALU and
   nothing else (length fields, NAL headers, non-video NALUs clear); prot_cenc is positive iff len+4 >= 112, a
   multiple of 16, leaves 96..111 bytes clear from the length field on, and protects every NALU longer than
   127 bytes starting at most 127 bytes in *)
Theorem C07_cenc_shape : forall (isvideo : N -> bool) (hdr : list N -> res N) (nalus : list (list N)),
  nalus <> [] ->
  lenN (frames nalus) < 4294967296 ->
  (exists r, protect_ranges_r isvideo hdr Cenc (frames nalus) = Ok r /\
             expand r = spec_mask isvideo (fun n => prot_cenc (lenN n)) nalus) /\
  (forall L, (0 < prot_cenc L <-> 112 <= L + 4) /\
             prot_cenc L mod 16 = 0 /\
             prot_cenc L <= L /\
             (112 <= L + 4 -> 96 <= L + 4 - prot_cenc L /\ L + 4 - prot_cenc L <= 111) /\
             (127 < L -> 0 < prot_cenc L /\ L - prot_cenc L <= 127)).
Proof. exact cenc_shape_final. Qed.
Print Assumptions C07_cenc_shape.

(* cbcs shape, parametric in the slice-header size function hs (guard hs n <= |n| explicit): the protected bytes
   of a video NALU are exactly those after its slice header *)
Theorem C07_cbcs_shape : forall (isvideo : N -> bool) (hdr : list N -> res N) (hs : list N -> N)
                                (nalus : list (list N)),
  wf_nalus_cbcs nalus = true ->
  lenN (frames nalus) < 4294967296 ->
  (forall n, In n nalus -> first_is_video isvideo n = true -> hdr n = Ok (hs n) /\ hs n <= lenN n) ->
  exists r, protect_ranges_r isvideo hdr Cbcs (frames nalus) = Ok r /\
            expand r = spec_mask isvideo (fun n => lenN n - hs n) nalus /\
            sumN (map (fun p => ss_clear p + ss_prot p) r) = lenN (frames nalus) /\
            Forall (fun p => ss_clear p < 65536) r.
Proof. exact cbcs_shape_final. Qed.
Print Assumptions C07_cbcs_shape.

(* incrementIV is big-endian addition of the block count modulo 2^(8|iv|): every IV length, every carry chain *)
Theorem C07_iv_increment : forall iv ssps slen,
  bytes_ok iv = true ->
  be (increment_iv iv ssps slen) = (be iv + nr_enc_blocks ssps slen) mod 2 ^ (8 * lenN iv).
Proof. exact iv_increment_final. Qed.
Print Assumptions C07_iv_increment.

Theorem C07_iv_increment_inplace : forall iv n,
  bytes_ok iv = true ->
  be (increment_iv_inplace iv n) = (be iv + n) mod 2 ^ (8 * lenN iv) /\
  length (increment_iv_inplace iv n) = length iv.
Proof. exact iv_increment_inplace_final. Qed.
Print Assumptions C07_iv_increment_inplace.

(* CryptSampleCenc = reference CTR over the protected bytes in order, identity elsewhere — for EVERY block
   function E and every sub-sample map that fits the sample *)
Theorem C07_matches_reference :
  forall (E : list N -> list N -> list N) (key iv : list N) (ssps : list ssp) (sample : list N),
  (forall k b, length (E k b) = 16%nat) ->
  length iv = 16%nat -> bytes_ok iv = true -> key_ok key = true ->
  sumN (map (fun p => ss_clear p + ss_prot p) ssps) <= lenN sample ->
  lenN sample < 4294967296 ->
  crypt_sample_cenc E key iv ssps sample = Ok (ref_cenc E key iv ssps sample).
Proof. exact matches_reference_final. Qed.
Print Assumptions C07_matches_reference.

(* the per-sample loop of EncryptFragment (cenc): IV chain and no counter block used twice in a fragment *)
Theorem C07_no_counter_reuse :
  forall (E : list N -> list N -> list N) (protfunc : list N -> res (list ssp))
         (key iv : list N) (samples : list (list N)) (encs : list enc_sample),
  length iv = 16%nat -> bytes_ok iv = true ->
  encrypt_samples_cenc E protfunc key iv samples = Ok encs ->
  sumN (map blocks_of encs) < 2 ^ 128 ->
  (forall i ei, nth_error encs i = Some ei ->
     be (e_iv ei) = (be iv + sumN (map blocks_of (firstn i encs))) mod 2 ^ 128) /\
  (forall e, aligned e -> prot_total e <= 16 * blocks_of e) /\
  (forall i j ei ej t t',
     (i < j)%nat -> nth_error encs i = Some ei -> nth_error encs j = Some ej ->
     t < blocks_of ei -> t' < blocks_of ej ->
     (be (e_iv ei) + t) mod 2 ^ 128 <> (be (e_iv ej) + t') mod 2 ^ 128).
Proof. exact no_counter_reuse_final. Qed.
Print Assumptions C07_no_counter_reuse.

(* cbcs: cryptSampleCbcs (both directions) = reference CBC over the crypt:skip block pattern (1:9 for video,
   every whole block for audio), chained over the crypted blocks only, the constant IV restarted in every protected
   range, identity elsewhere — for all block functions with 16-byte outputs *)
Theorem C07_cbcs_matches_reference :
  forall (E D : list N -> list N -> list N) (key : list N),
  (forall k b, length (E k b) = 16%nat) ->
  (forall k b, length (D k b) = 16%nat) ->
  forall (dec : bool) (iv : list N) (ssps : list ssp) (cb sb : N) (sample : list N),
  key_ok key = true -> length iv = 16%nat ->
  sumN (map (fun p => ss_clear p + ss_prot p) ssps) <= lenN sample ->
  lenN sample < 4294967296 ->
  crypt_sample_cbcs E D dec key iv ssps cb sb sample = Ok (ref_cbcs E D dec key iv ssps cb sb sample).
Proof. exact cbcs_matches_reference_final. Qed.
Print Assumptions C07_cbcs_matches_reference.

(* auxiliary information: AddSampleInfo records the byte length of the senc entry MODULO 256; it is the length
   whenever the entry is shorter than 256 bytes (i.e. < 40 sub-samples with a 16-byte IV, < 43 without IV) *)
Theorem C07_aux_info : forall b iv ssps b',
  ssps <> [] -> saiz_add b iv ssps = Ok b' ->
  sz_info b' = sz_info b ++ [lenN (entry_bytes iv ssps) mod 256] /\
  sz_count b' = sz_count b + 1 /\
  (lenN (entry_bytes iv ssps) < 256 -> sz_info b' = sz_info b ++ [lenN (entry_bytes iv ssps)]).
Proof. exact aux_info_final. Qed.
Print Assumptions C07_aux_info.

Theorem C07_aux_entry : forall s i iv ssps,
  0 <? sn_ivsize s = true -> sn_subs s = true ->
  nth_error (sn_ivs s) i = Some iv -> nth_error (sn_ss s) i = Some ssps ->
  senc_entry s i = Ok (entry_bytes iv ssps) /\ lenN (entry_bytes iv ssps) = lenN iv + 2 + 6 * lenN ssps.
Proof. exact aux_entry_final. Qed.
Print Assumptions C07_aux_entry.

(* the unguarded statement is false (known finding C07-F1, reproduced on the real code by the search):
   40 sub-samples + 16-byte IV = 258 bytes, recorded as 2 *)
Theorem C07_aux_info_overflow_refuted :
  exists iv ssps b',
    lenN iv = 16 /\ lenN ssps = 40 /\
    saiz_add saiz_empty iv ssps = Ok b' /\ sz_info b' = [2] /\ lenN (entry_bytes iv ssps) = 258.
Proof. exact aux_info_overflow_final. Qed.
Print Assumptions C07_aux_info_overflow_refuted.

(* saio: the offset EncryptFragment stores is the position of the first senc entry computed from the box sizes
   AT ENCRYPTION TIME (moof header, boxes before the traf, traf header, traf children before senc, senc header).
   Nothing updates it when Fragment.Encode later rewrites tfhd/trun (OptimizeTrun): known finding C07-F2. *)
Theorem C07_saio_offset : forall before pre z post,
  forallb (fun x => negb (fst x)) pre = true -> forallb (fun x => negb (fst x)) post = true ->
  saio_offset before (pre ++ (true, z) :: post) = 8 + sumN before + 8 + sumN (map snd pre) + 16.
Proof. exact saio_offset_final. Qed.
Print Assumptions C07_saio_offset.

(* ---------------------------------------------------------------- extension: codecs, fragments, bytes *)
(* cbcs shape with NOTHING left as an oracle, AVC: spsmap / ppsmap are the maps getAVCPSMaps builds, the slice
   header is parsed by the C15 model of avc.ParseSliceHeader (parse_slice_er, sh_size = bytes it consumed).  For
   every sample = list of NAL units in which every video NAL unit's header parses: the ranges are Ok, they
   partition the sample, every video NAL unit is protected exactly from byte sh_size to its end, everything else
   (length fields, the slice header, non-video NAL units wherever they stand) is clear, and the sample crypt over
   these ranges is the reference CBC in the 1:9 block pattern *)
Theorem C07_cbcs_shape_avc :
  forall (E D : list N -> list N -> list N) spsmap ppsmap key iv (nalus : list (list N)),
  (forall k b, length (E k b) = 16%nat) -> (forall k b, length (D k b) = 16%nat) ->
  key_ok key = true -> length iv = 16%nat ->
  wf_nalus_cbcs nalus = true -> lenN (frames nalus) < 4294967296 ->
  (forall n, In n nalus -> first_is_video avc_is_video n = true ->
     exists sh, parse_slice_er spsmap ppsmap n = Ok sh) ->
  exists r, avc_protect_ranges spsmap ppsmap Cbcs (frames nalus) = Ok r /\
            expand r = spec_mask avc_is_video (fun n => lenN n - hs_of (avc_hdr spsmap ppsmap) n) nalus /\
            sumN (map (fun p => ss_clear p + ss_prot p) r) = lenN (frames nalus) /\
            Forall (fun p => ss_clear p < 65536) r /\
            crypt_sample_cbcs E D false key iv r 1 9 (frames nalus)
            = Ok (ref_cbcs E D false key iv r 1 9 (frames nalus)).
Proof. exact cbcs_shape_avc. Qed.
Print Assumptions C07_cbcs_shape_avc.

(* the same for HEVC: hparse_slice_er is the C15 model of hevc.ParseSliceHeader (dependent slice segments,
   non-first segments, ... : whatever the parser accepts), s_size the bytes it consumed *)
Theorem C07_cbcs_shape_hevc :
  forall (E D : list N -> list N -> list N) spsmap ppsmap key iv (nalus : list (list N)),
  (forall k b, length (E k b) = 16%nat) -> (forall k b, length (D k b) = 16%nat) ->
  key_ok key = true -> length iv = 16%nat ->
  wf_nalus_cbcs nalus = true -> lenN (frames nalus) < 4294967296 ->
  (forall n, In n nalus -> first_is_video hevc_is_video n = true ->
     exists sh, hparse_slice_er spsmap ppsmap n = Ok sh) ->
  exists r, hevc_protect_ranges spsmap ppsmap Cbcs (frames nalus) = Ok r /\
            expand r = spec_mask hevc_is_video (fun n => lenN n - hs_of (hevc_hdr spsmap ppsmap) n) nalus /\
            sumN (map (fun p => ss_clear p + ss_prot p) r) = lenN (frames nalus) /\
            Forall (fun p => ss_clear p < 65536) r /\
            crypt_sample_cbcs E D false key iv r 1 9 (frames nalus)
            = Ok (ref_cbcs E D false key iv r 1 9 (frames nalus)).
Proof. exact cbcs_shape_hevc. Qed.
Print Assumptions C07_cbcs_shape_hevc.

(* no counter block is reused inside a fragment, WITHOUT a hypothesis on the number of blocks: sample sizes and
   the sample count are uint32 (trun), which bounds a fragment below 2^60 blocks, far from the 2^128 wrap of
   incrementIV / cipher.NewCTR (both wrap modulo 2^128: C07_iv_increment).  prot_in_sample: the ranges describe
   bytes of the sample (C07_partition for AVC/HEVC, trivial for audio) *)
Theorem C07_no_counter_reuse_fragment :
  forall (E : list N -> list N -> list N) (protfunc : list N -> res (list ssp)),
  prot_in_sample protfunc ->
  forall key iv samples encs,
  length iv = 16%nat -> bytes_ok iv = true ->
  Forall (fun s => lenN s < 4294967296) samples -> lenN samples < 4294967296 ->
  encrypt_samples_cenc E protfunc key iv samples = Ok encs ->
  sumN (map blocks_of encs) < 2 ^ 60 /\
  (forall i ei, nth_error encs i = Some ei ->
     be (e_iv ei) = (be iv + sumN (map blocks_of (firstn i encs))) mod 2 ^ 128) /\
  (forall i j ei ej t t',
     (i < j)%nat -> nth_error encs i = Some ei -> nth_error encs j = Some ej ->
     t < blocks_of ei -> t' < blocks_of ej ->
     (be (e_iv ei) + t) mod 2 ^ 128 <> (be (e_iv ej) + t') mod 2 ^ 128).
Proof. exact no_counter_reuse_frag. Qed.
Print Assumptions C07_no_counter_reuse_fragment.

(* an 8-byte IV is padded with 8 zero bytes (EncryptFragment / InitProtect): every per-sample IV of the fragment
   keeps the 8 IV bytes in its upper half, its lower half is the number of blocks used before the sample: the
   lower half neither wraps at 2^64 nor carries into the IV half inside a fragment *)
Theorem C07_iv8_layout :
  forall (E : list N -> list N -> list N) (protfunc : list N -> res (list ssp)),
  prot_in_sample protfunc ->
  forall key iv8 samples encs,
  length iv8 = 8%nat -> bytes_ok iv8 = true ->
  Forall (fun s => lenN s < 4294967296) samples -> lenN samples < 4294967296 ->
  encrypt_samples_cenc E protfunc key (pad_iv iv8) samples = Ok encs ->
  forall i ei, nth_error encs i = Some ei ->
    be (e_iv ei) / 2 ^ 64 = be iv8 /\
    be (e_iv ei) mod 2 ^ 64 = sumN (map blocks_of (firstn i encs)) /\
    sumN (map blocks_of (firstn i encs)) < 2 ^ 60.
Proof. exact iv8_layout. Qed.
Print Assumptions C07_iv8_layout.

(* ACROSS fragments nothing is carried over: two fragments encrypted from the same IV (cmd/mp4ff-encrypt hands
   the command-line IV to every fragment) both start on counter block IV - outside "inside a fragment", stated
   so that the scope of C07_no_counter_reuse_fragment is explicit *)
Theorem C07_cross_fragment_restart :
  forall (E : list N -> list N -> list N) protfunc key iv s1 t1 s2 t2 e1 r1 e2 r2,
  encrypt_samples_cenc E protfunc key iv (s1 :: t1) = Ok (e1 :: r1) ->
  encrypt_samples_cenc E protfunc key iv (s2 :: t2) = Ok (e2 :: r2) ->
  e_iv e1 = iv /\ e_iv e2 = iv.
Proof. exact cross_fragment_restart. Qed.
Print Assumptions C07_cross_fragment_restart.

(* "everything else in the fragment is byte-identical to the clear input", on the BYTES of the fragment
   (C07TrafModel.v): EncryptFragment keeps every box in front of / behind the traf and every child of the traf,
   appends exactly three boxes of types saiz, saio, senc to the traf, keeps the number and the sizes of the samples
   and changes the mdat payload at most at the positions the sub-sample maps mark as protected (all positions of a
   sample without map = audio).  keep_clear m a b: equal lengths and a, b agree wherever m is false *)
Theorem C07_fragment_only_protected :
  forall (E D : list N -> list N -> list N) (protfunc : list N -> res (list ssp)),
  (forall k b, length (E k b) = 16%nat) -> (forall k b, length (D k b) = 16%nat) ->
  forall sch key iv cb sb f g,
  (forall s r, protfunc s = Ok r -> covered r <= lenN s) ->
  key_ok key = true -> bytes_ok iv = true ->
  Forall (fun s => lenN s < 4294967296) (bf_samples f) ->
  encrypt_fragment_bytes E D protfunc sch key iv cb sb f = Ok g ->
  bf_before g = bf_before f /\ bf_after g = bf_after f /\
  (exists saizb saiob sencb,
      bf_traf g = bf_traf f ++ [saizb; saiob; sencb] /\
      is_box [115; 97; 105; 122] saizb /\ is_box [115; 97; 105; 111] saiob /\ is_box [115; 101; 110; 99] sencb) /\
  (exists encs,
      bf_samples g = map e_data encs /\
      Forall2 (fun s e => protfunc s = Ok (e_ssps e) /\ length (e_data e) = length s) (bf_samples f) encs /\
      keep_clear (concat (map (fun e => sample_mask (e_ssps e) (lenN (e_data e))) encs))
                 (mdat_payload f) (mdat_payload g)).
Proof. exact encrypt_fragment_only. Qed.
Print Assumptions C07_fragment_only_protected.

(* the auxiliary information describes the entries actually written, over the bytes of the written moof: skipping
   saio.offset[0] bytes of the moof lands on the first per-sample entry of senc, and cutting pieces of the saiz
   sizes from there yields exactly the entries of the samples (IV || sub-sample table as SencBox.Encode writes
   them), followed by what stands behind the traf.  sub = the samples have sub-sample maps (video) or not (audio);
   entries shorter than 256 bytes (beyond: known finding C07-F1) *)
Theorem C07_aux_traf :
  forall (E D : list N -> list N -> list N) (protfunc : list N -> res (list ssp)) sch key iv cb sb f g sub,
  encrypt_fragment_bytes E D protfunc sch key iv cb sb f = Ok g ->
  prot_uniform protfunc sub (bf_samples f) -> bf_samples f <> [] ->
  let ivsz := match sch with Cenc => 16 | _ => 0 end in
  sub || (0 <? ivsz) = true ->
  (forall encs, encrypt_samples E D protfunc sch key (pad_iv iv) cb sb (bf_samples f) = Ok encs ->
                forallb (fun e => lenN e <? 256) (entries_of ivsz sub encs) = true) ->
  exists encs z saizb off sencb,
    encrypt_samples E D protfunc sch key (pad_iv iv) cb sb (bf_samples f) = Ok encs /\
    saiz_of saiz_empty encs = Ok z /\ saiz_encode z = Ok saizb /\
    bf_traf g = bf_traf f ++ [saizb; saio_encode off; sencb] /\
    saio_offset_field (saio_encode off) = u32 off /\
    aux_walk (saiz_sizes z) (skipn (N.to_nat off) (moof_bytes g))
    = (entries_of ivsz sub encs, concat (bf_after f)) /\
    concat (entries_of ivsz sub encs) ++ concat (bf_after f) = skipn (N.to_nat off) (moof_bytes g) /\
    sz_count z = lenN encs.
Proof. exact aux_traf. Qed.
Print Assumptions C07_aux_traf.

(* ---------------------------------------------------------------- second extension *)
(* EVERY sample Get(AVC|HEVC)ProtectRanges accepts gets at least one sub-sample entry (any bytes, any scheme, any
   slice-header parser): SaizBox.AddSampleInfo / SencBox.AddSample never see a video fragment mixing samples with
   and without entries *)
Theorem C07_subsamples_nonempty : forall isvideo hdr sch sample r,
  lenN sample < 4294967296 -> protect_ranges_r isvideo hdr sch sample = Ok r -> r <> [].
Proof. exact protect_ranges_r_nonempty. Qed.
Print Assumptions C07_subsamples_nonempty.

(* the text before 401deba: a 4-byte sample got no entry; a final empty NAL unit was left out of the partition *)
Theorem C07_partition_pinned_refuted :
  (forall isvideo hdr sch, protect_ranges isvideo hdr sch [0; 0; 0; 0] = Ok [] /\
                           protect_ranges_r isvideo hdr sch [0; 0; 0; 0] = Ok [mkSsp 4 0]) /\
  protect_ranges avc_is_video (fun _ => Err) Cenc (frames [[101; 1]; []]) = Ok [mkSsp 6 0] /\
  protect_ranges_r avc_is_video (fun _ => Err) Cenc (frames [[101; 1]; []]) = Ok [mkSsp 10 0] /\
  lenN (frames [[101; 1]; []]) = 10.
Proof. split; [exact protect_ranges_pinned_empty|]. vm_compute. repeat split; reflexivity. Qed.
Print Assumptions C07_partition_pinned_refuted.

(* C07_aux_traf for EVERY video fragment (no uniformity hypothesis): the saiz sizes and the saio offset describe the
   senc entries actually written, whatever mix of samples with 0 and > 0 protected NAL units, 4-byte samples or
   trailing empty NAL units the fragment holds; every sample has a non-empty entry list *)
Theorem C07_aux_traf_video :
  forall (E D : list N -> list N -> list N) isvideo hdr sch key iv cb sb f g,
  let protfunc := protect_ranges_r isvideo hdr sch in
  encrypt_fragment_bytes E D protfunc sch key iv cb sb f = Ok g ->
  Forall (fun s => lenN s < 4294967296) (bf_samples f) -> bf_samples f <> [] ->
  let ivsz := match sch with Cenc => 16 | _ => 0 end in
  (forall encs, encrypt_samples E D protfunc sch key (pad_iv iv) cb sb (bf_samples f) = Ok encs ->
                forallb (fun e => lenN e <? 256) (entries_of ivsz true encs) = true) ->
  exists encs z saizb off sencb,
    encrypt_samples E D protfunc sch key (pad_iv iv) cb sb (bf_samples f) = Ok encs /\
    Forall (fun e => e_ssps e <> []) encs /\
    saiz_of saiz_empty encs = Ok z /\ saiz_encode z = Ok saizb /\
    bf_traf g = bf_traf f ++ [saizb; saio_encode off; sencb] /\
    saio_offset_field (saio_encode off) = u32 off /\
    aux_walk (saiz_sizes z) (skipn (N.to_nat off) (moof_bytes g))
    = (entries_of ivsz true encs, concat (bf_after f)) /\
    concat (entries_of ivsz true encs) ++ concat (bf_after f) = skipn (N.to_nat off) (moof_bytes g) /\
    sz_count z = lenN encs.
Proof. exact aux_traf_video. Qed.
Print Assumptions C07_aux_traf_video.

(* finding C07-F3 (fixed by 401deba) in the model of the text before it: normal sample + 4-byte sample, cenc: saiz
   announces 16 and 16 bytes, the senc box (SencBox.AddSample as repaired by ecf1460) holds entries of 24 and 18 *)
Theorem C07_aux_mixed_pinned_refuted :
  exists encs z s es,
    encrypt_samples_cenc mixed_E (protect_ranges avc_is_video (fun _ => Err) Cenc) (repeat 7 16) (repeat 1 16)
      [frames [101 :: repeat 7 139]; [0; 0; 0; 0]] = Ok encs /\
    map e_ssps encs = [[mkSsp 96 48]; []] /\
    saiz_of saiz_empty encs = Ok z /\ saiz_sizes z = [16; 16] /\
    senc_of_r senc_empty encs = Ok s /\ senc_entries s 0 2 = Ok es /\ map (fun e => lenN e) es = [24; 18].
Proof. exact aux_mixed_pinned_refuted. Qed.
Print Assumptions C07_aux_mixed_pinned_refuted.

(* the slice-header size avc/hevc.ParseSliceHeader report (uint32(r.NrBytesRead())) never exceeds the NAL unit, for
   EVERY byte string and every parameter-set map: the former hypothesis `sh_size <= |NAL unit|` of the cbcs theorems,
   proved over the C15 parser models on the C13 EBSP reader model (invariant rpos <= |data| carried through every
   reader operation, combinator and loop of the parser text) *)
Theorem C07_slice_header_size_bounded :
  (forall spsmap ppsmap nalu sh, parse_slice_er spsmap ppsmap nalu = Ok sh -> sh_size sh <= lenN nalu) /\
  (forall spsmap ppsmap nalu sh, hparse_slice_er spsmap ppsmap nalu = Ok sh -> s_size sh <= lenN nalu).
Proof. split; [exact avc_slice_size_le|exact hevc_slice_size_le]. Qed.
Print Assumptions C07_slice_header_size_bounded.

(* the exact outcome when a slice header does NOT parse (truncated slice, unknown PPS id, video NAL unit type without
   slice header syntax, ...; cbcs): the first such video NAL unit makes Get(AVC|HEVC)ProtectRanges return the error,
   whatever stands behind it - the sample is refused (EncryptFragment: "get protect ranges"), never mis-described.
   With C07_cbcs_shape_avc/_hevc (every header parses) this covers every sample of non-empty NAL units *)
Theorem C07_cbcs_unparsable_refused :
  (forall spsmap ppsmap pre n post,
     (forall m, In m pre -> nonempty m = true /\
                (first_is_video avc_is_video m = true -> exists sh, parse_slice_er spsmap ppsmap m = Ok sh)) ->
     first_is_video avc_is_video n = true -> parse_slice_er spsmap ppsmap n = Err ->
     lenN (frames (pre ++ n :: post)) < 4294967296 ->
     avc_protect_ranges spsmap ppsmap Cbcs (frames (pre ++ n :: post)) = Err) /\
  (forall spsmap ppsmap pre n post,
     (forall m, In m pre -> nonempty m = true /\
                (first_is_video hevc_is_video m = true -> exists sh, hparse_slice_er spsmap ppsmap m = Ok sh)) ->
     first_is_video hevc_is_video n = true -> hparse_slice_er spsmap ppsmap n = Err ->
     lenN (frames (pre ++ n :: post)) < 4294967296 ->
     hevc_protect_ranges spsmap ppsmap Cbcs (frames (pre ++ n :: post)) = Err).
Proof. split; [exact cbcs_unparsable_refused_avc|exact cbcs_unparsable_refused_hevc]. Qed.
Print Assumptions C07_cbcs_unparsable_refused.

(* an empty NAL unit IN FRONT of another NAL unit (< 2^24 bytes), AVC cbcs: refused (the code takes the top byte 0 of
   the next length field for a NAL header of video type 0 and hands the empty NAL unit to avc.ParseSliceHeader).  For
   cenc such samples are inside C07_partition / C07_cenc_shape; as the LAST NAL unit an empty one is inside the cbcs
   theorems too *)
Theorem C07_cbcs_empty_inside_refused_avc : forall spsmap ppsmap pre n2 post,
  (forall m, In m pre -> nonempty m = true /\
             (first_is_video avc_is_video m = true -> exists sh, parse_slice_er spsmap ppsmap m = Ok sh)) ->
  lenN n2 < 16777216 ->
  lenN (frames (pre ++ [] :: n2 :: post)) < 4294967296 ->
  avc_protect_ranges spsmap ppsmap Cbcs (frames (pre ++ [] :: n2 :: post)) = Err.
Proof. exact cbcs_empty_inside_refused_avc. Qed.
Print Assumptions C07_cbcs_empty_inside_refused_avc.

(* trun.data_offset after encryption, on the bytes of the fragment: the moof grows by exactly |saiz|+|saio|+|senc|,
   so does the offset Fragment.Encode writes (data_offset = moof size + mdat header, see C07_offsets_grow_struct), and
   reading sample i of the ENCRYPTED file (moof || mdat) through the grown offset returns the encrypted sample i -
   same size, same position inside the mdat as in the clear file, equal to the clear sample outside its protected
   ranges (keep_clear over the payload); reading the clear file through the clear offset returns the clear sample *)
Theorem C07_offsets_after_encrypt :
  forall (E D : list N -> list N -> list N) (protfunc : list N -> res (list ssp)),
  (forall k b, length (E k b) = 16%nat) -> (forall k b, length (D k b) = 16%nat) ->
  forall sch key iv cb sb f g,
  (forall s r, protfunc s = Ok r -> covered r <= lenN s) ->
  key_ok key = true -> bytes_ok iv = true ->
  Forall (fun s => lenN s < 4294967296) (bf_samples f) ->
  encrypt_fragment_bytes E D protfunc sch key iv cb sb f = Ok g ->
  exists saizb saiob sencb encs,
    bf_traf g = bf_traf f ++ [saizb; saiob; sencb] /\
    lenN (moof_bytes g) = lenN (moof_bytes f) + (lenN saizb + lenN saiob + lenN sencb) /\
    data_offset g = data_offset f + (lenN saizb + lenN saiob + lenN sencb) /\
    bf_samples g = map e_data encs /\
    keep_clear (concat (map (fun e => sample_mask (e_ssps e) (lenN (e_data e))) encs))
               (mdat_payload f) (mdat_payload g) /\
    forall i s, nth_error (bf_samples f) i = Some s ->
      read_sample (frag_file f) (data_offset f) (bf_samples f) i = s /\
      exists e, nth_error encs i = Some e /\ protfunc s = Ok (e_ssps e) /\
                read_sample (frag_file g) (data_offset g) (bf_samples g) i = e_data e /\
                sizes_before (bf_samples g) i = sizes_before (bf_samples f) i /\
                length (e_data e) = length s.
Proof. exact offsets_after_encrypt. Qed.
Print Assumptions C07_offsets_after_encrypt.

(* composition with C05 (coq/c05, read-only): on C05's fragment structure (any number of trafs / truns, any write
   order), appending a bytes of boxes to a traf (= EncryptFragment: add_traf_extra) makes SetTrunDataOffsets
   (set_offsets, C05OffProofs.set_offsets_spec) write data offsets that are larger by exactly a for EVERY trun; the
   offsets are moof size + mdat header + data written before the run.  Guard: int32 (C05-F5 beyond) *)
Theorem C07_offsets_grow_struct : forall fr a,
  fr_trafs fr <> [] ->
  let L := all_truns (fr_trafs fr) in
  let m := md_size_touch (fr_mdat fr) in
  NoDup (map tr_won L) ->
  moof_size fr + a + md_header_size m + tsum (map pr L) < 2147483648 ->
  doffs (set_offsets (add_traf_extra fr a)) = map (fun z => (z + Z.of_N a)%Z) (doffs (set_offsets fr)) /\
  doffs (set_offsets fr) = map (fun r => Z.of_N (moof_size fr + md_header_size m + wsum (map pr L) (tr_won r))) L.
Proof. exact offsets_grow_struct. Qed.
Print Assumptions C07_offsets_grow_struct.

(* ---------------------------------------------------------------- third extension: the current text (2ef93b3) *)
(* Get(AVC|HEVC)ProtectRanges since /repo 2ef93b3 (protect_ranges_w: position + NAL unit length added in 64 bits) and
   the text before it (protect_ranges_r, uint32 sum): on EVERY byte string the new text returns what the old one
   returned or refuses the sample, and on every concatenation of NAL units (any sizes, empty ones anywhere) below 2^32
   bytes they are EQUAL - so every theorem above stated for protect_ranges_r on `frames nalus` (C07_partition,
   C07_cenc_shape, C07_cbcs_shape(_avc/_hevc), C07_cbcs_unparsable_refused, ...) is a theorem of the current text *)
Theorem C07_ranges_current_text : forall (isvideo : N -> bool) (hdr : list N -> res N) (sch : scheme),
  (forall sample, protect_ranges_w isvideo hdr sch sample = protect_ranges_r isvideo hdr sch sample \/
                  protect_ranges_w isvideo hdr sch sample = Err) /\
  (forall nalus, lenN (frames nalus) < 4294967296 ->
                 protect_ranges_w isvideo hdr sch (frames nalus) = protect_ranges_r isvideo hdr sch (frames nalus)).
Proof. exact ranges_current_text. Qed.
Print Assumptions C07_ranges_current_text.

(* "each sample's sub-sample entries partition the sample exactly" for EVERY BYTE STRING the code accepts - no
   hypothesis that the sample is a concatenation of NAL units (trailing bytes, length fields pointing anywhere, any
   scheme, both codecs with the C15 slice-header parsers): the entries add up to the size of the sample, every clear
   count fits 16 bits, there is at least one entry.  This is the `prot_in_sample` / `covered r <= |s|` hypothesis of the
   fragment theorems (C07_no_counter_reuse_fragment, C07_iv8_layout, C07_fragment_only_protected,
   C07_offsets_after_encrypt) for the functions EncryptFragment really calls.  False of the text before 2ef93b3:
   C07_wrap_pinned_refuted *)
Theorem C07_ranges_cover_any_bytes :
  (forall (isvideo : N -> bool) (hdr : list N -> res N) (sch : scheme) (sample : list N) (r : list ssp),
     (forall n h, hdr n = Ok h -> h <= lenN n) ->
     lenN sample < 4294967296 ->
     protect_ranges_w isvideo hdr sch sample = Ok r ->
     sumN (map (fun p => ss_clear p + ss_prot p) r) = lenN sample /\
     Forall (fun p => ss_clear p < 65536) r /\ r <> []) /\
  (forall spsmap ppsmap sch sample r,
     lenN sample < 4294967296 ->
     avc_protect_ranges_w spsmap ppsmap sch sample = Ok r ->
     sumN (map (fun p => ss_clear p + ss_prot p) r) = lenN sample /\
     Forall (fun p => ss_clear p < 65536) r /\ r <> []) /\
  (forall spsmap ppsmap sch sample r,
     lenN sample < 4294967296 ->
     hevc_protect_ranges_w spsmap ppsmap sch sample = Ok r ->
     sumN (map (fun p => ss_clear p + ss_prot p) r) = lenN sample /\
     Forall (fun p => ss_clear p < 65536) r /\ r <> []).
Proof. exact ranges_cover_any_bytes. Qed.
Print Assumptions C07_ranges_cover_any_bytes.

(* the loop of Get(AVC|HEVC)ProtectRanges ends within |sample| iterations on EVERY byte string (every iteration moves
   the position forward by at least 4): the fuel of the model is never exhausted *)
Theorem C07_ranges_terminate : forall (isvideo : N -> bool) (hdr : list N -> res N) (sch : scheme) (sample : list N),
  (forall n h, hdr n = Ok h -> h <= lenN n) -> (forall n, hdr n <> OutOfFuel) ->
  lenN sample < 4294967296 ->
  protect_ranges_w isvideo hdr sch sample <> OutOfFuel.
Proof. exact ranges_terminate. Qed.
Print Assumptions C07_ranges_terminate.

(* finding C07-F6 in the model of the text before 2ef93b3, 9-byte samples: length field 2^32-4 on an AVC access unit
   delimiter - after every iteration the loop is back in its initial state (the Go loop never ends; reproduced); the
   same field on an IDR slice - slice bounds panic; the current text refuses both *)
Theorem C07_wrap_pinned_refuted :
  (forall fuel, pr_loop_g avc_is_video (fun _ => Err) Cenc true fuel wrap_hang_sample 0 0 0 [] = OutOfFuel) /\
  protect_ranges_r avc_is_video (fun _ => Err) Cenc wrap_panic_sample = Panic /\
  protect_ranges_w avc_is_video (fun _ => Err) Cenc wrap_hang_sample = Err /\
  protect_ranges_w avc_is_video (fun _ => Err) Cenc wrap_panic_sample = Err.
Proof. exact wrap_pinned_refuted. Qed.
Print Assumptions C07_wrap_pinned_refuted.

(* C07_partition + C07_cenc_shape and C07_cbcs_shape restated for the current text *)
Theorem C07_partition_shape_current :
  (forall (isvideo : N -> bool) (hdr : list N -> res N) (nalus : list (list N)),
     nalus <> [] -> lenN (frames nalus) < 4294967296 ->
     exists r, protect_ranges_w isvideo hdr Cenc (frames nalus) = Ok r /\
               expand r = spec_mask isvideo (fun n => prot_cenc (lenN n)) nalus /\
               sumN (map (fun p => ss_clear p + ss_prot p) r) = lenN (frames nalus) /\
               Forall (fun p => ss_clear p < 65536 /\ ss_prot p mod 16 = 0) r) /\
  (forall (isvideo : N -> bool) (hdr : list N -> res N) (hs : list N -> N) (nalus : list (list N)),
     wf_nalus_cbcs nalus = true -> lenN (frames nalus) < 4294967296 ->
     (forall n, In n nalus -> first_is_video isvideo n = true -> hdr n = Ok (hs n) /\ hs n <= lenN n) ->
     exists r, protect_ranges_w isvideo hdr Cbcs (frames nalus) = Ok r /\
               expand r = spec_mask isvideo (fun n => lenN n - hs n) nalus /\
               sumN (map (fun p => ss_clear p + ss_prot p) r) = lenN (frames nalus) /\
               Forall (fun p => ss_clear p < 65536) r).
Proof. exact partition_shape_current. Qed.
Print Assumptions C07_partition_shape_current.

(* C07_fragment_only_protected and C07_no_counter_reuse_fragment for the protection function EncryptFragment really
   calls on video (Get(AVC|HEVC)ProtectRanges, current text; any isvideo, any slice-header function reporting a size
   inside the NAL unit: C07_slice_header_size_bounded), with NO hypothesis left on the protection function, and for ANY
   sample bytes below 2^32 (not only concatenations of NAL units): whenever EncryptFragment succeeds, every other box is
   kept, saiz / saio / senc are appended, every sample keeps its size, its entries partition it exactly, there is at
   least one entry, and the mdat changes at most at protected positions; the per-sample IVs never reuse a counter block *)
Theorem C07_fragment_video_closed :
  forall (E D : list N -> list N -> list N) (isvideo : N -> bool) (hdr : list N -> res N) (psch : scheme),
  (forall k b, length (E k b) = 16%nat) -> (forall k b, length (D k b) = 16%nat) ->
  (forall n h, hdr n = Ok h -> h <= lenN n) ->
  forall sch key iv cb sb f g,
  key_ok key = true -> bytes_ok iv = true ->
  Forall (fun s => lenN s < 4294967296) (bf_samples f) ->
  encrypt_fragment_bytes E D (protect_ranges_w isvideo hdr psch) sch key iv cb sb f = Ok g ->
  bf_before g = bf_before f /\ bf_after g = bf_after f /\
  (exists saizb saiob sencb,
      bf_traf g = bf_traf f ++ [saizb; saiob; sencb] /\
      is_box [115; 97; 105; 122] saizb /\ is_box [115; 97; 105; 111] saiob /\ is_box [115; 101; 110; 99] sencb) /\
  (exists encs,
      bf_samples g = map e_data encs /\
      Forall2 (fun s e => protect_ranges_w isvideo hdr psch s = Ok (e_ssps e) /\ covered (e_ssps e) = lenN s /\
                          e_ssps e <> [] /\ length (e_data e) = length s) (bf_samples f) encs /\
      keep_clear (concat (map (fun e => sample_mask (e_ssps e) (lenN (e_data e))) encs))
                 (mdat_payload f) (mdat_payload g)).
Proof. exact fragment_video_closed. Qed.
Print Assumptions C07_fragment_video_closed.

Theorem C07_no_counter_reuse_closed :
  forall (E : list N -> list N -> list N) (isvideo : N -> bool) (hdr : list N -> res N) (psch : scheme),
  (forall n h, hdr n = Ok h -> h <= lenN n) ->
  forall key iv samples encs,
  length iv = 16%nat -> bytes_ok iv = true ->
  Forall (fun s => lenN s < 4294967296) samples -> lenN samples < 4294967296 ->
  encrypt_samples_cenc E (protect_ranges_w isvideo hdr psch) key iv samples = Ok encs ->
  sumN (map blocks_of encs) < 2 ^ 60 /\
  (forall i ei, nth_error encs i = Some ei ->
     be (e_iv ei) = (be iv + sumN (map blocks_of (firstn i encs))) mod 2 ^ 128) /\
  (forall i j ei ej t t',
     (i < j)%nat -> nth_error encs i = Some ei -> nth_error encs j = Some ej ->
     t < blocks_of ei -> t' < blocks_of ej ->
     (be (e_iv ei) + t) mod 2 ^ 128 <> (be (e_iv ej) + t') mod 2 ^ 128).
Proof. exact no_counter_reuse_closed. Qed.
Print Assumptions C07_no_counter_reuse_closed.

(* ---------------------------------------------------------------- the hypotheses are satisfiable *)
Definition ex_nalus : list (list N) :=
  [ [9; 240];                                  (* AUD, 2 bytes *)
    101 :: repeat 171 139;                     (* IDR slice, 140 bytes: 4+140-96 = 48 -> 48 protected *)
    [6; 5; 1; 128];                            (* SEI *)
    65 :: repeat 3 106 ].                      (* non-IDR slice, 107 bytes: 111 < 112, clear *)

Example ex_wf : ex_nalus <> [] /\ wf_nalus_cbcs ex_nalus = true /\ lenN (frames ex_nalus) < 4294967296.
Proof. split; [discriminate|]. vm_compute. split; reflexivity. Qed.

Example ex_ranges :
  protect_ranges_r avc_is_video (fun _ => Err) Cenc (frames ex_nalus) = Ok [mkSsp 102 48; mkSsp 119 0].
Proof. vm_compute. reflexivity. Qed.

(* NAL units of 0, 1 and 2 bytes in one HEVC sample (cenc): the empty ones are clear length fields, the sample is
   covered to its last byte *)
Example ex_tiny_nalus :
  protect_ranges_r hevc_is_video (fun _ => Err) Cenc (frames [[]; [2]; [64; 1]; 2 :: repeat 9 200; []])
  = Ok [mkSsp 124 96; mkSsp 4 0] /\
  lenN (frames [[]; [2]; [64; 1]; 2 :: repeat 9 200; []]) = 224.
Proof. vm_compute. split; reflexivity. Qed.

(* a block function satisfying the only hypothesis on E, and a run of the fragment loop with an ff..ff IV *)
Definition ex_E (k b : list N) : list N := firstn 16 (xorl (b ++ repeat 0 16) (k ++ repeat 1 16)).

Example ex_E_blocks : forall k b, length (ex_E k b) = 16%nat.
Proof.
  intros k b. unfold ex_E, xorl. rewrite firstn_length, map_length, combine_length, !app_length, !repeat_length. lia.
Qed.

Definition ex_run : res (list enc_sample) :=
  encrypt_samples_cenc ex_E (protect_ranges_r avc_is_video (fun _ => Err) Cenc) (repeat 7 16) (repeat 255 16)
    [frames ex_nalus; frames ex_nalus].

Example ex_fragment :
  match ex_run with
  | Ok encs => map e_iv encs = [repeat 255 16; repeat 0 15 ++ [2]] /\
               N.ltb (sumN (map blocks_of encs)) (2 ^ 128) = true
  | _ => False
  end.
Proof. vm_compute. split; reflexivity. Qed.

(* --- the hypotheses of the codec theorems: an HEVC access unit AUD / slice segment / suffix SEI, the slice being
   the non-first B segment of C15's example (address 77 of a 960x540 picture with 64x64 CTBs, header 43 bytes) *)
Definition ex_hevc_nalus : list (list N) :=
  [ [70; 1; 80];
    hnalu_slice ex_hsps ex_hpps_b ex_hslice_b ++ repeat 171 200;
    [80; 1; 5; 5] ].

Example ex_hevc_hyp :
  wf_nalus_cbcs ex_hevc_nalus = true /\ lenN (frames ex_hevc_nalus) < 4294967296 /\
  forall n, In n ex_hevc_nalus -> first_is_video hevc_is_video n = true ->
    exists sh, hparse_slice_er ex_spsmap ex_ppsmap n = Ok sh.
Proof.
  split; [vm_compute; reflexivity|]. split; [vm_compute; reflexivity|].
  intros n [<- | [<- | [<- | []]]] Hv; try (vm_compute in Hv; discriminate).
  destruct (hparse_slice_er ex_spsmap ex_ppsmap (hnalu_slice ex_hsps ex_hpps_b ex_hslice_b ++ repeat 171 200)) as [sh| | |] eqn:Ep;
    vm_compute in Ep; try discriminate.
  exists sh. reflexivity.
Qed.

Example ex_hevc_ranges :
  hevc_protect_ranges ex_spsmap ex_ppsmap Cbcs (frames ex_hevc_nalus) = Ok [mkSsp 54 206; mkSsp 8 0].
Proof. vm_compute. reflexivity. Qed.

(* AVC: AUD, the slice of C15's example (header 30 bytes), filler data after the last slice *)
Definition ex_avc_spsmap (id : N) : option sps := if id =? 7 then Some (expected_sps false ex_sl_sps) else None.
Definition ex_avc_ppsmap (id : N) : option pps := if id =? 2 then Some (expected_pps ex_sl_pps) else None.
Definition ex_avc_nalus : list (list N) :=
  [ [9; 240]; nalu_slice ex_sl_sps ex_sl_pps ex_slice ++ repeat 171 200; [12; 255; 255; 128] ].

Example ex_avc_ranges :
  avc_protect_ranges ex_avc_spsmap ex_avc_ppsmap Cbcs (frames ex_avc_nalus) = Ok [mkSsp 40 201; mkSsp 8 0] /\
  avc_hdr ex_avc_spsmap ex_avc_ppsmap (nalu_slice ex_sl_sps ex_sl_pps ex_slice ++ repeat 171 200) = Ok 30.
Proof. vm_compute. split; reflexivity. Qed.

(* EncryptFragment over bytes: two boxes in front of the traf, three traf children, one box behind, two AVC samples *)
Definition ex_bfrag : bfrag :=
  mkBF [[0; 0; 0; 16; 109; 102; 104; 100; 0; 0; 0; 0; 0; 0; 0; 7]]
       [[0; 0; 0; 9; 116; 102; 104; 100; 1]; [0; 0; 0; 8; 116; 114; 117; 110]]
       [[0; 0; 0; 8; 102; 114; 101; 101]]
       [frames ex_nalus; frames ex_nalus].

Example ex_fragment_bytes :
  match encrypt_fragment_bytes ex_E ex_E (protect_ranges_r avc_is_video (fun _ => Err) Cenc) Cenc (repeat 7 16)
          (repeat 255 8) 0 0 ex_bfrag with
  | Ok g => length (bf_traf g) = 5%nat /\
            aux_walk [30; 30] (skipn 104 (moof_bytes g)) =
              ([repeat 255 8 ++ repeat 0 8 ++ [0; 2; 0; 102; 0; 0; 0; 48; 0; 119; 0; 0; 0; 0];
                repeat 255 8 ++ repeat 0 7 ++ [3] ++ [0; 2; 0; 102; 0; 0; 0; 48; 0; 119; 0; 0; 0; 0]],
               [0; 0; 0; 8; 102; 114; 101; 101])
  | _ => False
  end.
Proof. vm_compute. split; reflexivity. Qed.

(* the offsets of the example fragment: clear moof 57 bytes -> offset 65; encrypted moof 57 + 19 + 20 + 76 *)
Example ex_offsets :
  match encrypt_fragment_bytes ex_E ex_E (protect_ranges_r avc_is_video (fun _ => Err) Cenc) Cenc (repeat 7 16)
          (repeat 255 8) 0 0 ex_bfrag with
  | Ok g => data_offset ex_bfrag = 65 /\ data_offset g = 65 + (19 + 20 + 76) /\
            read_sample (frag_file g) (data_offset g) (bf_samples g) 1 = nth 1 (bf_samples g) [] /\
            firstn 102 (nth 1 (bf_samples g) []) = firstn 102 (frames ex_nalus)
  | _ => False
  end.
Proof. vm_compute. repeat split; reflexivity. Qed.

(* the slice of C15's example cut inside its 30-byte header: AVC's parser has no error check at its end and reports
   the bytes it could read (the whole NAL unit stays clear); cut to its NAL header byte it is refused.  HEVC's parser
   checks the reader's error before returning: a cut header is refused *)
Example ex_truncated_slices :
  let n := nalu_slice ex_sl_sps ex_sl_pps ex_slice in
  avc_hdr ex_avc_spsmap ex_avc_ppsmap (firstn 12 n) = Ok 12 /\
  avc_protect_ranges ex_avc_spsmap ex_avc_ppsmap Cbcs (frames [firstn 12 n]) = Ok [mkSsp 16 0] /\
  avc_protect_ranges ex_avc_spsmap ex_avc_ppsmap Cbcs (frames [[9; 240]; [101]; n]) = Err /\
  hevc_protect_ranges ex_spsmap ex_ppsmap Cbcs
    (frames [[70; 1; 80]; firstn 20 (hnalu_slice ex_hsps ex_hpps_b ex_hslice_b)]) = Err.
Proof. vm_compute. repeat split; reflexivity. Qed.

(* the current text on byte strings that are NOT concatenations of NAL units (3 bytes behind the last NAL unit): the
   entries cover the 272 bytes; a slice-header function satisfying both hypotheses of C07_ranges_terminate, cbcs *)
Definition ex_hdr3 (n : list N) : res N := Ok (N.min 3 (lenN n)).

Example ex_cover_any_bytes :
  protect_ranges_w avc_is_video (fun _ => Err) Cenc (frames ex_nalus ++ [1; 2; 3]) = Ok [mkSsp 102 48; mkSsp 122 0] /\
  protect_ranges_w avc_is_video ex_hdr3 Cbcs (frames ex_nalus ++ [1; 2; 3]) = Ok [mkSsp 13 137; mkSsp 15 104; mkSsp 3 0] /\
  lenN (frames ex_nalus ++ [1; 2; 3]) = 272 /\
  (forall n h, ex_hdr3 n = Ok h -> h <= lenN n) /\ (forall n, ex_hdr3 n <> OutOfFuel).
Proof.
  split; [vm_compute; reflexivity|]. split; [vm_compute; reflexivity|]. split; [vm_compute; reflexivity|].
  split; [|discriminate]. unfold ex_hdr3. intros n h H. inversion H. lia.
Qed.

(* the hypotheses of C07_fragment_video_closed: the example fragment through the current text, one sample carrying 3
   bytes behind its last NAL unit *)
Example ex_fragment_closed :
  match encrypt_fragment_bytes ex_E ex_E (protect_ranges_w avc_is_video ex_hdr3 Cenc) Cenc (repeat 7 16)
          (repeat 255 8) 0 0
          (mkBF (bf_before ex_bfrag) (bf_traf ex_bfrag) (bf_after ex_bfrag) [frames ex_nalus ++ [1; 2; 3]; frames ex_nalus]) with
  | Ok g => length (bf_traf g) = 5%nat /\ map (fun s => lenN s) (bf_samples g) = [272; 269]
  | _ => False
  end.
Proof. vm_compute. split; reflexivity. Qed.
