(* C07Theorems.v — the property theorems of C07 and nothing else. *)
From V.lib Require Import Base.
From V.c07 Require Import C07Model.
