(* C07Theorems.v — the property theorems of C07 and nothing else.  Each is closed by `exact <lemma>` and
   followed by Print Assumptions (audited by ./check on every run).
   Vocabulary (C07Spec.v): frames nalus = concatenation of 4-byte-length-prefixed NAL units; expand r = the
   per-byte clear(false)/protected(true) flags described by the sub-sample entries r; spec_mask = the flags the
   property prescribes; ref_cenc = reference AES-CTR (counter block i = IV + i as a 128-bit big-endian integer)
   xor-ed over the protected bytes in order, identity elsewhere.  E is ANY function from key and block to
   16-byte blocks. *)
From V.lib Require Import Base.
From V.c07 Require Import C07Model C07Spec C07RangeProofs C07CryptProofs C07AuxProofs C07FinalProofs.

(* AppendProtectRange, every nrClear / nrProtected (65535, 65536, 131070, ... included) *)
Theorem C07_append_protect_range : forall ssps c p,
  exists r, append_protect_range ssps c p = Ok r /\
            expand r = expand ssps ++ rep false c ++ rep true p /\
            (Forall (fun e => ss_clear e < 65536) ssps -> Forall (fun e => ss_clear e < 65536) r).
Proof. exact append_protect_range_final. Qed.
Print Assumptions C07_append_protect_range.

(* the sub-sample entries partition the sample exactly, clear counts fit 16 bits, protected counts are whole
   blocks — for every NALU layout (AVC and HEVC: any isvideo) *)
Theorem C07_partition : forall (isvideo : N -> bool) (hdr : list N -> res N) (nalus : list (list N)),
  wf_nalus nalus = true ->
  lenN (frames nalus) < 4294967296 ->
  exists r, protect_ranges isvideo hdr Cenc (frames nalus) = Ok r /\
            sumN (map (fun p => ss_clear p + ss_prot p) r) = lenN (frames nalus) /\
            Forall (fun p => ss_clear p < 65536 /\ ss_prot p mod 16 = 0) r.
Proof. exact partition_final. Qed.
Print Assumptions C07_partition.

(* cenc shape: byte-for-byte, the entries protect exactly the last prot_cenc(len) bytes of every video NALU and
   nothing else (length fields, NAL headers, non-video NALUs clear); prot_cenc is positive iff len+4 >= 112, a
   multiple of 16, leaves 96..111 bytes clear from the length field on, and protects every NALU longer than
   127 bytes starting at most 127 bytes in *)
Theorem C07_cenc_shape : forall (isvideo : N -> bool) (hdr : list N -> res N) (nalus : list (list N)),
  wf_nalus nalus = true ->
  lenN (frames nalus) < 4294967296 ->
  (exists r, protect_ranges isvideo hdr Cenc (frames nalus) = Ok r /\
             expand r = spec_mask isvideo (fun n => prot_cenc (lenN n)) nalus) /\
  (forall L, (0 < prot_cenc L <-> 112 <= L + 4) /\
             prot_cenc L mod 16 = 0 /\
             prot_cenc L <= L /\
             (112 <= L + 4 -> 96 <= L + 4 - prot_cenc L /\ L + 4 - prot_cenc L <= 111) /\
             (127 < L -> 0 < prot_cenc L /\ L - prot_cenc L <= 127)).
Proof. exact cenc_shape_final. Qed.
Print Assumptions C07_cenc_shape.

(* cbcs shape, parametric in the slice-header size function hs (guard hs n <= |n| explicit): the protected bytes
   of a video NALU are exactly those after its slice header *)
Theorem C07_cbcs_shape : forall (isvideo : N -> bool) (hdr : list N -> res N) (hs : list N -> N)
                                (nalus : list (list N)),
  wf_nalus nalus = true ->
  lenN (frames nalus) < 4294967296 ->
  (forall n, In n nalus -> first_is_video isvideo n = true -> hdr n = Ok (hs n) /\ hs n <= lenN n) ->
  exists r, protect_ranges isvideo hdr Cbcs (frames nalus) = Ok r /\
            expand r = spec_mask isvideo (fun n => lenN n - hs n) nalus /\
            sumN (map (fun p => ss_clear p + ss_prot p) r) = lenN (frames nalus) /\
            Forall (fun p => ss_clear p < 65536) r.
Proof. exact cbcs_shape_final. Qed.
Print Assumptions C07_cbcs_shape.

(* incrementIV is big-endian addition of the block count modulo 2^(8|iv|): every IV length, every carry chain *)
Theorem C07_iv_increment : forall iv ssps slen,
  bytes_ok iv = true ->
  be (increment_iv iv ssps slen) = (be iv + nr_enc_blocks ssps slen) mod 2 ^ (8 * lenN iv).
Proof. exact iv_increment_final. Qed.
Print Assumptions C07_iv_increment.

Theorem C07_iv_increment_inplace : forall iv n,
  bytes_ok iv = true ->
  be (increment_iv_inplace iv n) = (be iv + n) mod 2 ^ (8 * lenN iv) /\
  length (increment_iv_inplace iv n) = length iv.
Proof. exact iv_increment_inplace_final. Qed.
Print Assumptions C07_iv_increment_inplace.

(* CryptSampleCenc = reference CTR over the protected bytes in order, identity elsewhere — for EVERY block
   function E and every sub-sample map that fits the sample *)
Theorem C07_matches_reference :
  forall (E : list N -> list N -> list N) (key iv : list N) (ssps : list ssp) (sample : list N),
  (forall k b, length (E k b) = 16%nat) ->
  length iv = 16%nat -> bytes_ok iv = true -> key_ok key = true ->
  sumN (map (fun p => ss_clear p + ss_prot p) ssps) <= lenN sample ->
  lenN sample < 4294967296 ->
  crypt_sample_cenc E key iv ssps sample = Ok (ref_cenc E key iv ssps sample).
Proof. exact matches_reference_final. Qed.
Print Assumptions C07_matches_reference.

(* the per-sample loop of EncryptFragment (cenc): IV chain and no counter block used twice in a fragment *)
Theorem C07_no_counter_reuse :
  forall (E : list N -> list N -> list N) (protfunc : list N -> res (list ssp))
         (key iv : list N) (samples : list (list N)) (encs : list enc_sample),
  length iv = 16%nat -> bytes_ok iv = true ->
  encrypt_samples_cenc E protfunc key iv samples = Ok encs ->
  sumN (map blocks_of encs) < 2 ^ 128 ->
  (forall i ei, nth_error encs i = Some ei ->
     be (e_iv ei) = (be iv + sumN (map blocks_of (firstn i encs))) mod 2 ^ 128) /\
  (forall e, aligned e -> prot_total e <= 16 * blocks_of e) /\
  (forall i j ei ej t t',
     (i < j)%nat -> nth_error encs i = Some ei -> nth_error encs j = Some ej ->
     t < blocks_of ei -> t' < blocks_of ej ->
     (be (e_iv ei) + t) mod 2 ^ 128 <> (be (e_iv ej) + t') mod 2 ^ 128).
Proof. exact no_counter_reuse_final. Qed.
Print Assumptions C07_no_counter_reuse.

(* cbcs: cryptSampleCbcs (both directions) = reference CBC over the crypt:skip block pattern (1:9 for video,
   every whole block for audio), chained over the crypted blocks only, the constant IV restarted in every protected
   range, identity elsewhere — for all block functions with 16-byte outputs *)
Theorem C07_cbcs_matches_reference :
  forall (E D : list N -> list N -> list N) (key : list N),
  (forall k b, length (E k b) = 16%nat) ->
  (forall k b, length (D k b) = 16%nat) ->
  forall (dec : bool) (iv : list N) (ssps : list ssp) (cb sb : N) (sample : list N),
  key_ok key = true -> length iv = 16%nat ->
  sumN (map (fun p => ss_clear p + ss_prot p) ssps) <= lenN sample ->
  lenN sample < 4294967296 ->
  crypt_sample_cbcs E D dec key iv ssps cb sb sample = Ok (ref_cbcs E D dec key iv ssps cb sb sample).
Proof. exact cbcs_matches_reference_final. Qed.
Print Assumptions C07_cbcs_matches_reference.

(* auxiliary information: AddSampleInfo records the byte length of the senc entry MODULO 256; it is the length
   whenever the entry is shorter than 256 bytes (i.e. < 40 sub-samples with a 16-byte IV, < 43 without IV) *)
Theorem C07_aux_info : forall b iv ssps b',
  ssps <> [] -> saiz_add b iv ssps = Ok b' ->
  sz_info b' = sz_info b ++ [lenN (entry_bytes iv ssps) mod 256] /\
  sz_count b' = sz_count b + 1 /\
  (lenN (entry_bytes iv ssps) < 256 -> sz_info b' = sz_info b ++ [lenN (entry_bytes iv ssps)]).
Proof. exact aux_info_final. Qed.
Print Assumptions C07_aux_info.

Theorem C07_aux_entry : forall s i iv ssps,
  0 <? sn_ivsize s = true -> sn_subs s = true ->
  nth_error (sn_ivs s) i = Some iv -> nth_error (sn_ss s) i = Some ssps ->
  senc_entry s i = Ok (entry_bytes iv ssps) /\ lenN (entry_bytes iv ssps) = lenN iv + 2 + 6 * lenN ssps.
Proof. exact aux_entry_final. Qed.
Print Assumptions C07_aux_entry.

(* the unguarded statement is false (known finding C07-F1, reproduced on the real code by the search):
   40 sub-samples + 16-byte IV = 258 bytes, recorded as 2 *)
Theorem C07_aux_info_overflow_refuted :
  exists iv ssps b',
    lenN iv = 16 /\ lenN ssps = 40 /\
    saiz_add saiz_empty iv ssps = Ok b' /\ sz_info b' = [2] /\ lenN (entry_bytes iv ssps) = 258.
Proof. exact aux_info_overflow_final. Qed.
Print Assumptions C07_aux_info_overflow_refuted.

(* saio: the offset EncryptFragment stores is the position of the first senc entry computed from the box sizes
   AT ENCRYPTION TIME (moof header, boxes before the traf, traf header, traf children before senc, senc header).
   Nothing updates it when Fragment.Encode later rewrites tfhd/trun (OptimizeTrun): known finding C07-F2. *)
Theorem C07_saio_offset : forall before pre z post,
  forallb (fun x => negb (fst x)) pre = true -> forallb (fun x => negb (fst x)) post = true ->
  saio_offset before (pre ++ (true, z) :: post) = 8 + sumN before + 8 + sumN (map snd pre) + 16.
Proof. exact saio_offset_final. Qed.
Print Assumptions C07_saio_offset.

(* ---------------------------------------------------------------- the hypotheses are satisfiable *)
Definition ex_nalus : list (list N) :=
  [ [9; 240];                                  (* AUD, 2 bytes *)
    101 :: repeat 171 139;                     (* IDR slice, 140 bytes: 4+140-96 = 48 -> 48 protected *)
    [6; 5; 1; 128];                            (* SEI *)
    65 :: repeat 3 106 ].                      (* non-IDR slice, 107 bytes: 111 < 112, clear *)

Example ex_wf : wf_nalus ex_nalus = true /\ lenN (frames ex_nalus) < 4294967296.
Proof. vm_compute. split; reflexivity. Qed.

Example ex_ranges :
  protect_ranges avc_is_video (fun _ => Err) Cenc (frames ex_nalus) = Ok [mkSsp 102 48; mkSsp 119 0].
Proof. vm_compute. reflexivity. Qed.

(* why the theorems ask for non-empty NAL units: a trailing empty NALU (length field 0) is not covered by the
   entries (the Go loop stops at pos >= len-4); such a sample is not a NALU layout of the property *)
Example ex_trailing_empty_nalu :
  protect_ranges avc_is_video (fun _ => Err) Cenc (frames [[101; 1]; []]) = Ok [mkSsp 6 0] /\
  lenN (frames [[101; 1]; []]) = 10.
Proof. vm_compute. split; reflexivity. Qed.

(* a block function satisfying the only hypothesis on E, and a run of the fragment loop with an ff..ff IV *)
Definition ex_E (k b : list N) : list N := firstn 16 (xorl (b ++ repeat 0 16) (k ++ repeat 1 16)).

Example ex_E_blocks : forall k b, length (ex_E k b) = 16%nat.
Proof.
  intros k b. unfold ex_E, xorl. rewrite firstn_length, map_length, combine_length, !app_length, !repeat_length. lia.
Qed.

Definition ex_run : res (list enc_sample) :=
  encrypt_samples_cenc ex_E (protect_ranges avc_is_video (fun _ => Err) Cenc) (repeat 7 16) (repeat 255 16)
    [frames ex_nalus; frames ex_nalus].

Example ex_fragment :
  match ex_run with
  | Ok encs => map e_iv encs = [repeat 255 16; repeat 0 15 ++ [2]] /\
               N.ltb (sumN (map blocks_of encs)) (2 ^ 128) = true
  | _ => False
  end.
Proof. vm_compute. split; reflexivity. Qed.
