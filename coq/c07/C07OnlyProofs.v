(* C07OnlyProofs.v — "everything else is byte-identical to the clear input", sample level and mdat level:
   CryptSampleCenc / cryptSampleCbcs keep the length of the sample and every byte that the sub-sample map does not
   mark as protected; over a fragment, the concatenated sample data (the mdat payload) changes at most at the
   protected positions of the concatenated maps. *)
From V.lib Require Import Base.
From V.c07 Require Import C07Model C07Spec C07IvProofs C07RangeProofs C07CryptProofs C07CbcsProofs.

(* keep_clear mask a b: the three lists have the same length and a, b agree wherever the mask is false *)
Fixpoint keep_clear (mask : list bool) (a b : list N) : Prop :=
  match mask, a, b with
  | [], [], [] => True
  | m :: mt, x :: xt, y :: yt => (m = false -> x = y) /\ keep_clear mt xt yt
  | _, _, _ => False
  end.

Lemma keep_clear_app : forall m1 a1 b1 m2 a2 b2,
  keep_clear m1 a1 b1 -> keep_clear m2 a2 b2 -> keep_clear (m1 ++ m2) (a1 ++ a2) (b1 ++ b2).
Proof.
  induction m1 as [|m mt IH]; intros a1 b1 m2 a2 b2 H1 H2.
  - destruct a1, b1; cbn in H1; try contradiction. exact H2.
  - destruct a1 as [|x xt], b1 as [|y yt]; cbn in H1; try contradiction.
    destruct H1 as [Hx Ht]. cbn. split; [exact Hx|apply IH; assumption].
Qed.

Lemma keep_clear_same : forall a, keep_clear (repeat false (length a)) a a.
Proof. induction a as [|x t IH]; cbn; [exact I|split; [reflexivity|exact IH]]. Qed.

Lemma keep_clear_any : forall a b, length a = length b -> keep_clear (repeat true (length a)) a b.
Proof.
  induction a as [|x t IH]; intros b H; destruct b as [|y u]; cbn in *; try discriminate; [exact I|].
  split; [discriminate|apply IH; lia].
Qed.

Lemma keep_clear_same' n a : length a = n -> keep_clear (repeat false n) a a.
Proof. intros <-. apply keep_clear_same. Qed.

Lemma keep_clear_any' n a b : length a = n -> length b = n -> keep_clear (repeat true n) a b.
Proof. intros <- H. apply keep_clear_any. symmetry. exact H. Qed.

Lemma keep_clear_length : forall m a b, keep_clear m a b -> length a = length m /\ length b = length m.
Proof.
  induction m as [|x t IH]; intros a b H; destruct a, b; cbn in H; try contradiction; [split; reflexivity|].
  destruct H as [_ H]. apply IH in H. cbn. lia.
Qed.

Lemma keep_clear_nth m a b j :
  keep_clear m a b -> nth j m true = false -> nth_error a j = nth_error b j.
Proof.
  revert a b j. induction m as [|x t IH]; intros a b j H Hj; destruct a, b; cbn in H; try contradiction.
  - destruct j; discriminate.
  - destruct H as [Hx Ht]. destruct j as [|j]; cbn in *; [rewrite (Hx Hj); reflexivity|apply IH; assumption].
Qed.

Lemma keep3 m1 m2 m3 a a1 a2 a3 b1 b2 b3 :
  a = a1 ++ a2 ++ a3 -> keep_clear m1 a1 b1 -> keep_clear m2 a2 b2 -> keep_clear m3 a3 b3 ->
  keep_clear (m1 ++ m2 ++ m3) a (b1 ++ b2 ++ b3).
Proof. intros -> H1 H2 H3. apply keep_clear_app; [exact H1|apply keep_clear_app; assumption]. Qed.

(* the per-byte flags of a sample: the sub-sample map, anything it does not cover being clear; without a map
   (audio) every byte may change *)
Definition covered (r : list ssp) : N := sumN (map (fun p => ss_clear p + ss_prot p) r).

Definition sample_mask (ssps : list ssp) (len : N) : list bool :=
  match ssps with
  | [] => rep true len
  | _ => expand ssps ++ rep false (len - covered ssps)
  end.

Lemma split3 (rest : list N) c p :
  rest = firstn c rest ++ firstn p (skipn c rest) ++ skipn p (skipn c rest).
Proof. rewrite (firstn_skipn p), (firstn_skipn c). reflexivity. Qed.

Lemma rep_length {A} (x : A) n : length (rep x n) = N.to_nat n.
Proof. unfold rep. apply repeat_length. Qed.

Lemma walk_keeps_gen (mid : N -> list N -> list N) (walk : list ssp -> list N -> list N) :
  (forall r t rest, walk (r :: t) rest =
     firstn (N.to_nat (ss_clear r)) rest ++
     mid (ss_prot r) (firstn (N.to_nat (ss_prot r)) (skipn (N.to_nat (ss_clear r)) rest)) ++
     walk t (skipn (N.to_nat (ss_prot r)) (skipn (N.to_nat (ss_clear r)) rest))) ->
  (forall rest, walk [] rest = rest) ->
  (forall p seg, length (mid p seg) = length seg) ->
  forall ranges rest, covered ranges <= lenN rest ->
    keep_clear (expand ranges ++ rep false (lenN rest - covered ranges)) rest (walk ranges rest).
Proof.
  intros Hcons Hnil Hmid. induction ranges as [|r t IH]; intros rest Hc.
  - rewrite Hnil. cbn [expand flat_map app covered map sumN]. rewrite N.sub_0_r. unfold rep, lenN.
    rewrite Nat2N.id. apply keep_clear_same.
  - rewrite Hcons. unfold covered in Hc. cbn [map sumN] in Hc. fold (covered t) in Hc.
    set (c := ss_clear r) in *. set (p := ss_prot r) in *.
    set (rest' := skipn (N.to_nat p) (skipn (N.to_nat c) rest)).
    assert (Hl' : lenN rest' = lenN rest - c - p).
    { unfold rest', lenN. rewrite !skipn_length. lia. }
    assert (Hm : expand (r :: t) ++ rep false (lenN rest - covered (r :: t))
                 = rep false c ++ rep true p ++ (expand t ++ rep false (lenN rest' - covered t))).
    { cbn [expand flat_map]. fold (expand t). fold c p. rewrite <- !app_assoc. do 3 f_equal.
      f_equal. unfold covered at 1. cbn [map sumN]. fold (covered t) c p. lia. }
    rewrite Hm.
    assert (L1 : length (firstn (N.to_nat c) rest) = N.to_nat c).
    { rewrite firstn_length. unfold lenN in Hc. lia. }
    assert (L2 : length (firstn (N.to_nat p) (skipn (N.to_nat c) rest)) = N.to_nat p).
    { rewrite firstn_length, skipn_length. unfold lenN in Hc. lia. }
    apply (keep3 _ _ _ rest _ _ _ _ _ _ (split3 rest (N.to_nat c) (N.to_nat p))).
    + unfold rep. apply keep_clear_same'. exact L1.
    + unfold rep. apply keep_clear_any'; [exact L2|rewrite Hmid; exact L2].
    + apply IH. rewrite Hl'. lia.
Qed.

Section Cenc.
  Variable E : list N -> list N -> list N.
  Hypothesis HE : forall k b, length (E k b) = 16%nat.

  Lemma ref_cenc_keeps key iv ssps sample :
    covered ssps <= lenN sample ->
    keep_clear (sample_mask ssps (lenN sample)) sample (ref_cenc E key iv ssps sample).
  Proof.
    intros Hc. destruct ssps as [|r t].
    - cbn [sample_mask ref_cenc]. unfold rep, lenN. rewrite Nat2N.id. apply keep_clear_any.
      rewrite xorl_length; [reflexivity|]. rewrite ks_seg_length. reflexivity.
    - unfold sample_mask, ref_cenc.
      assert (G : forall m ranges rest, covered ranges <= lenN rest ->
                keep_clear (expand ranges ++ rep false (lenN rest - covered ranges)) rest
                           (ref_walk E key iv m ranges rest)).
      { intros m ranges. revert m. induction ranges as [|r0 t0 IH]; intros m rest Hr.
        - cbn [ref_walk expand flat_map app covered map sumN]. rewrite N.sub_0_r. unfold rep, lenN.
          rewrite Nat2N.id. apply keep_clear_same.
        - unfold covered in Hr. cbn [map sumN] in Hr. fold (covered t0) in Hr.
          cbn [ref_walk]. set (c := ss_clear r0) in *. set (p := ss_prot r0) in *.
          set (rest' := skipn (N.to_nat p) (skipn (N.to_nat c) rest)).
          assert (Hl' : lenN rest' = lenN rest - c - p).
          { unfold rest', lenN. rewrite !skipn_length. lia. }
          assert (Hm : expand (r0 :: t0) ++ rep false (lenN rest - covered (r0 :: t0))
                       = rep false c ++ rep true p ++ (expand t0 ++ rep false (lenN rest' - covered t0))).
          { cbn [expand flat_map]. fold (expand t0). fold c p. rewrite <- !app_assoc. do 3 f_equal.
            f_equal. unfold covered at 1. cbn [map sumN]. fold (covered t0) c p. lia. }
          rewrite Hm.
          assert (L1 : length (firstn (N.to_nat c) rest) = N.to_nat c).
          { rewrite firstn_length. unfold lenN in Hr. lia. }
          assert (L2 : length (firstn (N.to_nat p) (skipn (N.to_nat c) rest)) = N.to_nat p).
          { rewrite firstn_length, skipn_length. unfold lenN in Hr. lia. }
          apply (keep3 _ _ _ rest _ _ _ _ _ _ (split3 rest (N.to_nat c) (N.to_nat p))).
          + unfold rep. apply keep_clear_same'. exact L1.
          + unfold rep. apply keep_clear_any'; [exact L2|].
            rewrite xorl_length; [exact L2|]. rewrite ks_seg_length. exact L2.
          + apply IH. rewrite Hl'. lia. }
      apply G. exact Hc.
  Qed.

  Lemma cenc_sample_keeps key iv ssps sample c :
    length iv = 16%nat -> bytes_ok iv = true -> key_ok key = true ->
    covered ssps <= lenN sample -> lenN sample < 4294967296 ->
    crypt_sample_cenc E key iv ssps sample = Ok c ->
    keep_clear (sample_mask ssps (lenN sample)) sample c.
  Proof.
    intros Hl Hb Hk Hc Hlen H.
    rewrite (crypt_sample_cenc_ref E key iv HE Hl Hb ssps sample Hk Hc Hlen) in H.
    inversion H; subst c. apply ref_cenc_keeps. exact Hc.
  Qed.

  Variable protfunc : list N -> res (list ssp).
  Hypothesis Hprot : forall s r, protfunc s = Ok r -> covered r <= lenN s.

  Lemma cenc_frag_keeps key : forall samples iv encs,
    length iv = 16%nat -> bytes_ok iv = true -> key_ok key = true ->
    Forall (fun s => lenN s < 4294967296) samples ->
    encrypt_samples_cenc E protfunc key iv samples = Ok encs ->
    keep_clear (concat (map (fun e => sample_mask (e_ssps e) (lenN (e_data e))) encs))
               (concat samples) (concat (map e_data encs)) /\
    Forall2 (fun s e => protfunc s = Ok (e_ssps e) /\ length (e_data e) = length s) samples encs.
  Proof.
    induction samples as [|s t IH]; intros iv encs Hl Hb Hk Hf H.
    - cbn in H. inversion H; subst. cbn. split; [exact I|constructor].
    - cbn [encrypt_samples_cenc] in H.
      destruct (protfunc s) as [ssps| | |] eqn:Ep; try discriminate. cbn [rbind] in H.
      destruct (crypt_sample_cenc E key iv ssps s) as [c| | |] eqn:Ec; try discriminate. cbn [rbind] in H.
      destruct (encrypt_samples_cenc E protfunc key (increment_iv iv ssps (lenN s)) t) as [r| | |] eqn:Er;
        try discriminate.
      cbn [rbind] in H. inversion H; subst encs. clear H.
      pose proof (Forall_inv Hf) as Hs. pose proof (Forall_inv_tail Hf) as Ht. cbv beta in Hs.
      assert (Hl' : length (increment_iv iv ssps (lenN s)) = 16%nat).
      { unfold increment_iv. rewrite increment_iv_inplace_length. exact Hl. }
      assert (Hb' : bytes_ok (increment_iv iv ssps (lenN s)) = true).
      { unfold increment_iv. apply increment_iv_inplace_bytes_ok. exact Hb. }
      destruct (IH _ _ Hl' Hb' Hk Ht Er) as [IH1 IH2].
      pose proof (cenc_sample_keeps key iv ssps s c Hl Hb Hk (Hprot s ssps Ep) Hs Ec) as Hkeep.
      pose proof (crypt_sample_cenc_length E key iv ssps s c Ec) as Hlc.
      cbn [map concat e_ssps e_data]. split.
      + apply keep_clear_app; [|exact IH1].
        replace (lenN c) with (lenN s) by (unfold lenN; rewrite Hlc; reflexivity). exact Hkeep.
      + constructor; [split; [exact Ep|exact Hlc]|exact IH2].
  Qed.
End Cenc.

Section CbcsOnly.
  Variable E : list N -> list N -> list N.
  Variable D : list N -> list N -> list N.
  Hypothesis HE : forall k b, length (E k b) = 16%nat.
  Hypothesis HD : forall k b, length (D k b) = 16%nat.

  Lemma ref_cbcs_keeps dec key iv ssps cb sb sample :
    length iv = 16%nat -> covered ssps <= lenN sample ->
    keep_clear (sample_mask ssps (lenN sample)) sample (ref_cbcs E D dec key iv ssps cb sb sample).
  Proof.
    intros Hiv Hc.
    assert (Hnc : (cb * 16) mod 16 = 0) by (apply N.mod_mul; discriminate).
    destruct ssps as [|r t].
    - cbn [sample_mask ref_cbcs]. unfold rep, lenN. rewrite Nat2N.id. apply keep_clear_any.
      symmetry. apply ref_cbcs_range_length; assumption.
    - unfold sample_mask, ref_cbcs.
      apply (walk_keeps_gen
               (fun p seg => if 0 <? p then ref_cbcs_range E D dec key iv seg (cb * 16) (sb * 16) else seg)
               (fun ranges rest => ref_cbcs_walk E D dec key iv ranges rest (cb * 16) (sb * 16))).
      + intros r0 t0 rest. reflexivity.
      + intros rest. reflexivity.
      + intros p seg. destruct (0 <? p); [apply ref_cbcs_range_length; assumption|reflexivity].
      + exact Hc.
  Qed.

  Lemma cbcs_sample_keeps dec key iv ssps cb sb sample c :
    length iv = 16%nat -> key_ok key = true ->
    covered ssps <= lenN sample -> lenN sample < 4294967296 ->
    crypt_sample_cbcs E D dec key iv ssps cb sb sample = Ok c ->
    keep_clear (sample_mask ssps (lenN sample)) sample c.
  Proof.
    intros Hl Hk Hc Hlen H.
    rewrite (crypt_sample_cbcs_ref E D key HE HD dec iv ssps cb sb sample Hk Hl Hc Hlen) in H.
    inversion H; subst c. apply ref_cbcs_keeps; assumption.
  Qed.

  Variable protfunc : list N -> res (list ssp).
  Hypothesis Hprot : forall s r, protfunc s = Ok r -> covered r <= lenN s.

  Lemma cbcs_frag_keeps key iv cb sb : forall samples encs,
    length iv = 16%nat -> key_ok key = true ->
    Forall (fun s => lenN s < 4294967296) samples ->
    encrypt_samples_cbcs E D protfunc key iv cb sb samples = Ok encs ->
    keep_clear (concat (map (fun e => sample_mask (e_ssps e) (lenN (e_data e))) encs))
               (concat samples) (concat (map e_data encs)) /\
    Forall2 (fun s e => protfunc s = Ok (e_ssps e) /\ length (e_data e) = length s) samples encs.
  Proof.
    induction samples as [|s t IH]; intros encs Hl Hk Hf H.
    - cbn in H. inversion H; subst. cbn. split; [exact I|constructor].
    - cbn [encrypt_samples_cbcs] in H.
      destruct (protfunc s) as [ssps| | |] eqn:Ep; try discriminate. cbn [rbind] in H.
      destruct (crypt_sample_cbcs E D false key iv ssps cb sb s) as [c| | |] eqn:Ec; try discriminate.
      cbn [rbind] in H.
      destruct (encrypt_samples_cbcs E D protfunc key iv cb sb t) as [r| | |] eqn:Er; try discriminate.
      cbn [rbind] in H. inversion H; subst encs. clear H.
      pose proof (Forall_inv Hf) as Hs. pose proof (Forall_inv_tail Hf) as Ht. cbv beta in Hs.
      destruct (IH r Hl Hk Ht eq_refl) as [IH1 IH2].
      pose proof (cbcs_sample_keeps false key iv ssps cb sb s c Hl Hk (Hprot s ssps Ep) Hs Ec) as Hkeep.
      destruct (keep_clear_length _ _ _ Hkeep) as [La Lb].
      assert (Hlc : length c = length s) by lia.
      cbn [map concat e_ssps e_data]. split.
      + apply keep_clear_app; [|exact IH1].
        replace (lenN c) with (lenN s) by (unfold lenN; rewrite Hlc; reflexivity). exact Hkeep.
      + constructor; [split; [exact Ep|exact Hlc]|exact IH2].
  Qed.
End CbcsOnly.
