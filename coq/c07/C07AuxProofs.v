(* C07AuxProofs.v — saiz sample-info sizes vs the senc entries actually written; the saio offset. *)
From V.lib Require Import Base.
From V.c07 Require Import C07Model.

(* the bytes EncodeSWNoHdr writes for one sample that has an IV and a sub-sample list *)
Definition entry_bytes (iv : list N) (ssps : list ssp) : list N :=
  iv ++ be_bytes2 (u16 (lenN ssps)) ++ flat_map (fun p => be_bytes2 (ss_clear p) ++ be_bytes4 (ss_prot p)) ssps.

Lemma flat_map_len6 ssps :
  lenN (flat_map (fun p => be_bytes2 (ss_clear p) ++ be_bytes4 (ss_prot p)) ssps) = 6 * lenN ssps.
Proof.
  induction ssps as [|p t IH]; [reflexivity|].
  cbn [flat_map]. rewrite !lenN_app, IH, lenN_cons.
  change (lenN (be_bytes2 (ss_clear p))) with 2. change (lenN (be_bytes4 (ss_prot p))) with 4. lia.
Qed.

Lemma entry_bytes_len iv ssps : lenN (entry_bytes iv ssps) = lenN iv + 2 + 6 * lenN ssps.
Proof.
  unfold entry_bytes. rewrite !lenN_app, flat_map_len6.
  change (lenN (be_bytes2 (u16 (lenN ssps)))) with 2. lia.
Qed.

(* what senc_entry produces is entry_bytes, when the IV and sub-sample list of sample i are the i-th stored ones *)
Lemma senc_entry_bytes s i iv ssps :
  0 <? sn_ivsize s = true -> sn_subs s = true ->
  nth_error (sn_ivs s) i = Some iv -> nth_error (sn_ss s) i = Some ssps ->
  senc_entry s i = Ok (entry_bytes iv ssps).
Proof.
  intros H1 H2 H3 H4. unfold senc_entry, nth_res. rewrite H1, H2, H3, H4. reflexivity.
Qed.

Lemma Ok_inj {A} (x y : A) : Ok x = Ok y -> x = y.
Proof. intros H. injection H. auto. Qed.

Lemma saiz_add_cons b iv p t :
  saiz_add b iv (p :: t) =
  Ok (mkSaiz (sz_info b ++ [u8 (lenN iv + 2 + lenN (p :: t) * 6)]) (sz_default b) (sz_count b + 1)).
Proof. reflexivity. Qed.

(* saiz records the entry size modulo 256 (Go: byte(size)) *)
Lemma aux_info_size b iv ssps b' :
  ssps <> [] -> saiz_add b iv ssps = Ok b' ->
  sz_info b' = sz_info b ++ [lenN (entry_bytes iv ssps) mod 256] /\
  sz_count b' = sz_count b + 1 /\
  (lenN (entry_bytes iv ssps) < 256 -> sz_info b' = sz_info b ++ [lenN (entry_bytes iv ssps)]).
Proof.
  intros Hne H. destruct ssps as [|p t]; [congruence|].
  rewrite saiz_add_cons in H. apply Ok_inj in H. subst b'. cbn [sz_info sz_count].
  rewrite entry_bytes_len. unfold u8.
  replace (lenN iv + 2 + lenN (p :: t) * 6) with (lenN iv + 2 + 6 * lenN (p :: t)) by lia.
  split; [reflexivity|]. split; [reflexivity|]. intros Hlt. rewrite N.mod_small by exact Hlt. reflexivity.
Qed.

(* ... and is therefore wrong from 40 sub-sample entries on (16-byte IV): 16 + 2 + 6*40 = 258 is recorded as 2 *)
Lemma aux_info_overflow :
  exists iv ssps b',
    lenN iv = 16 /\ lenN ssps = 40 /\
    saiz_add saiz_empty iv ssps = Ok b' /\ sz_info b' = [2] /\ lenN (entry_bytes iv ssps) = 258.
Proof.
  exists (repeat 0 16), (repeat (mkSsp 96 16) 40). eexists.
  split; [reflexivity|]. split; [reflexivity|]. split; [reflexivity|]. split; vm_compute; reflexivity.
Qed.

(* the saio offset computed by EncryptFragment = position of the first senc entry in a moof whose boxes have
   the sizes they had when EncryptFragment ran *)
Lemma saio_traf_spec : forall pre off sdo z post,
  forallb (fun x => negb (fst x)) pre = true -> forallb (fun x => negb (fst x)) post = true ->
  saio_traf off sdo (pre ++ (true, z) :: post) = off + sumN (map snd pre) + 16.
Proof.
  induction pre as [|[f s] t IH]; intros off sdo z post Hpre Hpost.
  - cbn [app saio_traf map sumN].
    assert (Hp : forall l o d, forallb (fun x : bool * N => negb (fst x)) l = true -> saio_traf o d l = d).
    { induction l as [|[f s] l IHl]; intros o d Hl; [reflexivity|].
      cbn [forallb fst] in Hl. apply andb_true_iff in Hl. destruct Hl as [Hf Hl].
      destruct f; [discriminate|]. cbn [saio_traf]. apply IHl. exact Hl. }
    rewrite Hp by exact Hpost. lia.
  - cbn [forallb fst] in Hpre. apply andb_true_iff in Hpre. destruct Hpre as [Hf Hpre].
    destruct f; [discriminate|]. cbn [app saio_traf map sumN snd].
    rewrite IH by assumption. lia.
Qed.

Lemma saio_offset_spec before pre z post :
  forallb (fun x => negb (fst x)) pre = true -> forallb (fun x => negb (fst x)) post = true ->
  saio_offset before (pre ++ (true, z) :: post) = 8 + sumN before + 8 + sumN (map snd pre) + 16.
Proof. intros H1 H2. unfold saio_offset. apply saio_traf_spec; assumption. Qed.
