(* C07SizeProofs.v — the slice-header size the C15 models of avc.ParseSliceHeader / hevc.ParseSliceHeader report
   (sh.Size = uint32(r.NrBytesRead())) never exceeds the length of the NAL unit: the EBSP reader model (coq/c13) only
   advances its byte position over bytes that exist, and the parsers (coq/c15, read-only imports) only touch the reader
   state through its operations.  Invariant `inv` of the reader state, a Hoare-style `post` for the parser monad, one
   rule per reader operation / combinator / loop, and a tactic that walks the parser text. *)
From V.lib Require Import Base.
From V.c13 Require Import C13Spec C13Model.
From V.c15 Require Import C15Model C15HevcModel.

Section Inv.
  Variable d : list N.

  Definition inv (s : rstate) : Prop := rdata s = d /\ rpos s <= lenN d.

  Lemma nth_some_lt {A} (l : list A) i x : nth_error l (N.to_nat i) = Some x -> i < lenN l.
  Proof.
    intros H. assert (H1 : (N.to_nat i < length l)%nat) by (apply nth_error_Some; congruence).
    unfold lenN. lia.
  Qed.

  Lemma fill_inv esc fuel : forall s n, inv s -> inv (fill esc fuel s n).
  Proof.
    induction fuel as [|f IH]; intros s n [Hd Hp]; cbn [fill]; [split; assumption|].
    destruct (rn s <? n); [|split; assumption].
    unfold byte_at. destruct (nth_error (rdata s) (N.to_nat (rpos s))) as [b|] eqn:E1.
    - apply nth_some_lt in E1. rewrite Hd in E1.
      destruct (esc && (rzc s =? 2) && (b =? 3)).
      + destruct (nth_error (rdata s) (N.to_nat (rpos s + 1))) as [b'|] eqn:E2.
        * apply nth_some_lt in E2. rewrite Hd in E2. apply IH. split; cbn [rdata rpos]; [exact Hd|lia].
        * split; cbn [rdata rpos]; [exact Hd|lia].
      + apply IH. split; cbn [rdata rpos]; [exact Hd|lia].
    - split; cbn [rdata rpos]; assumption.
  Qed.

  Lemma read_gen_inv esc s n : inv s -> inv (snd (read_gen esc s n)).
  Proof.
    intros H. unfold read_gen. destruct (rerr s); [exact H|].
    pose proof (fill_inv esc (S (N.to_nat (n / 8) + 1)) s n H) as H1.
    destruct (rerr (fill esc (S (N.to_nat (n / 8) + 1)) s n)); [exact H1|].
    destruct H1 as [H1 H2]. split; cbn [snd rdata rpos]; assumption.
  Qed.

  Lemma read_inv s n : inv s -> inv (snd (read s n)).
  Proof. apply read_gen_inv. Qed.

  Lemma read_flag_inv s : inv s -> inv (snd (read_flag s)).
  Proof.
    intros H. unfold read_flag. pose proof (read_inv s 1 H) as H1. destruct (read s 1). exact H1.
  Qed.

  Lemma lz_loop_inv fuel : forall s lz r s', inv s -> lz_loop fuel s lz = Some (r, s') -> inv s'.
  Proof.
    induction fuel as [|f IH]; intros s lz r s' H E; [discriminate|].
    cbn [lz_loop] in E. pose proof (read_inv s 1 H) as H1. destruct (read s 1) as [b s1]. cbn [snd] in H1.
    destruct (rerr s1); [inversion E; subst; exact H1|].
    destruct (b =? 1); [inversion E; subst; exact H1|].
    eapply IH; eassumption.
  Qed.

  Lemma read_ue_inv s : inv s -> inv (snd (read_ue s)).
  Proof.
    intros H. unfold read_ue. destruct (rerr s); [exact H|].
    destruct (lz_loop (S (8 * length (rdata s) + 8)) s 0) as [[lz s1]|] eqn:E; [|exact H].
    pose proof (lz_loop_inv _ _ _ _ _ H E) as H1.
    destruct (rerr s1); [exact H1|].
    pose proof (read_inv s1 lz H1) as H2. destruct (read s1 lz) as [e s2]. cbn [snd] in H2.
    destruct (rerr s2); exact H2.
  Qed.

  Lemma read_se_inv s : inv s -> inv (snd (read_se s)).
  Proof.
    intros H. unfold read_se. pose proof (read_ue_inv s H) as H1. destruct (read_ue s) as [u s1]. cbn [snd] in H1.
    destruct (rerr s1); [exact H1|]. destruct (u mod 2 =? 1); exact H1.
  Qed.

  Lemma rset_err_inv s e : inv s -> inv (rset_err s e).
  Proof. intros [H1 H2]. split; assumption. Qed.

  Lemma er_more_inv s : inv s -> inv (snd (er_more s)).
  Proof.
    intros H. unfold er_more, more_rbsp_data. destruct (rerr s); [exact H|].
    pose proof (read_inv s 1 H) as H1. destruct (read s 1) as [b s1]. cbn [snd] in H1.
    destruct (rerr s1); [exact H1|].
    destruct (negb (b =? 1)); [exact H|].
    destruct (more_loop (S (8 * length (rdata s) + 8)) s1) as [[|]|]; exact H.
  Qed.

  Lemma trail_loop_inv fuel : forall s, inv s -> inv (snd (trail_loop fuel s)).
  Proof.
    induction fuel as [|f IH]; intros s H; [exact H|]. cbn [trail_loop].
    pose proof (read_inv s 1 H) as H1. destruct (read s 1) as [b s1]. cbn [snd] in H1.
    destruct (rerr s1); [apply rset_err_inv; exact H1|].
    destruct (b =? 1); [exact H1|]. apply IH. exact H1.
  Qed.

  Lemma er_trailing_inv s : inv s -> inv (snd (er_trailing s)).
  Proof.
    intros H. unfold er_trailing. destruct (rerr s); [exact H|].
    pose proof (read_inv s 1 H) as H1. destruct (read s 1) as [b s1]. cbn [snd] in H1.
    destruct (rerr s1); [exact H1|]. destruct (negb (b =? 1)); [exact H1|].
    apply trail_loop_inv. exact H1.
  Qed.

  (* ---------------------------------------------------------------- the parser monad over ER *)
  Definition post {A} (m : @M rstate A) (Q : A -> Prop) : Prop :=
    forall s a s', inv s -> m s = Ok (a, s') -> inv s' /\ Q a.

  Definition T {A} : A -> Prop := fun _ => True.

  Lemma post_ret {A} (a : A) (Q : A -> Prop) : Q a -> post (ret a) Q.
  Proof. intros H s a' s' Hi E. inversion E; subst. split; assumption. Qed.

  Lemma post_bind {A B} (m : @M rstate A) (k : A -> @M rstate B) (Q1 : A -> Prop) (Q2 : B -> Prop) :
    post m Q1 -> (forall a, Q1 a -> post (k a) Q2) -> post (bind m k) Q2.
  Proof.
    intros Hm Hk s b s' Hi E. unfold bind in E.
    destruct (m s) as [[a s1]| | |] eqn:Em; try discriminate.
    destruct (Hm s a s1 Hi Em) as [Hi1 Hq]. exact (Hk a Hq s1 b s' Hi1 E).
  Qed.

  Lemma post_fail {A} (Q : A -> Prop) : post (@fail rstate A) Q.
  Proof. intros s a s' _ E. discriminate. Qed.
  Lemma post_oof {A} (Q : A -> Prop) : post (@out_of_fuel rstate A) Q.
  Proof. intros s a s' _ E. discriminate. Qed.
  Lemma post_panic {A} (Q : A -> Prop) : post (fun _ : rstate => @Panic (A * rstate)) Q.
  Proof. intros s a s' _ E. discriminate. Qed.

  Lemma post_rd n : post (rd ER n) T.
  Proof. intros s a s' Hi E. unfold rd in E. inversion E. pose proof (read_inv s n Hi) as H.
         change (r_read ER s n) with (read s n) in *. destruct (read s n). inversion H0; subst. split; [exact H|exact I]. Qed.
  Lemma post_rd_flag : post (rd_flag ER) T.
  Proof. intros s a s' Hi E. unfold rd_flag in E. inversion E. pose proof (read_flag_inv s Hi) as H.
         change (r_flag ER s) with (read_flag s) in *. destruct (read_flag s). inversion H0; subst. split; [exact H|exact I]. Qed.
  Lemma post_rd_ue : post (rd_ue ER) T.
  Proof. intros s a s' Hi E. unfold rd_ue in E. inversion E. pose proof (read_ue_inv s Hi) as H.
         change (r_ue ER s) with (read_ue s) in *. destruct (read_ue s). inversion H0; subst. split; [exact H|exact I]. Qed.
  Lemma post_rd_se : post (rd_se ER) T.
  Proof. intros s a s' Hi E. unfold rd_se in E. inversion E. pose proof (read_se_inv s Hi) as H.
         change (r_se ER s) with (read_se s) in *. destruct (read_se s). inversion H0; subst. split; [exact H|exact I]. Qed.
  Lemma post_get_err : post (get_err ER) T.
  Proof. intros s a s' Hi E. inversion E; subst. split; [exact Hi|exact I]. Qed.
  Lemma post_set_err : post (set_err ER) T.
  Proof. intros s a s' Hi E. inversion E; subst. split; [apply rset_err_inv; exact Hi|exact I]. Qed.
  Lemma post_rd_more : post (rd_more ER) T.
  Proof. intros s a s' Hi E. unfold rd_more in E. inversion E. pose proof (er_more_inv s Hi) as H.
         change (r_more ER s) with (er_more s) in *. destruct (er_more s). inversion H0; subst. split; [exact H|exact I]. Qed.
  Lemma post_rd_trailing : post (rd_trailing ER) T.
  Proof. intros s a s' Hi E. unfold rd_trailing in E. inversion E. pose proof (er_trailing_inv s Hi) as H.
         change (r_trailing ER s) with (er_trailing s) in *. destruct (er_trailing s). inversion H0; subst. split; [exact H|exact I]. Qed.
  (* NrBytesRead: at most the length of the NAL unit *)
  Lemma post_get_nbytes : post (get_nbytes ER) (fun nb => nb <= lenN d).
  Proof. intros s a s' Hi E. inversion E; subst. split; [exact Hi|]. destruct Hi as [_ H]. exact H. Qed.

  Lemma post_weaken {A} (m : @M rstate A) (Q : A -> Prop) : post m Q -> post m T.
  Proof. intros H s a s' Hi E. destruct (H s a s' Hi E) as [H1 _]. split; [exact H1|exact I]. Qed.

  (* ---- combinators *)
  Lemma post_rep {A} (body : @M rstate A) : post body T -> forall n, post (rep n body) T.
  Proof.
    intros Hb. induction n as [|k IH]; cbn [rep]; [apply post_ret; exact I|].
    eapply post_bind; [exact Hb|]. intros x _. eapply post_bind; [exact IH|]. intros t _. apply post_ret. exact I.
  Qed.
  Lemma post_rep_n {A} (body : @M rstate A) n : post body T -> post (rep_n n body) T.
  Proof. intros Hb. unfold rep_n. destruct (n <=? loop_bound); [apply post_rep; exact Hb|apply post_oof]. Qed.

  Lemma post_rep_break {A} (body : @M rstate A) : post body T -> forall n, post (rep_break ER n body) T.
  Proof.
    intros Hb. induction n as [|k IH]; cbn [rep_break]; [apply post_ret; exact I|].
    eapply post_bind; [apply post_get_err|]. intros e _. destruct e; [apply post_ret; exact I|].
    eapply post_bind; [exact Hb|]. intros x _. eapply post_bind; [exact IH|]. intros t _. apply post_ret. exact I.
  Qed.
  Lemma post_rep_break_n {A} (body : @M rstate A) n : post body T -> post (rep_break_n ER n body) T.
  Proof. intros Hb. unfold rep_break_n. destruct (n <=? loop_bound); [apply post_rep_break; exact Hb|apply post_oof]. Qed.

  Lemma post_rep_until_err {A} (body : @M rstate A) : post body T -> forall n, post (rep_until_err ER n body) T.
  Proof.
    intros Hb. induction n as [|k IH]; cbn [rep_until_err]; [apply post_ret; exact I|].
    eapply post_bind; [exact Hb|]. intros x _. eapply post_bind; [apply post_get_err|]. intros e _.
    destruct e; [apply post_ret; exact I|]. eapply post_bind; [exact IH|]. intros t _. apply post_ret. exact I.
  Qed.
  Lemma post_rep_until_err_n {A} (body : @M rstate A) n : post body T -> post (rep_until_err_n ER n body) T.
  Proof. intros Hb. unfold rep_until_err_n. destruct (n <=? loop_bound); [apply post_rep_until_err; exact Hb|apply post_oof]. Qed.

  Lemma post_mapM {A B} (f : A -> @M rstate B) : (forall a, post (f a) T) -> forall l, post (mapM f l) T.
  Proof.
    intros Hf. induction l as [|a t IH]; cbn [mapM]; [apply post_ret; exact I|].
    eapply post_bind; [apply Hf|]. intros b _. eapply post_bind; [exact IH|]. intros bs _. apply post_ret. exact I.
  Qed.
End Inv.

(* walks the text of a parser: one rule per construct *)
Ltac pstep :=
  lazymatch goal with
  | |- post _ (bind (get_nbytes _) _) _ => eapply post_bind; [apply post_get_nbytes|cbv beta; intros ? ?]
  | |- post _ (bind _ _) _ => eapply (post_bind _ _ _ (fun _ => True)); [|intros ? _]
  | |- post _ (ret _) (fun _ => True) => apply post_ret; exact I
  | |- post _ (ret _) T => apply post_ret; exact I
  | |- post _ fail _ => apply post_fail
  | |- post _ out_of_fuel _ => apply post_oof
  | |- post _ (fun _ => Panic) _ => apply post_panic
  | |- post _ (rd _ _) _ => apply post_rd
  | |- post _ (rd_flag _) _ => apply post_rd_flag
  | |- post _ (rd_ue _) _ => apply post_rd_ue
  | |- post _ (rd_se _) _ => apply post_rd_se
  | |- post _ (get_err _) _ => apply post_get_err
  | |- post _ (set_err _) _ => apply post_set_err
  | |- post _ (rd_more _) _ => apply post_rd_more
  | |- post _ (rd_trailing _) _ => apply post_rd_trailing
  | |- post _ (rep_n _ _) _ => apply post_rep_n
  | |- post _ (rep_break_n _ _ _) _ => apply post_rep_break_n
  | |- post _ (rep_until_err_n _ _ _) _ => apply post_rep_until_err_n
  | |- post _ (mapM _ _) _ => apply post_mapM; intros ?
  | |- post _ (if ?c then _ else _) _ => destruct c
  | |- post _ (match ?x with _ => _ end) _ => destruct x
  | |- post _ (let _ := _ in _) _ => cbv zeta
  end.

Ltac psolve := repeat first [assumption | pstep | solve [auto with postdb]].

(* ---------------------------------------------------------------- AVC *)
Section Avc.
  Variable d : list N.

  Lemma post_rplm_loop fuel : forall st, post d (rplm_loop ER fuel st) (fun _ => True).
  Proof.
    induction fuel as [|f IH]; intros [[[a b] c] e]; cbn [rplm_loop]; [apply post_oof|].
    psolve; apply IH.
  Qed.

  Lemma post_mmco_loop fuel : forall st, post d (mmco_loop ER fuel st) (fun _ => True).
  Proof.
    induction fuel as [|f IH]; intros [[[a b] c] e]; cbn [mmco_loop]; [apply post_oof|].
    psolve; apply IH.
  Qed.

  Lemma post_pwt_entry c : post d (pwt_entry ER c) (fun _ => True).
  Proof. unfold pwt_entry. psolve. Qed.
End Avc.

Lemma u32_le x : u32 x <= x.
Proof. unfold u32. apply N.mod_le. discriminate. Qed.

Lemma run_post {A} d (m : @M rstate A) (Q : A -> Prop) a :
  post d m Q -> run m (rinit d) = Ok a -> Q a.
Proof.
  intros Hp H. unfold run in H. destruct (m (rinit d)) as [[a' s']| | |] eqn:E; try discriminate.
  inversion H; subst. apply (Hp (rinit d) a s'); [|exact E]. split; [reflexivity|]. cbn [rpos rinit]. lia.
Qed.

Section AvcSlice.
  Variable d : list N.

  Lemma post_parse_slice_header spsmap ppsmap :
    post d (parse_slice_header ER spsmap ppsmap) (fun h => sh_size h <= lenN d).
  Proof.
    unfold parse_slice_header.
    repeat first [ apply post_rplm_loop | apply post_mmco_loop | apply post_pwt_entry | pstep ].
    all: try (apply post_ret; cbn [sh_size]; eapply N.le_trans; [apply u32_le|eassumption]).
  Qed.
End AvcSlice.

(* avc.ParseSliceHeader: the size it reports is at most the length of the NAL unit, for EVERY NAL unit (truncated
   ones, garbage) and every parameter-set map *)
Lemma avc_slice_size_le spsmap ppsmap nalu sh :
  parse_slice_er spsmap ppsmap nalu = Ok sh -> sh_size sh <= lenN nalu.
Proof.
  unfold parse_slice_er. intros H.
  exact (run_post nalu _ (fun h => sh_size h <= lenN nalu) sh (post_parse_slice_header nalu spsmap ppsmap) H).
Qed.

(* ---------------------------------------------------------------- HEVC *)
Section HevcSlice.
  Variable d : list N.

  Lemma post_hparse_rps_inter_entry : post d (hparse_rps_inter_entry ER) (fun _ => True).
  Proof. unfold hparse_rps_inter_entry. repeat pstep. Qed.

  Lemma post_hparse_st_rps idx num sets : post d (hparse_st_rps ER idx num sets) (fun _ => True).
  Proof. unfold hparse_st_rps. repeat first [apply post_hparse_rps_inter_entry | pstep]. Qed.

  Lemma post_hlt_loop cnt : forall i nlsps sp acc npt, post d (hlt_loop ER cnt i nlsps sp acc npt) (fun _ => True).
  Proof.
    induction cnt as [|c IH]; intros i nlsps sp acc npt; cbn [hlt_loop]; [apply post_ret; exact I|].
    repeat first [apply IH | pstep].
  Qed.

  Lemma post_hparse_rplm is_b l0 l1 npt : post d (hparse_rplm ER is_b l0 l1 npt) (fun _ => True).
  Proof. unfold hparse_rplm. repeat pstep. Qed.

  Lemma post_hparse_pwt_values fl : post d (hparse_pwt_values ER fl) (fun _ => True).
  Proof. unfold hparse_pwt_values. repeat pstep. Qed.

  Lemma post_hparse_pwt_list c cnt : post d (hparse_pwt_list ER c cnt) (fun _ => True).
  Proof. unfold hparse_pwt_list. repeat first [apply post_hparse_pwt_values | pstep]. Qed.

  Lemma post_hparse_pwt is_b c l0 l1 : post d (hparse_pwt ER is_b c l0 l1) (fun _ => True).
  Proof. unfold hparse_pwt. repeat first [apply post_hparse_pwt_list | pstep]. Qed.

  Lemma post_halign_loop fuel : post d (halign_loop ER er_bib fuel) (fun _ => True).
  Proof.
    induction fuel as [|f IH]; cbn [halign_loop]; [apply post_oof|].
    intros s a s' Hi E. destruct (er_bib s <? 8).
    - revert s a s' Hi E. change (post d (bind (rd_flag ER) (fun b : bool => if b then fail else halign_loop ER er_bib f)) (fun _ => True)).
      repeat first [apply IH | pstep].
    - inversion E; subst. split; [exact Hi|exact I].
  Qed.

  Lemma post_hparse_slice_main nt sp pp : post d (hparse_slice_main ER nt sp pp) (fun _ => True).
  Proof.
    unfold hparse_slice_main.
    repeat first [apply post_hparse_st_rps | apply post_hlt_loop | apply post_hparse_rplm | apply post_hparse_pwt | pstep].
  Qed.

  Lemma post_hparse_slice spsmap ppsmap :
    post d (hparse_slice ER er_bib spsmap ppsmap) (fun h => s_size h <= lenN d).
  Proof.
    unfold hparse_slice.
    repeat first [apply post_hparse_slice_main | apply post_halign_loop | pstep].
    all: try (apply post_ret; cbn [s_size]; eapply N.le_trans; [apply u32_le|eassumption]).
  Qed.
End HevcSlice.

(* hevc.ParseSliceHeader likewise *)
Lemma hevc_slice_size_le spsmap ppsmap nalu sh :
  hparse_slice_er spsmap ppsmap nalu = Ok sh -> s_size sh <= lenN nalu.
Proof.
  unfold hparse_slice_er. intros H.
  exact (run_post nalu _ (fun h => s_size h <= lenN nalu) sh (post_hparse_slice nalu spsmap ppsmap) H).
Qed.
