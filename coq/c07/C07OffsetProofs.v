(* C07OffsetProofs.v — trun.data_offset after encryption.  EncryptFragment appends saiz, saio, senc to the traf and
   leaves trun.DataOffset alone; Fragment.Encode recomputes it (SetTrunDataOffsets: size of the moof + mdat header +
   data of the runs written before, coq/c05 set_offsets / C05OffProofs.set_offsets_spec, read-only import).
   (1) on C05's fragment structure: adding a bytes of boxes to a traf moves the data offset of EVERY trun by exactly a;
   (2) on the bytes of the fragment (C07TrafModel): the moof of the encrypted fragment is longer by exactly
       |saiz| + |saio| + |senc|, and reading sample i of the ENCRYPTED file through the grown offset returns the
       encrypted sample, which equals the clear sample outside its protected ranges; reading the clear file through
       the clear offset returns the clear sample. *)
From V.lib Require Import Base.
From V.c05 Require Import C05Model C05FragModel C05OffProofs.
From V.c07 Require Import C07Model C07Spec C07RangeProofs C07OnlyProofs C07TrafModel C07TrafProofs.
From V.c06 Require Import C06SencModel.

(* ---------------------------------------------------------------- (1) C05 structure *)
(* EncryptFragment on C05's fragment: a bytes of boxes appended to the (first) traf *)
Definition add_traf_extra (fr : frag) (a : N) : frag :=
  match fr_trafs fr with
  | t :: ts => mkFrag (mkTraf (tf_hd t) (tf_dt t) (tf_truns t) (tf_extra t + a) :: ts) (fr_mdat fr) (fr_next fr)
                      (fr_pre fr) (fr_moofx fr) (fr_post fr)
  | [] => fr
  end.

Lemma moof_size_add_extra fr a : fr_trafs fr <> [] -> moof_size (add_traf_extra fr a) = moof_size fr + a.
Proof.
  unfold add_traf_extra, moof_size. destruct (fr_trafs fr) as [|t ts] eqn:Et; [congruence|]. intros _.
  cbn [fr_trafs fr_moofx map sumN]. unfold traf_size. cbn [tf_hd tf_dt tf_truns tf_extra]. lia.
Qed.

Lemma all_truns_add_extra fr a : all_truns (fr_trafs (add_traf_extra fr a)) = all_truns (fr_trafs fr).
Proof.
  unfold add_traf_extra. destruct (fr_trafs fr) as [|t ts] eqn:Et; [rewrite Et; reflexivity|].
  cbn [fr_trafs]. unfold all_truns. cbn [flat_map tf_truns]. reflexivity.
Qed.

Lemma all_truns_with_offsets fr f :
  all_truns (with_offsets fr f) = map (fun r => tr_with_doff r (f r)) (all_truns (fr_trafs fr)).
Proof.
  unfold with_offsets, all_truns. induction (fr_trafs fr) as [|t ts IH]; [reflexivity|].
  cbn [map flat_map tf_truns]. rewrite map_app, IH. reflexivity.
Qed.

Definition doffs (fr : frag) : list Z := map tr_doff (all_truns (fr_trafs fr)).

(* every trun's data offset written by Fragment.Encode grows by exactly the bytes added to the traf *)
Lemma offsets_grow_struct fr a :
  fr_trafs fr <> [] ->
  let L := all_truns (fr_trafs fr) in
  let m := md_size_touch (fr_mdat fr) in
  NoDup (map tr_won L) ->
  moof_size fr + a + md_header_size m + tsum (map pr L) < 2147483648 ->
  doffs (set_offsets (add_traf_extra fr a)) = map (fun z => (z + Z.of_N a)%Z) (doffs (set_offsets fr)) /\
  doffs (set_offsets fr) = map (fun r => Z.of_N (moof_size fr + md_header_size m + wsum (map pr L) (tr_won r))) L.
Proof.
  intros Hne L m Hnd Hlt.
  pose proof (set_offsets_spec fr) as H1. cbv zeta in H1. fold L m in H1.
  specialize (H1 Hnd). rewrite H1 by lia.
  pose proof (set_offsets_spec (add_traf_extra fr a)) as H2. cbv zeta in H2.
  rewrite all_truns_add_extra in H2. fold L in H2.
  assert (Hm : fr_mdat (add_traf_extra fr a) = fr_mdat fr).
  { unfold add_traf_extra. destruct (fr_trafs fr); reflexivity. }
  rewrite Hm in H2. fold m in H2. rewrite (moof_size_add_extra fr a Hne) in H2.
  specialize (H2 Hnd). rewrite H2 by lia.
  unfold doffs, fr_with. cbn [fr_trafs]. rewrite !all_truns_with_offsets, all_truns_add_extra. fold L.
  rewrite !map_map. split.
  - apply map_ext. intros r. cbn [tr_with_doff tr_doff]. lia.
  - apply map_ext. intros r. reflexivity.
Qed.

(* ---------------------------------------------------------------- (2) bytes of the fragment *)
Definition cc_mdat : list N := [109; 100; 97; 116].
Definition frag_file (f : bfrag) : list N :=
  moof_bytes f ++ box_hdr cc_mdat (mdat_payload f) ++ mdat_payload f.
(* what SetTrunDataOffsets writes into the single trun: moof size + mdat header *)
Definition data_offset (f : bfrag) : N := lenN (moof_bytes f) + 8.

Definition sizes_before (samples : list (list N)) (i : nat) : N := sumN (map (fun s => lenN s) (firstn i samples)).

(* sample i read through a data offset: size_i bytes at off + sizes of the samples before *)
Definition read_sample (file : list N) (off : N) (samples : list (list N)) (i : nat) : list N :=
  firstn (length (nth i samples [])) (skipn (N.to_nat (off + sizes_before samples i)) file).

Lemma concat_split_nth {A} : forall (l : list (list A)) i s,
  nth_error l i = Some s ->
  concat l = concat (firstn i l) ++ s ++ concat (skipn (S i) l).
Proof.
  induction l as [|x t IH]; intros i s H; [destruct i; discriminate|].
  destruct i as [|i].
  - cbn in H. inversion H; subst. reflexivity.
  - cbn [nth_error] in H. cbn [firstn skipn concat]. rewrite (IH i s H), <- !app_assoc. reflexivity.
Qed.

Lemma lenN_concat {A} (l : list (list A)) : lenN (concat l) = sumN (map (fun s => lenN s) l).
Proof. induction l as [|x t IH]; [reflexivity|]. cbn [concat map sumN]. rewrite lenN_app, IH. reflexivity. Qed.

Lemma read_sample_ok f i s :
  nth_error (bf_samples f) i = Some s ->
  read_sample (frag_file f) (data_offset f) (bf_samples f) i = s.
Proof.
  intros H. unfold read_sample, frag_file, data_offset, mdat_payload.
  rewrite (nth_error_nth _ _ [] H).
  rewrite (concat_split_nth (bf_samples f) i s H) at 2.
  set (pre := concat (firstn i (bf_samples f))).
  assert (Hoff : lenN (moof_bytes f) + 8 + sizes_before (bf_samples f) i
                 = lenN ((moof_bytes f ++ box_hdr cc_mdat (concat (bf_samples f))) ++ pre)).
  { rewrite !lenN_app. unfold pre. rewrite lenN_concat. unfold sizes_before.
    assert (H8 : lenN (box_hdr cc_mdat (concat (bf_samples f))) = 8) by reflexivity. rewrite H8. reflexivity. }
  rewrite Hoff.
  replace (moof_bytes f ++ box_hdr cc_mdat (concat (bf_samples f)) ++ pre ++ s ++ concat (skipn (S i) (bf_samples f)))
    with (((moof_bytes f ++ box_hdr cc_mdat (concat (bf_samples f))) ++ pre) ++ s ++ concat (skipn (S i) (bf_samples f)))
    by (rewrite <- !app_assoc; reflexivity).
  rewrite skipn_lenN_app.
  replace (length s) with (N.to_nat (lenN s)) by (unfold lenN; lia).
  apply firstn_lenN_app.
Qed.

Lemma lenN_box_hdr cc p : lenN cc = 4 -> lenN (box_hdr cc p) = 8.
Proof. intros H. unfold box_hdr. rewrite lenN_app, H. reflexivity. Qed.

Lemma moof_len f :
  lenN (moof_bytes f) = 8 + lenN (concat (bf_before f)) + 8 + lenN (concat (bf_traf f)) + lenN (concat (bf_after f)).
Proof.
  unfold moof_bytes, moof_payload, traf_bytes. rewrite !lenN_app, !lenN_box_hdr by reflexivity. lia.
Qed.

Section Offsets.
  Variable E : list N -> list N -> list N.
  Variable D : list N -> list N -> list N.
  Variable protfunc : list N -> res (list ssp).
  Hypothesis HE : forall k b, length (E k b) = 16%nat.
  Hypothesis HD : forall k b, length (D k b) = 16%nat.

  Lemma offsets_after_encrypt sch key iv cb sb f g :
    (forall s r, protfunc s = Ok r -> covered r <= lenN s) ->
    key_ok key = true -> bytes_ok iv = true ->
    Forall (fun s => lenN s < 4294967296) (bf_samples f) ->
    encrypt_fragment_bytes E D protfunc sch key iv cb sb f = Ok g ->
    exists saizb saiob sencb encs,
      bf_traf g = bf_traf f ++ [saizb; saiob; sencb] /\
      lenN (moof_bytes g) = lenN (moof_bytes f) + (lenN saizb + lenN saiob + lenN sencb) /\
      data_offset g = data_offset f + (lenN saizb + lenN saiob + lenN sencb) /\
      bf_samples g = map e_data encs /\
      keep_clear (concat (map (fun e => sample_mask (e_ssps e) (lenN (e_data e))) encs))
                 (mdat_payload f) (mdat_payload g) /\
      forall i s, nth_error (bf_samples f) i = Some s ->
        read_sample (frag_file f) (data_offset f) (bf_samples f) i = s /\
        exists e, nth_error encs i = Some e /\ protfunc s = Ok (e_ssps e) /\
                  read_sample (frag_file g) (data_offset g) (bf_samples g) i = e_data e /\
                  sizes_before (bf_samples g) i = sizes_before (bf_samples f) i /\
                  length (e_data e) = length s.
  Proof.
    intros Hprot Hk Hb Hf H.
    destruct (encrypt_fragment_only E D protfunc HE HD sch key iv cb sb f g Hprot Hk Hb Hf H)
      as (Hbef & Haft & (saizb & saiob & sencb & Htraf & _) & (encs & Hs & HF2 & Hkeep)).
    exists saizb, saiob, sencb, encs. split; [exact Htraf|].
    assert (Hlen : lenN (moof_bytes g) = lenN (moof_bytes f) + (lenN saizb + lenN saiob + lenN sencb)).
    { rewrite !moof_len, Hbef, Haft, Htraf, concat_app, lenN_app. cbn [concat]. rewrite !lenN_app, lenN_nil. lia. }
    split; [exact Hlen|]. split; [unfold data_offset; rewrite Hlen; lia|]. split; [exact Hs|]. split; [exact Hkeep|].
    intros i s Hi. split; [apply read_sample_ok; exact Hi|].
    assert (Hnth : forall k sk, nth_error (bf_samples f) k = Some sk ->
              exists ek, nth_error encs k = Some ek /\ protfunc sk = Ok (e_ssps ek) /\ length (e_data ek) = length sk).
    { clear Hi. revert HF2. generalize (bf_samples f) encs. intros l1 l2 HF. induction HF as [|x y l l' Hxy _ IH]; intros k sk Hk'.
      - destruct k; discriminate.
      - destruct k as [|k]; cbn [nth_error] in *.
        + inversion Hk'; subst. exists y. split; [reflexivity|exact Hxy].
        + apply IH. exact Hk'. }
    destruct (Hnth i s Hi) as (e & He & Hp & Hl).
    exists e. split; [exact He|]. split; [exact Hp|].
    assert (Hsz : forall k, sizes_before (bf_samples g) k = sizes_before (bf_samples f) k).
    { rewrite Hs. clear -HF2. revert HF2. generalize (bf_samples f) encs. intros l1 l2 HF.
      induction HF as [|x y l l' Hxy _ IH]; intros k; [destruct k; reflexivity|].
      destruct k as [|k]; [reflexivity|]. unfold sizes_before in *. cbn [map firstn sumN]. rewrite IH.
      destruct Hxy as [_ Hxy]. unfold lenN. rewrite Hxy. reflexivity. }
    split; [|split; [apply Hsz|exact Hl]].
    apply read_sample_ok. rewrite Hs. rewrite nth_error_map, He. reflexivity.
  Qed.
End Offsets.
