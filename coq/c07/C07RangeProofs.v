(* C07RangeProofs.v — Get(AVC|HEVC)ProtectRanges + AppendProtectRange against the per-byte mask of the
   property: partition, 16-bit clear counts, shape. *)
From V.lib Require Import Base.
From V.c07 Require Import C07Model C07Spec.

Arguments rep : simpl never.

(* ---------------------------------------------------------------- arithmetic *)
Lemma u32_small x : x < 4294967296 -> u32 x = x.
Proof. intros H. unfold u32. apply N.mod_small. exact H. Qed.

Lemma u16_small x : x < 65536 -> u16 x = x.
Proof. intros H. unfold u16. apply N.mod_small. exact H. Qed.

Lemma sub32_small a b : b <= a -> a < 4294967296 -> sub32 a b = a - b.
Proof.
  intros H1 H2. unfold sub32.
  replace (a + 4294967296 - b) with ((a - b) + 1 * 4294967296) by lia.
  rewrite N.mod_add by discriminate. apply N.mod_small. lia.
Qed.

Lemma land_fff0 x : x < 4294967296 -> N.land x 4294967280 = (x / 16) * 16.
Proof.
  intros H.
  change 4294967280 with (N.ldiff (N.ones 32) (N.ones 4)).
  assert (E : N.land x (N.ldiff (N.ones 32) (N.ones 4)) = N.ldiff (N.land x (N.ones 32)) (N.ones 4)).
  { apply N.bits_inj. intros n. rewrite N.land_spec, !N.ldiff_spec, N.land_spec. apply andb_assoc. }
  rewrite E, N.land_ones. change (2 ^ 32) with 4294967296. rewrite N.mod_small by exact H.
  rewrite N.ldiff_ones_r, N.shiftr_div_pow2, N.shiftl_mul_pow2. reflexivity.
Qed.

(* ---------------------------------------------------------------- rep / expand *)
Lemma rep_add {A} (x : A) a b : rep x (a + b) = rep x a ++ rep x b.
Proof. unfold rep. rewrite N2Nat.inj_add. apply repeat_app. Qed.

Lemma rep_0 {A} (x : A) : rep x 0 = [].
Proof. reflexivity. Qed.

Lemma rep_lenN {A} (x : A) n : lenN (rep x n) = n.
Proof. unfold rep, lenN. rewrite repeat_length. apply N2Nat.id. Qed.

Lemma expand_app a b : expand (a ++ b) = expand a ++ expand b.
Proof. unfold expand. apply flat_map_app. Qed.

Lemma expand_one c p : expand [mkSsp c p] = rep false c ++ rep true p.
Proof. unfold expand. cbn [flat_map ss_clear ss_prot]. apply app_nil_r. Qed.

(* per-entry invariant: 16-bit clear count, and a predicate Q on the protected count *)
Definition entry_ok (Q : N -> Prop) (p : ssp) : Prop := ss_clear p < 65536 /\ Q (ss_prot p).

(* ---------------------------------------------------------------- AppendProtectRange *)
Lemma apr_loop_spec (Q : N -> Prop) fuel : forall ssps c p,
  Q 0 -> Q p ->
  c / 65535 < N.of_nat fuel ->
  exists r, apr_loop fuel ssps c p = Ok r /\
            expand r = expand ssps ++ rep false c ++ rep true p /\
            (Forall (entry_ok Q) ssps -> Forall (entry_ok Q) r).
Proof.
  induction fuel as [|f IH]; intros ssps c p HQ0 HQp Hf; [lia|].
  cbn [apr_loop]. destruct (65536 <=? c) eqn:E.
  - apply N.leb_le in E.
    destruct (IH (ssps ++ [mkSsp 65535 0]) (c - 65535) p HQ0 HQp) as (r & Hr & He & Hc); [lia|].
    exists r. split; [exact Hr|]. split.
    + rewrite He, expand_app, expand_one, rep_0, app_nil_r, <- !app_assoc.
      f_equal. rewrite app_assoc, <- rep_add. do 2 f_equal. lia.
    + intros Hs. apply Hc. apply Forall_app. split; [exact Hs|].
      constructor; [split; [cbn; lia|exact HQ0]|constructor].
  - apply N.leb_gt in E. eexists. split; [reflexivity|]. split.
    + rewrite expand_app, expand_one, u16_small by exact E. reflexivity.
    + intros Hs. apply Forall_app. split; [exact Hs|].
      constructor; [split; [cbn [ss_clear]; rewrite u16_small by exact E; exact E|exact HQp]|constructor].
Qed.

Lemma append_protect_range_spec (Q : N -> Prop) ssps c p :
  Q 0 -> Q p ->
  exists r, append_protect_range ssps c p = Ok r /\
            expand r = expand ssps ++ rep false c ++ rep true p /\
            (Forall (entry_ok Q) ssps -> Forall (entry_ok Q) r).
Proof. intros H0 Hp. unfold append_protect_range. apply apr_loop_spec; [exact H0|exact Hp|lia]. Qed.

(* ---------------------------------------------------------------- slices of a concatenation *)
Lemma skipn_lenN_app {A} (a b : list A) : skipn (N.to_nat (lenN a)) (a ++ b) = b.
Proof.
  unfold lenN. rewrite Nat2N.id, skipn_app, skipn_all, Nat.sub_diag. reflexivity.
Qed.

Lemma firstn_lenN_app {A} (a b : list A) : firstn (N.to_nat (lenN a)) (a ++ b) = a.
Proof.
  unfold lenN. rewrite Nat2N.id, firstn_app, firstn_all, Nat.sub_diag. cbn. apply app_nil_r.
Qed.

Lemma slice_mid pre mid post lo hi :
  lo = lenN pre -> hi = lenN pre + lenN mid ->
  slice (pre ++ mid ++ post) lo hi = Ok mid.
Proof.
  intros -> ->. unfold slice.
  assert (H1 : (lenN pre + lenN mid <? lenN pre) = false) by (apply N.ltb_ge; lia).
  assert (H2 : (lenN (pre ++ mid ++ post) <? lenN pre + lenN mid) = false)
    by (apply N.ltb_ge; rewrite !lenN_app; lia).
  rewrite H1, H2. cbn [orb].
  replace (lenN pre + lenN mid - lenN pre) with (lenN mid) by lia.
  rewrite skipn_lenN_app, firstn_lenN_app. reflexivity.
Qed.

Lemma idx_mid pre b post i : i = lenN pre -> idx (pre ++ b :: post) i = Ok b.
Proof. intros ->. unfold idx. rewrite skipn_lenN_app. reflexivity. Qed.

Lemma be_bytes4_be L : L < 4294967296 -> be (be_bytes4 L) = L.
Proof.
  intros H. unfold be, be_bytes4, u8. cbn [fold_left].
  pose proof (N.div_mod L 256). pose proof (N.div_mod (L / 256) 256).
  pose proof (N.div_mod (L / 65536) 256).
  lia.
Qed.

Lemma be_bytes4_len L : lenN (be_bytes4 L) = 4.
Proof. reflexivity. Qed.

Lemma slice_eq s pre mid post lo hi :
  s = pre ++ mid ++ post -> lo = lenN pre -> hi = lenN pre + lenN mid -> slice s lo hi = Ok mid.
Proof. intros ->. apply slice_mid. Qed.

Lemma idx_eq s pre b post i : s = pre ++ b :: post -> i = lenN pre -> idx s i = Ok b.
Proof. intros ->. apply idx_mid. Qed.

Lemma prot_cenc_le L : prot_cenc L <= L.
Proof. unfold prot_cenc. destruct (112 <=? L + 4) eqn:E; [apply N.leb_le in E|]; lia. Qed.

Lemma prot_cenc_pos L : 112 <= L + 4 -> 0 < prot_cenc L.
Proof. intros H. unfold prot_cenc. apply N.leb_le in H. rewrite H. lia. Qed.

Section RangeProofs.
  Variable isvideo : N -> bool.
  Variable hdr : list N -> res N.
  Variable sch : scheme.

  (* p is the number of trailing bytes the code decides to protect in NALU n *)
  Definition decides (n : list N) (p : N) : Prop :=
    match n with
    | [] => False
    | b0 :: _ =>
        if isvideo b0 then
          match sch with
          | Cenc => p = prot_cenc (lenN n)
          | Cbcs => exists h, hdr n = Ok h /\ h <= lenN n /\ p = lenN n - h
          | SchemeOther => False
          end
        else p = 0
    end.

  Lemma decides_le n p : decides n p -> p <= lenN n.
  Proof.
    unfold decides. destruct n as [|b0 t]; [tauto|].
    destruct (isvideo b0); [|lia].
    destruct sch; [intros ->; apply prot_cenc_le|intros (h & _ & ? & ->); lia|tauto].
  Qed.

  Lemma pr_step_wf pre n post p cs ce ssps :
    lenN (pre ++ frame n ++ post) < 4294967296 ->
    decides n p -> cs <= lenN pre ->
    pr_step isvideo hdr sch (pre ++ frame n ++ post) (lenN pre) cs ce ssps =
      (if 0 <? p then
         do ssps' <- append_protect_range ssps (lenN pre + 4 + lenN n - p - cs) p;
         Ok (lenN pre + 4 + lenN n, lenN pre + 4 + lenN n, lenN pre + 4 + lenN n, ssps')
       else Ok (lenN pre + 4 + lenN n, cs, lenN pre + 4 + lenN n, ssps)).
  Proof.
    intros Hlen Hdec Hcs.
    pose proof (decides_le _ _ Hdec) as Hple.
    set (sample := pre ++ frame n ++ post) in *.
    set (L := lenN n) in *. set (pos := lenN pre) in *.
    assert (HL : lenN sample = pos + 4 + L + lenN post).
    { unfold sample, frame. rewrite !lenN_app, be_bytes4_len. fold L pos. lia. }
    destruct n as [|b0 t]; [destruct Hdec|].
    assert (Hs1 : sample = pre ++ be_bytes4 L ++ ((b0 :: t) ++ post)).
    { unfold sample, frame. fold L. rewrite <- !app_assoc. reflexivity. }
    assert (Hs2 : sample = (pre ++ be_bytes4 L) ++ (b0 :: t) ++ post).
    { unfold sample, frame. fold L. rewrite <- !app_assoc. reflexivity. }
    assert (Hs3 : sample = (pre ++ be_bytes4 L) ++ b0 :: (t ++ post)).
    { rewrite Hs2. reflexivity. }
    assert (Hpl : lenN (pre ++ be_bytes4 L) = pos + 4) by (rewrite lenN_app, be_bytes4_len; reflexivity).
    unfold pr_step.
    rewrite (u32_small (pos + 4)) by lia.
    rewrite (slice_eq sample pre (be_bytes4 L) ((b0 :: t) ++ post) pos (pos + 4) Hs1 eq_refl)
      by (rewrite be_bytes4_len; reflexivity).
    cbn [rbind]. rewrite be_bytes4_be by lia.
    rewrite (u32_small (pos + 4 + L)) by lia.
    assert (Hlt : (lenN sample <? pos + 4 + L) = false) by (apply N.ltb_ge; lia).
    rewrite Hlt.
    rewrite (idx_eq sample _ b0 _ (pos + 4) Hs3) by (symmetry; exact Hpl).
    cbn [rbind].
    unfold decides in Hdec. destruct (isvideo b0) eqn:Ev.
    - rewrite (slice_eq sample (pre ++ be_bytes4 L) (b0 :: t) post (pos + 4) (pos + 4 + L) Hs2)
        by (rewrite ?Hpl; reflexivity).
      cbn [rbind]. destruct sch.
      + (* cenc *) subst p. unfold prot_cenc. fold L.
        rewrite (u32_small (L + 4)) by lia.
        destruct (112 <=? L + 4) eqn:E.
        * apply N.leb_le in E.
          rewrite (sub32_small (L + 4) 96) by lia.
          rewrite land_fff0 by lia.
          set (P := (L + 4 - 96) / 16 * 16) in *.
          assert (HP : 0 < P) by (unfold P; lia).
          apply N.ltb_lt in HP. rewrite !HP. cbn [rbind].
          rewrite (sub32_small (pos + 4 + L) P) by lia.
          rewrite (sub32_small (pos + 4 + L - P) cs) by lia.
          rewrite (u32_small (pos + 4 + L - P + P)) by lia.
          replace (pos + 4 + L - P + P) with (pos + 4 + L) by lia.
          rewrite ?HP. destruct (append_protect_range ssps (pos + 4 + L - P - cs) P); reflexivity.
        * cbn [rbind]. cbn. reflexivity.
      + (* cbcs *) destruct Hdec as (h & Hh & Hhl & ->). fold L in Hhl |- *. rewrite Hh. cbn [rbind].
        rewrite (u32_small h) by lia.
        rewrite (u32_small (pos + 4 + h)) by lia.
        rewrite (sub32_small L h) by lia.
        destruct (0 <? L - h) eqn:E.
        * apply N.ltb_lt in E.
          rewrite (sub32_small (pos + 4 + h) cs) by lia.
          rewrite (u32_small (pos + 4 + h + (L - h))) by lia.
          replace (pos + 4 + h + (L - h)) with (pos + 4 + L) by lia.
          replace (pos + 4 + L - (L - h) - cs) with (pos + 4 + h - cs) by lia.
          destruct (append_protect_range ssps (pos + 4 + h - cs) (L - h)); reflexivity.
        * apply N.ltb_ge in E. cbn [rbind].
          replace (pos + 4 + h) with (pos + 4 + L) by lia. reflexivity.
      + destruct Hdec.
    - subst p. cbn [rbind]. cbn. reflexivity.
  Qed.

  (* an EMPTY NAL unit (length field 0) in front of further bytes, cenc: the byte looked at is the first byte of
     what follows; whatever it is, nothing is protected and the clear run extends over the length field *)
  Lemma pr_step_empty pre b t cs ce ssps :
    sch = Cenc ->
    lenN (pre ++ frame [] ++ b :: t) < 4294967296 ->
    pr_step isvideo hdr sch (pre ++ frame [] ++ b :: t) (lenN pre) cs ce ssps =
      Ok (lenN pre + 4, cs, lenN pre + 4, ssps).
  Proof.
    intros Hsch Hlen.
    change (frame []) with (be_bytes4 0 ++ []) in *. rewrite app_nil_r in *.
    set (sample := pre ++ be_bytes4 0 ++ b :: t) in *.
    set (pos := lenN pre) in *.
    assert (HL : lenN sample = pos + 4 + lenN (b :: t)).
    { unfold sample. rewrite !lenN_app, be_bytes4_len. fold pos. lia. }
    assert (Hb : 1 <= lenN (b :: t)) by (rewrite lenN_cons; lia).
    assert (Hs2 : sample = (pre ++ be_bytes4 0) ++ [] ++ b :: t).
    { unfold sample. rewrite <- !app_assoc. reflexivity. }
    assert (Hs3 : sample = (pre ++ be_bytes4 0) ++ b :: t).
    { unfold sample. rewrite <- !app_assoc. reflexivity. }
    assert (Hpl : lenN (pre ++ be_bytes4 0) = pos + 4) by (rewrite lenN_app, be_bytes4_len; reflexivity).
    unfold pr_step.
    rewrite (u32_small (pos + 4)) by lia.
    rewrite (slice_eq sample pre (be_bytes4 0) (b :: t) pos (pos + 4) eq_refl eq_refl)
      by (rewrite be_bytes4_len; reflexivity).
    cbn [rbind]. rewrite be_bytes4_be by lia. rewrite !N.add_0_r.
    rewrite !(u32_small (pos + 4)) by lia.
    assert (Hlt : (lenN sample <? pos + 4) = false) by (apply N.ltb_ge; lia).
    rewrite Hlt.
    rewrite (idx_eq sample _ b _ (pos + 4) Hs3) by (symmetry; exact Hpl).
    cbn [rbind]. rewrite Hsch.
    destruct (isvideo b).
    - rewrite (slice_eq sample (pre ++ be_bytes4 0) [] (b :: t) (pos + 4) (pos + 4) Hs2)
        by (rewrite ?Hpl, ?lenN_nil, ?N.add_0_r; reflexivity).
      cbn [rbind]. change (112 <=? u32 (0 + 4)) with false. cbn. reflexivity.
    - cbn. reflexivity.
  Qed.

  Variable P : list N -> N.
  Variable Q : N -> Prop.
  Hypothesis HQ0 : Q 0.

  Lemma frames_length0 nalus : (length nalus <= length (frames nalus))%nat.
  Proof.
    induction nalus as [|n t IH]; [apply Nat.le_refl|].
    cbn [frames flat_map length]. fold (frames t). unfold frame.
    rewrite !app_length. cbn [be_bytes4 length]. lia.
  Qed.

  (* layouts the theorems speak about: every non-empty NAL unit as `decides` says; an EMPTY NAL unit anywhere for
     cenc, as the last NAL unit for every scheme *)
  Fixpoint ok_layout (nalus : list (list N)) : Prop :=
    match nalus with
    | [] => True
    | n :: rest =>
        match n with
        | [] => rest = [] \/ sch = Cenc
        | _ => decides n (P n) /\ Q (P n)
        end /\ ok_layout rest
    end.

  Lemma frames_cons_byte n rest : exists b t, frames (n :: rest) = b :: t.
  Proof. cbn [frames flat_map]. unfold frame, be_bytes4. cbn [app]. eexists. eexists. reflexivity. Qed.

  Lemma pr_loop_wf : forall nalus fuel sample pre cs ssps M,
    sample = pre ++ frames nalus ->
    lenN sample < 4294967296 ->
    (length nalus < fuel)%nat ->
    ok_layout nalus ->
    cs <= lenN pre ->
    expand ssps ++ rep false (lenN pre - cs) = M ->
    Forall (entry_ok Q) ssps ->
    exists r, pr_loop_g isvideo hdr sch true fuel sample (lenN pre) cs (lenN pre) ssps = Ok r /\
              expand r = M ++ spec_mask isvideo P nalus /\ Forall (entry_ok Q) r.
  Proof.
    induction nalus as [|n rest IH]; intros fuel sample pre cs ssps M Hs Hlen Hf Hd Hcs HM Hok.
    - destruct fuel as [|f]; [inversion Hf|]. cbn [pr_loop_g].
      cbn [frames flat_map] in Hs. rewrite app_nil_r in Hs. subst sample.
      rewrite !u32_small by lia.
      assert (E : (lenN pre <? lenN pre - 4) = false) by (apply N.ltb_ge; lia).
      rewrite E. cbn [spec_mask flat_map]. rewrite app_nil_r.
      destruct (cs <? lenN pre) eqn:E2.
      + apply N.ltb_lt in E2. rewrite sub32_small by lia.
        destruct (append_protect_range_spec Q ssps (lenN pre - cs) 0 HQ0 HQ0) as (r & Hr & He & Hc).
        exists r. split; [exact Hr|]. split; [|apply Hc; exact Hok].
        rewrite He, rep_0, app_nil_r. exact HM.
      + apply N.ltb_ge in E2. exists ssps. split; [reflexivity|]. split; [|exact Hok].
        replace (lenN pre - cs) with 0 in HM by lia. rewrite rep_0, app_nil_r in HM. exact HM.
    - destruct fuel as [|f]; [inversion Hf|]. cbn [pr_loop_g].
      cbn [ok_layout] in Hd. destruct Hd as [Hdn Hdr].
      assert (Hpre' : lenN (pre ++ frame n) = lenN pre + 4 + lenN n).
      { unfold frame. rewrite !lenN_app, be_bytes4_len. lia. }
      destruct n as [|b0 t0].
      + (* empty NAL unit *)
        destruct rest as [|n2 rest'].
        * (* the last one: the loop ends in front of its length field, which is clear tail *)
          cbn [frames flat_map] in Hs. rewrite app_nil_r in Hs.
          assert (HL : lenN sample = lenN pre + 4) by (rewrite Hs, Hpre', lenN_nil; lia).
          rewrite HL. rewrite !u32_small by lia.
          assert (E : (lenN pre <? lenN pre + 4 - 4) = false) by (apply N.ltb_ge; lia).
          rewrite E.
          assert (E2 : (cs <? lenN pre + 4) = true) by (apply N.ltb_lt; lia).
          rewrite E2. rewrite sub32_small by lia.
          destruct (append_protect_range_spec Q ssps (lenN pre + 4 - cs) 0 HQ0 HQ0) as (r & Hr & He & Hc).
          exists r. split; [exact Hr|]. split; [|apply Hc; exact Hok].
          rewrite He, rep_0, app_nil_r, <- HM. cbn [spec_mask flat_map nalu_mask]. rewrite !app_nil_r.
          change (nalu_mask isvideo P []) with (rep false 4 ++ []). rewrite app_nil_r.
          rewrite <- app_assoc, <- rep_add. do 2 f_equal. lia.
        * destruct Hdn as [Hdn | Hdn]; [discriminate|].
          destruct (frames_cons_byte n2 rest') as (b & t & Hbt).
          change (frames ([] :: n2 :: rest')) with (frame [] ++ frames (n2 :: rest')) in Hs.
          rewrite Hbt in Hs. subst sample.
          assert (HL : lenN (pre ++ frame [] ++ b :: t) = lenN pre + 4 + lenN (b :: t)).
          { rewrite !lenN_app. change (lenN (frame [])) with 4. lia. }
          assert (Hb : 1 <= lenN (b :: t)) by (rewrite lenN_cons; lia).
          rewrite u32_small by lia.
          assert (E : (lenN pre <? lenN (pre ++ frame [] ++ b :: t) - 4) = true) by (apply N.ltb_lt; lia).
          rewrite E. rewrite (pr_step_empty pre b t cs (lenN pre) ssps Hdn Hlen). cbn [rbind].
          replace (lenN pre + 4) with (lenN (pre ++ frame [])) by (rewrite Hpre'; rewrite lenN_nil; lia).
          destruct (IH f (pre ++ frame [] ++ b :: t) (pre ++ frame []) cs ssps
                      (M ++ nalu_mask isvideo P [])) as (r & Hr & He & Hc).
          -- rewrite <- app_assoc, Hbt. reflexivity.
          -- exact Hlen.
          -- cbn [length] in Hf. cbn [length]. lia.
          -- exact Hdr.
          -- rewrite Hpre'. lia.
          -- rewrite <- HM, Hpre', lenN_nil. change (nalu_mask isvideo P []) with (rep false 4 ++ []).
             rewrite app_nil_r, <- !app_assoc, <- rep_add.
             do 2 f_equal. lia.
          -- exact Hok.
          -- exists r. split; [exact Hr|]. split; [|exact Hc].
             rewrite He. cbn [spec_mask flat_map]. rewrite <- app_assoc. reflexivity.
      + set (n := b0 :: t0) in *.
        destruct Hdn as [Hdn HQn].
        pose proof (decides_le _ _ Hdn) as Hple.
        cbn [frames flat_map] in *. fold (frames rest) in *. subst sample.
        assert (HL : lenN (pre ++ frame n ++ frames rest) = lenN pre + 4 + lenN n + lenN (frames rest)).
        { unfold frame. rewrite !lenN_app, be_bytes4_len. lia. }
        assert (Hne : 1 <= lenN n) by (unfold n; rewrite lenN_cons; lia).
        rewrite u32_small by lia.
        assert (E : (lenN pre <? lenN (pre ++ frame n ++ frames rest) - 4) = true) by (apply N.ltb_lt; lia).
        rewrite E. rewrite (pr_step_wf pre n (frames rest) (P n)) by assumption.
        assert (Hmask0 : P n = 0 -> nalu_mask isvideo P n = rep false (4 + lenN n)).
        { intros H0. unfold nalu_mask. rewrite H0, rep_0, app_nil_r, N.sub_0_r.
          unfold n. fold n. rewrite rep_add. destruct (isvideo b0); reflexivity. }
        assert (Hmask1 : 0 < P n -> nalu_mask isvideo P n = rep false (4 + (lenN n - P n)) ++ rep true (P n)).
        { intros H0. unfold nalu_mask. unfold n at 1. fold n.
          unfold decides in Hdn. unfold n at 1 in Hdn. destruct (isvideo b0); [|lia].
          rewrite rep_add, <- app_assoc. reflexivity. }
        destruct (0 <? P n) eqn:EP.
        * apply N.ltb_lt in EP.
          destruct (append_protect_range_spec Q ssps (lenN pre + 4 + lenN n - P n - cs) (P n) HQ0 HQn) as (r1 & Hr1 & He1 & Hc1).
          rewrite Hr1. cbn [rbind]. rewrite <- Hpre'.
          destruct (IH f (pre ++ frame n ++ frames rest) (pre ++ frame n) (lenN (pre ++ frame n)) r1
                      (M ++ nalu_mask isvideo P n)) as (r & Hr & He & Hc).
          -- rewrite <- app_assoc. reflexivity.
          -- exact Hlen.
          -- cbn [length] in Hf. lia.
          -- exact Hdr.
          -- lia.
          -- rewrite N.sub_diag, rep_0, app_nil_r, He1, <- HM, (Hmask1 EP), <- !app_assoc.
             f_equal. rewrite !app_assoc. f_equal. rewrite <- !rep_add. f_equal. lia.
          -- apply Hc1. exact Hok.
          -- exists r. split; [exact Hr|]. split; [|exact Hc].
             rewrite He. cbn [spec_mask flat_map]. rewrite <- app_assoc. reflexivity.
        * apply N.ltb_ge in EP. assert (EP0 : P n = 0) by lia.
          rewrite <- Hpre'.
          destruct (IH f (pre ++ frame n ++ frames rest) (pre ++ frame n) cs ssps
                      (M ++ nalu_mask isvideo P n)) as (r & Hr & He & Hc).
          -- rewrite <- app_assoc. reflexivity.
          -- exact Hlen.
          -- cbn [length] in Hf. lia.
          -- exact Hdr.
          -- lia.
          -- rewrite <- HM, (Hmask0 EP0), <- !app_assoc. f_equal. rewrite <- rep_add. f_equal. lia.
          -- exact Hok.
          -- exists r. split; [exact Hr|]. split; [|exact Hc].
             rewrite He. cbn [spec_mask flat_map]. rewrite <- app_assoc. reflexivity.
  Qed.

  (* a video NAL unit whose slice header does not parse (cbcs): the step, hence the whole sample, is refused *)
  Lemma pr_step_hdr_err pre b0 t post cs ce ssps :
    sch = Cbcs -> isvideo b0 = true -> hdr (b0 :: t) = Err ->
    lenN (pre ++ frame (b0 :: t) ++ post) < 4294967296 ->
    pr_step isvideo hdr sch (pre ++ frame (b0 :: t) ++ post) (lenN pre) cs ce ssps = Err.
  Proof.
    intros Hsch Hv Hh Hlen.
    set (sample := pre ++ frame (b0 :: t) ++ post) in *.
    set (L := lenN (b0 :: t)) in *. set (pos := lenN pre) in *.
    assert (HL : lenN sample = pos + 4 + L + lenN post).
    { unfold sample, frame. rewrite !lenN_app, be_bytes4_len. fold L pos. lia. }
    assert (Hs1 : sample = pre ++ be_bytes4 L ++ ((b0 :: t) ++ post)).
    { unfold sample, frame. fold L. rewrite <- !app_assoc. reflexivity. }
    assert (Hs2 : sample = (pre ++ be_bytes4 L) ++ (b0 :: t) ++ post).
    { unfold sample, frame. fold L. rewrite <- !app_assoc. reflexivity. }
    assert (Hs3 : sample = (pre ++ be_bytes4 L) ++ b0 :: (t ++ post)).
    { rewrite Hs2. reflexivity. }
    assert (Hpl : lenN (pre ++ be_bytes4 L) = pos + 4) by (rewrite lenN_app, be_bytes4_len; reflexivity).
    unfold pr_step.
    rewrite (u32_small (pos + 4)) by lia.
    rewrite (slice_eq sample pre (be_bytes4 L) ((b0 :: t) ++ post) pos (pos + 4) Hs1 eq_refl)
      by (rewrite be_bytes4_len; reflexivity).
    cbn [rbind]. rewrite be_bytes4_be by lia.
    rewrite (u32_small (pos + 4 + L)) by lia.
    assert (Hlt : (lenN sample <? pos + 4 + L) = false) by (apply N.ltb_ge; lia).
    rewrite Hlt.
    rewrite (idx_eq sample _ b0 _ (pos + 4) Hs3) by (symmetry; exact Hpl).
    cbn [rbind]. rewrite Hv.
    rewrite (slice_eq sample (pre ++ be_bytes4 L) (b0 :: t) post (pos + 4) (pos + 4 + L) Hs2)
      by (rewrite ?Hpl; reflexivity).
    cbn [rbind]. rewrite Hsch, Hh. reflexivity.
  Qed.

  (* the loop over a prefix of well-behaved NAL units, with at least 5 more bytes behind *)
  Lemma pr_loop_prefix : forall pre0 fuel sample front cs ssps rest,
    sample = front ++ frames pre0 ++ rest ->
    lenN sample < 4294967296 -> 5 <= lenN rest ->
    (length pre0 < fuel)%nat ->
    Forall (fun n => decides n (P n) /\ Q (P n)) pre0 ->
    cs <= lenN front ->
    exists fuel' cs' ssps',
      (0 < fuel')%nat /\ cs' <= lenN (front ++ frames pre0) /\
      pr_loop_g isvideo hdr sch true fuel sample (lenN front) cs (lenN front) ssps =
      pr_loop_g isvideo hdr sch true fuel' sample (lenN (front ++ frames pre0)) cs' (lenN (front ++ frames pre0)) ssps'.
  Proof.
    induction pre0 as [|n rest0 IH]; intros fuel sample front cs ssps rest Hs Hlen H5 Hf Hd Hcs.
    - exists fuel, cs, ssps. cbn [frames flat_map]. rewrite app_nil_r. split; [lia|]. split; [exact Hcs|reflexivity].
    - destruct fuel as [|f]; [inversion Hf|]. cbn [pr_loop_g].
      pose proof (Forall_inv Hd) as Hdn. pose proof (Forall_inv_tail Hd) as Hdr. cbv beta in Hdn.
      destruct Hdn as [Hdn HQn].
      pose proof (decides_le _ _ Hdn) as Hple.
      cbn [frames flat_map] in Hs. fold (frames rest0) in Hs. rewrite <- app_assoc in Hs. subst sample.
      set (post := frames rest0 ++ rest) in *.
      assert (HL : lenN (front ++ frame n ++ post) = lenN front + 4 + lenN n + lenN post).
      { unfold frame. rewrite !lenN_app, be_bytes4_len. lia. }
      assert (Hpost : 5 <= lenN post) by (unfold post; rewrite lenN_app; lia).
      rewrite u32_small by lia.
      assert (E : (lenN front <? lenN (front ++ frame n ++ post) - 4) = true) by (apply N.ltb_lt; lia).
      rewrite E. rewrite (pr_step_wf front n post (P n)) by assumption.
      assert (Hpre' : lenN (front ++ frame n) = lenN front + 4 + lenN n).
      { unfold frame. rewrite !lenN_app, be_bytes4_len. lia. }
      assert (Hfr : forall x, (front ++ frame n) ++ frames rest0 ++ x = front ++ frame n ++ frames rest0 ++ x)
        by (intros; rewrite <- !app_assoc; reflexivity).
      assert (Hfr2 : (front ++ frame n) ++ frames rest0 = front ++ frames (n :: rest0)).
      { cbn [frames flat_map]. rewrite <- !app_assoc. reflexivity. }
      destruct (0 <? P n) eqn:EP.
      + destruct (append_protect_range_spec Q ssps (lenN front + 4 + lenN n - P n - cs) (P n) HQ0 HQn) as (r1 & Hr1 & _ & _).
        rewrite Hr1. cbn [rbind]. rewrite <- Hpre'.
        destruct (IH f (front ++ frame n ++ post) (front ++ frame n) (lenN (front ++ frame n)) r1 rest) as (f' & cs' & ssps' & H1 & H2 & H3).
        * unfold post. rewrite Hfr. reflexivity.
        * exact Hlen.
        * exact H5.
        * cbn [length] in Hf. lia.
        * exact Hdr.
        * lia.
        * exists f', cs', ssps'. rewrite <- Hfr2. split; [exact H1|]. split; [exact H2|exact H3].
      + rewrite <- Hpre'.
        destruct (IH f (front ++ frame n ++ post) (front ++ frame n) cs ssps rest) as (f' & cs' & ssps' & H1 & H2 & H3).
        * unfold post. rewrite Hfr. reflexivity.
        * exact Hlen.
        * exact H5.
        * cbn [length] in Hf. lia.
        * exact Hdr.
        * lia.
        * exists f', cs', ssps'. rewrite <- Hfr2. split; [exact H1|]. split; [exact H2|exact H3].
  Qed.

  (* the exact outcome when a slice header does not parse: Get(AVC|HEVC)ProtectRanges returns the error *)
  Lemma protect_ranges_hdr_err pre0 b0 t post0 :
    sch = Cbcs -> isvideo b0 = true -> hdr (b0 :: t) = Err ->
    lenN (frames (pre0 ++ (b0 :: t) :: post0)) < 4294967296 ->
    Forall (fun n => decides n (P n) /\ Q (P n)) pre0 ->
    protect_ranges_r isvideo hdr sch (frames (pre0 ++ (b0 :: t) :: post0)) = Err.
  Proof.
    intros Hsch Hv Hh Hlen Hd.
    assert (Hfr : frames (pre0 ++ (b0 :: t) :: post0) = [] ++ frames pre0 ++ (frame (b0 :: t) ++ frames post0)).
    { unfold frames. rewrite flat_map_app. reflexivity. }
    set (sample := frames (pre0 ++ (b0 :: t) :: post0)) in *.
    assert (H5 : 5 <= lenN (frame (b0 :: t) ++ frames post0)).
    { unfold frame. rewrite !lenN_app, be_bytes4_len, lenN_cons. lia. }
    unfold protect_ranges_r, protect_ranges_g.
    assert (H4 : (lenN sample <? 4) = false).
    { apply N.ltb_ge. rewrite Hfr. cbn [app]. rewrite lenN_app. lia. }
    rewrite H4.
    assert (Hfuel : (length pre0 < S (length sample))%nat).
    { rewrite Hfr. cbn [app]. rewrite app_length. pose proof (frames_length0 pre0). lia. }
    destruct (pr_loop_prefix pre0 (S (length sample)) sample [] 0 [] (frame (b0 :: t) ++ frames post0)
                Hfr Hlen H5 Hfuel Hd (N.le_refl _)) as (f' & cs' & ssps' & H1 & H2 & H3).
    change (lenN (@nil N)) with 0 in H3. rewrite H3. cbn [app] in *.
    destruct f' as [|f']; [lia|]. cbn [pr_loop_g].
    assert (HL : lenN sample = lenN (frames pre0) + lenN (frame (b0 :: t) ++ frames post0)) by (rewrite Hfr, lenN_app; reflexivity).
    rewrite u32_small by lia.
    assert (E : (lenN (frames pre0) <? lenN sample - 4) = true) by (apply N.ltb_lt; lia).
    rewrite E. rewrite Hfr.
    rewrite (pr_step_hdr_err (frames pre0) b0 t (frames post0) cs' (lenN (frames pre0)) ssps' Hsch Hv Hh)
      by (rewrite <- Hfr; exact Hlen).
    reflexivity.
  Qed.

  (* an EMPTY NAL unit in front of further bytes, cbcs: the code looks at the first byte of what follows (the top
     byte of the next length field); if that is a video NAL header value it hands the empty NAL unit to the slice
     header parser, whose error is returned *)
  Lemma pr_step_empty_cbcs_err pre b t cs ce ssps :
    sch = Cbcs -> isvideo b = true -> hdr [] = Err ->
    lenN (pre ++ frame [] ++ b :: t) < 4294967296 ->
    pr_step isvideo hdr sch (pre ++ frame [] ++ b :: t) (lenN pre) cs ce ssps = Err.
  Proof.
    intros Hsch Hv Hh Hlen.
    change (frame []) with (be_bytes4 0 ++ []) in *. rewrite app_nil_r in *.
    set (sample := pre ++ be_bytes4 0 ++ b :: t) in *.
    set (pos := lenN pre) in *.
    assert (HL : lenN sample = pos + 4 + lenN (b :: t)).
    { unfold sample. rewrite !lenN_app, be_bytes4_len. fold pos. lia. }
    assert (Hb : 1 <= lenN (b :: t)) by (rewrite lenN_cons; lia).
    assert (Hs2 : sample = (pre ++ be_bytes4 0) ++ [] ++ b :: t).
    { unfold sample. rewrite <- !app_assoc. reflexivity. }
    assert (Hs3 : sample = (pre ++ be_bytes4 0) ++ b :: t).
    { unfold sample. rewrite <- !app_assoc. reflexivity. }
    assert (Hpl : lenN (pre ++ be_bytes4 0) = pos + 4) by (rewrite lenN_app, be_bytes4_len; reflexivity).
    unfold pr_step.
    rewrite (u32_small (pos + 4)) by lia.
    rewrite (slice_eq sample pre (be_bytes4 0) (b :: t) pos (pos + 4) eq_refl eq_refl)
      by (rewrite be_bytes4_len; reflexivity).
    cbn [rbind]. rewrite be_bytes4_be by lia. rewrite !N.add_0_r.
    rewrite !(u32_small (pos + 4)) by lia.
    assert (Hlt : (lenN sample <? pos + 4) = false) by (apply N.ltb_ge; lia).
    rewrite Hlt.
    rewrite (idx_eq sample _ b _ (pos + 4) Hs3) by (symmetry; exact Hpl).
    cbn [rbind]. rewrite Hsch, Hv.
    rewrite (slice_eq sample (pre ++ be_bytes4 0) [] (b :: t) (pos + 4) (pos + 4) Hs2)
      by (rewrite ?Hpl, ?lenN_nil, ?N.add_0_r; reflexivity).
    cbn [rbind]. rewrite Hh. reflexivity.
  Qed.

  Lemma protect_ranges_empty_inside_err pre0 n2 post0 :
    sch = Cbcs -> isvideo (u8 (lenN n2 / 16777216)) = true -> hdr [] = Err ->
    lenN (frames (pre0 ++ [] :: n2 :: post0)) < 4294967296 ->
    Forall (fun n => decides n (P n) /\ Q (P n)) pre0 ->
    protect_ranges_r isvideo hdr sch (frames (pre0 ++ [] :: n2 :: post0)) = Err.
  Proof.
    intros Hsch Hv Hh Hlen Hd.
    assert (Hbt : exists t, frames (n2 :: post0) = u8 (lenN n2 / 16777216) :: t).
    { cbn [frames flat_map]. unfold frame, be_bytes4. cbn [app]. eexists. reflexivity. }
    destruct Hbt as (t & Hbt).
    assert (Hfr : frames (pre0 ++ [] :: n2 :: post0) = [] ++ frames pre0 ++ (frame [] ++ frames (n2 :: post0))).
    { unfold frames. rewrite flat_map_app. reflexivity. }
    set (sample := frames (pre0 ++ [] :: n2 :: post0)) in *.
    assert (H5 : 5 <= lenN (frame [] ++ frames (n2 :: post0))).
    { rewrite Hbt, lenN_app, lenN_cons. change (lenN (frame [])) with 4. lia. }
    unfold protect_ranges_r, protect_ranges_g.
    assert (H4 : (lenN sample <? 4) = false).
    { apply N.ltb_ge. rewrite Hfr. cbn [app]. rewrite lenN_app. lia. }
    rewrite H4.
    assert (Hfuel : (length pre0 < S (length sample))%nat).
    { rewrite Hfr. cbn [app]. rewrite app_length. pose proof (frames_length0 pre0). lia. }
    destruct (pr_loop_prefix pre0 (S (length sample)) sample [] 0 [] (frame [] ++ frames (n2 :: post0))
                Hfr Hlen H5 Hfuel Hd (N.le_refl _)) as (f' & cs' & ssps' & H1 & H2 & H3).
    change (lenN (@nil N)) with 0 in H3. rewrite H3. cbn [app] in *.
    destruct f' as [|f']; [lia|]. cbn [pr_loop_g].
    assert (HL : lenN sample = lenN (frames pre0) + lenN (frame [] ++ frames (n2 :: post0))) by (rewrite Hfr, lenN_app; reflexivity).
    rewrite u32_small by lia.
    assert (E : (lenN (frames pre0) <? lenN sample - 4) = true) by (apply N.ltb_lt; lia).
    rewrite E. rewrite Hfr, Hbt.
    rewrite (pr_step_empty_cbcs_err (frames pre0) _ t cs' (lenN (frames pre0)) ssps' Hsch Hv Hh)
      by (rewrite <- Hbt, <- Hfr; exact Hlen).
    reflexivity.
  Qed.

  Lemma frames_length nalus : (length nalus <= length (frames nalus))%nat.
  Proof.
    induction nalus as [|n t IH]; [apply Nat.le_refl|].
    cbn [frames flat_map length]. fold (frames t). unfold frame.
    rewrite !app_length. cbn [be_bytes4 length]. lia.
  Qed.

  Lemma protect_ranges_wf nalus :
    nalus <> [] ->
    lenN (frames nalus) < 4294967296 ->
    ok_layout nalus ->
    exists r, protect_ranges_r isvideo hdr sch (frames nalus) = Ok r /\
              expand r = spec_mask isvideo P nalus /\ Forall (entry_ok Q) r.
  Proof.
    intros Hne Hlen Hd. unfold protect_ranges_r, protect_ranges_g.
    assert (H4 : (lenN (frames nalus) <? 4) = false).
    { apply N.ltb_ge. destruct nalus as [|n t]; [congruence|].
      cbn [frames flat_map]. unfold frame. rewrite !lenN_app, be_bytes4_len. lia. }
    rewrite H4.
    assert (Hfuel : (length nalus < S (length (frames nalus)))%nat).
    { pose proof (frames_length nalus). lia. }
    assert (H0 : 0 <= lenN (@nil N)) by (cbn; lia).
    destruct (pr_loop_wf nalus (S (length (frames nalus))) (frames nalus) [] 0 [] []
                eq_refl Hlen Hfuel Hd H0 eq_refl (Forall_nil _)) as (r & Hr & He & Hc).
    exists r. split; [exact Hr|]. split; [exact He|exact Hc].
  Qed.

  Lemma ok_layout_of_forall nalus :
    Forall (fun n => decides n (P n) /\ Q (P n)) nalus -> ok_layout nalus.
  Proof.
    induction 1 as [|n t Hn _ IH]; [exact I|]. cbn [ok_layout]. split; [|exact IH].
    destruct n; [destruct Hn as [[] _]|exact Hn].
  Qed.
End RangeProofs.

(* ---------------------------------------------------------------- packaging *)
Definition wf_nalus (nalus : list (list N)) : bool :=
  match nalus with [] => false | _ => forallb nonempty nalus end.

Definition first_is_video (isvideo : N -> bool) (n : list N) : bool :=
  match n with b0 :: _ => isvideo b0 | [] => false end.

Lemma nalu_mask_ext isvideo P Q n :
  (first_is_video isvideo n = true -> P n = Q n) -> nalu_mask isvideo P n = nalu_mask isvideo Q n.
Proof.
  intros H. unfold nalu_mask. destruct n as [|b0 t]; [reflexivity|].
  cbn [first_is_video] in H. destruct (isvideo b0); [rewrite H by reflexivity|]; reflexivity.
Qed.

Lemma spec_mask_ext isvideo P Q nalus :
  (forall n, In n nalus -> first_is_video isvideo n = true -> P n = Q n) ->
  spec_mask isvideo P nalus = spec_mask isvideo Q nalus.
Proof.
  induction nalus as [|n t IH]; intros H; [reflexivity|].
  cbn [spec_mask flat_map]. fold (spec_mask isvideo P t) (spec_mask isvideo Q t).
  rewrite (nalu_mask_ext isvideo P Q n), IH; [reflexivity| |].
  - intros m Hm. apply H. right. exact Hm.
  - apply H. left. reflexivity.
Qed.

Lemma nalu_mask_lenN isvideo P n :
  (first_is_video isvideo n = true -> P n <= lenN n) ->
  lenN (nalu_mask isvideo P n) = lenN (frame n).
Proof.
  intros H. unfold nalu_mask, frame. rewrite !lenN_app, rep_lenN, be_bytes4_len.
  destruct n as [|b0 t]; [reflexivity|]. cbn [first_is_video] in H.
  destruct (isvideo b0); [rewrite lenN_app, !rep_lenN; specialize (H eq_refl); lia|rewrite rep_lenN; reflexivity].
Qed.

Lemma spec_mask_lenN isvideo P nalus :
  (forall n, In n nalus -> first_is_video isvideo n = true -> P n <= lenN n) ->
  lenN (spec_mask isvideo P nalus) = lenN (frames nalus).
Proof.
  induction nalus as [|n t IH]; intros H; [reflexivity|].
  cbn [spec_mask frames flat_map]. fold (spec_mask isvideo P t) (frames t).
  rewrite !lenN_app, nalu_mask_lenN, IH; [reflexivity| |].
  - intros m Hm. apply H. right. exact Hm.
  - apply H. left. reflexivity.
Qed.

Lemma expand_lenN r : lenN (expand r) = sumN (map (fun p => ss_clear p + ss_prot p) r).
Proof.
  induction r as [|p t IH]; [reflexivity|].
  change (expand (p :: t)) with ((rep false (ss_clear p) ++ rep true (ss_prot p)) ++ expand t).
  rewrite !lenN_app, !rep_lenN, IH. reflexivity.
Qed.

Lemma wf_nalus_forall nalus : wf_nalus nalus = true -> nalus <> [] /\ forall n, In n nalus -> nonempty n = true.
Proof.
  unfold wf_nalus. destruct nalus as [|n t]; [discriminate|]. intros H. split; [discriminate|].
  apply forallb_forall. exact H.
Qed.

(* the decision of the cenc branch *)
Definition p_cenc (isvideo : N -> bool) (n : list N) : N :=
  if first_is_video isvideo n then prot_cenc (lenN n) else 0.

Lemma decides_cenc isvideo hdr n :
  nonempty n = true -> decides isvideo hdr Cenc n (p_cenc isvideo n).
Proof.
  destruct n as [|b0 t]; [discriminate|]. intros _. unfold decides, p_cenc. cbn [first_is_video].
  destruct (isvideo b0); reflexivity.
Qed.

Lemma ok_layout_cenc isvideo hdr nalus :
  ok_layout isvideo hdr Cenc (p_cenc isvideo) (fun x => x mod 16 = 0) nalus.
Proof.
  induction nalus as [|n t IH]; [exact I|]. cbn [ok_layout]. split; [|exact IH].
  destruct n as [|b0 t0]; [right; reflexivity|].
  split; [apply decides_cenc; reflexivity|].
  unfold p_cenc. destruct (first_is_video isvideo (b0 :: t0)); [|reflexivity].
  unfold prot_cenc. destruct (112 <=? lenN (b0 :: t0) + 4); [apply N.mod_mul; discriminate|reflexivity].
Qed.

(* EVERY list of NAL units, empty ones (length field 0) included *)
Lemma cenc_ranges_mask isvideo hdr nalus :
  nalus <> [] ->
  lenN (frames nalus) < 4294967296 ->
  exists r, protect_ranges_r isvideo hdr Cenc (frames nalus) = Ok r /\
            expand r = spec_mask isvideo (fun n => prot_cenc (lenN n)) nalus /\
            sumN (map (fun p => ss_clear p + ss_prot p) r) = lenN (frames nalus) /\
            Forall (fun p => ss_clear p < 65536 /\ ss_prot p mod 16 = 0) r.
Proof.
  intros Hne Hlen.
  destruct (protect_ranges_wf isvideo hdr Cenc (p_cenc isvideo) (fun x => x mod 16 = 0) eq_refl nalus Hne Hlen
              (ok_layout_cenc isvideo hdr nalus)) as (r & Hr & He & Hc).
  exists r. split; [exact Hr|].
  assert (He' : expand r = spec_mask isvideo (fun n => prot_cenc (lenN n)) nalus).
  { rewrite He. apply spec_mask_ext. intros n _ Hv. unfold p_cenc. rewrite Hv. reflexivity. }
  split; [exact He'|]. split; [|exact Hc].
  rewrite <- expand_lenN, He'. apply spec_mask_lenN. intros n _ _. apply prot_cenc_le.
Qed.

(* the arithmetic content of the cenc shape *)
Lemma prot_cenc_shape L :
  (0 < prot_cenc L <-> 112 <= L + 4) /\
  prot_cenc L mod 16 = 0 /\
  prot_cenc L <= L /\
  (112 <= L + 4 -> 96 <= L + 4 - prot_cenc L /\ L + 4 - prot_cenc L <= 111) /\
  (127 < L -> 0 < prot_cenc L /\ L - prot_cenc L <= 127).
Proof.
  unfold prot_cenc. destruct (112 <=? L + 4) eqn:E; [apply N.leb_le in E|apply N.leb_gt in E].
  - split; [split; intros; lia|]. split; [apply N.mod_mul; discriminate|]. split; [lia|].
    split; intros; lia.
  - split; [split; intros; lia|]. split; [reflexivity|]. split; [lia|]. split; intros; lia.
Qed.

(* cbcs: hs is the slice-header size function *)
Definition p_cbcs (isvideo : N -> bool) (hs : list N -> N) (n : list N) : N :=
  if first_is_video isvideo n then lenN n - hs n else 0.

(* cbcs layouts: non-empty NAL units, except that the LAST one may be empty (an empty NAL unit in front of further
   bytes makes the code look at the first byte of what follows and hand an empty NAL unit to the slice header
   parser: see cbcs_mid_empty_refused in C07CodecProofs.v) *)
Fixpoint empty_only_last (nalus : list (list N)) : bool :=
  match nalus with
  | [] => true
  | n :: rest => (nonempty n || match rest with [] => true | _ => false end) && empty_only_last rest
  end.

Definition wf_nalus_cbcs (nalus : list (list N)) : bool :=
  match nalus with [] => false | _ => empty_only_last nalus end.

Lemma wf_nalus_cbcs_of_wf nalus : wf_nalus nalus = true -> wf_nalus_cbcs nalus = true.
Proof.
  unfold wf_nalus, wf_nalus_cbcs. destruct nalus as [|n t]; [discriminate|].
  generalize (n :: t). intros l. induction l as [|a l IH]; [reflexivity|].
  cbn [forallb empty_only_last]. intros H. apply andb_prop in H. destruct H as [H1 H2].
  rewrite H1, (IH H2). reflexivity.
Qed.

Lemma cbcs_ranges_mask isvideo hdr hs nalus :
  wf_nalus_cbcs nalus = true ->
  lenN (frames nalus) < 4294967296 ->
  (forall n, In n nalus -> first_is_video isvideo n = true -> hdr n = Ok (hs n) /\ hs n <= lenN n) ->
  exists r, protect_ranges_r isvideo hdr Cbcs (frames nalus) = Ok r /\
            expand r = spec_mask isvideo (fun n => lenN n - hs n) nalus /\
            sumN (map (fun p => ss_clear p + ss_prot p) r) = lenN (frames nalus) /\
            Forall (fun p => ss_clear p < 65536) r.
Proof.
  intros Hwf Hlen Hh.
  assert (Hne : nalus <> []) by (destruct nalus; [discriminate|discriminate]).
  assert (Hwf' : empty_only_last nalus = true) by (destruct nalus; [discriminate|exact Hwf]).
  destruct (protect_ranges_wf isvideo hdr Cbcs (p_cbcs isvideo hs) (fun _ => True) I nalus Hne Hlen) as (r & Hr & He & Hc).
  { clear Hne Hwf Hlen. induction nalus as [|n t IH]; [exact I|].
    cbn [empty_only_last] in Hwf'. apply andb_prop in Hwf'. destruct Hwf' as [H1 H2].
    cbn [ok_layout]. split.
    - destruct n as [|b0 t0].
      + left. cbn [nonempty orb] in H1. destruct t; [reflexivity|discriminate].
      + split; [|exact I]. specialize (Hh (b0 :: t0) (or_introl eq_refl)).
        unfold decides, p_cbcs. cbn [first_is_video] in *.
        destruct (isvideo b0); [|reflexivity].
        destruct (Hh eq_refl) as [H3 H4]. exists (hs (b0 :: t0)). split; [exact H3|]. split; [exact H4|reflexivity].
    - apply IH; [|exact H2]. intros m Hm. apply Hh. right. exact Hm. }
  exists r. split; [exact Hr|].
  assert (He' : expand r = spec_mask isvideo (fun n => lenN n - hs n) nalus).
  { rewrite He. apply spec_mask_ext. intros n _ Hv. unfold p_cbcs. rewrite Hv. reflexivity. }
  split; [exact He'|]. split; [|eapply Forall_impl; [|exact Hc]; intros a [Ha _]; exact Ha].
  rewrite <- expand_lenN, He'. apply spec_mask_lenN. intros n _ _. lia.
Qed.

(* ---------------------------------------------------------------- at least one sub-sample entry, for EVERY sample *)
Lemma apr_loop_nonempty fuel : forall ssps c p r, apr_loop fuel ssps c p = Ok r -> r <> [].
Proof.
  induction fuel as [|f IH]; intros ssps c p r H; [discriminate|].
  cbn [apr_loop] in H. destruct (65536 <=? c).
  - eapply IH. exact H.
  - inversion H. intros E. symmetry in E. apply app_cons_not_nil in E. exact E.
Qed.

Lemma pr_step_nonempty isvideo hdr sch sample pos cs ce ssps pos' cs' ce' ssps' :
  pr_step isvideo hdr sch sample pos cs ce ssps = Ok (pos', cs', ce', ssps') ->
  ssps' <> [] \/ (cs' = cs /\ ssps' = ssps).
Proof.
  unfold pr_step. intros H.
  destruct (slice sample pos (u32 (pos + 4))) as [lb| | |]; cbn [rbind] in H; try discriminate.
  destruct (lenN sample <? u32 (u32 (pos + 4) + be lb)); [discriminate|].
  destruct (idx sample (u32 (pos + 4))) as [b0| | |]; cbn [rbind] in H; try discriminate.
  match type of H with (do cb <- ?X; _) = _ => destruct X as [[ce1 btp]| | |] end; cbn [rbind] in H; try discriminate.
  destruct (0 <? btp).
  - destruct (append_protect_range ssps (sub32 ce1 cs) btp) as [r1| | |] eqn:Ea; cbn [rbind] in H; try discriminate.
    inversion H; subst. left. unfold append_protect_range in Ea. eapply apr_loop_nonempty. exact Ea.
  - cbn [rbind] in H. inversion H; subst. right. split; reflexivity.
Qed.

Lemma pr_loop_nonempty isvideo hdr sch fuel : forall sample pos cs ce ssps r,
  lenN sample < 4294967296 -> 4 <= lenN sample ->
  ssps <> [] \/ cs = 0 ->
  pr_loop_g isvideo hdr sch true fuel sample pos cs ce ssps = Ok r -> r <> [].
Proof.
  induction fuel as [|f IH]; intros sample pos cs ce ssps r Hlen H4 Hinv H; [discriminate|].
  cbn [pr_loop_g] in H. destruct (pos <? u32 (lenN sample - 4)).
  - destruct (pr_step isvideo hdr sch sample pos cs ce ssps) as [[[[pos' cs'] ce'] ssps']| | |] eqn:Es;
      cbn [rbind] in H; try discriminate.
    apply pr_step_nonempty in Es. eapply IH; [exact Hlen|exact H4| |exact H].
    destruct Es as [Es | [-> ->]]; [left; exact Es|exact Hinv].
  - rewrite u32_small in H by exact Hlen.
    destruct (cs <? lenN sample) eqn:E.
    + unfold append_protect_range in H. eapply apr_loop_nonempty. exact H.
    + apply N.ltb_ge in E. destruct Hinv as [Hs | ->]; [inversion H; subst; exact Hs|lia].
Qed.

(* the repaired text never returns an empty list: every accepted video sample has a sub-sample entry, so the
   samples of a video fragment are uniform for SaizBox.AddSampleInfo / SencBox.AddSample *)
Lemma protect_ranges_r_nonempty isvideo hdr sch sample r :
  lenN sample < 4294967296 ->
  protect_ranges_r isvideo hdr sch sample = Ok r -> r <> [].
Proof.
  unfold protect_ranges_r, protect_ranges_g. intros Hlen H.
  destruct (lenN sample <? 4) eqn:E; [discriminate|]. apply N.ltb_ge in E.
  eapply pr_loop_nonempty; [exact Hlen|exact E| |exact H]. right. reflexivity.
Qed.

(* the text before the repair did: a 4-byte sample got no entry (and was then encrypted whole by CryptSampleCenc,
   and saiz announced the default size 16 for senc entries of 18 and 24 bytes) *)
Lemma protect_ranges_pinned_empty isvideo hdr sch :
  protect_ranges isvideo hdr sch [0; 0; 0; 0] = Ok [] /\
  protect_ranges_r isvideo hdr sch [0; 0; 0; 0] = Ok [mkSsp 4 0].
Proof. split; reflexivity. Qed.
