(* C07Aes.v — AES-128 block encryption written in Gallina from FIPS-197 (S-box table of Figure 7,
   SubBytes / ShiftRows / MixColumns / AddRoundKey, KeyExpansion), validated below against the
   FIPS-197 appendix vectors.  Its only role is to be the INDEPENDENT implementation that the bytes
   produced by Go's crypto/aes are compared with (through the extracted model); nothing is proved
   about it and no theorem depends on it. *)
From V.lib Require Import Base.

Definition sbox_tbl : list (list N) :=
  [
   [99; 124; 119; 123; 242; 107; 111; 197; 48; 1; 103; 43; 254; 215; 171; 118];
   [202; 130; 201; 125; 250; 89; 71; 240; 173; 212; 162; 175; 156; 164; 114; 192];
   [183; 253; 147; 38; 54; 63; 247; 204; 52; 165; 229; 241; 113; 216; 49; 21];
   [4; 199; 35; 195; 24; 150; 5; 154; 7; 18; 128; 226; 235; 39; 178; 117];
   [9; 131; 44; 26; 27; 110; 90; 160; 82; 59; 214; 179; 41; 227; 47; 132];
   [83; 209; 0; 237; 32; 252; 177; 91; 106; 203; 190; 57; 74; 76; 88; 207];
   [208; 239; 170; 251; 67; 77; 51; 133; 69; 249; 2; 127; 80; 60; 159; 168];
   [81; 163; 64; 143; 146; 157; 56; 245; 188; 182; 218; 33; 16; 255; 243; 210];
   [205; 12; 19; 236; 95; 151; 68; 23; 196; 167; 126; 61; 100; 93; 25; 115];
   [96; 129; 79; 220; 34; 42; 144; 136; 70; 238; 184; 20; 222; 94; 11; 219];
   [224; 50; 58; 10; 73; 6; 36; 92; 194; 211; 172; 98; 145; 149; 228; 121];
   [231; 200; 55; 109; 141; 213; 78; 169; 108; 86; 244; 234; 101; 122; 174; 8];
   [186; 120; 37; 46; 28; 166; 180; 198; 232; 221; 116; 31; 75; 189; 139; 138];
   [112; 62; 181; 102; 72; 3; 246; 14; 97; 53; 87; 185; 134; 193; 29; 158];
   [225; 248; 152; 17; 105; 217; 142; 148; 155; 30; 135; 233; 206; 85; 40; 223];
   [140; 161; 137; 13; 191; 230; 66; 104; 65; 153; 45; 15; 176; 84; 187; 22]
  ].

Definition nthN (l : list N) (i : N) : N := nth (N.to_nat i) l 0.

Definition sub_byte (b : N) : N := nthN (nth (N.to_nat (N.shiftr b 4)) sbox_tbl []) (N.land b 15).

(* multiplication by x in GF(2^8) modulo x^8 + x^4 + x^3 + x + 1 (FIPS-197 4.2.1) *)
Definition xtime (b : N) : N :=
  let s := b * 2 in if s <? 256 then s else N.lxor (s - 256) 27.

Definition x3 (b : N) : N := N.lxor (xtime b) b.

Definition xor_bytes (a b : list N) : list N :=
  map (fun p => N.lxor (fst p) (snd p)) (combine a b).

(* the state is the 16-byte list in input order: byte r + 4c is s[r,c] *)
Definition sub_bytes (st : list N) : list N := map sub_byte st.

(* s'[r,c] = s[r,(c + r) mod 4] *)
Definition shift_rows (st : list N) : list N :=
  map (nthN st) [0; 5; 10; 15; 4; 9; 14; 3; 8; 13; 2; 7; 12; 1; 6; 11].

Definition mix_col (c : list N) : list N :=
  match c with
  | [a0; a1; a2; a3] =>
      [ N.lxor (N.lxor (xtime a0) (x3 a1)) (N.lxor a2 a3);
        N.lxor (N.lxor a0 (xtime a1)) (N.lxor (x3 a2) a3);
        N.lxor (N.lxor a0 a1) (N.lxor (xtime a2) (x3 a3));
        N.lxor (N.lxor (x3 a0) a1) (N.lxor a2 (xtime a3)) ]
  | _ => c
  end.

Definition mix_columns (st : list N) : list N :=
  mix_col (firstn 4 st) ++ mix_col (firstn 4 (skipn 4 st)) ++
  mix_col (firstn 4 (skipn 8 st)) ++ mix_col (firstn 4 (skipn 12 st)).

(* KeyExpansion, one round key (4 words) at a time: w[i] = w[i-4] xor temp *)
Definition next_round_key (rk : list N) (rcon : N) : list N :=
  let w0 := firstn 4 rk in
  let w1 := firstn 4 (skipn 4 rk) in
  let w2 := firstn 4 (skipn 8 rk) in
  let w3 := firstn 4 (skipn 12 rk) in
  let rot := skipn 1 w3 ++ firstn 1 w3 in                       (* RotWord *)
  let t := xor_bytes (map sub_byte rot) [rcon; 0; 0; 0] in      (* SubWord, Rcon *)
  let n0 := xor_bytes w0 t in
  let n1 := xor_bytes w1 n0 in
  let n2 := xor_bytes w2 n1 in
  let n3 := xor_bytes w3 n2 in
  n0 ++ n1 ++ n2 ++ n3.

Definition rcons : list N := [1; 2; 4; 8; 16; 32; 64; 128; 27; 54].

Fixpoint expand (rk : list N) (rc : list N) : list (list N) :=
  match rc with
  | [] => []
  | r :: t => let nk := next_round_key rk r in nk :: expand nk t
  end.

(* round keys 1..10 *)
Definition key_expansion (key : list N) : list (list N) := expand key rcons.

Fixpoint rounds (st : list N) (rks : list (list N)) : list N :=
  match rks with
  | [] => st
  | [rk] => xor_bytes (shift_rows (sub_bytes st)) rk                           (* final round *)
  | rk :: t => rounds (xor_bytes (mix_columns (shift_rows (sub_bytes st))) rk) t
  end.

(* Cipher(in, w) of FIPS-197 Figure 5 for Nk = 4, Nr = 10 *)
Definition aes128_encrypt (key block : list N) : list N :=
  rounds (xor_bytes block key) (key_expansion key).

(* ---- FIPS-197 vectors ---- *)
(* Appendix A.1: last round key of the expansion of 2b7e1516 28aed2a6 abf71588 09cf4f3c *)
Example fips197_A1_w40_43 :
  last (key_expansion [43; 126; 21; 22; 40; 174; 210; 166; 171; 247; 21; 136; 9; 207; 79; 60]) [] = [208; 20; 249; 168; 201; 238; 37; 137; 225; 63; 12; 200; 182; 99; 12; 166].
Proof. vm_compute. reflexivity. Qed.

(* Appendix B *)
Example fips197_B :
  aes128_encrypt [43; 126; 21; 22; 40; 174; 210; 166; 171; 247; 21; 136; 9; 207; 79; 60] [50; 67; 246; 168; 136; 90; 48; 141; 49; 49; 152; 162; 224; 55; 7; 52] = [57; 37; 132; 29; 2; 220; 9; 251; 220; 17; 133; 151; 25; 106; 11; 50].
Proof. vm_compute. reflexivity. Qed.

(* Appendix C.1 *)
Example fips197_C1 :
  aes128_encrypt [0; 1; 2; 3; 4; 5; 6; 7; 8; 9; 10; 11; 12; 13; 14; 15] [0; 17; 34; 51; 68; 85; 102; 119; 136; 153; 170; 187; 204; 221; 238; 255] = [105; 196; 224; 216; 106; 123; 4; 48; 216; 205; 183; 128; 112; 180; 197; 90].
Proof. vm_compute. reflexivity. Qed.

(* SP 800-38A F.5.1 CTR-AES128 block 1 keystream input: E(K, f0f1..feff) xor plaintext 6bc1..172a = 874d..b6ce *)
Example sp800_38a_ctr1 :
  xor_bytes (aes128_encrypt [43; 126; 21; 22; 40; 174; 210; 166; 171; 247; 21; 136; 9; 207; 79; 60] [240; 241; 242; 243; 244; 245; 246; 247; 248; 249; 250; 251; 252; 253; 254; 255]) [107; 193; 190; 226; 46; 64; 159; 150; 233; 61; 126; 17; 115; 147; 23; 42] = [135; 77; 97; 145; 182; 32; 227; 38; 27; 239; 104; 100; 153; 13; 182; 206].
Proof. vm_compute. reflexivity. Qed.

(* ---------------------------------------------------------------- inverse cipher (FIPS-197 5.3) *)
Definition inv_sbox_tbl : list (list N) :=
  [
   [82; 9; 106; 213; 48; 54; 165; 56; 191; 64; 163; 158; 129; 243; 215; 251];
   [124; 227; 57; 130; 155; 47; 255; 135; 52; 142; 67; 68; 196; 222; 233; 203];
   [84; 123; 148; 50; 166; 194; 35; 61; 238; 76; 149; 11; 66; 250; 195; 78];
   [8; 46; 161; 102; 40; 217; 36; 178; 118; 91; 162; 73; 109; 139; 209; 37];
   [114; 248; 246; 100; 134; 104; 152; 22; 212; 164; 92; 204; 93; 101; 182; 146];
   [108; 112; 72; 80; 253; 237; 185; 218; 94; 21; 70; 87; 167; 141; 157; 132];
   [144; 216; 171; 0; 140; 188; 211; 10; 247; 228; 88; 5; 184; 179; 69; 6];
   [208; 44; 30; 143; 202; 63; 15; 2; 193; 175; 189; 3; 1; 19; 138; 107];
   [58; 145; 17; 65; 79; 103; 220; 234; 151; 242; 207; 206; 240; 180; 230; 115];
   [150; 172; 116; 34; 231; 173; 53; 133; 226; 249; 55; 232; 28; 117; 223; 110];
   [71; 241; 26; 113; 29; 41; 197; 137; 111; 183; 98; 14; 170; 24; 190; 27];
   [252; 86; 62; 75; 198; 210; 121; 32; 154; 219; 192; 254; 120; 205; 90; 244];
   [31; 221; 168; 51; 136; 7; 199; 49; 177; 18; 16; 89; 39; 128; 236; 95];
   [96; 81; 127; 169; 25; 181; 74; 13; 45; 229; 122; 159; 147; 201; 156; 239];
   [160; 224; 59; 77; 174; 42; 245; 176; 200; 235; 187; 60; 131; 83; 153; 97];
   [23; 43; 4; 126; 186; 119; 214; 38; 225; 105; 20; 99; 85; 33; 12; 125]
  ].

Definition inv_sub_byte (b : N) : N := nthN (nth (N.to_nat (N.shiftr b 4)) inv_sbox_tbl []) (N.land b 15).

(* s'[r,(c + r) mod 4] = s[r,c] *)
Definition inv_shift_rows (st : list N) : list N :=
  map (nthN st) [0; 13; 10; 7; 4; 1; 14; 11; 8; 5; 2; 15; 12; 9; 6; 3].

Definition x9 (b : N) : N := N.lxor (xtime (xtime (xtime b))) b.
Definition x11 (b : N) : N := N.lxor (N.lxor (xtime (xtime (xtime b))) (xtime b)) b.
Definition x13 (b : N) : N := N.lxor (N.lxor (xtime (xtime (xtime b))) (xtime (xtime b))) b.
Definition x14 (b : N) : N := N.lxor (N.lxor (xtime (xtime (xtime b))) (xtime (xtime b))) (xtime b).

Definition inv_mix_col (c : list N) : list N :=
  match c with
  | [a0; a1; a2; a3] =>
      [ N.lxor (N.lxor (x14 a0) (x11 a1)) (N.lxor (x13 a2) (x9 a3));
        N.lxor (N.lxor (x9 a0) (x14 a1)) (N.lxor (x11 a2) (x13 a3));
        N.lxor (N.lxor (x13 a0) (x9 a1)) (N.lxor (x14 a2) (x11 a3));
        N.lxor (N.lxor (x11 a0) (x13 a1)) (N.lxor (x9 a2) (x14 a3)) ]
  | _ => c
  end.

Definition inv_mix_columns (st : list N) : list N :=
  inv_mix_col (firstn 4 st) ++ inv_mix_col (firstn 4 (skipn 4 st)) ++
  inv_mix_col (firstn 4 (skipn 8 st)) ++ inv_mix_col (firstn 4 (skipn 12 st)).

(* rks: round keys 9, 8, ..., 1 then the cipher key *)
Fixpoint inv_rounds (st : list N) (rks : list (list N)) : list N :=
  match rks with
  | [] => st
  | [rk] => xor_bytes (map inv_sub_byte (inv_shift_rows st)) rk
  | rk :: t => inv_rounds (inv_mix_columns (xor_bytes (map inv_sub_byte (inv_shift_rows st)) rk)) t
  end.

(* InvCipher of FIPS-197 Figure 12 *)
Definition aes128_decrypt (key block : list N) : list N :=
  match rev (key :: key_expansion key) with
  | rk10 :: rest => inv_rounds (xor_bytes block rk10) rest
  | [] => block
  end.

Example fips197_C1_inv :
  aes128_decrypt [0; 1; 2; 3; 4; 5; 6; 7; 8; 9; 10; 11; 12; 13; 14; 15] [105; 196; 224; 216; 106; 123; 4; 48; 216; 205; 183; 128; 112; 180; 197; 90] = [0; 17; 34; 51; 68; 85; 102; 119; 136; 153; 170; 187; 204; 221; 238; 255].
Proof. vm_compute. reflexivity. Qed.

Example fips197_B_inv :
  aes128_decrypt [43; 126; 21; 22; 40; 174; 210; 166; 171; 247; 21; 136; 9; 207; 79; 60] [57; 37; 132; 29; 2; 220; 9; 251; 220; 17; 133; 151; 25; 106; 11; 50] = [50; 67; 246; 168; 136; 90; 48; 141; 49; 49; 152; 162; 224; 55; 7; 52].
Proof. vm_compute. reflexivity. Qed.
