(* C07WrapFinalProofs.v — the statements about the CURRENT text of Get(AVC|HEVC)ProtectRanges (C07WrapModel, /repo
   2ef93b3) that C07Theorems.v exports. *)
From V.lib Require Import Base.
From V.c15 Require Import C15Model C15HevcModel.
From V.c07 Require Import C07Model C07Spec C07RangeProofs C07OnlyProofs C07FinalProofs C07CodecModel C07SizeProofs.
From V.c07 Require Import C07WrapModel C07WrapProofs.

Lemma ranges_current_text : forall (isvideo : N -> bool) (hdr : list N -> res N) (sch : scheme),
  (forall sample, protect_ranges_w isvideo hdr sch sample = protect_ranges_r isvideo hdr sch sample \/
                  protect_ranges_w isvideo hdr sch sample = Err) /\
  (forall nalus, lenN (frames nalus) < 4294967296 ->
                 protect_ranges_w isvideo hdr sch (frames nalus) = protect_ranges_r isvideo hdr sch (frames nalus)).
Proof.
  intros isvideo hdr sch. split; [apply protect_ranges_w_rel|apply protect_ranges_w_frames].
Qed.

Lemma avc_hdr_bound spsmap ppsmap n h : avc_hdr spsmap ppsmap n = Ok h -> h <= lenN n.
Proof.
  unfold avc_hdr. destruct (parse_slice_er spsmap ppsmap n) as [sh| | |] eqn:E; try discriminate.
  intros H. inversion H. subst h. eapply avc_slice_size_le. exact E.
Qed.

Lemma hevc_hdr_bound spsmap ppsmap n h : hevc_hdr spsmap ppsmap n = Ok h -> h <= lenN n.
Proof.
  unfold hevc_hdr. destruct (hparse_slice_er spsmap ppsmap n) as [sh| | |] eqn:E; try discriminate.
  intros H. inversion H. subst h. eapply hevc_slice_size_le. exact E.
Qed.

Lemma ranges_cover_any_bytes :
  (forall (isvideo : N -> bool) (hdr : list N -> res N) (sch : scheme) (sample : list N) (r : list ssp),
     (forall n h, hdr n = Ok h -> h <= lenN n) ->
     lenN sample < 4294967296 ->
     protect_ranges_w isvideo hdr sch sample = Ok r ->
     sumN (map (fun p => ss_clear p + ss_prot p) r) = lenN sample /\
     Forall (fun p => ss_clear p < 65536) r /\ r <> []) /\
  (forall spsmap ppsmap sch sample r,
     lenN sample < 4294967296 ->
     avc_protect_ranges_w spsmap ppsmap sch sample = Ok r ->
     sumN (map (fun p => ss_clear p + ss_prot p) r) = lenN sample /\
     Forall (fun p => ss_clear p < 65536) r /\ r <> []) /\
  (forall spsmap ppsmap sch sample r,
     lenN sample < 4294967296 ->
     hevc_protect_ranges_w spsmap ppsmap sch sample = Ok r ->
     sumN (map (fun p => ss_clear p + ss_prot p) r) = lenN sample /\
     Forall (fun p => ss_clear p < 65536) r /\ r <> []).
Proof.
  split; [|split].
  - intros isvideo hdr sch sample r Hh Hlen H.
    exact (protect_ranges_w_cover isvideo hdr sch Hh sample r Hlen H).
  - intros spsmap ppsmap sch sample r Hlen H.
    exact (protect_ranges_w_cover avc_is_video (avc_hdr spsmap ppsmap) sch (avc_hdr_bound spsmap ppsmap) sample r Hlen H).
  - intros spsmap ppsmap sch sample r Hlen H.
    exact (protect_ranges_w_cover hevc_is_video (hevc_hdr spsmap ppsmap) sch (hevc_hdr_bound spsmap ppsmap) sample r Hlen H).
Qed.

Lemma ranges_terminate : forall (isvideo : N -> bool) (hdr : list N -> res N) (sch : scheme) (sample : list N),
  (forall n h, hdr n = Ok h -> h <= lenN n) -> (forall n, hdr n <> OutOfFuel) ->
  lenN sample < 4294967296 ->
  protect_ranges_w isvideo hdr sch sample <> OutOfFuel.
Proof. intros isvideo hdr sch sample Hh Hf Hlen. exact (protect_ranges_w_terminates isvideo hdr sch Hh Hf sample Hlen). Qed.

(* partition and shape of the property for the current text, on every non-empty list of NAL units *)
Lemma partition_shape_current :
  (forall (isvideo : N -> bool) (hdr : list N -> res N) (nalus : list (list N)),
     nalus <> [] -> lenN (frames nalus) < 4294967296 ->
     exists r, protect_ranges_w isvideo hdr Cenc (frames nalus) = Ok r /\
               expand r = spec_mask isvideo (fun n => prot_cenc (lenN n)) nalus /\
               sumN (map (fun p => ss_clear p + ss_prot p) r) = lenN (frames nalus) /\
               Forall (fun p => ss_clear p < 65536 /\ ss_prot p mod 16 = 0) r) /\
  (forall (isvideo : N -> bool) (hdr : list N -> res N) (hs : list N -> N) (nalus : list (list N)),
     wf_nalus_cbcs nalus = true -> lenN (frames nalus) < 4294967296 ->
     (forall n, In n nalus -> first_is_video isvideo n = true -> hdr n = Ok (hs n) /\ hs n <= lenN n) ->
     exists r, protect_ranges_w isvideo hdr Cbcs (frames nalus) = Ok r /\
               expand r = spec_mask isvideo (fun n => lenN n - hs n) nalus /\
               sumN (map (fun p => ss_clear p + ss_prot p) r) = lenN (frames nalus) /\
               Forall (fun p => ss_clear p < 65536) r).
Proof.
  split.
  - intros isvideo hdr nalus Hne Hlen. rewrite protect_ranges_w_frames by exact Hlen.
    destruct (partition_final isvideo hdr nalus Hne Hlen) as (r & Hr & Hs & Hc).
    destruct (cenc_shape_final isvideo hdr nalus Hne Hlen) as [(r' & Hr' & He) _].
    rewrite Hr in Hr'. inversion Hr'. subst r'.
    exists r. repeat split; assumption.
  - intros isvideo hdr hs nalus Hwf Hlen Hh. rewrite protect_ranges_w_frames by exact Hlen.
    exact (cbcs_shape_final isvideo hdr hs nalus Hwf Hlen Hh).
Qed.
