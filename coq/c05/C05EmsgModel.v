(* C05EmsgModel.v — Fragment.Children as an ordered list and the two operations that add boxes around moof and mdat
   (mp4/fragment.go: AddChild, AddEmsg), interleaved with the sample additions of C05FragModel.  Definitions only.

   AddEmsg is the text after fix 8f3ca14 (finding C05-F9); add_emsg_pinned is the text before it, with the capacity of
   the Children slice as a parameter (the pinned text slices f.Children[:newIdx+1] beyond its length). *)
From V.lib Require Import Base.
From V.c05 Require Import C05Model C05FragModel C05SegModel.

(* a top-level child of a Fragment: moof, mdat, or any other box (emsg / prft / free / uuid / unknown: kind and size) *)
Inductive child := KMoof | KMdat | KX (x : xbox).

Definition is_emsg_child (c : child) : bool :=
  match c with KX x => match x_kind x with XEmsg => true | _ => false end | _ => false end.
Definition is_moof_child (c : child) : bool := match c with KMoof => true | _ => false end.
Definition is_mdat_child (c : child) : bool := match c with KMdat => true | _ => false end.

Definition insert_at {A} (k : nat) (a : A) (l : list A) : list A := firstn k l ++ a :: skipn k l.

(* the repaired loop:  newIdx := 0; for i, c := range f.Children { if c is moof { break }; if c is emsg { newIdx = i+1 } } *)
Fixpoint emsg_slot (cs : list child) (i idx : nat) : nat :=
  match cs with
  | [] => idx
  | c :: rest => if is_moof_child c then idx
                 else emsg_slot rest (S i) (if is_emsg_child c then S i else idx)
  end.

(* f.Children = append(f.Children, nil); copy(f.Children[newIdx+1:], f.Children[newIdx:]); f.Children[newIdx] = emsg *)
Definition add_emsg (cs : list child) (e : xbox) : list child := insert_at (emsg_slot cs 0 0) (KX e) cs.

(* the pinned loop looks at ALL children (prevEmsg = index of the last emsg anywhere) ... *)
Fixpoint last_emsg_slot (cs : list child) (i idx : nat) : nat :=
  match cs with
  | [] => idx
  | c :: rest => last_emsg_slot rest (S i) (if is_emsg_child c then S i else idx)
  end.

(* ... and `append(f.Children[:newIdx+1], f.Children[newIdx:]...)` panics (slice bounds out of range) when newIdx+1
   exceeds the capacity; with room left, the stale element beyond the length is overwritten by the new box *)
Definition add_emsg_pinned (cap : nat) (cs : list child) (e : xbox) : res (list child) :=
  let k := last_emsg_slot cs 0 0 in
  if (cap <? S k)%nat then Panic else Ok (insert_at k (KX e) cs).

(* f.AddChild(box) for a box that is neither moof nor mdat *)
Definition add_child (cs : list child) (x : xbox) : list child := cs ++ [KX x].

(* the boxes before the moof and after the mdat *)
Fixpoint pre_of (cs : list child) : list xbox :=
  match cs with
  | KX x :: rest => x :: pre_of rest
  | _ => []
  end.
Fixpoint post_of (cs : list child) : list xbox :=
  match cs with
  | [] => []
  | KMdat :: rest => flat_map (fun c => match c with KX x => [x] | _ => [] end) rest
  | _ :: rest => post_of rest
  end.

(* ------------------------------------------------------------------ histories *)
Inductive lop :=
| LSample (o : op)          (* one of the six sample additions *)
| LEmsg (e : xbox)          (* f.AddEmsg(emsg) *)
| LChild (x : xbox).        (* f.AddChild(box), box not moof / mdat *)

Record lstate := mkL { l_children : list child; l_frag : frag }.

Definition lstep (st : lstate) (o : lop) : res lstate :=
  match o with
  | LSample o => do fr <- step (l_frag st) o; Ok (mkL (l_children st) fr)
  | LEmsg e => Ok (mkL (add_emsg (l_children st) e) (l_frag st))
  | LChild x => Ok (mkL (add_child (l_children st) x) (l_frag st))
  end.

(* as run_ops: an error changes nothing, a panic ends the history *)
Fixpoint run_lops (st : lstate) (ops : list lop) : list oclass * option lstate :=
  match ops with
  | [] => ([], Some st)
  | o :: rest =>
      match lstep st o with
      | Ok st' => let '(cs, r) := run_lops st' rest in (COk :: cs, r)
      | Err => let '(cs, r) := run_lops st rest in (CErr :: cs, r)
      | _ => ([CPanic], None)
      end
  end.

(* the fragment of the size-level model: boxes before the moof and after the mdat enter as total sizes *)
Definition set_pp (fr : frag) (pre post : N) : frag :=
  mkFrag (fr_trafs fr) (fr_mdat fr) (fr_next fr) pre (fr_moofx fr) post.
Definition l_sync (st : lstate) : frag :=
  set_pp (l_frag st) (xsum (pre_of (l_children st))) (xsum (post_of (l_children st))).

(* the start: a created fragment (children moof, mdat) to which boxes p0 were put first and q0 appended *)
Definition l_start (fr : frag) (p0 q0 : list xbox) : lstate :=
  mkL (map KX p0 ++ [KMoof; KMdat] ++ map KX q0) fr.

(* projections of a history *)
Definition lops_samples (ops : list lop) : list op :=
  flat_map (fun o => match o with LSample s => [s] | _ => [] end) ops.
Definition lops_children (ops : list lop) : list xbox :=
  flat_map (fun o => match o with LChild x => [x] | _ => [] end) ops.
Definition lops_emsgs (ops : list lop) : list xbox :=
  flat_map (fun o => match o with LEmsg e => [e] | _ => [] end) ops.

(* the history of the segment model that a layout history amounts to *)
Record lhist := mkLhist {
  lh_tracks : list N; lh_p0 : list xbox; lh_mx : N; lh_q0 : list xbox; lh_exs : list N;
  lh_ops : list lop; lh_between : list xbox }.

Definition lh_final (h : lhist) : list child :=
  fold_left (fun cs o => match o with LSample _ => cs | LEmsg e => add_emsg cs e | LChild x => add_child cs x end)
            (lh_ops h) (map KX (lh_p0 h) ++ [KMoof; KMdat] ++ map KX (lh_q0 h)).

Definition lhist_fhist (h : lhist) : fhist :=
  mkFhist (lh_tracks h) (pre_of (lh_final h)) (lh_mx h) (post_of (lh_final h)) (lh_exs h)
          (lops_samples (lh_ops h)) (lh_between h).
