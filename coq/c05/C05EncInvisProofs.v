(* C05EncInvisProofs.v — plain Encodes in the middle of a history are INVISIBLE to the final Encode: the fragment
   reached differs from the one the additions alone build only in the data offsets (and possibly the large-size
   mark), and the final Encode rewrites every data offset, so it produces the very same encoded fragment.  Every
   theorem about `encode_frag opt fr` for an encode-free history therefore holds for the history with plain Encodes. *)
From V.lib Require Import Base.
From V.c05 Require Import C05Model C05FragModel C05OptProofs C05HistProofs C05OffProofs C05GhostProofs C05ReadProofs
  C05RoundProofs C05SingleProofs C05EncHistModel C05EncHistProofs.
From Coq Require Import Permutation.

(* ------------------------------------------------------------------ what no operation touches *)
Definition xframe (a b : frag) : Prop :=
  map tf_extra (fr_trafs a) = map tf_extra (fr_trafs b) /\ fr_moofx a = fr_moofx b /\ fr_post a = fr_post b.

Lemma xframe_refl a : xframe a a.
Proof. repeat split. Qed.

Lemma xframe_trans a b c : xframe a b -> xframe b c -> xframe a c.
Proof. intros (A1 & A2 & A3) (B1 & B2 & B3). repeat split; congruence. Qed.

Lemma add_first_extra fr ss dts ts : add_first fr ss dts = Ok ts -> map tf_extra ts = map tf_extra (fr_trafs fr).
Proof.
  unfold add_first. destruct (fr_trafs fr) as [|t ts0]; [discriminate|]. destruct (tf_truns t); [discriminate|].
  intros [= <-]. reflexivity.
Qed.

Lemma add_to_traf_extra t next s dts : tf_extra (fst (add_to_traf t next s dts)) = tf_extra t.
Proof.
  unfold add_to_traf. destruct (tf_truns t); cbn beta iota zeta;
    match goal with |- context [if ?c then _ else _] => destruct c end; reflexivity.
Qed.

Lemma add_to_track_trafs_extra ts : forall track next s dts ts' n',
  add_to_track_trafs ts track next s dts = Some (ts', n') -> map tf_extra ts' = map tf_extra ts.
Proof.
  induction ts as [|t ts IH]; intros track next s dts ts' n' H; cbn [add_to_track_trafs] in H; [discriminate|].
  destruct (tf_track (tf_hd t) =? track).
  - pose proof (add_to_traf_extra t next s dts) as E. destruct (add_to_traf t next s dts) as [t1 n1]. cbn [fst] in E.
    injection H as <- _. cbn [map]. rewrite E. reflexivity.
  - destruct (add_to_track_trafs ts track next s dts) as [[r n]|] eqn:Er; [|discriminate].
    injection H as <- _. cbn [map]. rewrite (IH _ _ _ _ _ _ Er). reflexivity.
Qed.

Lemma add_sample_to_track_frame fr track s dts fr' : add_sample_to_track fr track s dts = Ok fr' -> xframe fr' fr.
Proof.
  unfold add_sample_to_track. destruct (add_to_track_trafs (fr_trafs fr) track (fr_next fr) s dts) as [[ts n]|] eqn:E; [|discriminate].
  intros [= <-]. unfold xframe. cbn [fr_with fr_trafs fr_moofx fr_post]. rewrite (add_to_track_trafs_extra _ _ _ _ _ _ _ E). repeat split.
Qed.

Lemma step_frame a o a' : step a o = Ok a' -> xframe a' a.
Proof.
  destruct o as [s d data|t s d data|t s d|s d|ss d|d ss data]; cbn [step]; intros H.
  - destruct (add_first a [s] d) as [ts| | |] eqn:E; try discriminate. injection H as <-.
    unfold xframe. cbn [fr_with fr_trafs fr_moofx fr_post]. rewrite (add_first_extra _ _ _ _ E). repeat split.
  - destruct (add_sample_to_track a t s d) as [a1| | |] eqn:E; try discriminate. cbn [rbind] in H. injection H as <-.
    pose proof (add_sample_to_track_frame _ _ _ _ _ E) as (X1 & X2 & X3). repeat split; assumption.
  - apply (add_sample_to_track_frame _ _ _ _ _ H).
  - destruct (add_first a [s] d) as [ts| | |] eqn:E; try discriminate. injection H as <-.
    unfold xframe. cbn [fr_with fr_trafs fr_moofx fr_post]. rewrite (add_first_extra _ _ _ _ E). repeat split.
  - destruct (add_first a ss d) as [ts| | |] eqn:E; try discriminate. injection H as <-.
    unfold xframe. cbn [fr_with fr_trafs fr_moofx fr_post]. rewrite (add_first_extra _ _ _ _ E). repeat split.
  - destruct (fr_trafs a) as [|t [|t2 ts]] eqn:Et; try discriminate.
    destruct (tf_truns t) as [|r [|r2 rs]]; try discriminate.
    destruct (md_add_part (fr_mdat a) data) as [m| | |]; try discriminate. cbn [rbind] in H. injection H as <-.
    unfold xframe. cbn [fr_with fr_trafs fr_moofx fr_post]. rewrite Et. repeat split.
Qed.

Lemma set_offsets_frame a : xframe (set_offsets a) a.
Proof.
  unfold set_offsets. destruct (_ && _); [apply xframe_refl|].
  unfold xframe. cbn [fr_with fr_trafs fr_moofx fr_post]. rewrite map_map. repeat split.
Qed.

Lemma optimize_first_frame a a1 : optimize_first a = Ok a1 -> xframe a1 a.
Proof.
  unfold optimize_first. destruct (fr_trafs a) as [|t ts] eqn:Et; [intros [= <-]; apply xframe_refl|].
  destruct (tf_truns t); [intros [= <-]; apply xframe_refl|].
  destruct (optimize (tf_hd t) _) as [[h' r']| | |]; try discriminate. cbn [rbind]. intros [= <-].
  unfold xframe. cbn [fr_with fr_trafs fr_moofx fr_post]. rewrite Et. repeat split.
Qed.

Lemma encode_state_frame opt a c a' : encode_state opt a = (c, Some a') -> xframe a' a.
Proof.
  unfold encode_state. intros H.
  destruct (if opt then optimize_first a else Ok a) as [a1| | |] eqn:E1; try discriminate.
  - assert (X1 : xframe a1 a).
    { destruct opt; [exact (optimize_first_frame _ _ E1)|injection E1 as <-; apply xframe_refl]. }
    cbn zeta in H. pose proof (set_offsets_frame a1) as X2.
    destruct (existsb doff_unset (all_truns (fr_trafs (set_offsets a1)))); injection H as _ <-.
    + exact (xframe_trans _ _ _ X2 X1).
    + apply (xframe_trans _ (set_offsets a1)); [|exact (xframe_trans _ _ _ X2 X1)]. repeat split.
  - injection H as _ <-. apply xframe_refl.
Qed.

Lemma hops_frame hs : forall a cs a', run_hops a hs = (cs, Some a') -> xframe a' a.
Proof.
  induction hs as [|h hs IH]; intros a cs a' H; cbn [run_hops] in H.
  - injection H as _ <-. apply xframe_refl.
  - destruct h as [o|opt].
    + destruct (step a o) as [a1| | |] eqn:E; try discriminate.
      * destruct (run_hops a1 hs) as [cs1 r1] eqn:E1. injection H as _ ->.
        exact (xframe_trans _ _ _ (IH _ _ _ E1) (step_frame _ _ _ E)).
      * destruct (run_hops a hs) as [cs1 r1] eqn:E1. injection H as _ ->. exact (IH _ _ _ E1).
    + destruct (encode_state opt a) as [c [a1|]] eqn:E; [|discriminate].
      destruct (run_hops a1 hs) as [cs1 r1] eqn:E1. injection H as _ ->.
      exact (xframe_trans _ _ _ (IH _ _ _ E1) (encode_state_frame _ _ _ _ E)).
Qed.

Lemma ops_frame ops : forall a cs a', run_ops a ops = (cs, Some a') -> xframe a' a.
Proof.
  induction ops as [|o ops IH]; intros a cs a' H; cbn [run_ops] in H.
  - injection H as _ <-. apply xframe_refl.
  - destruct (step a o) as [a1| | |] eqn:E; try discriminate.
    + destruct (run_ops a1 ops) as [cs1 r1] eqn:E1. injection H as _ ->.
      exact (xframe_trans _ _ _ (IH _ _ _ E1) (step_frame _ _ _ E)).
    + destruct (run_ops a ops) as [cs1 r1] eqn:E1. injection H as _ ->. exact (IH _ _ _ E1).
Qed.

(* md_large is only ever set *)
Lemma step_large a o a' : step a o = Ok a' -> md_large (fr_mdat a') = md_large (fr_mdat a).
Proof.
  destruct o as [s d data|t s d data|t s d|s d|ss d|d ss data]; cbn [step]; intros H.
  - destruct (add_first a [s] d); try discriminate. injection H as <-. reflexivity.
  - unfold add_sample_to_track in H. destruct (add_to_track_trafs _ _ _ _ _) as [[ts n]|]; try discriminate.
    cbn [rbind] in H. injection H as <-. reflexivity.
  - unfold add_sample_to_track in H. destruct (add_to_track_trafs _ _ _ _ _) as [[ts n]|]; try discriminate.
    injection H as <-. reflexivity.
  - destruct (add_first a [s] d); try discriminate. injection H as <-. reflexivity.
  - destruct (add_first a ss d); try discriminate. injection H as <-. reflexivity.
  - destruct (fr_trafs a) as [|t [|t2 ts]]; try discriminate.
    destruct (tf_truns t) as [|r [|r2 rs]]; try discriminate.
    unfold md_add_part in H. destruct (md_data (fr_mdat a)); try discriminate. cbn [rbind] in H. injection H as <-. reflexivity.
Qed.

Lemma ops_large ops : forall a cs a', run_ops a ops = (cs, Some a') -> md_large (fr_mdat a') = md_large (fr_mdat a).
Proof.
  induction ops as [|o ops IH]; intros a cs a' H; cbn [run_ops] in H.
  - injection H as _ <-. reflexivity.
  - destruct (step a o) as [a1| | |] eqn:E; try discriminate.
    + destruct (run_ops a1 ops) as [cs1 r1] eqn:E1. injection H as _ ->.
      rewrite (IH _ _ _ E1). exact (step_large _ _ _ E).
    + destruct (run_ops a ops) as [cs1 r1] eqn:E1. injection H as _ ->. exact (IH _ _ _ E1).
Qed.

(* ------------------------------------------------------------------ forgetting the data offsets *)
Definition undoff_trun (r : trun) : trun := tr_with_doff r 0.
Definition undoff_traf (t : traf) : traf := mkTraf (tf_hd t) (tf_dt t) (map undoff_trun (tf_truns t)) (tf_extra t).
Definition undoff (fr : frag) : frag :=
  mkFrag (map undoff_traf (fr_trafs fr)) (fr_mdat fr) (fr_next fr) (fr_pre fr) (fr_moofx fr) (fr_post fr).

Lemma mdat_eq m1 m : msim m1 m -> md_large m1 = md_large m -> m1 = m.
Proof. destruct m1, m. unfold msim. cbn. intros (A & B & C) D. subst. reflexivity. Qed.

Lemma undoff_trafs_eq ta tb :
  Forall2 (tsimQ eqd (@eq tfhd)) ta tb -> map tf_extra ta = map tf_extra tb -> map undoff_traf ta = map undoff_traf tb.
Proof.
  intros H. induction H as [|x y la lb (Hdt & Hh & Hr) H IH]; intros Hx; [reflexivity|].
  cbn [map] in Hx |- *. injection Hx as Hx1 Hx2. rewrite (IH Hx2). f_equal.
  unfold undoff_traf. rewrite Hdt, Hh, Hx1. f_equal.
  clear -Hr. induction Hr as [|r1 r l1 l Hq _ IHr]; [reflexivity|]. cbn [map]. rewrite IHr. f_equal. exact Hq.
Qed.

Lemma fsimS_undoff a b : fsimS a b -> xframe a b -> md_large (fr_mdat a) = md_large (fr_mdat b) -> undoff a = undoff b.
Proof.
  intros (HT & Hm & Hn & Hp) (X1 & X2 & X3) Hl. unfold undoff.
  rewrite (undoff_trafs_eq _ _ HT X1), (mdat_eq _ _ Hm Hl), Hn, Hp, X2, X3. reflexivity.
Qed.

(* ------------------------------------------------------------------ OptimizeTfhdTrun does not look at the data offset *)
Lemma opt_dur_doff h r z : opt_dur h (tr_with_doff r z) = (fst (opt_dur h r), tr_with_doff (snd (opt_dur h r)) z).
Proof.
  unfold opt_dur. cbn [tr_with_doff tr_samples]. change (has_dur (tr_with_doff r z)) with (has_dur r).
  destruct (tr_samples r); [reflexivity|]. destruct (has_dur r && _); reflexivity.
Qed.
Lemma opt_size_doff h r z : opt_size h (tr_with_doff r z) = (fst (opt_size h r), tr_with_doff (snd (opt_size h r)) z).
Proof.
  unfold opt_size. cbn [tr_with_doff tr_samples]. change (has_size (tr_with_doff r z)) with (has_size r).
  destruct (tr_samples r); [reflexivity|]. destruct (has_size r && _); reflexivity.
Qed.
Lemma opt_flags_doff f h r z :
  opt_flags_gen f h (tr_with_doff r z) = (fst (opt_flags_gen f h r), tr_with_doff (snd (opt_flags_gen f h r)) z).
Proof.
  unfold opt_flags_gen. cbn [tr_with_doff tr_samples]. change (has_sflags (tr_with_doff r z)) with (has_sflags r).
  destruct (tr_samples r) as [|s0 [|s1 l]]; try reflexivity.
  destruct (has_sflags r && forallb (fun s : sample => s_flags s =? s_flags s1) (tl (s0 :: s1 :: l))); [|reflexivity].
  destruct (negb (s_flags s0 =? s_flags s1)); [reflexivity|]. destruct f; reflexivity.
Qed.
Lemma opt_cto_doff h r z : opt_cto h (tr_with_doff r z) = (fst (opt_cto h r), tr_with_doff (snd (opt_cto h r)) z).
Proof.
  unfold opt_cto, other_field. cbn [tr_with_doff tr_samples].
  change (has_cto (tr_with_doff r z)) with (has_cto r). change (has_dur (tr_with_doff r z)) with (has_dur r).
  change (has_size (tr_with_doff r z)) with (has_size r). change (has_sflags (tr_with_doff r z)) with (has_sflags r).
  destruct (has_cto r && _ && _); reflexivity.
Qed.

Definition rmap {A B} (f : A -> B) (x : res A) : res B :=
  match x with Ok a => Ok (f a) | Err => Err | Panic => Panic | OutOfFuel => OutOfFuel end.

Lemma optimize_doff h r z :
  optimize h (tr_with_doff r z) = rmap (fun p => (fst p, tr_with_doff (snd p) z)) (optimize h r).
Proof.
  unfold optimize, optimize_gen. cbn [tr_with_doff tr_samples].
  destruct (tr_samples r) as [|s0 [|s1 l]] eqn:E; try reflexivity.
  rewrite opt_dur_doff. destruct (opt_dur h r) as [h1 r1]. cbn [fst snd].
  rewrite opt_size_doff. destruct (opt_size h1 r1) as [h2 r2]. cbn [fst snd].
  rewrite opt_flags_doff. destruct (opt_flags_gen FIXED_FSF h2 r2) as [h3 r3]. cbn [fst snd].
  rewrite opt_cto_doff. destruct (opt_cto h3 r3) as [h4 r4]. reflexivity.
Qed.

Lemma optimize_first_undoff fr : optimize_first (undoff fr) = rmap undoff (optimize_first fr).
Proof.
  unfold optimize_first, undoff at 1. cbn [fr_trafs].
  destruct (fr_trafs fr) as [|t ts] eqn:Et; [cbn [map rmap]; unfold undoff; rewrite Et; reflexivity|].
  cbn [map undoff_traf tf_truns tf_hd tf_dt tf_extra].
  destruct (tf_truns t) as [|r rs] eqn:Er; [cbn [map rmap]; unfold undoff, undoff_traf; rewrite Et; cbn [map]; rewrite Er; reflexivity|].
  cbn [map]. unfold undoff_trun at 1. rewrite optimize_doff.
  destruct (optimize (tf_hd t) r) as [[h' r']| | |]; cbn [rmap rbind fst snd]; reflexivity.
Qed.

(* ------------------------------------------------------------------ SetTrunDataOffsets rewrites every data offset *)
Definition early (fr : frag) : bool :=
  negb (existsb (fun r => negb (tr_won r =? 0)) (all_truns (fr_trafs fr))) && (1 <? lenN (all_truns (fr_trafs fr))).

Lemma all_truns_undoff ts : all_truns (map undoff_traf ts) = map undoff_trun (all_truns ts).
Proof.
  unfold all_truns. induction ts as [|t ts IH]; [reflexivity|]. cbn [map flat_map]. rewrite IH, map_app. reflexivity.
Qed.

Lemma insert_won_undoff r l : insert_won (undoff_trun r) (map undoff_trun l) = map undoff_trun (insert_won r l).
Proof.
  induction l as [|x l IH]; [reflexivity|]. cbn [map insert_won].
  change (tr_won (undoff_trun r)) with (tr_won r). change (tr_won (undoff_trun x)) with (tr_won x).
  destruct (tr_won r <=? tr_won x); [reflexivity|]. cbn [map]. rewrite IH. reflexivity.
Qed.

Lemma sort_won_undoff l : sort_won (map undoff_trun l) = map undoff_trun (sort_won l).
Proof.
  unfold sort_won. induction l as [|x l IH]; [reflexivity|]. cbn [map fold_right]. rewrite IH. apply insert_won_undoff.
Qed.

Lemma assign_offsets_undoff l : forall off, assign_offsets (map undoff_trun l) off = assign_offsets l off.
Proof. induction l as [|x l IH]; intros off; [reflexivity|]. cbn [map assign_offsets]. rewrite IH. reflexivity. Qed.

Lemma lookup_off_dflt tbl w d1 d2 : In w (map fst tbl) -> lookup_off tbl w d1 = lookup_off tbl w d2.
Proof.
  induction tbl as [|[k o] tbl IH]; intros Hin; [destruct Hin|]. cbn [lookup_off].
  destruct (k =? w) eqn:E; [reflexivity|]. apply IH. cbn [map fst] in Hin. destruct Hin as [->|Hin]; [|exact Hin].
  rewrite N.eqb_refl in E. discriminate.
Qed.

Lemma assign_offsets_keys l : forall off, map fst (assign_offsets l off) = map tr_won l.
Proof. induction l as [|x l IH]; intros off; [reflexivity|]. cbn [assign_offsets map fst]. rewrite IH. reflexivity. Qed.

Lemma existsb_map {A B} (p : B -> bool) (f : A -> B) l : existsb p (map f l) = existsb (fun a => p (f a)) l.
Proof. induction l as [|a l IH]; [reflexivity|]. cbn [map existsb]. rewrite IH. reflexivity. Qed.

Lemma early_undoff fr : early (undoff fr) = early fr.
Proof.
  unfold early, undoff. cbn [fr_trafs]. rewrite all_truns_undoff, existsb_map. unfold lenN. rewrite map_length. reflexivity.
Qed.

Lemma set_offsets_undoff fr : early fr = false -> set_offsets (undoff fr) = set_offsets fr.
Proof.
  intros He. pose proof (early_undoff fr) as He'. rewrite He in He'. unfold set_offsets.
  fold (early fr). fold (early (undoff fr)). rewrite He, He'.
  unfold undoff at 1 2 3 4 5. cbn [fr_trafs fr_mdat fr_next]. unfold fr_with. cbn [fr_pre fr_moofx fr_post fr_mdat fr_next undoff].
  assert (Hms : moof_size (undoff fr) = moof_size fr).
  { unfold moof_size, undoff. cbn [fr_trafs fr_moofx]. f_equal. f_equal. rewrite map_map. f_equal. apply map_ext. intros t.
    unfold traf_size, undoff_traf. cbn [tf_hd tf_dt tf_truns tf_extra]. rewrite map_map. reflexivity. }
  unfold undoff in Hms. rewrite Hms. rewrite all_truns_undoff, sort_won_undoff, assign_offsets_undoff.
  f_equal. rewrite map_map. apply map_ext_in. intros t Ht. unfold undoff_traf. cbn [tf_hd tf_dt tf_truns tf_extra]. f_equal.
  rewrite map_map. apply map_ext_in. intros r Hr. change (tr_won (undoff_trun r)) with (tr_won r).
  unfold undoff_trun, tr_with_doff. cbn [tr_version tr_flags tr_fsf tr_samples tr_won tr_doff]. f_equal.
  apply lookup_off_dflt. rewrite assign_offsets_keys.
  assert (Hin : In r (all_truns (fr_trafs fr))) by (unfold all_truns; apply in_flat_map; exists t; split; assumption).
  apply in_map. eapply Permutation_in; [symmetry; apply sort_won_perm|exact Hin].
Qed.

Lemma optimize_first_early fr fr1 : optimize_first fr = Ok fr1 -> early fr1 = early fr.
Proof.
  unfold optimize_first. destruct (fr_trafs fr) as [|t ts] eqn:Et; [intros [= <-]; reflexivity|].
  destruct (tf_truns t) as [|r rs] eqn:Er; [intros [= <-]; reflexivity|].
  destruct (optimize (tf_hd t) r) as [[h' r']| | |] eqn:Eo; try discriminate. cbn [rbind]. intros [= <-].
  pose proof (optimize_frame _ _ _ _ _ Eo) as (F1 & _). cbn [snd] in F1.
  unfold early. cbn [fr_with fr_trafs]. rewrite Et. unfold all_truns. cbn [flat_map tf_truns]. rewrite Er.
  cbn [app existsb]. rewrite F1. unfold lenN. cbn [length]. rewrite !app_length. reflexivity.
Qed.

(* the final Encode does not depend on the data offsets the fragment carries *)
Lemma encode_frag_undoff opt fr : early fr = false -> encode_frag opt (undoff fr) = encode_frag opt fr.
Proof.
  intros He. unfold encode_frag.
  assert (H1 : (if opt then optimize_first (undoff fr) else Ok (undoff fr)) = rmap undoff (if opt then optimize_first fr else Ok fr)).
  { destruct opt; [apply optimize_first_undoff|reflexivity]. }
  rewrite H1.
  destruct (if opt then optimize_first fr else Ok fr) as [fr1| | |] eqn:E1; cbn [rmap rbind]; try reflexivity.
  assert (He1 : early fr1 = false).
  { destruct opt; [rewrite (optimize_first_early _ _ E1); exact He|injection E1 as <-; exact He]. }
  rewrite (set_offsets_undoff fr1 He1). reflexivity.
Qed.

Lemma nodup_not_early fr : NoDup (map tr_won (all_truns (fr_trafs fr))) -> early fr = false.
Proof.
  intros Hd. unfold early. destruct (negb _) eqn:Ea; [|reflexivity]. apply negb_true_iff in Ea.
  pose proof (all_zero_short _ Ea Hd) as Hl. cbn [andb]. apply N.ltb_ge. unfold lenN. lia.
Qed.

(* ------------------------------------------------------------------ the theorem *)
Lemma plain_encodes_invisible hs a cs a' :
  plain hs = true -> run_hops a hs = (cs, Some a') ->
  exists b, run_ops a (adds hs) = (add_classes hs cs, Some b) /\ fsimS a' b /\
    (md_large (fr_mdat a') = md_large (fr_mdat a) ->
     NoDup (map tr_won (all_truns (fr_trafs b))) ->
     forall opt, encode_frag opt a' = encode_frag opt b).
Proof.
  intros Hp H. destruct (hops_simS_cls hs a a cs a' Hp (fsimS_refl a) H) as (b & Hb & Hsim).
  exists b. split; [exact Hb|]. split; [exact Hsim|]. intros Hl Hd opt.
  pose proof (hops_frame hs a cs a' H) as X1. pose proof (ops_frame _ a _ b Hb) as (Y1 & Y2 & Y3).
  assert (X : xframe a' b) by (destruct X1 as (X1 & X2 & X3); repeat split; congruence).
  assert (Hl' : md_large (fr_mdat a') = md_large (fr_mdat b)) by (rewrite (ops_large _ _ _ _ Hb); exact Hl).
  pose proof (fsimS_undoff a' b Hsim X Hl') as Hu.
  pose proof (nodup_not_early b Hd) as Heb.
  assert (Hea : early a' = false) by (rewrite <- (early_undoff a'), Hu, early_undoff; exact Heb).
  rewrite <- (encode_frag_undoff opt a' Hea), Hu. apply encode_frag_undoff. exact Heb.
Qed.

(* ------------------------------------------------------------------ corollary: single-track fragments, all six add operations *)
Lemma roundtrip_encodes_single_modes T hs cs fr opt fe pos0 tx pre mx post exs FL lz :
  Forall (fun o => op_dts o < 18446744073709551616) (adds hs) ->
  plain hs = true ->
  run_hops (with_extras (create_fragment T) pre mx post exs) hs = (cs, Some fr) ->
  md_large (fr_mdat fr) = false ->
  mode_ok (adds hs) (add_classes hs cs) FL lz ->
  map fs_s FL = added1 T (adds hs) -> Forall sized_f FL -> FL <> [] ->
  encode_frag opt fr = Ok fe ->
  moof_size fe + md_header_size (fr_mdat fe) + lenN (flat_map fs_data FL) < 2147483648 ->
  pos0 + fr_pre fe < 4611686018427387904 ->
  exists t,
    map tf_dt (fr_trafs fr) = [set_base t] /\
    get_full_samples (decoded_view fe pos0 lz) (Some tx) = Ok (if tx_track tx =? T then retime t FL else []).
Proof.
  intros Hdts Hp Hrun Hl Hmode Hs Hsz Hne Henc Hguard Hpos.
  set (fr0 := with_extras (create_fragment T) pre mx post exs) in *.
  destruct (plain_encodes_invisible hs fr0 cs fr Hp Hrun) as (b & Hb & Hsim & Hinv).
  destruct (history_sinv6 T (adds hs) [] fr0 _ b Hdts (create_fragment_sinv6 T pre mx post exs) Hb)
    as (((t0 & ex0 & _ & Ht0) & _) & _). cbn [app] in Ht0.
  assert (Hd : NoDup (map tr_won (all_truns (fr_trafs b)))).
  { rewrite Ht0. cbn. constructor; [intros []|constructor]. }
  assert (Hl0 : md_large (fr_mdat fr) = md_large (fr_mdat fr0)) by (rewrite Hl; reflexivity).
  rewrite (Hinv Hl0 Hd opt) in Henc.
  destruct (roundtrip_single_modes T (adds hs) _ b opt fe pos0 tx pre mx post exs FL lz Hdts Hb Hmode Hs Hsz Hne Henc Hguard Hpos)
    as (t & ex & Ht & Hget).
  exists t. split; [|exact Hget].
  destruct Hsim as (HT & _). rewrite Ht in HT.
  destruct (fr_trafs fr) as [|t1 [|t2 ts]]; inversion HT as [|? ? ? ? (Hdt & _) Hrest]; subst; [|inversion Hrest].
  cbn [map]. rewrite Hdt. reflexivity.
Qed.
