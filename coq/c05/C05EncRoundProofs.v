(* C05EncRoundProofs.v — reading back fragments built by histories that contain Encode calls: the round trip of
   C05RoundProofs re-derived from the simulation relation (the fragment need not be the canonical one any more:
   data offsets are stale, the first trun may have been optimised by an earlier Encode). *)
From V.lib Require Import Base.
From V.c05 Require Import C05Model C05FragModel C05OptProofs C05HistProofs C05OffProofs C05GhostProofs
  C05ReadProofs C05RoundProofs C05EncHistModel C05EncHistProofs.
From Coq Require Import Permutation.

Lemma all4_present r : all4 r = all_present r.
Proof. reflexivity. Qed.

(* the guard component: the decode side resolves such a trun to its own samples, for every trex *)
Lemma selfres_resolve h r tx : trun_selfres h r = true -> resolve h tx (wire_trun r) = tr_samples r.
Proof.
  unfold trun_selfres. intros H. rewrite !andb_true_iff in H. destruct H as [[[Hd Hs] Hc] Hf].
  assert (Hdur : forall s, In s (tr_samples r) ->
            (if has_dur r then s_dur s else fst (fst (defaults h tx))) = s_dur s).
  { intros s Hin. destruct (has_dur r); [reflexivity|]. cbn [orb] in Hd. rewrite forallb_forall in Hd.
    specialize (Hd s Hin). apply andb_true_iff in Hd. destruct Hd as [A B]. apply N.eqb_eq in B.
    unfold defaults. cbn [fst]. rewrite A. symmetry. exact B. }
  assert (Hsize : forall s, In s (tr_samples r) ->
            (if has_size r then s_size s else snd (fst (defaults h tx))) = s_size s).
  { intros s Hin. destruct (has_size r); [reflexivity|]. cbn [orb] in Hs. rewrite forallb_forall in Hs.
    specialize (Hs s Hin). apply andb_true_iff in Hs. destruct Hs as [A B]. apply N.eqb_eq in B.
    unfold defaults. cbn [fst snd]. rewrite A. symmetry. exact B. }
  assert (Hcto : forall s, In s (tr_samples r) -> (if has_cto r then s_cto s else 0%Z) = s_cto s).
  { intros s Hin. destruct (has_cto r); [reflexivity|]. cbn [orb] in Hc. rewrite forallb_forall in Hc.
    specialize (Hc s Hin). apply Z.eqb_eq in Hc. symmetry. exact Hc. }
  rewrite resolve_wire. apply map_first_id.
  - intros a t E. assert (Hin : In a (tr_samples r)) by (rewrite E; left; reflexivity).
    unfold rw, resolve_sample, wire_sample. destruct (defaults h tx) as [[dd ds] df] eqn:Ed.
    cbn [s_flags s_dur s_size s_cto negb orb].
    specialize (Hdur a Hin). specialize (Hsize a Hin). specialize (Hcto a Hin). cbn [fst snd] in Hdur, Hsize.
    transitivity (mkSample (s_flags a) (s_dur a) (s_size a) (s_cto a)); [|apply sample_eta]. f_equal.
    + revert Hf. destruct (has_sflags r); [reflexivity|]. cbn [orb]. rewrite E. intros Hf.
      apply andb_true_iff in Hf. destruct Hf as [Hf0 _]. rewrite andb_true_r.
      revert Hf0. destruct (has_fsf r); cbn [negb]; intros Hf0.
      * apply N.eqb_eq in Hf0. symmetry. exact Hf0.
      * apply andb_true_iff in Hf0. destruct Hf0 as [A B]. apply N.eqb_eq in B.
        unfold defaults in Ed. rewrite A in Ed. injection Ed as _ _ <-. symmetry. exact B.
    + revert Hdur. destruct (has_dur r); intros Hdur; [reflexivity|exact Hdur].
    + revert Hsize. destruct (has_size r); intros Hsize; [reflexivity|exact Hsize].
    + revert Hcto. destruct (has_cto r); intros Hcto; [reflexivity|exact Hcto].
  - intros a Hin0.
    assert (Hin : In a (tr_samples r)) by (destruct (tr_samples r); [destruct Hin0|right; exact Hin0]).
    unfold rw, resolve_sample, wire_sample. destruct (defaults h tx) as [[dd ds] df] eqn:Ed.
    cbn [s_flags s_dur s_size s_cto negb orb].
    specialize (Hdur a Hin). specialize (Hsize a Hin). specialize (Hcto a Hin). cbn [fst snd] in Hdur, Hsize.
    transitivity (mkSample (s_flags a) (s_dur a) (s_size a) (s_cto a)); [|apply sample_eta]. f_equal.
    + revert Hf. destruct (has_sflags r); [reflexivity|]. cbn [orb].
      destruct (tr_samples r) as [|s0 rest]; [destruct Hin0|]. cbn [tl] in Hin0. intros Hf.
      apply andb_true_iff in Hf. destruct Hf as [_ Hfr]. rewrite forallb_forall in Hfr. specialize (Hfr a Hin0).
      apply andb_true_iff in Hfr. destruct Hfr as [A B]. apply N.eqb_eq in B.
      unfold defaults in Ed. rewrite A in Ed. injection Ed as _ _ <-. symmetry. exact B.
    + revert Hdur. destruct (has_dur r); intros Hdur; [reflexivity|exact Hdur].
    + revert Hsize. destruct (has_size r); intros Hsize; [reflexivity|exact Hsize].
    + revert Hcto. destruct (has_cto r); intros Hcto; [reflexivity|exact Hcto].
Qed.

Lemma ropt_of_all4 h x y : all4 x = true -> rsim x y -> ropt h x y.
Proof.
  intros H (A & B & C). repeat split; try assumption. intros tx. rewrite <- B. apply resolve_all_present. exact H.
Qed.

Lemma Forall2_ropt_all4 h l1 l : Forall2 rsim l1 l -> forallb all4 l1 = true -> Forall2 (ropt h) l1 l.
Proof.
  intros H. induction H as [|x y l1 l Hxy H IH]; intros Ha; [constructor|].
  cbn [forallb] in Ha. apply andb_true_iff in Ha. destruct Ha as [A1 A2].
  constructor; [apply ropt_of_all4; assumption|apply IH; exact A2].
Qed.

Lemma tsim_all4_topt t1 t : tsimQ rsim hsim t1 t -> forallb all4 (tf_truns t1) = true -> topt t1 t.
Proof.
  intros (Hdt & (Hk & Hb) & Hr) Ha. unfold topt, track_of. repeat split; try assumption.
  apply Forall2_ropt_all4; assumption.
Qed.

Lemma Forall2_tsim_topt ts1 ts :
  Forall2 (tsimQ rsim hsim) ts1 ts -> forallb (fun t' => forallb all4 (tf_truns t')) ts1 = true -> Forall2 topt ts1 ts.
Proof.
  intros H. induction H as [|x y l1 l Hxy H IH]; intros Ha; [constructor|].
  cbn [forallb] in Ha. apply andb_true_iff in Ha. destruct Ha as [A1 A2].
  constructor; [apply tsim_all4_topt; assumption|apply IH; exact A2].
Qed.

(* the (possibly optimised) fragment the final Encode writes, against the fragment b the additions alone build *)
Lemma opt_first_gen fr b (opt : bool) fr1 :
  fsimW fr b -> enc_guard fr = true ->
  (if opt then optimize_first fr else Ok fr) = Ok fr1 ->
  Forall2 topt (fr_trafs fr1) (fr_trafs b) /\ msim (fr_mdat fr1) (fr_mdat b) /\ fr_pre fr1 = fr_pre b.
Proof.
  intros (HT & Hm & Hn & Hp) Hg H. unfold enc_guard in Hg.
  destruct (fr_trafs fr) as [|t ts] eqn:Et.
  { assert (fr1 = fr) as ->.
    { destruct opt; [|injection H as <-; reflexivity]. unfold optimize_first in H. rewrite Et in H. injection H as <-. reflexivity. }
    rewrite Et. destruct (fr_trafs b); inversion HT; subst. split; [constructor|split; assumption]. }
  apply andb_true_iff in Hg. destruct Hg as [Hg1 Hg2].
  destruct (fr_trafs b) as [|tb tsb] eqn:Eb; inversion HT as [|? ? ? ? Ht Hts]; subst.
  pose proof (Forall2_tsim_topt ts tsb Hts Hg2) as Hrest.
  pose proof Ht as (Hdt & (Hk & Hb) & Hr).
  destruct (tf_truns t) as [|r rs] eqn:Er.
  { assert (fr1 = fr) as ->.
    { destruct opt; [|injection H as <-; reflexivity]. unfold optimize_first in H. rewrite Et, Er in H. injection H as <-. reflexivity. }
    rewrite Et. split; [|split; assumption]. constructor; [|exact Hrest].
    unfold topt, track_of. rewrite Er. destruct (tf_truns tb); inversion Hr; subst. repeat split; try assumption. constructor. }
  apply andb_true_iff in Hg1. destruct Hg1 as [Hsr Hrs4].
  destruct (tf_truns tb) as [|rb rsb] eqn:Erb; inversion Hr as [|? ? ? ? Hq Hrs]; subst.
  destruct opt.
  - unfold optimize_first in H. rewrite Et, Er in H.
    destruct (optimize (tf_hd t) r) as [[h' r']| | |] eqn:Eo; try discriminate. cbn [rbind] in H. injection H as <-.
    pose proof (optimize_frame _ _ _ _ _ Eo) as (F1 & F2 & F3 & F4 & F5). cbn [fst snd] in *.
    cbn [fr_with fr_trafs fr_mdat fr_pre]. split; [|split; assumption]. constructor; [|exact Hrest].
    unfold topt, track_of. cbn [tf_dt tf_hd tf_truns]. rewrite Erb. split; [exact Hdt|]. split; [congruence|]. split; [congruence|].
    destruct Hq as (A & B & C). constructor.
    + repeat split; try congruence. intros tx.
      rewrite (optimize_preserves_resolve _ _ tx _ _ Eo), <- B. apply selfres_resolve. exact Hsr.
    + apply Forall2_ropt_all4; assumption.
  - injection H as <-. rewrite Et. split; [|split; assumption]. constructor; [|exact Hrest].
    unfold topt, track_of. rewrite Er, Erb. split; [exact Hdt|]. split; [exact Hk|]. split; [exact Hb|].
    destruct Hq as (A & B & C). constructor.
    + repeat split; try assumption. intros tx. rewrite <- B. apply selfres_resolve. exact Hsr.
    + apply Forall2_ropt_all4; assumption.
Qed.

(* encode_shape of C05RoundProofs for such a fragment *)
Lemma encode_shape_gen tracks g b fr opt fe :
  NoDup tracks -> ginv tracks g b -> sized g -> fsimW fr b -> enc_guard fr = true ->
  encode_frag opt fr = Ok fe ->
  let base := moof_size fe + md_header_size (fr_mdat fe) in
  base + lenN (all_data g) < 2147483648 ->
  exists fr1,
    Forall2 topt (fr_trafs fr1) (fr_trafs b) /\
    fr_trafs fe = with_offsets fr1 (fun r => Z.of_N (base + run_pos (runs_of g) (tr_won r))) /\
    msim (fr_mdat fe) (fr_mdat b) /\ fr_pre fe = fr_pre b.
Proof.
  intros Hnd Hi Hs Hsim Hgd H base Hg. unfold encode_frag in H.
  destruct (if opt then optimize_first fr else Ok fr) as [fr1| | |] eqn:E1; try discriminate. cbn [rbind] in H.
  destruct (opt_first_gen fr b opt fr1 Hsim Hgd E1) as (HT & Em & Ep).
  exists fr1. split; [exact HT|].
  assert (Hperm : Permutation (map pr (all_truns (fr_trafs fr1))) (prs (runs_of g))).
  { rewrite (pr_all_truns _ _ HT). apply (all_truns_perm tracks); assumption. }
  set (m1 := md_size_touch (fr_mdat fr1)) in *.
  set (base1 := moof_size fr1 + md_header_size m1).
  assert (Hso : set_offsets fr1 =
                fr_with fr1 (with_offsets fr1 (fun r => Z.of_N (base1 + run_pos (runs_of g) (tr_won r)))) m1 (fr_next fr1)
                \/ base1 + tsum (prs (runs_of g)) >= 2147483648).
  { destruct (N.lt_ge_cases (base1 + tsum (prs (runs_of g))) 2147483648) as [Hlt|Hge]; [left|right; lia].
    apply set_offsets_runs; assumption. }
  assert (Hsz : moof_size (set_offsets fr1) = moof_size fr1 /\
                md_header_size (md_size_touch (fr_mdat (set_offsets fr1))) = md_header_size m1).
  { unfold set_offsets.
    destruct (negb (existsb (fun r => negb (tr_won r =? 0)) (all_truns (fr_trafs fr1))) && (1 <? lenN (all_truns (fr_trafs fr1)))) eqn:Ec.
    - exfalso. apply andb_true_iff in Ec. destruct Ec as [Ea Eb]. apply negb_true_iff in Ea.
      assert (Hd : NoDup (map tr_won (all_truns (fr_trafs fr1)))).
      { replace (map tr_won (all_truns (fr_trafs fr1))) with (map fst (map pr (all_truns (fr_trafs fr1))))
          by (rewrite map_map; reflexivity).
        eapply Permutation_NoDup; [apply Permutation_map; symmetry; exact Hperm|apply prs_nodup]. }
      pose proof (all_zero_short _ Ea Hd). apply N.ltb_lt in Eb. unfold lenN in Eb. lia.
    - split.
      + unfold moof_size. cbn [fr_with fr_trafs fr_moofx]. f_equal. f_equal. f_equal.
        rewrite map_map. apply map_ext. intros t. unfold traf_size. cbn [tf_hd tf_dt tf_truns tf_extra].
        rewrite map_map. reflexivity.
      + cbn [fr_with fr_mdat]. unfold m1. rewrite md_touch_idem. reflexivity. }
  destruct Hsz as [Hsz1 Hsz2].
  destruct (fr_trafs (set_offsets fr1)) as [|t ts] eqn:Et; try discriminate.
  destruct (existsb doff_unset (tf_truns t)); try discriminate.
  destruct (existsb doff_unset (all_truns ts)); try discriminate.
  injection H as <-. cbn [fr_with fr_trafs fr_mdat fr_pre] in *.
  assert (Hbase : base = base1).
  { unfold base, base1. rewrite <- Et. cbn [fr_with fr_mdat]. rewrite Hsz2. f_equal. exact Hsz1. }
  revert Hso Hg. rewrite Hbase. intros Hso Hg.
  destruct Hso as [Hso|Hbad]; [|rewrite tsum_prs_sized in Hbad by exact Hs; lia].
  rewrite <- Et. rewrite Hso. cbn [fr_with fr_trafs fr_mdat fr_pre]. split; [reflexivity|]. split.
  - exact Em.
  - exact Ep.
Qed.

Lemma decoded_shape_gen tracks g b fr opt fe pos0 :
  NoDup tracks -> ginv tracks g b -> sized g -> fsimW fr b -> enc_guard fr = true ->
  encode_frag opt fr = Ok fe ->
  let base := moof_size fe + md_header_size (fr_mdat fe) in
  base + lenN (all_data g) < 2147483648 ->
  let d := decoded_view fe pos0 [] in
  exists fr1,
    Forall2 topt (fr_trafs fr1) (fr_trafs b) /\
    df_trafs d = map (fun t => mkTraf (tf_hd t) (tf_dt t)
                   (map wire_trun (map (fun r => tr_with_doff r (Z.of_N (base + run_pos (runs_of g) (tr_won r)))) (tf_truns t)))
                   (tf_extra t)) (fr_trafs fr1) /\
    df_data d = all_data g /\ df_moof_start d = pos0 + fr_pre fe /\ df_payload_abs d = df_moof_start d + base.
Proof.
  intros Hnd Hi Hs Hsim Hgd Henc base Hguard d.
  destruct (encode_shape_gen tracks g b fr opt fe Hnd Hi Hs Hsim Hgd Henc Hguard) as (fr1 & HT & Etr & (Ed & Epa & El) & Epre).
  exists fr1. split; [exact HT|]. destruct Hi as (_ & _ & _ & _ & Hdat & Hpar & Hlaz).
  split; [unfold d; cbn [decoded_view df_trafs]; rewrite Etr; unfold with_offsets; rewrite map_map; reflexivity|].
  split; [unfold d; rewrite df_data_full; [rewrite Ed; exact Hdat|rewrite El; exact Hlaz|rewrite Epa; exact Hpar]|].
  split; [reflexivity|]. unfold d, base. cbn [decoded_view df_trafs df_payload_abs df_moof_start]. lia.
Qed.

Lemma roundtrip_gen tracks g b fr opt fe pos0 tx :
  NoDup tracks -> ginv tracks g b -> sized g -> fsimW fr b -> enc_guard fr = true ->
  encode_frag opt fr = Ok fe ->
  let A := track_fulls (tx_track tx) g in
  moof_size fe + md_header_size (fr_mdat fe) + lenN (all_data g) < 2147483648 ->
  pos0 + fr_pre fe < 4611686018427387904 ->
  td_base (tfdt_of A) < 18446744073709551616 ->
  get_full_samples (decoded_view fe pos0 []) (Some tx) = Ok (retime (td_base (tfdt_of A)) A).
Proof.
  intros Hnd Hi Hs Hsim Hgd Henc A Hguard Hpos Hbt.
  destruct (decoded_shape_gen tracks g b fr opt fe pos0 Hnd Hi Hs Hsim Hgd Henc Hguard) as (fr1 & HT & Etrafs & Hdd & Hms & Hpa).
  set (base := moof_size fe + md_header_size (fr_mdat fe)) in *.
  unfold get_full_samples. rewrite Etrafs, find_map. cbn [tf_hd].
  generalize dependent (decoded_view fe pos0 []). intros d _ Hdd Hms Hpa.
  destruct (find (fun a => tf_track (tf_hd a) =? tx_track tx) (fr_trafs fr1)) as [t1|] eqn:Efind; cbn [option_map rbind].
  - apply find_some in Efind. destruct Efind as [Hin1 Et1]. apply N.eqb_eq in Et1.
    cbn [tf_truns tf_dt tf_hd]. fold (track_of t1) in Et1. unfold A. rewrite <- Et1.
    apply (read_traf tracks g b fr1 d base (Some tx) t1); try assumption.
    + unfold base. pose proof (moof_size_pos fe). lia.
    + rewrite Hms. unfold base in *. lia.
    + unfold base in *. lia.
    + rewrite Et1. exact Hbt.
  - destruct Hi as (_ & Htr & Hn & _).
    assert (Hnot : ~ In (tx_track tx) tracks).
    { intros Hin. rewrite <- Htr, <- (topt_tracks _ _ HT) in Hin. apply in_map_iff in Hin.
      destruct Hin as (t1 & Ht1 & Hin1). pose proof (find_none _ _ Efind t1 Hin1) as Hx. cbn beta in Hx.
      unfold track_of in Ht1. rewrite Ht1, N.eqb_refl in Hx. discriminate. }
    unfold A. rewrite (track_fulls_notin tracks _ g Hn Hnot). reflexivity.
Qed.

Lemma roundtrip_gen_nil tracks g b fr opt fe pos0 T0 rest :
  tracks = T0 :: rest ->
  NoDup tracks -> ginv tracks g b -> sized g -> fsimW fr b -> enc_guard fr = true ->
  encode_frag opt fr = Ok fe ->
  let A := track_fulls T0 g in
  moof_size fe + md_header_size (fr_mdat fe) + lenN (all_data g) < 2147483648 ->
  pos0 + fr_pre fe < 4611686018427387904 ->
  td_base (tfdt_of A) < 18446744073709551616 ->
  get_full_samples (decoded_view fe pos0 []) None = Ok (retime (td_base (tfdt_of A)) A).
Proof.
  intros Etk Hnd Hi Hs Hsim Hgd Henc A Hguard Hpos Hbt.
  destruct (decoded_shape_gen tracks g b fr opt fe pos0 Hnd Hi Hs Hsim Hgd Henc Hguard) as (fr1 & HT & Etrafs & Hdd & Hms & Hpa).
  set (base := moof_size fe + md_header_size (fr_mdat fe)) in *.
  unfold get_full_samples. rewrite Etrafs.
  generalize dependent (decoded_view fe pos0 []). intros d _ Hdd Hms Hpa.
  pose proof (topt_tracks _ _ HT) as Htk. pose proof Hi as (Hm & Htr & Hrest). rewrite Htr, Etk in Htk.
  destruct (fr_trafs fr1) as [|t1 ts1] eqn:E1; [discriminate|]. cbn [map] in Htk. injection Htk as Ht1 _.
  cbn [map rbind tf_hd tf_dt tf_truns]. unfold A. rewrite <- Ht1.
  apply (read_traf tracks g b fr1 d base None t1); try assumption.
  - rewrite E1. exact HT.
  - unfold base. pose proof (moof_size_pos fe). lia.
  - rewrite Hms. unfold base in *. lia.
  - unfold base in *. lia.
  - rewrite E1. left. reflexivity.
  - rewrite Ht1. exact Hbt.
Qed.

(* ------------------------------------------------------------------ statements over histories with Encode calls *)
Lemma encode_frag_state opt fr fe : encode_frag opt fr = Ok fe -> encode_state opt fr = (COk, Some fe).
Proof.
  unfold encode_frag, encode_state. destruct (if opt then optimize_first fr else Ok fr) as [fr1| | |]; try discriminate.
  cbn [rbind]. cbn zeta. destruct (fr_trafs (set_offsets fr1)) as [|t ts] eqn:Et; [discriminate|].
  unfold all_truns in *. cbn [flat_map]. rewrite existsb_app.
  destruct (existsb doff_unset (tf_truns t)); [discriminate|]. cbn [orb].
  destruct (existsb doff_unset (flat_map tf_truns ts)); [discriminate|]. intros [= <-]. reflexivity.
Qed.

Lemma roundtrip_encodes_guarded tracks pre mx post exs hs cs fr opt fe pos0 tx :
  NoDup tracks -> N.of_nat (length (adds hs)) < 4294967296 -> forallb is_full_to (adds hs) = true ->
  Forall (fun o => sized_f (op_full o)) (adds hs) ->
  run_hops (with_extras (create_multi tracks) pre mx post exs) hs = (cs, Some fr) ->
  enc_guard fr = true ->
  encode_frag opt fr = Ok fe ->
  moof_size fe + md_header_size (fr_mdat fe) + lenN (md_data (fr_mdat fr)) < 2147483648 ->
  pos0 + fr_pre fe < 4611686018427387904 ->
  consistent (added_fulls tracks (tx_track tx) (adds hs)) ->
  get_full_samples (decoded_view fe pos0 []) (Some tx) = Ok (added_fulls tracks (tx_track tx) (adds hs)).
Proof.
  intros Hnd Hlen Hfull Hsz Hrun Hgd Henc Hguard Hpos Hcons.
  set (fr0 := with_extras (create_multi tracks) pre mx post exs) in *.
  destruct (hops_simW hs fr0 fr0 cs fr (fsimW_refl fr0) Hrun) as (cs' & b & Hb & Hsim).
  pose proof (ghost_ginv tracks (adds hs) cs' fr0 b Hnd Hlen Hfull (create_multi_extras_ginv tracks pre mx post exs Hnd) Hb) as Hi.
  assert (Hs : sized (ghost tracks [] (adds hs))) by (apply ghost_sized; [constructor|exact Hsz]).
  pose proof Hi as (_ & _ & _ & _ & Hdat & _).
  pose proof Hsim as (_ & (Hmd & _) & _).
  pose proof (track_fulls_ghost tracks (tx_track tx) (adds hs) []) as HA. cbn [track_fulls app] in HA.
  rewrite (roundtrip_gen tracks _ b fr opt fe pos0 tx Hnd Hi Hs Hsim Hgd Henc).
  - rewrite HA. unfold consistent in Hcons. destruct (added_fulls tracks (tx_track tx) (adds hs)) as [|f l]; [reflexivity|].
    cbn [tfdt_of set_base td_base]. f_equal. exact (proj2 Hcons).
  - rewrite <- Hdat, <- Hmd. exact Hguard.
  - exact Hpos.
  - rewrite HA. unfold consistent in Hcons. destruct (added_fulls tracks (tx_track tx) (adds hs)) as [|f l]; [cbn; lia|].
    cbn [tfdt_of set_base td_base]. exact (proj1 Hcons).
Qed.

Lemma all4_selfres h r : all4 r = true -> trun_selfres h r = true.
Proof.
  unfold all4, trun_selfres. intros H. rewrite !andb_true_iff in H. destruct H as [[[H1 H2] H3] H4].
  rewrite H1, H2, H3, H4. reflexivity.
Qed.

Lemma eqd_all4 x y : eqd x y -> all_present y = true -> all4 x = true.
Proof.
  intros H Hy. destruct (eqd_rsim x y H) as [_ Ef].
  unfold all4, all_present, has_dur, has_size, has_sflags, has_cto in *. rewrite Ef. exact Hy.
Qed.

Lemma Forall2_eqd_all4 l1 l : Forall2 eqd l1 l -> Forall (fun r => all_present r = true) l -> forallb all4 l1 = true.
Proof.
  intros H. induction H as [|x y l1 l Hxy H IH]; intros Hp; [reflexivity|].
  inversion Hp as [|? ? Hy Hp']; subst. cbn [forallb]. rewrite (eqd_all4 x y Hxy Hy), (IH Hp'). reflexivity.
Qed.

Lemma fsimS_all4 ts1 ts :
  Forall2 (tsimQ eqd (@eq tfhd)) ts1 ts ->
  Forall (fun t => Forall (fun r => all_present r = true) (tf_truns t)) ts ->
  forallb (fun t' => forallb all4 (tf_truns t')) ts1 = true.
Proof.
  intros H. induction H as [|x y l1 l (_ & _ & Hxy) H IH]; intros Hp; [reflexivity|].
  inversion Hp as [|? ? Hy Hp']; subst. cbn [forallb]. rewrite (Forall2_eqd_all4 _ _ Hxy Hy), (IH Hp'). reflexivity.
Qed.

(* plain Encodes never invalidate the guard *)
Lemma fsimS_guard tracks g fr b : fsimS fr b -> ginv tracks g b -> enc_guard fr = true.
Proof.
  intros (HT & _) Hi. pose proof (ginv_present tracks g b Hi) as Hp.
  pose proof (fsimS_all4 _ _ HT Hp) as Hall. unfold enc_guard.
  destruct (fr_trafs fr) as [|t ts]; [reflexivity|]. cbn [forallb] in Hall. apply andb_true_iff in Hall.
  destruct Hall as [H1 H2]. rewrite H2, andb_true_r.
  destruct (tf_truns t) as [|r rs]; [reflexivity|]. cbn [forallb] in H1. apply andb_true_iff in H1.
  destruct H1 as [H1 H3]. rewrite H3, andb_true_r. apply all4_selfres. exact H1.
Qed.

Lemma roundtrip_encodes tracks pre mx post exs hs cs fr opt fe pos0 tx :
  NoDup tracks -> N.of_nat (length (adds hs)) < 4294967296 -> forallb is_full_to (adds hs) = true ->
  Forall (fun o => sized_f (op_full o)) (adds hs) ->
  plain hs = true ->
  run_hops (with_extras (create_multi tracks) pre mx post exs) hs = (cs, Some fr) ->
  encode_frag opt fr = Ok fe ->
  moof_size fe + md_header_size (fr_mdat fe) + lenN (md_data (fr_mdat fr)) < 2147483648 ->
  pos0 + fr_pre fe < 4611686018427387904 ->
  consistent (added_fulls tracks (tx_track tx) (adds hs)) ->
  get_full_samples (decoded_view fe pos0 []) (Some tx) = Ok (added_fulls tracks (tx_track tx) (adds hs)).
Proof.
  intros Hnd Hlen Hfull Hsz Hpl Hrun Henc Hguard Hpos Hcons.
  set (fr0 := with_extras (create_multi tracks) pre mx post exs) in *.
  destruct (hops_simS hs fr0 fr0 cs fr Hpl (fsimS_refl fr0) Hrun) as (cs' & b & Hb & Hsim).
  pose proof (ghost_ginv tracks (adds hs) cs' fr0 b Hnd Hlen Hfull (create_multi_extras_ginv tracks pre mx post exs Hnd) Hb) as Hi.
  apply (roundtrip_encodes_guarded tracks pre mx post exs hs cs fr opt fe pos0 tx); try assumption.
  exact (fsimS_guard tracks _ fr b Hsim Hi).
Qed.

(* trex == nil *)
Lemma roundtrip_encodes_nil T0 rest pre mx post exs hs cs fr opt fe pos0 :
  let tracks := T0 :: rest in
  NoDup tracks -> N.of_nat (length (adds hs)) < 4294967296 -> forallb is_full_to (adds hs) = true ->
  Forall (fun o => sized_f (op_full o)) (adds hs) ->
  plain hs = true ->
  run_hops (with_extras (create_multi tracks) pre mx post exs) hs = (cs, Some fr) ->
  encode_frag opt fr = Ok fe ->
  moof_size fe + md_header_size (fr_mdat fe) + lenN (md_data (fr_mdat fr)) < 2147483648 ->
  pos0 + fr_pre fe < 4611686018427387904 ->
  consistent (added_fulls tracks T0 (adds hs)) ->
  get_full_samples (decoded_view fe pos0 []) None = Ok (added_fulls tracks T0 (adds hs)).
Proof.
  intros tracks Hnd Hlen Hfull Hsz Hpl Hrun Henc Hguard Hpos Hcons.
  set (fr0 := with_extras (create_multi tracks) pre mx post exs) in *.
  destruct (hops_simS hs fr0 fr0 cs fr Hpl (fsimS_refl fr0) Hrun) as (cs' & b & Hb & Hsim).
  pose proof (ghost_ginv tracks (adds hs) cs' fr0 b Hnd Hlen Hfull (create_multi_extras_ginv tracks pre mx post exs Hnd) Hb) as Hi.
  assert (Hs : sized (ghost tracks [] (adds hs))) by (apply ghost_sized; [constructor|exact Hsz]).
  pose proof Hi as (_ & _ & _ & _ & Hdat & _).
  pose proof (fsimS_W _ _ Hsim) as HsimW. pose proof HsimW as (_ & (Hmd & _) & _).
  pose proof (track_fulls_ghost tracks T0 (adds hs) []) as HA. cbn [track_fulls app] in HA.
  rewrite (roundtrip_gen_nil tracks _ b fr opt fe pos0 T0 rest eq_refl Hnd Hi Hs HsimW (fsimS_guard tracks _ fr b Hsim Hi) Henc).
  - rewrite HA. unfold consistent in Hcons. destruct (added_fulls tracks T0 (adds hs)) as [|f l]; [reflexivity|].
    cbn [tfdt_of set_base td_base]. f_equal. exact (proj2 Hcons).
  - rewrite <- Hdat, <- Hmd. exact Hguard.
  - exact Hpos.
  - rewrite HA. unfold consistent in Hcons. destruct (added_fulls tracks T0 (adds hs)) as [|f l]; [cbn; lia|].
    cbn [tfdt_of set_base td_base]. exact (proj1 Hcons).
Qed.

(* single-track fragments: CreateFragment, AddFullSample / AddFullSampleToTrack interleaved with plain Encodes *)
Lemma roundtrip_encodes_single T hs cs fr opt fe pos0 tx pre mx post exs :
  N.of_nat (length (adds hs)) < 4294967296 -> forallb is_full (adds hs) = true ->
  Forall (fun o => sized_f (op_full o)) (adds hs) ->
  plain hs = true ->
  run_hops (with_extras (create_fragment T) pre mx post exs) hs = (cs, Some fr) ->
  encode_frag opt fr = Ok fe ->
  added1_fulls T (adds hs) <> [] ->
  moof_size fe + md_header_size (fr_mdat fe) + lenN (md_data (fr_mdat fr)) < 2147483648 ->
  pos0 + fr_pre fe < 4611686018427387904 ->
  consistent (added1_fulls T (adds hs)) ->
  get_full_samples (decoded_view fe pos0 []) (Some tx) =
    Ok (if tx_track tx =? T then added1_fulls T (adds hs) else []).
Proof.
  intros Hlen Hfull Hsz Hpl Hrun Henc Hne Hguard Hpos Hcons.
  set (fr0 := with_extras (create_fragment T) pre mx post exs) in *.
  destruct (hops_simS hs fr0 fr0 cs fr Hpl (fsimS_refl fr0) Hrun) as (cs' & b & Hb & Hsim).
  pose proof (history_sinv T (adds hs) [] _ cs' b ltac:(unfold lenN; cbn [length]; lia) Hfull
                (create_fragment_sinv T pre mx post exs) Hb) as Hsi. cbn [app] in Hsi.
  pose proof (sinv_ginv T _ b Hne Hsi) as Hi.
  assert (Hs : sized [(T, added1_fulls T (adds hs))]).
  { constructor; [|constructor]. cbn [snd]. unfold added1_fulls. apply Forall_forall. intros f Hf.
    apply in_map_iff in Hf. destruct Hf as (o & <- & Ho). apply filter_In in Ho.
    rewrite Forall_forall in Hsz. apply Hsz. exact (proj1 Ho). }
  assert (Hdat : md_data (fr_mdat b) = all_data [(T, added1_fulls T (adds hs))]).
  { destruct Hi as (_ & _ & _ & _ & Hd & _). exact Hd. }
  pose proof (fsimS_W _ _ Hsim) as HsimW. pose proof HsimW as (_ & (Hmd & _) & _).
  rewrite (roundtrip_gen [T] _ b fr opt fe pos0 tx (ltac:(repeat constructor; intros []) : NoDup [T]) Hi Hs HsimW
             (fsimS_guard [T] _ fr b Hsim Hi) Henc).
  - cbn [track_fulls app]. rewrite (N.eqb_sym T). destruct (tx_track tx =? T); [|reflexivity].
    unfold consistent in Hcons. destruct (added1_fulls T (adds hs)) as [|f l]; [congruence|].
    cbn [tfdt_of set_base td_base]. f_equal. exact (proj2 Hcons).
  - rewrite <- Hdat, <- Hmd. exact Hguard.
  - exact Hpos.
  - cbn [track_fulls app]. destruct (T =? tx_track tx); [|cbn; lia].
    unfold consistent in Hcons. destruct (added1_fulls T (adds hs)) as [|f l]; [congruence|].
    cbn [tfdt_of set_base td_base]. exact (proj1 Hcons).
Qed.

(* ------------------------------------------------------------------ the refutation: finding C05-F10 *)
(* CreateMultiTrackFragment(1,[1]); two samples of duration 10; Encode with OptimizeTrun (the trun loses its
   duration field, tfhd default duration 10); a third sample of duration 20; Encode: the guard is false and the
   third sample reads back with duration 10 *)
Definition f10_s (dur : N) : sample := mkSample 16842752 dur 1 0.
Definition f10_hs : list hop :=
  [HAdd (OFullTo 1 (f10_s 10) 0 [1]); HAdd (OFullTo 1 (f10_s 10) 10 [2]); HEnc true; HAdd (OFullTo 1 (f10_s 20) 20 [3])].

Lemma encodes_opt_refuted :
  exists cs fr fe l,
    plain f10_hs = false /\
    run_hops (with_extras (create_multi [1]) 0 0 0 []) f10_hs = (cs, Some fr) /\
    enc_guard fr = false /\
    encode_frag false fr = Ok fe /\
    get_full_samples (decoded_view fe 0 []) (Some (mkTrex 1 0 0 0)) = Ok l /\
    l = [mkFull (f10_s 10) 0 [1]; mkFull (f10_s 10) 10 [2]; mkFull (f10_s 10) 20 [3]] /\
    l <> added_fulls [1] 1 (adds f10_hs).
Proof.
  eexists; eexists; eexists; eexists. split; [reflexivity|]. split; [vm_compute; reflexivity|].
  split; [vm_compute; reflexivity|]. split; [vm_compute; reflexivity|]. split; [vm_compute; reflexivity|].
  split; [reflexivity|]. vm_compute. discriminate.
Qed.

(* ------------------------------------------------------------------ the base of the data offsets IS the moof start *)
(* GetFullSamples takes moof.StartPos as the base of the trun data offsets (df_moof_start).  With any other base
   position (for instance Fragment.StartPos, the position of an emsg that precedes the moof in a decoded fragment)
   the samples do not read back: a fragment with a 60-byte box in front of its moof, read with the fragment start *)
Lemma base_is_moof_start :
  (forall d, with_base d (df_moof_start d) = d) /\
  (forall fe pos0 lz, df_moof_start (decoded_view fe pos0 lz) = pos0 + fr_pre fe) /\
  exists cs fr fe,
    let ops := [OFullTo 1 (f10_s 10) 0 [7]] in
    run_ops (with_extras (create_multi [1]) 60 0 0 []) ops = (cs, Some fr) /\
    encode_frag false fr = Ok fe /\ fr_pre fe = 60 /\
    get_full_samples (decoded_view fe 1000 []) (Some (mkTrex 1 0 0 0)) = Ok (added_fulls [1] 1 ops) /\
    get_full_samples (with_base (decoded_view fe 1000 []) 1000) (Some (mkTrex 1 0 0 0)) <> Ok (added_fulls [1] 1 ops).
Proof.
  split; [intros []; reflexivity|]. split; [reflexivity|].
  eexists; eexists; eexists. cbn zeta. split; [vm_compute; reflexivity|]. split; [vm_compute; reflexivity|].
  split; [reflexivity|]. split; [vm_compute; reflexivity|]. vm_compute. discriminate.
Qed.
