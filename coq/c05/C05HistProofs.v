(* C05HistProofs.v — invariants of op histories on created fragments (fold over the op list). *)
From V.lib Require Import Base.
From V.c05 Require Import C05Model C05FragModel.

(* the trun CreateTrun(k) has become after the samples ss were appended to it *)
Definition canon (k : N) (ss : list sample) : trun := mkTrun 1 3841 0 0 ss k.

Lemma canon_create k : create_trun k = canon k [].
Proof. reflexivity. Qed.

Lemma tr_add_canon k l ss : tr_add (canon k l) ss = canon k (l ++ ss).
Proof. reflexivity. Qed.

Definition op_samples (o : op) : list sample :=
  match o with
  | OFull s _ _ | OFullTo _ s _ _ | OMetaTo _ s _ | OMeta s _ => [s]
  | OMetas ss _ | OInterval _ ss _ => ss
  end.
Definition op_dts (o : op) : N :=
  match o with
  | OFull _ d _ | OFullTo _ _ d _ | OMetaTo _ _ d | OMeta _ d | OMetas _ d | OInterval d _ _ => d
  end.
Definition op_data (o : op) : list N :=
  match o with
  | OFull _ _ d | OFullTo _ _ _ d | OInterval _ _ d => d
  | _ => []
  end.
(* the track an operation addresses; None = the fragment's first (and only) track *)
Definition op_track (o : op) : option N :=
  match o with
  | OFullTo t _ _ _ | OMetaTo t _ _ => Some t
  | _ => None
  end.

(* ================================================================== single-track fragments *)
(* CreateFragment(seq, T) followed by ANY of the six operations *)
Definition hits (T : N) (o : op) : bool :=
  match op_track o with Some t => t =? T | None => true end.

Definition added1 (T : N) (ops : list op) : list sample := flat_map op_samples (filter (hits T) ops).

Definition single_inv (T : N) (l : list sample) (fr : frag) : Prop :=
  exists dt ex, fr_trafs fr = [mkTraf (create_tfhd T) dt [canon 0 l] ex] /\ fr_next fr = 1.

Lemma create_fragment_single T : single_inv T [] (create_fragment T).
Proof. exists (mkTfdt 0 0), 0. split; reflexivity. Qed.

Lemma add_to_traf_single T dt l ex s dts :
  exists dt', add_to_traf (mkTraf (create_tfhd T) dt [canon 0 l] ex) 1 s dts
              = (mkTraf (create_tfhd T) dt' [canon 0 (l ++ [s])] ex, 1).
Proof.
  unfold add_to_traf. cbn [tf_truns last removelast tr_won canon tf_hd tf_extra app].
  change (u32 (1 + 4294967295)) with 0. cbn [N.eqb negb].
  eexists. reflexivity.
Qed.

Lemma step_single T l fr o fr' :
  single_inv T l fr -> step fr o = Ok fr' ->
  hits T o = true /\ single_inv T (l ++ op_samples o) fr'.
Proof.
  intros (dt & ex & Ht & Hn) H. destruct o as [s d data|t s d data|t s d|s d|ss d|d ss data];
    cbn [step hits op_track op_samples] in *.
  - unfold add_first in H. rewrite Ht in H. cbn [tf_truns rbind] in H. injection H as <-.
    split; [reflexivity|]. eexists; eexists. split; [reflexivity|exact Hn].
  - unfold add_sample_to_track in H. rewrite Ht, Hn in H. cbn [add_to_track_trafs tf_hd tf_track create_tfhd] in H.
    destruct (T =? t) eqn:E.
    + destruct (add_to_traf_single T dt l ex s d) as [dt' Ha]. rewrite Ha in H. cbn [rbind] in H.
      injection H as <-. split; [rewrite N.eqb_sym; exact E|].
      eexists; eexists. split; reflexivity.
    + discriminate.
  - unfold add_sample_to_track in H. rewrite Ht, Hn in H. cbn [add_to_track_trafs tf_hd tf_track create_tfhd] in H.
    destruct (T =? t) eqn:E.
    + destruct (add_to_traf_single T dt l ex s d) as [dt' Ha]. rewrite Ha in H.
      injection H as <-. split; [rewrite N.eqb_sym; exact E|].
      eexists; eexists. split; reflexivity.
    + discriminate.
  - unfold add_first in H. rewrite Ht in H. cbn [tf_truns rbind] in H. injection H as <-.
    split; [reflexivity|]. eexists; eexists. split; [reflexivity|exact Hn].
  - unfold add_first in H. rewrite Ht in H. cbn [tf_truns rbind] in H. injection H as <-.
    split; [reflexivity|]. eexists; eexists. split; [reflexivity|exact Hn].
  - rewrite Ht in H. cbn [tf_truns] in H. destruct (md_add_part (fr_mdat fr) data); try discriminate.
    cbn [rbind] in H. injection H as <-.
    split; [reflexivity|]. eexists; eexists. split; [reflexivity|exact Hn].
Qed.

Lemma step_single_err T l fr o :
  single_inv T l fr -> step fr o = Err -> hits T o = false.
Proof.
  intros (dt & ex & Ht & Hn) H. destruct o as [s d data|t s d data|t s d|s d|ss d|d ss data];
    cbn [step hits op_track] in *.
  - unfold add_first in H. rewrite Ht in H. discriminate.
  - unfold add_sample_to_track in H. rewrite Ht, Hn in H. cbn [add_to_track_trafs tf_hd tf_track create_tfhd] in H.
    destruct (T =? t) eqn:E; [|rewrite N.eqb_sym; exact E].
    destruct (add_to_traf_single T dt l ex s d) as [dt' Ha]. rewrite Ha in H. discriminate.
  - unfold add_sample_to_track in H. rewrite Ht, Hn in H. cbn [add_to_track_trafs tf_hd tf_track create_tfhd] in H.
    destruct (T =? t) eqn:E; [|rewrite N.eqb_sym; exact E].
    destruct (add_to_traf_single T dt l ex s d) as [dt' Ha]. rewrite Ha in H. discriminate.
  - unfold add_first in H. rewrite Ht in H. discriminate.
  - unfold add_first in H. rewrite Ht in H. discriminate.
  - rewrite Ht in H. cbn [tf_truns] in H. unfold md_add_part in H. destruct (md_data (fr_mdat fr)); discriminate.
Qed.

Lemma history_single T ops : forall l fr cs fr',
  single_inv T l fr -> run_ops fr ops = (cs, Some fr') ->
  single_inv T (l ++ added1 T ops) fr'.
Proof.
  induction ops as [|o ops IH]; intros l fr cs fr' Hi H; cbn [run_ops] in H.
  - injection H as _ <-. unfold added1. cbn. rewrite app_nil_r. exact Hi.
  - destruct (step fr o) as [fr1| | |] eqn:E; try discriminate.
    + destruct (run_ops fr1 ops) as [cs1 r1] eqn:E1. injection H as _ ->.
      destruct (step_single T l fr o fr1 Hi E) as [Hh Hi1].
      specialize (IH _ _ _ _ Hi1 E1).
      unfold added1 in *. cbn [filter]. rewrite Hh. cbn [flat_map]. rewrite app_assoc. exact IH.
    + destruct (run_ops fr ops) as [cs1 r1] eqn:E1. injection H as _ ->.
      pose proof (step_single_err T l fr o Hi E) as Hh.
      specialize (IH _ _ _ _ Hi E1).
      unfold added1 in *. cbn [filter]. rewrite Hh. exact IH.
Qed.

(* ================================================================== multi-track fragments *)
(* CreateMultiTrackFragment(seq, tracks) followed by AddFullSampleToTrack / AddSampleToTrack.
   Ghost state: the runs in REVERSE write order (latest first), each (track, samples). *)
Definition runs := list (N * list sample).

Definition runs_add (rr : runs) (T : N) (s : sample) : runs :=
  match rr with
  | (T', l) :: rest => if T' =? T then (T, l ++ [s]) :: rest else (T, [s]) :: rr
  | [] => [(T, [s])]
  end.

(* the truns of track T: one per run of T, write-order number = index of the run *)
Fixpoint mk_truns (T : N) (rr : runs) : list trun :=
  match rr with
  | [] => []
  | (T', ss) :: rest => mk_truns T rest ++ (if T' =? T then [canon (lenN rest) ss] else [])
  end.

Definition multi_inv (rr : runs) (fr : frag) : Prop :=
  fr_next fr = lenN rr /\
  NoDup (map (fun t => tf_track (tf_hd t)) (fr_trafs fr)) /\
  Forall (fun t => tf_truns t = mk_truns (tf_track (tf_hd t)) rr) (fr_trafs fr).

Lemma create_multi_inv tracks : NoDup tracks -> multi_inv [] (create_multi tracks).
Proof.
  intros Hd. split; [reflexivity|]. split.
  - cbn [create_multi fr_trafs]. rewrite map_map. cbn [tf_hd create_tfhd tf_track]. rewrite map_id. exact Hd.
  - cbn [create_multi fr_trafs]. apply Forall_forall. intros t Ht. apply in_map_iff in Ht.
    destruct Ht as (x & <- & _). reflexivity.
Qed.

Lemma mk_truns_won_lt T rr : Forall (fun r => tr_won r < lenN rr) (mk_truns T rr).
Proof.
  induction rr as [|[T' ss] rest IH]; cbn [mk_truns]; [constructor|].
  apply Forall_app. split.
  - eapply Forall_impl; [|exact IH]. cbn beta. intros r Hr. rewrite lenN_cons. lia.
  - destruct (T' =? T); [|constructor]. constructor; [|constructor]. cbn [canon tr_won]. rewrite lenN_cons. lia.
Qed.

Lemma last_in {A} (l : list A) d : l <> [] -> In (last l d) l.
Proof.
  induction l as [|a [|b t] IH]; intros H; [congruence|left; reflexivity|].
  right. apply IH. discriminate.
Qed.

Lemma last_won_lt T rr d : mk_truns T rr <> [] -> tr_won (last (mk_truns T rr) d) < lenN rr.
Proof.
  intros Hne. pose proof (mk_truns_won_lt T rr) as F. rewrite Forall_forall in F. apply F.
  apply last_in. exact Hne.
Qed.

(* other tracks are not affected by adding to T *)
Lemma mk_truns_add_other T T' rr s : (T' =? T) = false -> mk_truns T' (runs_add rr T s) = mk_truns T' rr.
Proof.
  intros Hne. unfold runs_add. destruct rr as [|[T0 l] rest].
  - cbn [mk_truns]. rewrite N.eqb_sym, Hne. reflexivity.
  - destruct (T0 =? T) eqn:E.
    + apply N.eqb_eq in E. subst T0. cbn [mk_truns]. rewrite N.eqb_sym, Hne. reflexivity.
    + cbn [mk_truns]. rewrite (N.eqb_sym T T'), Hne. rewrite app_nil_r. reflexivity.
Qed.

Lemma u32_small x : x < 4294967296 -> u32 x = x.
Proof. intros H. unfold u32. apply N.mod_small. exact H. Qed.

(* AddSampleToTrack on the traf of track T mirrors runs_add *)
Lemma add_to_traf_multi h dt ex rr s dts T :
  lenN rr + 1 < 4294967296 ->
  exists dt', add_to_traf (mkTraf h dt (mk_truns T rr) ex) (lenN rr) s dts
              = (mkTraf h dt' (mk_truns T (runs_add rr T s)) ex, lenN (runs_add rr T s)).
Proof.
  intros Hb. unfold add_to_traf. cbn [tf_truns tf_hd tf_extra tf_dt].
  destruct rr as [|[T0 l] rest].
  - (* no run at all: the traf has no trun *)
    cbn [mk_truns runs_add]. rewrite (N.eqb_refl T). unfold lenN. cbn [length app].
    change (N.of_nat 0) with 0. change (N.of_nat 1) with 1. change (u32 (0 + 1)) with 1.
    cbn [last create_trun tr_won]. change (u32 (1 + 4294967295)) with 0. cbn [N.eqb negb removelast app].
    eexists. reflexivity.
  - destruct (T0 =? T) eqn:E.
    + (* the latest run belongs to T: its trun is the last one and has number next-1 *)
      apply N.eqb_eq in E. subst T0. cbn [mk_truns runs_add]. rewrite !(N.eqb_refl T). cbn [mk_truns]. rewrite ?(N.eqb_refl T).
      destruct (mk_truns T rest ++ [canon (lenN rest) l]) as [|a m] eqn:Ea.
      { destruct (mk_truns T rest); discriminate. }
      rewrite <- Ea. rewrite last_last, removelast_last. cbn [canon tr_won].
      rewrite lenN_cons in *. replace (u32 (1 + lenN rest + 4294967295)) with (lenN rest)
        by (unfold u32; lia).
      rewrite N.eqb_refl. cbn [negb]. rewrite tr_add_canon. rewrite ?lenN_cons.
      destruct (mk_truns T rest ++ [canon (lenN rest) l]) as [|a' [|b' m']] eqn:Eb; eexists; reflexivity.
    + (* the latest run belongs to another track *)
      cbn [runs_add]. rewrite E. cbn [mk_truns]. rewrite E, (N.eqb_refl T). rewrite app_nil_r.
      destruct (mk_truns T rest) as [|a m] eqn:Ea.
      * (* T has no trun yet *)
        rewrite !lenN_cons in *. rewrite (u32_small (1 + lenN rest + 1)) by lia.
        cbn [last create_trun tr_won app].
        replace (u32 (1 + lenN rest + 1 + 4294967295)) with (1 + lenN rest) by (unfold u32; lia).
        rewrite N.eqb_refl. cbn [negb removelast app]. rewrite canon_create, tr_add_canon. cbn [app].
        rewrite ?lenN_cons. replace (1 + (1 + lenN rest)) with (1 + lenN rest + 1) by lia.
        eexists. reflexivity.
      * rewrite <- Ea.
        assert (Hlt : tr_won (last (mk_truns T rest) (create_trun 0)) < lenN rest).
        { apply last_won_lt. rewrite Ea. discriminate. }
        rewrite !lenN_cons in *.
        replace (u32 (1 + lenN rest + 4294967295)) with (lenN rest) by (unfold u32; lia).
        destruct (tr_won (last (mk_truns T rest) (create_trun 0)) =? lenN rest) eqn:Ew;
          [apply N.eqb_eq in Ew; lia|]. cbn [negb].
        rewrite (u32_small (1 + lenN rest + 1)) by lia.
        rewrite canon_create, tr_add_canon. cbn [app].
        replace (1 + (1 + lenN rest)) with (1 + lenN rest + 1) by lia.
        rewrite Ea. destruct m; eexists; reflexivity.
Qed.

Lemma add_to_track_trafs_multi rr s dts T : forall ts,
  lenN rr + 1 < 4294967296 ->
  NoDup (map (fun t => tf_track (tf_hd t)) ts) ->
  Forall (fun t => tf_truns t = mk_truns (tf_track (tf_hd t)) rr) ts ->
  match add_to_track_trafs ts T (lenN rr) s dts with
  | None => ~ In T (map (fun t => tf_track (tf_hd t)) ts)
  | Some (ts', n') =>
      In T (map (fun t => tf_track (tf_hd t)) ts) /\
      n' = lenN (runs_add rr T s) /\
      map (fun t => tf_track (tf_hd t)) ts' = map (fun t => tf_track (tf_hd t)) ts /\
      Forall (fun t => tf_truns t = mk_truns (tf_track (tf_hd t)) (runs_add rr T s)) ts'
  end.
Proof.
  induction ts as [|t ts IH]; intros Hb Hd Hf; cbn [add_to_track_trafs map].
  - intros [].
  - inversion Hd as [|? ? Hnin Hd']; subst. inversion Hf as [|? ? Ht Hf']; subst.
    destruct (tf_track (tf_hd t) =? T) eqn:E.
    + apply N.eqb_eq in E.
      destruct t as [h dt trs ex]. cbn [tf_hd tf_truns] in *. subst T. rewrite Ht.
      destruct (add_to_traf_multi h dt ex rr s dts (tf_track h) Hb) as [dt' Ha]. rewrite Ha.
      split; [left; reflexivity|]. split; [reflexivity|]. split; [reflexivity|].
      constructor; [reflexivity|].
      rewrite Forall_forall in *. intros t' Ht'. rewrite (Hf' t' Ht'). symmetry. apply mk_truns_add_other.
      destruct (tf_track (tf_hd t') =? tf_track h) eqn:E'; [|reflexivity].
      apply N.eqb_eq in E'. exfalso. apply Hnin. rewrite <- E'. apply in_map_iff. exists t'. split; [reflexivity|exact Ht'].
    + specialize (IH Hb Hd' Hf'). destruct (add_to_track_trafs ts T (lenN rr) s dts) as [[ts' n']|].
      * destruct IH as (Hin & Hn & Hm & Hf2). split; [right; exact Hin|]. split; [exact Hn|]. split.
        { cbn [map]. rewrite Hm. reflexivity. }
        constructor; [|exact Hf2]. rewrite Ht. symmetry. apply mk_truns_add_other. exact E.
      * intros [Heq|Hin]; [rewrite Heq in E; rewrite N.eqb_refl in E; discriminate|exact (IH Hin)].
Qed.

Definition to_track_op (o : op) : bool :=
  match o with OFullTo _ _ _ _ | OMetaTo _ _ _ => true | _ => false end.

Definition op_first_sample (o : op) : sample :=
  match o with
  | OFull s _ _ | OFullTo _ s _ _ | OMetaTo _ s _ | OMeta s _ => s
  | _ => mkSample 0 0 0 0
  end.

Lemma step_multi rr fr o :
  lenN rr + 1 < 4294967296 -> to_track_op o = true -> multi_inv rr fr ->
  match step fr o with
  | Ok fr' => exists T, op_track o = Some T /\ In T (map (fun t => tf_track (tf_hd t)) (fr_trafs fr)) /\
                        multi_inv (runs_add rr T (op_first_sample o)) fr' /\
                        map (fun t => tf_track (tf_hd t)) (fr_trafs fr') = map (fun t => tf_track (tf_hd t)) (fr_trafs fr)
  | Err => exists T, op_track o = Some T /\ ~ In T (map (fun t => tf_track (tf_hd t)) (fr_trafs fr))
  | _ => False
  end.
Proof.
  intros Hb Ho (Hn & Hd & Hf).
  destruct o as [s d data|t s d data|t s d|s d|ss d|d ss data]; try discriminate; cbn [step op_track op_first_sample].
  - unfold add_sample_to_track. rewrite Hn.
    pose proof (add_to_track_trafs_multi rr s d t (fr_trafs fr) Hb Hd Hf) as H.
    destruct (add_to_track_trafs (fr_trafs fr) t (lenN rr) s d) as [[ts' n']|]; cbn [rbind].
    + destruct H as (Hin & Hn' & Hm & Hf'). exists t. split; [reflexivity|]. split; [exact Hin|]. split.
      * split; [exact Hn'|]. split; [cbn [fr_with fr_trafs]; rewrite Hm; exact Hd|exact Hf'].
      * cbn [fr_with fr_trafs]. exact Hm.
    + exists t. split; [reflexivity|exact H].
  - unfold add_sample_to_track. rewrite Hn.
    pose proof (add_to_track_trafs_multi rr s d t (fr_trafs fr) Hb Hd Hf) as H.
    destruct (add_to_track_trafs (fr_trafs fr) t (lenN rr) s d) as [[ts' n']|].
    + destruct H as (Hin & Hn' & Hm & Hf'). exists t. split; [reflexivity|]. split; [exact Hin|]. split.
      * split; [exact Hn'|]. split; [cbn [fr_with fr_trafs]; rewrite Hm; exact Hd|exact Hf'].
      * cbn [fr_with fr_trafs]. exact Hm.
    + exists t. split; [reflexivity|exact H].
Qed.

(* the samples of track T held by the runs, oldest first *)
Fixpoint track_samples (T : N) (rr : runs) : list sample :=
  match rr with
  | [] => []
  | (T', ss) :: rest => track_samples T rest ++ (if T' =? T then ss else [])
  end.

Lemma mk_truns_samples T rr : flat_map tr_samples (mk_truns T rr) = track_samples T rr.
Proof.
  induction rr as [|[T' ss] rest IH]; cbn [mk_truns track_samples flat_map]; [reflexivity|].
  rewrite flat_map_app, IH. destruct (T' =? T); cbn [flat_map canon tr_samples]; rewrite ?app_nil_r; reflexivity.
Qed.

Lemma track_samples_add T T' rr s :
  track_samples T' (runs_add rr T s) = track_samples T' rr ++ (if T =? T' then [s] else []).
Proof.
  unfold runs_add. destruct rr as [|[T0 l] rest]; cbn [track_samples app]; [reflexivity|].
  destruct (T0 =? T) eqn:E.
  - apply N.eqb_eq in E. subst T0. cbn [track_samples]. destruct (T =? T'); rewrite ?app_nil_r, ?app_assoc; reflexivity.
  - cbn [track_samples]. reflexivity.
Qed.

Lemma lenN_runs_add rr T s : lenN (runs_add rr T s) <= lenN rr + 1.
Proof.
  unfold runs_add. destruct rr as [|[T0 l] rest]; [cbn; lia|].
  destruct (T0 =? T); rewrite !lenN_cons; lia.
Qed.

(* samples added to track T' by the history, given the fragment's track ids *)
Definition added_multi (tracks : list N) (T' : N) (ops : list op) : list sample :=
  flat_map (fun o => match op_track o with
                     | Some T => if (T =? T') && existsb (N.eqb T) tracks then [op_first_sample o] else []
                     | None => []
                     end) ops.

Lemma existsb_eqb_in T l : existsb (N.eqb T) l = true <-> In T l.
Proof.
  rewrite existsb_exists. split.
  - intros (x & Hx & E). apply N.eqb_eq in E. subst. exact Hx.
  - intros H. exists T. split; [exact H|apply N.eqb_refl].
Qed.

Lemma history_multi ops : forall rr fr cs fr',
  lenN rr + N.of_nat (length ops) < 4294967296 ->
  forallb to_track_op ops = true ->
  multi_inv rr fr -> run_ops fr ops = (cs, Some fr') ->
  exists rr', multi_inv rr' fr' /\
    map (fun t => tf_track (tf_hd t)) (fr_trafs fr') = map (fun t => tf_track (tf_hd t)) (fr_trafs fr) /\
    forall T', track_samples T' rr' =
               track_samples T' rr ++ added_multi (map (fun t => tf_track (tf_hd t)) (fr_trafs fr)) T' ops.
Proof.
  induction ops as [|o ops IH]; intros rr fr cs fr' Hb Ho Hi H; cbn [run_ops] in H.
  - injection H as _ <-. exists rr. split; [exact Hi|]. split; [reflexivity|]. intros T'. cbn. rewrite app_nil_r. reflexivity.
  - cbn [forallb] in Ho. apply andb_true_iff in Ho. destruct Ho as [Ho1 Ho2]. cbn [length] in Hb.
    assert (Hb1 : lenN rr + 1 < 4294967296) by lia.
    pose proof (step_multi rr fr o Hb1 Ho1 Hi) as S.
    destruct (step fr o) as [fr1| | |] eqn:E; try contradiction.
    + destruct (run_ops fr1 ops) as [cs1 r1] eqn:E1. injection H as _ ->.
      destruct S as (T & HT & Hin & Hi1 & Hm1).
      assert (Hb2 : lenN (runs_add rr T (op_first_sample o)) + N.of_nat (length ops) < 4294967296).
      { pose proof (lenN_runs_add rr T (op_first_sample o)). lia. }
      destruct (IH _ _ _ _ Hb2 Ho2 Hi1 E1) as (rr' & Hi' & Hm' & Hs').
      exists rr'. split; [exact Hi'|]. split; [rewrite Hm'; exact Hm1|].
      intros T'. rewrite Hs', track_samples_add, Hm1. unfold added_multi. cbn [flat_map]. rewrite HT.
      apply existsb_eqb_in in Hin. rewrite Hin, andb_true_r. rewrite app_assoc. reflexivity.
    + destruct (run_ops fr ops) as [cs1 r1] eqn:E1. injection H as _ ->.
      destruct S as (T & HT & Hnin).
      assert (Hb2 : lenN rr + N.of_nat (length ops) < 4294967296) by lia.
      destruct (IH _ _ _ _ Hb2 Ho2 Hi E1) as (rr' & Hi' & Hm' & Hs').
      exists rr'. split; [exact Hi'|]. split; [exact Hm'|].
      intros T'. rewrite Hs'. unfold added_multi. cbn [flat_map]. rewrite HT.
      destruct (existsb (N.eqb T) _) eqn:Ex; [apply existsb_eqb_in in Ex; contradiction|].
      rewrite andb_false_r. reflexivity.
Qed.

(* ================================================================== wrappers used by C05Theorems *)
Definition track_of (t : traf) : N := tf_track (tf_hd t).

Lemma history_inv_single T ops cs fr :
  run_ops (create_fragment T) ops = (cs, Some fr) ->
  fr_next fr = 1 /\
  exists dt ex, fr_trafs fr = [mkTraf (create_tfhd T) dt [canon 0 (added1 T ops)] ex].
Proof.
  intros H. pose proof (history_single T ops [] _ _ _ (create_fragment_single T) H) as (dt & ex & Ht & Hn).
  cbn [app] in Ht. split; [exact Hn|]. exists dt, ex. exact Ht.
Qed.

Lemma track_samples_nil T : track_samples T [] = [].
Proof. reflexivity. Qed.

Lemma history_inv_multi tracks ops cs fr :
  NoDup tracks -> N.of_nat (length ops) < 4294967296 -> forallb to_track_op ops = true ->
  run_ops (create_multi tracks) ops = (cs, Some fr) ->
  exists rr : runs,
    fr_next fr = lenN rr /\
    map track_of (fr_trafs fr) = tracks /\
    (forall t, In t (fr_trafs fr) ->
       tf_truns t = mk_truns (track_of t) rr /\
       flat_map tr_samples (tf_truns t) = added_multi tracks (track_of t) ops).
Proof.
  intros Hd Hb Ho H.
  assert (Hm0 : map track_of (fr_trafs (create_multi tracks)) = tracks).
  { cbn [create_multi fr_trafs]. rewrite map_map. unfold track_of. cbn [tf_hd create_tfhd tf_track]. apply map_id. }
  destruct (history_multi ops [] (create_multi tracks) cs fr) as (rr & (Hn & Hd' & Hf) & Hm & Hs); try assumption.
  { apply create_multi_inv. exact Hd. }
  exists rr. split; [exact Hn|]. split; [unfold track_of; rewrite Hm; exact Hm0|].
  intros t Ht. rewrite Forall_forall in Hf. specialize (Hf t Ht). split; [exact Hf|].
  rewrite Hf, mk_truns_samples, Hs. cbn [track_samples app]. unfold track_of in Hm0. rewrite Hm0. reflexivity.
Qed.

(* ------------------------------------------------------------------ mdat bytes = added data in op order *)
Definition is_full (o : op) : bool := match o with OFull _ _ _ | OFullTo _ _ _ _ => true | _ => false end.

(* the operations of a history that returned without error *)
Fixpoint accepted (cs : list oclass) (ops : list op) : list op :=
  match cs, ops with
  | COk :: cs', o :: ops' => o :: accepted cs' ops'
  | _ :: cs', _ :: ops' => accepted cs' ops'
  | _, _ => []
  end.

Lemma step_full_mdat fr o fr' :
  is_full o = true -> step fr o = Ok fr' ->
  md_data (fr_mdat fr') = md_data (fr_mdat fr) ++ op_data o /\
  md_parts (fr_mdat fr') = md_parts (fr_mdat fr) /\
  (md_lazy (fr_mdat fr) = 0 -> md_lazy (fr_mdat fr') = 0).
Proof.
  intros Hf H. destruct o as [s d data|t s d data|t s d|s d|ss d|d ss data]; try discriminate; cbn [step op_data] in H |- *.
  - destruct (add_first fr [s] d); try discriminate. cbn [rbind] in H. injection H as <-.
    cbn [fr_with fr_mdat md_add_data md_data md_parts md_lazy]. repeat split; auto.
  - unfold add_sample_to_track in H.
    destruct (add_to_track_trafs (fr_trafs fr) t (fr_next fr) s d) as [[ts n]|]; try discriminate.
    cbn [rbind] in H. injection H as <-.
    cbn [fr_with fr_mdat md_add_data md_set_lazy0 md_add_lazy md_data md_parts md_lazy]. repeat split; auto.
Qed.

Lemma history_full_mdat ops : forall fr cs fr',
  forallb is_full ops = true -> run_ops fr ops = (cs, Some fr') ->
  md_data (fr_mdat fr') = md_data (fr_mdat fr) ++ flat_map op_data (accepted cs ops) /\
  md_parts (fr_mdat fr') = md_parts (fr_mdat fr) /\
  (md_lazy (fr_mdat fr) = 0 -> md_lazy (fr_mdat fr') = 0).
Proof.
  induction ops as [|o ops IH]; intros fr cs fr' Hf H; cbn [run_ops] in H.
  - injection H as <- <-. cbn. rewrite app_nil_r. auto.
  - cbn [forallb] in Hf. apply andb_true_iff in Hf. destruct Hf as [Hf1 Hf2].
    destruct (step fr o) as [fr1| | |] eqn:E; try discriminate.
    + destruct (run_ops fr1 ops) as [cs1 r1] eqn:E1. injection H as <- ->.
      destruct (step_full_mdat fr o fr1 Hf1 E) as (D1 & P1 & L1).
      destruct (IH _ _ _ Hf2 E1) as (D2 & P2 & L2).
      cbn [accepted flat_map]. rewrite D2, D1, P2, P1, app_assoc. auto.
    + destruct (run_ops fr ops) as [cs1 r1] eqn:E1. injection H as <- ->.
      destruct (IH _ _ _ Hf2 E1) as (D2 & P2 & L2). cbn [accepted]. auto.
Qed.

(* ------------------------------------------------------------------ data offset of a single-run fragment *)
Lemma i32_small x : x < 2147483648 -> i32 x = Z.of_N x.
Proof.
  intros H. unfold i32. rewrite N.mod_small by lia.
  destruct (x <? 2147483648) eqn:E; [reflexivity|]. apply N.ltb_ge in E. lia.
Qed.

Lemma set_offsets_single fr h dt l ex :
  fr_trafs fr = [mkTraf h dt [canon 0 l] ex] ->
  let m := md_size_touch (fr_mdat fr) in
  set_offsets fr =
    fr_with fr [mkTraf h dt [tr_with_doff (canon 0 l) (i32 (moof_size fr + md_header_size m))] ex] m (fr_next fr).
Proof.
  intros Ht. unfold set_offsets. rewrite Ht.
  cbn [all_truns flat_map tf_truns app existsb canon tr_won N.eqb negb orb andb lenN length].
  change (1 <? N.of_nat 1) with false. cbn [andb sort_won fold_right insert_won assign_offsets tr_won].
  cbn [map tf_truns lookup_off tf_hd tf_dt tf_extra tr_won canon N.eqb]. reflexivity.
Qed.

Lemma offsets_single T ops cs fr :
  run_ops (create_fragment T) ops = (cs, Some fr) ->
  let m := md_size_touch (fr_mdat fr) in
  moof_size fr + md_header_size m < 2147483648 ->
  exists dt ex,
    set_offsets fr =
      fr_with fr [mkTraf (create_tfhd T) dt
                    [tr_with_doff (canon 0 (added1 T ops)) (Z.of_N (moof_size fr + md_header_size m))] ex]
              m (fr_next fr).
Proof.
  intros H m Hg. destruct (history_inv_single T ops cs fr H) as (_ & dt & ex & Ht).
  exists dt, ex. rewrite (set_offsets_single fr _ _ _ _ Ht). fold m. rewrite i32_small by exact Hg. reflexivity.
Qed.
