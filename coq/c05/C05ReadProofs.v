(* C05ReadProofs.v — the decode side: TrunBox.GetFullSamples slices the samples' data out of mdat, and
   Fragment.GetFullSamples walks the truns of a track accumulating offsets and decode times. *)
From V.lib Require Import Base.
From V.c05 Require Import C05Model C05FragModel C05HistProofs C05OffProofs C05GhostProofs.

Definition sized_f (f : fullsample) : Prop := s_size (fs_s f) = lenN (fs_data f).

(* decode times as GetFullSamples computes them: start + accumulated durations (uint64) *)
Fixpoint retime (t : N) (l : list fullsample) : list fullsample :=
  match l with
  | [] => []
  | f :: r => mkFull (fs_s f) t (fs_data f) :: retime (u64 (t + s_dur (fs_s f))) r
  end.

Definition durs (l : list fullsample) : N := sumN (map s_dur (map fs_s l)).

Lemma u64_add_l a b : u64 (u64 a + b) = u64 (a + b).
Proof. unfold u64. rewrite N.add_mod_idemp_l by discriminate. reflexivity. Qed.

(* retime only looks at t through u64 after the first sample; we therefore state the append lemma for
   start times that are already below 2^64 *)
Lemma retime_app t a b : t < 18446744073709551616 ->
  retime t (a ++ b) = retime t a ++ retime (u64 (t + durs a)) b.
Proof.
  revert t. induction a as [|f a IH]; intros t Ht; cbn [retime app].
  - unfold durs. cbn [map sumN]. rewrite N.add_0_r. unfold u64. rewrite N.mod_small by exact Ht. reflexivity.
  - f_equal. rewrite IH by (unfold u64; apply N.mod_lt; discriminate). f_equal. f_equal.
    unfold durs. cbn [map sumN]. rewrite u64_add_l. f_equal. lia.
Qed.

Lemma sub_list_mid {A} (pre d suf : list A) :
  sub_list (pre ++ d ++ suf) (length pre) (length d) = d.
Proof.
  unfold sub_list. rewrite skipn_app, skipn_all, Nat.sub_diag. cbn [skipn app].
  rewrite firstn_app, firstn_all, Nat.sub_diag. cbn [firstn]. apply app_nil_r.
Qed.

Lemma to_nat_lenN {A} (l : list A) : N.to_nat (lenN l) = length l.
Proof. unfold lenN. apply Nat2N.id. Qed.

Lemma trun_full_samples_spec : forall l pre suf t,
  Forall sized_f l -> lenN pre + lenN (flat_map fs_data l) < 4294967296 ->
  trun_full_samples (map fs_s l) (lenN pre) t (pre ++ flat_map fs_data l ++ suf) = Ok (retime t l).
Proof.
  induction l as [|f l IH]; intros pre suf t Hs Hb; [reflexivity|].
  inversion Hs as [|? ? Hf Hs']; subst. unfold sized_f in Hf.
  cbn [map trun_full_samples flat_map retime] in *. rewrite lenN_app in Hb.
  rewrite Hf. rewrite u32_small by lia.
  destruct (lenN pre + lenN (fs_data f) <? lenN pre) eqn:E1; [apply N.ltb_lt in E1; lia|].
  destruct (lenN (pre ++ (fs_data f ++ flat_map fs_data l) ++ suf) <? lenN pre + lenN (fs_data f)) eqn:E2.
  { apply N.ltb_lt in E2. rewrite !lenN_app in E2. lia. }
  cbn [orb].
  replace (pre ++ (fs_data f ++ flat_map fs_data l) ++ suf)
    with ((pre ++ fs_data f) ++ flat_map fs_data l ++ suf) at 1 by (rewrite <- !app_assoc; reflexivity).
  rewrite <- lenN_app. rewrite IH; [|exact Hs'|rewrite lenN_app; lia]. cbn [rbind].
  f_equal. f_equal. f_equal. rewrite !to_nat_lenN.
  rewrite <- app_assoc. apply sub_list_mid.
Qed.

(* ------------------------------------------------------------------ walking the truns of one traf *)
(* what a DECODED trun must satisfy w.r.t. the run (index k, full samples fl) it holds *)
Definition good (h : tfhd) (tx : option trex) (base : N) (rr : runs) (r : trun) (p : N * list fullsample) : Prop :=
  has_doff r = true /\ tr_doff r = Z.of_N (base + run_pos rr (fst p)) /\
  resolve h tx r = map fs_s (snd p).

(* the run's data lies at byte run_pos in the mdat payload *)
Definition placed (data : list N) (rr : runs) (p : N * list fullsample) : Prop :=
  exists pre suf, data = pre ++ flat_map fs_data (snd p) ++ suf /\ lenN pre = run_pos rr (fst p).

Fixpoint retime_chain (t : N) (specs : list (N * list fullsample)) : list fullsample :=
  match specs with
  | [] => []
  | p :: rest => retime t (snd p) ++ retime_chain (u64 (t + durs (snd p))) rest
  end.

Lemma to_u64_sum a b : a + b < 18446744073709551616 -> to_u64 (Z.of_N a + Z.of_N b) = a + b.
Proof.
  intros H. unfold to_u64. rewrite <- N2Z.inj_add. rewrite Z.mod_small by lia. apply N2Z.id.
Qed.

Lemma ffs_spec h tx (d : dfrag) base rr :
  tf_has_bdo h = false ->
  df_payload_abs d = df_moof_start d + base -> 0 < base ->
  df_moof_start d + base + lenN (df_data d) < 9223372036854775808 ->
  lenN (df_data d) < 4294967296 ->
  forall truns specs bt,
    Forall2 (good h tx base rr) truns specs ->
    Forall (placed (df_data d) rr) specs ->
    Forall (fun p => Forall sized_f (snd p)) specs ->
    frag_full_samples h tx truns bt d = Ok (retime_chain bt specs).
Proof.
  intros Hbdo Hpay Hb0 Hbig Hd32. induction truns as [|r truns IH]; intros specs bt HG HP HS.
  - inversion HG; subst. reflexivity.
  - inversion HG as [|? p ? specs' [Hdo [Hoff Hres]] HG']; subst.
    inversion HP as [|? ? (pre & suf & Hdat & Hpre) HP']; subst.
    inversion HS as [|? ? Hsz HS']; subst.
    cbn [frag_full_samples retime_chain]. rewrite Hbdo, Hdo, Hoff, Hres.
    assert (Hle : lenN pre + lenN (flat_map fs_data (snd p)) <= lenN (df_data d)).
    { rewrite Hdat, !lenN_app. lia. }
    set (rp := run_pos rr (fst p)) in *.
    rewrite to_u64_sum by lia.
    replace (base + rp + df_moof_start d) with (df_moof_start d + base + rp) by lia.
    assert (Hpos : 0 <? df_moof_start d + base + rp = true) by (apply N.ltb_lt; lia). rewrite Hpos.
    rewrite Hpay.
    assert (Hoffm : u64 (df_moof_start d + base + rp + 18446744073709551616 - (df_moof_start d + base)) = rp).
    { unfold u64. replace (df_moof_start d + base + rp + 18446744073709551616 - (df_moof_start d + base))
        with (rp + 1 * 18446744073709551616) by lia.
      rewrite N.mod_add by discriminate. apply N.mod_small. lia. }
    rewrite Hoffm.
    destruct (lenN (df_data d) <? rp) eqn:E; [apply N.ltb_lt in E; lia|]. cbn [andb].
    rewrite u32_small by lia. rewrite <- Hpre.
    rewrite Hdat at 1. rewrite trun_full_samples_spec; [|exact Hsz|lia]. cbn [rbind].
    unfold total_dur. fold (durs (snd p)).
    rewrite (IH specs' (u64 (bt + durs (snd p))) HG' HP' HS'). reflexivity.
Qed.
