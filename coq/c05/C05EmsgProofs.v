(* C05EmsgProofs.v — histories of sample additions interleaved with AddEmsg / AddChild keep Fragment.Children in the
   shape  pre ++ [moof; mdat] ++ post, never panic in AddEmsg (after fix 8f3ca14), and amount to a history of the
   segment model (fhist) whose pre / post boxes are the ones the layout history produced: the round-trip theorems
   apply to them. *)
From V.lib Require Import Base.
From Coq Require Import Permutation.
From V.c05 Require Import C05Model C05FragModel C05GhostProofs C05ReadProofs C05RoundProofs C05SegModel C05SegProofs C05EmsgModel.

(* ------------------------------------------------------------------ lists *)
Lemma insert_at_app_l {A} k (a : A) l1 l2 : (k <= length l1)%nat -> insert_at k a (l1 ++ l2) = insert_at k a l1 ++ l2.
Proof.
  intros H. unfold insert_at. rewrite firstn_app, skipn_app.
  replace (k - length l1)%nat with 0%nat by lia. cbn [firstn skipn]. rewrite app_nil_r, <- app_assoc. reflexivity.
Qed.

Lemma insert_at_map {A B} (f : A -> B) a : forall k l, insert_at k (f a) (map f l) = map f (insert_at k a l).
Proof.
  unfold insert_at. induction k as [|k IH]; intros l; [reflexivity|].
  destruct l as [|x l]; [reflexivity|]. cbn [map firstn skipn app]. f_equal. apply IH.
Qed.

Lemma insert_at_perm {A} k (a : A) l : Permutation (insert_at k a l) (a :: l).
Proof. unfold insert_at. rewrite <- (firstn_skipn k l) at 3. symmetry. apply Permutation_middle. Qed.

Lemma xsum_insert k e l : xsum (insert_at k e l) = x_size e + xsum l.
Proof.
  unfold insert_at. rewrite <- (firstn_skipn k l) at 3. rewrite !xsum_app, xsum_cons. lia.
Qed.

Lemma forallb_insert {A} (p : A -> bool) k a l : p a = true -> forallb p l = true -> forallb p (insert_at k a l) = true.
Proof.
  intros Ha Hl. unfold insert_at. rewrite <- (firstn_skipn k l) in Hl. rewrite forallb_app in *. cbn [forallb].
  apply andb_true_iff in Hl. destruct Hl as [H1 H2]. rewrite H1, Ha, H2. reflexivity.
Qed.

(* ------------------------------------------------------------------ the shape of Fragment.Children *)
Definition shaped (pre post : list xbox) : list child := map KX pre ++ [KMoof; KMdat] ++ map KX post.

Lemma emsg_slot_pre pre rest : forall i idx,
  emsg_slot (map KX pre ++ KMoof :: rest) i idx = emsg_slot (map KX pre) i idx.
Proof. induction pre as [|x pre IH]; intros i idx; cbn [map app emsg_slot is_moof_child]; [reflexivity|apply IH]. Qed.

Lemma emsg_slot_le pre : forall i idx, (idx <= i)%nat -> (emsg_slot (map KX pre) i idx <= i + length pre)%nat.
Proof.
  induction pre as [|x pre IH]; intros i idx H; cbn [map emsg_slot is_moof_child length]; [lia|].
  destruct (is_emsg_child (KX x)); [specialize (IH (S i) (S i))|specialize (IH (S i) idx)]; lia.
Qed.

Lemma add_emsg_shaped pre post e :
  add_emsg (shaped pre post) e = shaped (insert_at (emsg_slot (map KX pre) 0 0) e pre) post.
Proof.
  unfold add_emsg, shaped. cbn [app]. rewrite emsg_slot_pre.
  pose proof (emsg_slot_le pre 0 0 (le_n 0)) as Hle. cbn [Nat.add] in Hle.
  rewrite insert_at_app_l by (rewrite map_length; exact Hle). rewrite insert_at_map. reflexivity.
Qed.

Lemma add_child_shaped pre post x : add_child (shaped pre post) x = shaped pre (post ++ [x]).
Proof. unfold add_child, shaped. rewrite map_app, <- !app_assoc. reflexivity. Qed.

Lemma pre_of_shaped pre post : pre_of (shaped pre post) = pre.
Proof. unfold shaped. induction pre as [|x pre IH]; cbn [map app pre_of]; [reflexivity|]. f_equal. exact IH. Qed.

Lemma post_of_shaped pre post : post_of (shaped pre post) = post.
Proof.
  unfold shaped. induction pre as [|x pre IH]; cbn [map app post_of]; [|exact IH].
  induction post as [|y post IHp]; cbn [map flat_map app]; [reflexivity|]. f_equal. exact IHp.
Qed.

(* ------------------------------------------------------------------ the layout part of a history *)
Definition lay_step (cs : list child) (o : lop) : list child :=
  match o with LSample _ => cs | LEmsg e => add_emsg cs e | LChild x => add_child cs x end.

(* the boxes in front of the moof after the history: every AddEmsg inserts behind the last emsg in front of the moof *)
Fixpoint lay_pre (pre : list xbox) (ops : list lop) : list xbox :=
  match ops with
  | [] => pre
  | LEmsg e :: rest => lay_pre (insert_at (emsg_slot (map KX pre) 0 0) e pre) rest
  | _ :: rest => lay_pre pre rest
  end.

Lemma lay_fold pre post ops :
  fold_left lay_step ops (shaped pre post) = shaped (lay_pre pre ops) (post ++ lops_children ops).
Proof.
  revert pre post. induction ops as [|o ops IH]; intros pre post; cbn [fold_left lay_pre lops_children flat_map].
  - rewrite app_nil_r. reflexivity.
  - destruct o as [s|e|x]; cbn [lay_step app].
    + apply IH.
    + rewrite add_emsg_shaped. apply IH.
    + rewrite add_child_shaped, IH, <- app_assoc. reflexivity.
Qed.

Lemma lay_pre_perm ops : forall pre, Permutation (lay_pre pre ops) (pre ++ lops_emsgs ops).
Proof.
  induction ops as [|o ops IH]; intros pre; cbn [lay_pre lops_emsgs flat_map]; [rewrite app_nil_r; reflexivity|].
  destruct o as [s|e|x]; cbn [app]; try apply IH.
  rewrite IH. rewrite (insert_at_perm _ e pre). cbn [app]. apply Permutation_middle.
Qed.

Lemma lay_pre_xsum ops : forall pre, xsum (lay_pre pre ops) = xsum pre + xsum (lops_emsgs ops).
Proof.
  induction ops as [|o ops IH]; intros pre; cbn [lay_pre lops_emsgs flat_map]; [change (xsum []) with 0; lia|].
  destruct o as [s|e|x]; cbn [app]; try apply IH. fold (lops_emsgs ops). rewrite IH, xsum_insert, xsum_cons. lia.
Qed.

Lemma lay_pre_kinds ops : forall pre,
  forallb inner_kind pre = true -> forallb inner_kind (lops_emsgs ops) = true -> forallb inner_kind (lay_pre pre ops) = true.
Proof.
  induction ops as [|o ops IH]; intros pre Hp He; cbn [lay_pre]; [exact Hp|].
  destruct o as [s|e|x]; cbn [lops_emsgs flat_map app forallb] in He; try (apply IH; assumption).
  apply andb_true_iff in He. destruct He as [He1 He2]. apply IH; [apply forallb_insert; assumption|exact He2].
Qed.

(* ------------------------------------------------------------------ run_lops = layout fold + run_ops on the sample additions *)
Lemma run_lops_split ops : forall st cls st',
  run_lops st ops = (cls, Some st') ->
  l_children st' = fold_left lay_step ops (l_children st) /\
  exists scl, run_ops (l_frag st) (lops_samples ops) = (scl, Some (l_frag st')).
Proof.
  induction ops as [|o ops IH]; intros st cls st' H; cbn [run_lops] in H.
  - injection H as _ <-. split; [reflexivity|]. exists []. reflexivity.
  - destruct o as [s|e|x]; cbn [lstep] in H.
    + cbn [lops_samples flat_map app fold_left lay_step run_ops].
      destruct (step (l_frag st) s) as [fr1| | |] eqn:Es; cbn [rbind] in H; try discriminate.
      * destruct (run_lops (mkL (l_children st) fr1) ops) as [c r] eqn:E. injection H as _ ->.
        destruct (IH _ _ _ E) as (A & scl & B). cbn [l_children l_frag] in A, B. split; [exact A|].
        fold (lops_samples ops). rewrite B. eexists. reflexivity.
      * destruct (run_lops st ops) as [c r] eqn:E. injection H as _ ->.
        destruct (IH _ _ _ E) as (A & scl & B). split; [exact A|]. fold (lops_samples ops). rewrite B. eexists. reflexivity.
    + destruct (run_lops (mkL (add_emsg (l_children st) e) (l_frag st)) ops) as [c r] eqn:E. injection H as _ ->.
      destruct (IH _ _ _ E) as (A & scl & B). cbn [l_children l_frag] in A, B.
      cbn [lops_samples flat_map app fold_left lay_step]. split; [exact A|]. exists scl. exact B.
    + destruct (run_lops (mkL (add_child (l_children st) x) (l_frag st)) ops) as [c r] eqn:E. injection H as _ ->.
      destruct (IH _ _ _ E) as (A & scl & B). cbn [l_children l_frag] in A, B.
      cbn [lops_samples flat_map app fold_left lay_step]. split; [exact A|]. exists scl. exact B.
Qed.

(* AddEmsg and AddChild never fail: a history ends early only at a sample addition that panics *)
Lemma run_lops_no_sample ops : forall st,
  lops_samples ops = [] -> exists cls st', run_lops st ops = (cls, Some st') /\ Forall (fun c => c = COk) cls.
Proof.
  induction ops as [|o ops IH]; intros st H; cbn [run_lops].
  - eexists; eexists. split; [reflexivity|constructor].
  - destruct o as [s|e|x]; cbn [lops_samples flat_map app] in H; try discriminate; cbn [lstep];
      match goal with |- context [run_lops ?s ops] => destruct (IH s H) as (cls & st' & E & F) end;
      rewrite E; eexists; eexists; (split; [reflexivity|constructor; [reflexivity|exact F]]).
Qed.

(* ------------------------------------------------------------------ the sample additions do not read the sizes around moof and mdat *)
Lemma set_pp_step fr a b o :
  step (set_pp fr a b) o = match step fr o with Ok fr' => Ok (set_pp fr' a b) | Err => Err | Panic => Panic | OutOfFuel => OutOfFuel end.
Proof.
  destruct o as [s d data|t s d data|t s d|s d|ss d|d ss data]; cbn [step].
  - unfold add_first. cbn [set_pp fr_trafs]. destruct (fr_trafs fr) as [|t ts]; [reflexivity|]. destruct (tf_truns t); reflexivity.
  - unfold add_sample_to_track. cbn [set_pp fr_trafs fr_next].
    destruct (add_to_track_trafs _ _ _ _ _) as [[ts n]|]; reflexivity.
  - unfold add_sample_to_track. cbn [set_pp fr_trafs fr_next].
    destruct (add_to_track_trafs _ _ _ _ _) as [[ts n]|]; reflexivity.
  - unfold add_first. cbn [set_pp fr_trafs]. destruct (fr_trafs fr) as [|t ts]; [reflexivity|]. destruct (tf_truns t); reflexivity.
  - unfold add_first. cbn [set_pp fr_trafs]. destruct (fr_trafs fr) as [|t ts]; [reflexivity|]. destruct (tf_truns t); reflexivity.
  - cbn [set_pp fr_trafs fr_mdat]. destruct (fr_trafs fr) as [|t [|t2 ts]]; try reflexivity.
    destruct (tf_truns t) as [|r [|r2 rs]]; try reflexivity.
    destruct (md_add_part (fr_mdat fr) data); reflexivity.
Qed.

Lemma set_pp_run ops : forall fr a b,
  run_ops (set_pp fr a b) ops = (fst (run_ops fr ops), option_map (fun f => set_pp f a b) (snd (run_ops fr ops))).
Proof.
  induction ops as [|o ops IH]; intros fr a b; cbn [run_ops]; [reflexivity|].
  rewrite set_pp_step. destruct (step fr o) as [fr1| | |]; try reflexivity.
  - rewrite IH. destruct (run_ops fr1 ops) as [c r]. reflexivity.
  - rewrite IH. destruct (run_ops fr ops) as [c r]. reflexivity.
Qed.

Lemma set_pp_with_extras fr a mx b exs a' b' :
  set_pp (with_extras fr a mx b exs) a' b' = with_extras fr a' mx b' exs.
Proof. reflexivity. Qed.

(* ------------------------------------------------------------------ a layout history is a history of the segment model *)
Definition lop_ok (o : lop) : bool :=
  match o with
  | LSample s => is_full_to s
  | LEmsg e => match x_kind e with XEmsg => true | _ => false end
  | LChild x => inner_kind x
  end.

Definition lhist_start (h : lhist) : lstate :=
  l_start (with_extras (create_multi (lh_tracks h)) (xsum (lh_p0 h)) (lh_mx h) (xsum (lh_q0 h)) (lh_exs h)) (lh_p0 h) (lh_q0 h).

(* as hist_ok: pairwise different track ids, AddFullSampleToTrack with Size = len(Data), boxes of the kinds that may
   surround a fragment; every AddEmsg adds an emsg *)
Definition lhist_ok (h : lhist) : Prop :=
  NoDup (lh_tracks h) /\ N.of_nat (length (lops_samples (lh_ops h))) < 4294967296 /\
  forallb lop_ok (lh_ops h) = true /\ Forall (fun o => sized_f (op_full o)) (lops_samples (lh_ops h)) /\
  forallb inner_kind (lh_p0 h) = true /\ forallb inner_kind (lh_q0 h) = true /\ forallb inner_kind (lh_between h) = true.

Lemma lh_final_eq h :
  lh_final h = shaped (lay_pre (lh_p0 h) (lh_ops h)) (lh_q0 h ++ lops_children (lh_ops h)).
Proof. unfold lh_final. rewrite <- lay_fold. reflexivity. Qed.

Lemma lop_ok_parts ops : forallb lop_ok ops = true ->
  forallb is_full_to (lops_samples ops) = true /\ forallb inner_kind (lops_emsgs ops) = true /\
  forallb inner_kind (lops_children ops) = true.
Proof.
  induction ops as [|o ops IH]; intros H; [repeat split|]. cbn [forallb] in H. apply andb_true_iff in H. destruct H as [Ho Hr].
  destruct (IH Hr) as (A & B & C). destruct o as [s|e|x]; cbn [lop_ok] in Ho.
  - change (lops_samples (LSample s :: ops)) with (s :: lops_samples ops).
    change (lops_emsgs (LSample s :: ops)) with (lops_emsgs ops). change (lops_children (LSample s :: ops)) with (lops_children ops).
    cbn [forallb]. rewrite Ho, A. repeat split; assumption.
  - change (lops_samples (LEmsg e :: ops)) with (lops_samples ops).
    change (lops_emsgs (LEmsg e :: ops)) with (e :: lops_emsgs ops). change (lops_children (LEmsg e :: ops)) with (lops_children ops).
    cbn [forallb]. rewrite B. repeat split; try assumption. unfold inner_kind. destruct (x_kind e); try discriminate. reflexivity.
  - change (lops_samples (LChild x :: ops)) with (lops_samples ops).
    change (lops_emsgs (LChild x :: ops)) with (lops_emsgs ops). change (lops_children (LChild x :: ops)) with (x :: lops_children ops).
    cbn [forallb]. rewrite Ho, C. repeat split; assumption.
Qed.

Lemma lhist_hist_ok h : lhist_ok h -> hist_ok (lhist_fhist h).
Proof.
  intros (Hnd & Hlen & Hok & Hsz & Hp & Hq & Hb). destruct (lop_ok_parts _ Hok) as (A & B & C).
  unfold hist_ok, lhist_fhist. cbn [fh_tracks fh_ops]. repeat split; try assumption.
  unfold hist_kinds. cbn [fh_pre fh_post fh_between]. rewrite lh_final_eq, pre_of_shaped, post_of_shaped.
  rewrite (lay_pre_kinds _ _ Hp B), forallb_app, Hq, C, Hb. reflexivity.
Qed.

(* the fragment the interleaved history builds = the fragment of the segment-model history (sizes in sync) *)
Lemma lhist_frag h cls st' :
  run_lops (lhist_start h) (lh_ops h) = (cls, Some st') ->
  l_children st' = lh_final h /\ hist_frag (lhist_fhist h) = Some (l_sync st').
Proof.
  intros H. destruct (run_lops_split _ _ _ _ H) as (A & scl & B). cbn [lhist_start l_start l_children l_frag] in A, B.
  assert (Ec : l_children st' = lh_final h).
  { rewrite A. unfold lh_final. reflexivity. }
  split; [exact Ec|].
  unfold hist_frag, hist_start, lhist_fhist. cbn [fh_tracks fh_pre fh_mx fh_post fh_exs fh_ops].
  rewrite <- (set_pp_with_extras (create_multi (lh_tracks h)) (xsum (lh_p0 h)) (lh_mx h) (xsum (lh_q0 h)) (lh_exs h)).
  rewrite set_pp_run, B. cbn [snd option_map]. unfold l_sync. rewrite Ec. reflexivity.
Qed.

(* ------------------------------------------------------------------ statements *)
(* (1) any interleaving of sample additions, AddEmsg and AddChild on a fragment whose children are
       p0 ++ [moof; mdat] ++ q0: AddEmsg / AddChild never fail, the children stay in that shape, every emsg added with
       AddEmsg lies in front of the moof (the boxes in front are a permutation of p0 and the added emsgs, total size =
       the sum), the boxes added with AddChild follow the mdat in call order *)
Lemma emsg_layout fr p0 q0 ops cls st' :
  run_lops (l_start fr p0 q0) ops = (cls, Some st') ->
  exists pre, l_children st' = shaped pre (q0 ++ lops_children ops) /\
              Permutation pre (p0 ++ lops_emsgs ops) /\ xsum pre = xsum p0 + xsum (lops_emsgs ops) /\
              pre_of (l_children st') = pre /\ post_of (l_children st') = q0 ++ lops_children ops.
Proof.
  intros H. destruct (run_lops_split _ _ _ _ H) as (A & _). cbn [l_start l_children] in A.
  change (map KX p0 ++ [KMoof; KMdat] ++ map KX q0) with (shaped p0 q0) in A. rewrite lay_fold in A.
  exists (lay_pre p0 ops). rewrite A. split; [reflexivity|]. split; [apply lay_pre_perm|]. split; [apply lay_pre_xsum|].
  split; [apply pre_of_shaped|apply post_of_shaped].
Qed.

(* (2) the segment theorem for fragments built by such interleaved histories *)
Lemma segment_roundtrip_emsg head opt b pos0 tx lhs frs fes :
  head_ok head = true -> Forall lhist_ok lhs ->
  Forall2 (fun h fr => exists cls st', run_lops (lhist_start h) (lh_ops h) = (cls, Some st') /\ fr = l_sync st') lhs frs ->
  encode_frags opt frs = Ok fes ->
  Forall2 frag_guard frs fes ->
  Forall (fun h => consistent (added_fulls (lh_tracks h) (tx_track tx) (lops_samples (lh_ops h)))) lhs ->
  let its := hist_items (map lhist_fhist lhs) fes in
  pos0 + stream_size (seg_stream head its) < POSB ->
  forallb item_framed its = true /\
  exists st, seg_decode b pos0 (seg_stream head its) = Ok st /\
    length (file_frags st) = length lhs /\
    seg_read st (Some tx) = Ok (flat_map (fun h => added_fulls (lh_tracks h) (tx_track tx) (lops_samples (lh_ops h))) lhs).
Proof.
  intros Hh Hok Hfr Henc Hg Hcons its Hb.
  assert (H1 : Forall hist_ok (map lhist_fhist lhs)).
  { apply Forall_forall. intros x Hx. apply in_map_iff in Hx. destruct Hx as (h & <- & Hin).
    apply lhist_hist_ok. rewrite Forall_forall in Hok. exact (Hok h Hin). }
  assert (H2 : Forall2 (fun h fr => hist_frag h = Some fr) (map lhist_fhist lhs) frs).
  { clear -Hfr. induction Hfr as [|h fr lhs frs (cls & st' & E & ->) _ IH]; cbn [map]; constructor; [|exact IH].
    exact (proj2 (lhist_frag h cls st' E)). }
  assert (H3 : Forall (fun h => consistent (added_fulls (fh_tracks h) (tx_track tx) (fh_ops h))) (map lhist_fhist lhs)).
  { apply Forall_forall. intros x Hx. apply in_map_iff in Hx. destruct Hx as (h & <- & Hin).
    rewrite Forall_forall in Hcons. exact (Hcons h Hin). }
  destruct (segment_roundtrip head opt b pos0 tx _ frs fes Hh H1 H2 Henc Hg H3 Hb) as (F & st & E & L & R).
  split; [exact F|]. exists st. split; [exact E|]. split; [rewrite L; apply map_length|].
  rewrite R. rewrite flat_map_concat_map, map_map, <- flat_map_concat_map. reflexivity.
Qed.

(* (3) the text before fix 8f3ca14 *)
Definition EMSG60 : xbox := mkX XEmsg 60 0 [].

(* CreateFragment; AddChild(emsg) (children moof, mdat, emsg: length 3, capacity 4); AddEmsg; AddEmsg: the first call
   puts the emsg BEHIND the mdat (nothing in front of the moof), the second panics; NewFragment(); AddEmsg panics *)
Lemma add_emsg_pinned_refuted :
  (exists cs1, add_emsg_pinned 4 [KMoof; KMdat; KX EMSG60] EMSG60 = Ok cs1 /\ pre_of cs1 = [] /\
               add_emsg_pinned 4 cs1 EMSG60 = Panic) /\
  add_emsg_pinned 0 [] EMSG60 = Panic /\
  add_emsg [] EMSG60 = [KX EMSG60] /\
  pre_of (add_emsg (add_emsg [KMoof; KMdat; KX EMSG60] EMSG60) EMSG60) = [EMSG60; EMSG60].
Proof. split; [eexists; repeat split; reflexivity|repeat split; reflexivity]. Qed.
