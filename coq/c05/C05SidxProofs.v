(* C05SidxProofs.v — segments whose head is a list of sidx boxes WITHOUT a styp box.  The File collects the sidx boxes
   and File.startSegmentIfNeeded then starts a new MediaSegment at every emsg / moof whose position is the start of the
   next reference (C05SegModel.start_if_needed).  A new segment started while a fragment opened by an emsg still
   waits for its moof leaves that fragment without moof for good (GetFullSamples panics on it): sidx_guard is exactly
   "this does not happen"; under it DecodeFile regroups the stream into the encoded fragments as before. *)
From V.lib Require Import Base.
From V.c05 Require Import C05Model C05FragModel C05SegModel C05SegProofs C05SegAnyProofs.

(* ------------------------------------------------------------------ the guard *)
(* File.startSegmentIfNeeded starts a segment at a box at `pos` when k segments exist *)
Definition seg_trig (sxs : list (N * list sref)) (pos k : N) : bool := scan_sidxs sxs 0 pos k || (k =? 0).

(* the emsg / ignored boxes between an mdat and the next moof: (number of segments, an emsg has opened a fragment
   that waits for its moof); None: a segment start is signalled while such a fragment is open *)
Fixpoint walk_inner (sxs : list (N * list sref)) (xs : list xbox) (pos k : N) (open : bool) : option (N * bool) :=
  match xs with
  | [] => Some (k, open)
  | x :: rest =>
      match x_kind x with
      | XEmsg => if seg_trig sxs pos k
                 then (if open then None else walk_inner sxs rest (pos + x_size x) (k + 1) true)
                 else walk_inner sxs rest (pos + x_size x) k open
      | _ => walk_inner sxs rest (pos + x_size x) k open
      end
  end.

Definition item_after_mdat (pos : N) (it : eitem) : N :=
  pos + xsum (ei_pre it) + moof_size (ei_fe it) +
  (md_header_size (fr_mdat (ei_fe it)) + lenN (md_written (fr_mdat (ei_fe it)) ++ ei_lz it)).

Fixpoint sidx_guard (sxs : list (N * list sref)) (its : list eitem) (pos k : N) (open : bool) : bool :=
  match its with
  | [] => negb open
  | it :: rest =>
      match walk_inner sxs (ei_pre it) pos k open with
      | None => false
      | Some (k1, o1) =>
          let trig := seg_trig sxs (pos + xsum (ei_pre it)) k1 in
          if o1 && trig then false
          else
            match walk_inner sxs (ei_post it ++ ei_between it) (item_after_mdat pos it) (if trig then k1 + 1 else k1) false with
            | None => false
            | Some (k2, o2) =>
                sidx_guard sxs rest (item_after_mdat pos it + xsum (ei_post it ++ ei_between it)) k2 o2
            end
      end
  end.

(* the head: sidx boxes only; what the File collects (AnchorPoint = end of the box + first_offset) *)
Definition is_sidx_box (x : xbox) : bool := match x_kind x with XSidx => true | _ => false end.

Fixpoint head_sidxs (pos : N) (head : list xbox) : list (N * list sref) :=
  match head with
  | [] => []
  | x :: rest => (u64 (pos + x_first x + x_size x), x_refs x) :: head_sidxs (pos + x_size x) rest
  end.

(* ------------------------------------------------------------------ the File's fragments *)
Definition ff (segs : list dseg) : list dfr := flat_map (fun g => rev (dg_frags g)) (rev segs).

Lemma ff_cons g segs : ff (g :: segs) = ff segs ++ rev (dg_frags g).
Proof. unfold ff. cbn [rev]. rewrite flat_map_app. cbn [flat_map]. rewrite app_nil_r. reflexivity. Qed.

Definition openf : dfr := mkDfr None None.
Definition nonempty_segs (segs : list dseg) : Prop := Forall (fun g => dg_frags g <> []) segs.

(* states between two boxes, outside moof..mdat: done = the complete fragments so far; open = an emsg opened one more *)
Inductive sinv (sxs : list (N * list sref)) (done : list dfr) : bool -> fstate -> Prop :=
| SI_init b : done = [] -> sinv sxs done false (mkFstate b sxs [] None)
| SI_bnd segs : segs <> [] -> nonempty_segs segs -> ff segs = done -> sinv sxs done false (mkFstate true sxs segs None)
| SI_open rest : nonempty_segs rest -> ff rest = done ->
    sinv sxs done true (mkFstate true sxs (mkDseg false [openf] :: rest) None).

Lemma sinv_sidxs sxs done o st : sinv sxs done o st -> fs_sidxs st = sxs.
Proof. intros H. destruct H; reflexivity. Qed.

Lemma start_trig st pos :
  start_if_needed st pos =
    if seg_trig (fs_sidxs st) pos (lenN (fs_segs st))
    then mkFstate true (fs_sidxs st) (mkDseg false [] :: fs_segs st) (fs_mdat st) else st.
Proof.
  unfold start_if_needed, seg_trig. destruct (fs_sidxs st) as [|p l]; [|reflexivity].
  cbn [scan_sidxs orb]. rewrite orb_diag. reflexivity.
Qed.

Lemma lenN_cons' {A} (a : A) l : lenN (a :: l) = lenN l + 1.
Proof. unfold lenN. cbn [length]. lia. Qed.

Lemma seg_trig_zero sxs pos : seg_trig sxs pos 0 = true.
Proof. unfold seg_trig. apply orb_true_r. Qed.

(* one emsg / ignored box *)
Lemma sidx_add_inner sxs done o st pos x lm k k' o' :
  sinv sxs done o st -> inner_kind x = true -> k = lenN (fs_segs st) ->
  walk_inner sxs [x] pos k o = Some (k', o') ->
  exists st1, add_box st pos (TX x) lm = Ok st1 /\ sinv sxs done o' st1 /\ k' = lenN (fs_segs st1).
Proof.
  intros Hst Hk Hlen Hw. unfold inner_kind in Hk. cbn [walk_inner] in Hw. cbn [add_box].
  destruct (x_kind x) eqn:Ek; try discriminate.
  2:{ injection Hw as <- <-. exists st. split; [reflexivity|]. split; [exact Hst|exact Hlen]. }
  rewrite start_trig, (sinv_sidxs _ _ _ _ Hst), <- Hlen.
  destruct (seg_trig sxs pos k) eqn:Et.
  - destruct o; [discriminate|]. injection Hw as <- <-.
    inversion Hst as [b Hd|segs Hne Hall Hff|]; subst; cbn [fs_sidxs fs_segs fs_mdat upd_last_seg dg_frags dg_styp fs_fragmented].
    + eexists. split; [reflexivity|]. split; [apply SI_open; [constructor|reflexivity]|]. reflexivity.
    + eexists. split; [reflexivity|]. split; [apply SI_open; [exact Hall|reflexivity]|]. cbn [fs_segs]; rewrite ?lenN_cons'; reflexivity.
  - injection Hw as <- <-.
    inversion Hst as [b Hd|segs Hne Hall Hff|rest Hall Hff]; subst; cbn [fs_sidxs fs_segs fs_mdat] in *.
    + rewrite seg_trig_zero in Et. discriminate.
    + destruct segs as [|g segs']; [congruence|]. unfold upd_last_seg. cbn [fs_segs fs_fragmented fs_sidxs fs_mdat].
      inversion Hall as [|? ? Hg Hr]; subst. destruct (dg_frags g) as [|f fs] eqn:Ef; [congruence|].
      eexists. split; [reflexivity|]. split; [|reflexivity]. destruct g as [s fr]. cbn [dg_frags dg_styp] in *. subst fr.
      apply SI_bnd; [discriminate|exact Hall|reflexivity].
    + unfold upd_last_seg. cbn [fs_segs fs_fragmented fs_sidxs fs_mdat dg_frags openf].
      eexists. split; [reflexivity|]. split; [apply SI_open; [exact Hall|reflexivity]|reflexivity].
Qed.

Lemma walk_inner_cons sxs x xs pos k o :
  walk_inner sxs (x :: xs) pos k o =
    match walk_inner sxs [x] pos k o with
    | Some (k1, o1) => walk_inner sxs xs (pos + x_size x) k1 o1
    | None => None
    end.
Proof.
  cbn [walk_inner]. destruct (x_kind x); try reflexivity.
  destruct (seg_trig sxs pos k); [destruct o|]; reflexivity.
Qed.

Lemma sidx_loop_inner sxs done xs : forall st pos lm k o k' o',
  sinv sxs done o st -> forallb inner_kind xs = true -> k = lenN (fs_segs st) ->
  walk_inner sxs xs pos k o = Some (k', o') ->
  exists st1 lm', sinv sxs done o' st1 /\ k' = lenN (fs_segs st1) /\
    forall rest, seg_decode_loop (map TX xs ++ rest) st pos lm = seg_decode_loop rest st1 (pos + xsum xs) lm'.
Proof.
  induction xs as [|x xs IH]; intros st pos lm k o k' o' Hst Hk Hlen Hw.
  - cbn [walk_inner] in Hw. injection Hw as <- <-. exists st, lm. split; [exact Hst|]. split; [exact Hlen|].
    intros rest. cbn [map app]. change (xsum []) with 0. rewrite N.add_0_r. reflexivity.
  - cbn [forallb] in Hk. apply andb_true_iff in Hk. destruct Hk as [Hx Hxs].
    rewrite walk_inner_cons in Hw. destruct (walk_inner sxs [x] pos k o) as [[k1 o1]|] eqn:E1; [|discriminate].
    destruct (sidx_add_inner sxs done o st pos x lm k k1 o1 Hst Hx Hlen E1) as (st1 & A1 & Hst1 & Hl1).
    destruct (IH st1 (pos + x_size x) false k1 o1 k' o' Hst1 Hxs Hl1 Hw) as (st2 & lm' & Hst2 & Hl2 & L).
    exists st2, lm'. split; [exact Hst2|]. split; [exact Hl2|]. intros rest.
    cbn [map app seg_decode_loop]. rewrite A1. cbn [rbind tb_size is_moof]. rewrite L, xsum_cons. f_equal. lia.
Qed.

(* the last fragment of the last segment has its moof *)
Lemma ff_last_moofed g segs f fs :
  dg_frags g = f :: fs -> moofed (ff (g :: segs)) -> dr_moof f <> None.
Proof.
  intros Ef Hm. rewrite ff_cons, Ef in Hm. cbn [rev] in Hm. unfold moofed in Hm. rewrite Forall_forall in Hm.
  apply Hm. apply in_or_app. right. apply in_or_app. right. left. reflexivity.
Qed.

(* moof + mdat *)
Lemma sidx_moof_mdat sxs done o st pos sz trafs lm hdr payload k :
  sinv sxs done o st -> moofed done -> k = lenN (fs_segs st) ->
  (o && seg_trig sxs pos k) = false ->
  let f := mkDfr (Some (pos, trafs)) (Some (pos + sz + hdr, payload)) in
  exists st2, (do st1 <- add_box st pos (TMoof sz trafs) lm; add_box st1 (pos + sz) (TMdat hdr payload) true) = Ok st2 /\
              sinv sxs (done ++ [f]) false st2 /\
              lenN (fs_segs st2) = (if seg_trig sxs pos k then k + 1 else k).
Proof.
  intros Hst Hm Hlen Hg f. cbn [add_box]. rewrite start_trig. cbn [fs_sidxs fs_segs fs_mdat].
  rewrite (sinv_sidxs _ _ _ _ Hst), <- Hlen.
  inversion Hst as [b Hd|segs Hne Hall Hff|rest Hall Hff]; subst; cbn [fs_sidxs fs_segs fs_mdat andb] in *.
  - rewrite seg_trig_zero. unfold upd_last_seg. cbn [fs_segs fs_fragmented fs_sidxs fs_mdat dg_frags dg_styp rbind add_box].
    eexists. split; [reflexivity|]. split; [|reflexivity].
    apply SI_bnd; [discriminate|constructor; [discriminate|constructor]|reflexivity].
  - destruct (seg_trig sxs pos (lenN segs)) eqn:Et.
    + unfold upd_last_seg. cbn [fs_segs fs_fragmented fs_sidxs fs_mdat dg_frags dg_styp rbind add_box].
      eexists. split; [reflexivity|]. split; [|cbn [fs_segs]; rewrite ?lenN_cons'; reflexivity].
      apply SI_bnd; [discriminate|constructor; [discriminate|exact Hall]|]. rewrite ff_cons. reflexivity.
    + destruct segs as [|g segs']; [congruence|]. unfold upd_last_seg. cbn [fs_segs fs_fragmented fs_sidxs fs_mdat].
      inversion Hall as [|? ? Hg' Hr]; subst. destruct (dg_frags g) as [|f0 fs] eqn:Ef; [congruence|].
      pose proof (ff_last_moofed g segs' f0 fs Ef Hm) as Hf0. destruct (dr_moof f0) eqn:Em; [|congruence].
      cbn [rbind add_box fs_fragmented fs_segs dg_frags dg_styp dr_moof fs_sidxs fs_mdat].
      eexists. split; [reflexivity|]. split; [|reflexivity].
      apply SI_bnd; [discriminate|constructor; [discriminate|exact Hr]|].
      rewrite !ff_cons. cbn [dg_frags rev]. rewrite Ef. cbn [rev]. rewrite <- !app_assoc. reflexivity.
  - destruct (seg_trig sxs pos (lenN (mkDseg false [openf] :: rest))) eqn:Et; [discriminate|].
    unfold upd_last_seg. cbn [fs_segs fs_fragmented fs_sidxs fs_mdat dg_frags dg_styp openf dr_moof dr_mdat rbind add_box].
    eexists. split; [reflexivity|]. split; [|reflexivity].
    apply SI_bnd; [discriminate|constructor; [discriminate|exact Hall]|]. rewrite ff_cons. reflexivity.
Qed.

Lemma sinv_file_frags sxs done st : sinv sxs done false st -> file_frags st = done.
Proof.
  intros H. inversion H as [b Hd|segs Hne Hall Hff|]; subst; [reflexivity|]. reflexivity.
Qed.

Lemma sidx_decode_items sxs its : forall done o st pos lm k,
  sinv sxs done o st -> moofed done -> k = lenN (fs_segs st) ->
  forallb item_kinds its = true -> sidx_guard sxs its pos k o = true ->
  exists st', seg_decode_loop (flat_map item_boxes its) st pos lm = Ok st' /\
              sinv sxs (done ++ items_dfrs pos its) false st'.
Proof.
  induction its as [|it its IH]; intros done o st pos lm k Hst Hm Hlen Hk Hg.
  - cbn [sidx_guard] in Hg. destruct o; [discriminate|]. exists st. split; [reflexivity|].
    cbn [items_dfrs]. rewrite app_nil_r. exact Hst.
  - cbn [forallb] in Hk. apply andb_true_iff in Hk. destruct Hk as [Hit Hits].
    unfold item_kinds in Hit. rewrite !andb_true_iff in Hit. destruct Hit as [[Hpre Hpost] Hbet].
    cbn [sidx_guard] in Hg.
    destruct (walk_inner sxs (ei_pre it) pos k o) as [[k1 o1]|] eqn:W1; [|discriminate].
    destruct (o1 && seg_trig sxs (pos + xsum (ei_pre it)) k1) eqn:G1; [discriminate|].
    destruct (walk_inner sxs (ei_post it ++ ei_between it) (item_after_mdat pos it)
                (if seg_trig sxs (pos + xsum (ei_pre it)) k1 then k1 + 1 else k1) false) as [[k2 o2]|] eqn:W2; [|discriminate].
    cbn [flat_map]. unfold item_boxes at 1. rewrite <- !app_assoc.
    destruct (sidx_loop_inner sxs done (ei_pre it) st pos lm k o k1 o1 Hst Hpre Hlen W1) as (st1 & lm1 & Hst1 & Hl1 & L1).
    rewrite L1. cbn [app seg_decode_loop].
    set (f := item_dfr pos it).
    destruct (sidx_moof_mdat sxs done o1 st1 (pos + xsum (ei_pre it)) (moof_size (ei_fe it)) (wire_trafs (ei_fe it)) lm1
                (md_header_size (fr_mdat (ei_fe it))) (md_written (fr_mdat (ei_fe it)) ++ ei_lz it) k1 Hst1 Hm Hl1 G1)
      as (st2 & E2 & Hst2 & Hl2).
    destruct (add_box st1 (pos + xsum (ei_pre it)) (TMoof (moof_size (ei_fe it)) (wire_trafs (ei_fe it))) lm1) as [sta| | |] eqn:Ea;
      cbn [rbind] in E2; try discriminate.
    cbn [rbind is_moof tb_size]. rewrite E2. cbn [rbind is_moof tb_size].
    change (mkDfr (Some (pos + xsum (ei_pre it), wire_trafs (ei_fe it)))
              (Some (pos + xsum (ei_pre it) + moof_size (ei_fe it) + md_header_size (fr_mdat (ei_fe it)),
                     md_written (fr_mdat (ei_fe it)) ++ ei_lz it))) with f in Hst2.
    assert (Hpb : forallb inner_kind (ei_post it ++ ei_between it) = true) by (rewrite forallb_app, Hpost, Hbet; reflexivity).
    rewrite app_assoc, <- map_app.
    assert (Hpa : pos + xsum (ei_pre it) + moof_size (ei_fe it) +
                  (md_header_size (fr_mdat (ei_fe it)) + lenN (md_written (fr_mdat (ei_fe it)) ++ ei_lz it)) = item_after_mdat pos it)
      by reflexivity.
    rewrite Hpa.
    destruct (sidx_loop_inner sxs (done ++ [f]) (ei_post it ++ ei_between it) st2 (item_after_mdat pos it) false _ false k2 o2
                Hst2 Hpb (eq_sym Hl2) W2) as (st3 & lm3 & Hst3 & Hl3 & L3).
    rewrite L3.
    assert (Hm2 : moofed (done ++ [f])) by (apply moofed_snoc; [exact Hm|discriminate]).
    destruct (IH (done ++ [f]) o2 st3 (item_after_mdat pos it + xsum (ei_post it ++ ei_between it)) lm3 k2 Hst3 Hm2 Hl3 Hits Hg)
      as (st' & E' & Hb').
    exists st'. split; [exact E'|]. cbn [items_dfrs]. rewrite <- app_assoc in Hb'. cbn [app] in Hb'.
    replace (pos + stream_size (item_boxes it)) with (item_after_mdat pos it + xsum (ei_post it ++ ei_between it)); [exact Hb'|].
    rewrite item_boxes_size, xsum_app. unfold item_after_mdat. lia.
Qed.

(* the head: sidx boxes only *)
Lemma sidx_decode_head head : forall b pos sxs0 lm,
  forallb is_sidx_box head = true ->
  forall rest, seg_decode_loop (map TX head ++ rest) (mkFstate b sxs0 [] None) pos lm =
               seg_decode_loop rest (mkFstate b (sxs0 ++ head_sidxs pos head) [] None) (pos + xsum head)
                               (match head with [] => lm | _ => false end).
Proof.
  induction head as [|x head IH]; intros b pos sxs0 lm H rest.
  - cbn [map app head_sidxs]. rewrite app_nil_r. change (xsum []) with 0. rewrite N.add_0_r. reflexivity.
  - cbn [forallb] in H. apply andb_true_iff in H. destruct H as [Hx Hh]. unfold is_sidx_box in Hx.
    cbn [map app seg_decode_loop add_box]. destruct (x_kind x) eqn:Ex; try discriminate.
    cbn [fs_segs fs_fragmented fs_sidxs fs_mdat rbind tb_size is_moof].
    rewrite IH by exact Hh. cbn [head_sidxs]. rewrite <- app_assoc. cbn [app]. rewrite xsum_cons.
    destruct head; f_equal; lia.
Qed.

(* DecodeFile on sidx* fragments: the File's fragments are the encoded ones, each at its position *)
Lemma decode_stream_sidx head its b pos0 :
  forallb is_sidx_box head = true -> forallb item_kinds its = true ->
  sidx_guard (head_sidxs pos0 head) its (pos0 + xsum head) 0 false = true ->
  exists st, seg_decode b pos0 (seg_stream head its) = Ok st /\
             file_frags st = items_dfrs (pos0 + xsum head) its.
Proof.
  intros Hh Hk Hg. unfold seg_decode, seg_stream. rewrite (sidx_decode_head head b pos0 [] false Hh). cbn [app].
  destruct (sidx_decode_items (head_sidxs pos0 head) its [] false (mkFstate b (head_sidxs pos0 head) [] None)
              (pos0 + xsum head) (match head with [] => false | _ => false end) 0
              (SI_init _ _ b eq_refl) (Forall_nil _) eq_refl Hk Hg) as (st & E & Hst).
  exists st. split; [exact E|]. apply (sinv_file_frags _ _ _ Hst).
Qed.

(* the segment theorem for any mix of fragment classes, head = sidx boxes without styp *)
Lemma segment_any_sidx head its exps b pos0 tx :
  forallb is_sidx_box head = true ->
  sidx_guard (head_sidxs pos0 head) its (pos0 + xsum head) 0 false = true ->
  Forall2 (item_reads tx) its exps ->
  pos0 + stream_size (seg_stream head its) < POSB ->
  forallb item_framed its = true /\
  exists st, seg_decode b pos0 (seg_stream head its) = Ok st /\
             length (file_frags st) = length its /\ seg_read st tx = Ok (concat exps).
Proof.
  intros Hh Hg H Hb.
  assert (K : forallb item_kinds its = true /\ forallb item_framed its = true /\
              Forall (fun it => item_pure it = true /\ fr_pre (ei_fe it) = xsum (ei_pre it)) its /\
              Forall2 (fun it e => forall p, p + fr_pre (ei_fe it) < POSB ->
                         get_full_samples (decoded_view (ei_fe it) p (ei_lz it)) tx = Ok e) its exps).
  { clear Hb Hg. induction H as [|it e its exps (A & B & C & D & E) _ IH]; [repeat split; constructor|].
    destruct IH as (I1 & I2 & I3 & I4). cbn [forallb]. rewrite A, B, I1, I2. repeat split; try reflexivity.
    - constructor; [split; assumption|exact I3].
    - constructor; [exact E|exact I4]. }
  destruct K as (K1 & K2 & K3 & K4). split; [exact K2|].
  destruct (decode_stream_sidx head its b pos0 Hh K1 Hg) as (st & E & Ef).
  exists st. split; [exact E|]. split; [rewrite Ef; apply items_dfrs_length|].
  unfold seg_read. rewrite Ef. apply read_frags_views; try assumption.
  unfold seg_stream in Hb. rewrite stream_size_app, stream_size_TX in Hb. lia.
Qed.

Lemma segment_roundtrip_any_sidx head opt b pos0 tx its exps :
  forallb is_sidx_box head = true ->
  sidx_guard (head_sidxs pos0 head) its (pos0 + xsum head) 0 false = true ->
  Forall2 (frag_case opt tx) its exps ->
  pos0 + stream_size (seg_stream head its) < POSB ->
  forallb item_framed its = true /\
  exists st, seg_decode b pos0 (seg_stream head its) = Ok st /\
             length (file_frags st) = length its /\ seg_read st tx = Ok (concat exps).
Proof.
  intros Hh Hg H Hb. apply segment_any_sidx; try assumption.
  clear Hb Hg. induction H as [|it e its exps H1 _ IH]; constructor; [apply (frag_case_reads opt tx); exact H1|exact IH].
Qed.

(* ------------------------------------------------------------------ without the guard *)
(* one fragment with an emsg in front of its moof; the sidx in front of it has two references: the first starts at the
   emsg, the second (60 bytes later) at the moof.  DecodeFile starts a segment at the emsg (fragment opened) and another
   one at the moof: the first segment keeps a fragment without moof, on which GetFullSamples panics. *)
Definition wit_fe : frag :=
  match run_ops (with_extras (create_fragment 1) 60 0 0 []) [OFull (mkSample 16842752 10 1 0) 0 [7]] with
  | (_, Some fr) => match encode_frag false fr with Ok fe => fe | _ => fr end
  | _ => create_fragment 1
  end.

Lemma sidx_guard_refuted :
  let head := [mkX XSidx 56 0 [mkSref 0 60; mkSref 0 500]] in
  let its := [mkEitem [mkX XEmsg 60 0 []] wit_fe [] [] []] in
  forallb is_sidx_box head = true /\ forallb item_kinds its = true /\ forallb item_framed its = true /\
  sidx_guard (head_sidxs 0 head) its 56 0 false = false /\
  exists st, seg_decode false 0 (seg_stream head its) = Ok st /\
             map (fun f => match dr_moof f with Some _ => true | None => false end) (file_frags st) = [false; true] /\
             seg_read st None = Panic.
Proof.
  cbv zeta. split; [reflexivity|]. split; [reflexivity|]. split; [vm_compute; reflexivity|]. split; [vm_compute; reflexivity|].
  eexists. split; [vm_compute; reflexivity|]. split; vm_compute; reflexivity.
Qed.
