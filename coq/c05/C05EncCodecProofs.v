(* C05EncCodecProofs.v — DecodeTrun's count guard (more than 1024 samples need a per-sample field) against what
   OptimizeTfhdTrun writes, for truns of ANY flag word: the composition-offset field is what fix 6c7a902 keeps, so
   the guarantee is exactly for truns that have it; a trun without it (hand-made, decoded, or — through the API —
   one that an EARLIER Encode with OptimizeTrun already stripped) can still be optimised bare. *)
From V.lib Require Import Base.
From V.c05 Require Import C05Model C05FragModel C05CodecModel C05CodecProofs C05OptProofs C05EncHistModel.

Lemma optimized_trun_decodes_cto tf tr tf' tr' d :
  has_cto tr = true -> optimize tf tr = Ok (tf', tr') -> trun_fields_wf (tr_with_doff tr' d) = true ->
  dec_trun (trun_size (tr_with_doff tr' d)) (enc_trun_body (tr_with_doff tr' d)) = Ok (wire_trun (tr_with_doff tr' d)).
Proof.
  intros Hc Ho Hw. apply dec_enc_trun. apply trun_wf_of_bare; [exact Hw|].
  assert (Hb : bare_ok tr = true) by (unfold bare_ok; rewrite Hc; apply orb_true_r).
  exact (optimize_bare _ _ _ _ Hc Hb Ho).
Qed.

(* without the field: flags 0x701 (duration, size, flags present, no composition offsets), 1025 equal samples *)
Lemma optimized_trun_nocto_refuted : exists tf tr tf' tr',
  has_cto tr = false /\ has_dur tr && has_size tr && has_sflags tr = true /\
  forallb sample_wf (tr_samples tr) = true /\
  optimize tf tr = Ok (tf', tr') /\
  dec_trun (trun_size (tr_with_doff tr' 100)) (enc_trun_body (tr_with_doff tr' 100)) = Err.
Proof.
  exists (create_tfhd 1), (mkTrun 1 1793 0 0 (repeat (mkSample 16842752 10 1 0) 1025) 0).
  eexists; eexists. split; [vm_compute; reflexivity|]. split; [vm_compute; reflexivity|].
  split; [vm_compute; reflexivity|]. split; [vm_compute; reflexivity|]. vm_compute. reflexivity.
Qed.

(* through the API, with an optimised Encode in the middle of the history (same class as finding C05-F10):
   CreateFragment(1,1); 2 equal samples; Encode with OptimizeTrun (flags become 0x001); 1023 more equal samples;
   Encode: the state passes enc_guard (every value IS the tfhd default), the fragment encodes, and the trun that is
   written has 1025 samples and no per-sample field: DecodeTrun refuses it *)
Definition bare_s : sample := mkSample 16842752 10 1 0.
Definition bare_hs : list hop :=
  [HAdd (OFull bare_s 0 [7]); HAdd (OFull bare_s 10 [7]); HEnc true]
  ++ map (fun k => HAdd (OFull bare_s (10 * N.of_nat k) [7])) (seq 2 1023).

Lemma encodes_opt_bare_refuted :
  exists cs fr fe t r,
    run_hops (create_fragment 1) bare_hs = (cs, Some fr) /\
    enc_guard fr = true /\
    encode_frag true fr = Ok fe /\
    fr_trafs fe = [t] /\ tf_truns t = [r] /\ length (tr_samples r) = 1025%nat /\ tr_flags r = 1 /\
    forallb sample_wf (tr_samples r) = true /\
    dec_trun (trun_size r) (enc_trun_body r) = Err.
Proof.
  eexists; eexists; eexists; eexists; eexists.
  split; [vm_compute; reflexivity|]. split; [vm_compute; reflexivity|]. split; [vm_compute; reflexivity|].
  split; [reflexivity|]. split; [reflexivity|]. split; [vm_compute; reflexivity|]. split; [reflexivity|].
  split; [vm_compute; reflexivity|]. vm_compute. reflexivity.
Qed.
