(* C05EncTheorems.v — the property theorems of C05 about Encode calls INSIDE the histories (Fragment.Encode is a state
   transformer), the guard of DecodeTrun against optimised truns of any flag word, and the base of the data offsets.
   Each is closed by `exact <lemma>` and followed by Print Assumptions (audited by ./check on every run). *)
From V.lib Require Import Base.
From V.c05 Require Import C05Model C05FragModel C05OptProofs C05HistProofs C05GhostProofs C05ReadProofs C05RoundProofs
  C05CodecModel C05CodecProofs C05EncHistModel C05EncHistProofs C05EncRoundProofs C05EncCodecProofs
  C05SegModel C05SegProofs C05EncSegProofs C05SingleProofs C05EncInvisProofs C05EncGuardProofs.

(* C05_roundtrip for histories in which the sample additions are INTERLEAVED WITH Encode calls (run_hops: every Encode
   runs SetTrunDataOffsets and MdatBox.Size on the live fragment, the additions that follow see that state; encode_state
   mirrors Fragment.Encode + MoofBox.Encode after fix 1704b4c).  As long as every Encode in the middle is a plain one (no
   OptimizeTrun), the LAST Encode decides: the decoded fragment reads back exactly the added samples, for every
   multi-track fragment, every interleaving, optimisation on or off in the final Encode, any extra boxes, any trex. *)
Theorem C05_roundtrip_with_encodes : forall tracks pre mx post exs hs cs fr opt fe pos0 tx,
  NoDup tracks -> N.of_nat (length (adds hs)) < 4294967296 -> forallb is_full_to (adds hs) = true ->
  Forall (fun o => sized_f (op_full o)) (adds hs) ->
  plain hs = true ->
  run_hops (with_extras (create_multi tracks) pre mx post exs) hs = (cs, Some fr) ->
  encode_frag opt fr = Ok fe ->
  moof_size fe + md_header_size (fr_mdat fe) + lenN (md_data (fr_mdat fr)) < 2147483648 ->
  pos0 + fr_pre fe < 4611686018427387904 ->
  consistent (added_fulls tracks (tx_track tx) (adds hs)) ->
  get_full_samples (decoded_view fe pos0 []) (Some tx) = Ok (added_fulls tracks (tx_track tx) (adds hs)).
Proof. exact roundtrip_encodes. Qed.
Print Assumptions C05_roundtrip_with_encodes.

(* trex == nil *)
Theorem C05_roundtrip_with_encodes_nil : forall T0 rest pre mx post exs hs cs fr opt fe pos0,
  let tracks := T0 :: rest in
  NoDup tracks -> N.of_nat (length (adds hs)) < 4294967296 -> forallb is_full_to (adds hs) = true ->
  Forall (fun o => sized_f (op_full o)) (adds hs) ->
  plain hs = true ->
  run_hops (with_extras (create_multi tracks) pre mx post exs) hs = (cs, Some fr) ->
  encode_frag opt fr = Ok fe ->
  moof_size fe + md_header_size (fr_mdat fe) + lenN (md_data (fr_mdat fr)) < 2147483648 ->
  pos0 + fr_pre fe < 4611686018427387904 ->
  consistent (added_fulls tracks T0 (adds hs)) ->
  get_full_samples (decoded_view fe pos0 []) None = Ok (added_fulls tracks T0 (adds hs)).
Proof. exact roundtrip_encodes_nil. Qed.
Print Assumptions C05_roundtrip_with_encodes_nil.

(* single-track fragments (CreateFragment; AddFullSample / AddFullSampleToTrack interleaved with plain Encodes) *)
Theorem C05_roundtrip_with_encodes_single : forall T hs cs fr opt fe pos0 tx pre mx post exs,
  N.of_nat (length (adds hs)) < 4294967296 -> forallb is_full (adds hs) = true ->
  Forall (fun o => sized_f (op_full o)) (adds hs) ->
  plain hs = true ->
  run_hops (with_extras (create_fragment T) pre mx post exs) hs = (cs, Some fr) ->
  encode_frag opt fr = Ok fe ->
  added1_fulls T (adds hs) <> [] ->
  moof_size fe + md_header_size (fr_mdat fe) + lenN (md_data (fr_mdat fr)) < 2147483648 ->
  pos0 + fr_pre fe < 4611686018427387904 ->
  consistent (added1_fulls T (adds hs)) ->
  get_full_samples (decoded_view fe pos0 []) (Some tx) =
    Ok (if tx_track tx =? T then added1_fulls T (adds hs) else []).
Proof. exact roundtrip_encodes_single. Qed.
Print Assumptions C05_roundtrip_with_encodes_single.

(* the general form, for ANY starting fragment and ALL SIX add operations: plain Encodes in the middle are INVISIBLE to
   the final Encode.  The history accepts / refuses the same additions as the additions alone (add_classes), reaches their
   fragment up to the data offsets (fsimS), and the final Encode (which rewrites every data offset: the write-order
   numbers of the encode-free fragment are pairwise different) returns THE SAME encoded fragment, unless an Encode in the
   middle saw a payload above 4 GiB - 9 and left the mdat marked large-size.  Every theorem of C05Theorems.v /
   C05SegTheorems.v about `encode_frag opt fr` of an encode-free history transfers by rewriting. *)
Theorem C05_plain_encodes_invisible : forall hs a cs a',
  plain hs = true -> run_hops a hs = (cs, Some a') ->
  exists b, run_ops a (adds hs) = (add_classes hs cs, Some b) /\ fsimS a' b /\
    (md_large (fr_mdat a') = md_large (fr_mdat a) ->
     NoDup (map tr_won (all_truns (fr_trafs b))) ->
     forall opt, encode_frag opt a' = encode_frag opt b).
Proof. exact plain_encodes_invisible. Qed.
Print Assumptions C05_plain_encodes_invisible.

(* ... applied to C05_roundtrip_single_modes: single-track fragments under ALL SIX add operations (one data mode per
   fragment: full samples / metadata-only with the caller's data lz / sample intervals) interleaved with plain Encodes *)
Theorem C05_roundtrip_with_encodes_modes : forall T hs cs fr opt fe pos0 tx pre mx post exs FL lz,
  Forall (fun o => op_dts o < 18446744073709551616) (adds hs) ->
  plain hs = true ->
  run_hops (with_extras (create_fragment T) pre mx post exs) hs = (cs, Some fr) ->
  md_large (fr_mdat fr) = false ->
  mode_ok (adds hs) (add_classes hs cs) FL lz ->
  map fs_s FL = added1 T (adds hs) -> Forall sized_f FL -> FL <> [] ->
  encode_frag opt fr = Ok fe ->
  moof_size fe + md_header_size (fr_mdat fe) + lenN (flat_map fs_data FL) < 2147483648 ->
  pos0 + fr_pre fe < 4611686018427387904 ->
  exists t,
    map tf_dt (fr_trafs fr) = [set_base t] /\
    get_full_samples (decoded_view fe pos0 lz) (Some tx) = Ok (if tx_track tx =? T then retime t FL else []).
Proof. exact roundtrip_encodes_single_modes. Qed.
Print Assumptions C05_roundtrip_with_encodes_modes.

(* ANY Encode calls in the middle, also with OptimizeTrun (which rewrites the flag word of the first trun and the
   tfhd defaults in place): the round trip holds under enc_guard on the state the final Encode sees = the first trun of
   the first traf still resolves to its own samples under its flag word and the tfhd defaults (trun_selfres: a sample
   added after the optimised Encode must agree with the default of every field the trun no longer carries), every
   other trun still announces all four fields.  Structure level (wire view of the truns), as C05_roundtrip. *)
Theorem C05_roundtrip_with_encodes_guarded : forall tracks pre mx post exs hs cs fr opt fe pos0 tx,
  NoDup tracks -> N.of_nat (length (adds hs)) < 4294967296 -> forallb is_full_to (adds hs) = true ->
  Forall (fun o => sized_f (op_full o)) (adds hs) ->
  run_hops (with_extras (create_multi tracks) pre mx post exs) hs = (cs, Some fr) ->
  enc_guard fr = true ->
  encode_frag opt fr = Ok fe ->
  moof_size fe + md_header_size (fr_mdat fe) + lenN (md_data (fr_mdat fr)) < 2147483648 ->
  pos0 + fr_pre fe < 4611686018427387904 ->
  consistent (added_fulls tracks (tx_track tx) (adds hs)) ->
  get_full_samples (decoded_view fe pos0 []) (Some tx) = Ok (added_fulls tracks (tx_track tx) (adds hs)).
Proof. exact roundtrip_encodes_guarded. Qed.
Print Assumptions C05_roundtrip_with_encodes_guarded.

(* ... and the second half of enc_guard is an invariant (others4: OptimizeTfhdTrun only ever touches the first trun of
   the first traf; every other trun keeps CreateTrun's flag word through any history with any Encodes), so the guard is
   the FIRST trun's alone (first_selfres), and C05_encodes_opt_refuted below shows it cannot be dropped *)
Theorem C05_encodes_others_keep_fields : forall hs a cs a',
  others4 a = true -> run_hops a hs = (cs, Some a') -> others4 a' = true.
Proof. exact hops_others. Qed.
Print Assumptions C05_encodes_others_keep_fields.

Theorem C05_roundtrip_with_encodes_first : forall tracks pre mx post exs hs cs fr opt fe pos0 tx,
  NoDup tracks -> N.of_nat (length (adds hs)) < 4294967296 -> forallb is_full_to (adds hs) = true ->
  Forall (fun o => sized_f (op_full o)) (adds hs) ->
  run_hops (with_extras (create_multi tracks) pre mx post exs) hs = (cs, Some fr) ->
  first_selfres fr = true ->
  encode_frag opt fr = Ok fe ->
  moof_size fe + md_header_size (fr_mdat fe) + lenN (md_data (fr_mdat fr)) < 2147483648 ->
  pos0 + fr_pre fe < 4611686018427387904 ->
  consistent (added_fulls tracks (tx_track tx) (adds hs)) ->
  get_full_samples (decoded_view fe pos0 []) (Some tx) = Ok (added_fulls tracks (tx_track tx) (adds hs)).
Proof. exact roundtrip_encodes_first. Qed.
Print Assumptions C05_roundtrip_with_encodes_first.

(* the guard is what fails in finding C05-F10 (known): two samples of duration 10, Encode with OptimizeTrun, a third
   sample of duration 20, Encode: enc_guard is false and the third sample reads back with duration 10 *)
Theorem C05_encodes_opt_refuted :
  exists cs fr fe l,
    plain f10_hs = false /\
    run_hops (with_extras (create_multi [1]) 0 0 0 []) f10_hs = (cs, Some fr) /\
    enc_guard fr = false /\
    encode_frag false fr = Ok fe /\
    get_full_samples (decoded_view fe 0 []) (Some (mkTrex 1 0 0 0)) = Ok l /\
    l = [mkFull (f10_s 10) 0 [1]; mkFull (f10_s 10) 10 [2]; mkFull (f10_s 10) 20 [3]] /\
    l <> added_fulls [1] 1 (adds f10_hs).
Proof. exact encodes_opt_refuted. Qed.
Print Assumptions C05_encodes_opt_refuted.

(* the simulation behind the theorems above, for ANY starting fragment and ALL SIX add operations: a history with
   Encode calls accepts / refuses / panics on the same additions as the additions alone and reaches a fragment that
   differs from theirs at most in data offsets, the large-size mark and (after optimised Encodes) flag word + tfhd
   defaults: same write-order numbers, same samples per trun, same tfdt, same track ids, same mdat contents, same
   nextTrunNr *)
Theorem C05_encodes_simulation : forall hs a cs a',
  run_hops a hs = (cs, Some a') ->
  exists b', run_ops a (adds hs) = (add_classes hs cs, Some b') /\ fsimW a' b'.
Proof. exact encodes_simulation. Qed.
Print Assumptions C05_encodes_simulation.

(* the final Encode of the theorems is the same state transformer *)
Theorem C05_encode_frag_state : forall opt fr fe, encode_frag opt fr = Ok fe -> encode_state opt fr = (COk, Some fe).
Proof. exact encode_frag_state. Qed.
Print Assumptions C05_encode_frag_state.

(* ---------------------------------------------------------------- DecodeTrun's 1024 guard, any flag word *)
(* C05_optimized_trun_decodes for EVERY trun that has the composition-offset field, whatever its other flags (the
   all_present hypothesis is not needed): the bytes of the optimised trun decode, for any number of samples *)
Theorem C05_optimized_trun_decodes_cto : forall tf tr tf' tr' d,
  has_cto tr = true -> optimize tf tr = Ok (tf', tr') -> trun_fields_wf (tr_with_doff tr' d) = true ->
  dec_trun (trun_size (tr_with_doff tr' d)) (enc_trun_body (tr_with_doff tr' d)) = Ok (wire_trun (tr_with_doff tr' d)).
Proof. exact optimized_trun_decodes_cto. Qed.
Print Assumptions C05_optimized_trun_decodes_cto.

(* ... and the hypothesis is exact: a trun WITHOUT that field (flags 0x701) with 1025 equal samples is optimised to no
   per-sample field and refused.  CreateTrun always sets 0xf01, so within the property's histories (additions, then
   ONE Encode) such a trun does not occur; it does occur through the API after an EARLIER Encode with OptimizeTrun: *)
Theorem C05_optimized_trun_nocto_refuted : exists tf tr tf' tr',
  has_cto tr = false /\ has_dur tr && has_size tr && has_sflags tr = true /\
  forallb sample_wf (tr_samples tr) = true /\
  optimize tf tr = Ok (tf', tr') /\
  dec_trun (trun_size (tr_with_doff tr' 100)) (enc_trun_body (tr_with_doff tr' 100)) = Err.
Proof. exact optimized_trun_nocto_refuted. Qed.
Print Assumptions C05_optimized_trun_nocto_refuted.

(* CreateFragment; 2 equal samples; Encode with OptimizeTrun; 1023 more equal samples; Encode: enc_guard holds (all
   values are the defaults), the trun written has 1025 samples and flags 0x001 and DecodeTrun refuses it (reproduced on
   the real code: search probe:bareafteropt; same class as the known finding C05-F10, outside the quantifier) *)
Theorem C05_encodes_opt_bare_refuted :
  exists cs fr fe t r,
    run_hops (create_fragment 1) bare_hs = (cs, Some fr) /\
    enc_guard fr = true /\
    encode_frag true fr = Ok fe /\
    fr_trafs fe = [t] /\ tf_truns t = [r] /\ length (tr_samples r) = 1025%nat /\ tr_flags r = 1 /\
    forallb sample_wf (tr_samples r) = true /\
    dec_trun (trun_size r) (enc_trun_body r) = Err.
Proof. exact encodes_opt_bare_refuted. Qed.
Print Assumptions C05_encodes_opt_bare_refuted.

(* ---------------------------------------------------------------- the base of the data offsets *)
(* GetFullSamples resolves the trun data offsets against moof.StartPos (df_moof_start = position of the moof box =
   pos0 + size of the boxes that precede it in the fragment), NOT against the start of the fragment: with the fragment
   start as the base (with_base ... pos0) a fragment with a 60-byte emsg in front of its moof does not read back *)
Theorem C05_base_is_moof_start :
  (forall d, with_base d (df_moof_start d) = d) /\
  (forall fe pos0 lz, df_moof_start (decoded_view fe pos0 lz) = pos0 + fr_pre fe) /\
  exists cs fr fe,
    let ops := [OFullTo 1 (f10_s 10) 0 [7]] in
    run_ops (with_extras (create_multi [1]) 60 0 0 []) ops = (cs, Some fr) /\
    encode_frag false fr = Ok fe /\ fr_pre fe = 60 /\
    get_full_samples (decoded_view fe 1000 []) (Some (mkTrex 1 0 0 0)) = Ok (added_fulls [1] 1 ops) /\
    get_full_samples (with_base (decoded_view fe 1000 []) 1000) (Some (mkTrex 1 0 0 0)) <> Ok (added_fulls [1] 1 ops).
Proof. exact base_is_moof_start. Qed.
Print Assumptions C05_base_is_moof_start.

(* the same at the level of a DECODED segment (any head, any fragments with emsg / other boxes before the moof, after the
   mdat and between the fragments): the base of every decoded fragment is the stream position of ITS MOOF BOX
   (moof_starts = position of the fragment's first box + sizes of the boxes in front of the moof, moof_starts_frag_starts),
   and Fragment.GetFullSamples on it is get_full_samples with exactly that base: the segment theorems
   (C05_segment_roundtrip_emsg, _any, ...) read through seg_get_full, so they are statements about this base *)
Theorem C05_segment_base_is_moof_start : forall head its b pos0,
  head_ok head = true -> forallb item_kinds its = true ->
  exists st, seg_decode b pos0 (seg_stream head its) = Ok st /\
             map dfr_base (file_frags st) = map Some (moof_starts (pos0 + xsum head) its) /\
             (forall f tx start trafs pabs data,
                In f (file_frags st) -> dr_moof f = Some (start, trafs) -> dr_mdat f = Some (pabs, data) ->
                seg_get_full f tx = get_full_samples (with_base (mkDfrag trafs data 0 pabs) start) tx).
Proof. exact segment_base_is_moof_start. Qed.
Print Assumptions C05_segment_base_is_moof_start.

(* the hypotheses of C05_roundtrip_with_encodes are satisfiable by a non-trivial history: three tracks, a plain Encode
   after the second addition (one trun exists, its offset is written), one after the fourth (three truns), an unknown
   id, optimisation in the final Encode; the conclusion is also checked by computation *)
Example C05_roundtrip_with_encodes_ex :
  let s k := mkSample 16842752 10 k 0 in
  let hs := [HAdd (OFullTo 2 (s 1) 100 [1]); HAdd (OFullTo 2 (s 2) 110 [2;3]); HEnc false; HAdd (OFullTo 1 (s 1) 0 [4]);
             HAdd (OFullTo 9 (s 1) 0 [9]); HAdd (OFullTo 2 (s 1) 120 [5]); HEnc false; HAdd (OFullTo 3 (s 0) 7 [])] in
  let tx := mkTrex 2 7 9 65536 in
  NoDup [1; 2; 3] /\ plain hs = true /\ forallb is_full_to (adds hs) = true /\
  Forall (fun o => sized_f (op_full o)) (adds hs) /\
  consistent (added_fulls [1; 2; 3] (tx_track tx) (adds hs)) /\
  exists fr fe, run_hops (with_extras (create_multi [1; 2; 3]) 77 9 12 [0; 26]) hs
                  = ([COk; COk; COk; COk; CErr; COk; COk; COk], Some fr) /\
                map (fun t => map tr_doff (tf_truns t)) (fr_trafs fr) = [[314%Z]; [311%Z; 315%Z]; [0%Z]] /\
                encode_frag true fr = Ok fe /\
                get_full_samples (decoded_view fe 1000 []) (Some tx)
                  = Ok [mkFull (s 1) 100 [1]; mkFull (s 2) 110 [2;3]; mkFull (s 1) 120 [5]].
Proof.
  split; [repeat constructor; cbn; intuition congruence|]. split; [reflexivity|]. split; [reflexivity|].
  split; [repeat constructor|]. split; [split; [cbn; lia|reflexivity]|].
  eexists; eexists. split; [vm_compute; reflexivity|]. split; [vm_compute; reflexivity|].
  split; [vm_compute; reflexivity|]. vm_compute. reflexivity.
Qed.

(* enc_guard is satisfiable after an optimised Encode by additions that agree with the defaults in the dropped fields
   (duration 10, flags, cto 0) and differ in the field that stayed (size) *)
Example C05_roundtrip_with_encodes_guarded_ex :
  let s k := mkSample 16842752 10 k 0 in
  let hs := [HAdd (OFullTo 1 (s 1) 0 [1]); HAdd (OFullTo 1 (s 2) 10 [2;3]); HEnc true; HAdd (OFullTo 1 (s 3) 20 [4;5;6])] in
  exists cs fr fe, run_hops (with_extras (create_multi [1]) 0 0 0 []) hs = (cs, Some fr) /\ plain hs = false /\
    enc_guard fr = true /\ encode_frag true fr = Ok fe /\
    get_full_samples (decoded_view fe 0 []) (Some (mkTrex 1 0 0 0)) = Ok (added_fulls [1] 1 (adds hs)).
Proof.
  eexists; eexists; eexists. split; [vm_compute; reflexivity|]. split; [reflexivity|].
  split; [vm_compute; reflexivity|]. split; [vm_compute; reflexivity|]. vm_compute. reflexivity.
Qed.

(* hypotheses of C05_roundtrip_with_encodes_modes in the metadata-only mode: AddSamples of two samples, a plain Encode,
   an addition to an unknown track (refused), AddSample, another plain Encode; the caller writes 6 bytes *)
Example C05_roundtrip_with_encodes_modes_ex :
  let s k := mkSample 16842752 10 k 0 in
  let hs := [HAdd (OMetas [s 2; s 1] 500); HEnc false; HAdd (OMetaTo 9 (s 1) 0); HAdd (OMeta (s 3) 520); HEnc false] in
  let FL := [mkFull (s 2) 0 [1;2]; mkFull (s 1) 0 [3]; mkFull (s 3) 0 [4;5;6]] in
  exists fr fe, run_hops (with_extras (create_fragment 4) 20 0 8 [5]) hs = ([COk; COk; CErr; COk; COk], Some fr) /\
    plain hs = true /\ md_large (fr_mdat fr) = false /\
    add_classes hs [COk; COk; CErr; COk; COk] = [COk; CErr; COk] /\
    mode_ok (adds hs) [COk; CErr; COk] FL [1;2;3;4;5;6] /\ map fs_s FL = added1 4 (adds hs) /\ Forall sized_f FL /\
    encode_frag true fr = Ok fe /\
    get_full_samples (decoded_view fe 300 [1;2;3;4;5;6]) (Some (mkTrex 4 0 0 0))
      = Ok [mkFull (s 2) 500 [1;2]; mkFull (s 1) 510 [3]; mkFull (s 3) 520 [4;5;6]].
Proof.
  eexists; eexists. split; [vm_compute; reflexivity|]. split; [reflexivity|]. split; [reflexivity|]. split; [reflexivity|].
  split; [right; left; split; reflexivity|].
  split; [reflexivity|]. split; [repeat constructor|]. split; [vm_compute; reflexivity|]. vm_compute. reflexivity.
Qed.
