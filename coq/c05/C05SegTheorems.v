(* C05SegTheorems.v — the property theorems of C05 at the level of a whole media segment, and nothing else.
   Each is closed by `exact <lemma>` and followed by Print Assumptions (audited by ./check on every run). *)
From V.lib Require Import Base.
From V.c05 Require Import C05Model C05FragModel C05GhostProofs C05RoundProofs C05SegModel C05SegProofs.
From V.c05 Require Import C05CodecModel C05CodecProofs C05OptProofs C05ReadProofs C05SegCodecModel C05SegCodecProofs.

(* DecodeFile / DecodeFileSR on the box stream of a segment (nothing or styp followed by any sidx boxes, then the
   fragments, each with emsg / ignored boxes before its moof, after its mdat and between the fragments, ANY sizes)
   regroups the stream into exactly one decoded fragment per encoded fragment, in order, whose moof start position
   and mdat payload position are the stream positions of those boxes (items_dfrs), whether or not an init segment
   precedes the stream (b) and wherever the stream starts (pos0). *)
Theorem C05_segment_decode : forall head its b pos0,
  head_ok head = true -> forallb item_kinds its = true ->
  exists st, seg_decode b pos0 (seg_stream head its) = Ok st /\
             file_frags st = items_dfrs (pos0 + xsum head) its.
Proof. exact decode_stream. Qed.
Print Assumptions C05_segment_decode.

(* the independence of the fragments made a lemma: if every fragment, seen alone at ANY position p, reads back e
   (which is what C05_roundtrip and its variants state, pos0 being universally quantified there), then reading the
   decoded segment fragment by fragment in order returns the concatenation, wherever each fragment happens to lie *)
Theorem C05_segment_independent : forall head its exps b pos0 tx,
  head_ok head = true -> forallb item_kinds its = true ->
  Forall (fun it => item_pure it = true /\ fr_pre (ei_fe it) = xsum (ei_pre it)) its ->
  Forall2 (fun it e => forall p, p + fr_pre (ei_fe it) < POSB ->
                       get_full_samples (decoded_view (ei_fe it) p (ei_lz it)) tx = Ok e) its exps ->
  pos0 + stream_size (seg_stream head its) < POSB ->
  exists st, seg_decode b pos0 (seg_stream head its) = Ok st /\
             length (file_frags st) = length its /\
             seg_read st tx = Ok (concat exps).
Proof. exact segment_generic. Qed.
Print Assumptions C05_segment_independent.

(* C05_segment_roundtrip.  For ANY list of fragment histories hs (each as in C05_roundtrip: a multi-track fragment
   with pairwise different ids, any history of AddFullSampleToTrack with Sample.Size = len(Data), extra boxes of any
   size in moof and trafs, emsg/prft/free/uuid/unknown boxes before the moof, after the mdat and between the
   fragments), optimisation on or off, any head (none, or styp + any sidx boxes), with or without init segment and
   any trex: if MediaSegment.Encode succeeds (encode_frags), every fragment stays below 2 GiB and the added decode
   times are consistent with the durations, then the stream is well framed, DecodeFile succeeds, yields one
   fragment per history, and reading trex's track fragment by fragment in order returns exactly the concatenation of
   the added full samples (bytes, size, duration, flags, composition offset, decode time). *)
Theorem C05_segment_roundtrip : forall head opt b pos0 tx hs frs fes,
  head_ok head = true -> Forall hist_ok hs ->
  Forall2 (fun h fr => hist_frag h = Some fr) hs frs ->
  encode_frags opt frs = Ok fes ->
  Forall2 frag_guard frs fes ->
  Forall (fun h => consistent (added_fulls (fh_tracks h) (tx_track tx) (fh_ops h))) hs ->
  let its := hist_items hs fes in
  pos0 + stream_size (seg_stream head its) < POSB ->
  forallb item_framed its = true /\
  exists st, seg_decode b pos0 (seg_stream head its) = Ok st /\
    length (file_frags st) = length hs /\
    seg_read st (Some tx) = Ok (flat_map (fun h => added_fulls (fh_tracks h) (tx_track tx) (fh_ops h)) hs).
Proof. exact segment_roundtrip. Qed.
Print Assumptions C05_segment_roundtrip.

(* the hypotheses are satisfiable by a non-trivial segment: styp + sidx, two fragments over tracks [1;2] and [2;1],
   an emsg and a prft before the first moof, a free box after the first mdat, an emsg between the fragments,
   optimisation on, an init segment of 700 bytes before the stream; the conclusion is also checked by computation *)
Example C05_segment_roundtrip_ex :
  let s k := mkSample 16842752 10 k 0 in
  let emsg := mkX XEmsg 60 0 [] in
  let other n := mkX XOther n 0 [] in
  let head := [mkX XStyp 24 0 []; mkX XSidx 44 0 [mkSref 0 500]] in
  let h1 := mkFhist [1; 2] [emsg; other 32] 9 [other 12] [0; 26]
              [OFullTo 2 (s 1) 100 [1]; OFullTo 2 (s 2) 110 [2;3]; OFullTo 1 (s 1) 0 [4]; OFullTo 9 (s 1) 0 [9]] [emsg] in
  let h2 := mkFhist [2; 1] [] 0 [] [] [OFullTo 2 (s 3) 120 [5;6;7]; OFullTo 1 (s 2) 10 [8;9]] [other 8] in
  let tx := mkTrex 2 7 9 65536 in
  head_ok head = true /\ Forall hist_ok [h1; h2] /\
  Forall (fun h => consistent (added_fulls (fh_tracks h) (tx_track tx) (fh_ops h))) [h1; h2] /\
  exists fr1 fr2 fes st,
    hist_frag h1 = Some fr1 /\ hist_frag h2 = Some fr2 /\ encode_frags true [fr1; fr2] = Ok fes /\
    Forall2 frag_guard [fr1; fr2] fes /\
    seg_decode true 700 (seg_stream head (hist_items [h1; h2] fes)) = Ok st /\
    map (fun f => option_map fst (dr_moof f)) (file_frags st) = [Some 860; Some 1171] /\
    seg_read st (Some tx) = Ok [mkFull (s 1) 100 [1]; mkFull (s 2) 110 [2;3]; mkFull (s 3) 120 [5;6;7]].
Proof.
  cbv zeta. split; [reflexivity|]. split.
  { repeat constructor; cbn; intuition congruence. }
  split.
  { repeat constructor; cbn; lia. }
  eexists; eexists; eexists; eexists.
  split; [vm_compute; reflexivity|]. split; [vm_compute; reflexivity|]. split; [vm_compute; reflexivity|].
  split; [repeat constructor; vm_compute; reflexivity|].
  split; [vm_compute; reflexivity|]. split; vm_compute; reflexivity.
Qed.

(* ---------------------------------------------------------------- byte level: framing around tfhd / trun *)

(* tfdt: SetBaseMediaDecodeTime selects version 0 / 1 by value; DecodeTfdtSR of the written body gives it back *)
Theorem C05_tfdt_codec : forall t,
  t < 18446744073709551616 -> dec_tfdt (tfdt_body (set_base t)) = Ok (set_base t) /\
                              enc_tfdt (set_base t) = box T_TFDT (tfdt_body (set_base t)).
Proof. exact tfdt_codec. Qed.
Print Assumptions C05_tfdt_codec.

(* the whole byte string Fragment.Encode writes for a fragment without boxes before the moof / after the mdat and
   without extra children in moof and trafs (enc_fragment = moof ++ mdat, byte for byte as compared with
   MoofBox.Encode by the correspondence): parsing it box by box (box headers incl. the 16-byte large-size mdat
   header, mfhd, traf children tfhd / tfdt v0 or v1 / truns) gives the moof in wire view and the mdat payload *)
Theorem C05_fragment_codec : forall seq fe bytes,
  frag_codec_wf fe = true -> seq < 4294967296 -> mdat_wf (fr_mdat fe) = true ->
  enc_fragment seq fe = Ok bytes ->
  dec_top (length bytes) bytes =
    Ok [BMoof (moof_size fe) (wire_dmoof seq fe); BMdat (md_header_size (fr_mdat fe)) (md_written (fr_mdat fe))].
Proof. exact dec_enc_fragment. Qed.
Print Assumptions C05_fragment_codec.

(* C05_roundtrip end to end on the real byte string of one fragment (fields within their wire widths: frag_width_wf).
   No bound on the number of samples of a trun: that DecodeTrun's count guard ("sampleCount is big but no sample data
   present") accepts every trun Fragment.Encode writes for such a history is proved (C05_optimized_trun_decodes, after
   fix 6c7a902; before it the statement needed the guard, see C05_optimized_trun_pinned_refuted) *)
Theorem C05_roundtrip_bytes : forall tracks post ops cs fr opt fe seq bytes pos0 tx,
  NoDup tracks -> N.of_nat (length ops) < 4294967296 -> forallb is_full_to ops = true ->
  Forall (fun o => sized_f (op_full o)) ops ->
  run_ops (with_extras (create_multi tracks) 0 0 post []) ops = (cs, Some fr) ->
  encode_frag opt fr = Ok fe ->
  moof_size fe + md_header_size (fr_mdat fe) + lenN (md_data (fr_mdat fr)) < 2147483648 ->
  pos0 < 4611686018427387904 ->
  consistent (added_fulls tracks (tx_track tx) ops) ->
  frag_width_wf fe = true -> seq < 4294967296 ->
  enc_fragment seq fe = Ok bytes ->
  exists m payload d,
    dec_top (length bytes) bytes = Ok [BMoof (moof_size fe) m; BMdat (md_header_size (fr_mdat fe)) payload] /\
    bytes_view m payload pos0 (moof_size fe) (md_header_size (fr_mdat fe)) = Some d /\
    get_full_samples d (Some tx) = Ok (added_fulls tracks (tx_track tx) ops).
Proof. exact roundtrip_bytes. Qed.
Print Assumptions C05_roundtrip_bytes.

(* OptimizeTfhdTrun never writes a trun DecodeTrun refuses: for ANY trun carrying the four per-sample fields (every
   trun CreateTrun makes) and ANY number of samples, the bytes of the optimised trun decode to its wire view *)
Theorem C05_optimized_trun_decodes : forall tf tr tf' tr' d,
  all_present tr = true -> optimize tf tr = Ok (tf', tr') -> trun_fields_wf (tr_with_doff tr' d) = true ->
  dec_trun (trun_size (tr_with_doff tr' d)) (enc_trun_body (tr_with_doff tr' d)) = Ok (wire_trun (tr_with_doff tr' d)).
Proof. exact optimized_trun_decodes. Qed.
Print Assumptions C05_optimized_trun_decodes.

(* ... which the text before fix 6c7a902 (optimize_f7) did: more than 1024 samples of equal duration, size and flags and
   zero composition offsets were written as a trun that DecodeTrun refuses (finding C05-F7, fixed) *)
Theorem C05_optimized_trun_pinned_refuted : exists tf tr tf' tr',
  all_present tr = true /\ forallb sample_wf (tr_samples tr) = true /\
  optimize_f7 tf tr = Ok (tf', tr') /\
  dec_trun (trun_size (tr_with_doff tr' 100)) (enc_trun_body (tr_with_doff tr' 100)) = Err.
Proof. exact big_uniform_refuted. Qed.
Print Assumptions C05_optimized_trun_pinned_refuted.

(* the same 1025 samples with the repaired text: the composition-offset field stays, the bytes decode *)
Example C05_optimized_trun_decodes_ex :
  let tr := mkTrun 1 3841 0 0 (repeat (mkSample 16842752 10 1 0) 1025) 0 in
  exists tf' tr', all_present tr = true /\ optimize (create_tfhd 1) tr = Ok (tf', tr') /\ tr_flags tr' = 2049 /\
                  trun_fields_wf (tr_with_doff tr' 100) = true.
Proof. cbv zeta. eexists; eexists. split; [reflexivity|]. split; [vm_compute; reflexivity|]. split; vm_compute; reflexivity. Qed.

(* hypotheses of C05_roundtrip_bytes are satisfiable: two tracks, three runs, optimisation on, a decode time that
   needs tfdt version 1; the bytes are computed and decoded by computation as well *)
Example C05_roundtrip_bytes_ex :
  let s k := mkSample 16842752 10 k 0 in
  let ops := [OFullTo 2 (s 1) 4294967296 [1]; OFullTo 2 (s 2) 4294967306 [2;3]; OFullTo 1 (s 1) 0 [4]; OFullTo 2 (s 1) 4294967316 [5]] in
  exists fr fe bytes,
    run_ops (with_extras (create_multi [1; 2]) 0 0 0 []) ops = ([COk; COk; COk; COk], Some fr) /\
    encode_frag true fr = Ok fe /\ frag_width_wf fe = true /\ enc_fragment 7 fe = Ok bytes /\
    length bytes = 245%nat /\
    exists m payload, dec_top (length bytes) bytes = Ok [BMoof (moof_size fe) m; BMdat 8 payload] /\ payload = [1;2;3;4;5] /\
                      dm_seq m = Some 7.
Proof.
  eexists; eexists; eexists. split; [vm_compute; reflexivity|]. split; [vm_compute; reflexivity|].
  split; [vm_compute; reflexivity|]. split; [vm_compute; reflexivity|]. split; [vm_compute; reflexivity|].
  eexists; eexists. split; [vm_compute; reflexivity|]. split; reflexivity.
Qed.

(* (c) mixed data modes in one fragment (metadata-only additions mixed with full samples or intervals) are REFUTED:
   the fragment encodes, but either the mdat header does not announce the bytes that follow it (the stream is not a
   sequence of boxes) or the samples read back are not the ones added.  Reproduced on the real code: known finding
   C05-F8; the positive theorems state one data mode per fragment. *)
Theorem C05_mixed_modes_refuted :
  (exists ops fr fe lz,
     run_ops (create_fragment 1) ops = ([COk; COk], Some fr) /\ encode_frag false fr = Ok fe /\
     lenN lz = 2 /\ item_framed (mkEitem [] fe [] lz []) = false) /\
  (exists ops fr fe,
     run_ops (create_fragment 1) ops = ([COk; COk], Some fr) /\ encode_frag false fr = Ok fe /\
     item_framed (mkEitem [] fe [] [] []) = true /\
     seg_get_full (item_dfr 0 (mkEitem [] fe [] [] [])) None <> Ok [mkFull (mkSample 0 10 2 0) 0 [1; 2]; mkFull (mkSample 0 10 3 0) 10 [7; 8; 9]]).
Proof. exact mixed_modes_refuted. Qed.
Print Assumptions C05_mixed_modes_refuted.
