(* C05SegTheorems.v — the property theorems of C05 at the level of a whole media segment, and nothing else.
   Each is closed by `exact <lemma>` and followed by Print Assumptions (audited by ./check on every run). *)
From V.lib Require Import Base.
From V.c05 Require Import C05Model C05FragModel C05GhostProofs C05RoundProofs C05SegModel C05SegProofs.
From V.c05 Require Import C05CodecModel C05CodecProofs C05OptProofs C05ReadProofs C05SegCodecModel C05SegCodecProofs.
From Coq Require Import Permutation.
From V.c05 Require Import C05HistProofs C05LazyProofs C05SingleProofs C05EmsgModel C05EmsgProofs C05SegAnyProofs C05SidxProofs.

(* DecodeFile / DecodeFileSR on the box stream of a segment (nothing or styp followed by any sidx boxes, then the
   fragments, each with emsg / ignored boxes before its moof, after its mdat and between the fragments, ANY sizes)
   regroups the stream into exactly one decoded fragment per encoded fragment, in order, whose moof start position
   and mdat payload position are the stream positions of those boxes (items_dfrs), whether or not an init segment
   precedes the stream (b) and wherever the stream starts (pos0). *)
Theorem C05_segment_decode : forall head its b pos0,
  head_ok head = true -> forallb item_kinds its = true ->
  exists st, seg_decode b pos0 (seg_stream head its) = Ok st /\
             file_frags st = items_dfrs (pos0 + xsum head) its.
Proof. exact decode_stream. Qed.
Print Assumptions C05_segment_decode.

(* the independence of the fragments made a lemma: if every fragment, seen alone at ANY position p, reads back e
   (which is what C05_roundtrip and its variants state, pos0 being universally quantified there), then reading the
   decoded segment fragment by fragment in order returns the concatenation, wherever each fragment happens to lie *)
Theorem C05_segment_independent : forall head its exps b pos0 tx,
  head_ok head = true -> forallb item_kinds its = true ->
  Forall (fun it => item_pure it = true /\ fr_pre (ei_fe it) = xsum (ei_pre it)) its ->
  Forall2 (fun it e => forall p, p + fr_pre (ei_fe it) < POSB ->
                       get_full_samples (decoded_view (ei_fe it) p (ei_lz it)) tx = Ok e) its exps ->
  pos0 + stream_size (seg_stream head its) < POSB ->
  exists st, seg_decode b pos0 (seg_stream head its) = Ok st /\
             length (file_frags st) = length its /\
             seg_read st tx = Ok (concat exps).
Proof. exact segment_generic. Qed.
Print Assumptions C05_segment_independent.

(* C05_segment_roundtrip.  For ANY list of fragment histories hs (each as in C05_roundtrip: a multi-track fragment
   with pairwise different ids, any history of AddFullSampleToTrack with Sample.Size = len(Data), extra boxes of any
   size in moof and trafs, emsg/prft/free/uuid/unknown boxes before the moof, after the mdat and between the
   fragments), optimisation on or off, any head (none, or styp + any sidx boxes), with or without init segment and
   any trex: if MediaSegment.Encode succeeds (encode_frags), every fragment stays below 2 GiB and the added decode
   times are consistent with the durations, then the stream is well framed, DecodeFile succeeds, yields one
   fragment per history, and reading trex's track fragment by fragment in order returns exactly the concatenation of
   the added full samples (bytes, size, duration, flags, composition offset, decode time). *)
Theorem C05_segment_roundtrip : forall head opt b pos0 tx hs frs fes,
  head_ok head = true -> Forall hist_ok hs ->
  Forall2 (fun h fr => hist_frag h = Some fr) hs frs ->
  encode_frags opt frs = Ok fes ->
  Forall2 frag_guard frs fes ->
  Forall (fun h => consistent (added_fulls (fh_tracks h) (tx_track tx) (fh_ops h))) hs ->
  let its := hist_items hs fes in
  pos0 + stream_size (seg_stream head its) < POSB ->
  forallb item_framed its = true /\
  exists st, seg_decode b pos0 (seg_stream head its) = Ok st /\
    length (file_frags st) = length hs /\
    seg_read st (Some tx) = Ok (flat_map (fun h => added_fulls (fh_tracks h) (tx_track tx) (fh_ops h)) hs).
Proof. exact segment_roundtrip. Qed.
Print Assumptions C05_segment_roundtrip.

(* the hypotheses are satisfiable by a non-trivial segment: styp + sidx, two fragments over tracks [1;2] and [2;1],
   an emsg and a prft before the first moof, a free box after the first mdat, an emsg between the fragments,
   optimisation on, an init segment of 700 bytes before the stream; the conclusion is also checked by computation *)
Example C05_segment_roundtrip_ex :
  let s k := mkSample 16842752 10 k 0 in
  let emsg := mkX XEmsg 60 0 [] in
  let other n := mkX XOther n 0 [] in
  let head := [mkX XStyp 24 0 []; mkX XSidx 44 0 [mkSref 0 500]] in
  let h1 := mkFhist [1; 2] [emsg; other 32] 9 [other 12] [0; 26]
              [OFullTo 2 (s 1) 100 [1]; OFullTo 2 (s 2) 110 [2;3]; OFullTo 1 (s 1) 0 [4]; OFullTo 9 (s 1) 0 [9]] [emsg] in
  let h2 := mkFhist [2; 1] [] 0 [] [] [OFullTo 2 (s 3) 120 [5;6;7]; OFullTo 1 (s 2) 10 [8;9]] [other 8] in
  let tx := mkTrex 2 7 9 65536 in
  head_ok head = true /\ Forall hist_ok [h1; h2] /\
  Forall (fun h => consistent (added_fulls (fh_tracks h) (tx_track tx) (fh_ops h))) [h1; h2] /\
  exists fr1 fr2 fes st,
    hist_frag h1 = Some fr1 /\ hist_frag h2 = Some fr2 /\ encode_frags true [fr1; fr2] = Ok fes /\
    Forall2 frag_guard [fr1; fr2] fes /\
    seg_decode true 700 (seg_stream head (hist_items [h1; h2] fes)) = Ok st /\
    map (fun f => option_map fst (dr_moof f)) (file_frags st) = [Some 860; Some 1171] /\
    seg_read st (Some tx) = Ok [mkFull (s 1) 100 [1]; mkFull (s 2) 110 [2;3]; mkFull (s 3) 120 [5;6;7]].
Proof.
  cbv zeta. split; [reflexivity|]. split.
  { repeat constructor; cbn; intuition congruence. }
  split.
  { repeat constructor; cbn; lia. }
  eexists; eexists; eexists; eexists.
  split; [vm_compute; reflexivity|]. split; [vm_compute; reflexivity|]. split; [vm_compute; reflexivity|].
  split; [repeat constructor; vm_compute; reflexivity|].
  split; [vm_compute; reflexivity|]. split; vm_compute; reflexivity.
Qed.

(* ---------------------------------------------------------------- byte level: framing around tfhd / trun *)

(* tfdt: SetBaseMediaDecodeTime selects version 0 / 1 by value; DecodeTfdtSR of the written body gives it back *)
Theorem C05_tfdt_codec : forall t,
  t < 18446744073709551616 -> dec_tfdt (tfdt_body (set_base t)) = Ok (set_base t) /\
                              enc_tfdt (set_base t) = box T_TFDT (tfdt_body (set_base t)).
Proof. exact tfdt_codec. Qed.
Print Assumptions C05_tfdt_codec.

(* the whole byte string Fragment.Encode writes for a fragment without boxes before the moof / after the mdat and
   without extra children in moof and trafs (enc_fragment = moof ++ mdat, byte for byte as compared with
   MoofBox.Encode by the correspondence): parsing it box by box (box headers incl. the 16-byte large-size mdat
   header, mfhd, traf children tfhd / tfdt v0 or v1 / truns) gives the moof in wire view and the mdat payload *)
Theorem C05_fragment_codec : forall seq fe bytes,
  frag_codec_wf fe = true -> seq < 4294967296 -> mdat_wf (fr_mdat fe) = true ->
  enc_fragment seq fe = Ok bytes ->
  dec_top (length bytes) bytes =
    Ok [BMoof (moof_size fe) (wire_dmoof seq fe); BMdat (md_header_size (fr_mdat fe)) (md_written (fr_mdat fe))].
Proof. exact dec_enc_fragment. Qed.
Print Assumptions C05_fragment_codec.

(* C05_roundtrip end to end on the real byte string of one fragment (fields within their wire widths: frag_width_wf).
   No bound on the number of samples of a trun: that DecodeTrun's count guard ("sampleCount is big but no sample data
   present") accepts every trun Fragment.Encode writes for such a history is proved (C05_optimized_trun_decodes, after
   fix 6c7a902; before it the statement needed the guard, see C05_optimized_trun_pinned_refuted) *)
Theorem C05_roundtrip_bytes : forall tracks post ops cs fr opt fe seq bytes pos0 tx,
  NoDup tracks -> N.of_nat (length ops) < 4294967296 -> forallb is_full_to ops = true ->
  Forall (fun o => sized_f (op_full o)) ops ->
  run_ops (with_extras (create_multi tracks) 0 0 post []) ops = (cs, Some fr) ->
  encode_frag opt fr = Ok fe ->
  moof_size fe + md_header_size (fr_mdat fe) + lenN (md_data (fr_mdat fr)) < 2147483648 ->
  pos0 < 4611686018427387904 ->
  consistent (added_fulls tracks (tx_track tx) ops) ->
  frag_width_wf fe = true -> seq < 4294967296 ->
  enc_fragment seq fe = Ok bytes ->
  exists m payload d,
    dec_top (length bytes) bytes = Ok [BMoof (moof_size fe) m; BMdat (md_header_size (fr_mdat fe)) payload] /\
    bytes_view m payload pos0 (moof_size fe) (md_header_size (fr_mdat fe)) = Some d /\
    get_full_samples d (Some tx) = Ok (added_fulls tracks (tx_track tx) ops).
Proof. exact roundtrip_bytes. Qed.
Print Assumptions C05_roundtrip_bytes.

(* OptimizeTfhdTrun never writes a trun DecodeTrun refuses: for ANY trun carrying the four per-sample fields (every
   trun CreateTrun makes) and ANY number of samples, the bytes of the optimised trun decode to its wire view *)
Theorem C05_optimized_trun_decodes : forall tf tr tf' tr' d,
  all_present tr = true -> optimize tf tr = Ok (tf', tr') -> trun_fields_wf (tr_with_doff tr' d) = true ->
  dec_trun (trun_size (tr_with_doff tr' d)) (enc_trun_body (tr_with_doff tr' d)) = Ok (wire_trun (tr_with_doff tr' d)).
Proof. exact optimized_trun_decodes. Qed.
Print Assumptions C05_optimized_trun_decodes.

(* ... which the text before fix 6c7a902 (optimize_f7) did: more than 1024 samples of equal duration, size and flags and
   zero composition offsets were written as a trun that DecodeTrun refuses (finding C05-F7, fixed) *)
Theorem C05_optimized_trun_pinned_refuted : exists tf tr tf' tr',
  all_present tr = true /\ forallb sample_wf (tr_samples tr) = true /\
  optimize_f7 tf tr = Ok (tf', tr') /\
  dec_trun (trun_size (tr_with_doff tr' 100)) (enc_trun_body (tr_with_doff tr' 100)) = Err.
Proof. exact big_uniform_refuted. Qed.
Print Assumptions C05_optimized_trun_pinned_refuted.

(* the same 1025 samples with the repaired text: the composition-offset field stays, the bytes decode *)
Example C05_optimized_trun_decodes_ex :
  let tr := mkTrun 1 3841 0 0 (repeat (mkSample 16842752 10 1 0) 1025) 0 in
  exists tf' tr', all_present tr = true /\ optimize (create_tfhd 1) tr = Ok (tf', tr') /\ tr_flags tr' = 2049 /\
                  trun_fields_wf (tr_with_doff tr' 100) = true.
Proof. cbv zeta. eexists; eexists. split; [reflexivity|]. split; [vm_compute; reflexivity|]. split; vm_compute; reflexivity. Qed.

(* hypotheses of C05_roundtrip_bytes are satisfiable: two tracks, three runs, optimisation on, a decode time that
   needs tfdt version 1; the bytes are computed and decoded by computation as well *)
Example C05_roundtrip_bytes_ex :
  let s k := mkSample 16842752 10 k 0 in
  let ops := [OFullTo 2 (s 1) 4294967296 [1]; OFullTo 2 (s 2) 4294967306 [2;3]; OFullTo 1 (s 1) 0 [4]; OFullTo 2 (s 1) 4294967316 [5]] in
  exists fr fe bytes,
    run_ops (with_extras (create_multi [1; 2]) 0 0 0 []) ops = ([COk; COk; COk; COk], Some fr) /\
    encode_frag true fr = Ok fe /\ frag_width_wf fe = true /\ enc_fragment 7 fe = Ok bytes /\
    length bytes = 245%nat /\
    exists m payload, dec_top (length bytes) bytes = Ok [BMoof (moof_size fe) m; BMdat 8 payload] /\ payload = [1;2;3;4;5] /\
                      dm_seq m = Some 7.
Proof.
  eexists; eexists; eexists. split; [vm_compute; reflexivity|]. split; [vm_compute; reflexivity|].
  split; [vm_compute; reflexivity|]. split; [vm_compute; reflexivity|]. split; [vm_compute; reflexivity|].
  eexists; eexists. split; [vm_compute; reflexivity|]. split; reflexivity.
Qed.

(* (c) mixed data modes in one fragment (metadata-only additions mixed with full samples or intervals) are REFUTED:
   the fragment encodes, but either the mdat header does not announce the bytes that follow it (the stream is not a
   sequence of boxes) or the samples read back are not the ones added.  Reproduced on the real code: known finding
   C05-F8; the positive theorems state one data mode per fragment. *)
Theorem C05_mixed_modes_refuted :
  (exists ops fr fe lz,
     run_ops (create_fragment 1) ops = ([COk; COk], Some fr) /\ encode_frag false fr = Ok fe /\
     lenN lz = 2 /\ item_framed (mkEitem [] fe [] lz []) = false) /\
  (exists ops fr fe,
     run_ops (create_fragment 1) ops = ([COk; COk], Some fr) /\ encode_frag false fr = Ok fe /\
     item_framed (mkEitem [] fe [] [] []) = true /\
     seg_get_full (item_dfr 0 (mkEitem [] fe [] [] [])) None <> Ok [mkFull (mkSample 0 10 2 0) 0 [1; 2]; mkFull (mkSample 0 10 3 0) 10 [7; 8; 9]]).
Proof. exact mixed_modes_refuted. Qed.
Print Assumptions C05_mixed_modes_refuted.

(* ---------------------------------------------------------------- AddEmsg / AddChild inside the histories *)

(* ANY interleaving of the six sample additions with Fragment.AddEmsg and Fragment.AddChild (boxes other than moof /
   mdat) on a fragment whose children are p0 ++ [moof; mdat] ++ q0 (l_start; p0 = boxes put in front directly, e.g. a
   prft): unless a sample addition panics, the children are pre ++ [moof; mdat] ++ q0 ++ (the AddChild boxes in call
   order), where pre is a permutation of p0 and the emsg boxes added with AddEmsg (each inserted behind the last emsg in
   front of the moof), of total size xsum p0 + their sizes.  AddEmsg itself cannot fail (lstep).  After fix 8f3ca14. *)
Theorem C05_emsg_layout : forall fr p0 q0 ops cls st',
  run_lops (l_start fr p0 q0) ops = (cls, Some st') ->
  exists pre, l_children st' = shaped pre (q0 ++ lops_children ops) /\
              Permutation pre (p0 ++ lops_emsgs ops) /\ xsum pre = xsum p0 + xsum (lops_emsgs ops) /\
              pre_of (l_children st') = pre /\ post_of (l_children st') = q0 ++ lops_children ops.
Proof. exact emsg_layout. Qed.
Print Assumptions C05_emsg_layout.

(* C05_segment_roundtrip for fragments built by such interleaved histories (lhist: CreateMultiTrackFragment, boxes p0
   in front, q0 behind, then any interleaving of AddFullSampleToTrack, AddEmsg and AddChild; lhist_fhist = the boxes
   that end up in front of the moof / behind the mdat + the sample additions): the fragment the interleaved history
   builds (l_sync of its final state) encodes, the stream decodes, and the track reads back exactly the added samples *)
Theorem C05_segment_roundtrip_emsg : forall head opt b pos0 tx lhs frs fes,
  head_ok head = true -> Forall lhist_ok lhs ->
  Forall2 (fun h fr => exists cls st', run_lops (lhist_start h) (lh_ops h) = (cls, Some st') /\ fr = l_sync st') lhs frs ->
  encode_frags opt frs = Ok fes ->
  Forall2 frag_guard frs fes ->
  Forall (fun h => consistent (added_fulls (lh_tracks h) (tx_track tx) (lops_samples (lh_ops h)))) lhs ->
  let its := hist_items (map lhist_fhist lhs) fes in
  pos0 + stream_size (seg_stream head its) < POSB ->
  forallb item_framed its = true /\
  exists st, seg_decode b pos0 (seg_stream head its) = Ok st /\
    length (file_frags st) = length lhs /\
    seg_read st (Some tx) = Ok (flat_map (fun h => added_fulls (lh_tracks h) (tx_track tx) (lops_samples (lh_ops h))) lhs).
Proof. exact segment_roundtrip_emsg. Qed.
Print Assumptions C05_segment_roundtrip_emsg.

(* the text of AddEmsg before fix 8f3ca14 (add_emsg_pinned, capacity of the Children slice as a parameter):
   CreateFragment; AddChild(emsg) gives children moof, mdat, emsg with capacity 4; AddEmsg puts the new emsg BEHIND the
   mdat (nothing in front of the moof), a second AddEmsg panics (slice bounds out of range), as does AddEmsg on a
   fragment without children; the repaired text puts both in front of the moof.  Finding C05-F9 (fixed). *)
Theorem C05_add_emsg_pinned_refuted :
  (exists cs1, add_emsg_pinned 4 [KMoof; KMdat; KX EMSG60] EMSG60 = Ok cs1 /\ pre_of cs1 = [] /\
               add_emsg_pinned 4 cs1 EMSG60 = Panic) /\
  add_emsg_pinned 0 [] EMSG60 = Panic /\
  add_emsg [] EMSG60 = [KX EMSG60] /\
  pre_of (add_emsg (add_emsg [KMoof; KMdat; KX EMSG60] EMSG60) EMSG60) = [EMSG60; EMSG60].
Proof. exact add_emsg_pinned_refuted. Qed.
Print Assumptions C05_add_emsg_pinned_refuted.

(* the hypotheses are satisfiable: tracks [1;2], a prft put in front, AddEmsg before / between / after the sample
   additions, an emsg and a free box appended with AddChild; the children end up emsg emsg emsg prft moof mdat emsg free *)
Example C05_segment_roundtrip_emsg_ex :
  let s k := mkSample 16842752 10 k 0 in
  let em n := mkX XEmsg n 0 [] in
  let other n := mkX XOther n 0 [] in
  let h := mkLhist [1; 2] [other 32] 0 [] []
             [LEmsg (em 60); LSample (OFullTo 2 (s 1) 100 [1]); LChild (em 61); LEmsg (em 62);
              LSample (OFullTo 1 (s 2) 0 [2; 3]); LChild (other 8); LEmsg (em 63)] [] in
  lhist_ok h /\
  exists cls st', run_lops (lhist_start h) (lh_ops h) = (cls, Some st') /\
    l_children st' = shaped [em 60; em 62; em 63; other 32] [em 61; other 8] /\
    fh_pre (lhist_fhist h) = [em 60; em 62; em 63; other 32] /\ fr_pre (l_sync st') = 217.
Proof.
  cbv zeta. split.
  { split; [|split; [|split; [|split; [|repeat split; reflexivity]]]].
    - apply NoDup_cons; [cbn; intuition congruence|apply NoDup_cons; [cbn; tauto|apply NoDup_nil]].
    - cbn; lia.
    - reflexivity.
    - repeat constructor. }
  eexists; eexists. split; [vm_compute; reflexivity|]. split; [reflexivity|]. split; reflexivity.
Qed.

(* ---------------------------------------------------------------- segments of ANY mix of fragment classes *)

(* frag_case opt tx it e: `it` is one encoded fragment of a class with a per-fragment round-trip theorem, reading back e
   for trex tx: FC_multi (C05_roundtrip: multi-track, AddFullSampleToTrack), FC_multi_nil (nil trex: the first traf),
   FC_multi_lazy (AddSampleToTrack, the caller writes the data behind the fragment), FC_single (CreateFragment + ALL SIX
   add operations in one data mode: full samples / metadata only / sample intervals).  For ANY list of such fragments in
   any mix, head = nothing or styp + any sidx boxes, with or without init, any position: the stream is well framed,
   DecodeFile yields one fragment per encoded fragment and reading fragment by fragment returns the concatenation. *)
Theorem C05_segment_roundtrip_any : forall head opt b pos0 tx its exps,
  head_ok head = true -> Forall2 (frag_case opt tx) its exps ->
  pos0 + stream_size (seg_stream head its) < POSB ->
  forallb item_framed its = true /\
  exists st, seg_decode b pos0 (seg_stream head its) = Ok st /\
             length (file_frags st) = length its /\ seg_read st tx = Ok (concat exps).
Proof. exact segment_roundtrip_any. Qed.
Print Assumptions C05_segment_roundtrip_any.

(* the hypotheses are satisfiable: a single-track fragment built with AddSampleInterval (data parts) followed by a
   multi-track fragment of metadata-only samples whose data the caller writes behind it *)
Example C05_segment_roundtrip_any_ex :
  let s k := mkSample 16842752 10 k 0 in
  let x := mkTrex 1 7 9 65536 in
  let h1 := mkFhist [1] [mkX XEmsg 60 0 []] 0 [mkX XOther 12 0 []] [] [OInterval 50 [s 1; s 2] [1; 2; 3]] [] in
  let h2 := mkFhist [2; 1] [] 0 [] [] [OFullTo 1 (s 2) 70 [4; 5]; OFullTo 2 (s 1) 0 [6]] [mkX XOther 8 0 []] in
  exists its exps, Forall2 (frag_case true (Some x)) its exps /\ length its = 2%nat /\
    concat exps = [mkFull (s 1) 50 [1]; mkFull (s 2) 60 [2; 3]; mkFull (s 2) 70 [4; 5]].
Proof.
  cbv zeta. eexists; eexists. split.
  - constructor; [|constructor; [|constructor]].
    + eapply (FC_single true 1 (mkFhist [1] [mkX XEmsg 60 0 []] 0 [mkX XOther 12 0 []] [] [OInterval 50 [mkSample 16842752 10 1 0; mkSample 16842752 10 2 0] [1; 2; 3]] [])
                _ _ _ (mkTrex 1 7 9 65536) [mkFull (mkSample 16842752 10 1 0) 50 [1]; mkFull (mkSample 16842752 10 2 0) 60 [2; 3]] []).
      * reflexivity.
      * left; reflexivity.
      * repeat constructor.
      * vm_compute; reflexivity.
      * right. right. repeat split; reflexivity.
      * reflexivity.
      * repeat constructor.
      * discriminate.
      * vm_compute; reflexivity.
      * vm_compute; reflexivity.
      * reflexivity.
    + eapply (FC_multi_lazy true (mkFhist [2; 1] [] 0 [] [] [OFullTo 1 (mkSample 16842752 10 2 0) 70 [4; 5]; OFullTo 2 (mkSample 16842752 10 1 0) 0 [6]] [mkX XOther 8 0 []])
                _ _ _ (mkTrex 1 7 9 65536)).
      * split; [|split; [|split; [|split; [|reflexivity]]]].
        -- apply NoDup_cons; [cbn; intuition congruence|apply NoDup_cons; [cbn; tauto|apply NoDup_nil]].
        -- cbn; lia.
        -- reflexivity.
        -- repeat constructor.
      * reflexivity.
      * vm_compute; reflexivity.
      * vm_compute; reflexivity.
      * vm_compute; reflexivity.
      * cbn; repeat constructor.
  - split; reflexivity.
Qed.

(* ---------------------------------------------------------------- sidx boxes without a styp *)

(* head = sidx boxes only: the File collects them and starts a new MediaSegment at every emsg / moof whose position is
   the start of the next reference.  sidx_guard (computed on positions and references alone) says that no segment is
   started while a fragment opened by an emsg still waits for its moof, and that the stream does not end in such a
   fragment; under it DecodeFile regroups the stream into exactly the encoded fragments ... *)
Theorem C05_segment_decode_sidx : forall head its b pos0,
  forallb is_sidx_box head = true -> forallb item_kinds its = true ->
  sidx_guard (head_sidxs pos0 head) its (pos0 + xsum head) 0 false = true ->
  exists st, seg_decode b pos0 (seg_stream head its) = Ok st /\
             file_frags st = items_dfrs (pos0 + xsum head) its.
Proof. exact decode_stream_sidx. Qed.
Print Assumptions C05_segment_decode_sidx.

(* ... and the round trip of any mix of fragment classes holds as with a styp *)
Theorem C05_segment_roundtrip_any_sidx : forall head opt b pos0 tx its exps,
  forallb is_sidx_box head = true ->
  sidx_guard (head_sidxs pos0 head) its (pos0 + xsum head) 0 false = true ->
  Forall2 (frag_case opt tx) its exps ->
  pos0 + stream_size (seg_stream head its) < POSB ->
  forallb item_framed its = true /\
  exists st, seg_decode b pos0 (seg_stream head its) = Ok st /\
             length (file_frags st) = length its /\ seg_read st tx = Ok (concat exps).
Proof. exact segment_roundtrip_any_sidx. Qed.
Print Assumptions C05_segment_roundtrip_any_sidx.

(* the guard is needed: a sidx whose first reference starts at the emsg in front of a moof and whose second reference
   starts at that moof makes DecodeFile open a fragment at the emsg and a NEW segment at the moof: the file then holds a
   fragment without moof, and reading the fragments in order panics in GetFullSamples (a hand-made sidx; outside the
   property: the library's own writers reference whole fragments) *)
Theorem C05_sidx_guard_refuted :
  let head := [mkX XSidx 56 0 [mkSref 0 60; mkSref 0 500]] in
  let its := [mkEitem [mkX XEmsg 60 0 []] wit_fe [] [] []] in
  forallb is_sidx_box head = true /\ forallb item_kinds its = true /\ forallb item_framed its = true /\
  sidx_guard (head_sidxs 0 head) its 56 0 false = false /\
  exists st, seg_decode false 0 (seg_stream head its) = Ok st /\
             map (fun f => match dr_moof f with Some _ => true | None => false end) (file_frags st) = [false; true] /\
             seg_read st None = Panic.
Proof. exact sidx_guard_refuted. Qed.
Print Assumptions C05_sidx_guard_refuted.

(* the guard is satisfiable by a truthful sidx: two fragments (the second with an emsg in front), one reference per
   fragment with its byte length: two segments of one fragment each *)
Example C05_sidx_guard_ex :
  let head := [mkX XSidx 56 0 [mkSref 0 (stream_size (item_boxes (mkEitem [] wit_fe [] [] []))); mkSref 0 500]] in
  let its := [mkEitem [] wit_fe [] [] []; mkEitem [mkX XEmsg 60 0 []] wit_fe [] [] []] in
  sidx_guard (head_sidxs 700 head) its (700 + xsum head) 0 false = true /\
  exists st, seg_decode true 700 (seg_stream head its) = Ok st /\ length (fs_segs st) = 2%nat /\ length (file_frags st) = 2%nat.
Proof. cbv zeta. split; [vm_compute; reflexivity|]. eexists. split; [vm_compute; reflexivity|]. split; reflexivity. Qed.
