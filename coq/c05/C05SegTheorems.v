(* C05SegTheorems.v — the property theorems of C05 at the level of a whole media segment, and nothing else.
   Each is closed by `exact <lemma>` and followed by Print Assumptions (audited by ./check on every run). *)
From V.lib Require Import Base.
From V.c05 Require Import C05Model C05FragModel C05GhostProofs C05RoundProofs C05SegModel C05SegProofs.

(* DecodeFile / DecodeFileSR on the box stream of a segment (nothing or styp followed by any sidx boxes, then the
   fragments, each with emsg / ignored boxes before its moof, after its mdat and between the fragments, ANY sizes)
   regroups the stream into exactly one decoded fragment per encoded fragment, in order, whose moof start position
   and mdat payload position are the stream positions of those boxes (items_dfrs), whether or not an init segment
   precedes the stream (b) and wherever the stream starts (pos0). *)
Theorem C05_segment_decode : forall head its b pos0,
  head_ok head = true -> forallb item_kinds its = true ->
  exists st, seg_decode b pos0 (seg_stream head its) = Ok st /\
             file_frags st = items_dfrs (pos0 + xsum head) its.
Proof. exact decode_stream. Qed.
Print Assumptions C05_segment_decode.

(* the independence of the fragments made a lemma: if every fragment, seen alone at ANY position p, reads back e
   (which is what C05_roundtrip and its variants state, pos0 being universally quantified there), then reading the
   decoded segment fragment by fragment in order returns the concatenation, wherever each fragment happens to lie *)
Theorem C05_segment_independent : forall head its exps b pos0 tx,
  head_ok head = true -> forallb item_kinds its = true ->
  Forall (fun it => item_pure it = true /\ fr_pre (ei_fe it) = xsum (ei_pre it)) its ->
  Forall2 (fun it e => forall p, p + fr_pre (ei_fe it) < POSB ->
                       get_full_samples (decoded_view (ei_fe it) p (ei_lz it)) tx = Ok e) its exps ->
  pos0 + stream_size (seg_stream head its) < POSB ->
  exists st, seg_decode b pos0 (seg_stream head its) = Ok st /\
             length (file_frags st) = length its /\
             seg_read st tx = Ok (concat exps).
Proof. exact segment_generic. Qed.
Print Assumptions C05_segment_independent.

(* C05_segment_roundtrip.  For ANY list of fragment histories hs (each as in C05_roundtrip: a multi-track fragment
   with pairwise different ids, any history of AddFullSampleToTrack with Sample.Size = len(Data), extra boxes of any
   size in moof and trafs, emsg/prft/free/uuid/unknown boxes before the moof, after the mdat and between the
   fragments), optimisation on or off, any head (none, or styp + any sidx boxes), with or without init segment and
   any trex: if MediaSegment.Encode succeeds (encode_frags), every fragment stays below 2 GiB and the added decode
   times are consistent with the durations, then the stream is well framed, DecodeFile succeeds, yields one
   fragment per history, and reading trex's track fragment by fragment in order returns exactly the concatenation of
   the added full samples (bytes, size, duration, flags, composition offset, decode time). *)
Theorem C05_segment_roundtrip : forall head opt b pos0 tx hs frs fes,
  head_ok head = true -> Forall hist_ok hs ->
  Forall2 (fun h fr => hist_frag h = Some fr) hs frs ->
  encode_frags opt frs = Ok fes ->
  Forall2 frag_guard frs fes ->
  Forall (fun h => consistent (added_fulls (fh_tracks h) (tx_track tx) (fh_ops h))) hs ->
  let its := hist_items hs fes in
  pos0 + stream_size (seg_stream head its) < POSB ->
  forallb item_framed its = true /\
  exists st, seg_decode b pos0 (seg_stream head its) = Ok st /\
    length (file_frags st) = length hs /\
    seg_read st (Some tx) = Ok (flat_map (fun h => added_fulls (fh_tracks h) (tx_track tx) (fh_ops h)) hs).
Proof. exact segment_roundtrip. Qed.
Print Assumptions C05_segment_roundtrip.

(* the hypotheses are satisfiable by a non-trivial segment: styp + sidx, two fragments over tracks [1;2] and [2;1],
   an emsg and a prft before the first moof, a free box after the first mdat, an emsg between the fragments,
   optimisation on, an init segment of 700 bytes before the stream; the conclusion is also checked by computation *)
Example C05_segment_roundtrip_ex :
  let s k := mkSample 16842752 10 k 0 in
  let emsg := mkX XEmsg 60 0 [] in
  let other n := mkX XOther n 0 [] in
  let head := [mkX XStyp 24 0 []; mkX XSidx 44 0 [mkSref 0 500]] in
  let h1 := mkFhist [1; 2] [emsg; other 32] 9 [other 12] [0; 26]
              [OFullTo 2 (s 1) 100 [1]; OFullTo 2 (s 2) 110 [2;3]; OFullTo 1 (s 1) 0 [4]; OFullTo 9 (s 1) 0 [9]] [emsg] in
  let h2 := mkFhist [2; 1] [] 0 [] [] [OFullTo 2 (s 3) 120 [5;6;7]; OFullTo 1 (s 2) 10 [8;9]] [other 8] in
  let tx := mkTrex 2 7 9 65536 in
  head_ok head = true /\ Forall hist_ok [h1; h2] /\
  Forall (fun h => consistent (added_fulls (fh_tracks h) (tx_track tx) (fh_ops h))) [h1; h2] /\
  exists fr1 fr2 fes st,
    hist_frag h1 = Some fr1 /\ hist_frag h2 = Some fr2 /\ encode_frags true [fr1; fr2] = Ok fes /\
    Forall2 frag_guard [fr1; fr2] fes /\
    seg_decode true 700 (seg_stream head (hist_items [h1; h2] fes)) = Ok st /\
    map (fun f => option_map fst (dr_moof f)) (file_frags st) = [Some 860; Some 1171] /\
    seg_read st (Some tx) = Ok [mkFull (s 1) 100 [1]; mkFull (s 2) 110 [2;3]; mkFull (s 3) 120 [5;6;7]].
Proof.
  cbv zeta. split; [reflexivity|]. split.
  { repeat constructor; cbn; intuition congruence. }
  split.
  { repeat constructor; cbn; lia. }
  eexists; eexists; eexists; eexists.
  split; [vm_compute; reflexivity|]. split; [vm_compute; reflexivity|]. split; [vm_compute; reflexivity|].
  split; [repeat constructor; vm_compute; reflexivity|].
  split; [vm_compute; reflexivity|]. split; vm_compute; reflexivity.
Qed.
