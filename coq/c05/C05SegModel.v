(* C05SegModel.v — executable model of a media segment as a stream of top-level boxes
   (mp4/mediasegment.go Encode/EncodeSW, mp4/file.go DecodeFile / AddChild / startSegmentIfNeeded,
   mp4/boxsr.go DecodeFileSR) on top of the fragment model of C05FragModel.  Definitions only.

   Level: boxes (kind, size, and for moof/mdat their decoded content).  Positions are not wrapped at 2^64
   (a byte string of that length does not exist).  Decode options are the defaults (no DecISMFlag,
   no DecStartOnMoof, DecModeNormal), so File.tfra stays nil. *)
From V.lib Require Import Base.
From V.c05 Require Import C05Model C05FragModel.

(* ------------------------------------------------------------------ top-level boxes *)
(* what File.AddChild distinguishes among the boxes other than moof and mdat:
   styp, sidx, emsg, and everything else (prft, free, skip, uuid, unknown: only appended to File.Children) *)
Inductive xkind := XStyp | XSidx | XEmsg | XOther.

(* SidxRef: ReferenceType, ReferencedSize (the fields startSegmentIfNeeded reads) *)
Record sref := mkSref { sr_type : N; sr_size : N }.

(* a top-level box that is neither moof nor mdat: kind, total size; for sidx: FirstOffset and the references *)
Record xbox := mkX { x_kind : xkind; x_size : N; x_first : N; x_refs : list sref }.

Definition xsum (l : list xbox) : N := sumN (map x_size l).

Inductive tbox :=
| TX (x : xbox)
| TMoof (size : N) (trafs : list traf)        (* the trafs as DecodeMoof holds them (truns in wire view) *)
| TMdat (hdr : N) (payload : list N).         (* header length 8 or 16, payload of the declared length *)

Definition tb_size (b : tbox) : N :=
  match b with
  | TX x => x_size x
  | TMoof s _ => s
  | TMdat h p => h + lenN p
  end.

Definition stream_size (bs : list tbox) : N := sumN (map tb_size bs).

Definition is_moof (b : tbox) : bool := match b with TMoof _ _ => true | _ => false end.

(* ------------------------------------------------------------------ encode side *)
(* the trafs of an encoded fragment as the decoder holds them *)
Definition wire_trafs (fe : frag) : list traf :=
  map (fun t => mkTraf (tf_hd t) (tf_dt t) (map wire_trun (tf_truns t)) (tf_extra t)) (fr_trafs fe).

(* one encoded fragment in the stream: Fragment.Children = pre boxes (emsg, prft), moof, mdat, post boxes;
   then what the caller writes: the lazily added sample data lz and further boxes (between the fragments).
   fe is the fragment after Fragment.Encode (encode_frag). *)
Record eitem := mkEitem {
  ei_pre : list xbox; ei_fe : frag; ei_post : list xbox; ei_lz : list N; ei_between : list xbox }.

Definition is_nil {A} (l : list A) : bool := match l with [] => true | _ => false end.

(* the bytes that follow the mdat header are whole boxes again only if the declared payload length is the number
   of bytes written by MdatBox.Encode plus those written by the caller, and the caller's data directly follows
   the mdat (no post box in the fragment when there is lazily written data) *)
Definition item_framed (it : eitem) : bool :=
  let m := fr_mdat (ei_fe it) in
  (md_payload m =? lenN (md_written m) + lenN (ei_lz it)) && (is_nil (ei_lz it) || is_nil (ei_post it)).

(* meaningful when item_framed *)
Definition item_boxes (it : eitem) : list tbox :=
  let fe := ei_fe it in
  let m := fr_mdat fe in
  map TX (ei_pre it) ++
  [TMoof (moof_size fe) (wire_trafs fe); TMdat (md_header_size m) (md_written m ++ ei_lz it)] ++
  map TX (ei_post it) ++ map TX (ei_between it).

(* MediaSegment.Encode / EncodeSW: every fragment is encoded with the segment's EncOptimize, in order;
   the first error (or panic) ends the encode *)
Fixpoint encode_frags (opt : bool) (frs : list frag) : res (list frag) :=
  match frs with
  | [] => Ok []
  | fr :: rest => do fe <- encode_frag opt fr; do fes <- encode_frags opt rest; Ok (fe :: fes)
  end.

(* styp? sidx* fragments *)
Definition seg_stream (head : list xbox) (its : list eitem) : list tbox :=
  map TX head ++ flat_map item_boxes its.

(* ------------------------------------------------------------------ decode side: File *)
(* Fragment: Moof (StartPos, trafs), Mdat (PayloadAbsoluteOffset, Data) *)
Record dfr := mkDfr { dr_moof : option (N * list traf); dr_mdat : option (N * list N) }.
(* MediaSegment: Styp != nil, Fragments (latest first) *)
Record dseg := mkDseg { dg_styp : bool; dg_frags : list dfr }.
(* File: isFragmented, Sidxs (AnchorPoint, SidxRefs), Segments (latest first), payload length of File.Mdat *)
Record fstate := mkFstate {
  fs_fragmented : bool; fs_sidxs : list (N * list sref); fs_segs : list dseg; fs_mdat : option N }.

(* the inner loop of startSegmentIfNeeded's sidx case: (found, idx) *)
Fixpoint scan_refs (refs : list sref) (start idx pos segIdx : N) : bool * N :=
  match refs with
  | [] => (false, idx)
  | r :: rest =>
      if sr_type r =? 1 then (false, idx)                               (* continue sidxLoop *)
      else if (pos =? start) && (idx =? segIdx) then (true, idx)
      else scan_refs rest (u64 (start + sr_size r)) (idx + 1) pos segIdx
  end.

Fixpoint scan_sidxs (sxs : list (N * list sref)) (idx pos segIdx : N) : bool :=
  match sxs with
  | [] => false
  | (anchor, refs) :: rest =>
      let '(found, idx') := scan_refs refs anchor idx pos segIdx in
      if found then true else scan_sidxs rest idx' pos segIdx
  end.

(* File.startSegmentIfNeeded(box, boxStartPos) with tfra == nil and fileDecFlags == 0 *)
Definition start_if_needed (st : fstate) (pos : N) : fstate :=
  let segIdx := lenN (fs_segs st) in
  let s0 := match fs_sidxs st with
            | [] => segIdx =? 0
            | sxs => scan_sidxs sxs 0 pos segIdx
            end in
  if s0 || (segIdx =? 0)                          (* there must be a segment to put the box in *)
  then mkFstate true (fs_sidxs st) (mkDseg false [] :: fs_segs st) (fs_mdat st)
  else st.

Definition upd_last_seg (st : fstate) (f : dseg -> dseg) : res fstate :=
  match fs_segs st with
  | [] => Panic
  | g :: rest => Ok (mkFstate (fs_fragmented st) (fs_sidxs st) (f g :: rest) (fs_mdat st))
  end.

(* the mdat check of DecodeFile followed by File.AddChild(box, pos); last_moof: lastBoxType == "moof" *)
Definition add_box (st : fstate) (pos : N) (b : tbox) (last_moof : bool) : res fstate :=
  match b with
  | TX x =>
      match x_kind x with
      | XStyp => Ok (mkFstate true (fs_sidxs st) (mkDseg true [] :: fs_segs st) (fs_mdat st))
      | XSidx =>
          match fs_segs st with
          | [] => Ok (mkFstate (fs_fragmented st)
                               (fs_sidxs st ++ [(u64 (pos + x_first x + x_size x), x_refs x)]) [] (fs_mdat st))
          | _ => Ok st                                          (* currSeg.AddSidx *)
          end
      | XEmsg =>
          upd_last_seg (start_if_needed st pos)
            (fun g => match dg_frags g with
                      | [] => mkDseg (dg_styp g) [mkDfr None None]
                      | _ => g
                      end)
      | XOther => Ok st
      end
  | TMoof _ trafs =>
      let st0 := mkFstate true (fs_sidxs st) (fs_segs st) (fs_mdat st) in
      upd_last_seg (start_if_needed st0 pos)
        (fun g => match dg_frags g with
                  | [] => mkDseg (dg_styp g) [mkDfr (Some (pos, trafs)) None]
                  | f :: rest =>
                      match dr_moof f with
                      | None => mkDseg (dg_styp g) (mkDfr (Some (pos, trafs)) (dr_mdat f) :: rest)
                      | Some _ => mkDseg (dg_styp g) (mkDfr (Some (pos, trafs)) None :: f :: rest)
                      end
                  end)
  | TMdat hdr payload =>
      if fs_fragmented st then
        if negb last_moof then Err                 (* does not support ... between moof and mdat *)
        else
          match fs_segs st with
          | [] => Panic
          | g :: rest =>
              match dg_frags g with
              | [] => Panic
              | f :: fr => Ok (mkFstate true (fs_sidxs st)
                                 (mkDseg (dg_styp g) (mkDfr (dr_moof f) (Some (pos + hdr, payload)) :: fr) :: rest)
                                 (fs_mdat st))
              end
          end
      else
        match fs_mdat st with
        | Some old =>
            if (0 <? old) && (0 <? lenN payload) then Err        (* only one non-empty mdat box supported *)
            else Ok (if old =? 0 then mkFstate false (fs_sidxs st) (fs_segs st) (Some (lenN payload)) else st)
        | None => Ok (mkFstate false (fs_sidxs st) (fs_segs st) (Some (lenN payload)))
        end
  end.

(* the LoopBoxes loop: boxStartPos += boxSize *)
Fixpoint seg_decode_loop (bs : list tbox) (st : fstate) (pos : N) (last_moof : bool) : res fstate :=
  match bs with
  | [] => Ok st
  | b :: rest =>
      do st1 <- add_box st pos b last_moof;
      seg_decode_loop rest st1 (pos + tb_size b) (is_moof b)
  end.

(* fragmented0: an init segment (ftyp, moov without samples) precedes the stream; pos0: its length *)
Definition seg_decode (fragmented0 : bool) (pos0 : N) (bs : list tbox) : res fstate :=
  seg_decode_loop bs (mkFstate fragmented0 [] [] None) pos0 false.

(* all fragments of all segments in stream order *)
Definition file_frags (st : fstate) : list dfr :=
  flat_map (fun g => rev (dg_frags g)) (rev (fs_segs st)).

(* Fragment.GetFullSamples(trex) on a decoded fragment: f.Moof == nil is a nil dereference; f.Mdat == nil is one
   as soon as the chosen traf has a trun *)
Definition seg_get_full (f : dfr) (tx : option trex) : res (list fullsample) :=
  match dr_moof f with
  | None => Panic
  | Some (start, trafs) =>
      match dr_mdat f with
      | Some (pabs, data) => get_full_samples (mkDfrag trafs data start pabs) tx
      | None =>
          let after_pick (t : traf) : res (list fullsample) :=
            match tf_truns t with [] => Ok [] | _ => Panic end in
          match tx with
          | Some x => match find (fun t => tf_track (tf_hd t) =? tx_track x) trafs with
                      | Some t => after_pick t
                      | None => Ok []
                      end
          | None => match trafs with t :: _ => after_pick t | [] => Panic end
          end
      end
  end.

(* reading one track back, fragment by fragment in order *)
Fixpoint read_frags (fs : list dfr) (tx : option trex) : res (list fullsample) :=
  match fs with
  | [] => Ok []
  | f :: rest => do a <- seg_get_full f tx; do b <- read_frags rest tx; Ok (a ++ b)
  end.

Definition seg_read (st : fstate) (tx : option trex) : res (list fullsample) := read_frags (file_frags st) tx.

(* ------------------------------------------------------------------ histories of a whole segment *)
(* one fragment of the segment: CreateMultiTrackFragment(seq, tracks), extra boxes (emsg/prft before the moof,
   free/uuid/unknown in moof and trafs by size, boxes after the mdat), the add operations, and the boxes the
   caller writes after the fragment *)
Record fhist := mkFhist {
  fh_tracks : list N; fh_pre : list xbox; fh_mx : N; fh_post : list xbox; fh_exs : list N;
  fh_ops : list op; fh_between : list xbox }.

Definition hist_start (h : fhist) : frag :=
  with_extras (create_multi (fh_tracks h)) (xsum (fh_pre h)) (fh_mx h) (xsum (fh_post h)) (fh_exs h).

(* the same for CreateFragment(seq, T) *)
Definition hist_start1 (T : N) (h : fhist) : frag :=
  with_extras (create_fragment T) (xsum (fh_pre h)) (fh_mx h) (xsum (fh_post h)) (fh_exs h).

Definition hist_item (h : fhist) (fe : frag) (lz : list N) : eitem :=
  mkEitem (fh_pre h) fe (fh_post h) lz (fh_between h).

Fixpoint hist_items (hs : list fhist) (fes : list frag) : list eitem :=
  match hs, fes with
  | h :: hs', fe :: fes' => hist_item h fe [] :: hist_items hs' fes'
  | _, _ => []
  end.

Fixpoint hist_items_lz (hs : list fhist) (fes : list frag) (lzs : list (list N)) : list eitem :=
  match hs, fes, lzs with
  | h :: hs', fe :: fes', lz :: lzs' => hist_item h fe lz :: hist_items_lz hs' fes' lzs'
  | _, _, _ => []
  end.

(* boxes allowed inside and between fragments in the theorems: emsg and the kinds File.AddChild ignores *)
Definition inner_kind (x : xbox) : bool :=
  match x_kind x with XEmsg | XOther => true | _ => false end.

(* the head of the segment: styp followed by any sidx boxes, or nothing
   (sidx boxes without a styp are collected by the File and then decide where segments start: modelled by
   start_if_needed, covered by the correspondence only) *)
Definition head_ok (head : list xbox) : bool :=
  match head with
  | [] => true
  | s :: sx => match x_kind s with XStyp => forallb (fun x => match x_kind x with XSidx => true | _ => false end) sx
                                 | _ => false end
  end.
