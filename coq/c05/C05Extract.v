(* Extraction of the C05 model for the correspondence check. ExtrOcamlBasic only. *)
From V.lib Require Import Base.
From V.c05 Require Import C05Model C05FragModel C05CodecModel C05SegModel C05SegCodecModel C05EmsgModel C05EncHistModel.
Require Import ExtrOcamlBasic.
Separate Extraction
  nat sample fullsample trun tfhd trex
  optimize optimize_pinned wire_trun resolve total_dur create_trun create_tfhd
  tfdt traf mdat frag op oclass dfrag
  create_fragment create_multi with_extras step run_ops encode_frag encoded_len moof_size md_header_size
  set_offsets decoded_view get_full_samples
  rd32 enc_trun enc_trun_body trun_size enc_tfhd dec_trun dec_tfhd enc_moof
  xkind sref xbox tbox eitem dfr dseg fstate item_framed seg_stream seg_decode file_frags seg_read xsum seg_get_full wire_trafs
  next_box dec_moof dec_top T_MOOF enc_mdat enc_fragment
  child lop lstate add_emsg add_emsg_pinned add_child pre_of post_of run_lops lstep l_sync l_start
  encode_state hop run_hops adds plain enc_guard.
