(* Extraction of the C05 model for the correspondence check. ExtrOcamlBasic only. *)
From V.lib Require Import Base.
From V.c05 Require Import C05Model.
Require Import ExtrOcamlBasic.
Separate Extraction
  nat sample fullsample trun tfhd trex
  optimize optimize_pinned wire_trun resolve total_dur create_trun create_tfhd.
