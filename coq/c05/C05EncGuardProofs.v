(* C05EncGuardProofs.v — the second half of enc_guard is an invariant of every history over a created fragment: only the
   first trun of the first traf is ever touched by OptimizeTfhdTrun, every other trun keeps the flag word CreateTrun gave
   it (all four per-sample fields).  So the guard of C05_roundtrip_with_encodes_guarded is the first trun's alone. *)
From V.lib Require Import Base.
From V.c05 Require Import C05Model C05FragModel C05OptProofs C05HistProofs C05GhostProofs C05ReadProofs C05RoundProofs
  C05EncHistModel C05EncHistProofs C05EncRoundProofs.

Definition others4 (fr : frag) : bool :=
  match fr_trafs fr with
  | [] => true
  | t :: ts => forallb all4 (tl (tf_truns t)) && forallb (fun t' => forallb all4 (tf_truns t')) ts
  end.

Lemma all4_add r ss : all4 (tr_add r ss) = all4 r.
Proof. reflexivity. Qed.
Lemma all4_create n : all4 (create_trun n) = true.
Proof. reflexivity. Qed.
Lemma all4_doff r z : all4 (tr_with_doff r z) = all4 r.
Proof. reflexivity. Qed.

Lemma forallb_app {A} (p : A -> bool) l1 l2 : forallb p (l1 ++ l2) = forallb p l1 && forallb p l2.
Proof. induction l1 as [|a l IH]; [reflexivity|]. cbn [app forallb]. rewrite IH, andb_assoc. reflexivity. Qed.

Lemma forallb_removelast {A} (p : A -> bool) l : forallb p l = true -> forallb p (removelast l) = true.
Proof.
  induction l as [|a l IH]; [reflexivity|]. cbn [forallb removelast]. intros H. apply andb_true_iff in H. destruct H as [H1 H2].
  destruct l; [reflexivity|]. cbn [forallb]. rewrite H1. exact (IH H2).
Qed.

Lemma forallb_last {A} (p : A -> bool) l d : forallb p l = true -> p d = true -> p (last l d) = true.
Proof.
  induction l as [|a l IH]; intros H Hd; [exact Hd|]. cbn [forallb] in H. apply andb_true_iff in H. destruct H as [H1 H2].
  cbn [last]. destruct l; [exact H1|]. exact (IH H2 Hd).
Qed.

(* the trun list of a traf after AddSampleToTrack *)
Lemma add_to_traf_all t next s dts :
  forallb all4 (tf_truns t) = true -> forallb all4 (tf_truns (fst (add_to_traf t next s dts))) = true.
Proof.
  intros H. unfold add_to_traf.
  destruct (tf_truns t) as [|r rs] eqn:E; cbn beta iota zeta.
  - match goal with |- context [if ?c then _ else _] => destruct c end; reflexivity.
  - match goal with |- context [if ?c then _ else _] => destruct c end; cbn [fst tf_truns].
    + rewrite forallb_app, H. reflexivity.
    + rewrite forallb_app. rewrite (forallb_removelast _ _ H). cbn [forallb]. rewrite all4_add, andb_true_r.
      apply forallb_last; [exact H|reflexivity].
Qed.

Lemma add_to_traf_tl t next s dts :
  forallb all4 (tl (tf_truns t)) = true -> forallb all4 (tl (tf_truns (fst (add_to_traf t next s dts)))) = true.
Proof.
  intros H. unfold add_to_traf.
  destruct (tf_truns t) as [|r rs] eqn:E; cbn beta iota zeta.
  - match goal with |- context [if ?c then _ else _] => destruct c end; reflexivity.
  - cbn [tl] in H. match goal with |- context [if ?c then _ else _] => destruct c end; cbn [fst tf_truns].
    + cbn [app tl]. rewrite forallb_app, H. reflexivity.
    + destruct rs as [|r2 rs2]; [reflexivity|].
      change (removelast (r :: r2 :: rs2)) with (r :: removelast (r2 :: rs2)). cbn [app tl].
      change (last (r :: r2 :: rs2) (create_trun 0)) with (last (r2 :: rs2) (create_trun 0)).
      rewrite forallb_app. rewrite (forallb_removelast _ _ H). cbn [forallb]. rewrite all4_add, andb_true_r.
      apply forallb_last; [exact H|reflexivity].
Qed.

Lemma add_to_track_trafs_all ts : forall track next s dts ts' n',
  forallb (fun t' => forallb all4 (tf_truns t')) ts = true ->
  add_to_track_trafs ts track next s dts = Some (ts', n') ->
  forallb (fun t' => forallb all4 (tf_truns t')) ts' = true.
Proof.
  induction ts as [|t ts IH]; intros track next s dts ts' n' Ha H; cbn [add_to_track_trafs] in H; [discriminate|].
  cbn [forallb] in Ha. apply andb_true_iff in Ha. destruct Ha as [A1 A2].
  destruct (tf_track (tf_hd t) =? track).
  - pose proof (add_to_traf_all t next s dts A1) as E. destruct (add_to_traf t next s dts) as [t1 n1]. cbn [fst] in E.
    injection H as <- _. cbn [forallb]. rewrite E, A2. reflexivity.
  - destruct (add_to_track_trafs ts track next s dts) as [[r n]|] eqn:Er; [|discriminate].
    injection H as <- _. cbn [forallb]. rewrite A1, (IH _ _ _ _ _ _ A2 Er). reflexivity.
Qed.

Lemma add_sample_to_track_others fr track s dts fr' :
  others4 fr = true -> add_sample_to_track fr track s dts = Ok fr' -> others4 fr' = true.
Proof.
  unfold add_sample_to_track, others4. intros Ho H.
  destruct (add_to_track_trafs (fr_trafs fr) track (fr_next fr) s dts) as [[ts n]|] eqn:E; [|discriminate].
  injection H as <-. cbn [fr_with fr_trafs].
  destruct (fr_trafs fr) as [|t rest]; cbn [add_to_track_trafs] in E; [discriminate|].
  apply andb_true_iff in Ho. destruct Ho as [O1 O2].
  destruct (tf_track (tf_hd t) =? track).
  - pose proof (add_to_traf_tl t (fr_next fr) s dts O1) as E1. destruct (add_to_traf t (fr_next fr) s dts) as [t1 n1]. cbn [fst] in E1.
    injection E as <- _. rewrite E1, O2. reflexivity.
  - destruct (add_to_track_trafs rest track (fr_next fr) s dts) as [[r n0]|] eqn:Er; [|discriminate].
    injection E as <- _. rewrite O1, (add_to_track_trafs_all _ _ _ _ _ _ _ O2 Er). reflexivity.
Qed.

Lemma add_first_others fr ss dts ts :
  others4 fr = true -> add_first fr ss dts = Ok ts ->
  match ts with [] => true | t :: ts' => forallb all4 (tl (tf_truns t)) && forallb (fun t' => forallb all4 (tf_truns t')) ts' end = true.
Proof.
  unfold others4, add_first. destruct (fr_trafs fr) as [|t rest]; [discriminate|].
  destruct (tf_truns t) as [|r rs]; [discriminate|]. intros Ho [= <-]. exact Ho.
Qed.

Lemma step_others a o a' : others4 a = true -> step a o = Ok a' -> others4 a' = true.
Proof.
  intros Ho. destruct o as [s d data|t s d data|t s d|s d|ss d|d ss data]; cbn [step]; intros H.
  - destruct (add_first a [s] d) as [ts| | |] eqn:E; try discriminate. injection H as <-.
    exact (add_first_others _ _ _ _ Ho E).
  - destruct (add_sample_to_track a t s d) as [a1| | |] eqn:E; try discriminate. cbn [rbind] in H. injection H as <-.
    exact (add_sample_to_track_others _ _ _ _ _ Ho E).
  - exact (add_sample_to_track_others _ _ _ _ _ Ho H).
  - destruct (add_first a [s] d) as [ts| | |] eqn:E; try discriminate. injection H as <-.
    exact (add_first_others _ _ _ _ Ho E).
  - destruct (add_first a ss d) as [ts| | |] eqn:E; try discriminate. injection H as <-.
    exact (add_first_others _ _ _ _ Ho E).
  - destruct (fr_trafs a) as [|t [|t2 ts]] eqn:Et; try discriminate.
    destruct (tf_truns t) as [|r [|r2 rs]]; try discriminate.
    destruct (md_add_part (fr_mdat a) data) as [m| | |]; try discriminate. cbn [rbind] in H. injection H as <-. reflexivity.
Qed.

Lemma forallb_map {A B} (p : B -> bool) (f : A -> B) l : forallb p (map f l) = forallb (fun a => p (f a)) l.
Proof. induction l as [|a l IH]; [reflexivity|]. cbn [map forallb]. rewrite IH. reflexivity. Qed.

Lemma forallb_ext' {A} (p q : A -> bool) l : (forall a, p a = q a) -> forallb p l = forallb q l.
Proof. intros H. induction l as [|a l IH]; [reflexivity|]. cbn [forallb]. rewrite H, IH. reflexivity. Qed.

Lemma set_offsets_others a : others4 (set_offsets a) = others4 a.
Proof.
  unfold set_offsets. destruct (_ && _); [reflexivity|]. unfold others4. cbn [fr_with fr_trafs].
  destruct (fr_trafs a) as [|t ts]; [reflexivity|]. cbn [map tf_truns]. f_equal.
  - destruct (tf_truns t) as [|r rs]; [reflexivity|]. cbn [map tl]. rewrite forallb_map. reflexivity.
  - rewrite forallb_map. apply forallb_ext'. intros t'. cbn [tf_truns]. rewrite forallb_map. reflexivity.
Qed.

Lemma optimize_first_others a a1 : optimize_first a = Ok a1 -> others4 a1 = others4 a.
Proof.
  unfold optimize_first, others4. destruct (fr_trafs a) as [|t ts] eqn:Et; [intros [= <-]; rewrite Et; reflexivity|].
  destruct (tf_truns t) as [|r rs] eqn:Er; [intros [= <-]; rewrite Et, Er; reflexivity|].
  destruct (optimize (tf_hd t) r) as [[h' r']| | |]; try discriminate. cbn [rbind]. intros [= <-]. reflexivity.
Qed.

Lemma encode_state_others opt a c a' : others4 a = true -> encode_state opt a = (c, Some a') -> others4 a' = true.
Proof.
  unfold encode_state. intros Ho H.
  destruct (if opt then optimize_first a else Ok a) as [a1| | |] eqn:E1; try discriminate.
  - assert (O1 : others4 a1 = true).
    { destruct opt; [rewrite (optimize_first_others _ _ E1); exact Ho|injection E1 as <-; exact Ho]. }
    cbn zeta in H. pose proof (set_offsets_others a1) as O2. rewrite O1 in O2.
    destruct (existsb doff_unset (all_truns (fr_trafs (set_offsets a1)))); injection H as _ <-; exact O2.
  - injection H as _ <-. exact Ho.
Qed.

Lemma hops_others hs : forall a cs a', others4 a = true -> run_hops a hs = (cs, Some a') -> others4 a' = true.
Proof.
  induction hs as [|h hs IH]; intros a cs a' Ho H; cbn [run_hops] in H.
  - injection H as _ <-. exact Ho.
  - destruct h as [o|opt].
    + destruct (step a o) as [a1| | |] eqn:E; try discriminate.
      * destruct (run_hops a1 hs) as [cs1 r1] eqn:E1. injection H as _ ->.
        exact (IH _ _ _ (step_others _ _ _ Ho E) E1).
      * destruct (run_hops a hs) as [cs1 r1] eqn:E1. injection H as _ ->. exact (IH _ _ _ Ho E1).
    + destruct (encode_state opt a) as [c [a1|]] eqn:E; [|discriminate].
      destruct (run_hops a1 hs) as [cs1 r1] eqn:E1. injection H as _ ->.
      exact (IH _ _ _ (encode_state_others _ _ _ _ Ho E) E1).
Qed.

Lemma set_extras_truns ts : forall exs, map tf_truns (set_extras ts exs) = map tf_truns ts.
Proof.
  induction ts as [|t ts IH]; intros exs; [destruct exs; reflexivity|]. destruct exs as [|e exs]; [reflexivity|].
  cbn [set_extras map tf_truns]. rewrite IH. reflexivity.
Qed.

Lemma others4_truns a b : map tf_truns (fr_trafs a) = map tf_truns (fr_trafs b) -> others4 a = others4 b.
Proof.
  unfold others4. destruct (fr_trafs a) as [|t ts], (fr_trafs b) as [|t' ts']; cbn [map]; try discriminate; [reflexivity|].
  intros [= E1 E2]. rewrite E1. f_equal.
  revert ts' E2. induction ts as [|x ts IH]; intros [|y ts'] E2; cbn [map] in E2; try discriminate; [reflexivity|].
  injection E2 as E3 E4. cbn [forallb]. rewrite E3, (IH _ E4). reflexivity.
Qed.

Lemma create_multi_others tracks pre mx post exs : others4 (with_extras (create_multi tracks) pre mx post exs) = true.
Proof.
  rewrite (others4_truns _ (create_multi tracks)) by (unfold with_extras; cbn [fr_trafs]; apply set_extras_truns).
  unfold others4, create_multi. cbn [fr_trafs]. destruct tracks as [|T rest]; [reflexivity|]. cbn [map tf_truns tl forallb].
  rewrite forallb_map. apply forallb_forall. intros x _. reflexivity.
Qed.

Lemma create_fragment_others T pre mx post exs : others4 (with_extras (create_fragment T) pre mx post exs) = true.
Proof.
  rewrite (others4_truns _ (create_fragment T)) by (unfold with_extras; cbn [fr_trafs]; apply set_extras_truns).
  reflexivity.
Qed.

(* the guard, split *)
Definition first_selfres (fr : frag) : bool :=
  match fr_trafs fr with
  | t :: _ => match tf_truns t with r :: _ => trun_selfres (tf_hd t) r | [] => true end
  | [] => true
  end.

Lemma enc_guard_split fr : enc_guard fr = first_selfres fr && others4 fr.
Proof.
  unfold enc_guard, first_selfres, others4. destruct (fr_trafs fr) as [|t ts]; [reflexivity|].
  destruct (tf_truns t) as [|r rs]; [reflexivity|]. cbn [tl]. rewrite andb_assoc. reflexivity.
Qed.

(* C05_roundtrip_with_encodes_guarded with the guard reduced to the first trun *)
Lemma roundtrip_encodes_first tracks pre mx post exs hs cs fr opt fe pos0 tx :
  NoDup tracks -> N.of_nat (length (adds hs)) < 4294967296 -> forallb is_full_to (adds hs) = true ->
  Forall (fun o => sized_f (op_full o)) (adds hs) ->
  run_hops (with_extras (create_multi tracks) pre mx post exs) hs = (cs, Some fr) ->
  first_selfres fr = true ->
  encode_frag opt fr = Ok fe ->
  moof_size fe + md_header_size (fr_mdat fe) + lenN (md_data (fr_mdat fr)) < 2147483648 ->
  pos0 + fr_pre fe < 4611686018427387904 ->
  consistent (added_fulls tracks (tx_track tx) (adds hs)) ->
  get_full_samples (decoded_view fe pos0 []) (Some tx) = Ok (added_fulls tracks (tx_track tx) (adds hs)).
Proof.
  intros Hnd Hlen Hfull Hsz Hrun Hfs. apply (roundtrip_encodes_guarded tracks pre mx post exs hs cs fr); try assumption.
  rewrite enc_guard_split, Hfs. cbn [andb].
  exact (hops_others hs _ cs fr (create_multi_others tracks pre mx post exs) Hrun).
Qed.
