(* C05CodecModel.v — byte-level model of the trun and tfhd box bodies (mp4/trun.go EncodeSW / DecodeTrun(SR),
   mp4/tfhd.go EncodeSW / DecodeTfhdSR).  Definitions only.  Box header = 4-byte size + 4-byte type. *)
From V.lib Require Import Base.
From V.c05 Require Import C05Model C05FragModel.

Definition be32 (x : N) : list N := [x / 16777216 mod 256; x / 65536 mod 256; x / 256 mod 256; x mod 256].
Definition be64 (x : N) : list N := be32 (x / 4294967296) ++ be32 (x mod 4294967296).
(* uint32(int32 z) and back *)
Definition i32_bits (z : Z) : N := Z.to_N (z mod 4294967296)%Z.
Definition bits_i32 (x : N) : Z := if x <? 2147483648 then Z.of_N x else (Z.of_N x - 4294967296)%Z.

Definition rd32 (l : list N) : option (N * list N) :=
  match l with
  | a :: b :: c :: d :: rest => Some (a * 16777216 + b * 65536 + c * 256 + d, rest)
  | _ => None
  end.
Definition rd64 (l : list N) : option (N * list N) :=
  match rd32 l with
  | Some (h, l1) => match rd32 l1 with Some (lo, l2) => Some (h * 4294967296 + lo, l2) | None => None end
  | None => None
  end.
(* `if t.HasX() { x = s.ReadUint32() }` *)
Definition opt_rd (b : bool) (l : list N) : option (N * list N) := if b then rd32 l else Some (0, l).

(* ------------------------------------------------------------------ trun *)
Definition enc_sample (t : trun) (s : sample) : list N :=
  (if has_dur t then be32 (s_dur s) else []) ++
  (if has_size t then be32 (s_size s) else []) ++
  (if has_sflags t then be32 (s_flags s) else []) ++
  (if has_cto t then be32 (i32_bits (s_cto s)) else []).

Definition enc_trun_body (t : trun) : list N :=
  be32 (u32 (tr_version t * 16777216 + tr_flags t)) ++
  be32 (u32 (lenN (tr_samples t))) ++
  (if has_doff t then be32 (i32_bits (tr_doff t)) else []) ++
  (if has_fsf t then be32 (tr_fsf t) else []) ++
  flat_map (enc_sample t) (tr_samples t).

(* TrunBox.Encode: header (size, "trun") + body; panics on an unset data offset *)
Definition enc_trun (t : trun) : res (list N) :=
  if doff_unset t then Panic
  else Ok (be32 (trun_size t) ++ [116; 114; 117; 110] ++ enc_trun_body t).

Fixpoint dec_samples (flags fsf : N) (n : nat) (first : bool) (l : list N) : option (list sample * list N) :=
  match n with
  | O => Some ([], l)
  | S n' =>
      match opt_rd (N.testbit flags B_DUR) l with
      | None => None
      | Some (dur, l1) =>
      match opt_rd (N.testbit flags B_SIZE) l1 with
      | None => None
      | Some (size, l2) =>
      match opt_rd (N.testbit flags B_SFLAGS) l2 with
      | None => None
      | Some (fl, l3) =>
      let fl' := if N.testbit flags B_SFLAGS then fl
                 else if N.testbit flags B_FSF && first then fsf else 0 in
      match opt_rd (N.testbit flags B_CTO) l3 with
      | None => None
      | Some (cto, l4) =>
      match dec_samples flags fsf n' false l4 with
      | None => None
      | Some (ss, l5) => Some (mkSample fl' dur size (bits_i32 cto) :: ss, l5)
      end end end end end
  end.

(* t.expectedSize(sampleCount) for a trun with the given flags *)
Definition expected_size (flags cnt : N) : N :=
  16 + 4 * b2n (N.testbit flags B_DOFF) + 4 * b2n (N.testbit flags B_FSF)
  + cnt * (4 * b2n (N.testbit flags B_DUR) + 4 * b2n (N.testbit flags B_SIZE)
           + 4 * b2n (N.testbit flags B_SFLAGS) + 4 * b2n (N.testbit flags B_CTO)).

(* DecodeTrun / DecodeTrunSR on a complete box of header size `size` with body `body` *)
Definition dec_trun (size : N) (body : list N) : res trun :=
  match rd32 body with
  | None => Err
  | Some (vf, l1) =>
  match rd32 l1 with
  | None => Err
  | Some (cnt, l2) =>
      let version := vf / 16777216 in
      let flags := vf mod 16777216 in
      if negb (size =? expected_size flags cnt) then Err
      else if (1024 <? cnt) && negb (N.testbit flags B_DUR) && negb (N.testbit flags B_SIZE)
              && negb (N.testbit flags B_SFLAGS) && negb (N.testbit flags B_CTO) then Err
      else
        match opt_rd (N.testbit flags B_DOFF) l2 with
        | None => Err
        | Some (doff, l3) =>
        match opt_rd (N.testbit flags B_FSF) l3 with
        | None => Err
        | Some (fsf, l4) =>
        match dec_samples flags fsf (N.to_nat cnt) true l4 with
        | None => Err
        | Some (ss, _) => Ok (mkTrun version flags (bits_i32 doff) fsf ss 0)
        end end end
  end end.

(* ------------------------------------------------------------------ tfhd *)
Definition enc_tfhd_body (h : tfhd) : list N :=
  be32 (u32 (tf_flags h)) ++                       (* Version 0 *)
  be32 (tf_track h) ++
  (if tf_has_bdo h then be64 (tf_bdo h) else []) ++
  (if tf_has_sdi h then be32 (tf_sdi h) else []) ++
  (if tf_has_ddur h then be32 (tf_ddur h) else []) ++
  (if tf_has_dsize h then be32 (tf_dsize h) else []) ++
  (if tf_has_dflags h then be32 (tf_dflags h) else []).

Definition enc_tfhd (h : tfhd) : list N := be32 (tfhd_size h) ++ [116; 102; 104; 100] ++ enc_tfhd_body h.

Definition dec_tfhd (body : list N) : res tfhd :=
  match rd32 body with
  | None => Err
  | Some (vf, l1) =>
  let flags := vf mod 16777216 in
  match rd32 l1 with
  | None => Err
  | Some (track, l2) =>
  match (if N.testbit flags B_BDO then rd64 l2 else Some (0, l2)) with
  | None => Err
  | Some (bdo, l3) =>
  match opt_rd (N.testbit flags B_SDI) l3 with
  | None => Err
  | Some (sdi, l4) =>
  match opt_rd (N.testbit flags B_DDUR) l4 with
  | None => Err
  | Some (ddur, l5) =>
  match opt_rd (N.testbit flags B_DSIZE) l5 with
  | None => Err
  | Some (dsize, l6) =>
  match opt_rd (N.testbit flags B_DFLAGS) l6 with
  | None => Err
  | Some (dflags, _) => Ok (mkTfhd flags track bdo sdi ddur dsize dflags)
  end end end end end end end.

(* what DecodeTfhd(EncodeTfhd h) holds: absent fields are 0 *)
Definition wire_tfhd (h : tfhd) : tfhd :=
  mkTfhd (tf_flags h) (tf_track h)
         (if tf_has_bdo h then tf_bdo h else 0) (if tf_has_sdi h then tf_sdi h else 0)
         (if tf_has_ddur h then tf_ddur h else 0) (if tf_has_dsize h then tf_dsize h else 0)
         (if tf_has_dflags h then tf_dflags h else 0).

(* ------------------------------------------------------------------ the whole moof (no extra children) *)
(* TfdtBox.EncodeSW: version 0 writes uint32(baseMediaDecodeTime) *)
Definition enc_tfdt (d : tfdt) : list N :=
  be32 (tfdt_size d) ++ [116; 102; 100; 116] ++ be32 (u32 (td_version d * 16777216)) ++
  (if td_version d =? 0 then be32 (u32 (td_base d)) else be64 (u64 (td_base d))).

Definition enc_mfhd (seq : N) : list N := be32 16 ++ [109; 102; 104; 100] ++ be32 0 ++ be32 seq.

Fixpoint enc_truns (l : list trun) : res (list N) :=
  match l with
  | [] => Ok []
  | r :: rest => do a <- enc_trun r; do b <- enc_truns rest; Ok (a ++ b)
  end.

(* children order of a created traf: tfhd, tfdt, truns (valid when the traf has no other children) *)
Definition enc_traf (t : traf) : res (list N) :=
  do tr <- enc_truns (tf_truns t);
  Ok (be32 (traf_size t) ++ [116; 114; 97; 102] ++ enc_tfhd (tf_hd t) ++ enc_tfdt (tf_dt t) ++ tr).

Fixpoint enc_trafs (l : list traf) : res (list N) :=
  match l with
  | [] => Ok []
  | t :: rest => do a <- enc_traf t; do b <- enc_trafs rest; Ok (a ++ b)
  end.

(* MoofBox.Encode for a moof whose children are mfhd and the trafs *)
Definition enc_moof (seq : N) (fr : frag) : res (list N) :=
  do ts <- enc_trafs (fr_trafs fr);
  Ok (be32 (moof_size fr) ++ [109; 111; 111; 102] ++ enc_mfhd seq ++ ts).
