(* C05GhostProofs.v — the full invariant of multi-track histories, with the added full samples as ghost state:
   truns per run, tfhd untouched, tfdt = decode time of the first sample of the track, mdat = data in op order. *)
From Coq Require Import Permutation.
From V.lib Require Import Base.
From V.c05 Require Import C05Model C05FragModel C05HistProofs C05OffProofs.

(* runs with the full samples (latest run first) *)
Definition fruns := list (N * list fullsample).
Definition runs_of (g : fruns) : runs := map (fun p => (fst p, map fs_s (snd p))) g.

Definition fruns_add (g : fruns) (T : N) (f : fullsample) : fruns :=
  match g with
  | (T', l) :: rest => if T' =? T then (T, l ++ [f]) :: rest else (T, [f]) :: g
  | [] => [(T, [f])]
  end.

Lemma runs_of_add g T f : runs_of (fruns_add g T f) = runs_add (runs_of g) T (fs_s f).
Proof.
  destruct g as [|[T' l] rest]; cbn [fruns_add runs_of runs_add map fst snd]; [reflexivity|].
  destruct (T' =? T); cbn [map fst snd]; [rewrite map_app|]; reflexivity.
Qed.

Definition op_full (o : op) : fullsample := mkFull (op_first_sample o) (op_dts o) (op_data o).

(* the ghost state reached by a history: additions to unknown track ids are refused *)
Fixpoint ghost (tracks : list N) (g : fruns) (ops : list op) : fruns :=
  match ops with
  | [] => g
  | o :: rest =>
      match op_track o with
      | Some T => if existsb (N.eqb T) tracks then ghost tracks (fruns_add g T (op_full o)) rest
                  else ghost tracks g rest
      | None => ghost tracks g rest
      end
  end.

(* full samples of track T, oldest first; all data in write order; number of samples *)
Fixpoint track_fulls (T : N) (g : fruns) : list fullsample :=
  match g with
  | [] => []
  | (T', l) :: rest => track_fulls T rest ++ (if T' =? T then l else [])
  end.
Fixpoint all_data (g : fruns) : list N :=
  match g with
  | [] => []
  | (_, l) :: rest => all_data rest ++ flat_map fs_data l
  end.
Fixpoint count (g : fruns) : N :=
  match g with [] => 0 | (_, l) :: rest => count rest + lenN l end.

Lemma track_fulls_add T T' g f :
  track_fulls T' (fruns_add g T f) = track_fulls T' g ++ (if T =? T' then [f] else []).
Proof.
  destruct g as [|[T0 l] rest]; cbn [fruns_add track_fulls app]; [reflexivity|].
  destruct (T0 =? T) eqn:E.
  - apply N.eqb_eq in E. subst T0. cbn [track_fulls]. destruct (T =? T'); rewrite ?app_nil_r, ?app_assoc; reflexivity.
  - cbn [track_fulls]. reflexivity.
Qed.

Lemma all_data_add g T f : all_data (fruns_add g T f) = all_data g ++ fs_data f.
Proof.
  destruct g as [|[T0 l] rest]; cbn [fruns_add all_data flat_map app]; [rewrite app_nil_r; reflexivity|].
  destruct (T0 =? T); cbn [all_data flat_map].
  - rewrite flat_map_app. cbn [flat_map]. rewrite app_nil_r, app_assoc. reflexivity.
  - rewrite app_nil_r. reflexivity.
Qed.

Lemma count_add g T f : count (fruns_add g T f) = count g + 1.
Proof.
  destruct g as [|[T0 l] rest]; cbn [fruns_add count]; [reflexivity|].
  destruct (T0 =? T); cbn [count]; rewrite ?lenN_app, ?lenN_cons, ?lenN_nil; unfold lenN; cbn [length]; lia.
Qed.

Lemma lenN_le_count g : lenN g <= count g -> True. Proof. trivial. Qed.

Definition nonempty_in (tracks : list N) (g : fruns) : Prop :=
  Forall (fun p => In (fst p) tracks /\ snd p <> []) g.

Lemma nonempty_in_add tracks g T f : In T tracks -> nonempty_in tracks g -> nonempty_in tracks (fruns_add g T f).
Proof.
  intros HT H. destruct g as [|[T0 l] rest]; cbn [fruns_add].
  - constructor; [|constructor]. cbn. split; [exact HT|discriminate].
  - inversion H as [|? ? [H1 H2] H3]; subst. destruct (T0 =? T).
    + constructor; [|exact H3]. cbn [fst snd] in *. split; [exact HT|]. destruct l; discriminate.
    + constructor; [|exact H]. cbn. split; [exact HT|discriminate].
Qed.

Lemma lenN_runs_le_count tracks g : nonempty_in tracks g -> lenN g <= count g.
Proof.
  induction 1 as [|[T l] rest [_ Hl] _ IH]; cbn [count]; [unfold lenN; cbn; lia|].
  rewrite lenN_cons. cbn [snd] in Hl. destruct l; [congruence|]. rewrite lenN_cons. lia.
Qed.

(* tfdt of a track: SetBaseMediaDecodeTime(decode time of the first sample added to it) *)
Definition tfdt_of (l : list fullsample) : tfdt :=
  match l with [] => mkTfdt 0 0 | f :: _ => set_base (fs_dts f) end.

(* ------------------------------------------------------------------ the invariant *)
Definition ginv (tracks : list N) (g : fruns) (fr : frag) : Prop :=
  multi_inv (runs_of g) fr /\
  map track_of (fr_trafs fr) = tracks /\
  nonempty_in tracks g /\
  Forall (fun t => tf_hd t = create_tfhd (track_of t) /\ tf_dt t = tfdt_of (track_fulls (track_of t) g)) (fr_trafs fr) /\
  md_data (fr_mdat fr) = all_data g /\ md_parts (fr_mdat fr) = [] /\ md_lazy (fr_mdat fr) = 0.

Lemma create_multi_ginv tracks : NoDup tracks -> ginv tracks [] (create_multi tracks).
Proof.
  intros Hd. split; [apply (create_multi_inv tracks Hd)|]. split.
  { cbn [create_multi fr_trafs]. rewrite map_map. unfold track_of. cbn [tf_hd create_tfhd tf_track]. apply map_id. }
  split; [constructor|]. split; [|repeat split].
  cbn [create_multi fr_trafs]. apply Forall_forall. intros t Ht. apply in_map_iff in Ht.
  destruct Ht as (x & <- & _). split; reflexivity.
Qed.

(* shape of the result of the loop over the trafs *)
Lemma attt_shape T next s d : forall ts ts' n',
  add_to_track_trafs ts T next s d = Some (ts', n') ->
  exists pre t post,
    ts = pre ++ t :: post /\ Forall (fun x => track_of x <> T) pre /\ track_of t = T /\
    ts' = pre ++ fst (add_to_traf t next s d) :: post /\ n' = snd (add_to_traf t next s d).
Proof.
  induction ts as [|t ts IH]; intros ts' n' H; cbn [add_to_track_trafs] in H; [discriminate|].
  destruct (tf_track (tf_hd t) =? T) eqn:E.
  - apply N.eqb_eq in E. destruct (add_to_traf t next s d) as [t' n1] eqn:Ea. injection H as <- <-.
    exists [], t, ts. repeat split; try reflexivity; [constructor|exact E|rewrite Ea; reflexivity|rewrite Ea; reflexivity].
  - destruct (add_to_track_trafs ts T next s d) as [[r n1]|] eqn:Er; [|discriminate]. injection H as <- <-.
    destruct (IH _ _ eq_refl) as (pre & t0 & post & E1 & F & Et & E2 & En).
    exists (t :: pre), t0, post. repeat split.
    + rewrite E1. reflexivity.
    + constructor; [|exact F]. unfold track_of. apply N.eqb_neq. exact E.
    + exact Et.
    + rewrite E2. reflexivity.
    + exact En.
Qed.

Lemma add_to_traf_hd t next s d : tf_hd (fst (add_to_traf t next s d)) = tf_hd t.
Proof.
  unfold add_to_traf. destruct (tf_truns t) as [|r l];
    match goal with |- context [if ?c then _ else _] => destruct c end; reflexivity.
Qed.

Lemma add_to_traf_dt t next s d :
  tf_dt (fst (add_to_traf t next s d)) =
    match tf_truns t with
    | [] => set_base d
    | [r] => if u32 (lenN (tr_samples r)) =? 0 then set_base d else tf_dt t
    | _ => tf_dt t
    end.
Proof.
  unfold add_to_traf. destruct (tf_truns t) as [|r [|r2 l]];
    match goal with |- context [if negb ?c then _ else _] => destruct c end; reflexivity.
Qed.

(* truns of a track exist exactly when the track has samples; every trun holds between 1 and count samples *)
Lemma mk_truns_nil_iff tracks T g :
  nonempty_in tracks g -> (mk_truns T (runs_of g) = [] <-> track_fulls T g = []).
Proof.
  induction 1 as [|[T' l] rest [_ Hl] _ IH]; cbn [runs_of map mk_truns track_fulls fst snd]; [tauto|].
  fold (runs_of rest). cbn [snd] in Hl. destruct (T' =? T).
  - split; intros H; apply app_eq_nil in H; destruct H as [_ H]; [discriminate|congruence].
  - rewrite !app_nil_r. exact IH.
Qed.

Lemma mk_truns_samples_bounds tracks T g :
  nonempty_in tracks g ->
  Forall (fun r => tr_samples r <> [] /\ lenN (tr_samples r) <= count g) (mk_truns T (runs_of g)).
Proof.
  induction 1 as [|[T' l] rest [_ Hl] _ IH]; cbn [runs_of map mk_truns count fst snd]; [constructor|].
  fold (runs_of rest). cbn [snd] in Hl. apply Forall_app. split.
  - eapply Forall_impl; [|exact IH]. cbn beta. intros r [H1 H2]. split; [exact H1|lia].
  - destruct (T' =? T); [|constructor]. constructor; [|constructor]. cbn [canon tr_samples].
    split; [destruct l; [congruence|discriminate]|]. unfold lenN. rewrite map_length. fold (lenN l). lia.
Qed.

Lemma tfdt_step tracks T g t s d data :
  nonempty_in tracks g -> count g < 4294967296 ->
  tf_truns t = mk_truns T (runs_of g) -> tf_dt t = tfdt_of (track_fulls T g) ->
  tf_dt (fst (add_to_traf t (lenN (runs_of g)) s d)) = tfdt_of (track_fulls T g ++ [mkFull s d data]).
Proof.
  intros Hn Hc Ht Hd. rewrite add_to_traf_dt, Ht.
  pose proof (mk_truns_nil_iff tracks T g Hn) as Hnil.
  pose proof (mk_truns_samples_bounds tracks T g Hn) as Hb.
  destruct (mk_truns T (runs_of g)) as [|r [|r2 l]] eqn:E.
  - rewrite (proj1 Hnil eq_refl). reflexivity.
  - inversion Hb as [|? ? [H1 H2] _]; subst.
    assert (Hne : track_fulls T g <> []) by (intros H; apply Hnil in H; discriminate).
    rewrite u32_small by lia.
    destruct (lenN (tr_samples r) =? 0) eqn:E0.
    + apply N.eqb_eq in E0. unfold lenN in E0. destruct (tr_samples r); [congruence|cbn in E0; lia].
    + rewrite Hd. destruct (track_fulls T g); [congruence|reflexivity].
  - assert (Hne : track_fulls T g <> []) by (intros H; apply Hnil in H; discriminate).
    rewrite Hd. destruct (track_fulls T g); [congruence|reflexivity].
Qed.

Lemma lenN_runs_of g : lenN (runs_of g) = lenN g.
Proof. unfold lenN, runs_of. rewrite map_length. reflexivity. Qed.

Definition is_full_to (o : op) : bool := match o with OFullTo _ _ _ _ => true | _ => false end.

Lemma step_ginv tracks g fr o :
  NoDup tracks -> count g + 1 < 4294967296 -> is_full_to o = true -> ginv tracks g fr ->
  match step fr o with
  | Ok fr' => exists T, op_track o = Some T /\ In T tracks /\ ginv tracks (fruns_add g T (op_full o)) fr'
  | Err => exists T, op_track o = Some T /\ ~ In T tracks
  | _ => False
  end.
Proof.
  intros Hnd Hc Ho (Hm & Htr & Hn & Hf & Hdat & Hpar & Hlaz).
  destruct o as [s d data|t s d data|t s d|s d|ss d|d ss data]; try discriminate.
  pose proof (lenN_runs_le_count tracks g Hn) as Hle.
  assert (Hb : lenN (runs_of g) + 1 < 4294967296) by (rewrite lenN_runs_of; lia).
  pose proof (step_multi (runs_of g) fr (OFullTo t s d data) Hb eq_refl Hm) as S.
  cbn [step op_track op_full op_first_sample op_dts op_data] in *.
  unfold add_sample_to_track in *. destruct Hm as (Hnext & Hnd' & Hft). rewrite Hnext in *.
  destruct (add_to_track_trafs (fr_trafs fr) t (lenN (runs_of g)) s d) as [[ts' n']|] eqn:Ea; cbn [rbind] in *.
  - destruct S as (T & [= <-] & Hin & Hm' & Hmap). unfold track_of in Htr. rewrite Htr in Hin.
    exists t. split; [reflexivity|]. split; [exact Hin|].
    destruct (attt_shape _ _ _ _ _ _ _ Ea) as (pre & t0 & post & E1 & Fpre & Et & E2 & En).
    split; [rewrite runs_of_add; exact Hm'|]. cbn [fr_with fr_trafs fr_mdat] in *.
    split; [unfold track_of; rewrite Hmap; exact Htr|]. clear Htr.
    split; [apply nonempty_in_add; assumption|].
    split; [|cbn [md_add_data md_set_lazy0 md_add_lazy md_data md_parts md_lazy];
             rewrite all_data_add, Hdat; cbn [fs_data]; repeat split; assumption].
    (* tfhd and tfdt of every traf *)
    rewrite E2. rewrite E1 in Hf, Hft, Hnd'. apply Forall_app in Hf. destruct Hf as [Hf1 Hf2].
    inversion Hf2 as [|? ? [Hh0 Hd0] Hf3]; subst.
    apply Forall_app in Hft. destruct Hft as [_ Hft2]. inversion Hft2 as [|? ? Ht0 _]; subst.
    rewrite map_app in Hnd'. cbn [map] in Hnd'. apply NoDup_remove_2 in Hnd'.
    assert (Htk : track_of (fst (add_to_traf t0 (lenN (runs_of g)) s d)) = track_of t0).
    { unfold track_of. rewrite add_to_traf_hd. reflexivity. }
    apply Forall_app. split; [|constructor].
    + eapply Forall_impl; [|apply (Forall_and Hf1 Fpre)]. cbn beta. intros x [[H1 H2] H3].
      split; [exact H1|]. rewrite track_fulls_add. destruct (track_of t0 =? track_of x) eqn:Ex;
        [apply N.eqb_eq in Ex; congruence|]. rewrite app_nil_r. exact H2.
    + rewrite Htk. split; [rewrite add_to_traf_hd; exact Hh0|].
      rewrite track_fulls_add, N.eqb_refl.
      apply (tfdt_step tracks (track_of t0) g t0 s d data Hn); [lia|exact Ht0|exact Hd0].
    + rewrite Forall_forall in *. intros x Hx. destruct (Hf3 x Hx) as [H1 H2]. split; [exact H1|].
      rewrite track_fulls_add. destruct (track_of t0 =? track_of x) eqn:Ex; [|rewrite app_nil_r; exact H2].
      apply N.eqb_eq in Ex. exfalso. apply Hnd'. apply in_or_app. right.
      unfold track_of in Ex. rewrite Ex. apply in_map_iff. exists x. split; [reflexivity|exact Hx].
  - destruct S as (T & [= <-] & Hnin). exists t. split; [reflexivity|].
    unfold track_of in Htr. rewrite Htr in Hnin. exact Hnin.
Qed.

Lemma history_ginv tracks ops : forall g fr cs fr',
  NoDup tracks -> count g + N.of_nat (length ops) < 4294967296 -> forallb is_full_to ops = true ->
  ginv tracks g fr -> run_ops fr ops = (cs, Some fr') ->
  ginv tracks (ghost tracks g ops) fr'.
Proof.
  induction ops as [|o ops IH]; intros g fr cs fr' Hnd Hc Ho Hi H; cbn [run_ops ghost] in *.
  - injection H as _ <-. exact Hi.
  - cbn [forallb] in Ho. apply andb_true_iff in Ho. destruct Ho as [Ho1 Ho2]. cbn [length] in Hc.
    assert (Hc1 : count g + 1 < 4294967296) by lia.
    pose proof (step_ginv tracks g fr o Hnd Hc1 Ho1 Hi) as S.
    destruct (step fr o) as [fr1| | |] eqn:E; try contradiction.
    + destruct (run_ops fr1 ops) as [cs1 r1] eqn:E1. injection H as _ ->.
      destruct S as (T & -> & Hin & Hi1). apply existsb_eqb_in in Hin. rewrite Hin.
      apply (IH _ fr1 cs1); try assumption. rewrite count_add. lia.
    + destruct (run_ops fr ops) as [cs1 r1] eqn:E1. injection H as _ ->.
      destruct S as (T & -> & Hnin).
      destruct (existsb (N.eqb T) tracks) eqn:Ex; [apply existsb_eqb_in in Ex; contradiction|].
      apply (IH _ fr cs1); try assumption. lia.
Qed.
