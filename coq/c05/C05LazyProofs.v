(* C05LazyProofs.v — metadata-only additions build the same moof as full additions. *)
From V.lib Require Import Base.
From V.c05 Require Import C05Model C05FragModel C05HistProofs.

(* AddFullSample -> AddSample, AddFullSampleToTrack -> AddSampleToTrack (data written separately) *)
Definition to_lazy (o : op) : op :=
  match o with
  | OFull s d _ => OMeta s d
  | OFullTo t s d _ => OMetaTo t s d
  | o => o
  end.

Definition same_meta (a b : frag) : Prop :=
  fr_trafs a = fr_trafs b /\ fr_next a = fr_next b /\
  fr_pre a = fr_pre b /\ fr_moofx a = fr_moofx b /\ fr_post a = fr_post b.

Definition lazy_untouched (b b' : frag) : Prop :=
  md_data (fr_mdat b') = md_data (fr_mdat b) /\ md_parts (fr_mdat b') = md_parts (fr_mdat b).

Lemma step_lazy a b o :
  is_full o = true -> same_meta a b ->
  match step a o, step b (to_lazy o) with
  | Ok a', Ok b' => same_meta a' b' /\ lazy_untouched b b' /\
                    md_lazy (fr_mdat b') = u64 (md_lazy (fr_mdat b) + s_size (op_first_sample o))
  | Err, Err => True
  | Panic, Panic => True
  | _, _ => False
  end.
Proof.
  intros Hf (Ht & Hn & Hp & Hx & Hq).
  destruct o as [s d data|t s d data|t s d|s d|ss d|d ss data]; try discriminate; cbn [step to_lazy op_first_sample].
  - unfold add_first. rewrite <- Ht. destruct (fr_trafs a) as [|t ts]; [exact I|].
    destruct (tf_truns t) as [|r rs]; [exact I|]. cbn [rbind].
    split; [|split; [split; reflexivity|reflexivity]].
    unfold same_meta. cbn [fr_with fr_trafs fr_next fr_pre fr_moofx fr_post]. repeat split; assumption.
  - unfold add_sample_to_track. rewrite <- Ht, <- Hn.
    destruct (add_to_track_trafs (fr_trafs a) t (fr_next a) s d) as [[ts n]|]; [|exact I]. cbn [rbind].
    split; [|split; [split; reflexivity|reflexivity]].
    unfold same_meta. cbn [fr_with fr_trafs fr_next fr_pre fr_moofx fr_post]. repeat split; assumption.
Qed.

Lemma history_lazy ops : forall a b cs a',
  forallb is_full ops = true -> same_meta a b ->
  run_ops a ops = (cs, Some a') ->
  exists b', run_ops b (map to_lazy ops) = (cs, Some b') /\ same_meta a' b' /\ lazy_untouched b b' /\
             md_lazy (fr_mdat b') =
               fold_left (fun acc o => u64 (acc + s_size (op_first_sample o))) (accepted cs ops) (md_lazy (fr_mdat b)).
Proof.
  induction ops as [|o ops IH]; intros a b cs a' Hf Hm H; cbn [run_ops map] in *.
  - injection H as <- <-. exists b. split; [reflexivity|]. split; [exact Hm|]. split; [split; reflexivity|reflexivity].
  - cbn [forallb] in Hf. apply andb_true_iff in Hf. destruct Hf as [Hf1 Hf2].
    pose proof (step_lazy a b o Hf1 Hm) as S.
    destruct (step a o) as [a1| | |] eqn:Ea; try discriminate.
    + destruct (step b (to_lazy o)) as [b1| | |] eqn:Eb; try contradiction.
      destruct S as (Hm1 & (D1 & P1) & L1).
      destruct (run_ops a1 ops) as [cs1 r1] eqn:E1. injection H as <- ->.
      destruct (IH _ b1 _ _ Hf2 Hm1 E1) as (b' & R & Hm' & (D2 & P2) & L2).
      exists b'. rewrite R. split; [reflexivity|]. split; [exact Hm'|]. split; [split; congruence|].
      cbn [accepted fold_left]. rewrite L2, L1. reflexivity.
    + destruct (step b (to_lazy o)) as [b1| | |] eqn:Eb; try contradiction.
      destruct (run_ops a ops) as [cs1 r1] eqn:E1. injection H as <- ->.
      destruct (IH _ b _ _ Hf2 Hm E1) as (b' & R & Hm' & U & L2).
      exists b'. rewrite R. split; [reflexivity|]. split; [exact Hm'|]. split; [exact U|].
      cbn [accepted]. exact L2.
Qed.

(* moof depends on the metadata only *)
Lemma moof_size_same a b : same_meta a b -> moof_size a = moof_size b.
Proof. intros (Ht & _ & _ & Hx & _). unfold moof_size. rewrite Ht, Hx. reflexivity. Qed.

Lemma lazy_equiv ops a b cs a' :
  forallb is_full ops = true -> same_meta a b ->
  run_ops a ops = (cs, Some a') ->
  exists b', run_ops b (map to_lazy ops) = (cs, Some b') /\
             fr_trafs a' = fr_trafs b' /\ fr_next a' = fr_next b' /\ moof_size a' = moof_size b' /\
             md_data (fr_mdat b') = md_data (fr_mdat b) /\
             md_lazy (fr_mdat b') =
               fold_left (fun acc o => u64 (acc + s_size (op_first_sample o))) (accepted cs ops) (md_lazy (fr_mdat b)).
Proof.
  intros Hf Hm H. destruct (history_lazy ops a b cs a' Hf Hm H) as (b' & R & Hm' & (D & P) & L).
  exists b'. split; [exact R|]. pose proof (moof_size_same _ _ Hm') as Hs. destruct Hm' as (Ht & Hn & Hr).
  split; [exact Ht|]. split; [exact Hn|]. split; [exact Hs|].
  split; [exact D|exact L].
Qed.
