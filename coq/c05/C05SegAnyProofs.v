(* C05SegAnyProofs.v — the segment theorem for segments whose fragments are ANY mix of the fragment classes with a
   per-fragment round-trip theorem: multi-track full samples (trex or nil trex), multi-track metadata-only samples with
   the data written by the caller, single-track fragments under all six add operations (one data mode per fragment).
   Everything goes through C05_segment_independent: a fragment class only has to say what one fragment reads back at
   every position. *)
From V.lib Require Import Base.
From V.c05 Require Import C05Model C05FragModel C05OptProofs C05HistProofs C05OffProofs C05GhostProofs
  C05ReadProofs C05RoundProofs C05LazyProofs C05LazyRoundProofs C05SingleProofs C05SegModel C05SegProofs.

(* what a fragment class has to provide: the item is well framed, of one data mode, and reads back e at every position *)
Definition item_reads (tx : option trex) (it : eitem) (e : list fullsample) : Prop :=
  item_kinds it = true /\ item_framed it = true /\ item_pure it = true /\ fr_pre (ei_fe it) = xsum (ei_pre it) /\
  forall p, p + fr_pre (ei_fe it) < POSB -> get_full_samples (decoded_view (ei_fe it) p (ei_lz it)) tx = Ok e.

Lemma segment_any head its exps b pos0 tx :
  head_ok head = true -> Forall2 (item_reads tx) its exps ->
  pos0 + stream_size (seg_stream head its) < POSB ->
  forallb item_framed its = true /\
  exists st, seg_decode b pos0 (seg_stream head its) = Ok st /\
             length (file_frags st) = length its /\ seg_read st tx = Ok (concat exps).
Proof.
  intros Hh H Hb.
  assert (K : forallb item_kinds its = true /\ forallb item_framed its = true /\
              Forall (fun it => item_pure it = true /\ fr_pre (ei_fe it) = xsum (ei_pre it)) its /\
              Forall2 (fun it e => forall p, p + fr_pre (ei_fe it) < POSB ->
                         get_full_samples (decoded_view (ei_fe it) p (ei_lz it)) tx = Ok e) its exps).
  { clear Hb. induction H as [|it e its exps (A & B & C & D & E) _ IH]; [repeat split; constructor|].
    destruct IH as (I1 & I2 & I3 & I4). cbn [forallb]. rewrite A, B, I1, I2. repeat split; try reflexivity.
    - constructor; [split; assumption|exact I3].
    - constructor; [exact E|exact I4]. }
  destruct K as (K1 & K2 & K3 & K4). split; [exact K2|].
  exact (segment_generic head its exps b pos0 tx Hh K1 K3 K4 Hb).
Qed.

(* ------------------------------------------------------------------ multi-track, full samples (trex / nil trex) *)
Lemma reads_multi h fr opt fe x :
  hist_ok h -> hist_frag h = Some fr -> encode_frag opt fr = Ok fe -> frag_guard fr fe ->
  consistent (added_fulls (fh_tracks h) (tx_track x) (fh_ops h)) ->
  item_reads (Some x) (hist_item h fe []) (added_fulls (fh_tracks h) (tx_track x) (fh_ops h)).
Proof.
  intros Hok Hf He Hg Hc. destruct (full_item_facts h fr opt fe Hok Hf He) as (F1 & F2 & F3 & F4).
  repeat split; try assumption. intros p Hp. cbn [hist_item ei_fe ei_lz] in *.
  destruct Hok as (Hnd & Hlen & Hfull & Hsz & Hk).
  unfold hist_frag in Hf. destruct (run_ops (hist_start h) (fh_ops h)) as [cs r] eqn:Hrun. cbn [snd] in Hf. subst r.
  exact (roundtrip_multi_final (fh_tracks h) _ _ _ _ (fh_ops h) cs fr opt fe p x Hnd Hlen Hfull Hsz Hrun He Hg Hp Hc).
Qed.

Lemma reads_multi_nil h T0 rest fr opt fe :
  fh_tracks h = T0 :: rest ->
  hist_ok h -> hist_frag h = Some fr -> encode_frag opt fr = Ok fe -> frag_guard fr fe ->
  consistent (added_fulls (fh_tracks h) T0 (fh_ops h)) ->
  item_reads None (hist_item h fe []) (added_fulls (fh_tracks h) T0 (fh_ops h)).
Proof.
  intros Ht Hok Hf He Hg Hc. destruct (full_item_facts h fr opt fe Hok Hf He) as (F1 & F2 & F3 & F4).
  repeat split; try assumption. intros p Hp. cbn [hist_item ei_fe ei_lz] in *.
  destruct Hok as (Hnd & Hlen & Hfull & Hsz & Hk).
  unfold hist_frag in Hf. destruct (run_ops (hist_start h) (fh_ops h)) as [cs r] eqn:Hrun. cbn [snd] in Hf. subst r.
  unfold hist_start in Hrun. rewrite Ht in *.
  exact (roundtrip_multi_nil_final T0 rest _ _ _ _ (fh_ops h) cs fr opt fe p Hnd Hlen Hfull Hsz Hrun He Hg Hp Hc).
Qed.

(* ------------------------------------------------------------------ multi-track, metadata-only additions *)
(* the history fh_ops h is read as AddSampleToTrack calls (to_lazy); the caller writes the data of the accepted
   operations right after the fragment, so the fragment has no box after its mdat *)
Lemma reads_multi_lazy h cs b' opt fb x :
  hist_ok h -> fh_post h = [] ->
  run_ops (hist_start h) (map to_lazy (fh_ops h)) = (cs, Some b') -> encode_frag opt b' = Ok fb ->
  let data := flat_map op_data (accepted cs (fh_ops h)) in
  moof_size fb + md_header_size (fr_mdat fb) + lenN data < 2147483648 ->
  consistent (added_fulls (fh_tracks h) (tx_track x) (fh_ops h)) ->
  item_reads (Some x) (hist_item h fb data) (added_fulls (fh_tracks h) (tx_track x) (fh_ops h)).
Proof.
  intros (Hnd & Hlen & Hfull & Hsz & Hk) Hpost Hrunb Hencb data Hguard Hcons.
  set (fr0 := hist_start h) in *.
  pose proof (create_multi_extras_ginv (fh_tracks h) (xsum (fh_pre h)) (fh_mx h) (xsum (fh_post h)) (fh_exs h) Hnd) as H0.
  fold (hist_start h) in H0. fold fr0 in H0.
  destruct (run_ops_total (fh_tracks h) (fh_ops h) [] fr0 Hnd ltac:(cbn [count]; lia) Hfull H0) as (cs2 & a' & Hruna).
  pose proof (is_full_to_full _ Hfull) as Hfull'.
  assert (Hm0 : same_meta fr0 fr0) by (repeat split).
  destruct (history_lazy (fh_ops h) fr0 fr0 cs2 a' Hfull' Hm0 Hruna) as (b2 & Hrunb2 & Hm & (Hd & Hp) & Hl).
  rewrite Hrunb in Hrunb2. injection Hrunb2 as <- <-.
  assert (Hd0 : md_data (fr_mdat fr0) = [] /\ md_parts (fr_mdat fr0) = [] /\ md_lazy (fr_mdat fr0) = 0) by (repeat split).
  destruct Hd0 as (D0 & P0 & L0). rewrite D0 in Hd. rewrite P0 in Hp.
  rewrite L0, fold_u64_sum in Hl by lia. cbn [N.add] in Hl. rewrite (sizes_accepted cs (fh_ops h) Hsz) in Hl. fold data in Hl.
  assert (Hlz : md_lazy (fr_mdat b') = lenN data) by (rewrite Hl; unfold u64; apply N.mod_small; lia).
  destruct (encode_frag_mdat opt b' fb Hencb) as (El & Ed & Ep).
  destruct (encode_frag_pre_post opt b' fb Hencb) as (Epre & _).
  destruct (run_ops_pre_post _ _ _ _ Hrunb) as (Rpre & _).
  assert (Hw : md_written (fr_mdat fb) = []) by (unfold md_written; rewrite Ep, Hp, Ed, Hd; reflexivity).
  assert (Hpay : md_payload (fr_mdat fb) = lenN data).
  { unfold md_payload, md_data_length. rewrite El, Hlz, Ep, Hp, Ed, Hd.
    destruct (0 <? lenN data) eqn:E; [reflexivity|]. apply N.ltb_ge in E. change (lenN (@nil N)) with 0. lia. }
  repeat split.
  - exact Hk.
  - unfold item_framed. cbn [hist_item ei_fe ei_lz ei_post]. rewrite Hpay, Hw, Hpost. cbn [is_nil].
    rewrite orb_true_r, andb_true_r. apply N.eqb_eq. change (lenN (@nil N)) with 0. lia.
  - unfold item_pure. cbn [hist_item ei_fe ei_lz]. rewrite El, Hlz, Hw. cbn [is_nil]. rewrite andb_true_r.
    destruct (0 <? lenN data) eqn:E; [apply orb_true_r|]. apply N.ltb_ge in E.
    assert (Hz : lenN data = 0) by lia. rewrite Hz. unfold lenN in Hz. destruct data; [reflexivity|cbn in Hz; lia].
  - cbn [hist_item ei_fe ei_pre]. rewrite Epre, Rpre. reflexivity.
  - intros p Hpos. cbn [hist_item ei_fe ei_lz] in *.
    exact (roundtrip_lazy (fh_tracks h) _ _ _ _ (fh_ops h) cs b' opt fb p x Hnd Hlen Hfull Hsz Hrunb Hencb Hguard Hpos Hcons).
Qed.

(* ------------------------------------------------------------------ single-track fragments, all six operations *)
Definition md_pure (m : mdat) (lz : list N) : bool :=
  ((md_lazy m =? 0) && is_nil lz) || ((0 <? md_lazy m) && is_nil (md_written m)).

Lemma lenN_zero_nil {A} (l : list A) : lenN l = 0 -> l = [].
Proof. unfold lenN. destruct l; [reflexivity|cbn; lia]. Qed.

(* the mdat bookkeeping of a single-track history in one data mode *)
Lemma single_md_facts T ops cs fr pre mx post exs FL lz :
  Forall (fun o => op_dts o < 18446744073709551616) ops ->
  run_ops (with_extras (create_fragment T) pre mx post exs) ops = (cs, Some fr) ->
  mode_ok ops cs FL lz -> map fs_s FL = added1 T ops -> Forall sized_f FL ->
  lenN (flat_map fs_data FL) < 18446744073709551616 ->
  md_payload (fr_mdat fr) = lenN (md_written (fr_mdat fr)) + lenN lz /\ md_pure (fr_mdat fr) lz = true.
Proof.
  intros Hdts Hrun Hmode Hs Hsz Hb.
  set (fr0 := with_extras (create_fragment T) pre mx post exs) in *.
  destruct (history_sinv6 T ops [] fr0 cs fr Hdts (create_fragment_sinv6 T pre mx post exs) Hrun) as (_ & Hacc).
  assert (Hsum : sizes_sum (added1 T ops) = lenN (flat_map fs_data FL)) by (rewrite <- Hs; apply sizes_sum_sized; exact Hsz).
  assert (D0 : md_data (fr_mdat fr0) = [] /\ md_parts (fr_mdat fr0) = [] /\ md_lazy (fr_mdat fr0) = 0) by (repeat split).
  destruct D0 as (D0 & P0 & L0).
  unfold md_pure, md_payload, md_written, md_data_length.
  destruct Hmode as [(Hf & -> & HD)|[(Hf & ->)|(Hf & -> & HD)]].
  - destruct (history_full_mdat ops fr0 cs fr Hf Hrun) as (Da & Pa & La). rewrite P0 in Pa. specialize (La L0).
    rewrite La, Pa. change (0 <? 0) with false. cbn iota. change (lenN (@nil N)) with 0. split; [lia|reflexivity].
  - destruct (history_lazy_mdat ops fr0 cs fr Hf Hrun) as (Da & Pa & La & Lb). rewrite D0 in Da. rewrite P0 in Pa.
    rewrite L0 in La. cbn [N.add] in La. specialize (Lb ltac:(rewrite L0; lia)).
    rewrite Hacc in La. fold (added1 T ops) in La. rewrite Hsum in La.
    assert (Hlz : md_lazy (fr_mdat fr) = lenN (flat_map fs_data FL)).
    { unfold u64 in La. rewrite !N.mod_small in La by lia. exact La. }
    rewrite Hlz, Pa, Da. change (lenN (@nil N)) with 0. cbn [is_nil].
    destruct (0 <? lenN (flat_map fs_data FL)) eqn:E.
    + split; [lia|]. rewrite andb_true_r. apply orb_true_r.
    + apply N.ltb_ge in E. assert (Hz : lenN (flat_map fs_data FL) = 0) by lia.
      rewrite (lenN_zero_nil _ Hz). split; reflexivity.
  - destruct (history_parts_mdat ops fr0 cs fr Hf Hrun D0) as (Da & Pa & La). rewrite L0 in La.
    rewrite La, Da. change (0 <? 0) with false. cbn iota. change (lenN (@nil N)) with 0. cbn [is_nil N.eqb andb orb].
    split; [|reflexivity]. destruct (md_parts (fr_mdat fr)) as [|q qs]; [reflexivity|]. rewrite sumN_lenN_concat. lia.
Qed.

Lemma set_base_inj t t' : set_base t = set_base t' -> t = t'.
Proof. unfold set_base. intros H. injection H as _ H. exact H. Qed.

(* CreateFragment(seq,T) + extra boxes, ANY history of the six add operations in one data mode (mode_ok), FL = the
   accepted samples with their data pieces; with lazily written data there is no box after the mdat *)
Lemma reads_single T h cs fr opt fe x FL lz :
  hist_kinds h = true -> (lz = [] \/ fh_post h = []) ->
  Forall (fun o => op_dts o < 18446744073709551616) (fh_ops h) ->
  run_ops (hist_start1 T h) (fh_ops h) = (cs, Some fr) ->
  mode_ok (fh_ops h) cs FL lz ->
  map fs_s FL = added1 T (fh_ops h) -> Forall sized_f FL -> FL <> [] ->
  encode_frag opt fr = Ok fe ->
  moof_size fe + md_header_size (fr_mdat fe) + lenN (flat_map fs_data FL) < 2147483648 ->
  exists t, td_base (tf_dt (hd (mkTraf (create_tfhd T) (mkTfdt 0 0) [] 0) (fr_trafs fr))) = t /\
            item_reads (Some x) (hist_item h fe lz) (if tx_track x =? T then retime t FL else []).
Proof.
  intros Hk Hlzp Hdts Hrun Hmode Hs Hsz Hne Henc Hguard.
  unfold hist_start1 in Hrun.
  destruct (history_sinv6 T (fh_ops h) [] _ cs fr Hdts (create_fragment_sinv6 T _ _ _ _) Hrun) as (((t & ex & Hbt & Ht) & _) & _).
  cbn [app] in Ht. exists t. split; [rewrite Ht; reflexivity|].
  destruct (single_md_facts T (fh_ops h) cs fr _ _ _ _ FL lz Hdts Hrun Hmode Hs Hsz ltac:(lia)) as (Hpay & Hpure).
  destruct (encode_frag_mdat opt fr fe Henc) as (El & Ed & Ep).
  destruct (encode_frag_pre_post opt fr fe Henc) as (Epre & _).
  destruct (run_ops_pre_post _ _ _ _ Hrun) as (Rpre & _).
  assert (Hpay' : md_payload (fr_mdat fe) = md_payload (fr_mdat fr)) by (unfold md_payload, md_data_length; rewrite El, Ed, Ep; reflexivity).
  assert (Hw' : md_written (fr_mdat fe) = md_written (fr_mdat fr)) by (unfold md_written; rewrite Ed, Ep; reflexivity).
  repeat split.
  - exact Hk.
  - unfold item_framed. cbn [hist_item ei_fe ei_lz ei_post]. rewrite Hpay', Hw', Hpay, N.eqb_refl. cbn [andb].
    destruct Hlzp as [->| ->]; [reflexivity|apply orb_true_r].
  - unfold item_pure. cbn [hist_item ei_fe ei_lz]. rewrite El, Hw'. exact Hpure.
  - cbn [hist_item ei_fe ei_pre]. rewrite Epre, Rpre. reflexivity.
  - intros p Hp. cbn [hist_item ei_fe ei_lz] in *.
    destruct (roundtrip_single_modes T (fh_ops h) cs fr opt fe p x _ _ _ _ FL lz Hdts Hrun Hmode Hs Hsz Hne Henc Hguard Hp)
      as (t' & ex' & Ht' & R).
    rewrite Ht in Ht'.
    assert (Hb' : t = t').
    { apply (f_equal (fun l => match l with a :: _ => td_base (tf_dt a) | [] => 0 end)) in Ht'. exact Ht'. }
    subst t'. exact R.
Qed.

(* ------------------------------------------------------------------ the classes, as one relation *)
(* one fragment of the segment with what it reads back for trex tx: any of the four classes *)
Inductive frag_case (opt : bool) : option trex -> eitem -> list fullsample -> Prop :=
| FC_multi h fr fe x :
    hist_ok h -> hist_frag h = Some fr -> encode_frag opt fr = Ok fe -> frag_guard fr fe ->
    consistent (added_fulls (fh_tracks h) (tx_track x) (fh_ops h)) ->
    frag_case opt (Some x) (hist_item h fe []) (added_fulls (fh_tracks h) (tx_track x) (fh_ops h))
| FC_multi_nil h T0 rest fr fe :
    fh_tracks h = T0 :: rest ->
    hist_ok h -> hist_frag h = Some fr -> encode_frag opt fr = Ok fe -> frag_guard fr fe ->
    consistent (added_fulls (fh_tracks h) T0 (fh_ops h)) ->
    frag_case opt None (hist_item h fe []) (added_fulls (fh_tracks h) T0 (fh_ops h))
| FC_multi_lazy h cs b' fb x :
    hist_ok h -> fh_post h = [] ->
    run_ops (hist_start h) (map to_lazy (fh_ops h)) = (cs, Some b') -> encode_frag opt b' = Ok fb ->
    moof_size fb + md_header_size (fr_mdat fb) + lenN (flat_map op_data (accepted cs (fh_ops h))) < 2147483648 ->
    consistent (added_fulls (fh_tracks h) (tx_track x) (fh_ops h)) ->
    frag_case opt (Some x) (hist_item h fb (flat_map op_data (accepted cs (fh_ops h))))
              (added_fulls (fh_tracks h) (tx_track x) (fh_ops h))
| FC_single T h cs fr fe x FL lz t :
    hist_kinds h = true -> (lz = [] \/ fh_post h = []) ->
    Forall (fun o => op_dts o < 18446744073709551616) (fh_ops h) ->
    run_ops (hist_start1 T h) (fh_ops h) = (cs, Some fr) ->
    mode_ok (fh_ops h) cs FL lz ->
    map fs_s FL = added1 T (fh_ops h) -> Forall sized_f FL -> FL <> [] ->
    encode_frag opt fr = Ok fe ->
    moof_size fe + md_header_size (fr_mdat fe) + lenN (flat_map fs_data FL) < 2147483648 ->
    td_base (tf_dt (hd (mkTraf (create_tfhd T) (mkTfdt 0 0) [] 0) (fr_trafs fr))) = t ->
    frag_case opt (Some x) (hist_item h fe lz) (if tx_track x =? T then retime t FL else []).

Lemma frag_case_reads opt tx it e : frag_case opt tx it e -> item_reads tx it e.
Proof.
  intros H. destruct H.
  - apply (reads_multi h fr opt fe x); assumption.
  - apply (reads_multi_nil h T0 rest fr opt fe); assumption.
  - apply (reads_multi_lazy h cs b' opt fb x); assumption.
  - destruct (reads_single T h cs fr opt fe x FL lz) as (t' & Et & R); try assumption. subst. exact R.
Qed.

Lemma segment_roundtrip_any head opt b pos0 tx its exps :
  head_ok head = true -> Forall2 (frag_case opt tx) its exps ->
  pos0 + stream_size (seg_stream head its) < POSB ->
  forallb item_framed its = true /\
  exists st, seg_decode b pos0 (seg_stream head its) = Ok st /\
             length (file_frags st) = length its /\ seg_read st tx = Ok (concat exps).
Proof.
  intros Hh H Hb. apply segment_any; try assumption.
  clear Hb. induction H as [|it e its exps H1 _ IH]; constructor; [apply (frag_case_reads opt tx); exact H1|exact IH].
Qed.
