(* C05SegCodecModel.v — byte-level model of the framing around tfhd/trun: box headers (mp4/box.go DecodeHeader /
   boxsr.go DecodeHeaderSR), container children (container.go DecodeContainerChildrenSR), mfhd, tfdt (v0/v1),
   traf, moof (moof.go, traf.go AddChild) and the mdat header (mdat.go Encode, 8 or 16 bytes).  Definitions only.
   DecodeMoof reads its payload and then uses the SliceReader decoders, so both DecodeFile and DecodeFileSR go
   through the same text for everything inside a moof.
   Not modelled: the body decoders of other box types (children that are not mfhd/traf/tfhd/tfdt/trun are skipped
   by size), a truncated mdat on the SliceReader path (accepted there, an error here). *)
From V.lib Require Import Base.
From V.c05 Require Import C05Model C05FragModel C05CodecModel C05SegModel.

Definition T_MOOF : list N := [109; 111; 111; 102].
Definition T_MFHD : list N := [109; 102; 104; 100].
Definition T_TRAF : list N := [116; 114; 97; 102].
Definition T_TFHD : list N := [116; 102; 104; 100].
Definition T_TFDT : list N := [116; 102; 100; 116].
Definition T_TRUN : list N := [116; 114; 117; 110].
Definition T_MDAT : list N := [109; 100; 97; 116].

Fixpoint list_eqb (a b : list N) : bool :=
  match a, b with
  | [], [] => true
  | x :: a', y :: b' => (x =? y) && list_eqb a' b'
  | _, _ => false
  end.

(* DecodeHeaderSR: (type, size, header length, rest) *)
Definition dec_header (l : list N) : res (list N * N * N * list N) :=
  match rd32 l with
  | None => Err
  | Some (sz, l1) =>
      match l1 with
      | a :: b :: c :: d :: l2 =>
          if sz =? 1 then
            match rd64 l2 with
            | None => Err
            | Some (big, l3) => if big <? 16 then Err else Ok ([a; b; c; d], big, 16, l3)
            end
          else if sz =? 0 then Err                       (* size 0, to end of file: not supported *)
          else if sz <? 8 then Err                       (* header size exceeds box size *)
          else Ok ([a; b; c; d], sz, 8, l2)
      | _ => Err
      end
  end.

(* the next whole box of l: (type, size, header length, body, rest); a box that does not fit is an error *)
Definition next_box (l : list N) : res (list N * N * N * list N * list N) :=
  do h <- dec_header l;
  let '(typ, size, hl, l1) := h in
  if lenN l1 <? size - hl then Err
  else let n := N.to_nat (size - hl) in Ok (typ, size, hl, firstn n l1, skipn n l1).

(* the loop of DecodeContainerChildrenSR over the body of the parent; fuel = number of bytes *)
Fixpoint dec_boxes {A} (fuel : nat) (dec1 : list N -> N -> list N -> res A) (l : list N) : res (list A) :=
  match l with
  | [] => Ok []
  | _ =>
      match fuel with
      | O => OutOfFuel
      | S f =>
          do nb <- next_box l;
          let '(typ, size, hl, body, rest) := nb in
          do c <- dec1 typ size body;
          do cs <- dec_boxes f dec1 rest;
          Ok (c :: cs)
      end
  end.

(* ------------------------------------------------------------------ tfdt, mfhd *)
(* DecodeTfdtSR; the children loop then requires that the whole body was consumed *)
Definition dec_tfdt (body : list N) : res tfdt :=
  match rd32 body with
  | None => Err
  | Some (vf, l1) =>
      let version := vf / 16777216 in
      if version =? 0 then
        match rd32 l1 with Some (t, l2) => if is_nil l2 then Ok (mkTfdt version t) else Err | None => Err end
      else
        match rd64 l1 with Some (t, l2) => if is_nil l2 then Ok (mkTfdt version t) else Err | None => Err end
  end.

Definition dec_mfhd (body : list N) : res N :=
  match rd32 body with
  | None => Err
  | Some (_, l1) => match rd32 l1 with Some (seq, l2) => if is_nil l2 then Ok seq else Err | None => Err end
  end.

(* ------------------------------------------------------------------ traf *)
Inductive tchild := CTfhd (h : tfhd) | CTfdt (d : tfdt) | CTrun (r : trun) | COtherT (size : N).

Definition dec_traf_child (typ : list N) (size : N) (body : list N) : res tchild :=
  if list_eqb typ T_TFHD then
    do h <- dec_tfhd body; if lenN body + 8 =? tfhd_size h then Ok (CTfhd h) else Err     (* child size mismatch *)
  else if list_eqb typ T_TFDT then do d <- dec_tfdt body; Ok (CTfdt d)
  else if list_eqb typ T_TRUN then do r <- dec_trun size body; Ok (CTrun r)
  else Ok (COtherT size).

(* TrafBox after AddChild of every child: Tfhd, Tfdt (the last ones), Truns in order, size of the other children *)
Record dtraf := mkDtraf { dt_hd : option tfhd; dt_dt : option tfdt; dt_truns : list trun; dt_extra : N }.

Definition traf_add (t : dtraf) (c : tchild) : dtraf :=
  match c with
  | CTfhd h => mkDtraf (Some h) (dt_dt t) (dt_truns t) (dt_extra t)
  | CTfdt d => mkDtraf (dt_hd t) (Some d) (dt_truns t) (dt_extra t)
  | CTrun r => mkDtraf (dt_hd t) (dt_dt t) (dt_truns t ++ [r]) (dt_extra t)
  | COtherT n => mkDtraf (dt_hd t) (dt_dt t) (dt_truns t) (dt_extra t + n)
  end.

Definition dec_traf (body : list N) : res dtraf :=
  do cs <- dec_boxes (length body) dec_traf_child body;
  Ok (fold_left traf_add cs (mkDtraf None None [] 0)).

(* ------------------------------------------------------------------ moof *)
Inductive mchild := CMfhd (seq : N) | CTraf (t : dtraf) | COtherM (size : N).

Definition dec_moof_child (typ : list N) (size : N) (body : list N) : res mchild :=
  if list_eqb typ T_MFHD then do s <- dec_mfhd body; Ok (CMfhd s)
  else if list_eqb typ T_TRAF then do t <- dec_traf body; Ok (CTraf t)
  else Ok (COtherM size).

(* MoofBox: Mfhd sequence number (last one), Trafs in order, size of the other children *)
Record dmoof := mkDmoof { dm_seq : option N; dm_trafs : list dtraf; dm_extra : N }.

Definition moof_add (m : dmoof) (c : mchild) : dmoof :=
  match c with
  | CMfhd s => mkDmoof (Some s) (dm_trafs m) (dm_extra m)
  | CTraf t => mkDmoof (dm_seq m) (dm_trafs m ++ [t]) (dm_extra m)
  | COtherM n => mkDmoof (dm_seq m) (dm_trafs m) (dm_extra m + n)
  end.

Definition dec_moof (body : list N) : res dmoof :=
  do cs <- dec_boxes (length body) dec_moof_child body;
  Ok (fold_left moof_add cs (mkDmoof None [] 0)).

(* the traf as Fragment.GetFullSamples uses it: Tfhd == nil is a nil dereference there (None),
   Tfdt == nil means base time 0 *)
Definition to_traf (t : dtraf) : option traf :=
  match dt_hd t with
  | None => None
  | Some h => Some (mkTraf h (match dt_dt t with Some d => d | None => mkTfdt 0 0 end) (dt_truns t) (dt_extra t))
  end.

Fixpoint to_trafs (l : list dtraf) : option (list traf) :=
  match l with
  | [] => Some []
  | t :: rest => match to_traf t, to_trafs rest with Some a, Some b => Some (a :: b) | _, _ => None end
  end.

(* ------------------------------------------------------------------ mdat *)
(* MdatBox.Encode: EncodeHeaderWithSize("mdat", m.Size(), m.LargeSize), then the data (parts); m is the mdat after
   Fragment.Encode, i.e. Size() has already marked it large when needed.  A payload of 4 GiB or more without the
   large flag cannot occur after md_size_touch. *)
Definition enc_mdat_header (m : mdat) : list N :=
  if md_large m then be32 1 ++ T_MDAT ++ be64 (u64 (16 + md_payload m))
  else be32 (u32 (8 + md_payload m)) ++ T_MDAT.

Definition enc_mdat (m : mdat) : list N := enc_mdat_header m ++ md_written m.

(* ------------------------------------------------------------------ the top-level stream *)
(* a top-level box as the File loop sees it: moof (decoded), mdat (header length, payload), other (type, size) *)
Inductive bbox := BMoof (size : N) (m : dmoof) | BMdat (hdr : N) (payload : list N) | BOther (typ : list N) (size : N).

Definition dec_top_box (typ : list N) (size : N) (hl : N) (body : list N) : res bbox :=
  if list_eqb typ T_MOOF then do m <- dec_moof body; Ok (BMoof size m)
  else if list_eqb typ T_MDAT then Ok (BMdat hl body)
  else Ok (BOther typ size).

Fixpoint dec_top (fuel : nat) (l : list N) : res (list bbox) :=
  match l with
  | [] => Ok []
  | _ =>
      match fuel with
      | O => OutOfFuel
      | S f =>
          do nb <- next_box l;
          let '(typ, size, hl, body, rest) := nb in
          do b <- dec_top_box typ size hl body;
          do bs <- dec_top f rest;
          Ok (b :: bs)
      end
  end.

(* Fragment.Encode for a fragment without boxes before the moof and after the mdat: moof, mdat *)
Definition enc_fragment (seq : N) (fe : frag) : res (list N) :=
  do mb <- enc_moof seq fe; Ok (mb ++ enc_mdat (fr_mdat fe)).
