(* C05EncHistModel.v — Fragment.Encode as a STATE TRANSFORMER inside the op histories (mp4/fragment.go Encode /
   EncodeSW, mp4/moof.go MoofBox.Encode after fix 1704b4c).  Definitions only.

   Fragment.Encode mutates the fragment: with OptimizeTrun it rewrites the flags of the first trun of the first
   traf and the tfhd defaults IN PLACE (OptimizeTfhdTrun), it always writes the data offsets of all truns
   (SetTrunDataOffsets) and marks the mdat large-size (MdatBox.Size).  The additions that follow see that state. *)
From V.lib Require Import Base.
From V.c05 Require Import C05Model C05FragModel.

(* outcome class and state after f.Encode(w) (the writer never fails):
     if EncOptimize&OptimizeTrun != 0 && traf != nil && traf.Trun != nil { err := traf.OptimizeTfhdTrun(); if err != nil { return err } }
     f.SetTrunDataOffsets()
     for _, b := range f.Children { b.Encode(w) }     -- MoofBox.Encode: any trun of any traf with the data-offset
                                                          flag and DataOffset == 0 is the error "dataoffset in trun not set"
                                                          (the offsets stay written); MdatBox.Encode calls Size() *)
Definition encode_state (opt : bool) (fr : frag) : oclass * option frag :=
  match (if opt then optimize_first fr else Ok fr) with
  | Ok fr1 =>
      let fr2 := set_offsets fr1 in
      if existsb doff_unset (all_truns (fr_trafs fr2)) then (CErr, Some fr2)
      else (COk, Some (fr_with fr2 (fr_trafs fr2) (md_size_touch (fr_mdat fr2)) (fr_next fr2)))
  | Err => (CErr, Some fr)             (* "no samples in trun": nothing was changed *)
  | _ => (CPanic, None)
  end.

(* a history: the six sample additions interleaved with Encode calls (opt = EncOptimize has OptimizeTrun) *)
Inductive hop :=
| HAdd (o : op)
| HEnc (opt : bool).

Fixpoint run_hops (fr : frag) (hs : list hop) : list oclass * option frag :=
  match hs with
  | [] => ([], Some fr)
  | HAdd o :: rest =>
      match step fr o with
      | Ok fr' => let '(cs, r) := run_hops fr' rest in (COk :: cs, r)
      | Err => let '(cs, r) := run_hops fr rest in (CErr :: cs, r)
      | _ => ([CPanic], None)
      end
  | HEnc opt :: rest =>
      match encode_state opt fr with
      | (c, Some fr') => let '(cs, r) := run_hops fr' rest in (c :: cs, r)
      | (c, None) => ([c], None)
      end
  end.

(* the additions of a history *)
Definition adds (hs : list hop) : list op :=
  flat_map (fun h => match h with HAdd o => [o] | HEnc _ => [] end) hs.
(* the outcome classes of the additions (those of the Encode calls dropped) *)
Fixpoint add_classes (hs : list hop) (cs : list oclass) : list oclass :=
  match hs, cs with
  | HAdd _ :: hs', c :: cs' => c :: add_classes hs' cs'
  | HEnc _ :: hs', _ :: cs' => add_classes hs' cs'
  | _, _ => []
  end.
(* every Encode in the history is a plain one (no trun optimisation) *)
Definition plain (hs : list hop) : bool :=
  forallb (fun h => match h with HEnc true => false | _ => true end) hs.

(* ------------------------------------------------------------------ the guard for optimised mid-history encodes *)
(* a trun whose samples are what the decode side resolves from its OWN flag word and this tfhd, for every trex:
   a per-sample field that the flag word no longer announces must be carried by the tfhd default (cto: be 0) *)
Definition trun_selfres (h : tfhd) (r : trun) : bool :=
  (has_dur r || forallb (fun s => tf_has_ddur h && (s_dur s =? tf_ddur h)) (tr_samples r)) &&
  (has_size r || forallb (fun s => tf_has_dsize h && (s_size s =? tf_dsize h)) (tr_samples r)) &&
  (has_cto r || forallb (fun s => Z.eqb (s_cto s) 0) (tr_samples r)) &&
  (has_sflags r ||
   match tr_samples r with
   | [] => true
   | s0 :: rest =>
       (if has_fsf r then s_flags s0 =? tr_fsf r else tf_has_dflags h && (s_flags s0 =? tf_dflags h)) &&
       forallb (fun s => tf_has_dflags h && (s_flags s =? tf_dflags h)) rest
   end).

Definition all4 (r : trun) : bool := has_dur r && has_size r && has_sflags r && has_cto r.

(* the state before the final Encode: the first trun of the first traf (the only one OptimizeTfhdTrun ever touches)
   resolves to its own samples; every other trun still announces all four per-sample fields *)
Definition enc_guard (fr : frag) : bool :=
  match fr_trafs fr with
  | [] => true
  | t :: ts =>
      match tf_truns t with
      | [] => true
      | r :: rs => trun_selfres (tf_hd t) r && forallb all4 rs
      end
      && forallb (fun t' => forallb all4 (tf_truns t')) ts
  end.

(* GetFullSamples with an explicit base position in place of moof.StartPos (used to state that the base IS the moof start) *)
Definition with_base (d : dfrag) (base : N) : dfrag :=
  mkDfrag (df_trafs d) (df_data d) base (df_payload_abs d).
