(* C05SingleProofs.v — single-track fragments under ALL six add operations, one data mode per fragment
   (full samples / metadata-only with data written by the caller / sample intervals as data parts):
   the decoded fragment reads back the samples with their bytes. *)
From V.lib Require Import Base.
From V.c05 Require Import C05Model C05FragModel C05OptProofs C05HistProofs C05OffProofs C05GhostProofs
  C05ReadProofs C05RoundProofs C05LazyProofs C05LazyRoundProofs.

(* ------------------------------------------------------------------ transfer: only the mdat header matters *)
Definition view_data (fr : frag) (lz : list N) : list N :=
  if 0 <? md_lazy (fr_mdat fr) then lz else md_written (fr_mdat fr).

Lemma roundtrip_swap tracks g a b opt fb pos0 lz tx :
  NoDup tracks -> ginv tracks g a -> sized g ->
  same_meta a b -> hdr a = hdr b -> view_data b lz = all_data g ->
  encode_frag opt b = Ok fb ->
  let A := track_fulls (tx_track tx) g in
  moof_size fb + md_header_size (fr_mdat fb) + lenN (all_data g) < 2147483648 ->
  pos0 + fr_pre fb < 4611686018427387904 ->
  td_base (tfdt_of A) < 18446744073709551616 ->
  get_full_samples (decoded_view fb pos0 lz) (Some tx) = Ok (retime (td_base (tfdt_of A)) A).
Proof.
  intros Hnd Hi Hs Hm Hh Hv Hencb A Hguard Hpos Hbt.
  pose proof (encode_frag_meta opt a b Hm Hh) as EM. rewrite Hencb in EM.
  destruct (encode_frag opt a) as [fa| | |] eqn:Henca; cbn [same_class] in EM; try contradiction.
  destruct EM as (Hmf & Hhf & (FaL & FaD & FaP) & (FbL & FbD & FbP)).
  pose proof Hi as (_ & _ & _ & _ & Hdat & Hpar & Hlaz).
  assert (Hview : decoded_view fb pos0 lz = decoded_view fa pos0 []).
  { pose proof (moof_size_same fa fb Hmf) as Hms. destruct Hmf as (Ht & Hn & Hpre & Hx & Hq).
    unfold decoded_view. rewrite <- Ht, <- Hpre, <- Hms, <- Hhf. f_equal.
    rewrite FaL, Hlaz. change (0 <? 0) with false. cbn iota.
    unfold md_written at 2. rewrite FaP, Hpar, FaD, Hdat. rewrite <- Hv. unfold view_data.
    rewrite FbL. unfold md_written. rewrite FbP, FbD. reflexivity. }
  rewrite Hview.
  pose proof (moof_size_same fa fb Hmf) as Hms. destruct Hmf as (_ & _ & Hpre & _).
  apply (roundtrip_ginv tracks g a opt fa pos0 tx); try assumption.
  - rewrite Hms, Hhf. exact Hguard.
  - rewrite Hpre. exact Hpos.
Qed.

(* ------------------------------------------------------------------ single-track histories, all six operations *)
Definition with_mdat (fr : frag) (m : mdat) : frag :=
  mkFrag (fr_trafs fr) m (fr_next fr) (fr_pre fr) (fr_moofx fr) (fr_post fr).

(* the traf keeps the shape; its tfdt is always some SetBaseMediaDecodeTime(t) *)
Definition sinv6 (T : N) (l : list sample) (fr : frag) : Prop :=
  (exists t ex, t < 18446744073709551616 /\
     fr_trafs fr = [mkTraf (create_tfhd T) (set_base t) [canon 0 l] ex]) /\ fr_next fr = 1.

Lemma create_fragment_sinv6 T pre mx post exs : sinv6 T [] (with_extras (create_fragment T) pre mx post exs).
Proof.
  split; [|reflexivity]. exists 0. unfold with_extras. cbn [create_fragment fr_trafs].
  destruct exs as [|e exs]; cbn [set_extras]; eexists; (split; [lia|reflexivity]).
Qed.

Lemma step_sinv6 T l fr o fr' :
  op_dts o < 18446744073709551616 ->
  sinv6 T l fr -> step fr o = Ok fr' -> hits T o = true /\ sinv6 T (l ++ op_samples o) fr'.
Proof.
  intros Hod ((t0 & ex & Hb0 & Ht) & Hn) H.
  assert (Hdt : exists t', t' < 18446744073709551616 /\
                   (if u32 (lenN l) =? 0 then set_base (op_dts o) else set_base t0) = set_base t').
  { destruct (u32 (lenN l) =? 0); eexists; (split; [|reflexivity]); assumption. }
  destruct o as [s d data|t s d data|t s d|s d|ss d|d ss data]; cbn [step hits op_track op_samples] in *.
  - unfold add_first in H. rewrite Ht in H. cbn [tf_truns rbind tf_hd tf_dt tf_extra tr_samples canon] in H.
    injection H as <-. split; [reflexivity|]. destruct Hdt as (t' & Hb' & Et). cbn [op_dts] in Et. rewrite Et.
    split; [|exact Hn]. exists t', ex. split; [exact Hb'|reflexivity].
  - unfold add_sample_to_track in H. rewrite Ht, Hn in H. cbn [add_to_track_trafs tf_hd tf_track create_tfhd] in H.
    destruct (T =? t) eqn:E; [|discriminate].
    unfold add_to_traf in H. cbn [tf_truns last removelast tr_won canon tf_hd tf_extra tf_dt app tr_samples] in H.
    change (u32 (1 + 4294967295)) with 0 in H. cbn [N.eqb negb rbind] in H. injection H as <-.
    split; [rewrite N.eqb_sym; exact E|]. destruct Hdt as (t' & Hb' & Et). cbn [op_dts] in Et. rewrite Et.
    split; [|reflexivity]. exists t', ex. split; [exact Hb'|reflexivity].
  - unfold add_sample_to_track in H. rewrite Ht, Hn in H. cbn [add_to_track_trafs tf_hd tf_track create_tfhd] in H.
    destruct (T =? t) eqn:E; [|discriminate].
    unfold add_to_traf in H. cbn [tf_truns last removelast tr_won canon tf_hd tf_extra tf_dt app tr_samples] in H.
    change (u32 (1 + 4294967295)) with 0 in H. cbn [N.eqb negb rbind] in H. injection H as <-.
    split; [rewrite N.eqb_sym; exact E|]. destruct Hdt as (t' & Hb' & Et). cbn [op_dts] in Et. rewrite Et.
    split; [|reflexivity]. exists t', ex. split; [exact Hb'|reflexivity].
  - unfold add_first in H. rewrite Ht in H. cbn [tf_truns rbind tf_hd tf_dt tf_extra tr_samples canon] in H.
    injection H as <-. split; [reflexivity|]. destruct Hdt as (t' & Hb' & Et). cbn [op_dts] in Et. rewrite Et.
    split; [|exact Hn]. exists t', ex. split; [exact Hb'|reflexivity].
  - unfold add_first in H. rewrite Ht in H. cbn [tf_truns rbind tf_hd tf_dt tf_extra tr_samples canon] in H.
    injection H as <-. split; [reflexivity|]. destruct Hdt as (t' & Hb' & Et). cbn [op_dts] in Et. rewrite Et.
    split; [|exact Hn]. exists t', ex. split; [exact Hb'|reflexivity].
  - rewrite Ht in H. cbn [tf_truns tf_hd tf_dt tf_extra tr_samples canon] in H.
    destruct (md_add_part (fr_mdat fr) data); try discriminate. cbn [rbind] in H. injection H as <-.
    split; [reflexivity|]. destruct Hdt as (t' & Hb' & Et). cbn [op_dts] in Et. rewrite Et.
    split; [|exact Hn]. exists t', ex. split; [exact Hb'|reflexivity].
Qed.

Lemma history_sinv6 T ops : forall l fr cs fr',
  Forall (fun o => op_dts o < 18446744073709551616) ops ->
  sinv6 T l fr -> run_ops fr ops = (cs, Some fr') ->
  sinv6 T (l ++ added1 T ops) fr' /\ accepted cs ops = filter (hits T) ops.
Proof.
  induction ops as [|o ops IH]; intros l fr cs fr' Hb Hi H; cbn [run_ops] in H.
  - injection H as <- <-. unfold added1. cbn. rewrite app_nil_r. split; [exact Hi|reflexivity].
  - inversion Hb as [|? ? Hb1 Hb2]; subst.
    destruct (step fr o) as [fr1| | |] eqn:E; try discriminate.
    + destruct (run_ops fr1 ops) as [cs1 r1] eqn:E1. injection H as <- ->.
      destruct (step_sinv6 T l fr o fr1 Hb1 Hi E) as [Hh Hi1].
      destruct (IH _ _ _ _ Hb2 Hi1 E1) as [IH1 IH2].
      unfold added1 in *. cbn [filter accepted]. rewrite Hh. cbn [flat_map]. rewrite app_assoc, IH2. split; [exact IH1|reflexivity].
    + destruct (run_ops fr ops) as [cs1 r1] eqn:E1. injection H as <- ->.
      pose proof Hi as ((t0 & ex & Hb0 & Ht) & Hn).
      assert (Hh : hits T o = false).
      { apply (step_single_err T l fr o); [|exact E]. exists (set_base t0), ex. split; assumption. }
      destruct (IH l fr cs1 fr' Hb2 Hi E1) as [IH1 IH2].
      unfold added1 in *. cbn [filter accepted]. rewrite Hh. split; [exact IH1|exact IH2].
Qed.

(* ------------------------------------------------------------------ the mdat per data mode *)
Definition is_lazy (o : op) : bool :=
  match o with OMeta _ _ | OMetas _ _ | OMetaTo _ _ _ => true | _ => false end.
Definition is_parts (o : op) : bool := match o with OInterval _ _ _ => true | _ => false end.

Lemma step_lazy_mdat fr o fr' :
  is_lazy o = true -> step fr o = Ok fr' ->
  md_data (fr_mdat fr') = md_data (fr_mdat fr) /\ md_parts (fr_mdat fr') = md_parts (fr_mdat fr) /\
  md_lazy (fr_mdat fr') = u64 (md_lazy (fr_mdat fr) + sizes_sum (op_samples o)).
Proof.
  intros Hf H. destruct o as [s d data|t s d data|t s d|s d|ss d|d ss data]; try discriminate; cbn [step op_samples] in H |- *.
  - unfold add_sample_to_track in H. destruct (add_to_track_trafs _ _ _ _ _) as [[ts n]|]; try discriminate.
    injection H as <-. cbn [fr_with fr_mdat md_add_lazy md_data md_parts md_lazy]. repeat split.
    unfold sizes_sum. cbn [map sumN]. rewrite N.add_0_r. reflexivity.
  - destruct (add_first fr [s] d); try discriminate. injection H as <-.
    cbn [fr_with fr_mdat md_add_lazy md_data md_parts md_lazy]. repeat split.
    unfold sizes_sum. cbn [map sumN]. rewrite N.add_0_r. reflexivity.
  - destruct (add_first fr ss d); try discriminate. injection H as <-.
    cbn [fr_with fr_mdat md_add_lazy md_data md_parts md_lazy]. repeat split.
    unfold u64. rewrite N.add_mod_idemp_r by discriminate. reflexivity.
Qed.

Lemma history_lazy_mdat ops : forall fr cs fr',
  forallb is_lazy ops = true -> run_ops fr ops = (cs, Some fr') ->
  md_data (fr_mdat fr') = md_data (fr_mdat fr) /\ md_parts (fr_mdat fr') = md_parts (fr_mdat fr) /\
  u64 (md_lazy (fr_mdat fr')) = u64 (md_lazy (fr_mdat fr) + sizes_sum (flat_map op_samples (accepted cs ops))) /\
  (md_lazy (fr_mdat fr) < 18446744073709551616 -> md_lazy (fr_mdat fr') < 18446744073709551616).
Proof.
  induction ops as [|o ops IH]; intros fr cs fr' Hf H; cbn [run_ops] in H.
  - injection H as <- <-. cbn [accepted flat_map]. unfold sizes_sum. cbn [map sumN]. rewrite N.add_0_r. auto.
  - cbn [forallb] in Hf. apply andb_true_iff in Hf. destruct Hf as [Hf1 Hf2].
    destruct (step fr o) as [fr1| | |] eqn:E; try discriminate.
    + destruct (run_ops fr1 ops) as [cs1 r1] eqn:E1. injection H as <- ->.
      destruct (step_lazy_mdat fr o fr1 Hf1 E) as (D1 & P1 & L1).
      destruct (IH _ _ _ Hf2 E1) as (D2 & P2 & L2 & B2).
      cbn [accepted flat_map]. rewrite D2, D1, P2, P1. repeat split.
      * rewrite L2, L1, u64_add_l. unfold sizes_sum. rewrite map_app, sumN_app. f_equal. lia.
      * intros _. apply B2. rewrite L1. unfold u64. apply N.mod_lt. discriminate.
    + destruct (run_ops fr ops) as [cs1 r1] eqn:E1. injection H as <- ->.
      destruct (IH _ _ _ Hf2 E1) as (D2 & P2 & L2 & B2). cbn [accepted]. auto.
Qed.

Lemma step_parts_mdat fr o fr' :
  is_parts o = true -> step fr o = Ok fr' ->
  md_data (fr_mdat fr') = [] /\ md_parts (fr_mdat fr') = md_parts (fr_mdat fr) ++ [op_data o] /\
  md_lazy (fr_mdat fr') = md_lazy (fr_mdat fr).
Proof.
  intros Hf H. destruct o as [s d data|t s d data|t s d|s d|ss d|d ss data]; try discriminate; cbn [step op_data] in H |- *.
  destruct (fr_trafs fr) as [|t [|t2 ts]]; try discriminate. destruct (tf_truns t) as [|r [|r2 rs]]; try discriminate.
  unfold md_add_part in H. destruct (md_data (fr_mdat fr)) eqn:Ed; try discriminate. cbn [rbind] in H.
  injection H as <-. cbn [fr_with fr_mdat md_data md_parts md_lazy]. repeat split.
Qed.

Lemma history_parts_mdat ops : forall fr cs fr',
  forallb is_parts ops = true -> run_ops fr ops = (cs, Some fr') -> md_data (fr_mdat fr) = [] ->
  md_data (fr_mdat fr') = [] /\
  concat (md_parts (fr_mdat fr')) = concat (md_parts (fr_mdat fr)) ++ flat_map op_data (accepted cs ops) /\
  md_lazy (fr_mdat fr') = md_lazy (fr_mdat fr).
Proof.
  induction ops as [|o ops IH]; intros fr cs fr' Hf H H0; cbn [run_ops] in H.
  - injection H as <- <-. cbn [accepted flat_map]. rewrite app_nil_r. auto.
  - cbn [forallb] in Hf. apply andb_true_iff in Hf. destruct Hf as [Hf1 Hf2].
    destruct (step fr o) as [fr1| | |] eqn:E; try discriminate.
    + destruct (run_ops fr1 ops) as [cs1 r1] eqn:E1. injection H as <- ->.
      destruct (step_parts_mdat fr o fr1 Hf1 E) as (D1 & P1 & L1).
      destruct (IH _ _ _ Hf2 E1 D1) as (D2 & P2 & L2).
      cbn [accepted flat_map]. rewrite P2, P1, L2, L1, concat_app. cbn [concat]. rewrite app_nil_r, app_assoc. auto.
    + destruct (run_ops fr ops) as [cs1 r1] eqn:E1. injection H as <- ->.
      destruct (IH _ _ _ Hf2 E1 H0) as (D2 & P2 & L2). cbn [accepted]. auto.
Qed.

(* ------------------------------------------------------------------ the round trip, any data mode *)
Lemma retime_redate t t' FL : retime t (map (fun f => mkFull (fs_s f) t' (fs_data f)) FL) = retime t FL.
Proof. revert t. induction FL as [|f FL IH]; intros t; cbn [map retime fs_s fs_data]; [reflexivity|]. rewrite IH. reflexivity. Qed.

Lemma sumN_lenN_concat (ps : list (list N)) : sumN (map (fun p => lenN p) ps) = lenN (concat ps).
Proof. induction ps as [|p ps IH]; cbn [map sumN concat]; [reflexivity|]. rewrite lenN_app, IH. reflexivity. Qed.

Lemma roundtrip_single_core T fr t ex FL opt fe pos0 lz tx :
  FL <> [] -> Forall sized_f FL -> t < 18446744073709551616 ->
  fr_trafs fr = [mkTraf (create_tfhd T) (set_base t) [canon 0 (map fs_s FL)] ex] -> fr_next fr = 1 ->
  md_large (fr_mdat fr) = false -> md_payload (fr_mdat fr) = lenN (flat_map fs_data FL) ->
  view_data fr lz = flat_map fs_data FL ->
  encode_frag opt fr = Ok fe ->
  moof_size fe + md_header_size (fr_mdat fe) + lenN (flat_map fs_data FL) < 2147483648 ->
  pos0 + fr_pre fe < 4611686018427387904 ->
  get_full_samples (decoded_view fe pos0 lz) (Some tx) = Ok (if tx_track tx =? T then retime t FL else []).
Proof.
  intros Hne Hsz Hbt Ht Hn Hlg Hpay Hview Henc Hguard Hpos.
  set (D := flat_map fs_data FL) in *.
  set (FL' := map (fun f => mkFull (fs_s f) t (fs_data f)) FL).
  set (a := with_mdat fr (mkMdat D [] 0 false)).
  assert (Hne' : FL' <> []) by (unfold FL'; destruct FL; [congruence|discriminate]).
  assert (HD' : flat_map fs_data FL' = D).
  { unfold FL', D. clear. induction FL as [|f FL IH]; [reflexivity|]. cbn [map flat_map fs_data]. rewrite IH. reflexivity. }
  assert (Hs' : map fs_s FL' = map fs_s FL) by (unfold FL'; rewrite map_map; reflexivity).
  assert (Hi : ginv [T] [(T, FL')] a).
  { apply sinv_ginv; [exact Hne'|]. unfold sinv, a, with_mdat. cbn [fr_trafs fr_next fr_mdat md_data md_parts md_lazy].
    repeat split; try assumption; [|symmetry; exact HD'].
    exists ex. rewrite Ht, Hs'. f_equal. f_equal. unfold FL'. destruct FL; [congruence|reflexivity]. }
  assert (Hsz' : sized [(T, FL')]).
  { constructor; [|constructor]. cbn [snd]. unfold FL'. apply Forall_forall. intros f Hf. apply in_map_iff in Hf.
    destruct Hf as (f0 & <- & Hf0). rewrite Forall_forall in Hsz. apply (Hsz f0 Hf0). }
  assert (Hm : same_meta a fr) by (repeat split).
  assert (Hh : hdr a = hdr fr).
  { unfold hdr, md_size_touch, md_header_size. cbn [md_large]. rewrite Hlg, Hpay. unfold a, with_mdat. cbn [fr_mdat md_large].
    unfold md_payload, md_data_length. cbn [md_lazy md_parts md_data]. change (0 <? 0) with false. cbn iota. reflexivity. }
  assert (Hall : all_data [(T, FL')] = D) by (cbn [all_data app]; exact HD').
  rewrite (roundtrip_swap [T] [(T, FL')] a fr opt fe pos0 lz tx
             (ltac:(repeat constructor; intros []) : NoDup [T]) Hi Hsz' Hm Hh).
  - cbn [track_fulls app]. rewrite (N.eqb_sym T). destruct (tx_track tx =? T); [|reflexivity].
    unfold FL' at 1. destruct FL as [|f0 FL0]; [congruence|]. cbn [map tfdt_of fs_dts set_base td_base].
    f_equal. fold (map (fun f => mkFull (fs_s f) t (fs_data f)) (f0 :: FL0)). apply retime_redate.
  - rewrite Hall. exact Hview.
  - exact Henc.
  - rewrite Hall. exact Hguard.
  - exact Hpos.
  - cbn [track_fulls app]. destruct (T =? tx_track tx); [|cbn; lia].
    unfold FL'. destruct FL; [congruence|]. cbn [map tfdt_of fs_dts set_base td_base]. exact Hbt.
Qed.

Definition mode_ok (ops : list op) (cs : list oclass) (FL : list fullsample) (lz : list N) : Prop :=
  (forallb is_full ops = true /\ lz = [] /\ flat_map fs_data FL = flat_map op_data (accepted cs ops)) \/
  (forallb is_lazy ops = true /\ lz = flat_map fs_data FL) \/
  (forallb is_parts ops = true /\ lz = [] /\ flat_map fs_data FL = flat_map op_data (accepted cs ops)).

Lemma roundtrip_single_modes T ops cs fr opt fe pos0 tx pre mx post exs FL lz :
  Forall (fun o => op_dts o < 18446744073709551616) ops ->
  run_ops (with_extras (create_fragment T) pre mx post exs) ops = (cs, Some fr) ->
  mode_ok ops cs FL lz ->
  map fs_s FL = added1 T ops -> Forall sized_f FL -> FL <> [] ->
  encode_frag opt fr = Ok fe ->
  moof_size fe + md_header_size (fr_mdat fe) + lenN (flat_map fs_data FL) < 2147483648 ->
  pos0 + fr_pre fe < 4611686018427387904 ->
  exists t ex,
    fr_trafs fr = [mkTraf (create_tfhd T) (set_base t) [canon 0 (added1 T ops)] ex] /\
    get_full_samples (decoded_view fe pos0 lz) (Some tx) = Ok (if tx_track tx =? T then retime t FL else []).
Proof.
  intros Hdts Hrun Hmode Hs Hsz Hne Henc Hguard Hpos.
  set (fr0 := with_extras (create_fragment T) pre mx post exs) in *.
  destruct (history_sinv6 T ops [] fr0 cs fr Hdts (create_fragment_sinv6 T pre mx post exs) Hrun)
    as (((t & ex & Hbt & Ht) & Hn) & Hacc). cbn [app] in Ht.
  exists t, ex. split; [exact Ht|].
  assert (G0 : md_large (fr_mdat fr) = false) by (rewrite (run_ops_large _ _ _ _ Hrun); reflexivity).
  assert (Hsum : sizes_sum (added1 T ops) = lenN (flat_map fs_data FL)) by (rewrite <- Hs; apply sizes_sum_sized; exact Hsz).
  assert (D0 : md_data (fr_mdat fr0) = [] /\ md_parts (fr_mdat fr0) = [] /\ md_lazy (fr_mdat fr0) = 0) by (repeat split).
  destruct D0 as (D0 & P0 & L0).
  rewrite <- Hs in Ht.
  destruct Hmode as [(Hf & -> & HD)|[(Hf & ->)|(Hf & -> & HD)]].
  - (* full samples *)
    destruct (history_full_mdat ops fr0 cs fr Hf Hrun) as (Da & Pa & La). rewrite D0 in Da. rewrite P0 in Pa.
    specialize (La L0). cbn [app] in Da. rewrite <- HD in Da.
    apply (roundtrip_single_core T fr t ex FL opt fe pos0 [] tx); try assumption.
    + unfold md_payload, md_data_length. rewrite La, Pa, Da. reflexivity.
    + unfold view_data, md_written. rewrite La, Pa, Da. reflexivity.
  - (* metadata only, the caller writes the data after the fragment *)
    destruct (history_lazy_mdat ops fr0 cs fr Hf Hrun) as (Da & Pa & La & Lb). rewrite D0 in Da. rewrite P0 in Pa.
    rewrite L0 in La. cbn [N.add] in La. specialize (Lb ltac:(rewrite L0; lia)).
    rewrite Hacc in La. fold (added1 T ops) in La. rewrite Hsum in La.
    assert (Hlz : md_lazy (fr_mdat fr) = lenN (flat_map fs_data FL)).
    { unfold u64 in La. rewrite !N.mod_small in La by lia. exact La. }
    apply (roundtrip_single_core T fr t ex FL opt fe pos0 (flat_map fs_data FL) tx); try assumption.
    + unfold md_payload, md_data_length. rewrite Hlz, Pa, Da.
      destruct (0 <? lenN (flat_map fs_data FL)) eqn:E; [reflexivity|]. apply N.ltb_ge in E. change (lenN (@nil N)) with 0. lia.
    + unfold view_data, md_written. rewrite Hlz, Pa, Da.
      destruct (0 <? lenN (flat_map fs_data FL)) eqn:E; [reflexivity|]. apply N.ltb_ge in E.
      assert (Hz : lenN (flat_map fs_data FL) = 0) by lia. unfold lenN in Hz. destruct (flat_map fs_data FL); [reflexivity|cbn in Hz; lia].
  - (* sample intervals: data parts *)
    destruct (history_parts_mdat ops fr0 cs fr Hf Hrun D0) as (Da & Pa & La). rewrite P0 in Pa. rewrite L0 in La.
    cbn [concat app] in Pa. rewrite <- HD in Pa.
    apply (roundtrip_single_core T fr t ex FL opt fe pos0 [] tx); try assumption.
    + unfold md_payload, md_data_length. rewrite La, Da. change (0 <? 0) with false. cbn iota.
      destruct (md_parts (fr_mdat fr)) as [|p ps] eqn:Ep.
      * cbn [concat] in Pa. rewrite <- Pa. reflexivity.
      * rewrite sumN_lenN_concat, Pa. reflexivity.
    + unfold view_data, md_written. rewrite La, Da. change (0 <? 0) with false. cbn iota.
      destruct (md_parts (fr_mdat fr)) as [|p ps] eqn:Ep; [cbn [concat] in Pa; exact Pa|exact Pa].
Qed.
