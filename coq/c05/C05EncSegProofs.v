(* C05EncSegProofs.v — segment level: the base against which a DECODED fragment's trun data offsets are resolved is the
   stream position of its moof box (Moof.StartPos), which differs from the position of the fragment's first box
   (Fragment.StartPos) by the sizes of the emsg / other boxes that precede the moof. *)
From V.lib Require Import Base.
From V.c05 Require Import C05Model C05FragModel C05SegModel C05SegProofs C05EncHistModel.

(* where the fragments' first boxes and their moof boxes lie in the stream *)
Fixpoint frag_starts (pos : N) (its : list eitem) : list N :=
  match its with
  | [] => []
  | it :: rest => pos :: frag_starts (pos + stream_size (item_boxes it)) rest
  end.
Fixpoint moof_starts (pos : N) (its : list eitem) : list N :=
  match its with
  | [] => []
  | it :: rest => (pos + xsum (ei_pre it)) :: moof_starts (pos + stream_size (item_boxes it)) rest
  end.

Definition dfr_base (f : dfr) : option N := option_map fst (dr_moof f).

Lemma items_dfrs_base its : forall pos, map dfr_base (items_dfrs pos its) = map Some (moof_starts pos its).
Proof.
  induction its as [|it its IH]; intros pos; [reflexivity|].
  cbn [items_dfrs moof_starts map]. rewrite IH. reflexivity.
Qed.

Lemma seg_get_full_base f tx start trafs pabs data :
  dr_moof f = Some (start, trafs) -> dr_mdat f = Some (pabs, data) ->
  seg_get_full f tx = get_full_samples (with_base (mkDfrag trafs data 0 pabs) start) tx.
Proof. intros H1 H2. unfold seg_get_full. rewrite H1, H2. reflexivity. Qed.

Lemma segment_base_is_moof_start head its b pos0 :
  head_ok head = true -> forallb item_kinds its = true ->
  exists st, seg_decode b pos0 (seg_stream head its) = Ok st /\
             map dfr_base (file_frags st) = map Some (moof_starts (pos0 + xsum head) its) /\
             (forall f tx start trafs pabs data,
                In f (file_frags st) -> dr_moof f = Some (start, trafs) -> dr_mdat f = Some (pabs, data) ->
                seg_get_full f tx = get_full_samples (with_base (mkDfrag trafs data 0 pabs) start) tx).
Proof.
  intros Hh Hk. destruct (decode_stream head its b pos0 Hh Hk) as (st & E & Hf).
  exists st. split; [exact E|]. split; [rewrite Hf; apply items_dfrs_base|].
  intros f tx start trafs pabs data _ H1 H2. exact (seg_get_full_base f tx start trafs pabs data H1 H2).
Qed.

(* the two positions differ exactly by the boxes in front of the moof *)
Lemma moof_starts_frag_starts its : forall pos,
  moof_starts pos its = map (fun p => fst p + xsum (ei_pre (snd p))) (combine (frag_starts pos its) its).
Proof.
  induction its as [|it its IH]; intros pos; [reflexivity|].
  cbn [moof_starts frag_starts combine map fst snd]. rewrite IH. reflexivity.
Qed.
