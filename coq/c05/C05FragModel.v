(* C05FragModel.v — executable model of Fragment building, encoding layout and reading back
   (mp4/fragment.go, mdat.go, tfdt.go, sizes of tfhd/tfdt/trun/traf/moof).  Definitions only.
   Mirrors /repo after the fix commits c6a2326 (AddSampleToTrack: unknown track id is an error),
   fb913b8 (Encode: no optimisation when the first traf has no trun) and a7c3604 (SetTrunDataOffsets
   uses the header size of a large-size mdat). *)
From V.lib Require Import Base.
From V.c05 Require Import C05Model.

(* ------------------------------------------------------------------ records *)
(* TfdtBox: Version, baseMediaDecodeTime *)
Record tfdt := mkTfdt { td_version : N; td_base : N }.
(* SetBaseMediaDecodeTime *)
Definition set_base (t : N) : tfdt := mkTfdt (if 4294967296 <=? t then 1 else 0) t.

(* TrafBox: Tfhd, Tfdt, Truns (Trun = head of Truns), other children as a total size *)
Record traf := mkTraf { tf_hd : tfhd; tf_dt : tfdt; tf_truns : list trun; tf_extra : N }.

(* MdatBox: Data, DataParts, lazyDataSize, LargeSize *)
Record mdat := mkMdat { md_data : list N; md_parts : list (list N); md_lazy : N; md_large : bool }.

(* Fragment: Moof.Trafs (Moof.Traf = head), Mdat, nextTrunNr; sizes of the other boxes:
   before moof (emsg, prft), other children of moof, after mdat *)
Record frag := mkFrag {
  fr_trafs : list traf; fr_mdat : mdat; fr_next : N; fr_pre : N; fr_moofx : N; fr_post : N }.

Definition fr_with (fr : frag) (ts : list traf) (m : mdat) (next : N) : frag :=
  mkFrag ts m next (fr_pre fr) (fr_moofx fr) (fr_post fr).

(* CreateFragment(seq, trackID) *)
Definition create_fragment (track : N) : frag :=
  mkFrag [mkTraf (create_tfhd track) (mkTfdt 0 0) [create_trun 0] 0] (mkMdat [] [] 0 false) 1 0 0 0.
(* CreateMultiTrackFragment(seq, trackIDs) *)
Definition create_multi (tracks : list N) : frag :=
  mkFrag (map (fun t => mkTraf (create_tfhd t) (mkTfdt 0 0) [] 0) tracks) (mkMdat [] [] 0 false) 0 0 0 0.

(* extra boxes (emsg/prft before moof; free/uuid/unknown in moof, in trafs, after mdat) added after creation:
   only their sizes matter. exs = per traf, by position *)
Fixpoint set_extras (ts : list traf) (exs : list N) : list traf :=
  match ts, exs with
  | t :: ts', e :: exs' => mkTraf (tf_hd t) (tf_dt t) (tf_truns t) e :: set_extras ts' exs'
  | _, _ => ts
  end.
Definition with_extras (fr : frag) (pre mx post : N) (exs : list N) : frag :=
  mkFrag (set_extras (fr_trafs fr) exs) (fr_mdat fr) (fr_next fr) pre mx post.

(* ------------------------------------------------------------------ operations *)
Inductive op :=
| OFull (s : sample) (dts : N) (data : list N)                 (* AddFullSample *)
| OFullTo (track : N) (s : sample) (dts : N) (data : list N)   (* AddFullSampleToTrack *)
| OMetaTo (track : N) (s : sample) (dts : N)                   (* AddSampleToTrack *)
| OMeta (s : sample) (dts : N)                                 (* AddSample *)
| OMetas (ss : list sample) (dts : N)                          (* AddSamples *)
| OInterval (dts : N) (ss : list sample) (data : list N).      (* AddSampleInterval *)

Definition tr_add (r : trun) (ss : list sample) : trun := tr_with_samples r (tr_samples r ++ ss).

Definition md_add_data (m : mdat) (d : list N) : mdat :=
  mkMdat (md_data m ++ d) (md_parts m) (md_lazy m) (md_large m).
Definition md_add_lazy (m : mdat) (n : N) : mdat :=
  mkMdat (md_data m) (md_parts m) (u64 (md_lazy m + n)) (md_large m).
Definition md_set_lazy0 (m : mdat) : mdat := mkMdat (md_data m) (md_parts m) 0 (md_large m).
(* AddSampleDataPart: panics when monolithic data is present *)
Definition md_add_part (m : mdat) (d : list N) : res mdat :=
  match md_data m with
  | [] => Ok (mkMdat [] (md_parts m ++ [d]) (md_lazy m) (md_large m))
  | _ => Panic
  end.

Definition sizes_sum (ss : list sample) : N := sumN (map s_size ss).

(* the common head of AddFullSample / AddSample / AddSamples:
     trun := f.Moof.Traf.Trun; if trun.SampleCount() == 0 { tfdt.Set(dts) }; trun.AddSamples(ss)
   Moof.Traf == nil or Traf.Trun == nil is a nil dereference *)
Definition add_first (fr : frag) (ss : list sample) (dts : N) : res (list traf) :=
  match fr_trafs fr with
  | [] => Panic
  | t :: ts =>
      match tf_truns t with
      | [] => Panic
      | r :: rs =>
          let dt := if u32 (lenN (tr_samples r)) =? 0 then set_base dts else tf_dt t in
          Ok (mkTraf (tf_hd t) dt (tr_add r ss :: rs) (tf_extra t) :: ts)
      end
  end.

(* AddSampleToTrack on the traf that was found *)
Definition add_to_traf (t : traf) (next : N) (s : sample) (dts : N) : traf * N :=
  let '(truns1, next1) :=
    match tf_truns t with
    | [] => ([create_trun next], u32 (next + 1))       (* Create first trun if needed *)
    | l => (l, next)
    end in
  let dt := match truns1 with
            | [r] => if u32 (lenN (tr_samples r)) =? 0 then set_base dts else tf_dt t
            | _ => tf_dt t
            end in
  let lastr := last truns1 (create_trun 0) in             (* truns1 is never empty *)
  if negb (tr_won lastr =? u32 (next1 + 4294967295))      (* writeOrderNr != f.nextTrunNr-1 (uint32) *)
  then (mkTraf (tf_hd t) dt (truns1 ++ [tr_add (create_trun next1) [s]]) (tf_extra t), u32 (next1 + 1))
  else (mkTraf (tf_hd t) dt (removelast truns1 ++ [tr_add lastr [s]]) (tf_extra t), next1).

(* the loop over f.Moof.Trafs: first traf whose tfhd has the track id *)
Fixpoint add_to_track_trafs (ts : list traf) (track next : N) (s : sample) (dts : N)
  : option (list traf * N) :=
  match ts with
  | [] => None
  | t :: rest =>
      if tf_track (tf_hd t) =? track
      then let '(t', n') := add_to_traf t next s dts in Some (t' :: rest, n')
      else match add_to_track_trafs rest track next s dts with
           | Some (rest', n') => Some (t :: rest', n')
           | None => None
           end
  end.

Definition add_sample_to_track (fr : frag) (track : N) (s : sample) (dts : N) : res frag :=
  match add_to_track_trafs (fr_trafs fr) track (fr_next fr) s dts with
  | None => Err                                           (* no track with trackID *)
  | Some (ts, n) => Ok (fr_with fr ts (md_add_lazy (fr_mdat fr) (s_size s)) n)
  end.

Definition step (fr : frag) (o : op) : res frag :=
  match o with
  | OFull s dts data =>
      do ts <- add_first fr [s] dts;
      Ok (fr_with fr ts (md_add_data (fr_mdat fr) data) (fr_next fr))
  | OMeta s dts =>
      do ts <- add_first fr [s] dts;
      Ok (fr_with fr ts (md_add_lazy (fr_mdat fr) (s_size s)) (fr_next fr))
  | OMetas ss dts =>
      do ts <- add_first fr ss dts;
      Ok (fr_with fr ts (md_add_lazy (fr_mdat fr) (u64 (sizes_sum ss))) (fr_next fr))
  | OMetaTo track s dts => add_sample_to_track fr track s dts
  | OFullTo track s dts data =>
      do fr1 <- add_sample_to_track fr track s dts;
      Ok (fr_with fr1 (fr_trafs fr1) (md_add_data (md_set_lazy0 (fr_mdat fr1)) data) (fr_next fr1))
  | OInterval dts ss data =>
      match fr_trafs fr with
      | [] => Panic                                       (* traf := moof.Traf; trun := traf.Trun *)
      | [t] =>
          match tf_truns t with
          | [r] =>
              let dt := if u32 (lenN (tr_samples r)) =? 0 then set_base dts else tf_dt t in
              do m <- md_add_part (fr_mdat fr) data;
              Ok (fr_with fr [mkTraf (tf_hd t) dt [tr_add r ss] (tf_extra t)] m (fr_next fr))
          | _ => Err
          end
      | _ => Err
      end
  end.

(* a history: Err leaves the fragment unchanged (both error returns precede every mutation), Panic ends it.
   Returns the outcome classes and the fragment reached (None after a panic). *)
Inductive oclass := COk | CErr | CPanic.
Fixpoint run_ops (fr : frag) (ops : list op) : list oclass * option frag :=
  match ops with
  | [] => ([], Some fr)
  | o :: rest =>
      match step fr o with
      | Ok fr' => let '(cs, r) := run_ops fr' rest in (COk :: cs, r)
      | Err => let '(cs, r) := run_ops fr rest in (CErr :: cs, r)
      | _ => ([CPanic], None)
      end
  end.

(* ------------------------------------------------------------------ sizes *)
Definition b2n (b : bool) : N := if b then 1 else 0.

Definition tfhd_size (h : tfhd) : N :=
  16 + 8 * b2n (tf_has_bdo h) + 4 * b2n (tf_has_sdi h) + 4 * b2n (tf_has_ddur h)
     + 4 * b2n (tf_has_dsize h) + 4 * b2n (tf_has_dflags h).
Definition tfdt_size (d : tfdt) : N := 16 + 4 * td_version d.
Definition trun_size (r : trun) : N :=
  16 + 4 * b2n (has_doff r) + 4 * b2n (has_fsf r)
     + u32 (lenN (tr_samples r))
       * (4 * b2n (has_dur r) + 4 * b2n (has_size r) + 4 * b2n (has_sflags r) + 4 * b2n (has_cto r)).
Definition traf_size (t : traf) : N :=
  8 + tfhd_size (tf_hd t) + tfdt_size (tf_dt t) + sumN (map trun_size (tf_truns t)) + tf_extra t.
(* mfhd is 16 bytes *)
Definition moof_size (fr : frag) : N := 8 + 16 + sumN (map traf_size (fr_trafs fr)) + fr_moofx fr.

Definition md_data_length (m : mdat) : N :=
  match md_parts m with
  | [] => lenN (md_data m)
  | ps => sumN (map (fun p => lenN p) ps)
  end.
(* MdatBox.Size(): sets LargeSize as a side effect *)
Definition md_payload (m : mdat) : N := if 0 <? md_lazy m then md_lazy m else md_data_length m.
Definition md_size_touch (m : mdat) : mdat :=
  mkMdat (md_data m) (md_parts m) (md_lazy m) (md_large m || (4294967287 <? md_payload m)).
Definition md_header_size (m : mdat) : N := if md_large m then 16 else 8.
Definition md_size (m : mdat) : N := md_header_size (md_size_touch m) + md_payload m.
(* bytes actually written by MdatBox.Encode after the header *)
Definition md_written (m : mdat) : list N :=
  match md_parts m with
  | [] => md_data m
  | ps => concat ps
  end.

(* ------------------------------------------------------------------ SetTrunDataOffsets *)
Definition size_of_data (r : trun) : N := sumN (map s_size (tr_samples r)).   (* uint64 sum *)

Definition all_truns (ts : list traf) : list trun := flat_map tf_truns ts.

(* sort.Slice by writeOrderNr: insertion sort (the order of equal keys is unspecified in Go; the write
   order numbers made by the Add* operations are pairwise different) *)
Fixpoint insert_won (r : trun) (l : list trun) : list trun :=
  match l with
  | [] => [r]
  | x :: t => if tr_won r <=? tr_won x then r :: x :: t else x :: insert_won r t
  end.
Definition sort_won (l : list trun) : list trun := fold_right insert_won [] l.

(* int32(x) for x : uint64 *)
Definition i32 (x : N) : Z :=
  let y := x mod 4294967296 in
  if y <? 2147483648 then Z.of_N y else (Z.of_N y - 4294967296)%Z.

(* walking the sorted runs: (write-order number, data offset) *)
Fixpoint assign_offsets (l : list trun) (off : N) : list (N * Z) :=
  match l with
  | [] => []
  | r :: t => (tr_won r, i32 off) :: assign_offsets t (u64 (off + size_of_data r))
  end.

Fixpoint lookup_off (tbl : list (N * Z)) (won : N) (dflt : Z) : Z :=
  match tbl with
  | [] => dflt
  | (w, o) :: t => if w =? won then o else lookup_off t won dflt
  end.

Definition set_offsets (fr : frag) : frag :=
  let truns := all_truns (fr_trafs fr) in
  let write_order_set := existsb (fun r => negb (tr_won r =? 0)) truns in
  if negb write_order_set && (1 <? lenN truns) then fr
  else
    (* _ = f.Mdat.Size(): marks the mdat large-size when needed (fix a7c3604) *)
    let m := md_size_touch (fr_mdat fr) in
    let tbl := assign_offsets (sort_won truns) (moof_size fr + md_header_size m) in
    let upd_traf t :=
      mkTraf (tf_hd t) (tf_dt t)
             (map (fun r => tr_with_doff r (lookup_off tbl (tr_won r) (tr_doff r))) (tf_truns t))
             (tf_extra t) in
    fr_with fr (map upd_traf (fr_trafs fr)) m (fr_next fr).

(* ------------------------------------------------------------------ Fragment.Encode (structure level) *)
(* optimisation of the FIRST traf's FIRST trun only *)
Definition optimize_first (fr : frag) : res frag :=
  match fr_trafs fr with
  | [] => Ok fr
  | t :: ts =>
      match tf_truns t with
      | [] => Ok fr
      | r :: rs =>
          do p <- optimize (tf_hd t) r;
          let '(h', r') := p in
          Ok (fr_with fr (mkTraf h' (tf_dt t) (r' :: rs) (tf_extra t) :: ts) (fr_mdat fr) (fr_next fr))
      end
  end.

(* MoofBox.Encode checks the FIRST traf's truns (error), TrunBox.EncodeSW panics for the others *)
Definition doff_unset (r : trun) : bool := has_doff r && Z.eqb (tr_doff r) 0.

Definition encode_frag (opt : bool) (fr : frag) : res frag :=
  do fr1 <- (if opt then optimize_first fr else Ok fr);
  let fr2 := set_offsets fr1 in
  match fr_trafs fr2 with
  | [] => Panic                                          (* m.Traf.Truns with m.Traf == nil *)
  | t :: ts =>
      if existsb doff_unset (tf_truns t) then Err
      else if existsb doff_unset (all_truns ts) then Panic
      else Ok (fr_with fr2 (fr_trafs fr2) (md_size_touch (fr_mdat fr2)) (fr_next fr2))
  end.

(* number of bytes Fragment.Encode writes (the lazily added data is written by the caller afterwards) *)
Definition encoded_len (fr : frag) : N :=
  fr_pre fr + moof_size fr + md_header_size (fr_mdat fr) + lenN (md_written (fr_mdat fr)) + fr_post fr.

(* ------------------------------------------------------------------ decode side *)
(* what DecodeFile makes of the encoded fragment that starts at absolute position pos0, the caller having
   written `lazy` after it when the mdat was lazy: truns in wire form, mdat payload, positions *)
Record dfrag := mkDfrag {
  df_trafs : list traf; df_data : list N; df_moof_start : N; df_payload_abs : N }.

Definition decoded_view (fr : frag) (pos0 : N) (lazy : list N) : dfrag :=
  let m := fr_mdat fr in
  mkDfrag
    (map (fun t => mkTraf (tf_hd t) (tf_dt t) (map wire_trun (tf_truns t)) (tf_extra t)) (fr_trafs fr))
    (if 0 <? md_lazy m then lazy else md_written m)
    (pos0 + fr_pre fr)
    (pos0 + fr_pre fr + moof_size fr + md_header_size m).

Definition sub_list {A} (l : list A) (a n : nat) : list A := firstn n (skipn a l).

(* TrunBox.GetFullSamples: offsetInMdat is uint32 and wraps; slicing beyond the data panics *)
Fixpoint trun_full_samples (ss : list sample) (off : N) (t : N) (data : list N) : res (list fullsample) :=
  match ss with
  | [] => Ok []
  | s :: rest =>
      let e := u32 (off + s_size s) in
      if (e <? off) || (lenN data <? e) then Panic
      else
        do tl <- trun_full_samples rest e (u64 (t + s_dur s)) data;
        Ok (mkFull s t (sub_list data (N.to_nat off) (N.to_nat (s_size s))) :: tl)
  end.

Definition to_u64 (z : Z) : N := Z.to_N (z mod 18446744073709551616)%Z.

Fixpoint frag_full_samples (h : tfhd) (tx : option trex) (truns : list trun) (base_time : N) (d : dfrag)
  : res (list fullsample) :=
  match truns with
  | [] => Ok []
  | r :: rest =>
      let ss := resolve h tx r in
      let total := total_dur ss in
      let bo0 := if tf_has_bdo h then tf_bdo h else df_moof_start d in
      let bo := if has_doff r then to_u64 (tr_doff r + Z.of_N bo0) else bo0 in
      let off := if 0 <? bo then u64 (bo + 18446744073709551616 - df_payload_abs d) else 0 in
      if (0 <? bo) && (lenN (df_data d) <? off) then Err      (* offset in mdata beyond size *)
      else
        do l1 <- trun_full_samples ss (u32 off) base_time (df_data d);
        do l2 <- frag_full_samples h tx rest (u64 (base_time + total)) d;
        Ok (l1 ++ l2)
  end.

(* Fragment.GetFullSamples(trex); None = nil trex *)
Definition get_full_samples (d : dfrag) (tx : option trex) : res (list fullsample) :=
  let pick :=
    match tx with
    | Some x => match find (fun t => tf_track (tf_hd t) =? tx_track x) (df_trafs d) with
                | Some t => Ok (Some t)
                | None => Ok None                          (* return nil, nil *)
                end
    | None => match df_trafs d with
              | t :: _ => Ok (Some t)
              | [] => Panic                                (* traf.Tfhd with traf == nil *)
              end
    end in
  do p <- pick;
  match p with
  | None => Ok []
  | Some t => frag_full_samples (tf_hd t) tx (tf_truns t) (td_base (tf_dt t)) d
  end.
