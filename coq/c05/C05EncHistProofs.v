(* C05EncHistProofs.v — Encode inside the op histories: a history of additions interleaved with Encode calls
   builds a fragment that is, up to the data offsets / the large-size mark / (after optimised encodes) the flag
   word and tfhd defaults of the first trun, the fragment the additions alone build (simulation, proved once for
   a parametrised relation). *)
From V.lib Require Import Base.
From V.c05 Require Import C05Model C05FragModel C05OptProofs C05HistProofs C05OffProofs C05GhostProofs
  C05ReadProofs C05RoundProofs C05EncHistModel.
From Coq Require Import Permutation.

Definition msim (m1 m : mdat) : Prop :=
  md_data m1 = md_data m /\ md_parts m1 = md_parts m /\ md_lazy m1 = md_lazy m.

Lemma msim_refl m : msim m m.
Proof. repeat split. Qed.

Definition rrel {A} (R : A -> A -> Prop) (x y : res A) : Prop :=
  match x, y with
  | Ok a, Ok b => R a b
  | Err, Err => True
  | Panic, Panic => True
  | OutOfFuel, OutOfFuel => True
  | _, _ => False
  end.

Lemma Forall2_last {A} (R : A -> A -> Prop) l1 l2 d1 d2 :
  Forall2 R l1 l2 -> R d1 d2 -> R (last l1 d1) (last l2 d2).
Proof.
  intros H Hd. induction H as [|a b l1 l2 Hab H IH]; [exact Hd|].
  cbn [last]. destruct H as [|a' b' l1' l2' Hab' H']; [exact Hab|]. exact IH.
Qed.

Lemma Forall2_removelast {A} (R : A -> A -> Prop) l1 l2 :
  Forall2 R l1 l2 -> Forall2 R (removelast l1) (removelast l2).
Proof.
  intros H. induction H as [|a b l1 l2 Hab H IH]; [constructor|].
  cbn [removelast]. destruct H as [|a' b' l1' l2' Hab' H']; [constructor|]. constructor; [exact Hab|exact IH].
Qed.

Section Sim.
  Variable Q : trun -> trun -> Prop.
  Variable HQ : tfhd -> tfhd -> Prop.
  Hypothesis Q_won : forall a b, Q a b -> tr_won a = tr_won b.
  Hypothesis Q_samples : forall a b, Q a b -> tr_samples a = tr_samples b.
  Hypothesis Q_create : forall n, Q (create_trun n) (create_trun n).
  Hypothesis Q_add : forall a b ss, Q a b -> Q (tr_add a ss) (tr_add b ss).
  Hypothesis HQ_track : forall a b, HQ a b -> tf_track a = tf_track b.

  Definition tsimQ (t1 t : traf) : Prop :=
    tf_dt t1 = tf_dt t /\ HQ (tf_hd t1) (tf_hd t) /\ Forall2 Q (tf_truns t1) (tf_truns t).
  Definition fsimQ (a b : frag) : Prop :=
    Forall2 tsimQ (fr_trafs a) (fr_trafs b) /\ msim (fr_mdat a) (fr_mdat b) /\
    fr_next a = fr_next b /\ fr_pre a = fr_pre b.

  Lemma add_first_sim a b ss dts :
    Forall2 tsimQ (fr_trafs a) (fr_trafs b) ->
    rrel (Forall2 tsimQ) (add_first a ss dts) (add_first b ss dts).
  Proof.
    intros H. unfold add_first.
    destruct (fr_trafs a) as [|t1 ts1]; destruct (fr_trafs b) as [|t ts]; inversion H as [|? ? ? ? Ht Hts]; subst; [exact I|].
    destruct Ht as (Hdt & Hh & Hr).
    destruct (tf_truns t1) as [|r1 rs1]; destruct (tf_truns t) as [|r rs]; inversion Hr as [|? ? ? ? Hq Hrs]; subst; [exact I|].
    cbn [rrel]. constructor; [|exact Hts]. unfold tsimQ. cbn [tf_dt tf_hd tf_truns].
    rewrite (Q_samples _ _ Hq), Hdt. split; [reflexivity|]. split; [exact Hh|].
    constructor; [apply Q_add; exact Hq|exact Hrs].
  Qed.

  Definition att_tail (t : traf) (truns1 : list trun) (next1 : N) (s : sample) (dts : N) : traf * N :=
    let dt := match truns1 with
              | [r] => if u32 (lenN (tr_samples r)) =? 0 then set_base dts else tf_dt t
              | _ => tf_dt t
              end in
    let lastr := last truns1 (create_trun 0) in
    if negb (tr_won lastr =? u32 (next1 + 4294967295))
    then (mkTraf (tf_hd t) dt (truns1 ++ [tr_add (create_trun next1) [s]]) (tf_extra t), u32 (next1 + 1))
    else (mkTraf (tf_hd t) dt (removelast truns1 ++ [tr_add lastr [s]]) (tf_extra t), next1).

  Lemma add_to_traf_tail t next s dts :
    add_to_traf t next s dts =
      match tf_truns t with
      | [] => att_tail t [create_trun next] (u32 (next + 1)) s dts
      | l => att_tail t l next s dts
      end.
  Proof. unfold add_to_traf. destruct (tf_truns t); reflexivity. Qed.

  Lemma att_tail_sim t1 t la l n s dts :
    tf_dt t1 = tf_dt t -> HQ (tf_hd t1) (tf_hd t) -> Forall2 Q la l ->
    tsimQ (fst (att_tail t1 la n s dts)) (fst (att_tail t l n s dts)) /\
    snd (att_tail t1 la n s dts) = snd (att_tail t l n s dts).
  Proof.
    intros Hdt Hh HF. unfold att_tail.
    assert (Edt : match la with [r] => if u32 (lenN (tr_samples r)) =? 0 then set_base dts else tf_dt t1 | _ => tf_dt t1 end
                  = match l with [r] => if u32 (lenN (tr_samples r)) =? 0 then set_base dts else tf_dt t | _ => tf_dt t end).
    { inversion HF as [|? ? ? ? Hq Hrs]; subst; [exact Hdt|].
      inversion Hrs; subst; [|exact Hdt]. rewrite (Q_samples _ _ Hq), Hdt. reflexivity. }
    rewrite Edt.
    pose proof (Forall2_last Q _ _ _ _ HF (Q_create 0)) as Hl.
    rewrite (Q_won _ _ Hl).
    destruct (negb (tr_won (last l (create_trun 0)) =? u32 (n + 4294967295))); cbn [fst snd].
    - split; [|reflexivity]. unfold tsimQ. cbn [tf_dt tf_hd tf_truns]. split; [reflexivity|]. split; [exact Hh|].
      apply Forall2_app; [exact HF|]. constructor; [apply Q_add, Q_create|constructor].
    - split; [|reflexivity]. unfold tsimQ. cbn [tf_dt tf_hd tf_truns]. split; [reflexivity|]. split; [exact Hh|].
      apply Forall2_app; [apply Forall2_removelast; exact HF|]. constructor; [apply Q_add; exact Hl|constructor].
  Qed.

  Lemma add_to_traf_sim t1 t next s dts :
    tsimQ t1 t ->
    tsimQ (fst (add_to_traf t1 next s dts)) (fst (add_to_traf t next s dts)) /\
    snd (add_to_traf t1 next s dts) = snd (add_to_traf t next s dts).
  Proof.
    intros (Hdt & Hh & Hr). rewrite !add_to_traf_tail.
    destruct (tf_truns t1) as [|r1 rs1]; destruct (tf_truns t) as [|r rs]; inversion Hr as [|? ? ? ? Hq Hrs]; subst.
    - apply att_tail_sim; [exact Hdt|exact Hh|]. constructor; [apply Q_create|constructor].
    - apply att_tail_sim; [exact Hdt|exact Hh|exact Hr].
  Qed.

  Definition orel (x y : option (list traf * N)) : Prop :=
    match x, y with
    | Some (ta, na), Some (tb, nb) => Forall2 tsimQ ta tb /\ na = nb
    | None, None => True
    | _, _ => False
    end.

  Lemma add_to_track_trafs_sim ta tb track next s dts :
    Forall2 tsimQ ta tb ->
    orel (add_to_track_trafs ta track next s dts) (add_to_track_trafs tb track next s dts).
  Proof.
    intros H. induction H as [|t1 t ts1 ts Ht Hts IH]; cbn [add_to_track_trafs]; [exact I|].
    pose proof Ht as (_ & Hh & _). rewrite (HQ_track _ _ Hh).
    destruct (tf_track (tf_hd t) =? track).
    - pose proof (add_to_traf_sim t1 t next s dts Ht) as [H1 H2].
      destruct (add_to_traf t1 next s dts) as [t1' n1']. destruct (add_to_traf t next s dts) as [t' n'].
      cbn [fst snd] in H1, H2. cbn [orel]. split; [constructor; assumption|exact H2].
    - destruct (add_to_track_trafs ts1 track next s dts) as [[ra na]|];
        destruct (add_to_track_trafs ts track next s dts) as [[rb nb]|]; cbn [orel] in IH |- *; try contradiction; [|exact I].
      destruct IH as [IH1 IH2]. split; [constructor; assumption|exact IH2].
  Qed.

  Lemma msim_add_data m1 m d : msim m1 m -> msim (md_add_data m1 d) (md_add_data m d).
  Proof. intros (A & B & C). unfold msim, md_add_data. cbn [md_data md_parts md_lazy]. rewrite A. repeat split; assumption. Qed.
  Lemma msim_add_lazy m1 m n : msim m1 m -> msim (md_add_lazy m1 n) (md_add_lazy m n).
  Proof. intros (A & B & C). unfold msim, md_add_lazy. cbn [md_data md_parts md_lazy]. rewrite C. repeat split; assumption. Qed.
  Lemma msim_set_lazy0 m1 m : msim m1 m -> msim (md_set_lazy0 m1) (md_set_lazy0 m).
  Proof. intros (A & B & C). unfold msim, md_set_lazy0. cbn [md_data md_parts md_lazy]. repeat split; assumption. Qed.

  Lemma add_sample_to_track_sim a b track s dts :
    fsimQ a b -> rrel fsimQ (add_sample_to_track a track s dts) (add_sample_to_track b track s dts).
  Proof.
    intros (HT & Hm & Hn & Hp). unfold add_sample_to_track. rewrite Hn.
    pose proof (add_to_track_trafs_sim _ _ track (fr_next b) s dts HT) as Ho.
    destruct (add_to_track_trafs (fr_trafs a) track (fr_next b) s dts) as [[ra na]|];
      destruct (add_to_track_trafs (fr_trafs b) track (fr_next b) s dts) as [[rb nb]|]; cbn [orel] in Ho; try contradiction; [|exact I].
    destruct Ho as [Ho1 ->]. cbn [rrel]. unfold fsimQ. cbn [fr_with fr_trafs fr_mdat fr_next fr_pre].
    split; [exact Ho1|]. split; [apply msim_add_lazy; exact Hm|]. split; [reflexivity|exact Hp].
  Qed.

  Lemma step_sim a b o : fsimQ a b -> rrel fsimQ (step a o) (step b o).
  Proof.
    intros H. pose proof H as (HT & Hm & Hn & Hp).
    destruct o as [s d data|t s d data|t s d|s d|ss d|d ss data]; cbn [step].
    - pose proof (add_first_sim a b [s] d HT) as Ha.
      destruct (add_first a [s] d) as [ta| | |]; destruct (add_first b [s] d) as [tb| | |]; cbn [rrel rbind] in Ha |- *; try contradiction; try exact I.
      unfold fsimQ. cbn [fr_with fr_trafs fr_mdat fr_next fr_pre].
      split; [exact Ha|]. split; [apply msim_add_data; exact Hm|]. split; assumption.
    - pose proof (add_sample_to_track_sim a b t s d H) as Ha.
      destruct (add_sample_to_track a t s d) as [a1| | |]; destruct (add_sample_to_track b t s d) as [b1| | |];
        cbn [rrel rbind] in Ha |- *; try contradiction; try exact I.
      destruct Ha as (HT1 & Hm1 & Hn1 & Hp1). unfold fsimQ. cbn [fr_with fr_trafs fr_mdat fr_next fr_pre].
      split; [exact HT1|]. split; [apply msim_add_data, msim_set_lazy0; exact Hm1|]. split; assumption.
    - apply add_sample_to_track_sim. exact H.
    - pose proof (add_first_sim a b [s] d HT) as Ha.
      destruct (add_first a [s] d) as [ta| | |]; destruct (add_first b [s] d) as [tb| | |]; cbn [rrel rbind] in Ha |- *; try contradiction; try exact I.
      unfold fsimQ. cbn [fr_with fr_trafs fr_mdat fr_next fr_pre].
      split; [exact Ha|]. split; [apply msim_add_lazy; exact Hm|]. split; assumption.
    - pose proof (add_first_sim a b ss d HT) as Ha.
      destruct (add_first a ss d) as [ta| | |]; destruct (add_first b ss d) as [tb| | |]; cbn [rrel rbind] in Ha |- *; try contradiction; try exact I.
      unfold fsimQ. cbn [fr_with fr_trafs fr_mdat fr_next fr_pre].
      split; [exact Ha|]. split; [apply msim_add_lazy; exact Hm|]. split; assumption.
    - destruct (fr_trafs a) as [|t1 ts1]; destruct (fr_trafs b) as [|t ts]; inversion HT as [|? ? ? ? Ht Hts]; subst; [exact I|].
      destruct Hts as [|t1' t' ts1' ts' Ht' Hts']; [|exact I].
      destruct Ht as (Hdt & Hh & Hr).
      destruct (tf_truns t1) as [|r1 rs1]; destruct (tf_truns t) as [|r rs]; inversion Hr as [|? ? ? ? Hq Hrs]; subst; [exact I|].
      destruct Hrs as [|r1' r' rs1' rs' Hq' Hrs']; [|exact I].
      destruct Hm as (A & B & C). unfold md_add_part. rewrite A.
      destruct (md_data (fr_mdat b)); [|exact I]. cbn [rbind rrel].
      unfold fsimQ. cbn [fr_with fr_trafs fr_mdat fr_next fr_pre].
      split.
      { constructor; [|constructor]. unfold tsimQ. cbn [tf_dt tf_hd tf_truns].
        rewrite (Q_samples _ _ Hq), Hdt. split; [reflexivity|]. split; [exact Hh|].
        constructor; [apply Q_add; exact Hq|constructor]. }
      split; [|split; assumption]. unfold msim. cbn [md_data md_parts md_lazy]. rewrite B, C. repeat split.
  Qed.

  (* Encode calls the relation survives: a parameter of the section *)
  Variable allowed : bool -> bool.
  Hypothesis enc_sim : forall opt a b c a',
    allowed opt = true -> fsimQ a b -> encode_state opt a = (c, Some a') -> fsimQ a' b.

  Definition allowed_hops (hs : list hop) : bool :=
    forallb (fun h => match h with HEnc o => allowed o | HAdd _ => true end) hs.

  (* the simulation: the fragment reached by the history with Encode calls is related to the one the additions
     alone reach (in particular: the same additions are accepted / refused, a panic on one side is one on the other) *)
  Lemma hops_sim hs : forall a b cs a',
    allowed_hops hs = true -> fsimQ a b -> run_hops a hs = (cs, Some a') ->
    exists b', run_ops b (adds hs) = (add_classes hs cs, Some b') /\ fsimQ a' b'.
  Proof.
    induction hs as [|h hs IH]; intros a b cs a' Hal Hs H.
    - cbn [run_hops] in H. injection H as <- <-. exists b. split; [reflexivity|exact Hs].
    - cbn [allowed_hops forallb] in Hal. apply andb_true_iff in Hal. destruct Hal as [Hal1 Hal2].
      destruct h as [o|opt]; cbn [run_hops adds flat_map app] in H |- *.
      + fold (adds hs). pose proof (step_sim a b o Hs) as Hst. cbn [run_ops].
        destruct (step a o) as [a1| | |]; destruct (step b o) as [b1| | |]; cbn [rrel] in Hst; try contradiction; try discriminate.
        * destruct (run_hops a1 hs) as [cs1 r1] eqn:E1. injection H as <- ->.
          destruct (IH a1 b1 cs1 a' Hal2 Hst E1) as (b' & Hr & Hf).
          exists b'. rewrite Hr. split; [reflexivity|exact Hf].
        * destruct (run_hops a hs) as [cs1 r1] eqn:E1. injection H as <- ->.
          destruct (IH a b cs1 a' Hal2 Hs E1) as (b' & Hr & Hf).
          exists b'. rewrite Hr. split; [reflexivity|exact Hf].
      + fold (adds hs). destruct (encode_state opt a) as [c [a1|]] eqn:Ee; [|discriminate].
        destruct (run_hops a1 hs) as [cs1 r1] eqn:E1. injection H as <- ->. cbn [add_classes].
        apply (IH a1 b cs1 a' Hal2); [|exact E1]. exact (enc_sim opt a b c a1 Hal1 Hs Ee).
  Qed.
End Sim.

(* ------------------------------------------------------------------ what Encode keeps, for any such relation *)
Lemma Forall2_map_l {A B} (R : A -> B -> Prop) (f : A -> A) l1 l2 :
  (forall x y, R x y -> R (f x) y) -> Forall2 R l1 l2 -> Forall2 R (map f l1) l2.
Proof. intros Hf H. induction H; cbn [map]; constructor; auto. Qed.

Lemma Forall2_imp {A B} (R S : A -> B -> Prop) l1 l2 :
  (forall x y, R x y -> S x y) -> Forall2 R l1 l2 -> Forall2 S l1 l2.
Proof. intros Hf H. induction H; constructor; auto. Qed.

Lemma msim_touch m1 m : msim m1 m -> msim (md_size_touch m1) m.
Proof. intros H. exact H. Qed.

Section Enc.
  Variable Q : trun -> trun -> Prop.
  Variable HQ : tfhd -> tfhd -> Prop.
  Hypothesis Q_doff : forall a b z, Q a b -> Q (tr_with_doff a z) b.

  Lemma set_offsets_sim a b : fsimQ Q HQ a b -> fsimQ Q HQ (set_offsets a) b.
  Proof.
    intros (HT & Hm & Hn & Hp). unfold set_offsets.
    destruct (negb (existsb (fun r => negb (tr_won r =? 0)) (all_truns (fr_trafs a))) && (1 <? lenN (all_truns (fr_trafs a)))).
    - split; [exact HT|split; [exact Hm|split; assumption]].
    - unfold fsimQ. cbn [fr_with fr_trafs fr_mdat fr_next fr_pre]. split; [|split; [apply msim_touch; exact Hm|split; assumption]].
      apply Forall2_map_l; [|exact HT]. intros t1 t (Hdt & Hh & Hr). unfold tsimQ. cbn [tf_dt tf_hd tf_truns].
      split; [exact Hdt|]. split; [exact Hh|]. apply Forall2_map_l; [|exact Hr]. intros x y Hxy. apply Q_doff. exact Hxy.
  Qed.

  Lemma encode_tail_sim a b c a' :
    fsimQ Q HQ a b ->
    (let fr2 := set_offsets a in
     if existsb doff_unset (all_truns (fr_trafs fr2)) then (CErr, Some fr2)
     else (COk, Some (fr_with fr2 (fr_trafs fr2) (md_size_touch (fr_mdat fr2)) (fr_next fr2)))) = (c, Some a') ->
    fsimQ Q HQ a' b.
  Proof.
    intros Hs H. pose proof (set_offsets_sim a b Hs) as H2. cbn zeta in H.
    destruct (existsb doff_unset (all_truns (fr_trafs (set_offsets a)))); injection H as _ <-; [exact H2|].
    destruct H2 as (HT & Hm & Hn & Hp). unfold fsimQ. cbn [fr_with fr_trafs fr_mdat fr_next fr_pre].
    split; [exact HT|]. split; [apply msim_touch; exact Hm|]. split; assumption.
  Qed.
End Enc.

(* ------------------------------------------------------------------ instance 1: the weak relation (any Encode) *)
Definition rsim (r1 r : trun) : Prop :=
  tr_won r1 = tr_won r /\ tr_samples r1 = tr_samples r /\ has_doff r1 = has_doff r.
Definition hsim (h1 h : tfhd) : Prop := tf_track h1 = tf_track h /\ tf_has_bdo h1 = tf_has_bdo h.
Definition fsimW := fsimQ rsim hsim.

Lemma rsim_refl r : rsim r r.
Proof. repeat split. Qed.

Lemma rsim_add a b ss : rsim a b -> rsim (tr_add a ss) (tr_add b ss).
Proof. intros (A & B & C). unfold rsim, tr_add, tr_with_samples, has_doff. cbn [tr_won tr_samples tr_flags]. rewrite A, B. repeat split. exact C. Qed.

Lemma Forall2_refl_all {A} (R : A -> A -> Prop) l : (forall x, R x x) -> Forall2 R l l.
Proof. intros H. induction l; constructor; auto. Qed.

Lemma fsimW_refl fr : fsimW fr fr.
Proof.
  unfold fsimW, fsimQ. split; [|split; [apply msim_refl|split; reflexivity]].
  apply Forall2_refl_all. intros t. split; [reflexivity|]. split; [split; reflexivity|].
  apply Forall2_refl_all. apply rsim_refl.
Qed.

Lemma optimize_first_simW a b a1 : fsimW a b -> optimize_first a = Ok a1 -> fsimW a1 b.
Proof.
  intros (HT & Hm & Hn & Hp) H. unfold optimize_first in H.
  destruct (fr_trafs a) as [|t ts] eqn:Et; [injection H as <-; unfold fsimW, fsimQ; rewrite Et; split; [exact HT|split; [exact Hm|split; assumption]]|].
  destruct (tf_truns t) as [|r rs] eqn:Er; [injection H as <-; unfold fsimW, fsimQ; rewrite Et; split; [exact HT|split; [exact Hm|split; assumption]]|].
  destruct (optimize (tf_hd t) r) as [[h' r']| | |] eqn:Eo; try discriminate. cbn [rbind] in H. injection H as <-.
  pose proof (optimize_frame _ _ _ _ _ Eo) as (F1 & F2 & F3 & F4 & F5). cbn [fst snd] in *.
  unfold fsimW, fsimQ. cbn [fr_with fr_trafs fr_mdat fr_next fr_pre]. split; [|split; [exact Hm|split; assumption]].
  inversion HT as [|? tb ? tsb (Hdt & (Hh1 & Hh2) & Hr) Hts]; subst. constructor; [|exact Hts].
  unfold tsimQ. cbn [tf_dt tf_hd tf_truns]. split; [exact Hdt|]. split; [split; congruence|].
  rewrite Er in Hr. inversion Hr as [|? rb ? rsb (A & B & C) Hrs]; subst. constructor; [|exact Hrs].
  repeat split; congruence.
Qed.

Lemma enc_simW : forall opt a b c a',
  (fun _ : bool => true) opt = true -> fsimW a b -> encode_state opt a = (c, Some a') -> fsimW a' b.
Proof.
  intros opt a b c a' _ Hs H. unfold encode_state in H.
  destruct opt.
  - destruct (optimize_first a) as [a1| | |] eqn:Eo; try discriminate.
    + apply (encode_tail_sim rsim hsim) with (a := a1) (c := c); [|exact (optimize_first_simW a b a1 Hs Eo)|exact H].
      intros x y z (A & B & C). repeat split; assumption.
    + injection H as _ <-. exact Hs.
  - apply (encode_tail_sim rsim hsim) with (a := a) (c := c); [|exact Hs|exact H].
    intros x y z (A & B & C). repeat split; assumption.
Qed.

Lemma hops_simW hs a b cs a' :
  fsimW a b -> run_hops a hs = (cs, Some a') ->
  exists cs' b', run_ops b (adds hs) = (cs', Some b') /\ fsimW a' b'.
Proof.
  intros Hs H. exists (add_classes hs cs).
  apply (hops_sim rsim hsim) with (allowed := fun _ => true) (a := a) (cs := cs); try assumption.
  - intros x y (A & _). exact A.
  - intros x y (_ & B & _). exact B.
  - intros n. apply rsim_refl.
  - apply rsim_add.
  - intros x y (A & _). exact A.
  - exact enc_simW.
  - unfold allowed_hops. apply forallb_forall. intros [o|o] _; reflexivity.
Qed.

(* ------------------------------------------------------------------ instance 2: plain Encodes keep everything but the
   data offsets (and the large-size mark) *)
Definition eqd (r1 r : trun) : Prop := tr_with_doff r1 0 = tr_with_doff r 0.
Definition fsimS := fsimQ eqd (@eq tfhd).

Lemma eqd_rsim a b : eqd a b -> rsim a b /\ tr_flags a = tr_flags b.
Proof.
  unfold eqd, tr_with_doff. intros H. injection H as E1 E2 E3 E4 E5. unfold rsim, has_doff. rewrite E2, E4, E5. repeat split.
Qed.

Lemma fsimS_refl fr : fsimS fr fr.
Proof.
  unfold fsimS, fsimQ. split; [|split; [apply msim_refl|split; reflexivity]].
  apply Forall2_refl_all. intros t. split; [reflexivity|]. split; [reflexivity|].
  apply Forall2_refl_all. intros r. reflexivity.
Qed.

Lemma enc_simS : forall opt a b c a',
  negb opt = true -> fsimS a b -> encode_state opt a = (c, Some a') -> fsimS a' b.
Proof.
  intros opt a b c a' Ho Hs H. destruct opt; [discriminate|]. unfold encode_state in H.
  apply (encode_tail_sim eqd (@eq tfhd)) with (a := a) (c := c); [|exact Hs|exact H].
  intros x y z Hxy. exact Hxy.
Qed.

Lemma plain_allowed hs : plain hs = true -> allowed_hops negb hs = true.
Proof.
  unfold plain, allowed_hops. intros H. apply forallb_forall. intros h Hh.
  rewrite forallb_forall in H. specialize (H h Hh). destruct h as [o|[|]]; [reflexivity|discriminate|reflexivity].
Qed.

Lemma hops_simS hs a b cs a' :
  plain hs = true -> fsimS a b -> run_hops a hs = (cs, Some a') ->
  exists cs' b', run_ops b (adds hs) = (cs', Some b') /\ fsimS a' b'.
Proof.
  intros Hp Hs H. exists (add_classes hs cs).
  apply (hops_sim eqd (@eq tfhd)) with (allowed := negb) (a := a) (cs := cs); try assumption.
  - intros x y Hxy. exact (proj1 (proj1 (eqd_rsim x y Hxy))).
  - intros x y Hxy. exact (proj1 (proj2 (proj1 (eqd_rsim x y Hxy)))).
  - intros n. reflexivity.
  - intros x y ss Hxy. unfold eqd, tr_add, tr_with_samples, tr_with_doff in *. cbn [tr_version tr_flags tr_fsf tr_samples tr_won] in *.
    injection Hxy as E1 E2 E3 E4 E5. rewrite E1, E2, E3, E4, E5. reflexivity.
  - intros x y ->. reflexivity.
  - exact enc_simS.
Qed.

Lemma fsimS_W a b : fsimS a b -> fsimW a b.
Proof.
  intros (HT & R). split; [|exact R]. eapply Forall2_imp; [|exact HT].
  intros t1 t (Hdt & Hh & Hr). split; [exact Hdt|]. split; [rewrite Hh; split; reflexivity|].
  eapply Forall2_imp; [|exact Hr]. intros x y Hxy. exact (proj1 (eqd_rsim x y Hxy)).
Qed.

(* the same with the outcome classes of the additions made explicit *)
Lemma hops_simS_cls hs a b cs a' :
  plain hs = true -> fsimS a b -> run_hops a hs = (cs, Some a') ->
  exists b', run_ops b (adds hs) = (add_classes hs cs, Some b') /\ fsimS a' b'.
Proof.
  intros Hp Hs H.
  apply (hops_sim eqd (@eq tfhd)) with (allowed := negb) (a := a); try assumption.
  - intros x y Hxy. exact (proj1 (proj1 (eqd_rsim x y Hxy))).
  - intros x y Hxy. exact (proj1 (proj2 (proj1 (eqd_rsim x y Hxy)))).
  - intros n. reflexivity.
  - intros x y ss Hxy. unfold eqd, tr_add, tr_with_samples, tr_with_doff in *. cbn [tr_version tr_flags tr_fsf tr_samples tr_won] in *.
    injection Hxy as E1 E2 E3 E4 E5. rewrite E1, E2, E3, E4, E5. reflexivity.
  - intros x y ->. reflexivity.
  - exact enc_simS.
Qed.

Lemma hops_simW_cls hs a b cs a' :
  fsimW a b -> run_hops a hs = (cs, Some a') ->
  exists b', run_ops b (adds hs) = (add_classes hs cs, Some b') /\ fsimW a' b'.
Proof.
  intros Hs H.
  apply (hops_sim rsim hsim) with (allowed := fun _ => true) (a := a); try assumption.
  - intros x y (A & _). exact A.
  - intros x y (_ & B & _). exact B.
  - intros n. apply rsim_refl.
  - apply rsim_add.
  - intros x y (A & _). exact A.
  - exact enc_simW.
  - unfold allowed_hops. apply forallb_forall. intros [o|o] _; reflexivity.
Qed.

Lemma encodes_simulation hs a cs a' :
  run_hops a hs = (cs, Some a') ->
  exists b', run_ops a (adds hs) = (add_classes hs cs, Some b') /\ fsimW a' b'.
Proof. intros H. exact (hops_simW_cls hs a a cs a' (fsimW_refl a) H). Qed.
