(* C05LazyRoundProofs.v — metadata-only additions (data written separately by the caller) read back like full
   additions: Fragment.Encode depends on the mdat only through its header size. *)
From V.lib Require Import Base.
From V.c05 Require Import C05Model C05FragModel C05OptProofs C05HistProofs C05OffProofs C05GhostProofs
  C05ReadProofs C05RoundProofs C05LazyProofs.

Definition hdr (fr : frag) : N := md_header_size (md_size_touch (fr_mdat fr)).

Definition same_class {A B} (x : res A) (y : res B) : Prop :=
  match x, y with
  | Ok _, Ok _ | Err, Err | Panic, Panic | OutOfFuel, OutOfFuel => True
  | _, _ => False
  end.

Lemma optimize_first_meta a b :
  same_meta a b ->
  match optimize_first a, optimize_first b with
  | Ok a1, Ok b1 => same_meta a1 b1 /\ fr_mdat a1 = fr_mdat a /\ fr_mdat b1 = fr_mdat b
  | x, y => same_class x y
  end.
Proof.
  intros (Ht & Hn & Hp & Hx & Hq). unfold optimize_first. rewrite <- Ht.
  destruct (fr_trafs a) as [|t ts] eqn:Ea.
  { split; [repeat split; try assumption; congruence|split; reflexivity]. }
  destruct (tf_truns t) as [|r rs].
  { split; [repeat split; try assumption; congruence|split; reflexivity]. }
  destruct (optimize (tf_hd t) r) as [[h' r']| | |]; cbn [rbind same_class]; try exact I.
  split; [|split; reflexivity]. unfold same_meta. cbn [fr_with fr_trafs fr_next fr_pre fr_moofx fr_post].
  repeat split; assumption.
Qed.

Lemma set_offsets_mdat fr :
  fr_mdat (set_offsets fr) = fr_mdat fr \/ fr_mdat (set_offsets fr) = md_size_touch (fr_mdat fr).
Proof.
  unfold set_offsets. destruct (negb _ && _); [left; reflexivity|right; reflexivity].
Qed.

Lemma set_offsets_meta a b :
  same_meta a b -> hdr a = hdr b ->
  same_meta (set_offsets a) (set_offsets b) /\ hdr (set_offsets a) = hdr (set_offsets b).
Proof.
  intros Hm Hh. pose proof (moof_size_same a b Hm) as Hms. destruct Hm as (Ht & Hn & Hp & Hx & Hq).
  unfold set_offsets. rewrite <- Ht.
  destruct (negb (existsb (fun r => negb (tr_won r =? 0)) (all_truns (fr_trafs a))) && (1 <? lenN (all_truns (fr_trafs a)))).
  - split; [repeat split; assumption|exact Hh].
  - unfold hdr in *. rewrite Hms, Hh. split.
    + unfold same_meta. cbn [fr_with fr_trafs fr_next fr_pre fr_moofx fr_post]. repeat split; assumption.
    + cbn [fr_with fr_mdat]. rewrite !md_touch_idem. exact Hh.
Qed.

Lemma touch_fields m :
  md_lazy (md_size_touch m) = md_lazy m /\ md_data (md_size_touch m) = md_data m /\
  md_parts (md_size_touch m) = md_parts m.
Proof. repeat split. Qed.

Lemma encode_frag_meta opt a b :
  same_meta a b -> hdr a = hdr b ->
  match encode_frag opt a, encode_frag opt b with
  | Ok fa, Ok fb =>
      same_meta fa fb /\ md_header_size (fr_mdat fa) = md_header_size (fr_mdat fb) /\
      (md_lazy (fr_mdat fa) = md_lazy (fr_mdat a) /\ md_data (fr_mdat fa) = md_data (fr_mdat a) /\
       md_parts (fr_mdat fa) = md_parts (fr_mdat a)) /\
      (md_lazy (fr_mdat fb) = md_lazy (fr_mdat b) /\ md_data (fr_mdat fb) = md_data (fr_mdat b) /\
       md_parts (fr_mdat fb) = md_parts (fr_mdat b))
  | x, y => same_class x y
  end.
Proof.
  intros Hm Hh. unfold encode_frag.
  assert (H1 : match (if opt then optimize_first a else Ok a), (if opt then optimize_first b else Ok b) with
               | Ok a1, Ok b1 => same_meta a1 b1 /\ fr_mdat a1 = fr_mdat a /\ fr_mdat b1 = fr_mdat b
               | x, y => same_class x y
               end).
  { destruct opt; [apply optimize_first_meta; exact Hm|]. split; [exact Hm|split; reflexivity]. }
  destruct (if opt then optimize_first a else Ok a) as [a1| | |];
    destruct (if opt then optimize_first b else Ok b) as [b1| | |]; cbn [rbind same_class] in *; try contradiction; try exact I.
  destruct H1 as (Hm1 & Ea & Eb).
  assert (Hh1 : hdr a1 = hdr b1) by (unfold hdr; rewrite Ea, Eb; exact Hh).
  destruct (set_offsets_meta a1 b1 Hm1 Hh1) as (Hm2 & Hh2).
  pose proof (set_offsets_mdat a1) as Ma. pose proof (set_offsets_mdat b1) as Mb.
  destruct Hm2 as (Ht & Hn & Hp & Hx & Hq). rewrite <- Ht.
  destruct (fr_trafs (set_offsets a1)) as [|t ts]; cbn [same_class]; [exact I|].
  destruct (existsb doff_unset (tf_truns t)); cbn [same_class]; [exact I|].
  destruct (existsb doff_unset (all_truns ts)); cbn [same_class]; [exact I|].
  cbn [fr_with fr_trafs fr_next fr_pre fr_moofx fr_post fr_mdat]. split; [|split; [exact Hh2|]].
  - unfold same_meta. cbn [fr_with fr_trafs fr_next fr_pre fr_moofx fr_post]. repeat split; assumption.
  - split.
    + rewrite <- Ea. destruct Ma as [-> | ->]; repeat split.
    + rewrite <- Eb. destruct Mb as [-> | ->]; repeat split.
Qed.

(* LargeSize is only touched by Size() *)
Lemma step_large fr o fr' : step fr o = Ok fr' -> md_large (fr_mdat fr') = md_large (fr_mdat fr).
Proof.
  destruct o as [s d data|t s d data|t s d|s d|ss d|d ss data]; cbn [step]; intros H.
  - destruct (add_first fr [s] d); try discriminate. injection H as <-. reflexivity.
  - unfold add_sample_to_track in H. destruct (add_to_track_trafs _ _ _ _ _) as [[ts n]|]; try discriminate.
    injection H as <-. reflexivity.
  - unfold add_sample_to_track in H. destruct (add_to_track_trafs _ _ _ _ _) as [[ts n]|]; try discriminate.
    injection H as <-. reflexivity.
  - destruct (add_first fr [s] d); try discriminate. injection H as <-. reflexivity.
  - destruct (add_first fr ss d); try discriminate. injection H as <-. reflexivity.
  - destruct (fr_trafs fr) as [|t [|t2 ts]]; try discriminate. destruct (tf_truns t) as [|r [|r2 rs]]; try discriminate.
    unfold md_add_part in H. destruct (md_data (fr_mdat fr)); try discriminate. injection H as <-. reflexivity.
Qed.

Lemma run_ops_large ops : forall fr cs fr',
  run_ops fr ops = (cs, Some fr') -> md_large (fr_mdat fr') = md_large (fr_mdat fr).
Proof.
  induction ops as [|o ops IH]; intros fr cs fr' H; cbn [run_ops] in H; [injection H as _ <-; reflexivity|].
  destruct (step fr o) as [fr1| | |] eqn:E; try discriminate.
  - destruct (run_ops fr1 ops) as [cs1 r1] eqn:E1. injection H as _ ->.
    rewrite (IH _ _ _ E1). apply (step_large _ _ _ E).
  - destruct (run_ops fr ops) as [cs1 r1] eqn:E1. injection H as _ ->. apply (IH _ _ _ E1).
Qed.

(* full histories of AddFullSampleToTrack never panic *)
Lemma run_ops_total tracks ops : forall g fr,
  NoDup tracks -> count g + N.of_nat (length ops) < 4294967296 -> forallb is_full_to ops = true ->
  ginv tracks g fr -> exists cs fr', run_ops fr ops = (cs, Some fr').
Proof.
  induction ops as [|o ops IH]; intros g fr Hnd Hc Ho Hi; cbn [run_ops]; [eexists; eexists; reflexivity|].
  cbn [forallb] in Ho. apply andb_true_iff in Ho. destruct Ho as [Ho1 Ho2]. cbn [length] in Hc.
  pose proof (step_ginv tracks g fr o Hnd ltac:(lia) Ho1 Hi) as S.
  destruct (step fr o) as [fr1| | |]; try contradiction.
  - destruct S as (T & _ & _ & Hi1).
    assert (Hc1 : count (fruns_add g T (op_full o)) + N.of_nat (length ops) < 4294967296) by (rewrite count_add; lia).
    destruct (IH _ fr1 Hnd Hc1 Ho2 Hi1) as (cs & fr' & E). rewrite E. eexists; eexists; reflexivity.
  - assert (Hc1 : count g + N.of_nat (length ops) < 4294967296) by lia.
    destruct (IH _ fr Hnd Hc1 Ho2 Hi) as (cs & fr' & E). rewrite E. eexists; eexists; reflexivity.
Qed.

Lemma is_full_to_full ops : forallb is_full_to ops = true -> forallb is_full ops = true.
Proof.
  induction ops as [|o ops IH]; [reflexivity|]. cbn [forallb]. intros H. apply andb_true_iff in H.
  destruct H as [H1 H2]. rewrite (IH H2), andb_true_r. destruct o; try discriminate; reflexivity.
Qed.

Lemma fold_u64_sum l : forall acc, acc < 18446744073709551616 ->
  fold_left (fun a o => u64 (a + s_size (op_first_sample o))) l acc
  = u64 (acc + sumN (map (fun o => s_size (op_first_sample o)) l)).
Proof.
  induction l as [|o l IH]; intros acc Ha; cbn [fold_left map sumN].
  - rewrite N.add_0_r. unfold u64. symmetry. apply N.mod_small. exact Ha.
  - rewrite IH by (unfold u64; apply N.mod_lt; discriminate). rewrite u64_add_l. f_equal. lia.
Qed.

Lemma sizes_accepted cs ops :
  Forall (fun o => sized_f (op_full o)) ops ->
  sumN (map (fun o => s_size (op_first_sample o)) (accepted cs ops)) = lenN (flat_map op_data (accepted cs ops)).
Proof.
  revert cs. induction ops as [|o ops IH]; intros cs H; [destruct cs as [|[] ?]; reflexivity|].
  inversion H as [|? ? Ho Hr]; subst. destruct cs as [|c cs]; [reflexivity|].
  destruct c; cbn [accepted]; try (apply IH; exact Hr).
  cbn [map sumN flat_map]. rewrite lenN_app, IH by exact Hr. unfold sized_f in Ho. cbn [op_full fs_s fs_data] in Ho.
  rewrite Ho. reflexivity.
Qed.

Lemma roundtrip_lazy tracks pre mx post exs ops cs b' opt fb pos0 tx :
  NoDup tracks -> N.of_nat (length ops) < 4294967296 -> forallb is_full_to ops = true ->
  Forall (fun o => sized_f (op_full o)) ops ->
  run_ops (with_extras (create_multi tracks) pre mx post exs) (map to_lazy ops) = (cs, Some b') ->
  encode_frag opt b' = Ok fb ->
  let data := flat_map op_data (accepted cs ops) in
  moof_size fb + md_header_size (fr_mdat fb) + lenN data < 2147483648 ->
  pos0 + fr_pre fb < 4611686018427387904 ->
  consistent (added_fulls tracks (tx_track tx) ops) ->
  get_full_samples (decoded_view fb pos0 data) (Some tx) = Ok (added_fulls tracks (tx_track tx) ops).
Proof.
  intros Hnd Hlen Hfull Hsz Hrunb Hencb data Hguard Hpos Hcons.
  set (fr0 := with_extras (create_multi tracks) pre mx post exs) in *.
  pose proof (create_multi_extras_ginv tracks pre mx post exs Hnd) as H0. fold fr0 in H0.
  destruct (run_ops_total tracks ops [] fr0 Hnd ltac:(cbn [count]; lia) Hfull H0) as (cs2 & a' & Hruna).
  pose proof (is_full_to_full ops Hfull) as Hfull'.
  assert (Hm0 : same_meta fr0 fr0) by (repeat split).
  destruct (history_lazy ops fr0 fr0 cs2 a' Hfull' Hm0 Hruna) as (b2 & Hrunb2 & Hm & (Hd & Hp) & Hl).
  rewrite Hrunb in Hrunb2. injection Hrunb2 as <- <-.
  destruct (history_full_mdat ops fr0 cs a' Hfull' Hruna) as (Da & Pa & La).
  assert (Hd0 : md_data (fr_mdat fr0) = [] /\ md_parts (fr_mdat fr0) = [] /\ md_lazy (fr_mdat fr0) = 0 /\ md_large (fr_mdat fr0) = false)
    by (repeat split).
  destruct Hd0 as (D0 & P0 & L0 & G0). rewrite D0 in Da, Hd. rewrite P0 in Pa, Hp. specialize (La L0). cbn [app] in Da.
  fold data in Da.
  rewrite L0, fold_u64_sum in Hl by lia. cbn [N.add] in Hl. rewrite (sizes_accepted cs ops Hsz) in Hl. fold data in Hl.
  pose proof (run_ops_large _ _ _ _ Hruna) as Ga. pose proof (run_ops_large _ _ _ _ Hrunb) as Gb. rewrite G0 in Ga, Gb.
  assert (Hdl : lenN data < 18446744073709551616) by lia.
  assert (Hlz : md_lazy (fr_mdat b') = lenN data) by (rewrite Hl; unfold u64; apply N.mod_small; exact Hdl).
  (* equal mdat header sizes *)
  assert (Hh : hdr a' = hdr b').
  { unfold hdr, md_size_touch, md_header_size, md_payload, md_data_length. cbn [md_large md_lazy md_parts md_data].
    rewrite Ga, Gb, La, Pa, Hp, Hlz, Da, Hd. cbn [orb].
    change (0 <? 0) with false. cbn iota.
    destruct (0 <? lenN data) eqn:E; [reflexivity|]. apply N.ltb_ge in E.
    assert (lenN data = 0) by lia. rewrite H. reflexivity. }
  pose proof (encode_frag_meta opt a' b' Hm Hh) as EM. rewrite Hencb in EM.
  destruct (encode_frag opt a') as [fa| | |] eqn:Henca; cbn [same_class] in EM; try contradiction.
  destruct EM as (Hmf & Hhf & (FaL & FaD & FaP) & (FbL & FbD & FbP)).
  (* the decoded views coincide *)
  assert (Hview : decoded_view fb pos0 data = decoded_view fa pos0 []).
  { pose proof (moof_size_same fa fb Hmf) as Hms. destruct Hmf as (Ht & Hn & Hpre & Hx & Hq).
    unfold decoded_view. rewrite <- Ht, <- Hpre, <- Hms, <- Hhf. f_equal.
    rewrite FbL, FaL, Hlz, La. change (0 <? 0) with false. cbn iota.
    unfold md_written. rewrite FaP, Pa, FaD, Da, FbP, Hp, FbD, Hd.
    destruct (0 <? lenN data) eqn:E; [reflexivity|]. apply N.ltb_ge in E.
    assert (Hz : lenN data = 0) by lia. unfold lenN in Hz. destruct data; [reflexivity|cbn in Hz; lia]. }
  rewrite Hview.
  pose proof (moof_size_same fa fb Hmf) as Hms. destruct Hmf as (_ & _ & Hpre & _).
  apply (roundtrip_multi_ops tracks ops cs fr0 a' opt fa pos0 tx); try assumption.
  - rewrite Hms, Hhf, Da. exact Hguard.
  - rewrite Hpre. exact Hpos.
Qed.
