(* C05SegProofs.v — decoding the box stream of a media segment regroups it into exactly the encoded fragments,
   each seen at the position where its moof starts (decoded_view fe pos lz); reading a track back fragment by
   fragment is then the concatenation of the per-fragment results, for ANY positions: the per-fragment round
   trip theorems hold for every pos0, which is what makes the fragments independent. *)
From V.lib Require Import Base.
From V.c05 Require Import C05Model C05FragModel C05OptProofs C05HistProofs C05OffProofs C05GhostProofs
  C05ReadProofs C05RoundProofs C05LazyProofs C05LazyRoundProofs C05SingleProofs C05SegModel.

(* ------------------------------------------------------------------ states of the decoder *)
Definition S0 (b : bool) : fstate := mkFstate b [] [] None.
Definition S1 (s : bool) (frs : list dfr) : fstate := mkFstate true [] [mkDseg s frs] None.

(* at a fragment boundary: `done` are the fragments decoded so far, in order *)
Definition bnd (done : list dfr) (st : fstate) : Prop :=
  (done = [] /\ exists b, st = S0 b) \/ (exists s, st = S1 s (rev done)).

(* while the boxes before a moof are read: an emsg may have opened the first fragment of the segment *)
Definition pre_state (done : list dfr) (st : fstate) : Prop :=
  bnd done st \/ (done = [] /\ exists s, st = S1 s [mkDfr None None]).

Definition moofed (l : list dfr) : Prop := Forall (fun f => dr_moof f <> None) l.

Lemma file_frags_bnd done st : bnd done st -> file_frags st = done.
Proof.
  intros [[-> [b ->]]|[s ->]]; unfold file_frags, S0, S1; cbn [fs_segs rev flat_map app dg_frags]; [reflexivity|].
  rewrite app_nil_r. apply rev_involutive.
Qed.

Lemma start_S1 s frs pos : start_if_needed (S1 s frs) pos = S1 s frs.
Proof. reflexivity. Qed.

(* one emsg / ignored box *)
Lemma add_inner done st pos x lm :
  pre_state done st -> inner_kind x = true ->
  exists st1, add_box st pos (TX x) lm = Ok st1 /\ pre_state done st1.
Proof.
  intros Hst Hk. unfold inner_kind in Hk. cbn [add_box]. destruct (x_kind x) eqn:Ek; try discriminate.
  - (* emsg *)
    destruct Hst as [[[-> [b ->]]|[s ->]]|[-> [s ->]]].
    + eexists. split; [reflexivity|]. right. split; [reflexivity|]. exists false. reflexivity.
    + rewrite start_S1. unfold upd_last_seg, S1. cbn [fs_segs fs_fragmented fs_sidxs fs_mdat dg_frags dg_styp].
      destruct (rev done) as [|f l] eqn:Er.
      * eexists. split; [reflexivity|]. right. split; [|exists s; reflexivity].
        destruct done as [|d dl]; [reflexivity|]. cbn [rev] in Er. destruct (rev dl); discriminate.
      * eexists. split; [reflexivity|]. left. right. exists s. unfold S1. rewrite Er. reflexivity.
    + rewrite start_S1. eexists. split; [reflexivity|]. right. split; [reflexivity|]. exists s. reflexivity.
  - (* other *)
    exists st. split; [reflexivity|exact Hst].
Qed.

Lemma xsum_cons x xs : xsum (x :: xs) = x_size x + xsum xs.
Proof. reflexivity. Qed.

Lemma xsum_app a b : xsum (a ++ b) = xsum a + xsum b.
Proof. unfold xsum. rewrite map_app, sumN_app. reflexivity. Qed.

Lemma loop_inner done xs : forall st pos lm,
  pre_state done st -> forallb inner_kind xs = true ->
  exists st1 lm', pre_state done st1 /\
    forall rest, seg_decode_loop (map TX xs ++ rest) st pos lm = seg_decode_loop rest st1 (pos + xsum xs) lm'.
Proof.
  induction xs as [|x xs IH]; intros st pos lm Hst Hk.
  - exists st, lm. split; [exact Hst|]. intros rest. cbn [map app xsum sumN]. unfold xsum. cbn [map sumN].
    rewrite N.add_0_r. reflexivity.
  - cbn [forallb] in Hk. apply andb_true_iff in Hk. destruct Hk as [Hx Hxs].
    destruct (add_inner done st pos x lm Hst Hx) as (st1 & E1 & Hst1).
    destruct (IH st1 (pos + x_size x) false Hst1 Hxs) as (st2 & lm' & Hst2 & Hl).
    exists st2, lm'. split; [exact Hst2|]. intros rest. cbn [map app seg_decode_loop]. rewrite E1. cbn [rbind tb_size is_moof].
    rewrite Hl. rewrite xsum_cons. f_equal. lia.
Qed.

Lemma add_moof done st pos sz trafs lm :
  pre_state done st -> moofed done ->
  exists s, add_box st pos (TMoof sz trafs) lm = Ok (S1 s (mkDfr (Some (pos, trafs)) None :: rev done)).
Proof.
  intros Hst Hm. cbn [add_box].
  destruct Hst as [[[-> [b ->]]|[s ->]]|[-> [s ->]]].
  - exists false. reflexivity.
  - exists s. unfold S1. cbn [fs_sidxs fs_segs fs_mdat]. change (mkFstate true [] [mkDseg s (rev done)] None) with (S1 s (rev done)).
    rewrite start_S1. unfold upd_last_seg, S1. cbn [fs_segs fs_fragmented fs_sidxs fs_mdat dg_frags dg_styp].
    destruct (rev done) as [|f l] eqn:Er; [reflexivity|].
    assert (Hf : dr_moof f <> None).
    { unfold moofed in Hm. rewrite Forall_forall in Hm. apply Hm. apply in_rev. rewrite Er. left. reflexivity. }
    destruct (dr_moof f); [reflexivity|congruence].
  - exists s. reflexivity.
Qed.

Lemma add_mdat s f l pos h p :
  add_box (S1 s (f :: l)) pos (TMdat h p) true = Ok (S1 s (mkDfr (dr_moof f) (Some (pos + h, p)) :: l)).
Proof. reflexivity. Qed.

(* ------------------------------------------------------------------ the fragments the decoder ends up with *)
Definition item_dfr (pos : N) (it : eitem) : dfr :=
  let fe := ei_fe it in
  let m := fr_mdat fe in
  let p := pos + xsum (ei_pre it) in
  mkDfr (Some (p, wire_trafs fe)) (Some (p + moof_size fe + md_header_size m, md_written m ++ ei_lz it)).

Fixpoint items_dfrs (pos : N) (its : list eitem) : list dfr :=
  match its with
  | [] => []
  | it :: rest => item_dfr pos it :: items_dfrs (pos + stream_size (item_boxes it)) rest
  end.

Definition item_kinds (it : eitem) : bool :=
  forallb inner_kind (ei_pre it) && forallb inner_kind (ei_post it) && forallb inner_kind (ei_between it).

Lemma stream_size_app a b : stream_size (a ++ b) = stream_size a + stream_size b.
Proof. unfold stream_size. rewrite map_app, sumN_app. reflexivity. Qed.

Lemma stream_size_TX xs : stream_size (map TX xs) = xsum xs.
Proof. unfold stream_size, xsum. rewrite map_map. reflexivity. Qed.

Lemma item_boxes_size it :
  stream_size (item_boxes it) =
    xsum (ei_pre it) + moof_size (ei_fe it)
    + (md_header_size (fr_mdat (ei_fe it)) + lenN (md_written (fr_mdat (ei_fe it)) ++ ei_lz it))
    + xsum (ei_post it) + xsum (ei_between it).
Proof.
  unfold item_boxes. rewrite !stream_size_app, !stream_size_TX. unfold stream_size. cbn [map sumN tb_size]. lia.
Qed.

Lemma moofed_snoc done f : moofed done -> dr_moof f <> None -> moofed (done ++ [f]).
Proof. intros H1 H2. apply Forall_app. split; [exact H1|constructor; [exact H2|constructor]]. Qed.

Lemma decode_items its : forall done st pos lm,
  bnd done st -> moofed done -> forallb item_kinds its = true ->
  exists st', seg_decode_loop (flat_map item_boxes its) st pos lm = Ok st' /\ bnd (done ++ items_dfrs pos its) st'.
Proof.
  induction its as [|it its IH]; intros done st pos lm Hst Hm Hk.
  - exists st. split; [reflexivity|]. cbn [items_dfrs]. rewrite app_nil_r. exact Hst.
  - cbn [forallb] in Hk. apply andb_true_iff in Hk. destruct Hk as [Hit Hits].
    unfold item_kinds in Hit. rewrite !andb_true_iff in Hit. destruct Hit as [[Hpre Hpost] Hbet].
    cbn [flat_map]. unfold item_boxes at 1. rewrite <- !app_assoc.
    destruct (loop_inner done (ei_pre it) st pos lm (or_introl Hst) Hpre) as (st1 & lm1 & Hst1 & L1). rewrite L1.
    cbn [app seg_decode_loop].
    destruct (add_moof done st1 (pos + xsum (ei_pre it)) (moof_size (ei_fe it)) (wire_trafs (ei_fe it)) lm1 Hst1 Hm) as (s & E2).
    rewrite E2. cbn [rbind is_moof tb_size]. rewrite add_mdat. cbn [rbind is_moof tb_size dr_moof].
    set (f := item_dfr pos it).
    assert (Ef : mkDfr (Some (pos + xsum (ei_pre it), wire_trafs (ei_fe it)))
                   (Some (pos + xsum (ei_pre it) + moof_size (ei_fe it) + md_header_size (fr_mdat (ei_fe it)),
                          md_written (fr_mdat (ei_fe it)) ++ ei_lz it)) = f) by reflexivity.
    rewrite Ef.
    assert (Hb : pre_state (done ++ [f]) (S1 s (f :: rev done))).
    { left. right. exists s. rewrite rev_app_distr. reflexivity. }
    assert (Hpb : forallb inner_kind (ei_post it ++ ei_between it) = true) by (rewrite forallb_app, Hpost, Hbet; reflexivity).
    rewrite app_assoc, <- map_app.
    destruct (loop_inner (done ++ [f]) (ei_post it ++ ei_between it) (S1 s (f :: rev done))
                (pos + xsum (ei_pre it) + moof_size (ei_fe it) +
                 (md_header_size (fr_mdat (ei_fe it)) + lenN (md_written (fr_mdat (ei_fe it)) ++ ei_lz it)))
                false Hb Hpb) as (st2 & lm2 & Hst2 & L2).
    rewrite L2.
    assert (Hbnd2 : bnd (done ++ [f]) st2).
    { destruct Hst2 as [H|[H _]]; [exact H|]. destruct done; discriminate. }
    assert (Hm2 : moofed (done ++ [f])) by (apply moofed_snoc; [exact Hm|discriminate]).
    destruct (IH (done ++ [f]) st2
                (pos + xsum (ei_pre it) + moof_size (ei_fe it) +
                 (md_header_size (fr_mdat (ei_fe it)) + lenN (md_written (fr_mdat (ei_fe it)) ++ ei_lz it)) +
                 xsum (ei_post it ++ ei_between it)) lm2 Hbnd2 Hm2 Hits) as (st' & E' & Hb').
    exists st'. split.
    + exact E'.
    + cbn [items_dfrs]. rewrite <- app_assoc in Hb'. cbn [app] in Hb'.
      replace (pos + stream_size (item_boxes it)) with
        (pos + xsum (ei_pre it) + moof_size (ei_fe it) +
         (md_header_size (fr_mdat (ei_fe it)) + lenN (md_written (fr_mdat (ei_fe it)) ++ ei_lz it)) +
         xsum (ei_post it ++ ei_between it)); [exact Hb'|].
      rewrite item_boxes_size, xsum_app. lia.
Qed.

(* the head of the segment: nothing, or styp followed by sidx boxes *)
Lemma decode_head head : forall b pos0,
  head_ok head = true ->
  exists st lm, bnd [] st /\
    forall rest, seg_decode_loop (map TX head ++ rest) (S0 b) pos0 false = seg_decode_loop rest st (pos0 + xsum head) lm.
Proof.
  intros b pos0 H. destruct head as [|s sx].
  - exists (S0 b), false. split; [left; split; [reflexivity|exists b; reflexivity]|].
    intros rest. cbn [map app]. unfold xsum. cbn [map sumN]. rewrite N.add_0_r. reflexivity.
  - cbn [head_ok] in H. destruct (x_kind s) eqn:Es; try discriminate.
    assert (G : forall sx pos lm, forallb (fun x => match x_kind x with XSidx => true | _ => false end) sx = true ->
                  forall rest, seg_decode_loop (map TX sx ++ rest) (S1 true []) pos lm =
                               seg_decode_loop rest (S1 true []) (pos + xsum sx) (match sx with [] => lm | _ => false end)).
    { clear. induction sx as [|x sx IH]; intros pos lm H rest.
      - cbn [map app]. unfold xsum. cbn [map sumN]. rewrite N.add_0_r. reflexivity.
      - cbn [forallb] in H. apply andb_true_iff in H. destruct H as [Hx Hs].
        cbn [map app seg_decode_loop add_box]. destruct (x_kind x) eqn:Ex; try discriminate.
        cbn [S1 fs_segs rbind tb_size is_moof]. change (mkFstate true [] [mkDseg true []] None) with (S1 true []).
        rewrite IH by exact Hs. rewrite xsum_cons. destruct sx; f_equal; lia. }
    exists (S1 true []), (match sx with [] => false | _ => false end). split; [right; exists true; reflexivity|].
    intros rest. cbn [map app seg_decode_loop add_box]. rewrite Es. cbn [S0 fs_sidxs fs_segs fs_mdat rbind tb_size is_moof].
    change (mkFstate true [] [mkDseg true []] None) with (S1 true []).
    rewrite G by exact H. rewrite xsum_cons. destruct sx; f_equal; lia.
Qed.

(* DecodeFile on the stream of a segment: the File's fragments are the encoded ones, each at its position *)
Lemma decode_stream head its b pos0 :
  head_ok head = true -> forallb item_kinds its = true ->
  exists st, seg_decode b pos0 (seg_stream head its) = Ok st /\
             file_frags st = items_dfrs (pos0 + xsum head) its.
Proof.
  intros Hh Hk. unfold seg_decode, seg_stream. change (mkFstate b [] [] None) with (S0 b).
  destruct (decode_head head b pos0 Hh) as (st0 & lm & Hb0 & L0). rewrite L0.
  destruct (decode_items its [] st0 (pos0 + xsum head) lm Hb0 (Forall_nil _) Hk) as (st & E & Hb).
  exists st. split; [exact E|]. apply file_frags_bnd. exact Hb.
Qed.

(* ------------------------------------------------------------------ the independence lemma *)
(* a decoded fragment of the stream is the single-fragment view at its own position: one data mode, and the
   boxes before the moof are the ones the fragment model counts in fr_pre *)
Definition item_pure (it : eitem) : bool :=
  let m := fr_mdat (ei_fe it) in
  ((md_lazy m =? 0) && is_nil (ei_lz it)) || ((0 <? md_lazy m) && is_nil (md_written m)).

Lemma item_view pos it tx :
  item_pure it = true -> fr_pre (ei_fe it) = xsum (ei_pre it) ->
  seg_get_full (item_dfr pos it) tx = get_full_samples (decoded_view (ei_fe it) pos (ei_lz it)) tx.
Proof.
  intros Hp Hpre. unfold seg_get_full, item_dfr. cbn [dr_moof dr_mdat]. f_equal.
  unfold decoded_view, wire_trafs. rewrite Hpre. f_equal.
  unfold item_pure in Hp. apply orb_true_iff in Hp. destruct Hp as [Hp|Hp]; apply andb_true_iff in Hp; destruct Hp as [H1 H2].
  - apply N.eqb_eq in H1. rewrite H1. change (0 <? 0) with false. cbn iota.
    destruct (ei_lz it); [apply app_nil_r|discriminate].
  - rewrite H1. destruct (md_written (fr_mdat (ei_fe it))); [reflexivity|discriminate].
Qed.

Definition POSB : N := 4611686018427387904.

Lemma read_frags_views tx : forall its pos (exps : list (list fullsample)),
  Forall (fun it => item_pure it = true /\ fr_pre (ei_fe it) = xsum (ei_pre it)) its ->
  Forall2 (fun it e => forall p, p + fr_pre (ei_fe it) < POSB ->
                       get_full_samples (decoded_view (ei_fe it) p (ei_lz it)) tx = Ok e) its exps ->
  pos + stream_size (flat_map item_boxes its) < POSB ->
  read_frags (items_dfrs pos its) tx = Ok (concat exps).
Proof.
  induction its as [|it its IH]; intros pos exps Hp Hv Hb.
  - inversion Hv. reflexivity.
  - inversion Hv as [|? e ? exps' Hx Hr]; subst.
    inversion Hp as [|? ? [Hp1 Hp2] Hp']; subst.
    cbn [flat_map] in Hb. rewrite stream_size_app, item_boxes_size in Hb.
    cbn [items_dfrs read_frags concat]. rewrite item_view by assumption.
    rewrite Hx by (rewrite Hp2; lia). cbn [rbind].
    rewrite (IH _ exps' Hp' Hr); [reflexivity|]. rewrite item_boxes_size. lia.
Qed.

Lemma items_dfrs_length its : forall pos, length (items_dfrs pos its) = length its.
Proof. induction its as [|it its IH]; intros pos; cbn [items_dfrs length]; [reflexivity|]. rewrite IH. reflexivity. Qed.

(* the segment theorem in its general form: any items whose fragments read back e (at every position) *)
Lemma segment_generic head its exps b pos0 tx :
  head_ok head = true -> forallb item_kinds its = true ->
  Forall (fun it => item_pure it = true /\ fr_pre (ei_fe it) = xsum (ei_pre it)) its ->
  Forall2 (fun it e => forall p, p + fr_pre (ei_fe it) < POSB ->
                       get_full_samples (decoded_view (ei_fe it) p (ei_lz it)) tx = Ok e) its exps ->
  pos0 + stream_size (seg_stream head its) < POSB ->
  exists st, seg_decode b pos0 (seg_stream head its) = Ok st /\
             length (file_frags st) = length its /\
             seg_read st tx = Ok (concat exps).
Proof.
  intros Hh Hk Hp Hv Hb. destruct (decode_stream head its b pos0 Hh Hk) as (st & E & Ef).
  exists st. split; [exact E|]. split; [rewrite Ef; apply items_dfrs_length|].
  unfold seg_read. rewrite Ef. apply read_frags_views; try assumption.
  unfold seg_stream in Hb. rewrite stream_size_app, stream_size_TX in Hb. lia.
Qed.

(* ------------------------------------------------------------------ Fragment.Encode keeps the sizes of the boxes around moof and mdat *)
Lemma step_pre_post fr o fr' : step fr o = Ok fr' -> fr_pre fr' = fr_pre fr /\ fr_post fr' = fr_post fr.
Proof.
  destruct o as [s d data|t s d data|t s d|s d|ss d|d ss data]; cbn [step]; intros H.
  - destruct (add_first fr [s] d); try discriminate. injection H as <-. split; reflexivity.
  - unfold add_sample_to_track in H. destruct (add_to_track_trafs _ _ _ _ _) as [[ts n]|]; try discriminate.
    injection H as <-. split; reflexivity.
  - unfold add_sample_to_track in H. destruct (add_to_track_trafs _ _ _ _ _) as [[ts n]|]; try discriminate.
    injection H as <-. split; reflexivity.
  - destruct (add_first fr [s] d); try discriminate. injection H as <-. split; reflexivity.
  - destruct (add_first fr ss d); try discriminate. injection H as <-. split; reflexivity.
  - destruct (fr_trafs fr) as [|t [|t2 ts]]; try discriminate. destruct (tf_truns t) as [|r [|r2 rs]]; try discriminate.
    unfold md_add_part in H. destruct (md_data (fr_mdat fr)); try discriminate. injection H as <-. split; reflexivity.
Qed.

Lemma run_ops_pre_post ops : forall fr cs fr',
  run_ops fr ops = (cs, Some fr') -> fr_pre fr' = fr_pre fr /\ fr_post fr' = fr_post fr.
Proof.
  induction ops as [|o ops IH]; intros fr cs fr' H; cbn [run_ops] in H; [injection H as _ <-; split; reflexivity|].
  destruct (step fr o) as [fr1| | |] eqn:E; try discriminate.
  - destruct (run_ops fr1 ops) as [cs1 r1] eqn:E1. injection H as _ ->.
    destruct (IH _ _ _ E1) as [A B]. destruct (step_pre_post _ _ _ E) as [C D]. split; congruence.
  - destruct (run_ops fr ops) as [cs1 r1] eqn:E1. injection H as _ ->. apply (IH _ _ _ E1).
Qed.

Lemma optimize_first_pre_post fr fr1 : optimize_first fr = Ok fr1 -> fr_pre fr1 = fr_pre fr /\ fr_post fr1 = fr_post fr.
Proof.
  unfold optimize_first. destruct (fr_trafs fr) as [|t ts]; [intros H; injection H as <-; split; reflexivity|].
  destruct (tf_truns t) as [|r rs]; [intros H; injection H as <-; split; reflexivity|].
  destruct (optimize (tf_hd t) r) as [[h' r']| | |]; cbn [rbind]; try discriminate.
  intros H. injection H as <-. split; reflexivity.
Qed.

Lemma set_offsets_pre_post fr : fr_pre (set_offsets fr) = fr_pre fr /\ fr_post (set_offsets fr) = fr_post fr.
Proof. unfold set_offsets. destruct (negb _ && _); split; reflexivity. Qed.

Lemma encode_frag_pre_post opt fr fe : encode_frag opt fr = Ok fe -> fr_pre fe = fr_pre fr /\ fr_post fe = fr_post fr.
Proof.
  unfold encode_frag. intros H.
  destruct (if opt then optimize_first fr else Ok fr) as [fr1| | |] eqn:E1; try discriminate. cbn [rbind] in H.
  assert (H1 : fr_pre fr1 = fr_pre fr /\ fr_post fr1 = fr_post fr).
  { destruct opt; [apply optimize_first_pre_post; exact E1|]. injection E1 as <-. split; reflexivity. }
  destruct (set_offsets_pre_post fr1) as [A B].
  destruct (fr_trafs (set_offsets fr1)) as [|t ts]; try discriminate.
  destruct (existsb doff_unset (tf_truns t)); try discriminate.
  destruct (existsb doff_unset (all_truns ts)); try discriminate.
  injection H as <-. cbn [fr_with fr_pre fr_post]. destruct H1. split; congruence.
Qed.

Lemma same_meta_refl a : same_meta a a.
Proof. repeat split. Qed.

(* the mdat of the encoded fragment has the data, parts and lazy size of the fragment that was built *)
Lemma encode_frag_mdat opt fr fe : encode_frag opt fr = Ok fe ->
  md_lazy (fr_mdat fe) = md_lazy (fr_mdat fr) /\ md_data (fr_mdat fe) = md_data (fr_mdat fr) /\
  md_parts (fr_mdat fe) = md_parts (fr_mdat fr).
Proof.
  intros H. pose proof (encode_frag_meta opt fr fr (same_meta_refl fr) eq_refl) as M. rewrite H in M.
  exact (proj1 (proj2 (proj2 M))).
Qed.

Lemma encode_frags_Forall2 opt : forall frs fes,
  encode_frags opt frs = Ok fes -> Forall2 (fun fr fe => encode_frag opt fr = Ok fe) frs fes.
Proof.
  induction frs as [|fr frs IH]; intros fes H; cbn [encode_frags] in H.
  - injection H as <-. constructor.
  - destruct (encode_frag opt fr) as [fe| | |] eqn:E; try discriminate. cbn [rbind] in H.
    destruct (encode_frags opt frs) as [fes'| | |] eqn:E2; try discriminate. cbn [rbind] in H. injection H as <-.
    constructor; [exact E|apply IH; reflexivity].
Qed.

(* ------------------------------------------------------------------ segments of multi-track fragments, full samples *)
Definition hist_frag (h : fhist) : option frag := snd (run_ops (hist_start h) (fh_ops h)).

Definition hist_kinds (h : fhist) : bool :=
  forallb inner_kind (fh_pre h) && forallb inner_kind (fh_post h) && forallb inner_kind (fh_between h).

(* a fragment history as in C05_roundtrip *)
Definition hist_ok (h : fhist) : Prop :=
  NoDup (fh_tracks h) /\ N.of_nat (length (fh_ops h)) < 4294967296 /\ forallb is_full_to (fh_ops h) = true /\
  Forall (fun o => sized_f (op_full o)) (fh_ops h) /\ hist_kinds h = true.

(* the 2 GiB guard of C05_roundtrip (int32 data offsets) *)
Definition frag_guard (fr fe : frag) : Prop :=
  moof_size fe + md_header_size (fr_mdat fe) + lenN (md_data (fr_mdat fr)) < 2147483648.

Lemma full_item_facts h fr opt fe :
  hist_ok h -> hist_frag h = Some fr -> encode_frag opt fr = Ok fe ->
  let it := hist_item h fe [] in
  item_kinds it = true /\ item_framed it = true /\ item_pure it = true /\ fr_pre (ei_fe it) = xsum (ei_pre it).
Proof.
  intros (Hnd & Hlen & Hfull & Hsz & Hk) Hf Henc it.
  unfold hist_frag in Hf. destruct (run_ops (hist_start h) (fh_ops h)) as [cs r] eqn:Hrun. cbn [snd] in Hf. subst r.
  pose proof (ghost_ginv (fh_tracks h) (fh_ops h) cs (hist_start h) fr Hnd Hlen Hfull
                (create_multi_extras_ginv _ _ _ _ _ Hnd) Hrun) as Hi.
  destruct Hi as (_ & _ & _ & _ & Hdat & Hpar & Hlaz).
  destruct (encode_frag_mdat opt fr fe Henc) as (El & Ed & Ep).
  destruct (encode_frag_pre_post opt fr fe Henc) as (Epre & _).
  destruct (run_ops_pre_post _ _ _ _ Hrun) as (Rpre & _).
  split; [exact Hk|]. split; [|split].
  - unfold item_framed, it. cbn [hist_item ei_fe ei_lz ei_post is_nil]. rewrite orb_true_l, andb_true_r.
    apply N.eqb_eq. unfold md_payload, md_written, md_data_length. rewrite El, Hlaz, Ep, Hpar. cbn. lia.
  - unfold item_pure, it. cbn [hist_item ei_fe ei_lz is_nil]. rewrite El, Hlaz. reflexivity.
  - unfold it. cbn [hist_item ei_fe ei_pre]. rewrite Epre, Rpre. reflexivity.
Qed.

Lemma segment_roundtrip head opt b pos0 tx : forall hs frs fes,
  head_ok head = true -> Forall hist_ok hs ->
  Forall2 (fun h fr => hist_frag h = Some fr) hs frs ->
  encode_frags opt frs = Ok fes ->
  Forall2 frag_guard frs fes ->
  Forall (fun h => consistent (added_fulls (fh_tracks h) (tx_track tx) (fh_ops h))) hs ->
  let its := hist_items hs fes in
  pos0 + stream_size (seg_stream head its) < POSB ->
  forallb item_framed its = true /\
  exists st, seg_decode b pos0 (seg_stream head its) = Ok st /\
    length (file_frags st) = length hs /\
    seg_read st (Some tx) = Ok (flat_map (fun h => added_fulls (fh_tracks h) (tx_track tx) (fh_ops h)) hs).
Proof.
  intros hs frs fes Hh Hok Hfr Henc Hg Hcons its Hb.
  pose proof (encode_frags_Forall2 opt frs fes Henc) as He.
  assert (K : forallb item_kinds its = true /\ forallb item_framed its = true /\
              Forall (fun it => item_pure it = true /\ fr_pre (ei_fe it) = xsum (ei_pre it)) its /\
              Forall2 (fun it e => forall p, p + fr_pre (ei_fe it) < POSB ->
                         get_full_samples (decoded_view (ei_fe it) p (ei_lz it)) (Some tx) = Ok e)
                      its (map (fun h => added_fulls (fh_tracks h) (tx_track tx) (fh_ops h)) hs) /\
              length its = length hs).
  { unfold its. clear Hb its Henc. revert frs fes Hfr He Hg Hok Hcons.
    induction hs as [|h hs IH]; intros frs fes Hfr He Hg Hok Hcons.
    - cbn [hist_items forallb map]. repeat split; constructor.
    - inversion Hfr as [|? fr ? frs' Hf1 Hfr']; subst. inversion He as [|? fe ? fes' He1 He']; subst.
      inversion Hg as [|? ? ? ? Hg1 Hg']; subst. inversion Hok as [|? ? Hok1 Hok']; subst.
      inversion Hcons as [|? ? Hc1 Hc']; subst.
      destruct (IH frs' fes' Hfr' He' Hg' Hok' Hc') as (A & B & C & D & E).
      destruct (full_item_facts h fr opt fe Hok1 Hf1 He1) as (F1 & F2 & F3 & F4).
      cbn [hist_items forallb map length]. rewrite A, B, F1, F2. repeat split; try reflexivity.
      + constructor; [split; assumption|exact C].
      + constructor; [|exact D]. intros p Hp. cbn [hist_item ei_fe ei_lz] in *.
        destruct Hok1 as (Hnd & Hlen & Hfull & Hsz & Hk).
        unfold hist_frag in Hf1. destruct (run_ops (hist_start h) (fh_ops h)) as [cs r] eqn:Hrun. cbn [snd] in Hf1. subst r.
        exact (roundtrip_multi_final (fh_tracks h) _ _ _ _ (fh_ops h) cs fr opt fe p tx Hnd Hlen Hfull Hsz Hrun He1 Hg1 Hp Hc1).
      + rewrite E. reflexivity. }
  destruct K as (K1 & K2 & K3 & K4 & K5). split; [exact K2|].
  destruct (segment_generic head its _ b pos0 (Some tx) Hh K1 K3 K4 Hb) as (st & E & El & Er).
  exists st. split; [exact E|]. split; [rewrite El; exact K5|]. rewrite Er. rewrite flat_map_concat_map. reflexivity.
Qed.

(* ------------------------------------------------------------------ mixed data modes in one fragment: refuted *)
(* AddSample (metadata only, the caller writes 2 bytes after the fragment) followed by AddFullSample (3 bytes in the
   mdat): Fragment.Encode succeeds, but the mdat header announces 2 payload bytes while 3 + 2 bytes follow it: the
   stream is not a sequence of boxes any more.  And when the sizes happen to frame (the interval form: data parts are
   written, later full data is not), the samples read back differ from the ones added.  Known finding C05-F8. *)
Lemma mixed_modes_refuted :
  (exists ops fr fe lz,
     run_ops (create_fragment 1) ops = ([COk; COk], Some fr) /\ encode_frag false fr = Ok fe /\
     lenN lz = 2 /\ item_framed (mkEitem [] fe [] lz []) = false) /\
  (exists ops fr fe,
     run_ops (create_fragment 1) ops = ([COk; COk], Some fr) /\ encode_frag false fr = Ok fe /\
     item_framed (mkEitem [] fe [] [] []) = true /\
     seg_get_full (item_dfr 0 (mkEitem [] fe [] [] [])) None <> Ok [mkFull (mkSample 0 10 2 0) 0 [1; 2]; mkFull (mkSample 0 10 3 0) 10 [7; 8; 9]]).
Proof.
  split.
  - exists [OMeta (mkSample 0 10 2 0) 0; OFull (mkSample 0 10 3 0) 10 [7; 8; 9]]. eexists; eexists; exists [1; 2].
    split; [vm_compute; reflexivity|]. split; [vm_compute; reflexivity|]. split; vm_compute; reflexivity.
  - exists [OInterval 0 [mkSample 0 10 2 0] [1; 2]; OFull (mkSample 0 10 3 0) 10 [7; 8; 9]]. eexists; eexists.
    split; [vm_compute; reflexivity|]. split; [vm_compute; reflexivity|]. split; [vm_compute; reflexivity|].
    vm_compute. discriminate.
Qed.
