(* C05OffProofs.v — SetTrunDataOffsets: every trun's data offset is
   moof size + mdat header + total data size of the runs written before it. *)
From Coq Require Import Permutation Sorted.
From V.lib Require Import Base.
From V.c05 Require Import C05Model C05FragModel C05HistProofs.

(* (write-order number, size of data) of a trun: all that SetTrunDataOffsets reads *)
Definition pr (r : trun) : N * N := (tr_won r, size_of_data r).

(* total size of the entries with number below k / of all entries *)
Fixpoint wsum (P : list (N * N)) (k : N) : N :=
  match P with
  | [] => 0
  | (w, z) :: t => (if w <? k then z else 0) + wsum t k
  end.
Fixpoint tsum (P : list (N * N)) : N :=
  match P with [] => 0 | (_, z) :: t => z + tsum t end.

Lemma wsum_perm P Q k : Permutation P Q -> wsum P k = wsum Q k.
Proof.
  induction 1 as [|[w z] l l' _ IH|[w z] [w' z'] l|l l' l'' _ IH1 _ IH2]; cbn [wsum]; try lia.
Qed.

Lemma tsum_perm P Q : Permutation P Q -> tsum P = tsum Q.
Proof.
  induction 1 as [|[w z] l l' _ IH|[w z] [w' z'] l|l l' l'' _ IH1 _ IH2]; cbn [tsum]; try lia.
Qed.

Lemma wsum_le_tsum P k : wsum P k <= tsum P.
Proof. induction P as [|[w z] t IH]; cbn [wsum tsum]; [lia|]. destruct (w <? k); lia. Qed.

Lemma wsum_app P Q k : wsum (P ++ Q) k = wsum P k + wsum Q k.
Proof. induction P as [|[w z] t IH]; cbn [wsum app]; [reflexivity|]. rewrite IH. lia. Qed.

Lemma tsum_app P Q : tsum (P ++ Q) = tsum P + tsum Q.
Proof. induction P as [|[w z] t IH]; cbn [tsum app]; [reflexivity|]. rewrite IH. lia. Qed.

Lemma wsum_all_ge P k : Forall (fun p => k <= fst p) P -> wsum P k = 0.
Proof.
  induction 1 as [|[w z] t Hw _ IH]; cbn [wsum]; [reflexivity|]. cbn [fst] in Hw.
  destruct (w <? k) eqn:E; [apply N.ltb_lt in E; lia|]. rewrite IH. reflexivity.
Qed.

(* ------------------------------------------------------------------ insertion sort *)
Lemma insert_won_perm r l : Permutation (insert_won r l) (r :: l).
Proof.
  induction l as [|x t IH]; cbn [insert_won]; [reflexivity|].
  destruct (tr_won r <=? tr_won x); [reflexivity|].
  rewrite IH. apply perm_swap.
Qed.

Lemma sort_won_perm l : Permutation (sort_won l) l.
Proof.
  induction l as [|x t IH]; cbn [sort_won fold_right]; [reflexivity|].
  fold (sort_won t). rewrite insert_won_perm. constructor. exact IH.
Qed.

Definition won_le (a b : trun) : Prop := tr_won a <= tr_won b.

Lemma insert_won_sorted r l : StronglySorted won_le l -> StronglySorted won_le (insert_won r l).
Proof.
  induction 1 as [|x t Hs IH Hx]; cbn [insert_won]; [repeat constructor|].
  destruct (tr_won r <=? tr_won x) eqn:E.
  - apply N.leb_le in E. constructor; [constructor; assumption|].
    constructor; [exact E|]. eapply Forall_impl; [|exact Hx]. unfold won_le. intros a Ha. lia.
  - apply N.leb_gt in E. constructor; [exact IH|].
    eapply Permutation_Forall; [symmetry; apply insert_won_perm|].
    constructor; [unfold won_le; lia|exact Hx].
Qed.

Lemma sort_won_sorted l : StronglySorted won_le (sort_won l).
Proof.
  induction l as [|x t IH]; cbn [sort_won fold_right]; [constructor|].
  apply insert_won_sorted. exact IH.
Qed.

(* ------------------------------------------------------------------ the walk over the sorted runs *)
Lemma lookup_assign S : forall base d r,
  StronglySorted won_le S -> NoDup (map tr_won S) ->
  base + tsum (map pr S) < 18446744073709551616 ->
  In r S ->
  lookup_off (assign_offsets S base) (tr_won r) d = i32 (base + wsum (map pr S) (tr_won r)).
Proof.
  induction S as [|a S IH]; intros base d r Hs Hd Hb Hin; [destruct Hin|].
  inversion Hs as [|? ? Hs' Ha]; subst. cbn [map] in Hd. inversion Hd as [|? ? Hna Hd']; subst.
  cbn [assign_offsets lookup_off map pr wsum tsum] in *. fold (pr a) in *.
  destruct (tr_won a =? tr_won r) eqn:E.
  - apply N.eqb_eq in E. rewrite E, N.ltb_irrefl.
    rewrite wsum_all_ge; [f_equal; lia|].
    apply Forall_forall. intros p Hp. apply in_map_iff in Hp. destruct Hp as (x & <- & Hx).
    cbn [pr fst]. rewrite Forall_forall in Ha. specialize (Ha x Hx). unfold won_le in Ha. lia.
  - apply N.eqb_neq in E. destruct Hin as [->|Hin]; [congruence|].
    rewrite Forall_forall in Ha. pose proof (Ha r Hin) as Hle. unfold won_le in Hle.
    assert (Hlt : tr_won a <? tr_won r = true) by (apply N.ltb_lt; lia). rewrite Hlt.
    assert (Hu : u64 (base + size_of_data a) = base + size_of_data a) by (unfold u64; apply N.mod_small; lia).
    rewrite Hu. rewrite IH; try assumption; [f_equal; lia|lia].
Qed.

Lemma i32_exact x : x < 2147483648 -> i32 x = Z.of_N x.
Proof. apply i32_small. Qed.

(* ------------------------------------------------------------------ set_offsets, for any fragment whose
   write-order numbers are pairwise different *)
Lemma all_zero_short (L : list trun) :
  existsb (fun r => negb (tr_won r =? 0)) L = false -> NoDup (map tr_won L) -> (length L <= 1)%nat.
Proof.
  intros He Hd. destruct L as [|a [|b t]]; cbn [length]; try lia.
  cbn [existsb] in He. apply orb_false_iff in He. destruct He as [Ea He].
  apply orb_false_iff in He. destruct He as [Eb _].
  apply negb_false_iff, N.eqb_eq in Ea. apply negb_false_iff, N.eqb_eq in Eb.
  cbn [map] in Hd. inversion Hd as [|? ? Hn _]; subst. exfalso. apply Hn. left. congruence.
Qed.

Definition with_offsets (fr : frag) (f : trun -> Z) : list traf :=
  map (fun t => mkTraf (tf_hd t) (tf_dt t) (map (fun r => tr_with_doff r (f r)) (tf_truns t)) (tf_extra t))
      (fr_trafs fr).

Lemma set_offsets_spec fr :
  let L := all_truns (fr_trafs fr) in
  let m := md_size_touch (fr_mdat fr) in
  let base := moof_size fr + md_header_size m in
  NoDup (map tr_won L) ->
  base + tsum (map pr L) < 2147483648 ->
  set_offsets fr = fr_with fr (with_offsets fr (fun r => Z.of_N (base + wsum (map pr L) (tr_won r)))) m (fr_next fr).
Proof.
  intros L m base Hd Hb. unfold set_offsets. fold L.
  destruct (negb (existsb (fun r => negb (tr_won r =? 0)) L) && (1 <? lenN L)) eqn:Ec.
  - exfalso. apply andb_true_iff in Ec. destruct Ec as [E1 E2]. apply negb_true_iff in E1.
    pose proof (all_zero_short L E1 Hd). apply N.ltb_lt in E2. unfold lenN in E2. lia.
  - fold m. fold base. f_equal. unfold with_offsets. apply map_ext_in. intros t Ht. f_equal.
    apply map_ext_in. intros r Hr. f_equal.
    assert (Hin : In r L). { unfold L, all_truns. apply in_flat_map. exists t. split; assumption. }
    pose proof (sort_won_perm L) as Hp.
    rewrite (lookup_assign (sort_won L) base (tr_doff r) r).
    + rewrite (wsum_perm _ (map pr L)) by (apply Permutation_map; exact Hp).
      apply i32_exact. pose proof (wsum_le_tsum (map pr L) (tr_won r)). lia.
    + apply sort_won_sorted.
    + eapply Permutation_NoDup; [|exact Hd]. apply Permutation_map. symmetry. exact Hp.
    + rewrite (tsum_perm _ (map pr L)) by (apply Permutation_map; exact Hp). lia.
    + eapply Permutation_in; [symmetry; exact Hp|exact Hin].
Qed.

(* ------------------------------------------------------------------ in terms of the runs *)
(* (index, data size) of every run *)
Fixpoint prs (rr : runs) : list (N * N) :=
  match rr with
  | [] => []
  | (_, ss) :: rest => (lenN rest, sizes_sum ss) :: prs rest
  end.

(* total data size of the runs written before run k *)
Definition run_pos (rr : runs) (k : N) : N := wsum (prs rr) k.

Lemma flat_map_single {A} (T' : N) (c : A) (tracks : list N) :
  In T' tracks -> NoDup tracks ->
  Permutation (flat_map (fun T => if T' =? T then [c] else []) tracks) [c].
Proof.
  induction tracks as [|x t IH]; intros Hin Hd; [destruct Hin|].
  inversion Hd as [|? ? Hn Hd']; subst. cbn [flat_map].
  destruct (T' =? x) eqn:E.
  - apply N.eqb_eq in E. subst x. cbn [app].
    assert (Hz : flat_map (fun T => if T' =? T then [c] else []) t = []).
    { clear IH Hd Hd' Hin. induction t as [|y t IHt]; [reflexivity|]. cbn [flat_map].
      destruct (T' =? y) eqn:Ey; [apply N.eqb_eq in Ey; subst; exfalso; apply Hn; left; reflexivity|].
      cbn [app]. apply IHt. intros H. apply Hn. right. exact H. }
    rewrite Hz. reflexivity.
  - cbn [app]. apply IH; [|exact Hd']. destruct Hin as [->|H]; [rewrite N.eqb_refl in E; discriminate|exact H].
Qed.

Lemma flat_map_app_perm {A B} (f g : A -> list B) l :
  Permutation (flat_map (fun a => f a ++ g a) l) (flat_map f l ++ flat_map g l).
Proof.
  induction l as [|a t IH]; cbn [flat_map]; [reflexivity|].
  rewrite IH. rewrite <- !app_assoc. apply Permutation_app_head.
  rewrite !app_assoc. apply Permutation_app_tail. apply Permutation_app_comm.
Qed.

Lemma truns_perm_prs tracks rr :
  NoDup tracks -> Forall (fun p => In (fst p) tracks) rr ->
  Permutation (map pr (flat_map (fun T => mk_truns T rr) tracks)) (prs rr).
Proof.
  intros Hd. induction 1 as [|[T' ss] rest HT _ IH]; cbn [mk_truns prs].
  - induction tracks; [constructor|]. cbn [flat_map app]. inversion Hd; subst; auto.
  - cbn [fst] in HT.
    rewrite (Permutation_map pr (flat_map_app_perm (fun T => mk_truns T rest)
                (fun T => if T' =? T then [canon (lenN rest) ss] else []) tracks)).
    rewrite map_app. rewrite IH.
    rewrite (Permutation_map pr (flat_map_single T' (canon (lenN rest) ss) tracks HT Hd)).
    cbn [map pr canon tr_won]. unfold size_of_data. cbn [tr_samples]. fold (sizes_sum ss).
    symmetry. apply Permutation_cons_append.
Qed.

Lemma prs_wons_lt rr : Forall (fun p => fst p < lenN rr) (prs rr).
Proof.
  induction rr as [|[T ss] rest IH]; cbn [prs]; [constructor|]. rewrite lenN_cons. constructor; [cbn [fst]; lia|].
  eapply Forall_impl; [|exact IH]. cbn beta. intros p Hp. lia.
Qed.

Lemma prs_nodup rr : NoDup (map fst (prs rr)).
Proof.
  induction rr as [|[T ss] rest IH]; cbn [prs map fst]; [constructor|]. constructor; [|exact IH].
  intros Hin. apply in_map_iff in Hin. destruct Hin as (p & Hp & Hin).
  pose proof (prs_wons_lt rest) as F. rewrite Forall_forall in F. specialize (F p Hin). lia.
Qed.

Lemma all_truns_multi fr rr :
  multi_inv rr fr -> all_truns (fr_trafs fr) = flat_map (fun T => mk_truns T rr) (map track_of (fr_trafs fr)).
Proof.
  intros (_ & _ & Hf). unfold all_truns. induction (fr_trafs fr) as [|t ts IH]; [reflexivity|].
  inversion Hf as [|? ? Ht Hf']; subst. cbn [flat_map map]. rewrite Ht, (IH Hf'). reflexivity.
Qed.

(* data offsets of a multi-track fragment in terms of its runs; `same` lets the truns differ from the ones
   the history built in everything but (write-order number, samples): this is what optimisation does *)
Lemma set_offsets_runs fr rr :
  let L := all_truns (fr_trafs fr) in
  let m := md_size_touch (fr_mdat fr) in
  let base := moof_size fr + md_header_size m in
  Permutation (map pr L) (prs rr) ->
  base + tsum (prs rr) < 2147483648 ->
  set_offsets fr = fr_with fr (with_offsets fr (fun r => Z.of_N (base + run_pos rr (tr_won r)))) m (fr_next fr).
Proof.
  intros L m base Hp Hb.
  assert (Hd : NoDup (map tr_won L)).
  { replace (map tr_won L) with (map fst (map pr L)) by (rewrite map_map; reflexivity).
    eapply Permutation_NoDup; [apply Permutation_map; symmetry; exact Hp|apply prs_nodup]. }
  rewrite set_offsets_spec; fold L; fold m; fold base; [|exact Hd|rewrite (tsum_perm _ _ Hp); exact Hb].
  f_equal. unfold with_offsets. apply map_ext. intros t. f_equal. apply map_ext. intros r.
  unfold run_pos. rewrite (wsum_perm _ _ _ Hp). reflexivity.
Qed.
