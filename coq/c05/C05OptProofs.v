(* C05OptProofs.v — OptimizeTfhdTrun followed by (encode, decode,) AddSampleDefaultValues returns the
   samples that were in the trun, for all field values and all flag words. *)
From V.lib Require Import Base.
From V.c05 Require Import C05Model.

(* resolve after the wire: one function per sample *)
Definition rw (tf : tfhd) (tx : option trex) (t : trun) (first : bool) (s : sample) : sample :=
  resolve_sample t (defaults tf tx) first (wire_sample t first s).

Lemma map_first_map_first {A B C} (f : bool -> A -> B) (g : bool -> B -> C) l :
  map_first g (map_first f l) = map_first (fun b a => g b (f b a)) l.
Proof. destruct l as [|a t]; cbn [map_first]; [reflexivity|]. rewrite map_map. reflexivity. Qed.

Lemma map_first_ext {A B} (f g : bool -> A -> B) l :
  (forall a t, l = a :: t -> f true a = g true a) ->
  (forall a, In a (tl l) -> f false a = g false a) ->
  map_first f l = map_first g l.
Proof.
  destruct l as [|a t]; cbn [map_first tl]; intros H1 H2; [reflexivity|].
  f_equal; [eapply H1; reflexivity|]. apply map_ext_in. exact H2.
Qed.

Lemma map_first_id {A} (f : bool -> A -> A) l :
  (forall a t, l = a :: t -> f true a = a) ->
  (forall a, In a (tl l) -> f false a = a) ->
  map_first f l = l.
Proof.
  destruct l as [|a t]; cbn [map_first tl]; intros H1 H2; [reflexivity|].
  f_equal; [eapply H1; reflexivity|]. rewrite <- (map_id t) at 2. apply map_ext_in. exact H2.
Qed.

Lemma resolve_wire tf tx t :
  resolve tf tx (wire_trun t) = map_first (rw tf tx t) (tr_samples t).
Proof.
  unfold resolve. cbn [wire_trun tr_samples]. rewrite map_first_map_first.
  apply map_first_ext; intros; reflexivity.
Qed.

(* bit bookkeeping *)
Ltac bits :=
  unfold has_doff, has_fsf, has_dur, has_size, has_sflags, has_cto,
    tf_has_ddur, tf_has_dsize, tf_has_dflags, tf_has_bdo, tf_has_sdi, tf_base_is_moof,
    tr_clear, tr_set_fsf, tr_remove_fsf, tr_with_flags, tf_set_ddur, tf_set_dsize, tf_set_dflags,
    B_DOFF, B_FSF, B_DUR, B_SIZE, B_SFLAGS, B_CTO, B_BDO, B_SDI, B_DDUR, B_DSIZE, B_DFLAGS, B_MOOF in *;
  cbn [tr_flags tr_fsf tr_samples tr_doff tr_won tr_version
       tf_flags tf_ddur tf_dsize tf_dflags tf_track tf_bdo tf_sdi] in *;
  repeat rewrite ?N.setbit_eqb, ?N.clearbit_eqb in *;
  cbn [N.eqb Pos.eqb negb orb andb] in *;
  repeat rewrite ?andb_true_r, ?andb_false_r, ?orb_false_r, ?orb_true_r in *;
  cbn [negb orb andb] in *.

Lemma sample_eta s : mkSample (s_flags s) (s_dur s) (s_size s) (s_cto s) = s.
Proof. destruct s; reflexivity. Qed.

(* each block keeps the sample list and the resolved-after-wire view *)
Definition keeps (tf : tfhd) (tr : trun) (p : tfhd * trun) : Prop :=
  tr_samples (snd p) = tr_samples tr /\
  forall tx, map_first (rw (fst p) tx (snd p)) (tr_samples tr) = map_first (rw tf tx tr) (tr_samples tr).

Lemma keeps_refl tf tr : keeps tf tr (tf, tr).
Proof. split; reflexivity. Qed.

Lemma keeps_trans tf tr p q :
  keeps tf tr p -> keeps (fst p) (snd p) q -> keeps tf tr q.
Proof.
  intros [S1 R1] [S2 R2]. split; [congruence|].
  intros tx. rewrite <- R1. rewrite <- S1. apply R2.
Qed.

Lemma opt_dur_keeps tf tr : keeps tf tr (opt_dur tf tr).
Proof.
  unfold opt_dur. destruct (tr_samples tr) as [|s0 l] eqn:E; [apply keeps_refl|].
  destruct (has_dur tr) eqn:Hd; cbn [andb]; [|apply keeps_refl].
  destruct (forallb _ _) eqn:Hc; [|apply keeps_refl].
  rewrite forallb_forall in Hc.
  split; [cbn [snd]; bits; reflexivity|].
  intros tx. cbn [fst snd]. rewrite E.
  assert (P : forall b s, In s (s0 :: l) ->
              rw (tf_set_ddur tf (s_dur s0)) tx (tr_clear tr B_DUR) b s = rw tf tx tr b s).
  { intros b s Hs. apply Hc in Hs. apply N.eqb_eq in Hs.
    unfold rw, resolve_sample, wire_sample, defaults. bits. rewrite Hd.
    cbn [s_flags s_dur s_size s_cto]. rewrite Hs. reflexivity. }
  apply map_first_ext.
  - intros a t [= <- <-]. apply P. left; reflexivity.
  - intros a Ha. apply P. right. exact Ha.
Qed.

Lemma opt_size_keeps tf tr : keeps tf tr (opt_size tf tr).
Proof.
  unfold opt_size. destruct (tr_samples tr) as [|s0 l] eqn:E; [apply keeps_refl|].
  destruct (has_size tr) eqn:Hd; cbn [andb]; [|apply keeps_refl].
  destruct (forallb _ _) eqn:Hc; [|apply keeps_refl].
  rewrite forallb_forall in Hc.
  split; [cbn [snd]; bits; reflexivity|].
  intros tx. cbn [fst snd]. rewrite E.
  assert (P : forall b s, In s (s0 :: l) ->
              rw (tf_set_dsize tf (s_size s0)) tx (tr_clear tr B_SIZE) b s = rw tf tx tr b s).
  { intros b s Hs. apply Hc in Hs. apply N.eqb_eq in Hs.
    unfold rw, resolve_sample, wire_sample, defaults. bits. rewrite Hd.
    cbn [s_flags s_dur s_size s_cto]. rewrite Hs. reflexivity. }
  apply map_first_ext.
  - intros a t [= <- <-]. apply P. left; reflexivity.
  - intros a Ha. apply P. right. exact Ha.
Qed.

Lemma opt_cto_keeps tf tr : keeps tf tr (opt_cto tf tr).
Proof.
  unfold opt_cto.
  destruct (has_cto tr) eqn:Hd; cbn [andb]; [|apply keeps_refl].
  destruct (forallb _ _) eqn:Hc; cbn [andb]; [|apply keeps_refl].
  destruct (_ || _); [|apply keeps_refl].
  rewrite forallb_forall in Hc.
  split; [cbn [snd]; bits; reflexivity|].
  intros tx. cbn [fst snd].
  assert (P : forall b s, In s (tr_samples tr) -> rw tf tx (tr_clear tr B_CTO) b s = rw tf tx tr b s).
  { intros b s Hs. apply Hc in Hs. apply Z.eqb_eq in Hs.
    unfold rw, resolve_sample, wire_sample, defaults. bits. rewrite Hd.
    cbn [s_flags s_dur s_size s_cto]. rewrite Hs. reflexivity. }
  apply map_first_ext.
  - intros a t Ht. apply P. rewrite Ht. left; reflexivity.
  - intros a Ha. apply P. destruct (tr_samples tr); [destruct Ha|right; exact Ha].
Qed.

(* the flags block of the repaired text *)
Lemma opt_flags_keeps tf tr : keeps tf tr (opt_flags_gen true tf tr).
Proof.
  unfold opt_flags_gen. destruct (tr_samples tr) as [|s0 [|s1 l]] eqn:E; try apply keeps_refl.
  destruct (has_sflags tr) eqn:Hd; cbn [andb]; [|apply keeps_refl].
  destruct (forallb _ _) eqn:Hc; [|apply keeps_refl].
  rewrite forallb_forall in Hc. cbn [tl] in Hc.
  destruct (s_flags s0 =? s_flags s1) eqn:H01; cbn [negb].
  - apply N.eqb_eq in H01.
    split; [cbn [snd]; bits; reflexivity|].
    intros tx. cbn [fst snd]. rewrite E. apply map_first_ext.
    + intros a t [= <- <-].
      unfold rw, resolve_sample, wire_sample, defaults. bits. rewrite Hd.
      cbn [s_flags s_dur s_size s_cto]. rewrite H01. reflexivity.
    + intros a Ha. cbn [tl] in Ha. apply Hc in Ha. apply N.eqb_eq in Ha.
      unfold rw, resolve_sample, wire_sample, defaults. bits. rewrite Hd.
      cbn [s_flags s_dur s_size s_cto]. rewrite Ha. reflexivity.
  - split; [cbn [snd]; bits; reflexivity|].
    intros tx. cbn [fst snd]. rewrite E. apply map_first_ext.
    + intros a t [= <- <-].
      unfold rw, resolve_sample, wire_sample, defaults. bits. rewrite Hd.
      cbn [s_flags s_dur s_size s_cto]. reflexivity.
    + intros a Ha. cbn [tl] in Ha. apply Hc in Ha. apply N.eqb_eq in Ha.
      unfold rw, resolve_sample, wire_sample, defaults. bits. rewrite Hd.
      cbn [s_flags s_dur s_size s_cto]. rewrite Ha. reflexivity.
Qed.

Lemma optimize_keeps tf tr tf' tr' :
  optimize_gen true tf tr = Ok (tf', tr') -> keeps tf tr (tf', tr').
Proof.
  unfold optimize_gen. destruct (tr_samples tr) as [|s0 [|s1 l]] eqn:E; [discriminate| |].
  - intros [= <- <-]. apply keeps_refl.
  - pose proof (opt_dur_keeps tf tr) as K1. destruct (opt_dur tf tr) as [tf1 tr1].
    pose proof (opt_size_keeps tf1 tr1) as K2. destruct (opt_size tf1 tr1) as [tf2 tr2].
    pose proof (opt_flags_keeps tf2 tr2) as K3. destruct (opt_flags_gen true tf2 tr2) as [tf3 tr3].
    pose proof (opt_cto_keeps tf3 tr3) as K4.
    intros [= H]. rewrite H in K4.
    apply (keeps_trans tf tr (tf3, tr3)); [|exact K4].
    apply (keeps_trans tf tr (tf2, tr2)); [|exact K3].
    apply (keeps_trans tf tr (tf1, tr1)); [exact K1|exact K2].
Qed.

Lemma optimize_total tf tr : tr_samples tr <> [] -> exists p, optimize_gen true tf tr = Ok p.
Proof.
  unfold optimize_gen. destruct (tr_samples tr) as [|s0 [|s1 l]]; [congruence| |]; intros _.
  - eexists; reflexivity.
  - destruct (opt_dur tf tr) as [tf1 tr1]. destruct (opt_size tf1 tr1) as [tf2 tr2].
    destruct (opt_flags_gen true tf2 tr2) as [tf3 tr3]. eexists; reflexivity.
Qed.

(* general form: optimisation does not change what the decode side resolves, whatever the flag word *)
Lemma optimize_preserves_resolve tf tr tx tf' tr' :
  optimize_gen true tf tr = Ok (tf', tr') ->
  resolve tf' tx (wire_trun tr') = resolve tf tx (wire_trun tr).
Proof.
  intros H. apply optimize_keeps in H. destruct H as [S R]. cbn [fst snd] in *.
  rewrite !resolve_wire. rewrite S. apply R.
Qed.

(* all four per-sample fields present in the trun (as in every trun made by CreateTrun: 0xf01) *)
Definition all_present (t : trun) : bool := has_dur t && has_size t && has_sflags t && has_cto t.

Lemma resolve_all_present tf tx tr :
  all_present tr = true -> resolve tf tx (wire_trun tr) = tr_samples tr.
Proof.
  unfold all_present. intros H. rewrite !andb_true_iff in H. destruct H as [[[H1 H2] H3] H4].
  rewrite resolve_wire. apply map_first_id; intros;
    unfold rw, resolve_sample, wire_sample; destruct (defaults tf tx) as [[dd ds] df];
    rewrite H1, H2, H3, H4; cbn [s_flags s_dur s_size s_cto]; apply sample_eta.
Qed.

Lemma optimize_resolve tf tr tx :
  (1 <= length (tr_samples tr))%nat -> all_present tr = true ->
  exists tf' tr', optimize tf tr = Ok (tf', tr') /\
                  resolve tf' tx (wire_trun tr') = tr_samples tr.
Proof.
  intros Hl Hp. destruct (optimize_total tf tr) as [[tf' tr'] H].
  { destruct (tr_samples tr); [cbn in Hl; lia|discriminate]. }
  exists tf', tr'. split; [exact H|].
  rewrite (optimize_preserves_resolve _ _ _ _ _ H). apply resolve_all_present. exact Hp.
Qed.

(* the in-memory variant (no encode/decode in between): resolve on the optimised trun itself *)
Lemma resolve_in_memory tf tx tr :
  (forall s, In s (tr_samples tr) -> wire_sample tr false s = s) ->
  (match tr_samples tr with s0 :: _ => wire_sample tr true s0 = s0 | [] => True end) ->
  resolve tf tx tr = resolve tf tx (wire_trun tr).
Proof.
  intros H1 H2. rewrite resolve_wire. unfold resolve. apply map_first_ext.
  - intros a t E. rewrite E in H2. unfold rw. rewrite H2. reflexivity.
  - intros a Ha. unfold rw. rewrite H1; [reflexivity|].
    destruct (tr_samples tr); [destruct Ha|right; exact Ha].
Qed.

(* the pinned text (before fix 8cfc4f9) violates the statement: a trun whose first-sample-flags field is
   present but unused (sample flags present) — e.g. after trun.SetFirstSampleFlags — keeps the stale value,
   which takes effect once optimisation drops the per-sample flags *)
Definition wit_tr : trun :=
  mkTrun 1 3845 0 33554432
         [mkSample 16842752 10 2 0; mkSample 16842752 10 2 0; mkSample 16842752 10 2 0] 0.

Lemma optimize_pinned_refuted :
  exists tf tr tx tf' tr',
    all_present tr = true /\ optimize_pinned tf tr = Ok (tf', tr') /\
    resolve tf' tx (wire_trun tr') <> tr_samples tr.
Proof.
  exists (create_tfhd 1), wit_tr, None.
  eexists; eexists. split; [vm_compute; reflexivity|]. split; [vm_compute; reflexivity|].
  vm_compute. discriminate.
Qed.

(* ------------------------------------------------------------------ what optimisation leaves alone *)
Definition frame (tf : tfhd) (tr : trun) (p : tfhd * trun) : Prop :=
  tr_won (snd p) = tr_won tr /\ has_doff (snd p) = has_doff tr /\ tr_samples (snd p) = tr_samples tr /\
  tf_has_bdo (fst p) = tf_has_bdo tf /\ tf_track (fst p) = tf_track tf.

Lemma frame_refl tf tr : frame tf tr (tf, tr).
Proof. repeat split. Qed.

Lemma frame_trans tf tr p q : frame tf tr p -> frame (fst p) (snd p) q -> frame tf tr q.
Proof. intros (A1 & A2 & A3 & A4 & A5) (B1 & B2 & B3 & B4 & B5). repeat split; congruence. Qed.

Lemma opt_dur_frame tf tr : frame tf tr (opt_dur tf tr).
Proof.
  unfold opt_dur. destruct (tr_samples tr); [apply frame_refl|].
  destruct (has_dur tr && _); [|apply frame_refl]. unfold frame. cbn [fst snd]. bits. repeat split.
Qed.

Lemma opt_size_frame tf tr : frame tf tr (opt_size tf tr).
Proof.
  unfold opt_size. destruct (tr_samples tr); [apply frame_refl|].
  destruct (has_size tr && _); [|apply frame_refl]. unfold frame. cbn [fst snd]. bits. repeat split.
Qed.

Lemma opt_flags_frame b tf tr : frame tf tr (opt_flags_gen b tf tr).
Proof.
  unfold opt_flags_gen. destruct (tr_samples tr) as [|s0 [|s1 l]]; try apply frame_refl.
  destruct (has_sflags tr && _); [|apply frame_refl].
  destruct (negb (s_flags s0 =? s_flags s1)); [|destruct b]; unfold frame; cbn [fst snd]; bits; repeat split.
Qed.

Lemma opt_cto_frame tf tr : frame tf tr (opt_cto tf tr).
Proof.
  unfold opt_cto. destruct (_ && _ && _); [|apply frame_refl]. unfold frame. cbn [fst snd]. bits. repeat split.
Qed.

Lemma optimize_frame b tf tr tf' tr' : optimize_gen b tf tr = Ok (tf', tr') -> frame tf tr (tf', tr').
Proof.
  unfold optimize_gen. destruct (tr_samples tr) as [|s0 [|s1 l]] eqn:E; [discriminate| |].
  - intros [= <- <-]. apply frame_refl.
  - pose proof (opt_dur_frame tf tr) as K1. destruct (opt_dur tf tr) as [tf1 tr1].
    pose proof (opt_size_frame tf1 tr1) as K2. destruct (opt_size tf1 tr1) as [tf2 tr2].
    pose proof (opt_flags_frame b tf2 tr2) as K3. destruct (opt_flags_gen b tf2 tr2) as [tf3 tr3].
    pose proof (opt_cto_frame tf3 tr3) as K4.
    intros [= H]. rewrite H in K4.
    apply (frame_trans tf tr (tf3, tr3)); [|exact K4].
    apply (frame_trans tf tr (tf2, tr2)); [|exact K3].
    apply (frame_trans tf tr (tf1, tr1)); [exact K1|exact K2].
Qed.

(* ------------------------------------------------------------------ the decoder's guard (fix 6c7a902, C05-F7) *)
(* DecodeTrun / DecodeTrunSR accept the count: at most MAX_BARE samples, or some per-sample field present *)
Definition bare_ok (t : trun) : bool :=
  (N.of_nat (length (tr_samples t)) <=? MAX_BARE) || other_field t || has_cto t.

Lemma opt_dur_cto tf tr : has_cto (snd (opt_dur tf tr)) = has_cto tr.
Proof.
  unfold opt_dur. destruct (tr_samples tr); [reflexivity|]. destruct (has_dur tr && _); [|reflexivity]. cbn [snd]. bits. reflexivity.
Qed.

Lemma opt_size_cto tf tr : has_cto (snd (opt_size tf tr)) = has_cto tr.
Proof.
  unfold opt_size. destruct (tr_samples tr); [reflexivity|]. destruct (has_size tr && _); [|reflexivity]. cbn [snd]. bits. reflexivity.
Qed.

Lemma opt_flags_cto b tf tr : has_cto (snd (opt_flags_gen b tf tr)) = has_cto tr.
Proof.
  unfold opt_flags_gen. destruct (tr_samples tr) as [|s0 [|s1 l]]; try reflexivity.
  destruct (has_sflags tr && _); [|reflexivity].
  destruct (negb (s_flags s0 =? s_flags s1)); [|destruct b]; cbn [snd]; bits; reflexivity.
Qed.

(* the repaired fourth block never leaves a trun that had the composition-offset field bare *)
Lemma opt_cto_bare tf tr : has_cto tr = true -> bare_ok (snd (opt_cto tf tr)) = true.
Proof.
  intros Hc. unfold opt_cto. rewrite Hc. cbn [andb].
  destruct (forallb _ _); cbn [andb snd]; [|unfold bare_ok; rewrite Hc; apply orb_true_r].
  destruct (_ || _) eqn:E; cbn [snd]; [|unfold bare_ok; rewrite Hc; apply orb_true_r].
  unfold bare_ok. replace (other_field (tr_clear tr B_CTO)) with (other_field tr) by (unfold other_field; bits; reflexivity).
  change (tr_samples (tr_clear tr B_CTO)) with (tr_samples tr). rewrite E. reflexivity.
Qed.

(* OptimizeTfhdTrun on a trun that has the composition-offset field (every trun made by CreateTrun) *)
Lemma optimize_bare tf tr tf' tr' :
  has_cto tr = true -> bare_ok tr = true -> optimize tf tr = Ok (tf', tr') -> bare_ok tr' = true.
Proof.
  intros Hc Hb. unfold optimize, FIXED_FSF, optimize_gen. destruct (tr_samples tr) as [|s0 [|s1 l]] eqn:E; [discriminate| |].
  - intros [= <- <-]. exact Hb.
  - pose proof (opt_dur_cto tf tr) as C1. destruct (opt_dur tf tr) as [tf1 tr1]. cbn [snd] in C1.
    pose proof (opt_size_cto tf1 tr1) as C2. destruct (opt_size tf1 tr1) as [tf2 tr2]. cbn [snd] in C2.
    pose proof (opt_flags_cto true tf2 tr2) as C3. destruct (opt_flags_gen true tf2 tr2) as [tf3 tr3]. cbn [snd] in C3.
    intros [= H]. pose proof (opt_cto_bare tf3 tr3) as B. rewrite H in B. cbn [snd] in B. apply B. congruence.
Qed.

(* the text before the fix left such a trun bare *)
Lemma optimize_f7_bare_refuted : exists tf tr tf' tr',
  all_present tr = true /\ optimize_f7 tf tr = Ok (tf', tr') /\ bare_ok tr' = false.
Proof.
  exists (create_tfhd 1), (mkTrun 1 3841 0 0 (repeat (mkSample 16842752 10 1 0) 1025) 0).
  eexists; eexists. split; [vm_compute; reflexivity|]. split; [vm_compute; reflexivity|]. vm_compute. reflexivity.
Qed.
