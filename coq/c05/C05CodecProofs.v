(* C05CodecProofs.v — DecodeTrun(EncodeTrun t) is the wire view of t, DecodeTfhd(EncodeTfhd h) the wire view of h. *)
From V.lib Require Import Base.
From V.c05 Require Import C05Model C05FragModel C05CodecModel C05OptProofs.

Lemma u32_small' x : x < 4294967296 -> u32 x = x.
Proof. intros H. unfold u32. apply N.mod_small. exact H. Qed.

Lemma rd32_be32 x l : x < 4294967296 -> rd32 (be32 x ++ l) = Some (x, l).
Proof.
  intros H. unfold be32, rd32. cbn [app]. f_equal. f_equal. lia.
Qed.

Lemma rd64_be64 x l : x < 18446744073709551616 -> rd64 (be64 x ++ l) = Some (x, l).
Proof.
  intros H. unfold be64, rd64. rewrite <- app_assoc. rewrite rd32_be32 by lia. rewrite rd32_be32 by lia.
  f_equal. f_equal. lia.
Qed.

Lemma opt_rd_enc (b : bool) x l :
  x < 4294967296 -> opt_rd b ((if b then be32 x else []) ++ l) = Some ((if b then x else 0), l).
Proof. intros H. destruct b; cbn [opt_rd app]; [apply rd32_be32; exact H|reflexivity]. Qed.

Definition i32_ok (z : Z) : bool := ((-2147483648 <=? z) && (z <? 2147483648))%Z.

Lemma i32_bits_lt z : i32_bits z < 4294967296.
Proof. unfold i32_bits. pose proof (Z.mod_pos_bound z 4294967296 ltac:(lia)). lia. Qed.

Lemma bits_i32_bits z : i32_ok z = true -> bits_i32 (i32_bits z) = z.
Proof.
  unfold i32_ok, bits_i32, i32_bits. intros H. apply andb_true_iff in H. destruct H as [H1 H2].
  apply Z.leb_le in H1. apply Z.ltb_lt in H2.
  destruct (Z_lt_le_dec z 0) as [Hn|Hp].
  - replace (z mod 4294967296)%Z with (z + 4294967296)%Z by lia.
    destruct (Z.to_N (z + 4294967296) <? 2147483648) eqn:E; [apply N.ltb_lt in E; lia|]. lia.
  - rewrite Z.mod_small by lia.
    destruct (Z.to_N z <? 2147483648) eqn:E; [lia|apply N.ltb_ge in E; lia].
Qed.

Definition sample_wf (s : sample) : bool :=
  (s_flags s <? 4294967296) && (s_dur s <? 4294967296) && (s_size s <? 4294967296) && i32_ok (s_cto s).

Definition no_fields (t : trun) : bool :=
  negb (has_dur t) && negb (has_size t) && negb (has_sflags t) && negb (has_cto t).

(* the fields fit their wire widths *)
Definition trun_fields_wf (t : trun) : bool :=
  (tr_version t <? 256) && (tr_flags t <? 16777216) && (tr_fsf t <? 4294967296) && i32_ok (tr_doff t)
  && (lenN (tr_samples t) <? 4294967296) && forallb sample_wf (tr_samples t).

(* ... and DecodeTrun's guard on the count accepts it *)
Definition trun_wf (t : trun) : bool :=
  trun_fields_wf t && negb ((1024 <? lenN (tr_samples t)) && no_fields t).

(* the guard in the form the optimiser establishes (C05OptProofs.optimize_bare) *)
Lemma bare_ok_guard t : bare_ok t = true -> negb ((1024 <? lenN (tr_samples t)) && no_fields t) = true.
Proof.
  unfold bare_ok, other_field, no_fields, MAX_BARE, lenN. intros H.
  destruct (N.of_nat (length (tr_samples t)) <=? 1024) eqn:E.
  - apply N.leb_le in E. destruct (1024 <? N.of_nat (length (tr_samples t))) eqn:E2; [apply N.ltb_lt in E2; lia|reflexivity].
  - cbn [orb] in H. destruct (has_dur t), (has_size t), (has_sflags t), (has_cto t); cbn in H |- *;
      try discriminate; rewrite ?andb_false_r; reflexivity.
Qed.

Lemma trun_wf_of_bare t : trun_fields_wf t = true -> bare_ok t = true -> trun_wf t = true.
Proof. intros H1 H2. unfold trun_wf. rewrite H1, (bare_ok_guard t H2). reflexivity. Qed.

(* the samples DecodeTrun builds: wire_sample with `first` only for the head *)
Definition wire_list (t : trun) (first : bool) (ss : list sample) : list sample :=
  match ss with
  | [] => []
  | s :: r => wire_sample t first s :: map (wire_sample t false) r
  end.

Lemma wire_list_false t ss : wire_list t false ss = map (wire_sample t false) ss.
Proof. destruct ss; reflexivity. Qed.

Lemma dec_samples_enc t fsf' : (has_fsf t = true -> fsf' = tr_fsf t) -> forall ss first rest,
  forallb sample_wf ss = true ->
  dec_samples (tr_flags t) fsf' (length ss) first (flat_map (enc_sample t) ss ++ rest)
  = Some (wire_list t first ss, rest).
Proof.
  intros Hfsf. induction ss as [|s ss IH]; intros first rest Hwf; [reflexivity|].
  cbn [forallb] in Hwf. apply andb_true_iff in Hwf. destruct Hwf as [Hs Hss].
  unfold sample_wf in Hs. rewrite !andb_true_iff in Hs. destruct Hs as [[[Hf Hd] Hz] Hc].
  apply N.ltb_lt in Hf. apply N.ltb_lt in Hd. apply N.ltb_lt in Hz.
  cbn [length dec_samples flat_map]. unfold enc_sample. rewrite <- !app_assoc.
  fold (has_dur t). fold (has_size t). fold (has_sflags t). fold (has_cto t). fold (has_fsf t).
  rewrite opt_rd_enc by exact Hd. rewrite opt_rd_enc by exact Hz. rewrite opt_rd_enc by exact Hf.
  rewrite opt_rd_enc by apply i32_bits_lt.
  rewrite IH by exact Hss. rewrite wire_list_false. cbn [wire_list]. f_equal. f_equal. f_equal.
  unfold wire_sample. f_equal.
  - destruct (has_sflags t); [reflexivity|]. destruct (has_fsf t); [rewrite Hfsf; reflexivity|reflexivity].
  - destruct (has_cto t); [apply bits_i32_bits; exact Hc|reflexivity].
Qed.

Lemma map_first_wire_list t ss : map_first (wire_sample t) ss = wire_list t true ss.
Proof. destruct ss; reflexivity. Qed.

Lemma expected_size_trun t :
  expected_size (tr_flags t) (u32 (lenN (tr_samples t))) = trun_size t.
Proof. reflexivity. Qed.

Lemma dec_enc_trun t :
  trun_wf t = true -> dec_trun (trun_size t) (enc_trun_body t) = Ok (wire_trun t).
Proof.
  unfold trun_wf, trun_fields_wf. rewrite !andb_true_iff. intros [[[[[[Hv Hf] Hx] Hd] Hl] Hs] Hk].
  apply N.ltb_lt in Hv. apply N.ltb_lt in Hf. apply N.ltb_lt in Hx. apply N.ltb_lt in Hl.
  unfold dec_trun, enc_trun_body.
  assert (Hvf : u32 (tr_version t * 16777216 + tr_flags t) = tr_version t * 16777216 + tr_flags t)
    by (unfold u32; apply N.mod_small; lia).
  rewrite Hvf. rewrite rd32_be32 by lia. rewrite u32_small' by exact Hl. rewrite rd32_be32 by exact Hl.
  assert (Hver : (tr_version t * 16777216 + tr_flags t) / 16777216 = tr_version t) by lia.
  assert (Hfl : (tr_version t * 16777216 + tr_flags t) mod 16777216 = tr_flags t) by lia.
  rewrite Hver, Hfl.
  rewrite <- (u32_small' (lenN (tr_samples t))) at 1 by exact Hl. rewrite expected_size_trun, N.eqb_refl. cbn [negb].
  fold (has_dur t). fold (has_size t). fold (has_sflags t). fold (has_cto t). fold (has_doff t). fold (has_fsf t).
  assert (Hchk : (1024 <? lenN (tr_samples t)) && negb (has_dur t) && negb (has_size t) && negb (has_sflags t) && negb (has_cto t) = false).
  { apply negb_true_iff in Hk. unfold no_fields in Hk. rewrite <- Hk. rewrite !andb_assoc. reflexivity. }
  rewrite Hchk.
  rewrite opt_rd_enc by apply i32_bits_lt. rewrite opt_rd_enc by exact Hx.
  unfold lenN. rewrite Nat2N.id. rewrite <- (app_nil_r (flat_map _ _)).
  rewrite (dec_samples_enc t) by (try exact Hs; intros Hh; rewrite Hh; reflexivity).
  unfold wire_trun. rewrite map_first_wire_list. f_equal. f_equal.
  destruct (has_doff t); [apply bits_i32_bits; exact Hd|reflexivity].
Qed.

Definition tfhd_wf (h : tfhd) : bool :=
  (tf_flags h <? 16777216) && (tf_track h <? 4294967296) && (tf_bdo h <? 18446744073709551616)
  && (tf_sdi h <? 4294967296) && (tf_ddur h <? 4294967296) && (tf_dsize h <? 4294967296)
  && (tf_dflags h <? 4294967296).

Lemma dec_enc_tfhd h : tfhd_wf h = true -> dec_tfhd (enc_tfhd_body h) = Ok (wire_tfhd h).
Proof.
  unfold tfhd_wf. rewrite !andb_true_iff. intros [[[[[[Hf Ht] Hb] Hs] Hd] Hz] Hg].
  apply N.ltb_lt in Hf. apply N.ltb_lt in Ht. apply N.ltb_lt in Hb. apply N.ltb_lt in Hs.
  apply N.ltb_lt in Hd. apply N.ltb_lt in Hz. apply N.ltb_lt in Hg.
  unfold dec_tfhd, enc_tfhd_body. rewrite u32_small' by lia. rewrite rd32_be32 by lia.
  rewrite N.mod_small by exact Hf. rewrite rd32_be32 by exact Ht.
  fold (tf_has_bdo h). fold (tf_has_sdi h). fold (tf_has_ddur h). fold (tf_has_dsize h). fold (tf_has_dflags h).
  assert (Hbdo : (if tf_has_bdo h then rd64 ((if tf_has_bdo h then be64 (tf_bdo h) else []) ++
            (if tf_has_sdi h then be32 (tf_sdi h) else []) ++ (if tf_has_ddur h then be32 (tf_ddur h) else []) ++
            (if tf_has_dsize h then be32 (tf_dsize h) else []) ++ (if tf_has_dflags h then be32 (tf_dflags h) else []))
          else Some (0, (if tf_has_bdo h then be64 (tf_bdo h) else []) ++
            (if tf_has_sdi h then be32 (tf_sdi h) else []) ++ (if tf_has_ddur h then be32 (tf_ddur h) else []) ++
            (if tf_has_dsize h then be32 (tf_dsize h) else []) ++ (if tf_has_dflags h then be32 (tf_dflags h) else [])))
          = Some ((if tf_has_bdo h then tf_bdo h else 0),
            (if tf_has_sdi h then be32 (tf_sdi h) else []) ++ (if tf_has_ddur h then be32 (tf_ddur h) else []) ++
            (if tf_has_dsize h then be32 (tf_dsize h) else []) ++ (if tf_has_dflags h then be32 (tf_dflags h) else []))).
  { destruct (tf_has_bdo h); [apply rd64_be64; exact Hb|reflexivity]. }
  rewrite Hbdo.
  rewrite opt_rd_enc by exact Hs. rewrite opt_rd_enc by exact Hd. rewrite opt_rd_enc by exact Hz.
  rewrite <- (app_nil_r (if tf_has_dflags h then be32 (tf_dflags h) else [])).
  rewrite opt_rd_enc by exact Hg. reflexivity.
Qed.
