(* C05Theorems.v — the property theorems of C05 and nothing else.  Each is closed by `exact <lemma>`
   and followed by Print Assumptions (audited by ./check on every run). *)
From V.lib Require Import Base.
From V.c05 Require Import C05Model C05OptProofs.

(* OptimizeTfhdTrun, then encode/decode of the trun (structure level: wire_trun), then
   AddSampleDefaultValues with ANY trex (or none) gives back exactly the samples of the trun, for all
   sample field values, all tfhd contents and every trun flag word having the four per-sample fields
   present (every trun made by CreateTrun). *)
Theorem C05_optimize_resolve : forall tf tr tx,
  (1 <= length (tr_samples tr))%nat -> all_present tr = true ->
  exists tf' tr', optimize tf tr = Ok (tf', tr') /\ resolve tf' tx (wire_trun tr') = tr_samples tr.
Proof. exact optimize_resolve. Qed.
Print Assumptions C05_optimize_resolve.

(* general form, for EVERY flag word (also truns that already rely on defaults): optimisation never
   changes what the decode side resolves for the optimised trun *)
Theorem C05_optimize_preserves_resolve : forall tf tr tx tf' tr',
  optimize tf tr = Ok (tf', tr') -> resolve tf' tx (wire_trun tr') = resolve tf tx (wire_trun tr).
Proof. exact optimize_preserves_resolve. Qed.
Print Assumptions C05_optimize_preserves_resolve.

(* the pinned text (before fix 8cfc4f9 in /repo) violated C05_optimize_resolve: stale first-sample-flags *)
Theorem C05_optimize_pinned_refuted : exists tf tr tx tf' tr',
  all_present tr = true /\ optimize_pinned tf tr = Ok (tf', tr') /\
  resolve tf' tx (wire_trun tr') <> tr_samples tr.
Proof. exact optimize_pinned_refuted. Qed.
Print Assumptions C05_optimize_pinned_refuted.

(* the hypotheses are satisfiable by a non-trivial value: three samples, first flags differ, cto all zero *)
Example C05_optimize_resolve_ex :
  let tr := mkTrun 1 3841 0 0 [mkSample 33554432 10 7 0; mkSample 16842752 10 5 0; mkSample 16842752 10 5 0] 0 in
  all_present tr = true /\ (1 <= length (tr_samples tr))%nat /\
  optimize (create_tfhd 1) tr =
    Ok (mkTfhd 131112 1 0 1 10 0 16842752,
        mkTrun 1 517 0 33554432 (tr_samples tr) 0).
Proof. vm_compute. repeat split; try reflexivity. lia. Qed.
