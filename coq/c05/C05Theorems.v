(* C05Theorems.v — the property theorems of C05 and nothing else.  Each is closed by `exact <lemma>`
   and followed by Print Assumptions (audited by ./check on every run). *)
From V.lib Require Import Base.
From V.c05 Require Import C05Model C05FragModel C05OptProofs C05HistProofs C05LazyProofs.

(* OptimizeTfhdTrun, then encode/decode of the trun (structure level: wire_trun), then
   AddSampleDefaultValues with ANY trex (or none) gives back exactly the samples of the trun, for all
   sample field values, all tfhd contents and every trun flag word having the four per-sample fields
   present (every trun made by CreateTrun). *)
Theorem C05_optimize_resolve : forall tf tr tx,
  (1 <= length (tr_samples tr))%nat -> all_present tr = true ->
  exists tf' tr', optimize tf tr = Ok (tf', tr') /\ resolve tf' tx (wire_trun tr') = tr_samples tr.
Proof. exact optimize_resolve. Qed.
Print Assumptions C05_optimize_resolve.

(* general form, for EVERY flag word (also truns that already rely on defaults): optimisation never
   changes what the decode side resolves for the optimised trun *)
Theorem C05_optimize_preserves_resolve : forall tf tr tx tf' tr',
  optimize tf tr = Ok (tf', tr') -> resolve tf' tx (wire_trun tr') = resolve tf tx (wire_trun tr).
Proof. exact optimize_preserves_resolve. Qed.
Print Assumptions C05_optimize_preserves_resolve.

(* the pinned text (before fix 8cfc4f9 in /repo) violated C05_optimize_resolve: stale first-sample-flags *)
Theorem C05_optimize_pinned_refuted : exists tf tr tx tf' tr',
  all_present tr = true /\ optimize_pinned tf tr = Ok (tf', tr') /\
  resolve tf' tx (wire_trun tr') <> tr_samples tr.
Proof. exact optimize_pinned_refuted. Qed.
Print Assumptions C05_optimize_pinned_refuted.

(* ---------------------------------------------------------------- histories (fold over the op list) *)
(* CreateFragment(seq,T) followed by ANY sequence of the six add operations (those addressing another track id
   return an error and change nothing; a history ends at a panic, which is excluded by `Some fr`): the fragment
   still has its single traf and single trun with write-order number 0, and the trun holds exactly the samples
   of the accepted operations, in order. *)
Theorem C05_history_inv_single : forall T ops cs fr,
  run_ops (create_fragment T) ops = (cs, Some fr) ->
  fr_next fr = 1 /\
  exists dt ex, fr_trafs fr = [mkTraf (create_tfhd T) dt [canon 0 (added1 T ops)] ex].
Proof. exact history_inv_single. Qed.
Print Assumptions C05_history_inv_single.

(* CreateMultiTrackFragment(seq,tracks) with pairwise different ids followed by any sequence of
   AddFullSampleToTrack /\
 AddSampleToTrack (fewer than 2^32): there is a list rr of runs (maximal groups of
   consecutive additions to one track, latest first) such that nextTrunNr = number of runs, every traf holds
   exactly one trun per run of its track (mk_truns: write-order number = index of the run, samples = the
   run's samples), and the concatenation of a traf's truns is the list of samples added to its track in order
   (additions to unknown ids are errors and add nothing). *)
Theorem C05_history_inv : forall tracks ops cs fr,
  NoDup tracks -> N.of_nat (length ops) < 4294967296 -> forallb to_track_op ops = true ->
  run_ops (create_multi tracks) ops = (cs, Some fr) ->
  exists rr : runs,
    fr_next fr = lenN rr /\
    map track_of (fr_trafs fr) = tracks /\
    (forall t, In t (fr_trafs fr) ->
       tf_truns t = mk_truns (track_of t) rr /\
       flat_map tr_samples (tf_truns t) = added_multi tracks (track_of t) ops).
Proof. exact history_inv_multi. Qed.
Print Assumptions C05_history_inv.

(* on ANY fragment, a history of AddFullSample /\
 AddFullSampleToTrack leaves in mdat the concatenation of the
   data of the accepted operations in op order (no data parts appear, the lazy size stays 0) *)
Theorem C05_history_mdat : forall ops fr cs fr',
  forallb is_full ops = true -> run_ops fr ops = (cs, Some fr') ->
  md_data (fr_mdat fr') = md_data (fr_mdat fr) ++ flat_map op_data (accepted cs ops) /\
  md_parts (fr_mdat fr') = md_parts (fr_mdat fr) /\
  (md_lazy (fr_mdat fr) = 0 -> md_lazy (fr_mdat fr') = 0).
Proof. exact history_full_mdat. Qed.
Print Assumptions C05_history_mdat.

(* C05_offsets, full statement (NOT proved; explored by the data-offset oracle of the search and by the model
   correspondence on every data offset): after set_offsets, the trun with write-order number k has data offset
   moof_size + mdat header + total size of the runs 0..k-1, provided that value is below 2^31 (int32 cast;
   beyond it the real code wraps silently: known finding C05-F5).
   Proved part: single-track fragments (one run): the data offset is moof size + the header size of the mdat
   as it will be written (16 for payloads above 4 GiB, fix a7c3604), under the int32 guard. *)
Theorem C05_offsets_partial : forall T ops cs fr,
  run_ops (create_fragment T) ops = (cs, Some fr) ->
  let m := md_size_touch (fr_mdat fr) in
  moof_size fr + md_header_size m < 2147483648 ->
  exists dt ex,
    set_offsets fr =
      fr_with fr [mkTraf (create_tfhd T) dt
                    [tr_with_doff (canon 0 (added1 T ops)) (Z.of_N (moof_size fr + md_header_size m))] ex]
              m (fr_next fr).
Proof. exact offsets_single. Qed.
Print Assumptions C05_offsets_partial.

(* C05_lazy_equiv, full statement (byte level, NOT proved): encode (run_lazy h) ++ concat (data h) = encode (run_full h).
   Proved part (structure level): replacing every AddFullSample / AddFullSampleToTrack of a history by AddSample /
   AddSampleToTrack (data written separately by the caller) gives the same outcome classes, the same trafs (so
   the same truns, flags, write-order numbers, tfdt) and the same moof size; the mdat data stays untouched and
   the lazy size is the (uint64) sum of the accepted samples' sizes.  What remains for the byte level is the
   equality of the mdat header (payload = that sum when Sample.Size = len(Data)) and the box codecs. *)
Theorem C05_lazy_equiv_partial : forall ops a b cs a',
  forallb is_full ops = true -> same_meta a b ->
  run_ops a ops = (cs, Some a') ->
  exists b', run_ops b (map to_lazy ops) = (cs, Some b') /\
             fr_trafs a' = fr_trafs b' /\ fr_next a' = fr_next b' /\ moof_size a' = moof_size b' /\
             md_data (fr_mdat b') = md_data (fr_mdat b) /\
             md_lazy (fr_mdat b') =
               fold_left (fun acc o => u64 (acc + s_size (op_first_sample o))) (accepted cs ops) (md_lazy (fr_mdat b)).
Proof. exact lazy_equiv. Qed.
Print Assumptions C05_lazy_equiv_partial.

(* the hypotheses are satisfiable by a non-trivial value: three samples, first flags differ, cto all zero *)
Example C05_optimize_resolve_ex :
  let tr := mkTrun 1 3841 0 0 [mkSample 33554432 10 7 0; mkSample 16842752 10 5 0; mkSample 16842752 10 5 0] 0 in
  all_present tr = true /\ (1 <= length (tr_samples tr))%nat /\
  optimize (create_tfhd 1) tr =
    Ok (mkTfhd 131112 1 0 1 10 0 16842752,
        mkTrun 1 517 0 33554432 (tr_samples tr) 0).
Proof. vm_compute. repeat split; try reflexivity. lia. Qed.

(* a non-trivial history satisfying the hypotheses of C05_history_inv: three tracks, alternating runs, one unknown id *)
Example C05_history_inv_ex :
  let s k := mkSample 16842752 10 k 0 in
  let ops := [OFullTo 2 (s 1) 0 [1]; OFullTo 2 (s 2) 10 [2;3]; OFullTo 1 (s 1) 0 [4]; OMetaTo 9 (s 1) 0;
              OFullTo 2 (s 1) 20 [5]; OFullTo 3 (s 0) 0 []] in
  NoDup [1; 2; 3] /\ forallb to_track_op ops = true /\
  exists fr, run_ops (create_multi [1; 2; 3]) ops = ([COk; COk; COk; CErr; COk; COk], Some fr) /\
             fr_next fr = 4 /\
             map (fun t => map tr_won (tf_truns t)) (fr_trafs fr) = [[1]; [0; 2]; [3]].
Proof.
  split; [repeat constructor; cbn; intuition congruence|]. split; [reflexivity|].
  eexists. split; [vm_compute; reflexivity|]. split; reflexivity.
Qed.
