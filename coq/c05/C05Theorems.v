(* C05Theorems.v — the property theorems of C05 and nothing else.  Each is closed by `exact <lemma>`
   and followed by Print Assumptions (audited by ./check on every run). *)
From V.lib Require Import Base.
From V.c05 Require Import C05Model C05FragModel C05OptProofs C05HistProofs C05LazyProofs
  C05OffProofs C05GhostProofs C05ReadProofs C05RoundProofs C05CodecModel C05CodecProofs C05LazyRoundProofs C05SingleProofs.

(* OptimizeTfhdTrun, then encode/decode of the trun (structure level: wire_trun), then
   AddSampleDefaultValues with ANY trex (or none) gives back exactly the samples of the trun, for all
   sample field values, all tfhd contents and every trun flag word having the four per-sample fields
   present (every trun made by CreateTrun). *)
Theorem C05_optimize_resolve : forall tf tr tx,
  (1 <= length (tr_samples tr))%nat -> all_present tr = true ->
  exists tf' tr', optimize tf tr = Ok (tf', tr') /\ resolve tf' tx (wire_trun tr') = tr_samples tr.
Proof. exact optimize_resolve. Qed.
Print Assumptions C05_optimize_resolve.

(* general form, for EVERY flag word (also truns that already rely on defaults): optimisation never
   changes what the decode side resolves for the optimised trun *)
Theorem C05_optimize_preserves_resolve : forall tf tr tx tf' tr',
  optimize tf tr = Ok (tf', tr') -> resolve tf' tx (wire_trun tr') = resolve tf tx (wire_trun tr).
Proof. exact optimize_preserves_resolve. Qed.
Print Assumptions C05_optimize_preserves_resolve.

(* the pinned text (before fix 8cfc4f9 in /repo) violated C05_optimize_resolve: stale first-sample-flags *)
Theorem C05_optimize_pinned_refuted : exists tf tr tx tf' tr',
  all_present tr = true /\ optimize_pinned tf tr = Ok (tf', tr') /\
  resolve tf' tx (wire_trun tr') <> tr_samples tr.
Proof. exact optimize_pinned_refuted. Qed.
Print Assumptions C05_optimize_pinned_refuted.

(* ---------------------------------------------------------------- box codecs (byte level) *)
(* DecodeTrun / DecodeTrunSR applied to the bytes written by TrunBox.Encode give the wire view used by the
   theorems above and below (absent fields 0, first-sample-flags given to sample 1, write order not stored),
   for every trun whose fields fit their wire widths *)
Theorem C05_trun_codec : forall t,
  trun_wf t = true -> dec_trun (trun_size t) (enc_trun_body t) = Ok (wire_trun t).
Proof. exact dec_enc_trun. Qed.
Print Assumptions C05_trun_codec.

Theorem C05_tfhd_codec : forall h,
  tfhd_wf h = true -> dec_tfhd (enc_tfhd_body h) = Ok (wire_tfhd h).
Proof. exact dec_enc_tfhd. Qed.
Print Assumptions C05_tfhd_codec.

(* ---------------------------------------------------------------- histories (fold over the op list) *)
(* CreateFragment(seq,T) followed by ANY sequence of the six add operations (those addressing another track id
   return an error and change nothing; a history ends at a panic, which is excluded by `Some fr`): the fragment
   still has its single traf and single trun with write-order number 0, and the trun holds exactly the samples
   of the accepted operations, in order. *)
Theorem C05_history_inv_single : forall T ops cs fr,
  run_ops (create_fragment T) ops = (cs, Some fr) ->
  fr_next fr = 1 /\
  exists dt ex, fr_trafs fr = [mkTraf (create_tfhd T) dt [canon 0 (added1 T ops)] ex].
Proof. exact history_inv_single. Qed.
Print Assumptions C05_history_inv_single.

(* CreateMultiTrackFragment(seq,tracks) with pairwise different ids followed by any sequence of
   AddFullSampleToTrack /\
 AddSampleToTrack (fewer than 2^32): there is a list rr of runs (maximal groups of
   consecutive additions to one track, latest first) such that nextTrunNr = number of runs, every traf holds
   exactly one trun per run of its track (mk_truns: write-order number = index of the run, samples = the
   run's samples), and the concatenation of a traf's truns is the list of samples added to its track in order
   (additions to unknown ids are errors and add nothing). *)
Theorem C05_history_inv : forall tracks ops cs fr,
  NoDup tracks -> N.of_nat (length ops) < 4294967296 -> forallb to_track_op ops = true ->
  run_ops (create_multi tracks) ops = (cs, Some fr) ->
  exists rr : runs,
    fr_next fr = lenN rr /\
    map track_of (fr_trafs fr) = tracks /\
    (forall t, In t (fr_trafs fr) ->
       tf_truns t = mk_truns (track_of t) rr /\
       flat_map tr_samples (tf_truns t) = added_multi tracks (track_of t) ops).
Proof. exact history_inv_multi. Qed.
Print Assumptions C05_history_inv.

(* on ANY fragment, a history of AddFullSample /\
 AddFullSampleToTrack leaves in mdat the concatenation of the
   data of the accepted operations in op order (no data parts appear, the lazy size stays 0) *)
Theorem C05_history_mdat : forall ops fr cs fr',
  forallb is_full ops = true -> run_ops fr ops = (cs, Some fr') ->
  md_data (fr_mdat fr') = md_data (fr_mdat fr) ++ flat_map op_data (accepted cs ops) /\
  md_parts (fr_mdat fr') = md_parts (fr_mdat fr) /\
  (md_lazy (fr_mdat fr) = 0 -> md_lazy (fr_mdat fr') = 0).
Proof. exact history_full_mdat. Qed.
Print Assumptions C05_history_mdat.

(* C05_offsets + tfdt: multi-track fragments under any history of AddFullSampleToTrack with Sample.Size = len(Data).
   With g the ghost runs of the history (ghost), after SetTrunDataOffsets every trun has data offset
   moof size + written mdat header + total data size of the runs written before it (run_pos), under the stated
   int32 guard (beyond it the real code wraps silently: known finding C05-F5); mdat holds the data in op order;
   each traf holds one trun per run of its track (canon_of: write-order number = run index), the data of the run
   with index k lies at byte run_pos k of the mdat payload (placed), and tfdt is the decode time of the first
   sample added to the track. *)
Theorem C05_offsets : forall tracks pre mx post exs ops cs fr,
  NoDup tracks -> N.of_nat (length ops) < 4294967296 -> forallb is_full_to ops = true ->
  Forall (fun o => sized_f (op_full o)) ops ->
  run_ops (with_extras (create_multi tracks) pre mx post exs) ops = (cs, Some fr) ->
  let g := ghost tracks [] ops in
  let rr := runs_of g in
  let m := md_size_touch (fr_mdat fr) in
  let base := moof_size fr + md_header_size m in
  base + lenN (md_data (fr_mdat fr)) < 2147483648 ->
  set_offsets fr = fr_with fr (with_offsets fr (fun r => Z.of_N (base + run_pos rr (tr_won r)))) m (fr_next fr) /\
  md_data (fr_mdat fr) = all_data g /\
  forall t, In t (fr_trafs fr) ->
    tf_truns t = map canon_of (specs_of (track_of t) g) /\
    Forall (placed (md_data (fr_mdat fr)) rr) (specs_of (track_of t) g) /\
    tf_dt t = tfdt_of (added_fulls tracks (track_of t) ops).
Proof. exact offsets_multi_final. Qed.
Print Assumptions C05_offsets.

(* C05_roundtrip (structure level: box codecs replaced by the wire view of truns, proved for tfhd/trun only as
   far as C05_optimize_resolve goes; mfhd/tfdt/mdat/extra boxes are positions and sizes).  For every multi-track
   fragment (pairwise different ids, including tracks that receive nothing), every history of AddFullSampleToTrack
   (also to unknown ids, which are refused) with Sample.Size = len(Data), optimisation on or off, any sizes of
   extra boxes before moof / in moof / in trafs / after mdat (with_extras), any absolute position pos0 and ANY trex: if
   Fragment.Encode succeeds then Fragment.GetFullSamples(trex) on the decoded fragment returns exactly the full
   samples added to trex's track, in order, with their bytes, sizes, durations, flags, composition offsets and
   decode times, provided the added decode times are consistent with the durations and the fragment stays below
   2 GiB (int32 data offsets). *)
Theorem C05_roundtrip : forall tracks pre mx post exs ops cs fr opt fe pos0 tx,
  NoDup tracks -> N.of_nat (length ops) < 4294967296 -> forallb is_full_to ops = true ->
  Forall (fun o => sized_f (op_full o)) ops ->
  run_ops (with_extras (create_multi tracks) pre mx post exs) ops = (cs, Some fr) ->
  encode_frag opt fr = Ok fe ->
  moof_size fe + md_header_size (fr_mdat fe) + lenN (md_data (fr_mdat fr)) < 2147483648 ->
  pos0 + fr_pre fe < 4611686018427387904 ->
  consistent (added_fulls tracks (tx_track tx) ops) ->
  get_full_samples (decoded_view fe pos0 []) (Some tx) = Ok (added_fulls tracks (tx_track tx) ops).
Proof. exact roundtrip_multi_final. Qed.
Print Assumptions C05_roundtrip.

(* trex == nil: GetFullSamples reads the first traf *)
Theorem C05_roundtrip_nil : forall T0 rest pre mx post exs ops cs fr opt fe pos0,
  let tracks := T0 :: rest in
  NoDup tracks -> N.of_nat (length ops) < 4294967296 -> forallb is_full_to ops = true ->
  Forall (fun o => sized_f (op_full o)) ops ->
  run_ops (with_extras (create_multi tracks) pre mx post exs) ops = (cs, Some fr) ->
  encode_frag opt fr = Ok fe ->
  moof_size fe + md_header_size (fr_mdat fe) + lenN (md_data (fr_mdat fr)) < 2147483648 ->
  pos0 + fr_pre fe < 4611686018427387904 ->
  consistent (added_fulls tracks T0 ops) ->
  get_full_samples (decoded_view fe pos0 []) None = Ok (added_fulls tracks T0 ops).
Proof. exact roundtrip_multi_nil_final. Qed.
Print Assumptions C05_roundtrip_nil.

(* metadata-only additions: the history uses AddSampleToTrack (to_lazy) and the caller writes the data of the
   accepted operations, in op order, right after the encoded fragment: the decoded fragment reads back the same
   full samples (Fragment.Encode depends on the mdat only through its header size: encode_frag_meta) *)
Theorem C05_roundtrip_lazy : forall tracks pre mx post exs ops cs b' opt fb pos0 tx,
  NoDup tracks -> N.of_nat (length ops) < 4294967296 -> forallb is_full_to ops = true ->
  Forall (fun o => sized_f (op_full o)) ops ->
  run_ops (with_extras (create_multi tracks) pre mx post exs) (map to_lazy ops) = (cs, Some b') ->
  encode_frag opt b' = Ok fb ->
  let data := flat_map op_data (accepted cs ops) in
  moof_size fb + md_header_size (fr_mdat fb) + lenN data < 2147483648 ->
  pos0 + fr_pre fb < 4611686018427387904 ->
  consistent (added_fulls tracks (tx_track tx) ops) ->
  get_full_samples (decoded_view fb pos0 data) (Some tx) = Ok (added_fulls tracks (tx_track tx) ops).
Proof. exact roundtrip_lazy. Qed.
Print Assumptions C05_roundtrip_lazy.

(* the same for single-track fragments: CreateFragment(seq,T) + extra boxes, any history of AddFullSample /
   AddFullSampleToTrack (other ids are refused) that adds at least one sample; a trex of another track gets nil *)
Theorem C05_roundtrip_single : forall T ops cs fr opt fe pos0 tx pre mx post exs,
  N.of_nat (length ops) < 4294967296 -> forallb is_full ops = true ->
  Forall (fun o => sized_f (op_full o)) ops ->
  run_ops (with_extras (create_fragment T) pre mx post exs) ops = (cs, Some fr) ->
  encode_frag opt fr = Ok fe ->
  added1_fulls T ops <> [] ->
  moof_size fe + md_header_size (fr_mdat fe) + lenN (md_data (fr_mdat fr)) < 2147483648 ->
  pos0 + fr_pre fe < 4611686018427387904 ->
  consistent (added1_fulls T ops) ->
  get_full_samples (decoded_view fe pos0 []) (Some tx) =
    Ok (if tx_track tx =? T then added1_fulls T ops else []).
Proof. exact roundtrip_single. Qed.
Print Assumptions C05_roundtrip_single.

(* single-track fragments: the data offset of the only run (all six operations) *)
Theorem C05_offsets_partial : forall T ops cs fr,
  run_ops (create_fragment T) ops = (cs, Some fr) ->
  let m := md_size_touch (fr_mdat fr) in
  moof_size fr + md_header_size m < 2147483648 ->
  exists dt ex,
    set_offsets fr =
      fr_with fr [mkTraf (create_tfhd T) dt
                    [tr_with_doff (canon 0 (added1 T ops)) (Z.of_N (moof_size fr + md_header_size m))] ex]
              m (fr_next fr).
Proof. exact offsets_single. Qed.
Print Assumptions C05_offsets_partial.

(* single-track fragments under ALL six operations (AddFullSample, AddFullSampleToTrack, AddSampleToTrack,
   AddSample, AddSamples, AddSampleInterval), one data mode per fragment (mode_ok: full samples / metadata only
   with the data lz written by the caller after the fragment / sample intervals as data parts): for every
   assignment FL of data pieces to the accepted samples with Sample.Size = len(piece) whose concatenation is the
   data that was added (resp. written by the caller), the decoded fragment reads back exactly these samples and
   pieces, with decode times = tfdt + accumulated durations, where tfdt is the fragment's
   SetBaseMediaDecodeTime value t (for full samples C05_roundtrip_single shows it is the first decode time). *)
Theorem C05_roundtrip_single_modes : forall T ops cs fr opt fe pos0 tx pre mx post exs FL lz,
  Forall (fun o => op_dts o < 18446744073709551616) ops ->
  run_ops (with_extras (create_fragment T) pre mx post exs) ops = (cs, Some fr) ->
  mode_ok ops cs FL lz ->
  map fs_s FL = added1 T ops -> Forall sized_f FL -> FL <> [] ->
  encode_frag opt fr = Ok fe ->
  moof_size fe + md_header_size (fr_mdat fe) + lenN (flat_map fs_data FL) < 2147483648 ->
  pos0 + fr_pre fe < 4611686018427387904 ->
  exists t ex,
    fr_trafs fr = [mkTraf (create_tfhd T) (set_base t) [canon 0 (added1 T ops)] ex] /\
    get_full_samples (decoded_view fe pos0 lz) (Some tx) = Ok (if tx_track tx =? T then retime t FL else []).
Proof. exact roundtrip_single_modes. Qed.
Print Assumptions C05_roundtrip_single_modes.

(* C05_lazy_equiv, full statement (byte level, NOT proved): encode (run_lazy h) ++ concat (data h) = encode (run_full h).
   Proved part (structure level): replacing every AddFullSample / AddFullSampleToTrack of a history by AddSample /
   AddSampleToTrack (data written separately by the caller) gives the same outcome classes, the same trafs (so
   the same truns, flags, write-order numbers, tfdt) and the same moof size; the mdat data stays untouched and
   the lazy size is the (uint64) sum of the accepted samples' sizes.  What remains for the byte level is the
   equality of the mdat header (payload = that sum when Sample.Size = len(Data)) and the box codecs. *)
Theorem C05_lazy_equiv_partial : forall ops a b cs a',
  forallb is_full ops = true -> same_meta a b ->
  run_ops a ops = (cs, Some a') ->
  exists b', run_ops b (map to_lazy ops) = (cs, Some b') /\
             fr_trafs a' = fr_trafs b' /\ fr_next a' = fr_next b' /\ moof_size a' = moof_size b' /\
             md_data (fr_mdat b') = md_data (fr_mdat b) /\
             md_lazy (fr_mdat b') =
               fold_left (fun acc o => u64 (acc + s_size (op_first_sample o))) (accepted cs ops) (md_lazy (fr_mdat b)).
Proof. exact lazy_equiv. Qed.
Print Assumptions C05_lazy_equiv_partial.

(* the hypotheses are satisfiable by a non-trivial value: three samples, first flags differ, cto all zero *)
Example C05_optimize_resolve_ex :
  let tr := mkTrun 1 3841 0 0 [mkSample 33554432 10 7 0; mkSample 16842752 10 5 0; mkSample 16842752 10 5 0] 0 in
  all_present tr = true /\ (1 <= length (tr_samples tr))%nat /\
  optimize (create_tfhd 1) tr =
    Ok (mkTfhd 131112 1 0 1 10 0 16842752,
        mkTrun 1 517 0 33554432 (tr_samples tr) 0).
Proof. vm_compute. repeat split; try reflexivity. lia. Qed.

(* a non-trivial history satisfying the hypotheses of C05_history_inv: three tracks, alternating runs, one unknown id *)
Example C05_history_inv_ex :
  let s k := mkSample 16842752 10 k 0 in
  let ops := [OFullTo 2 (s 1) 0 [1]; OFullTo 2 (s 2) 10 [2;3]; OFullTo 1 (s 1) 0 [4]; OMetaTo 9 (s 1) 0;
              OFullTo 2 (s 1) 20 [5]; OFullTo 3 (s 0) 0 []] in
  NoDup [1; 2; 3] /\ forallb to_track_op ops = true /\
  exists fr, run_ops (create_multi [1; 2; 3]) ops = ([COk; COk; COk; CErr; COk; COk], Some fr) /\
             fr_next fr = 4 /\
             map (fun t => map tr_won (tf_truns t)) (fr_trafs fr) = [[1]; [0; 2]; [3]].
Proof.
  split; [repeat constructor; cbn; intuition congruence|]. split; [reflexivity|].
  eexists. split; [vm_compute; reflexivity|]. split; reflexivity.
Qed.

(* the hypotheses of C05_roundtrip are satisfiable by a non-trivial history: three tracks, alternating runs, an
   unknown id, optimisation on, an adversarial trex; the conclusion is also checked by computation *)
Example C05_roundtrip_ex :
  let s k := mkSample 16842752 10 k 0 in
  let ops := [OFullTo 2 (s 1) 100 [1]; OFullTo 2 (s 2) 110 [2;3]; OFullTo 1 (s 1) 0 [4]; OFullTo 9 (s 1) 0 [9];
              OFullTo 2 (s 1) 120 [5]; OFullTo 3 (s 0) 7 []] in
  let tx := mkTrex 2 7 9 65536 in
  NoDup [1; 2; 3] /\ forallb is_full_to ops = true /\ Forall (fun o => sized_f (op_full o)) ops /\
  consistent (added_fulls [1; 2; 3] (tx_track tx) ops) /\
  exists fr fe, run_ops (with_extras (create_multi [1; 2; 3]) 77 9 12 [0; 26]) ops
                  = ([COk; COk; COk; CErr; COk; COk], Some fr) /\
                encode_frag true fr = Ok fe /\
                get_full_samples (decoded_view fe 1000 []) (Some tx)
                  = Ok [mkFull (s 1) 100 [1]; mkFull (s 2) 110 [2;3]; mkFull (s 1) 120 [5]].
Proof.
  split; [repeat constructor; cbn; intuition congruence|]. split; [reflexivity|].
  split; [repeat constructor|]. split; [split; [cbn; lia|reflexivity]|].
  eexists; eexists. split; [vm_compute; reflexivity|]. split; [vm_compute; reflexivity|]. vm_compute. reflexivity.
Qed.

Example C05_trun_codec_ex :
  let t := mkTrun 1 2565 124 33554432 [mkSample 7 10 3 (-5); mkSample 7 20 4 2147483647] 3 in
  trun_wf t = true /\ tfhd_wf (mkTfhd 131128 2 0 1 10 0 16842752) = true /\
  dec_trun (trun_size t) (enc_trun_body t)
    = Ok (mkTrun 1 2565 124 33554432 [mkSample 33554432 0 3 (-5); mkSample 0 0 4 2147483647] 0).
Proof. vm_compute. repeat split. Qed.

(* hypotheses of C05_roundtrip_single_modes in the metadata-only mode: AddSamples of two samples then AddSample,
   the caller writes 6 bytes; and in the interval mode *)
Example C05_roundtrip_single_modes_ex :
  let s k := mkSample 16842752 10 k 0 in
  let ops := [OMetas [s 2; s 1] 500; OMetaTo 9 (s 1) 0; OMeta (s 3) 520] in
  let FL := [mkFull (s 2) 0 [1;2]; mkFull (s 1) 0 [3]; mkFull (s 3) 0 [4;5;6]] in
  exists fr fe, run_ops (with_extras (create_fragment 4) 20 0 8 [5]) ops = ([COk; CErr; COk], Some fr) /\
    mode_ok ops [COk; CErr; COk] FL [1;2;3;4;5;6] /\ map fs_s FL = added1 4 ops /\ Forall sized_f FL /\
    encode_frag true fr = Ok fe /\
    get_full_samples (decoded_view fe 300 [1;2;3;4;5;6]) (Some (mkTrex 4 0 0 0))
      = Ok [mkFull (s 2) 500 [1;2]; mkFull (s 1) 510 [3]; mkFull (s 3) 520 [4;5;6]].
Proof.
  eexists; eexists. split; [vm_compute; reflexivity|]. split; [right; left; split; reflexivity|].
  split; [reflexivity|]. split; [repeat constructor|]. split; [vm_compute; reflexivity|]. vm_compute. reflexivity.
Qed.
