(* C05Model.v — executable Gallina model of fragment building in mp4ff (pinned tree + fix commits):
   mp4/sample.go, trun.go, tfhd.go, tfdt.go, traf.go (OptimizeTfhdTrun), trex.go, mdat.go,
   fragment.go (Create*, Add*, SetTrunDataOffsets, Encode, GetFullSamples).
   Definitions only: this file must keep running when a proof breaks.

   Conventions: Go `x.Flags & (1<<k) != 0` is `N.testbit flags k`; `Flags |= 1<<k` is `N.setbit`;
   `Flags &= ^(1<<k)` is `N.clearbit`.  uint32 wrap is written `u32`, the int32 cast `i32`. *)
From V.lib Require Import Base.

(* ------------------------------------------------------------------ records *)
(* type Sample struct { Flags, Dur, Size uint32; CompositionTimeOffset int32 } *)
Record sample := mkSample { s_flags : N; s_dur : N; s_size : N; s_cto : Z }.

(* type FullSample struct { Sample; DecodeTime uint64; Data []byte } *)
Record fullsample := mkFull { fs_s : sample; fs_dts : N; fs_data : list N }.

(* type TrunBox struct { Version; Flags; DataOffset int32; firstSampleFlags; Samples; writeOrderNr } *)
Record trun := mkTrun {
  tr_version : N; tr_flags : N; tr_doff : Z; tr_fsf : N; tr_samples : list sample; tr_won : N }.

(* type TfhdBox struct { Version; Flags; TrackID; BaseDataOffset; SampleDescriptionIndex;
   DefaultSampleDuration; DefaultSampleSize; DefaultSampleFlags } *)
Record tfhd := mkTfhd {
  tf_flags : N; tf_track : N; tf_bdo : N; tf_sdi : N; tf_ddur : N; tf_dsize : N; tf_dflags : N }.

(* the fields of TrexBox that the decode side reads *)
Record trex := mkTrex { tx_track : N; tx_ddur : N; tx_dsize : N; tx_dflags : N }.

(* trun flag bits *)
Definition B_DOFF : N := 0.    (* TrunDataOffsetPresentFlag 0x01 *)
Definition B_FSF : N := 2.     (* TrunFirstSampleFlagsPresentFlag 0x04 *)
Definition B_DUR : N := 8.     (* 0x100 *)
Definition B_SIZE : N := 9.    (* 0x200 *)
Definition B_SFLAGS : N := 10. (* 0x400 *)
Definition B_CTO : N := 11.    (* 0x800 *)
(* tfhd flag bits *)
Definition B_BDO : N := 0.     (* baseDataOffsetPresent 0x01 *)
Definition B_SDI : N := 1.     (* sampleDescriptionIndexPresent 0x02 *)
Definition B_DDUR : N := 3.    (* defaultSampleDurationPresent 0x08 *)
Definition B_DSIZE : N := 4.   (* 0x10 *)
Definition B_DFLAGS : N := 5.  (* 0x20 *)
Definition B_MOOF : N := 17.   (* defaultBaseIsMoof 0x020000 *)

Definition has_doff (t : trun) := N.testbit (tr_flags t) B_DOFF.
Definition has_fsf (t : trun) := N.testbit (tr_flags t) B_FSF.
Definition has_dur (t : trun) := N.testbit (tr_flags t) B_DUR.
Definition has_size (t : trun) := N.testbit (tr_flags t) B_SIZE.
Definition has_sflags (t : trun) := N.testbit (tr_flags t) B_SFLAGS.
Definition has_cto (t : trun) := N.testbit (tr_flags t) B_CTO.

Definition tf_has_bdo (t : tfhd) := N.testbit (tf_flags t) B_BDO.
Definition tf_has_sdi (t : tfhd) := N.testbit (tf_flags t) B_SDI.
Definition tf_has_ddur (t : tfhd) := N.testbit (tf_flags t) B_DDUR.
Definition tf_has_dsize (t : tfhd) := N.testbit (tf_flags t) B_DSIZE.
Definition tf_has_dflags (t : tfhd) := N.testbit (tf_flags t) B_DFLAGS.
Definition tf_base_is_moof (t : tfhd) := N.testbit (tf_flags t) B_MOOF.

(* field updates *)
Definition tr_with_flags (t : trun) (f : N) : trun :=
  mkTrun (tr_version t) f (tr_doff t) (tr_fsf t) (tr_samples t) (tr_won t).
Definition tr_clear (t : trun) (k : N) : trun := tr_with_flags t (N.clearbit (tr_flags t) k).
(* SetFirstSampleFlags *)
Definition tr_set_fsf (t : trun) (v : N) : trun :=
  mkTrun (tr_version t) (N.setbit (tr_flags t) B_FSF) (tr_doff t) v (tr_samples t) (tr_won t).
(* RemoveFirstSampleFlags *)
Definition tr_remove_fsf (t : trun) : trun :=
  mkTrun (tr_version t) (N.clearbit (tr_flags t) B_FSF) (tr_doff t) 0 (tr_samples t) (tr_won t).
Definition tr_with_samples (t : trun) (l : list sample) : trun :=
  mkTrun (tr_version t) (tr_flags t) (tr_doff t) (tr_fsf t) l (tr_won t).
Definition tr_with_doff (t : trun) (d : Z) : trun :=
  mkTrun (tr_version t) (tr_flags t) d (tr_fsf t) (tr_samples t) (tr_won t).

Definition tf_set_ddur (t : tfhd) (v : N) : tfhd :=
  mkTfhd (N.setbit (tf_flags t) B_DDUR) (tf_track t) (tf_bdo t) (tf_sdi t) v (tf_dsize t) (tf_dflags t).
Definition tf_set_dsize (t : tfhd) (v : N) : tfhd :=
  mkTfhd (N.setbit (tf_flags t) B_DSIZE) (tf_track t) (tf_bdo t) (tf_sdi t) (tf_ddur t) v (tf_dflags t).
Definition tf_set_dflags (t : tfhd) (v : N) : tfhd :=
  mkTfhd (N.setbit (tf_flags t) B_DFLAGS) (tf_track t) (tf_bdo t) (tf_sdi t) (tf_ddur t) (tf_dsize t) v.

(* CreateTrun(writeOrderNr): Version 1, Flags 0xf01 *)
Definition create_trun (won : N) : trun := mkTrun 1 3841 0 0 [] won.
(* CreateTfhd(trackID): Flags defaultBaseIsMoof, SampleDescriptionIndex 1 *)
Definition create_tfhd (track : N) : tfhd := mkTfhd 131072 track 0 1 0 0 0.

(* ------------------------------------------------------------------ OptimizeTfhdTrun *)
(* the four `if trun.HasX()` blocks of TrafBox.OptimizeTfhdTrun, in order; each loop runs over ALL
   samples (the dur/size/cto loops include sample 0, the flags loop skips index 0) *)
Definition opt_dur (tf : tfhd) (tr : trun) : tfhd * trun :=
  match tr_samples tr with
  | [] => (tf, tr)
  | s0 :: _ =>
      if has_dur tr && forallb (fun s => s_dur s =? s_dur s0) (tr_samples tr)
      then (tf_set_ddur tf (s_dur s0), tr_clear tr B_DUR)
      else (tf, tr)
  end.

Definition opt_size (tf : tfhd) (tr : trun) : tfhd * trun :=
  match tr_samples tr with
  | [] => (tf, tr)
  | s0 :: _ =>
      if has_size tr && forallb (fun s => s_size s =? s_size s0) (tr_samples tr)
      then (tf_set_dsize tf (s_size s0), tr_clear tr B_SIZE)
      else (tf, tr)
  end.

(* fixed = true: the repaired text (first-sample-flags removed when the first sample's flags equal the
   common flags); fixed = false: the pinned text (a stale first-sample-flags field stays present) *)
Definition opt_flags_gen (fixed : bool) (tf : tfhd) (tr : trun) : tfhd * trun :=
  match tr_samples tr with
  | s0 :: s1 :: _ =>
      if has_sflags tr && forallb (fun s => s_flags s =? s_flags s1) (tl (tr_samples tr))
      then
        let tr1 := if negb (s_flags s0 =? s_flags s1) then tr_set_fsf tr (s_flags s0)
                   else if fixed then tr_remove_fsf tr else tr in
        (tf_set_dflags tf (s_flags s1), tr_clear tr1 B_SFLAGS)
      else (tf, tr)
  | _ => (tf, tr)
  end.

(* the pinned text of the fourth block (known_findings/C05.json, C05-F7): the field goes whenever all offsets are 0 *)
Definition opt_cto_pinned (tf : tfhd) (tr : trun) : tfhd * trun :=
  if has_cto tr && forallb (fun s => Z.eqb (s_cto s) 0) (tr_samples tr)
  then (tf, tr_clear tr B_CTO)
  else (tf, tr).

(* the repaired text (fix 6c7a902): DecodeTrun refuses more than MAX_BARE samples without any per-sample field, so
   `if allZeroCTO && (len(trun.Samples) <= 1024 || otherField)`; the three Has* calls see the flags as the earlier
   blocks left them *)
Definition MAX_BARE : N := 1024.
Definition other_field (tr : trun) : bool := has_dur tr || has_size tr || has_sflags tr.
Definition opt_cto (tf : tfhd) (tr : trun) : tfhd * trun :=
  if has_cto tr && forallb (fun s => Z.eqb (s_cto s) 0) (tr_samples tr)
     && ((N.of_nat (length (tr_samples tr)) <=? MAX_BARE) || other_field tr)
  then (tf, tr_clear tr B_CTO)
  else (tf, tr).

Definition optimize_gen (fixed : bool) (tf : tfhd) (tr : trun) : res (tfhd * trun) :=
  match tr_samples tr with
  | [] => Err                       (* "no samples in trun" *)
  | [_] => Ok (tf, tr)              (* No need to optimize *)
  | _ =>
      let '(tf1, tr1) := opt_dur tf tr in
      let '(tf2, tr2) := opt_size tf1 tr1 in
      let '(tf3, tr3) := opt_flags_gen fixed tf2 tr2 in
      Ok (opt_cto tf3 tr3)
  end.

(* the text currently in /repo (see known_findings/C05.json, C05-F1) *)
Definition FIXED_FSF : bool := true.
Definition optimize := optimize_gen FIXED_FSF.
Definition optimize_pinned := optimize_gen false.
(* the text before fix 6c7a902 (C05-F7): the repaired flags block, the pinned composition-offset block *)
Definition optimize_f7 (tf : tfhd) (tr : trun) : res (tfhd * trun) :=
  match tr_samples tr with
  | [] => Err
  | [_] => Ok (tf, tr)
  | _ =>
      let '(tf1, tr1) := opt_dur tf tr in
      let '(tf2, tr2) := opt_size tf1 tr1 in
      let '(tf3, tr3) := opt_flags_gen true tf2 tr2 in
      Ok (opt_cto_pinned tf3 tr3)
  end.

(* ------------------------------------------------------------------ the wire view of a trun *)
(* what DecodeTrun(EncodeTrun t) holds in memory (structure level): absent per-sample fields are 0,
   sample 0 gets firstSampleFlags when only that is present; writeOrderNr is not serialised *)
Definition wire_sample (t : trun) (first : bool) (s : sample) : sample :=
  mkSample
    (if has_sflags t then s_flags s else if has_fsf t && first then tr_fsf t else 0)
    (if has_dur t then s_dur s else 0)
    (if has_size t then s_size s else 0)
    (if has_cto t then s_cto s else 0%Z).

Definition map_first {A B} (f : bool -> A -> B) (l : list A) : list B :=
  match l with
  | [] => []
  | a :: t => f true a :: map (f false) t
  end.

Definition wire_trun (t : trun) : trun :=
  mkTrun (tr_version t) (tr_flags t)
         (if has_doff t then tr_doff t else 0%Z)
         (if has_fsf t then tr_fsf t else 0)
         (map_first (wire_sample t) (tr_samples t)) 0.

(* ------------------------------------------------------------------ AddSampleDefaultValues *)
Definition defaults (tf : tfhd) (tx : option trex) : N * N * N :=
  ( (if tf_has_ddur tf then tf_ddur tf else match tx with Some x => tx_ddur x | None => 0 end),
    (if tf_has_dsize tf then tf_dsize tf else match tx with Some x => tx_dsize x | None => 0 end),
    (if tf_has_dflags tf then tf_dflags tf else match tx with Some x => tx_dflags x | None => 0 end) ).

Definition resolve_sample (t : trun) (d : N * N * N) (first : bool) (s : sample) : sample :=
  let '(dd, ds, df) := d in
  mkSample
    (if has_sflags t then s_flags s
     else if negb first || negb (has_fsf t) then df else s_flags s)
    (if has_dur t then s_dur s else dd)
    (if has_size t then s_size s else ds)
    (s_cto s).

(* the samples of t after t.AddSampleDefaultValues(tfhd, trex) *)
Definition resolve (tf : tfhd) (tx : option trex) (t : trun) : list sample :=
  map_first (resolve_sample t (defaults tf tx)) (tr_samples t).

(* its return value (uint64 sum of uint32 values over at most 2^32 samples: no wrap) *)
Definition total_dur (l : list sample) : N := sumN (map s_dur l).
