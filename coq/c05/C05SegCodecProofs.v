(* C05SegCodecProofs.v — decoding the bytes written for a moof (no extra children) and the mdat gives back the
   wire view the round-trip theorems speak about. *)
From V.lib Require Import Base.
From V.c05 Require Import C05Model C05FragModel C05CodecModel C05CodecProofs C05OptProofs C05GhostProofs C05ReadProofs C05RoundProofs C05LazyRoundProofs C05SegModel C05SegProofs C05SegCodecModel.

(* ------------------------------------------------------------------ a box: 32-bit size, type, body *)
Definition box (typ body : list N) : list N := be32 (8 + lenN body) ++ typ ++ body.

Lemma firstn_app_exact {A} (a b : list A) : firstn (length a) (a ++ b) = a.
Proof. induction a as [|x a IH]; cbn [length firstn app]; [destruct b; reflexivity|]. rewrite IH. reflexivity. Qed.

Lemma skipn_app_exact {A} (a b : list A) : skipn (length a) (a ++ b) = b.
Proof. induction a as [|x a IH]; cbn [length skipn app]; [reflexivity|exact IH]. Qed.

Lemma next_box_box a b c d body rest :
  8 + lenN body < 4294967296 ->
  next_box (box [a; b; c; d] body ++ rest) = Ok ([a; b; c; d], 8 + lenN body, 8, body, rest).
Proof.
  intros H. unfold next_box, dec_header, box. rewrite <- !app_assoc. rewrite rd32_be32 by exact H.
  cbn [app]. destruct (8 + lenN body =? 1) eqn:E1; [apply N.eqb_eq in E1; lia|].
  destruct (8 + lenN body =? 0) eqn:E0; [apply N.eqb_eq in E0; lia|].
  destruct (8 + lenN body <? 8) eqn:E8; [apply N.ltb_lt in E8; lia|]. cbn [rbind].
  replace (8 + lenN body - 8) with (lenN body) by lia.
  destruct (lenN (body ++ rest) <? lenN body) eqn:El; [apply N.ltb_lt in El; rewrite lenN_app in El; lia|].
  unfold lenN. rewrite Nat2N.id, firstn_app_exact, skipn_app_exact. reflexivity.
Qed.

Lemma next_box_large body rest :
  16 + lenN body < 18446744073709551616 ->
  next_box (be32 1 ++ T_MDAT ++ be64 (16 + lenN body) ++ body ++ rest) = Ok (T_MDAT, 16 + lenN body, 16, body, rest).
Proof.
  intros H. unfold next_box, dec_header. rewrite rd32_be32 by lia. unfold T_MDAT. cbn [app].
  change (1 =? 1) with true. cbn iota. rewrite rd64_be64 by exact H.
  destruct (16 + lenN body <? 16) eqn:E; [apply N.ltb_lt in E; lia|]. cbn [rbind].
  replace (16 + lenN body - 16) with (lenN body) by lia.
  destruct (lenN (body ++ rest) <? lenN body) eqn:El; [apply N.ltb_lt in El; rewrite lenN_app in El; lia|].
  unfold lenN. rewrite Nat2N.id, firstn_app_exact, skipn_app_exact. reflexivity.
Qed.

Lemma box_nonnil typ body rest : exists x l, box typ body ++ rest = x :: l.
Proof. unfold box, be32. cbn [app]. eexists; eexists; reflexivity. Qed.

(* one step of the children loop *)
Lemma dec_boxes_step {A} (dec1 : list N -> N -> list N -> res A) f a b c d body rest v vs :
  8 + lenN body < 4294967296 ->
  dec1 [a; b; c; d] (8 + lenN body) body = Ok v -> dec_boxes f dec1 rest = Ok vs ->
  dec_boxes (S f) dec1 (box [a; b; c; d] body ++ rest) = Ok (v :: vs).
Proof.
  intros H H1 H2. destruct (box_nonnil [a; b; c; d] body rest) as (x & l & E).
  cbn [dec_boxes]. rewrite E. rewrite <- E. rewrite next_box_box by exact H. cbn [rbind]. rewrite H1. cbn [rbind].
  rewrite H2. reflexivity.
Qed.

(* ------------------------------------------------------------------ sizes of the bodies *)
Lemma lenN_be32 x : lenN (be32 x) = 4.
Proof. reflexivity. Qed.
Lemma lenN_be64 x : lenN (be64 x) = 8.
Proof. reflexivity. Qed.

Lemma tfhd_body_len h : 8 + lenN (enc_tfhd_body h) = tfhd_size h.
Proof.
  unfold enc_tfhd_body, tfhd_size. rewrite !lenN_app, !lenN_be32.
  destruct (tf_has_bdo h), (tf_has_sdi h), (tf_has_ddur h), (tf_has_dsize h), (tf_has_dflags h); reflexivity.
Qed.

Lemma enc_sample_len t s :
  lenN (enc_sample t s) = 4 * b2n (has_dur t) + 4 * b2n (has_size t) + 4 * b2n (has_sflags t) + 4 * b2n (has_cto t).
Proof.
  unfold enc_sample. rewrite !lenN_app.
  destruct (has_dur t), (has_size t), (has_sflags t), (has_cto t); reflexivity.
Qed.

Lemma flat_enc_sample_len t ss :
  lenN (flat_map (enc_sample t) ss) =
  lenN ss * (4 * b2n (has_dur t) + 4 * b2n (has_size t) + 4 * b2n (has_sflags t) + 4 * b2n (has_cto t)).
Proof.
  induction ss as [|s ss IH]; [reflexivity|]. cbn [flat_map]. rewrite lenN_app, enc_sample_len, IH, lenN_cons. lia.
Qed.

Lemma trun_body_len t : lenN (tr_samples t) < 4294967296 -> 8 + lenN (enc_trun_body t) = trun_size t.
Proof.
  intros H. unfold enc_trun_body, trun_size. rewrite !lenN_app, !lenN_be32, flat_enc_sample_len.
  rewrite u32_small' by exact H.
  generalize (lenN (tr_samples t) * (4 * b2n (has_dur t) + 4 * b2n (has_size t) + 4 * b2n (has_sflags t) + 4 * b2n (has_cto t))).
  intros k. destruct (has_doff t), (has_fsf t); cbn [b2n]; rewrite ?lenN_be32; change (lenN (@nil N)) with 0; lia.
Qed.

(* ------------------------------------------------------------------ tfdt, mfhd *)
Definition tfdt_wf (d : tfdt) : bool :=
  ((td_version d =? 0) && (td_base d <? 4294967296)) || ((td_version d =? 1) && (td_base d <? 18446744073709551616)).

Lemma set_base_wf t : t < 18446744073709551616 -> tfdt_wf (set_base t) = true.
Proof.
  intros H. unfold tfdt_wf, set_base. destruct (4294967296 <=? t) eqn:E; cbn [td_version td_base].
  - apply N.ltb_lt in H. rewrite H. reflexivity.
  - apply N.leb_gt in E. apply N.ltb_lt in E. rewrite E. reflexivity.
Qed.

Definition tfdt_body (d : tfdt) : list N :=
  be32 (u32 (td_version d * 16777216)) ++ (if td_version d =? 0 then be32 (u32 (td_base d)) else be64 (u64 (td_base d))).

Lemma enc_tfdt_box d : tfdt_wf d = true -> enc_tfdt d = box T_TFDT (tfdt_body d).
Proof.
  intros H. unfold enc_tfdt, box, tfdt_body, tfdt_size. f_equal. f_equal. rewrite lenN_app, lenN_be32.
  unfold tfdt_wf in H. apply orb_true_iff in H. destruct H as [H|H]; apply andb_true_iff in H; destruct H as [Hv _];
    apply N.eqb_eq in Hv; rewrite Hv; reflexivity.
Qed.

Lemma dec_tfdt_body d : tfdt_wf d = true -> dec_tfdt (tfdt_body d) = Ok d.
Proof.
  intros H. unfold tfdt_wf in H. destruct d as [v t]. cbn [td_version td_base] in *.
  apply orb_true_iff in H. destruct H as [H|H]; apply andb_true_iff in H; destruct H as [Hv Ht];
    apply N.eqb_eq in Hv; apply N.ltb_lt in Ht; subst v; unfold dec_tfdt, tfdt_body; cbn [td_version td_base].
  - change (0 =? 0) with true. cbn iota. change (u32 (0 * 16777216)) with 0. rewrite rd32_be32 by lia.
    change (0 / 16777216 =? 0) with true. cbn iota. rewrite u32_small' by exact Ht.
    rewrite <- (app_nil_r (be32 t)). rewrite rd32_be32 by exact Ht. reflexivity.
  - change (1 =? 0) with false. cbn iota. change (u32 (1 * 16777216)) with 16777216. rewrite rd32_be32 by lia.
    change (16777216 / 16777216 =? 0) with false. cbn iota.
    assert (Hu : u64 t = t) by (unfold u64; apply N.mod_small; exact Ht). rewrite Hu.
    rewrite <- (app_nil_r (be64 t)). rewrite rd64_be64 by exact Ht. reflexivity.
Qed.

Lemma enc_mfhd_box seq : enc_mfhd seq = box T_MFHD (be32 0 ++ be32 seq).
Proof. reflexivity. Qed.

Lemma dec_mfhd_body seq : seq < 4294967296 -> dec_mfhd (be32 0 ++ be32 seq) = Ok seq.
Proof.
  intros H. unfold dec_mfhd. rewrite rd32_be32 by lia. rewrite <- (app_nil_r (be32 seq)). rewrite rd32_be32 by exact H.
  reflexivity.
Qed.

(* ------------------------------------------------------------------ truns of a traf *)
Lemma enc_trun_box r bytes :
  trun_wf r = true -> enc_trun r = Ok bytes -> bytes = box T_TRUN (enc_trun_body r).
Proof.
  intros Hw H. unfold enc_trun in H. destruct (doff_unset r); [discriminate|]. injection H as <-.
  unfold box. rewrite trun_body_len; [reflexivity|].
  unfold trun_wf, trun_fields_wf in Hw. rewrite !andb_true_iff in Hw. destruct Hw as [[[_ Hl] _] _]. apply N.ltb_lt in Hl. exact Hl.
Qed.

Lemma trun_size_body r : trun_wf r = true -> 8 + lenN (enc_trun_body r) = trun_size r.
Proof.
  intros Hw. apply trun_body_len. unfold trun_wf, trun_fields_wf in Hw. rewrite !andb_true_iff in Hw.
  destruct Hw as [[[_ Hl] _] _]. apply N.ltb_lt in Hl. exact Hl.
Qed.

Lemma dec_truns rs : forall trb f,
  forallb trun_wf rs = true -> Forall (fun r => trun_size r < 4294967296) rs ->
  enc_truns rs = Ok trb -> (length rs <= f)%nat ->
  dec_boxes f dec_traf_child trb = Ok (map CTrun (map wire_trun rs)).
Proof.
  induction rs as [|r rs IH]; intros trb f Hw Hs He Hf; cbn [enc_truns] in He.
  - injection He as <-. destruct f; reflexivity.
  - cbn [forallb] in Hw. apply andb_true_iff in Hw. destruct Hw as [Hr Hrs].
    inversion Hs as [|? ? Hs1 Hs2]; subst.
    destruct (enc_trun r) as [a| | |] eqn:Ea; try discriminate. cbn [rbind] in He.
    destruct (enc_truns rs) as [b| | |] eqn:Eb; try discriminate. cbn [rbind] in He. injection He as <-.
    rewrite (enc_trun_box r a Hr Ea). destruct f as [|f]; [cbn [length] in Hf; lia|].
    cbn [map]. unfold T_TRUN. apply dec_boxes_step.
    + rewrite trun_size_body by exact Hr. exact Hs1.
    + unfold dec_traf_child. change (list_eqb [116; 114; 117; 110] T_TFHD) with false.
      change (list_eqb [116; 114; 117; 110] T_TFDT) with false. change (list_eqb [116; 114; 117; 110] T_TRUN) with true.
      cbn iota. rewrite trun_size_body by exact Hr. rewrite dec_enc_trun by exact Hr. reflexivity.
    + apply IH; try assumption; [reflexivity|cbn [length] in Hf; lia].
Qed.

Lemma fold_truns l : forall acc,
  fold_left traf_add (map CTrun l) acc = mkDtraf (dt_hd acc) (dt_dt acc) (dt_truns acc ++ l) (dt_extra acc).
Proof.
  induction l as [|r l IH]; intros acc; cbn [map fold_left].
  - rewrite app_nil_r. destruct acc; reflexivity.
  - rewrite IH. cbn [traf_add dt_hd dt_dt dt_truns dt_extra]. rewrite <- app_assoc. reflexivity.
Qed.

(* ------------------------------------------------------------------ traf *)
Definition traf_wf (t : traf) : bool :=
  tfhd_wf (tf_hd t) && tfdt_wf (tf_dt t) && forallb trun_wf (tf_truns t) && (tf_extra t =? 0).

(* what DecodeTraf holds for an encoded traf *)
Definition wire_dtraf (t : traf) : dtraf :=
  mkDtraf (Some (wire_tfhd (tf_hd t))) (Some (tf_dt t)) (map wire_trun (tf_truns t)) 0.

Lemma tfhd_size_wire h : tfhd_size (wire_tfhd h) = tfhd_size h.
Proof. reflexivity. Qed.

Lemma trun_size_le_traf t r : In r (tf_truns t) -> trun_size r <= traf_size t.
Proof.
  intros H. unfold traf_size. induction (tf_truns t) as [|x l IH]; [contradiction|].
  cbn [map sumN]. destruct H as [->|H]; [lia|]. specialize (IH H). lia.
Qed.

Definition traf_body (t : traf) (trb : list N) : list N := enc_tfhd (tf_hd t) ++ enc_tfdt (tf_dt t) ++ trb.

Lemma lenN_box typ body : lenN (box typ body) = 4 + lenN typ + lenN body.
Proof. unfold box. rewrite !lenN_app, lenN_be32. lia. Qed.

Lemma enc_truns_len rs : forall trb, forallb trun_wf rs = true -> enc_truns rs = Ok trb -> lenN trb = sumN (map trun_size rs).
Proof.
  induction rs as [|r rs IH]; intros trb Hw He; cbn [enc_truns] in He.
  - injection He as <-. reflexivity.
  - cbn [forallb] in Hw. apply andb_true_iff in Hw. destruct Hw as [Hr Hrs].
    destruct (enc_trun r) as [a| | |] eqn:Ea; try discriminate. cbn [rbind] in He.
    destruct (enc_truns rs) as [b| | |] eqn:Eb; try discriminate. cbn [rbind] in He. injection He as <-.
    rewrite lenN_app, (IH b Hrs eq_refl). cbn [map sumN]. rewrite (enc_trun_box r a Hr Ea), lenN_box.
    rewrite <- trun_size_body by exact Hr. change (lenN T_TRUN) with 4. lia.
Qed.

Lemma traf_body_len t trb :
  traf_wf t = true -> enc_truns (tf_truns t) = Ok trb -> 8 + lenN (traf_body t trb) = traf_size t.
Proof.
  unfold traf_wf. rewrite !andb_true_iff. intros [[[Hh Hd] Hr] Hx] He. apply N.eqb_eq in Hx.
  unfold traf_body, traf_size. rewrite !lenN_app, (enc_truns_len _ _ Hr He), Hx.
  rewrite (enc_tfdt_box _ Hd), lenN_box. unfold enc_tfhd. rewrite !lenN_app, lenN_be32.
  pose proof (tfhd_body_len (tf_hd t)) as L1.
  assert (L2 : lenN (tfdt_body (tf_dt t)) + 8 = tfdt_size (tf_dt t)).
  { unfold tfdt_body, tfdt_size. rewrite lenN_app, lenN_be32. unfold tfdt_wf in Hd. apply orb_true_iff in Hd.
    destruct Hd as [H|H]; apply andb_true_iff in H; destruct H as [Hv _]; apply N.eqb_eq in Hv; rewrite Hv; reflexivity. }
  change (lenN [116; 102; 104; 100]) with 4. change (lenN T_TFDT) with 4. lia.
Qed.

Lemma dec_traf_body t trb :
  traf_wf t = true -> traf_size t < 4294967296 -> enc_truns (tf_truns t) = Ok trb ->
  dec_traf (traf_body t trb) = Ok (wire_dtraf t).
Proof.
  intros Hw Hs He. pose proof Hw as Hw'. unfold traf_wf in Hw'. rewrite !andb_true_iff in Hw'.
  destruct Hw' as [[[Hh Hd] Hr] Hx].
  assert (Hsz : Forall (fun r => trun_size r < 4294967296) (tf_truns t)).
  { apply Forall_forall. intros r Hin. pose proof (trun_size_le_traf t r Hin). lia. }
  unfold dec_traf.
  assert (Hfuel : exists f, length (traf_body t trb) = S (S f) /\ (length (tf_truns t) <= f)%nat).
  { pose proof (enc_truns_len _ _ Hr He) as Ll.
    assert (Hge : N.of_nat (length (tf_truns t)) <= lenN trb).
    { rewrite Ll. clear - Hr. induction (tf_truns t) as [|r l IH]; [cbn; lia|].
      cbn [forallb] in Hr. apply andb_true_iff in Hr. destruct Hr as [_ Hl]. specialize (IH Hl).
      cbn [map sumN length]. assert (16 <= trun_size r).
      { unfold trun_size. generalize (u32 (lenN (tr_samples r)) * (4 * b2n (has_dur r) + 4 * b2n (has_size r) + 4 * b2n (has_sflags r) + 4 * b2n (has_cto r))). intros k. lia. }
      lia. }
    unfold traf_body, enc_tfhd. unfold lenN in Hge. rewrite !app_length. cbn [length be32].
    exists (2 + length (enc_tfhd_body (tf_hd t)) + length (enc_tfdt (tf_dt t)) + length trb + 4)%nat. split; [lia|lia]. }
  destruct Hfuel as (f & Ef & Hf). rewrite Ef.
  unfold traf_body. unfold enc_tfhd at 1.
  assert (Eh : be32 (tfhd_size (tf_hd t)) ++ [116; 102; 104; 100] ++ enc_tfhd_body (tf_hd t) = box [116; 102; 104; 100] (enc_tfhd_body (tf_hd t))).
  { unfold box. rewrite tfhd_body_len. reflexivity. }
  rewrite Eh. rewrite (enc_tfdt_box _ Hd).
  pose proof (tfhd_body_len (tf_hd t)) as L1.
  assert (Hts : tfhd_size (tf_hd t) <= traf_size t) by (unfold traf_size; lia).
  assert (Hds : 8 + lenN (tfdt_body (tf_dt t)) <= traf_size t).
  { assert (8 + lenN (tfdt_body (tf_dt t)) = tfdt_size (tf_dt t)).
    { unfold tfdt_body, tfdt_size. rewrite lenN_app, lenN_be32. unfold tfdt_wf in Hd. apply orb_true_iff in Hd.
      destruct Hd as [H|H]; apply andb_true_iff in H; destruct H as [Hv _]; apply N.eqb_eq in Hv; rewrite Hv; reflexivity. }
    unfold traf_size. lia. }
  rewrite (dec_boxes_step dec_traf_child (S f) 116 102 104 100 (enc_tfhd_body (tf_hd t)) _
             (CTfhd (wire_tfhd (tf_hd t))) (CTfdt (tf_dt t) :: map CTrun (map wire_trun (tf_truns t)))).
  - cbn [rbind fold_left traf_add dt_hd dt_dt dt_truns dt_extra]. rewrite fold_truns. reflexivity.
  - lia.
  - unfold dec_traf_child. change (list_eqb [116; 102; 104; 100] T_TFHD) with true. cbn iota.
    rewrite dec_enc_tfhd by exact Hh. cbn [rbind]. rewrite tfhd_size_wire.
    replace (lenN (enc_tfhd_body (tf_hd t)) + 8 =? tfhd_size (tf_hd t)) with true; [reflexivity|].
    symmetry. apply N.eqb_eq. lia.
  - unfold T_TFDT. apply dec_boxes_step.
    + lia.
    + unfold dec_traf_child. change (list_eqb [116; 102; 100; 116] T_TFHD) with false.
      change (list_eqb [116; 102; 100; 116] T_TFDT) with true. cbn iota. rewrite dec_tfdt_body by exact Hd. reflexivity.
    + apply dec_truns; assumption.
Qed.

(* ------------------------------------------------------------------ moof *)
Lemma enc_traf_box t bytes :
  traf_wf t = true -> enc_traf t = Ok bytes ->
  exists trb, enc_truns (tf_truns t) = Ok trb /\ bytes = box T_TRAF (traf_body t trb).
Proof.
  intros Hw H. unfold enc_traf in H. destruct (enc_truns (tf_truns t)) as [trb| | |] eqn:E; try discriminate.
  cbn [rbind] in H. injection H as <-. exists trb. split; [reflexivity|]. unfold box.
  rewrite (traf_body_len t trb Hw E). reflexivity.
Qed.

Lemma dec_trafs ts : forall tsb f,
  forallb traf_wf ts = true -> Forall (fun t => traf_size t < 4294967296) ts ->
  enc_trafs ts = Ok tsb -> (length ts <= f)%nat ->
  dec_boxes f dec_moof_child tsb = Ok (map CTraf (map wire_dtraf ts)).
Proof.
  induction ts as [|t ts IH]; intros tsb f Hw Hs He Hf; cbn [enc_trafs] in He.
  - injection He as <-. destruct f; reflexivity.
  - cbn [forallb] in Hw. apply andb_true_iff in Hw. destruct Hw as [Ht Hts].
    inversion Hs as [|? ? Hs1 Hs2]; subst.
    destruct (enc_traf t) as [a| | |] eqn:Ea; try discriminate. cbn [rbind] in He.
    destruct (enc_trafs ts) as [b| | |] eqn:Eb; try discriminate. cbn [rbind] in He. injection He as <-.
    destruct (enc_traf_box t a Ht Ea) as (trb & Etr & ->). destruct f as [|f]; [cbn [length] in Hf; lia|].
    cbn [map]. unfold T_TRAF. apply dec_boxes_step.
    + rewrite (traf_body_len t trb Ht Etr). exact Hs1.
    + unfold dec_moof_child. change (list_eqb [116; 114; 97; 102] T_MFHD) with false.
      change (list_eqb [116; 114; 97; 102] T_TRAF) with true. cbn iota.
      rewrite (dec_traf_body t trb Ht Hs1 Etr). reflexivity.
    + apply IH; try assumption; [reflexivity|cbn [length] in Hf; lia].
Qed.

Lemma fold_trafs l : forall acc,
  fold_left moof_add (map CTraf l) acc = mkDmoof (dm_seq acc) (dm_trafs acc ++ l) (dm_extra acc).
Proof.
  induction l as [|t l IH]; intros acc; cbn [map fold_left].
  - rewrite app_nil_r. destruct acc; reflexivity.
  - rewrite IH. cbn [moof_add dm_seq dm_trafs dm_extra]. rewrite <- app_assoc. reflexivity.
Qed.

(* an encoded fragment whose moof has no extra children and whose fields fit their wire widths *)
Definition frag_codec_wf (fe : frag) : bool :=
  forallb traf_wf (fr_trafs fe) && (fr_moofx fe =? 0) && (moof_size fe <? 4294967296).

Definition wire_dmoof (seq : N) (fe : frag) : dmoof := mkDmoof (Some seq) (map wire_dtraf (fr_trafs fe)) 0.

Lemma traf_size_le_moof fe t : In t (fr_trafs fe) -> traf_size t <= moof_size fe.
Proof.
  intros H. unfold moof_size. induction (fr_trafs fe) as [|x l IH]; [contradiction|].
  cbn [map sumN]. destruct H as [->|H]; [lia|]. specialize (IH H). lia.
Qed.

Lemma enc_trafs_len ts : forall tsb, forallb traf_wf ts = true -> enc_trafs ts = Ok tsb -> lenN tsb = sumN (map traf_size ts).
Proof.
  induction ts as [|t ts IH]; intros tsb Hw He; cbn [enc_trafs] in He.
  - injection He as <-. reflexivity.
  - cbn [forallb] in Hw. apply andb_true_iff in Hw. destruct Hw as [Ht Hts].
    destruct (enc_traf t) as [a| | |] eqn:Ea; try discriminate. cbn [rbind] in He.
    destruct (enc_trafs ts) as [b| | |] eqn:Eb; try discriminate. cbn [rbind] in He. injection He as <-.
    destruct (enc_traf_box t a Ht Ea) as (trb & Etr & ->).
    rewrite lenN_app, (IH b Hts eq_refl). cbn [map sumN]. rewrite lenN_box.
    pose proof (traf_body_len t trb Ht Etr). change (lenN T_TRAF) with 4. lia.
Qed.

Definition moof_body (seq : N) (tsb : list N) : list N := enc_mfhd seq ++ tsb.

Lemma dec_moof_body seq fe tsb :
  frag_codec_wf fe = true -> seq < 4294967296 -> enc_trafs (fr_trafs fe) = Ok tsb ->
  dec_moof (moof_body seq tsb) = Ok (wire_dmoof seq fe) /\ 8 + lenN (moof_body seq tsb) = moof_size fe.
Proof.
  unfold frag_codec_wf. rewrite !andb_true_iff. intros [[Hw Hx] Hs] Hq He.
  apply N.eqb_eq in Hx. apply N.ltb_lt in Hs.
  pose proof (enc_trafs_len _ _ Hw He) as Ll.
  assert (Hlen : 8 + lenN (moof_body seq tsb) = moof_size fe).
  { unfold moof_body, moof_size. rewrite lenN_app, Ll, Hx. change (lenN (enc_mfhd seq)) with 16. lia. }
  split; [|exact Hlen].
  assert (Hsz : Forall (fun t => traf_size t < 4294967296) (fr_trafs fe)).
  { apply Forall_forall. intros t Hin. pose proof (traf_size_le_moof fe t Hin). lia. }
  unfold dec_moof.
  assert (Hfuel : exists f, length (moof_body seq tsb) = S f /\ (length (fr_trafs fe) <= f)%nat).
  { assert (Hge : N.of_nat (length (fr_trafs fe)) <= lenN tsb).
    { rewrite Ll. clear. induction (fr_trafs fe) as [|t l IH]; [cbn; lia|].
      cbn [map sumN length]. assert (8 <= traf_size t) by (unfold traf_size; lia). lia. }
    unfold moof_body. rewrite app_length. change (length (enc_mfhd seq)) with 16%nat.
    unfold lenN in Hge. exists (15 + length tsb)%nat. split; lia. }
  destruct Hfuel as (f & Ef & Hf). rewrite Ef. unfold moof_body. rewrite enc_mfhd_box. unfold T_MFHD.
  rewrite (dec_boxes_step dec_moof_child f 109 102 104 100 (be32 0 ++ be32 seq) tsb (CMfhd seq)
             (map CTraf (map wire_dtraf (fr_trafs fe)))).
  - cbn [rbind fold_left moof_add dm_seq dm_trafs dm_extra]. rewrite fold_trafs. reflexivity.
  - cbn. lia.
  - unfold dec_moof_child. change (list_eqb [109; 102; 104; 100] T_MFHD) with true. cbn iota.
    rewrite dec_mfhd_body by exact Hq. reflexivity.
  - apply dec_trafs; assumption.
Qed.

(* ------------------------------------------------------------------ the whole fragment: moof + mdat *)
Definition mdat_wf (m : mdat) : bool :=
  (md_payload m =? lenN (md_written m)) && (md_large m || (md_payload m <=? 4294967287))
  && (md_payload m <? 18446744073709551600).

Lemma dec_top_S f l :
  l <> [] ->
  dec_top (S f) l = (do nb <- next_box l;
                     let '(typ, size, hl, body, rest) := nb in
                     do b <- dec_top_box typ size hl body; do bs <- dec_top f rest; Ok (b :: bs)).
Proof. destruct l; [congruence|reflexivity]. Qed.

Lemma dec_top_nil f : dec_top f [] = Ok [].
Proof. destruct f; reflexivity. Qed.

Lemma be32_app_nonnil x l : be32 x ++ l <> [].
Proof. unfold be32. cbn [app]. discriminate. Qed.

Lemma dec_top_mdat m f :
  mdat_wf m = true -> dec_top (S f) (enc_mdat m) = Ok [BMdat (md_header_size m) (md_written m)].
Proof.
  intros Hm. unfold mdat_wf in Hm. rewrite !andb_true_iff in Hm. destruct Hm as [[Hp Hlg] Hb].
  apply N.eqb_eq in Hp. apply N.ltb_lt in Hb.
  unfold enc_mdat, enc_mdat_header, md_header_size. destruct (md_large m) eqn:Elg.
  - assert (Hu : u64 (16 + md_payload m) = 16 + lenN (md_written m)) by (unfold u64; rewrite N.mod_small; lia).
    rewrite Hu.
    assert (E : (be32 1 ++ T_MDAT ++ be64 (16 + lenN (md_written m))) ++ md_written m =
                be32 1 ++ T_MDAT ++ be64 (16 + lenN (md_written m)) ++ md_written m ++ []).
    { rewrite <- !app_assoc, app_nil_r. reflexivity. }
    rewrite E. rewrite dec_top_S by apply be32_app_nonnil. rewrite next_box_large by lia. cbn [rbind].
    unfold dec_top_box. change (list_eqb T_MDAT T_MOOF) with false. change (list_eqb T_MDAT T_MDAT) with true.
    cbn iota. cbn [rbind]. rewrite dec_top_nil. reflexivity.
  - cbn [orb] in Hlg. apply N.leb_le in Hlg.
    assert (Hu : u32 (8 + md_payload m) = 8 + lenN (md_written m)) by (unfold u32; rewrite N.mod_small; lia).
    rewrite Hu.
    assert (E : (be32 (8 + lenN (md_written m)) ++ T_MDAT) ++ md_written m = box T_MDAT (md_written m) ++ []).
    { unfold box. rewrite <- !app_assoc, app_nil_r. reflexivity. }
    rewrite E. rewrite dec_top_S by (unfold box; rewrite <- app_assoc; apply be32_app_nonnil).
    unfold T_MDAT at 1. rewrite next_box_box by lia. cbn [rbind].
    unfold dec_top_box. change (list_eqb [109; 100; 97; 116] T_MOOF) with false.
    change (list_eqb [109; 100; 97; 116] T_MDAT) with true. cbn iota. cbn [rbind]. rewrite dec_top_nil. reflexivity.
Qed.

Lemma dec_enc_fragment seq fe bytes :
  frag_codec_wf fe = true -> seq < 4294967296 -> mdat_wf (fr_mdat fe) = true ->
  enc_fragment seq fe = Ok bytes ->
  dec_top (length bytes) bytes =
    Ok [BMoof (moof_size fe) (wire_dmoof seq fe); BMdat (md_header_size (fr_mdat fe)) (md_written (fr_mdat fe))].
Proof.
  intros Hw Hq Hm H. unfold enc_fragment, enc_moof in H.
  destruct (enc_trafs (fr_trafs fe)) as [tsb| | |] eqn:Et; try discriminate.
  destruct (dec_moof_body seq fe tsb Hw Hq Et) as (Hd & Hl).
  pose proof Hw as Hw'. unfold frag_codec_wf in Hw'. rewrite !andb_true_iff in Hw'. destruct Hw' as [_ Hs].
  apply N.ltb_lt in Hs.
  assert (Hbytes : bytes = box T_MOOF (moof_body seq tsb) ++ enc_mdat (fr_mdat fe)).
  { cbn [rbind] in H. injection H as <-. unfold box. rewrite Hl. reflexivity. }
  clear H. subst bytes. set (m := fr_mdat fe) in *.
  remember (length (box T_MOOF (moof_body seq tsb) ++ enc_mdat m)) as fuel eqn:Ef.
  assert (Hf2 : (2 <= fuel)%nat).
  { rewrite Ef, app_length. unfold box, enc_mdat, enc_mdat_header. rewrite !app_length. cbn [length be32].
    destruct (md_large m); cbn [length be32 T_MDAT app]; lia. }
  destruct fuel as [|[|f]]; try lia.
  rewrite dec_top_S by (unfold box; rewrite <- app_assoc; apply be32_app_nonnil).
  unfold T_MOOF at 1. rewrite next_box_box by (rewrite Hl; exact Hs). cbn [rbind].
  unfold dec_top_box at 1. change (list_eqb [109; 111; 111; 102] T_MOOF) with true. cbn iota. rewrite Hd. cbn [rbind].
  rewrite Hl. rewrite (dec_top_mdat m f Hm). reflexivity.
Qed.

(* ------------------------------------------------------------------ the decoded bytes and the view of the round-trip theorems *)
(* GetFullSamples reads tfhd fields only behind their presence flags *)
Lemma ffs_ext h h' tx d d' : forall truns base,
  defaults h tx = defaults h' tx -> tf_has_bdo h = tf_has_bdo h' -> (tf_has_bdo h = true -> tf_bdo h = tf_bdo h') ->
  df_data d = df_data d' -> df_moof_start d = df_moof_start d' -> df_payload_abs d = df_payload_abs d' ->
  frag_full_samples h tx truns base d = frag_full_samples h' tx truns base d'.
Proof.
  intros truns base Hd Hb Hbv E1 E2 E3. revert base.
  induction truns as [|r rest IH]; intros base; cbn [frag_full_samples]; [reflexivity|].
  unfold resolve. rewrite <- Hd, <- Hb, <- E1, <- E2, <- E3.
  assert (Hbo : (if tf_has_bdo h then tf_bdo h else df_moof_start d) = (if tf_has_bdo h then tf_bdo h' else df_moof_start d)).
  { destruct (tf_has_bdo h) eqn:E; [apply Hbv; reflexivity|reflexivity]. }
  rewrite <- Hbo. rewrite IH. reflexivity.
Qed.

Lemma defaults_wire h tx : defaults (wire_tfhd h) tx = defaults h tx.
Proof.
  unfold defaults, wire_tfhd, tf_has_ddur, tf_has_dsize, tf_has_dflags. cbn [tf_flags tf_ddur tf_dsize tf_dflags].
  fold (tf_has_ddur h). fold (tf_has_dsize h). fold (tf_has_dflags h).
  destruct (tf_has_ddur h), (tf_has_dsize h), (tf_has_dflags h); reflexivity.
Qed.

(* the fragment view built from the decoded boxes: moof at position pos *)
Definition bytes_view (m : dmoof) (payload : list N) (pos moof_sz hdr : N) : option dfrag :=
  match to_trafs (dm_trafs m) with
  | Some ts => Some (mkDfrag ts payload pos (pos + moof_sz + hdr))
  | None => None
  end.

Definition wire_hd_traf (t : traf) : traf :=
  mkTraf (wire_tfhd (tf_hd t)) (tf_dt t) (map wire_trun (tf_truns t)) 0.

Lemma to_trafs_wire ts : to_trafs (map wire_dtraf ts) = Some (map wire_hd_traf ts).
Proof. induction ts as [|t ts IH]; [reflexivity|]. cbn [map to_trafs]. rewrite IH. reflexivity. Qed.

Lemma find_wire_hd p ts :
  find (fun t => tf_track (tf_hd t) =? p) (map wire_hd_traf ts) =
  option_map wire_hd_traf (find (fun t => tf_track (tf_hd t) =? p) ts).
Proof.
  induction ts as [|t ts IH]; [reflexivity|]. cbn [map find]. cbn [wire_hd_traf tf_hd wire_tfhd tf_track].
  destruct (tf_track (tf_hd t) =? p); [reflexivity|exact IH].
Qed.

(* reading the view decoded from the bytes = reading decoded_view (fragment without boxes before the moof) *)
Lemma bytes_view_read seq fe pos tx :
  fr_pre fe = 0 -> md_lazy (fr_mdat fe) = 0 ->
  exists d, bytes_view (wire_dmoof seq fe) (md_written (fr_mdat fe)) pos (moof_size fe) (md_header_size (fr_mdat fe)) = Some d /\
            get_full_samples d tx = get_full_samples (decoded_view fe pos []) tx.
Proof.
  intros Hpre Hlz. unfold bytes_view, wire_dmoof. cbn [dm_trafs]. rewrite to_trafs_wire. eexists. split; [reflexivity|].
  unfold get_full_samples, decoded_view. cbn [df_trafs]. rewrite Hpre, Hlz. change (0 <? 0) with false. cbn iota.
  rewrite N.add_0_r.
  set (d1 := mkDfrag (map wire_hd_traf (fr_trafs fe)) _ _ _). set (d2 := mkDfrag _ _ _ _).
  assert (G : forall t, frag_full_samples (tf_hd (wire_hd_traf t)) tx (tf_truns (wire_hd_traf t)) (td_base (tf_dt (wire_hd_traf t))) d1 =
                        frag_full_samples (tf_hd t) tx (map wire_trun (tf_truns t)) (td_base (tf_dt t)) d2).
  { intros t. cbn [wire_hd_traf tf_hd tf_truns tf_dt]. apply ffs_ext; try reflexivity.
    - apply defaults_wire.
    - intros Hb. change (tf_has_bdo (wire_tfhd (tf_hd t))) with (tf_has_bdo (tf_hd t)) in Hb.
      unfold wire_tfhd. cbn [tf_bdo]. rewrite Hb. reflexivity. }
  destruct tx as [x|].
  - rewrite find_wire_hd. rewrite (C05RoundProofs.find_map (fun t => tf_track (tf_hd t) =? tx_track x)
                                     (fun t => mkTraf (tf_hd t) (tf_dt t) (map wire_trun (tf_truns t)) (tf_extra t))).
    cbn [tf_hd]. destruct (find (fun a => tf_track (tf_hd a) =? tx_track x) (fr_trafs fe)) as [t|]; cbn [option_map rbind]; [|reflexivity].
    rewrite G. reflexivity.
  - destruct (fr_trafs fe) as [|t ts]; cbn [map rbind]; [reflexivity|]. rewrite G. reflexivity.
Qed.

(* ------------------------------------------------------------------ DecodeTrun's count guard holds for what Encode writes *)
(* widths only: what the caller controls (field values within their wire widths, no extra children) *)
Definition traf_width_wf (t : traf) : bool :=
  tfhd_wf (tf_hd t) && tfdt_wf (tf_dt t) && forallb trun_fields_wf (tf_truns t) && (tf_extra t =? 0).
Definition frag_width_wf (fe : frag) : bool :=
  forallb traf_width_wf (fr_trafs fe) && (fr_moofx fe =? 0) && (moof_size fe <? 4294967296).

Definition trafs_bare (ts : list traf) : Prop := Forall (fun t => Forall (fun r => bare_ok r = true) (tf_truns t)) ts.

Lemma present_bare r : all_present r = true -> has_cto r = true /\ bare_ok r = true.
Proof.
  unfold all_present, bare_ok. rewrite !andb_true_iff. intros [[[_ _] _] H]. split; [exact H|]. rewrite H. apply orb_true_r.
Qed.

Lemma frag_codec_of_width fe : frag_width_wf fe = true -> trafs_bare (fr_trafs fe) -> frag_codec_wf fe = true.
Proof.
  unfold frag_width_wf, frag_codec_wf, trafs_bare. rewrite !andb_true_iff. intros [[Hw Hx] Hs] Hb.
  split; [split|]; try assumption. apply forallb_forall. intros t Ht.
  rewrite forallb_forall in Hw. specialize (Hw t Ht). rewrite Forall_forall in Hb. specialize (Hb t Ht).
  unfold traf_width_wf in Hw. unfold traf_wf. rewrite !andb_true_iff in *. destruct Hw as [[[H1 H2] H3] H4].
  repeat split; try assumption. apply forallb_forall. intros r Hr. rewrite forallb_forall in H3. rewrite Forall_forall in Hb.
  apply trun_wf_of_bare; [apply H3|apply Hb]; exact Hr.
Qed.

Lemma set_offsets_bare fr : trafs_bare (fr_trafs fr) -> trafs_bare (fr_trafs (set_offsets fr)).
Proof.
  intros H. unfold set_offsets. destruct (negb _ && _); [exact H|]. cbn [fr_with fr_trafs].
  unfold trafs_bare in *. apply Forall_forall. intros t Ht. apply in_map_iff in Ht. destruct Ht as (t0 & <- & Ht0).
  cbn [tf_truns]. rewrite Forall_forall in H. specialize (H t0 Ht0). apply Forall_forall. intros r Hr.
  apply in_map_iff in Hr. destruct Hr as (r0 & <- & Hr0). rewrite Forall_forall in H. exact (H r0 Hr0).
Qed.

(* every trun of a fragment whose truns carry all four fields (as CreateTrun makes them) passes the guard after
   Fragment.Encode, with or without optimisation, whatever the number of samples (fix 6c7a902) *)
Lemma encode_frag_bare opt fr fe :
  Forall (fun t => Forall (fun r => all_present r = true) (tf_truns t)) (fr_trafs fr) ->
  encode_frag opt fr = Ok fe -> trafs_bare (fr_trafs fe).
Proof.
  intros Hp H. unfold encode_frag in H.
  destruct (if opt then optimize_first fr else Ok fr) as [fr1| | |] eqn:E1; try discriminate. cbn [rbind] in H.
  assert (H0 : trafs_bare (fr_trafs fr)).
  { eapply Forall_impl; [|exact Hp]. cbn beta. intros t Ht. eapply Forall_impl; [|exact Ht]. intros r Hr. apply (present_bare r Hr). }
  assert (H1 : trafs_bare (fr_trafs fr1)).
  { destruct opt; [|injection E1 as <-; exact H0]. unfold optimize_first in E1.
    destruct (fr_trafs fr) as [|t ts] eqn:Et; [injection E1 as <-; rewrite Et; constructor|].
    destruct (tf_truns t) as [|r rs] eqn:Er; [injection E1 as <-; rewrite Et; exact H0|].
    destruct (optimize (tf_hd t) r) as [[h' r']| | |] eqn:Eo; try discriminate. cbn [rbind] in E1. injection E1 as <-.
    cbn [fr_with fr_trafs]. inversion H0 as [|? ? Ht0 Hts]; subst. inversion Hp as [|? ? Hpt _]; subst.
    rewrite Er in Ht0, Hpt. inversion Ht0 as [|? ? Hb Hbs]; subst. inversion Hpt as [|? ? Hpr _]; subst.
    constructor; [|exact Hts]. cbn [tf_truns]. constructor; [|exact Hbs].
    destruct (present_bare r Hpr) as [Hc _]. exact (optimize_bare _ _ _ _ Hc Hb Eo). }
  pose proof (set_offsets_bare fr1 H1) as H2.
  destruct (fr_trafs (set_offsets fr1)) as [|t ts] eqn:Et; try discriminate.
  destruct (existsb doff_unset (tf_truns t)); try discriminate.
  destruct (existsb doff_unset (all_truns ts)); try discriminate.
  injection H as <-. cbn [fr_with fr_trafs]. exact H2.
Qed.

(* ------------------------------------------------------------------ end to end on the bytes of one fragment *)
Lemma encode_frag_touched opt fr fe : encode_frag opt fr = Ok fe ->
  md_large (fr_mdat fe) || (md_payload (fr_mdat fe) <=? 4294967287) = true.
Proof.
  unfold encode_frag. intros H.
  destruct (if opt then optimize_first fr else Ok fr) as [fr1| | |]; try discriminate. cbn [rbind] in H.
  destruct (fr_trafs (set_offsets fr1)) as [|t ts]; try discriminate.
  destruct (existsb doff_unset (tf_truns t)); try discriminate.
  destruct (existsb doff_unset (all_truns ts)); try discriminate.
  injection H as <-. cbn [fr_with fr_mdat]. set (m := fr_mdat (set_offsets fr1)).
  unfold md_size_touch. cbn [md_large]. change (md_payload (mkMdat (md_data m) (md_parts m) (md_lazy m) _)) with (md_payload m).
  destruct (md_large m); [reflexivity|]. cbn [orb].
  destruct (4294967287 <? md_payload m) eqn:E; [reflexivity|]. apply N.ltb_ge in E. apply N.leb_le. exact E.
Qed.

(* C05_roundtrip on the real byte string: a multi-track fragment without boxes before the moof and without extra
   children in moof and trafs, any history of AddFullSampleToTrack; Fragment.Encode writes `bytes`; decoding the
   bytes at any position gives a moof and an mdat whose view reads back exactly the added samples.  No bound on the
   number of samples per trun: DecodeTrun's count guard is PROVED to accept every trun Encode writes here. *)
Lemma roundtrip_bytes tracks post ops cs fr opt fe seq bytes pos0 tx :
  NoDup tracks -> N.of_nat (length ops) < 4294967296 -> forallb is_full_to ops = true ->
  Forall (fun o => sized_f (op_full o)) ops ->
  run_ops (with_extras (create_multi tracks) 0 0 post []) ops = (cs, Some fr) ->
  encode_frag opt fr = Ok fe ->
  moof_size fe + md_header_size (fr_mdat fe) + lenN (md_data (fr_mdat fr)) < 2147483648 ->
  pos0 < 4611686018427387904 ->
  consistent (added_fulls tracks (tx_track tx) ops) ->
  frag_width_wf fe = true -> seq < 4294967296 ->
  enc_fragment seq fe = Ok bytes ->
  exists m payload d,
    dec_top (length bytes) bytes = Ok [BMoof (moof_size fe) m; BMdat (md_header_size (fr_mdat fe)) payload] /\
    bytes_view m payload pos0 (moof_size fe) (md_header_size (fr_mdat fe)) = Some d /\
    get_full_samples d (Some tx) = Ok (added_fulls tracks (tx_track tx) ops).
Proof.
  intros Hnd Hlen Hfull Hsz Hrun Henc Hg Hpos Hcons Hww Hq Hb.
  pose proof (ghost_ginv tracks ops cs _ fr Hnd Hlen Hfull (create_multi_extras_ginv _ _ _ _ _ Hnd) Hrun) as Hi.
  assert (Hw : frag_codec_wf fe = true).
  { apply frag_codec_of_width; [exact Hww|]. eapply encode_frag_bare; [|exact Henc]. eapply ginv_present. exact Hi. }
  destruct Hi as (_ & _ & _ & _ & Hdat & Hpar & Hlaz).
  destruct (encode_frag_mdat opt fr fe Henc) as (El & Ed & Ep).
  destruct (encode_frag_pre_post opt fr fe Henc) as (Epre & _).
  destruct (run_ops_pre_post _ _ _ _ Hrun) as (Rpre & _).
  assert (Hpre0 : fr_pre fe = 0) by (rewrite Epre, Rpre; reflexivity).
  assert (Hlz0 : md_lazy (fr_mdat fe) = 0) by (rewrite El; exact Hlaz).
  assert (Hmw : mdat_wf (fr_mdat fe) = true).
  { unfold mdat_wf. rewrite (encode_frag_touched opt fr fe Henc), andb_true_r.
    assert (Hpay : md_payload (fr_mdat fe) = lenN (md_written (fr_mdat fe)) /\ md_payload (fr_mdat fe) = lenN (md_data (fr_mdat fr))).
    { unfold md_payload, md_written, md_data_length. rewrite Hlz0, Ep, Hpar, Ed. cbn. split; reflexivity. }
    destruct Hpay as [P1 P2]. apply andb_true_iff. split; [apply N.eqb_eq; exact P1|apply N.ltb_lt; lia]. }
  destruct (bytes_view_read seq fe pos0 (Some tx) Hpre0 Hlz0) as (d & Ev & Er).
  exists (wire_dmoof seq fe), (md_written (fr_mdat fe)), d.
  split; [apply dec_enc_fragment; assumption|]. split; [exact Ev|].
  rewrite Er. apply (roundtrip_multi_final tracks 0 0 post [] ops cs fr opt fe pos0 tx); try assumption.
  rewrite Hpre0. lia.
Qed.

(* ------------------------------------------------------------------ the optimiser and DecodeTrun's guard (C05-F7) *)
(* after fix 6c7a902: whatever OptimizeTfhdTrun makes of a trun that carries all four per-sample fields, DecodeTrun /
   DecodeTrunSR decode its bytes, for ANY number of samples (fields within their wire widths) *)
Lemma optimized_trun_decodes tf tr tf' tr' d :
  all_present tr = true -> optimize tf tr = Ok (tf', tr') -> trun_fields_wf (tr_with_doff tr' d) = true ->
  dec_trun (trun_size (tr_with_doff tr' d)) (enc_trun_body (tr_with_doff tr' d)) = Ok (wire_trun (tr_with_doff tr' d)).
Proof.
  intros Hp Ho Hw. apply dec_enc_trun. apply trun_wf_of_bare; [exact Hw|].
  destruct (present_bare tr Hp) as [Hc Hb]. exact (optimize_bare _ _ _ _ Hc Hb Ho).
Qed.

(* before the fix (optimize_f7): 1025 samples with equal duration, size and flags and zero composition offsets lost all
   four per-sample fields, and DecodeTrun / DecodeTrunSR refuse a trun with more than 1024 samples and no per-sample
   field ("sampleCount is big but no sample data present").  Reproduced on the pinned code: finding C05-F7 (fixed). *)
Lemma big_uniform_refuted : exists tf tr tf' tr',
  all_present tr = true /\ forallb sample_wf (tr_samples tr) = true /\
  optimize_f7 tf tr = Ok (tf', tr') /\
  dec_trun (trun_size (tr_with_doff tr' 100)) (enc_trun_body (tr_with_doff tr' 100)) = Err.
Proof.
  exists (create_tfhd 1), (mkTrun 1 3841 0 0 (repeat (mkSample 16842752 10 1 0) 1025) 0).
  eexists; eexists. split; [vm_compute; reflexivity|]. split; [vm_compute; reflexivity|].
  split; [vm_compute; reflexivity|]. vm_compute. reflexivity.
Qed.

Lemma tfdt_codec t :
  t < 18446744073709551616 -> dec_tfdt (tfdt_body (set_base t)) = Ok (set_base t) /\
                              enc_tfdt (set_base t) = box T_TFDT (tfdt_body (set_base t)).
Proof. intros H. split; [apply dec_tfdt_body|apply enc_tfdt_box]; apply set_base_wf; exact H. Qed.
