(* C05RoundProofs.v — composition: history -> encode (optimise, data offsets) -> decoded view ->
   GetFullSamples gives back the full samples added to each track (structure level). *)
From Coq Require Import Permutation.
From V.lib Require Import Base.
From V.c05 Require Import C05Model C05FragModel C05OptProofs C05HistProofs C05OffProofs C05GhostProofs C05ReadProofs.

(* ------------------------------------------------------------------ the runs of one track, oldest first *)
Fixpoint specs_of (T : N) (g : fruns) : list (N * list fullsample) :=
  match g with
  | [] => []
  | (T', l) :: rest => specs_of T rest ++ (if T' =? T then [(lenN rest, l)] else [])
  end.

Definition canon_of (p : N * list fullsample) : trun := canon (fst p) (map fs_s (snd p)).

Lemma mk_truns_specs T g : mk_truns T (runs_of g) = map canon_of (specs_of T g).
Proof.
  induction g as [|[T' l] rest IH]; cbn [runs_of map mk_truns specs_of fst snd]; [reflexivity|].
  fold (runs_of rest). rewrite map_app, IH, lenN_runs_of. destruct (T' =? T); reflexivity.
Qed.

Lemma specs_fulls T g : flat_map snd (specs_of T g) = track_fulls T g.
Proof.
  induction g as [|[T' l] rest IH]; cbn [specs_of track_fulls]; [reflexivity|].
  rewrite flat_map_app, IH. destruct (T' =? T); cbn [flat_map snd]; rewrite ?app_nil_r; reflexivity.
Qed.

Definition sized (g : fruns) : Prop := Forall (fun p => Forall sized_f (snd p)) g.

Lemma specs_sized T g : sized g -> Forall (fun p => Forall sized_f (snd p)) (specs_of T g).
Proof.
  induction 1 as [|[T' l] rest Hl _ IH]; cbn [specs_of]; [constructor|].
  apply Forall_app. split; [exact IH|]. destruct (T' =? T); repeat constructor. exact Hl.
Qed.

Lemma all_data_app a b : all_data (a ++ b) = all_data b ++ all_data a.
Proof.
  induction a as [|[T l] a IH]; cbn [all_data app]; [rewrite app_nil_r; reflexivity|].
  rewrite IH, app_assoc. reflexivity.
Qed.

Lemma sizes_sum_sized l : Forall sized_f l -> sizes_sum (map fs_s l) = lenN (flat_map fs_data l).
Proof.
  induction 1 as [|f l Hf _ IH]; [reflexivity|]. unfold sizes_sum in *. cbn [map sumN flat_map].
  rewrite lenN_app, IH. unfold sized_f in Hf. rewrite Hf. reflexivity.
Qed.

Lemma tsum_prs_sized g : sized g -> tsum (prs (runs_of g)) = lenN (all_data g).
Proof.
  induction 1 as [|[T l] rest Hl _ IH]; [reflexivity|].
  cbn [runs_of map prs tsum all_data fst snd]. fold (runs_of rest).
  rewrite lenN_app, IH, sizes_sum_sized by exact Hl. lia.
Qed.

Lemma wsum_all_lt P k : Forall (fun p => fst p < k) P -> wsum P k = tsum P.
Proof.
  induction 1 as [|[w z] t Hw _ IH]; cbn [wsum tsum]; [reflexivity|]. cbn [fst] in Hw.
  destruct (w <? k) eqn:E; [|apply N.ltb_ge in E; lia]. rewrite IH. reflexivity.
Qed.

Lemma wsum_prs_newer newer tail k :
  k <= lenN tail -> wsum (prs (newer ++ tail)) k = wsum (prs tail) k.
Proof.
  intros Hk. induction newer as [|[T l] n IH]; [reflexivity|].
  cbn [app prs wsum]. destruct (lenN (n ++ tail) <? k) eqn:E.
  - apply N.ltb_lt in E. rewrite lenN_app in E. lia.
  - rewrite IH. reflexivity.
Qed.

Lemma run_pos_at newer T l rest :
  sized rest ->
  run_pos (runs_of (newer ++ (T, l) :: rest)) (lenN rest) = lenN (all_data rest).
Proof.
  intros Hs. unfold run_pos, runs_of. rewrite map_app. cbn [map fst snd]. fold (runs_of rest). fold (runs_of newer).
  rewrite wsum_prs_newer by (rewrite lenN_cons, lenN_runs_of; lia).
  cbn [prs wsum]. rewrite lenN_runs_of, N.ltb_irrefl. cbn [N.add].
  rewrite wsum_all_lt; [apply tsum_prs_sized; exact Hs|].
  rewrite <- (lenN_runs_of rest). apply prs_wons_lt.
Qed.

Lemma specs_placed T : forall g newer,
  sized g ->
  Forall (placed (all_data (newer ++ g)) (runs_of (newer ++ g))) (specs_of T g).
Proof.
  induction g as [|[T' l] rest IH]; intros newer Hs; cbn [specs_of]; [constructor|].
  inversion Hs as [|? ? Hl Hs']; subst. apply Forall_app. split.
  - specialize (IH (newer ++ [(T', l)]) Hs'). rewrite <- app_assoc in IH. exact IH.
  - destruct (T' =? T); [|constructor]. constructor; [|constructor].
    exists (all_data rest), (all_data newer). cbn [fst snd]. split.
    + rewrite all_data_app. cbn [all_data]. rewrite <- app_assoc. reflexivity.
    + symmetry. apply run_pos_at. exact Hs'.
Qed.

(* ------------------------------------------------------------------ retime over the runs of a track *)
Lemma retime_chain_flat specs : forall t, t < 18446744073709551616 ->
  retime_chain t specs = retime t (flat_map snd specs).
Proof.
  induction specs as [|p specs IH]; intros t Ht; cbn [retime_chain flat_map]; [reflexivity|].
  rewrite retime_app by exact Ht. rewrite IH; [reflexivity|]. unfold u64. apply N.mod_lt. discriminate.
Qed.

(* ------------------------------------------------------------------ the fragment after optimisation *)
(* a trun of the encoded fragment vs the trun the history built; h1 is the (possibly optimised) tfhd *)
Definition ropt (h1 : tfhd) (r1 r : trun) : Prop :=
  tr_won r1 = tr_won r /\ tr_samples r1 = tr_samples r /\ has_doff r1 = has_doff r /\
  forall tx, resolve h1 tx (wire_trun r1) = tr_samples r.

Definition topt (t1 t : traf) : Prop :=
  tf_dt t1 = tf_dt t /\ track_of t1 = track_of t /\ tf_has_bdo (tf_hd t1) = tf_has_bdo (tf_hd t) /\
  Forall2 (ropt (tf_hd t1)) (tf_truns t1) (tf_truns t).

Lemma Forall2_refl_in {A} (R : A -> A -> Prop) l : (forall x, In x l -> R x x) -> Forall2 R l l.
Proof.
  induction l as [|a l IH]; intros H; constructor; [apply H; left; reflexivity|].
  apply IH. intros x Hx. apply H. right. exact Hx.
Qed.

Lemma ropt_present h r : all_present r = true -> ropt h r r.
Proof. intros H. repeat split. intros tx. apply resolve_all_present. exact H. Qed.

Lemma topt_refl t : Forall (fun r => all_present r = true) (tf_truns t) -> topt t t.
Proof.
  intros H. repeat split. apply Forall2_refl_in. intros r Hr. apply ropt_present.
  rewrite Forall_forall in H. apply H. exact Hr.
Qed.

Lemma canon_present k ss : all_present (canon k ss) = true.
Proof. reflexivity. Qed.

Lemma ginv_present tracks g fr :
  ginv tracks g fr -> Forall (fun t => Forall (fun r => all_present r = true) (tf_truns t)) (fr_trafs fr).
Proof.
  intros ((_ & _ & Hf) & _). eapply Forall_impl; [|exact Hf]. cbn beta. intros t Ht.
  rewrite Ht, mk_truns_specs. apply Forall_forall. intros r Hr. apply in_map_iff in Hr.
  destruct Hr as (p & <- & _). apply canon_present.
Qed.

Definition same_rest (a b : frag) : Prop :=
  fr_mdat a = fr_mdat b /\ fr_pre a = fr_pre b /\ fr_moofx a = fr_moofx b /\ fr_post a = fr_post b /\
  fr_next a = fr_next b.

Lemma opt_first_props tracks g fr (opt : bool) fr1 :
  ginv tracks g fr ->
  (if opt then optimize_first fr else Ok fr) = Ok fr1 ->
  same_rest fr1 fr /\ Forall2 topt (fr_trafs fr1) (fr_trafs fr).
Proof.
  intros Hi H. pose proof (ginv_present tracks g fr Hi) as Hp.
  assert (Hrefl : Forall2 topt (fr_trafs fr) (fr_trafs fr)).
  { apply Forall2_refl_in. intros t Ht. apply topt_refl. rewrite Forall_forall in Hp. apply Hp. exact Ht. }
  destruct opt; [|injection H as <-; split; [repeat split|exact Hrefl]].
  unfold optimize_first in H. destruct (fr_trafs fr) as [|t ts] eqn:Et.
  { injection H as <-. split; [repeat split|rewrite Et; constructor]. }
  destruct (tf_truns t) as [|r rs] eqn:Er.
  { injection H as <-. split; [repeat split|rewrite Et; exact Hrefl]. }
  destruct (optimize (tf_hd t) r) as [[h' r']| | |] eqn:Eo; try discriminate. cbn [rbind] in H.
  injection H as <-. split; [repeat split|]. cbn [fr_with fr_trafs].
  inversion Hrefl as [|? ? ? ? Ht0 Hts]; subst. inversion Hp as [|? ? Hpt _]; subst.
  rewrite Er in Hpt. inversion Hpt as [|? ? Hpr Hprs]; subst.
  pose proof (optimize_frame _ _ _ _ _ Eo) as (F1 & F2 & F3 & F4 & F5). cbn [fst snd] in *.
  constructor; [|exact Hts].
  unfold topt, track_of. cbn [tf_dt tf_hd tf_truns]. rewrite Er. repeat split; try assumption.
  constructor.
  - repeat split; try assumption. intros tx.
    rewrite (optimize_preserves_resolve _ _ tx _ _ Eo). apply resolve_all_present. exact Hpr.
  - apply Forall2_refl_in. intros x Hx. apply ropt_present. rewrite Forall_forall in Hprs. apply Hprs. exact Hx.
Qed.

Lemma pr_all_truns ts1 ts : Forall2 topt ts1 ts -> map pr (all_truns ts1) = map pr (all_truns ts).
Proof.
  induction 1 as [|t1 t ts1 ts (_ & _ & _ & Hr) _ IH]; [reflexivity|].
  unfold all_truns in *. cbn [flat_map]. rewrite !map_app, IH. f_equal.
  clear -Hr. induction Hr as [|r1 r l1 l (Hw & Hs & _) _ IHr]; [reflexivity|].
  cbn [map]. rewrite IHr. f_equal. unfold pr, size_of_data. rewrite Hw, Hs. reflexivity.
Qed.

(* sizes do not depend on data offsets *)
Lemma moof_size_with_offsets fr f m n : moof_size (fr_with fr (with_offsets fr f) m n) = moof_size fr.
Proof.
  unfold moof_size, with_offsets. cbn [fr_with fr_trafs fr_moofx]. f_equal. f_equal. f_equal.
  rewrite map_map. apply map_ext. intros t. unfold traf_size. cbn [tf_hd tf_dt tf_truns tf_extra].
  rewrite map_map. reflexivity.
Qed.

Lemma md_touch_idem m : md_size_touch (md_size_touch m) = md_size_touch m.
Proof.
  unfold md_size_touch, md_payload, md_data_length. cbn [md_data md_parts md_lazy md_large].
  f_equal. destruct (md_large m); cbn [orb]; [reflexivity|]. apply orb_diag.
Qed.

Lemma all_truns_perm tracks g fr :
  NoDup tracks -> ginv tracks g fr ->
  Permutation (map pr (all_truns (fr_trafs fr))) (prs (runs_of g)).
Proof.
  intros Hnd (Hm & Htr & Hn & _). rewrite (all_truns_multi fr (runs_of g) Hm), Htr.
  apply truns_perm_prs; [exact Hnd|].
  unfold runs_of. apply Forall_forall. intros p Hp. apply in_map_iff in Hp. destruct Hp as (q & <- & Hq).
  cbn [fst]. unfold nonempty_in in Hn. rewrite Forall_forall in Hn. exact (proj1 (Hn q Hq)).
Qed.

(* the shape of the encoded fragment *)
Lemma encode_shape tracks g fr opt fe :
  NoDup tracks -> ginv tracks g fr -> sized g ->
  encode_frag opt fr = Ok fe ->
  let base := moof_size fe + md_header_size (fr_mdat fe) in
  base + lenN (all_data g) < 2147483648 ->
  exists fr1,
    Forall2 topt (fr_trafs fr1) (fr_trafs fr) /\
    fr_trafs fe = with_offsets fr1 (fun r => Z.of_N (base + run_pos (runs_of g) (tr_won r))) /\
    fr_mdat fe = md_size_touch (fr_mdat fr) /\ fr_pre fe = fr_pre fr.
Proof.
  intros Hnd Hi Hs H base Hg. unfold encode_frag in H.
  destruct (if opt then optimize_first fr else Ok fr) as [fr1| | |] eqn:E1; try discriminate. cbn [rbind] in H.
  destruct (opt_first_props tracks g fr opt fr1 Hi E1) as ((Em & Ep & Ex & Eq & En) & HT).
  exists fr1. split; [exact HT|].
  assert (Hperm : Permutation (map pr (all_truns (fr_trafs fr1))) (prs (runs_of g))).
  { rewrite (pr_all_truns _ _ HT). apply (all_truns_perm tracks); assumption. }
  set (m1 := md_size_touch (fr_mdat fr1)) in *.
  set (base1 := moof_size fr1 + md_header_size m1).
  (* first: sizes of fe in terms of fr1, whatever set_offsets does *)
  assert (Hso : set_offsets fr1 =
                fr_with fr1 (with_offsets fr1 (fun r => Z.of_N (base1 + run_pos (runs_of g) (tr_won r)))) m1 (fr_next fr1)
                \/ base1 + tsum (prs (runs_of g)) >= 2147483648).
  { destruct (N.lt_ge_cases (base1 + tsum (prs (runs_of g))) 2147483648) as [Hlt|Hge]; [left|right; lia].
    apply set_offsets_runs; assumption. }
  assert (Hsz : moof_size (set_offsets fr1) = moof_size fr1 /\
                md_header_size (md_size_touch (fr_mdat (set_offsets fr1))) = md_header_size m1).
  { unfold set_offsets.
    destruct (negb (existsb (fun r => negb (tr_won r =? 0)) (all_truns (fr_trafs fr1))) && (1 <? lenN (all_truns (fr_trafs fr1)))) eqn:Ec.
    - exfalso. apply andb_true_iff in Ec. destruct Ec as [Ea Eb]. apply negb_true_iff in Ea.
      assert (Hd : NoDup (map tr_won (all_truns (fr_trafs fr1)))).
      { replace (map tr_won (all_truns (fr_trafs fr1))) with (map fst (map pr (all_truns (fr_trafs fr1))))
          by (rewrite map_map; reflexivity).
        eapply Permutation_NoDup; [apply Permutation_map; symmetry; exact Hperm|apply prs_nodup]. }
      pose proof (all_zero_short _ Ea Hd). apply N.ltb_lt in Eb. unfold lenN in Eb. lia.
    - split.
      + unfold moof_size. cbn [fr_with fr_trafs fr_moofx]. f_equal. f_equal. f_equal.
        rewrite map_map. apply map_ext. intros t. unfold traf_size. cbn [tf_hd tf_dt tf_truns tf_extra].
        rewrite map_map. reflexivity.
      + cbn [fr_with fr_mdat]. unfold m1. rewrite md_touch_idem. reflexivity. }
  destruct Hsz as [Hsz1 Hsz2].
  destruct (fr_trafs (set_offsets fr1)) as [|t ts] eqn:Et; try discriminate.
  destruct (existsb doff_unset (tf_truns t)); try discriminate.
  destruct (existsb doff_unset (all_truns ts)); try discriminate.
  injection H as <-. cbn [fr_with fr_trafs fr_mdat fr_pre] in *.
  assert (Hbase : base = base1).
  { unfold base, base1. rewrite <- Et. cbn [fr_with fr_mdat]. rewrite Hsz2. f_equal. exact Hsz1. }
  revert Hso Hg. rewrite Hbase. intros Hso Hg.
  destruct Hso as [Hso|Hbad]; [|rewrite tsum_prs_sized in Hbad by exact Hs; lia].
  rewrite <- Et. rewrite Hso. cbn [fr_with fr_trafs fr_mdat fr_pre]. split; [reflexivity|]. split.
  - unfold m1. rewrite md_touch_idem, Em. reflexivity.
  - exact Ep.
Qed.

(* ------------------------------------------------------------------ reading back *)
Lemma find_map {A B} (p : B -> bool) (f : A -> B) l : find p (map f l) = option_map f (find (fun a => p (f a)) l).
Proof. induction l as [|a l IH]; cbn [map find option_map]; [reflexivity|]. destruct (p (f a)); [reflexivity|exact IH]. Qed.

Lemma Forall2_in_l {A B} (R : A -> B -> Prop) l1 l2 x :
  Forall2 R l1 l2 -> In x l1 -> exists y, In y l2 /\ R x y.
Proof.
  induction 1 as [|a b l1 l2 Hab _ IH]; intros Hin; [destruct Hin|].
  destruct Hin as [<-|Hin]; [exists b; split; [left; reflexivity|exact Hab]|].
  destruct (IH Hin) as (y & Hy & Hr). exists y. split; [right; exact Hy|exact Hr].
Qed.

Lemma topt_tracks ts1 ts : Forall2 topt ts1 ts -> map track_of ts1 = map track_of ts.
Proof. induction 1 as [|t1 t l1 l (_ & Ht & _) _ IH]; [reflexivity|]. cbn [map]. rewrite Ht, IH. reflexivity. Qed.

Lemma track_fulls_notin tracks T g : nonempty_in tracks g -> ~ In T tracks -> track_fulls T g = [].
Proof.
  induction 1 as [|[T' l] rest [Hin _] _ IH]; intros Hn; [reflexivity|]. cbn [track_fulls]. rewrite (IH Hn).
  cbn [fst] in Hin. destruct (T' =? T) eqn:E; [apply N.eqb_eq in E; subst; contradiction|reflexivity].
Qed.

Lemma fruns_add_sized g T f : sized g -> sized_f f -> sized (fruns_add g T f).
Proof.
  intros Hs Hf. destruct g as [|[T' l] rest]; cbn [fruns_add].
  - repeat constructor. exact Hf.
  - inversion Hs as [|? ? Hl Hr]; subst. destruct (T' =? T).
    + constructor; [|exact Hr]. cbn [snd] in *. apply Forall_app. split; [exact Hl|repeat constructor; exact Hf].
    + constructor; [repeat constructor; exact Hf|exact Hs].
Qed.

Lemma ghost_sized tracks ops : forall g,
  sized g -> Forall (fun o => sized_f (op_full o)) ops -> sized (ghost tracks g ops).
Proof.
  induction ops as [|o ops IH]; intros g Hs Ho; cbn [ghost]; [exact Hs|].
  inversion Ho as [|? ? Ho1 Ho2]; subst. destruct (op_track o) as [T|]; [|apply IH; assumption].
  destruct (existsb (N.eqb T) tracks); apply IH; try assumption. apply fruns_add_sized; assumption.
Qed.

Lemma resolve_with_doff h tx r z : resolve h tx (wire_trun (tr_with_doff r z)) = resolve h tx (wire_trun r).
Proof. reflexivity. Qed.

Lemma good_of_ropt h tx base rr (f : trun -> Z) truns1 specs :
  (forall r, f r = Z.of_N (base + run_pos rr (tr_won r))) ->
  Forall2 (ropt h) truns1 (map canon_of specs) ->
  Forall2 (good h tx base rr) (map wire_trun (map (fun r => tr_with_doff r (f r)) truns1)) specs.
Proof.
  intros Hf. revert truns1. induction specs as [|p specs IH]; intros truns1 H; inversion H as [|r1 ? l1 ? Hr Hl]; subst.
  - constructor.
  - cbn [map]. constructor; [|apply IH; exact Hl].
    destruct Hr as (Hw & Hs & Hd & Hres). unfold good.
    assert (Hdo : has_doff r1 = true) by (rewrite Hd; reflexivity).
    split; [exact Hdo|]. split.
    + cbn [wire_trun tr_doff]. change (has_doff (tr_with_doff r1 (f r1))) with (has_doff r1). rewrite Hdo.
      cbn [tr_with_doff tr_doff]. rewrite Hf, Hw. reflexivity.
    + rewrite resolve_with_doff, Hres. reflexivity.
Qed.

Lemma df_data_full fe pos0 :
  md_lazy (fr_mdat fe) = 0 -> md_parts (fr_mdat fe) = [] ->
  df_data (decoded_view fe pos0 []) = md_data (fr_mdat fe).
Proof.
  intros H1 H2. unfold decoded_view. cbn [df_data]. rewrite H1. change (0 <? 0) with false. cbn iota.
  unfold md_written. rewrite H2. reflexivity.
Qed.

Lemma moof_size_pos fr : 0 < moof_size fr.
Proof. unfold moof_size. lia. Qed.

(* reading one traf of the decoded fragment *)
Lemma read_traf tracks g fr fr1 (d : dfrag) base otx t1 :
  ginv tracks g fr -> sized g -> Forall2 topt (fr_trafs fr1) (fr_trafs fr) ->
  df_data d = all_data g -> df_payload_abs d = df_moof_start d + base -> 0 < base ->
  df_moof_start d + base + lenN (all_data g) < 9223372036854775808 ->
  lenN (all_data g) < 4294967296 ->
  In t1 (fr_trafs fr1) ->
  let A := track_fulls (track_of t1) g in
  td_base (tfdt_of A) < 18446744073709551616 ->
  frag_full_samples (tf_hd t1) otx
    (map wire_trun (map (fun r => tr_with_doff r (Z.of_N (base + run_pos (runs_of g) (tr_won r)))) (tf_truns t1)))
    (td_base (tf_dt t1)) d
  = Ok (retime (td_base (tfdt_of A)) A).
Proof.
  intros (Hm & Htr & Hn & Hf & _) Hs HT Hdd Hpa Hb0 Hbig H32 Hin1 A Hbt.
  destruct (Forall2_in_l _ _ _ _ HT Hin1) as (t & Hin & (Hdt & Htk & Hbdo & Hro)).
  rewrite Forall_forall in Hf. destruct (Hf t Hin) as [Hhd Htd].
  destruct Hm as (_ & _ & Hft). rewrite Forall_forall in Hft. pose proof (Hft t Hin) as Htruns.
  fold (track_of t) in Htruns. rewrite mk_truns_specs in Htruns.
  unfold A in *. rewrite Htk in *.
  rewrite (ffs_spec (tf_hd t1) otx d base (runs_of g)) with (specs := specs_of (track_of t) g).
  - rewrite retime_chain_flat, specs_fulls; [|rewrite Hdt, Htd; exact Hbt].
    rewrite Hdt, Htd. reflexivity.
  - rewrite Hbdo, Hhd. reflexivity.
  - exact Hpa.
  - exact Hb0.
  - rewrite Hdd. exact Hbig.
  - rewrite Hdd. exact H32.
  - apply good_of_ropt; [intros r; reflexivity|]. rewrite <- Htruns. exact Hro.
  - rewrite Hdd. apply (specs_placed (track_of t) g []). exact Hs.
  - apply specs_sized. exact Hs.
Qed.

(* the decoded view of the encoded fragment, in terms of the optimised fragment fr1 *)
Lemma decoded_shape tracks g fr opt fe pos0 :
  NoDup tracks -> ginv tracks g fr -> sized g ->
  encode_frag opt fr = Ok fe ->
  let base := moof_size fe + md_header_size (fr_mdat fe) in
  base + lenN (all_data g) < 2147483648 ->
  let d := decoded_view fe pos0 [] in
  exists fr1,
    Forall2 topt (fr_trafs fr1) (fr_trafs fr) /\
    df_trafs d = map (fun t => mkTraf (tf_hd t) (tf_dt t)
                   (map wire_trun (map (fun r => tr_with_doff r (Z.of_N (base + run_pos (runs_of g) (tr_won r)))) (tf_truns t)))
                   (tf_extra t)) (fr_trafs fr1) /\
    df_data d = all_data g /\ df_moof_start d = pos0 + fr_pre fe /\ df_payload_abs d = df_moof_start d + base.
Proof.
  intros Hnd Hi Hs Henc base Hguard d.
  destruct (encode_shape tracks g fr opt fe Hnd Hi Hs Henc Hguard) as (fr1 & HT & Etr & Emd & Epre).
  exists fr1. split; [exact HT|]. destruct Hi as (_ & _ & _ & _ & Hdat & Hpar & Hlaz).
  split; [unfold d; cbn [decoded_view df_trafs]; rewrite Etr; unfold with_offsets; rewrite map_map; reflexivity|].
  split; [unfold d; rewrite df_data_full; rewrite Emd; [exact Hdat|exact Hlaz|exact Hpar]|].
  split; [reflexivity|]. unfold d, base. cbn [decoded_view df_payload_abs df_moof_start]. lia.
Qed.

Lemma roundtrip_ginv tracks g fr opt fe pos0 tx :
  NoDup tracks -> ginv tracks g fr -> sized g ->
  encode_frag opt fr = Ok fe ->
  let A := track_fulls (tx_track tx) g in
  moof_size fe + md_header_size (fr_mdat fe) + lenN (all_data g) < 2147483648 ->
  pos0 + fr_pre fe < 4611686018427387904 ->
  td_base (tfdt_of A) < 18446744073709551616 ->
  get_full_samples (decoded_view fe pos0 []) (Some tx) = Ok (retime (td_base (tfdt_of A)) A).
Proof.
  intros Hnd Hi Hs Henc A Hguard Hpos Hbt.
  destruct (decoded_shape tracks g fr opt fe pos0 Hnd Hi Hs Henc Hguard) as (fr1 & HT & Etrafs & Hdd & Hms & Hpa).
  set (base := moof_size fe + md_header_size (fr_mdat fe)) in *.
  unfold get_full_samples. rewrite Etrafs, find_map. cbn [tf_hd].
  generalize dependent (decoded_view fe pos0 []). intros d _ Hdd Hms Hpa.
  destruct (find (fun a => tf_track (tf_hd a) =? tx_track tx) (fr_trafs fr1)) as [t1|] eqn:Efind; cbn [option_map rbind].
  - apply find_some in Efind. destruct Efind as [Hin1 Et1]. apply N.eqb_eq in Et1.
    cbn [tf_truns tf_dt tf_hd]. fold (track_of t1) in Et1. unfold A. rewrite <- Et1.
    apply (read_traf tracks g fr fr1 d base (Some tx) t1); try assumption.
    + unfold base. pose proof (moof_size_pos fe). lia.
    + rewrite Hms. unfold base in *. lia.
    + unfold base in *. lia.
    + rewrite Et1. exact Hbt.
  - destruct Hi as (_ & Htr & Hn & _).
    assert (Hnot : ~ In (tx_track tx) tracks).
    { intros Hin. rewrite <- Htr, <- (topt_tracks _ _ HT) in Hin. apply in_map_iff in Hin.
      destruct Hin as (t1 & Ht1 & Hin1). pose proof (find_none _ _ Efind t1 Hin1) as Hx. cbn beta in Hx.
      unfold track_of in Ht1. rewrite Ht1, N.eqb_refl in Hx. discriminate. }
    unfold A. rewrite (track_fulls_notin tracks _ g Hn Hnot). reflexivity.
Qed.

(* trex == nil: GetFullSamples reads the first traf *)
Lemma roundtrip_ginv_nil tracks g fr opt fe pos0 T0 rest :
  tracks = T0 :: rest ->
  NoDup tracks -> ginv tracks g fr -> sized g ->
  encode_frag opt fr = Ok fe ->
  let A := track_fulls T0 g in
  moof_size fe + md_header_size (fr_mdat fe) + lenN (all_data g) < 2147483648 ->
  pos0 + fr_pre fe < 4611686018427387904 ->
  td_base (tfdt_of A) < 18446744073709551616 ->
  get_full_samples (decoded_view fe pos0 []) None = Ok (retime (td_base (tfdt_of A)) A).
Proof.
  intros Etk Hnd Hi Hs Henc A Hguard Hpos Hbt.
  destruct (decoded_shape tracks g fr opt fe pos0 Hnd Hi Hs Henc Hguard) as (fr1 & HT & Etrafs & Hdd & Hms & Hpa).
  set (base := moof_size fe + md_header_size (fr_mdat fe)) in *.
  unfold get_full_samples. rewrite Etrafs.
  generalize dependent (decoded_view fe pos0 []). intros d _ Hdd Hms Hpa.
  pose proof (topt_tracks _ _ HT) as Htk. pose proof Hi as (Hm & Htr & Hrest). rewrite Htr, Etk in Htk.
  destruct (fr_trafs fr1) as [|t1 ts1] eqn:E1; [discriminate|]. cbn [map] in Htk. injection Htk as Ht1 _.
  cbn [map rbind tf_hd tf_dt tf_truns]. unfold A. rewrite <- Ht1.
  apply (read_traf tracks g fr fr1 d base None t1); try assumption.
  - rewrite E1. exact HT.
  - unfold base. pose proof (moof_size_pos fe). lia.
  - rewrite Hms. unfold base in *. lia.
  - unfold base in *. lia.
  - rewrite E1. left. reflexivity.
  - rewrite Ht1. exact Hbt.
Qed.

Lemma ghost_ginv tracks ops cs fr0 fr :
  NoDup tracks -> N.of_nat (length ops) < 4294967296 -> forallb is_full_to ops = true ->
  ginv tracks [] fr0 -> run_ops fr0 ops = (cs, Some fr) -> ginv tracks (ghost tracks [] ops) fr.
Proof.
  intros Hnd Hlen Hfull H0 Hrun.
  assert (Hc0 : count [] + N.of_nat (length ops) < 4294967296) by (cbn [count]; lia).
  exact (history_ginv tracks ops [] fr0 cs fr Hnd Hc0 Hfull H0 Hrun).
Qed.

Lemma roundtrip_multi tracks ops cs fr0 fr opt fe pos0 tx :
  NoDup tracks -> N.of_nat (length ops) < 4294967296 -> forallb is_full_to ops = true ->
  Forall (fun o => sized_f (op_full o)) ops ->
  ginv tracks [] fr0 -> run_ops fr0 ops = (cs, Some fr) ->
  encode_frag opt fr = Ok fe ->
  let g := ghost tracks [] ops in
  let A := track_fulls (tx_track tx) g in
  moof_size fe + md_header_size (fr_mdat fe) + lenN (all_data g) < 2147483648 ->
  pos0 + fr_pre fe < 4611686018427387904 ->
  td_base (tfdt_of A) < 18446744073709551616 ->
  get_full_samples (decoded_view fe pos0 []) (Some tx) = Ok (retime (td_base (tfdt_of A)) A).
Proof.
  intros Hnd Hlen Hfull Hsz H0 Hrun Henc g A Hguard Hpos Hbt.
  apply (roundtrip_ginv tracks g fr opt fe pos0 tx); try assumption.
  - exact (ghost_ginv tracks ops cs fr0 fr Hnd Hlen Hfull H0 Hrun).
  - apply ghost_sized; [constructor|exact Hsz].
Qed.

(* ------------------------------------------------------------------ statements in terms of the op list *)
(* the full samples a history adds to track T (additions to ids outside `tracks` are refused) *)
Definition added_fulls (tracks : list N) (T : N) (ops : list op) : list fullsample :=
  flat_map (fun o => match op_track o with
                     | Some T' => if (T' =? T) && existsb (N.eqb T') tracks then [op_full o] else []
                     | None => []
                     end) ops.

Lemma track_fulls_ghost tracks T ops : forall g,
  track_fulls T (ghost tracks g ops) = track_fulls T g ++ added_fulls tracks T ops.
Proof.
  induction ops as [|o ops IH]; intros g; cbn [ghost added_fulls flat_map]; [rewrite app_nil_r; reflexivity|].
  fold (added_fulls tracks T ops). destruct (op_track o) as [T'|]; [|apply IH].
  destruct (existsb (N.eqb T') tracks).
  - rewrite IH, track_fulls_add, andb_true_r. destruct (T' =? T); rewrite <- ?app_assoc; reflexivity.
  - rewrite andb_false_r. apply IH.
Qed.

Lemma all_data_ghost tracks ops : forall g,
  all_data (ghost tracks g ops) =
  all_data g ++ flat_map (fun o => match op_track o with
                                   | Some T' => if existsb (N.eqb T') tracks then op_data o else []
                                   | None => []
                                   end) ops.
Proof.
  induction ops as [|o ops IH]; intros g; cbn [ghost flat_map]; [rewrite app_nil_r; reflexivity|].
  destruct (op_track o) as [T'|]; [|apply IH].
  destruct (existsb (N.eqb T') tracks); [|apply IH].
  rewrite IH, all_data_add. cbn [op_full fs_data]. rewrite <- app_assoc. reflexivity.
Qed.

(* decode times consistent with the durations: what GetFullSamples can reproduce *)
Definition consistent (l : list fullsample) : Prop :=
  match l with [] => True | f :: _ => fs_dts f < 18446744073709551616 /\ retime (fs_dts f) l = l end.

Lemma roundtrip_multi_ops tracks ops cs fr0 fr opt fe pos0 tx :
  NoDup tracks -> N.of_nat (length ops) < 4294967296 -> forallb is_full_to ops = true ->
  Forall (fun o => sized_f (op_full o)) ops ->
  ginv tracks [] fr0 -> run_ops fr0 ops = (cs, Some fr) ->
  encode_frag opt fr = Ok fe ->
  moof_size fe + md_header_size (fr_mdat fe) + lenN (md_data (fr_mdat fr)) < 2147483648 ->
  pos0 + fr_pre fe < 4611686018427387904 ->
  consistent (added_fulls tracks (tx_track tx) ops) ->
  get_full_samples (decoded_view fe pos0 []) (Some tx) = Ok (added_fulls tracks (tx_track tx) ops).
Proof.
  intros Hnd Hlen Hfull Hsz H0 Hrun Henc Hguard Hpos Hcons.
  pose proof (ghost_ginv tracks ops cs fr0 fr Hnd Hlen Hfull H0 Hrun) as Hi.
  destruct Hi as (_ & _ & _ & _ & Hdat & _).
  pose proof (track_fulls_ghost tracks (tx_track tx) ops []) as HA. cbn [track_fulls app] in HA.
  rewrite (roundtrip_multi tracks ops cs fr0 fr opt fe pos0 tx Hnd Hlen Hfull Hsz H0 Hrun Henc).
  - rewrite HA. unfold consistent in Hcons. destruct (added_fulls tracks (tx_track tx) ops) as [|f l]; [reflexivity|].
    cbn [tfdt_of set_base td_base]. f_equal. exact (proj2 Hcons).
  - rewrite <- Hdat. exact Hguard.
  - exact Hpos.
  - rewrite HA. unfold consistent in Hcons. destruct (added_fulls tracks (tx_track tx) ops) as [|f l]; [cbn; lia|].
    cbn [tfdt_of set_base td_base]. exact (proj1 Hcons).
Qed.

(* data offsets and tfdt of the fragment a history builds (before encoding) *)
Lemma offsets_multi tracks ops cs fr0 fr :
  NoDup tracks -> N.of_nat (length ops) < 4294967296 -> forallb is_full_to ops = true ->
  Forall (fun o => sized_f (op_full o)) ops ->
  ginv tracks [] fr0 -> run_ops fr0 ops = (cs, Some fr) ->
  let g := ghost tracks [] ops in
  let rr := runs_of g in
  let m := md_size_touch (fr_mdat fr) in
  let base := moof_size fr + md_header_size m in
  base + lenN (md_data (fr_mdat fr)) < 2147483648 ->
  set_offsets fr = fr_with fr (with_offsets fr (fun r => Z.of_N (base + run_pos rr (tr_won r)))) m (fr_next fr) /\
  md_data (fr_mdat fr) = all_data g /\
  forall t, In t (fr_trafs fr) ->
    tf_truns t = map canon_of (specs_of (track_of t) g) /\
    Forall (placed (md_data (fr_mdat fr)) rr) (specs_of (track_of t) g) /\
    tf_dt t = tfdt_of (added_fulls tracks (track_of t) ops).
Proof.
  intros Hnd Hlen Hfull Hsz H0 Hrun g rr m base Hguard.
  pose proof (ghost_ginv tracks ops cs fr0 fr Hnd Hlen Hfull H0 Hrun) as Hi. fold g in Hi.
  assert (Hs : sized g) by (apply ghost_sized; [constructor|exact Hsz]).
  pose proof (all_truns_perm tracks g fr Hnd Hi) as Hperm.
  destruct Hi as (Hm & Htr & Hn & Hf & Hdat & Hpar & Hlaz).
  split; [|split; [exact Hdat|]].
  - apply set_offsets_runs; [exact Hperm|]. unfold rr. rewrite tsum_prs_sized by exact Hs.
    rewrite <- Hdat. exact Hguard.
  - intros t Hin. destruct Hm as (_ & _ & Hft). rewrite Forall_forall in Hft, Hf.
    split; [rewrite (Hft t Hin); apply mk_truns_specs|]. split.
    + rewrite Hdat. apply (specs_placed (track_of t) g []). exact Hs.
    + destruct (Hf t Hin) as [_ Hd]. rewrite Hd. unfold g. rewrite track_fulls_ghost. reflexivity.
Qed.

(* ------------------------------------------------------------------ extra boxes do not matter for the invariant *)
Lemma set_extras_Forall (P : traf -> Prop) :
  (forall t e, P t -> P (mkTraf (tf_hd t) (tf_dt t) (tf_truns t) e)) ->
  forall ts exs, Forall P ts -> Forall P (set_extras ts exs).
Proof.
  intros HP. induction ts as [|t ts IH]; intros exs H; [destruct exs; exact H|].
  inversion H as [|? ? Ht Hts]; subst. destruct exs as [|e exs]; [exact H|]. cbn [set_extras].
  constructor; [apply HP; exact Ht|apply IH; exact Hts].
Qed.

Lemma set_extras_map {B} (f : traf -> B) :
  (forall t e, f (mkTraf (tf_hd t) (tf_dt t) (tf_truns t) e) = f t) ->
  forall ts exs, map f (set_extras ts exs) = map f ts.
Proof.
  intros Hf. induction ts as [|t ts IH]; intros exs; [destruct exs; reflexivity|].
  destruct exs as [|e exs]; [reflexivity|]. cbn [set_extras map]. rewrite Hf, IH. reflexivity.
Qed.

Lemma ginv_extras tracks g fr pre mx post exs :
  ginv tracks g fr -> ginv tracks g (with_extras fr pre mx post exs).
Proof.
  intros ((Hn & Hd & Hf) & Htr & Hne & Hhd & Hdat). unfold ginv, multi_inv, with_extras.
  cbn [fr_trafs fr_next fr_mdat]. repeat split; try tauto.
  - rewrite set_extras_map; [exact Hd|reflexivity].
  - apply set_extras_Forall; [|exact Hf]. intros t e H. exact H.
  - rewrite set_extras_map; [exact Htr|reflexivity].
  - apply set_extras_Forall; [|exact Hhd]. intros t e H. exact H.
Qed.

Lemma create_multi_extras_ginv tracks pre mx post exs :
  NoDup tracks -> ginv tracks [] (with_extras (create_multi tracks) pre mx post exs).
Proof. intros H. apply ginv_extras, create_multi_ginv. exact H. Qed.

(* ------------------------------------------------------------------ single-track fragments *)
(* CreateFragment(seq,T) + extra boxes, then AddFullSample / AddFullSampleToTrack *)
Definition sinv (T : N) (fl : list fullsample) (fr : frag) : Prop :=
  (exists ex, fr_trafs fr = [mkTraf (create_tfhd T) (tfdt_of fl) [canon 0 (map fs_s fl)] ex]) /\
  fr_next fr = 1 /\
  md_data (fr_mdat fr) = flat_map fs_data fl /\ md_parts (fr_mdat fr) = [] /\ md_lazy (fr_mdat fr) = 0.

Lemma create_fragment_sinv T pre mx post exs : sinv T [] (with_extras (create_fragment T) pre mx post exs).
Proof.
  unfold sinv, with_extras. cbn [create_fragment fr_trafs fr_next fr_mdat md_data md_parts md_lazy].
  repeat split. destruct exs as [|e exs]; cbn [set_extras]; eexists; reflexivity.
Qed.

Lemma tfdt_of_snoc fl s d data :
  lenN fl < 4294967296 ->
  (if u32 (lenN (map fs_s fl)) =? 0 then set_base d else tfdt_of fl) = tfdt_of (fl ++ [mkFull s d data]).
Proof.
  intros Hb. replace (lenN (map fs_s fl)) with (lenN fl) by (unfold lenN; rewrite map_length; reflexivity).
  rewrite u32_small by exact Hb. destruct fl as [|f0 fl]; [reflexivity|].
  rewrite lenN_cons. destruct (1 + lenN fl =? 0) eqn:E; [apply N.eqb_eq in E; lia|reflexivity].
Qed.

Lemma step_sinv T fl fr o fr' :
  lenN fl < 4294967296 -> is_full o = true -> sinv T fl fr -> step fr o = Ok fr' ->
  hits T o = true /\ sinv T (fl ++ [op_full o]) fr'.
Proof.
  intros Hb Hf ((ex & Ht) & Hn & Hd & Hp & Hl) H.
  destruct o as [s d data|t s d data|t s d|s d|ss d|d ss data]; try discriminate;
    cbn [step hits op_track op_full op_first_sample op_dts op_data] in *.
  - unfold add_first in H. rewrite Ht in H. cbn [tf_truns rbind tf_hd tf_dt tf_extra tr_samples canon] in H.
    injection H as <-. split; [reflexivity|]. unfold sinv.
    cbn [fr_with fr_trafs fr_next fr_mdat md_add_data md_data md_parts md_lazy].
    rewrite (tfdt_of_snoc fl s d data Hb), tr_add_canon, map_app, flat_map_app, Hd.
    cbn [map flat_map fs_s fs_data]. rewrite app_nil_r. repeat split; try assumption. eexists; reflexivity.
  - unfold add_sample_to_track in H. rewrite Ht, Hn in H. cbn [add_to_track_trafs tf_hd tf_track create_tfhd] in H.
    destruct (T =? t) eqn:E; [|discriminate].
    unfold add_to_traf in H. cbn [tf_truns last removelast tr_won canon tf_hd tf_extra tf_dt app tr_samples] in H.
    change (u32 (1 + 4294967295)) with 0 in H. cbn [N.eqb negb rbind] in H. injection H as <-.
    split; [rewrite N.eqb_sym; exact E|]. unfold sinv.
    cbn [fr_with fr_trafs fr_next fr_mdat md_add_data md_set_lazy0 md_add_lazy md_data md_parts md_lazy].
    rewrite (tfdt_of_snoc fl s d data Hb), tr_add_canon, map_app, flat_map_app, Hd.
    cbn [map flat_map fs_s fs_data]. rewrite app_nil_r. repeat split; try assumption. eexists; reflexivity.
Qed.

Lemma step_sinv_err T fl fr o : is_full o = true -> sinv T fl fr -> step fr o = Err -> hits T o = false.
Proof.
  intros Hf ((ex & Ht) & Hn & _) H. apply (step_single_err T (map fs_s fl) fr o); [|exact H].
  exists (tfdt_of fl), ex. split; assumption.
Qed.

Definition added1_fulls (T : N) (ops : list op) : list fullsample := map op_full (filter (hits T) ops).

Lemma history_sinv T ops : forall fl fr cs fr',
  lenN fl + N.of_nat (length ops) < 4294967296 -> forallb is_full ops = true ->
  sinv T fl fr -> run_ops fr ops = (cs, Some fr') -> sinv T (fl ++ added1_fulls T ops) fr'.
Proof.
  induction ops as [|o ops IH]; intros fl fr cs fr' Hb Hf Hi H; cbn [run_ops] in H.
  - injection H as _ <-. unfold added1_fulls. cbn. rewrite app_nil_r. exact Hi.
  - cbn [forallb] in Hf. apply andb_true_iff in Hf. destruct Hf as [Hf1 Hf2]. cbn [length] in Hb.
    destruct (step fr o) as [fr1| | |] eqn:E; try discriminate.
    + destruct (run_ops fr1 ops) as [cs1 r1] eqn:E1. injection H as _ ->.
      destruct (step_sinv T fl fr o fr1 ltac:(lia) Hf1 Hi E) as [Hh Hi1].
      assert (Hb1 : lenN (fl ++ [op_full o]) + N.of_nat (length ops) < 4294967296).
      { rewrite lenN_app. unfold lenN at 2. cbn [length]. lia. }
      specialize (IH _ _ _ _ Hb1 Hf2 Hi1 E1).
      unfold added1_fulls in *. cbn [filter]. rewrite Hh. cbn [map]. rewrite <- app_assoc in IH. exact IH.
    + destruct (run_ops fr ops) as [cs1 r1] eqn:E1. injection H as _ ->.
      pose proof (step_sinv_err T fl fr o Hf1 Hi E) as Hh.
      assert (Hb1 : lenN fl + N.of_nat (length ops) < 4294967296) by lia.
      specialize (IH _ _ _ _ Hb1 Hf2 Hi E1).
      unfold added1_fulls in *. cbn [filter]. rewrite Hh. exact IH.
Qed.

(* a single-track fragment holding at least one sample is the one-run instance of the general invariant *)
Lemma sinv_ginv T fl fr : fl <> [] -> sinv T fl fr -> ginv [T] [(T, fl)] fr.
Proof.
  intros Hne ((ex & Ht) & Hn & Hd & Hp & Hl). unfold ginv, multi_inv. rewrite Ht, Hn.
  cbn [runs_of map fst snd mk_truns track_fulls all_data app tf_hd tf_track create_tfhd tf_truns tf_dt].
  rewrite ?N.eqb_refl. cbn [app]. unfold track_of. cbn [tf_hd tf_track create_tfhd map].
  rewrite ?N.eqb_refl. cbn [app].
  repeat split; try assumption.
  - constructor; [intros []|constructor].
  - constructor; [|constructor]. cbn [tf_truns tf_hd tf_track create_tfhd]. rewrite N.eqb_refl. reflexivity.
  - constructor; [|constructor]. cbn. split; [left; reflexivity|exact Hne].
  - constructor; [|constructor]. cbn [tf_dt tf_hd tf_track create_tfhd]. rewrite N.eqb_refl. split; reflexivity.
Qed.

Lemma roundtrip_single T ops cs fr opt fe pos0 tx pre mx post exs :
  N.of_nat (length ops) < 4294967296 -> forallb is_full ops = true ->
  Forall (fun o => sized_f (op_full o)) ops ->
  run_ops (with_extras (create_fragment T) pre mx post exs) ops = (cs, Some fr) ->
  encode_frag opt fr = Ok fe ->
  added1_fulls T ops <> [] ->
  moof_size fe + md_header_size (fr_mdat fe) + lenN (md_data (fr_mdat fr)) < 2147483648 ->
  pos0 + fr_pre fe < 4611686018427387904 ->
  consistent (added1_fulls T ops) ->
  get_full_samples (decoded_view fe pos0 []) (Some tx) =
    Ok (if tx_track tx =? T then added1_fulls T ops else []).
Proof.
  intros Hlen Hfull Hsz Hrun Henc Hne Hguard Hpos Hcons.
  pose proof (history_sinv T ops [] _ cs fr ltac:(unfold lenN; cbn [length]; lia) Hfull
                (create_fragment_sinv T pre mx post exs) Hrun) as Hsi. cbn [app] in Hsi.
  pose proof (sinv_ginv T _ fr Hne Hsi) as Hi.
  assert (Hs : sized [(T, added1_fulls T ops)]).
  { constructor; [|constructor]. cbn [snd]. unfold added1_fulls. apply Forall_forall. intros f Hf.
    apply in_map_iff in Hf. destruct Hf as (o & <- & Ho). apply filter_In in Ho.
    rewrite Forall_forall in Hsz. apply Hsz. exact (proj1 Ho). }
  assert (Hdat : md_data (fr_mdat fr) = all_data [(T, added1_fulls T ops)]).
  { destruct Hi as (_ & _ & _ & _ & Hd & _). exact Hd. }
  rewrite (roundtrip_ginv [T] _ fr opt fe pos0 tx (ltac:(repeat constructor; intros []) : NoDup [T]) Hi Hs Henc).
  - cbn [track_fulls app]. rewrite (N.eqb_sym T). destruct (tx_track tx =? T); [|reflexivity].
    unfold consistent in Hcons. destruct (added1_fulls T ops) as [|f l]; [congruence|].
    cbn [tfdt_of set_base td_base]. f_equal. exact (proj2 Hcons).
  - rewrite <- Hdat. exact Hguard.
  - exact Hpos.
  - cbn [track_fulls app]. destruct (T =? tx_track tx); [|cbn; lia].
    unfold consistent in Hcons. destruct (added1_fulls T ops) as [|f l]; [congruence|].
    cbn [tfdt_of set_base td_base]. exact (proj1 Hcons).
Qed.

(* ------------------------------------------------------------------ final statements (C05Theorems) *)
Lemma roundtrip_multi_final tracks pre mx post exs ops cs fr opt fe pos0 tx :
  NoDup tracks -> N.of_nat (length ops) < 4294967296 -> forallb is_full_to ops = true ->
  Forall (fun o => sized_f (op_full o)) ops ->
  run_ops (with_extras (create_multi tracks) pre mx post exs) ops = (cs, Some fr) ->
  encode_frag opt fr = Ok fe ->
  moof_size fe + md_header_size (fr_mdat fe) + lenN (md_data (fr_mdat fr)) < 2147483648 ->
  pos0 + fr_pre fe < 4611686018427387904 ->
  consistent (added_fulls tracks (tx_track tx) ops) ->
  get_full_samples (decoded_view fe pos0 []) (Some tx) = Ok (added_fulls tracks (tx_track tx) ops).
Proof.
  intros Hnd Hlen Hfull Hsz Hrun. apply (roundtrip_multi_ops tracks ops cs (with_extras (create_multi tracks) pre mx post exs) fr); try assumption.
  apply create_multi_extras_ginv. exact Hnd.
Qed.

Lemma offsets_multi_final tracks pre mx post exs ops cs fr :
  NoDup tracks -> N.of_nat (length ops) < 4294967296 -> forallb is_full_to ops = true ->
  Forall (fun o => sized_f (op_full o)) ops ->
  run_ops (with_extras (create_multi tracks) pre mx post exs) ops = (cs, Some fr) ->
  let g := ghost tracks [] ops in
  let rr := runs_of g in
  let m := md_size_touch (fr_mdat fr) in
  let base := moof_size fr + md_header_size m in
  base + lenN (md_data (fr_mdat fr)) < 2147483648 ->
  set_offsets fr = fr_with fr (with_offsets fr (fun r => Z.of_N (base + run_pos rr (tr_won r)))) m (fr_next fr) /\
  md_data (fr_mdat fr) = all_data g /\
  forall t, In t (fr_trafs fr) ->
    tf_truns t = map canon_of (specs_of (track_of t) g) /\
    Forall (placed (md_data (fr_mdat fr)) rr) (specs_of (track_of t) g) /\
    tf_dt t = tfdt_of (added_fulls tracks (track_of t) ops).
Proof.
  intros Hnd Hlen Hfull Hsz Hrun. apply (offsets_multi tracks ops cs (with_extras (create_multi tracks) pre mx post exs) fr); try assumption.
  apply create_multi_extras_ginv. exact Hnd.
Qed.

Lemma roundtrip_multi_nil_final T0 rest pre mx post exs ops cs fr opt fe pos0 :
  let tracks := T0 :: rest in
  NoDup tracks -> N.of_nat (length ops) < 4294967296 -> forallb is_full_to ops = true ->
  Forall (fun o => sized_f (op_full o)) ops ->
  run_ops (with_extras (create_multi tracks) pre mx post exs) ops = (cs, Some fr) ->
  encode_frag opt fr = Ok fe ->
  moof_size fe + md_header_size (fr_mdat fe) + lenN (md_data (fr_mdat fr)) < 2147483648 ->
  pos0 + fr_pre fe < 4611686018427387904 ->
  consistent (added_fulls tracks T0 ops) ->
  get_full_samples (decoded_view fe pos0 []) None = Ok (added_fulls tracks T0 ops).
Proof.
  intros tracks Hnd Hlen Hfull Hsz Hrun Henc Hguard Hpos Hcons.
  pose proof (ghost_ginv tracks ops cs _ fr Hnd Hlen Hfull (create_multi_extras_ginv tracks pre mx post exs Hnd) Hrun) as Hi.
  assert (Hs : sized (ghost tracks [] ops)) by (apply ghost_sized; [constructor|exact Hsz]).
  pose proof Hi as (_ & _ & _ & _ & Hdat & _).
  pose proof (track_fulls_ghost tracks T0 ops []) as HA. cbn [track_fulls app] in HA.
  rewrite (roundtrip_ginv_nil tracks _ fr opt fe pos0 T0 rest eq_refl Hnd Hi Hs Henc).
  - rewrite HA. unfold consistent in Hcons. destruct (added_fulls tracks T0 ops) as [|f l]; [reflexivity|].
    cbn [tfdt_of set_base td_base]. f_equal. exact (proj2 Hcons).
  - rewrite <- Hdat. exact Hguard.
  - exact Hpos.
  - rewrite HA. unfold consistent in Hcons. destruct (added_fulls tracks T0 ops) as [|f l]; [cbn; lia|].
    cbn [tfdt_of set_base td_base]. exact (proj1 Hcons).
Qed.
