(* C11FetchProofs.v — the segmenter's per-sample fetch (C11FetchModel.v) returns sample n of the naive
   expansion of the tables (C11Spec.v / C09Spec.v), for every consistent track whose tables point into the
   file.  Composes the C09 query theorems. *)
From V.lib Require Import Base.
From V.c09 Require Import C09Model C09Spec C09BaseProofs C09SttsProofs C09CttsProofs C09StscProofs C09TrakProofs.
From V.c05 Require Import C05Model C05FragModel.
From V.c11 Require Import C11FetchModel C11Spec.

(* ------------------------------------------------------------------ lists *)
Lemma skipn_skipn' {A} (l : list A) : forall a b, skipn b (skipn a l) = skipn (a + b) l.
Proof.
  induction l as [|x t IH]; intros a b; [rewrite !skipn_nil; reflexivity|].
  destruct a as [|a]; [reflexivity|]. cbn [skipn Nat.add]. apply IH.
Qed.

Lemma sub_list_sub_list {A} (l : list A) a n b m :
  (b + m <= n)%nat -> sub_list (sub_list l a n) b m = sub_list l (a + b) m.
Proof.
  intros H. unfold sub_list. rewrite skipn_firstn_comm, firstn_firstn, skipn_skipn'.
  replace (Nat.min m (n - b)) with m by lia. reflexivity.
Qed.

Lemma sub_list_length {A} (l : list A) a n : (a + n <= length l)%nat -> length (sub_list l a n) = n.
Proof. intros H. unfold sub_list. rewrite firstn_length, skipn_length. lia. Qed.

Lemma in_seqN x : forall k s, In x (seqN s k) <-> s <= x < s + N.of_nat k.
Proof.
  induction k as [|k IH]; intros s; cbn [seqN In]; [change (N.of_nat 0) with 0; split; [tauto|lia]|].
  rewrite IH, Nat2N.inj_succ. split; [intros [->|?]|intros ?]; lia.
Qed.

Lemma seqN_app : forall k1 k2 s, seqN s (k1 + k2) = seqN s k1 ++ seqN (s + N.of_nat k1) k2.
Proof.
  induction k1 as [|k1 IH]; intros k2 s; cbn [seqN Nat.add app].
  - f_equal. lia.
  - rewrite IH. replace (s + 1 + N.of_nat k1) with (s + N.of_nat (S k1)) by (rewrite Nat2N.inj_succ; lia). reflexivity.
Qed.

(* ------------------------------------------------------------------ offsets *)
Lemma add_sizes_ok tb : C09Spec.consistent tb = true -> forall k s off,
  1 <= s -> s - 1 + N.of_nat k <= nsamples tb ->
  off + sumN (skipn (N.to_nat (s - 1)) (sizes tb)) < 18446744073709551616 ->
  add_sizes (t_stsz tb) k s off = Ok (off + sumN (sublist (sizes tb) (s - 1) (N.of_nat k))).
Proof.
  intros H. induction k as [|k IH]; intros s off Hs Hlen Hb.
  - cbn [add_sizes]. unfold sublist. cbn [N.of_nat N.to_nat firstn sumN]. f_equal. lia.
  - cbn [add_sizes]. destruct (size_correct tb H s ltac:(lia)) as [x [Hx1 Hx2]].
    rewrite Hx2. cbn [rbind]. unfold S_size in Hx1. destruct (s =? 0) eqn:E0; [lia|].
    rewrite (skipn_nthN _ _ _ Hx1) in Hb. cbn [sumN] in Hb.
    rewrite (sublist_S _ _ _ _ Hx1). cbn [sumN].
    rewrite u64_small by lia. replace (s - 1 + 1) with (s + 1 - 1) in * by lia.
    rewrite IH; [f_equal; lia|lia|lia|lia].
Qed.

Lemma fetch_chunk_offset_ok tb c o : S_chunk_offset tb c = Some o -> fetch_chunk_offset tb c = Ok o.
Proof.
  unfold S_chunk_offset, offsets, fetch_chunk_offset. destruct (c =? 0) eqn:E; [discriminate|].
  destruct (t_stco tb) as [l|].
  - intros Hn. apply idx_m1_Some; [lia|exact Hn].
  - destruct (t_co64 tb) as [l|]; intros Hn; [apply idx_m1_Some; [lia|exact Hn]|].
    rewrite nthN_nil in Hn. discriminate.
Qed.

Lemma fic_ge1 tb c : 1 <= S_first_in_chunk tb c.
Proof. unfold S_first_in_chunk. lia. Qed.

Lemma sample_offset_ok tb : C09Spec.consistent tb = true -> forall n, 1 <= n <= nsamples tb ->
  exists o, S_offset_of tb n = Some o /\ sample_offset tb n = Ok o /\ o + sumN (sizes tb) < 2 * 18446744073709551616.
Proof.
  intros H n Hn.
  destruct (chunk_of_sample_correct tb H n Hn) as [c [Hc [Hcr [Hfic [_ Hq]]]]].
  destruct (get_offset_correct tb H c Hcr) as [o [Ho _]].
  pose proof (offset_bound tb c o H Ho) as Hob.
  pose proof (fic_ge1 tb c) as Hf1.
  unfold S_offset_of, sample_offset. rewrite Hc, Ho, Hq. cbn [rbind].
  rewrite (fetch_chunk_offset_ok tb c o Ho). cbn [rbind].
  eexists. split; [reflexivity|].
  rewrite (add_sizes_ok tb H); try lia.
  - rewrite N2Nat.id. unfold S_total_size. replace (n - 1 + 1 - S_first_in_chunk tb c) with (n - S_first_in_chunk tb c) by lia.
    split; [reflexivity|].
    pose proof (total_size_le tb (S_first_in_chunk tb c) (n - 1)) as Ht. unfold S_total_size in Ht.
    replace (n - 1 + 1 - S_first_in_chunk tb c) with (n - S_first_in_chunk tb c) in Ht by lia. lia.
  - pose proof (sumN_skipn_le (sizes tb) (N.to_nat (S_first_in_chunk tb c - 1))). lia.
Qed.

(* ------------------------------------------------------------------ bytes *)
Lemma data_ok_parts f tb : data_ok f tb = true ->
  (forall n, 1 <= n <= nsamples tb -> sample_in f tb n = true) /\
  pf_mdat_start f + pf_mdat_len f <= lenN (pf_bytes f) /\ lenN (pf_bytes f) < 9223372036854775808 /\
  (pf_lazy f = true -> 0 < pf_mdat_len f).
Proof.
  unfold data_ok. intros H. repeat (apply andb_prop in H; destruct H as [H ?]).
  split; [|split; [lia|split; [lia|]]].
  - intros n Hn. rewrite forallb_forall in H. apply H. apply in_seqN. lia.
  - intros Hl. rewrite Hl in *. lia.
Qed.

Lemma sample_bytes_ok f tb n o s : data_ok f tb = true -> 1 <= n <= nsamples tb ->
  S_offset_of tb n = Some o -> S_size tb n = Some s ->
  sample_bytes f o s = Ok (sub_list (pf_bytes f) (N.to_nat o) (N.to_nat s)) /\ o + s <= lenN (pf_bytes f).
Proof.
  intros Hd Hn Ho Hs. destruct (data_ok_parts f tb Hd) as [Hin [Hm [Hlen Hlz]]].
  specialize (Hin n Hn). unfold sample_in in Hin. rewrite Ho, Hs in Hin.
  unfold sample_bytes, is_lazy, mdat_data. destruct (pf_lazy f) eqn:El.
  - specialize (Hlz eq_refl). destruct (0 <? pf_mdat_len f) eqn:E0; [|lia]. cbn [andb].
    destruct (9223372036854775808 <=? o) eqn:E1; [lia|].
    destruct (s =? 0) eqn:E2.
    + replace s with 0 by lia. unfold sub_list. cbn [N.to_nat firstn]. split; [reflexivity|lia].
    + destruct (lenN (pf_bytes f) <? o + s) eqn:E3; [lia|]. split; [reflexivity|lia].
  - cbn [andb]. apply andb_prop in Hin. destruct Hin as [H1 H2].
    rewrite sub64_small by lia.
    assert (Hl : lenN (sub_list (pf_bytes f) (N.to_nat (pf_mdat_start f)) (N.to_nat (pf_mdat_len f))) = pf_mdat_len f).
    { unfold lenN. rewrite sub_list_length; unfold lenN in *; lia. }
    rewrite Hl. rewrite u64_small by lia.
    destruct (o - pf_mdat_start f + s <? o - pf_mdat_start f) eqn:E1; [lia|].
    destruct (pf_mdat_len f <? o - pf_mdat_start f + s) eqn:E2; [lia|]. cbn [orb].
    rewrite sub_list_sub_list by lia. split; [|lia]. do 2 f_equal. lia.
Qed.

(* ------------------------------------------------------------------ one sample *)
Lemma fetch_full_sample_ok f tb : C09Spec.consistent tb = true -> data_ok f tb = true ->
  forall n, 1 <= n <= nsamples tb ->
  exists s, S_full f tb n = Some s /\ fetch_full_sample f tb n = Ok s.
Proof.
  intros H Hd n Hn. unfold S_full, S_meta, S_bytes, fetch_full_sample.
  destruct (sample_offset_ok tb H n Hn) as [o [Ho1 [Ho2 _]]].
  destruct (flags_correct tb H n Hn) as [fl [Hf1 Hf2]].
  destruct (decode_time_correct tb H n Hn) as [t [d [Ht1 [Hd1 Ht2]]]].
  destruct (size_correct tb H n Hn) as [s [Hs1 Hs2]].
  destruct (sample_bytes_ok f tb n o s Hd Hn Ho1 Hs1) as [Hb _].
  rewrite Ho1, Ho2, Hf1, Hf2, Ht1, Hd1, Ht2, Hs1, Hs2. cbn [rbind fst snd].
  destruct (t_ctts tb) as [c|] eqn:Ec.
  - destruct (cto_correct tb c H Ec n Hn) as [x [Hx1 Hx2]]. rewrite Hx1, Hx2. cbn [rbind]. rewrite Hb. cbn [rbind].
    eexists. split; reflexivity.
  - cbn [rbind]. rewrite Hb. cbn [rbind]. eexists. split; reflexivity.
Qed.

Lemma fetch_loop_ok f tb : C09Spec.consistent tb = true -> data_ok f tb = true ->
  forall k nr, 1 <= nr -> nr + N.of_nat k <= nsamples tb + 1 ->
  exists l, fetch_loop f tb k nr = Ok l /\ map Some l = map (S_full f tb) (seqN nr k).
Proof.
  intros H Hd. induction k as [|k IH]; intros nr H1 H2.
  - exists []. split; reflexivity.
  - destruct (fetch_full_sample_ok f tb H Hd nr ltac:(lia)) as [s [Hs1 Hs2]].
    destruct (IH (nr + 1) ltac:(lia) ltac:(lia)) as [l [Hl Hm]].
    exists (s :: l). cbn [fetch_loop seqN map]. rewrite Hs2, Hl, Hs1, Hm. split; reflexivity.
Qed.

Lemma fetch_interval_ok f tb : C09Spec.consistent tb = true -> data_ok f tb = true ->
  forall a b, 1 <= a -> a <= b + 1 -> b <= nsamples tb ->
  exists l, fetch_interval f tb a b = Ok l /\ map Some l = S_interval f tb a b.
Proof.
  intros H Hd a b Ha Hab Hb. unfold fetch_interval, S_interval.
  destruct (b + 1 <? a) eqn:E; [lia|]. apply (fetch_loop_ok f tb H Hd); lia.
Qed.

(* ------------------------------------------------------------------ metadata only *)
Lemma fetch_meta_ok tb : C09Spec.consistent tb = true -> forall n, 1 <= n <= nsamples tb ->
  exists m, S_meta tb n = Some m /\ fetch_meta tb n = Ok (meta_sample m).
Proof.
  intros H n Hn. unfold S_meta, fetch_meta.
  destruct (flags_correct tb H n Hn) as [fl [Hf1 Hf2]].
  destruct (dur_correct tb H n Hn) as [d [Hd1 Hd2]].
  destruct (size_correct tb H n Hn) as [s [Hs1 Hs2]].
  rewrite Hf1, Hd1, Hs1, Hf2, Hd2, Hs2. cbn [rbind].
  destruct (t_ctts tb) as [c|] eqn:Ec.
  - destruct (cto_correct tb c H Ec n Hn) as [x [Hx1 Hx2]]. rewrite Hx1, Hx2. cbn [rbind]. eexists. split; reflexivity.
  - cbn [rbind]. eexists. split; reflexivity.
Qed.

Lemma fetch_meta_loop_ok tb : C09Spec.consistent tb = true ->
  forall k nr, 1 <= nr -> nr + N.of_nat k <= nsamples tb + 1 ->
  exists l, fetch_meta_loop tb k nr = Ok l /\
            map Some l = map (fun n => option_map meta_sample (S_meta tb n)) (seqN nr k).
Proof.
  intros H. induction k as [|k IH]; intros nr H1 H2.
  - exists []. split; reflexivity.
  - destruct (fetch_meta_ok tb H nr ltac:(lia)) as [s [Hs1 Hs2]].
    destruct (IH (nr + 1) ltac:(lia) ltac:(lia)) as [l [Hl Hm]].
    exists (meta_sample s :: l). cbn [fetch_meta_loop seqN map]. rewrite Hs2, Hl, Hs1, Hm. split; reflexivity.
Qed.

Lemma fetch_meta_interval_ok tb : C09Spec.consistent tb = true ->
  forall a b, 1 <= a -> a <= b + 1 -> b <= nsamples tb ->
  exists l, fetch_meta_interval tb a b = Ok l /\
            map Some l = map (fun n => option_map meta_sample (S_meta tb n)) (seqN a (N.to_nat (b + 1 - a))).
Proof.
  intros H a b Ha Hab Hb. unfold fetch_meta_interval.
  destruct (b + 1 <? a) eqn:E; [lia|]. apply (fetch_meta_loop_ok tb H); lia.
Qed.

(* the full samples of an interval carry the metadata GetSamplesForInterval returns *)
Lemma S_full_meta f tb n s : S_full f tb n = Some s ->
  option_map meta_sample (S_meta tb n) = Some (fs_s s).
Proof.
  unfold S_full. destruct (S_meta tb n) as [m|]; [|discriminate].
  destruct (S_decode_time tb n); [|discriminate]. destruct (S_bytes f tb n); [|discriminate].
  intros E. injection E as <-. reflexivity.
Qed.
